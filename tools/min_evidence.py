#!/usr/bin/env python3
"""Writes a minimal evidence file when the harness itself cannot be built."""
import json, sys, time
prop, tier, msg = sys.argv[1], sys.argv[2], sys.argv[3]
if tier not in ("quick", "thorough"): tier = "quick"
ev = {"property_id": prop, "tier": tier, "seed": 0, "level": "proof",
      "coverage": {"evaluations": 1, "distinct_nontrivial": 0, "explanation": msg,
                   "obligations": 1, "discharged": 0, "checker_cmd": "./check.sh", "trusted_base": []},
      "wall_s": 0.0, "violations": 1}
json.dump(ev, open(f"/verif/evidence/{prop}.json", "w"), indent=1)
