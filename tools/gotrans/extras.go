package main

import (
	"bytes"
	"fmt"
	"go/ast"
	"go/printer"
	"go/token"
	"go/types"
	"io"
	"os"
	"path/filepath"
	"sort"
	"strings"
)

func printerFprint(w io.Writer, fset *token.FileSet, n any) {
	_ = printer.Fprint(w, fset, n)
}

// emitRetryLiterals extracts the initial delay and the growth factor of
// RetryHTTPSGetter.Get.
func emitRetryLiterals(p *pkgInfo, w *bytes.Buffer) {
	fn := findMethod(p, "RetryHTTPSGetter", "Get")
	if fn == nil {
		must(fmt.Errorf("RetryHTTPSGetter.Get not found"))
	}
	initial, factor, capped, selectArms := "?", "?", "?", 0
	// the delay variable is the one handed to time.After / time.NewTimer / time.Sleep
	dv := "delay"
	ast.Inspect(fn.Body, func(n ast.Node) bool {
		if call, ok := n.(*ast.CallExpr); ok && len(call.Args) == 1 {
			if sel, ok := call.Fun.(*ast.SelectorExpr); ok && isIdent(sel.X, "time") && (sel.Sel.Name == "After" || sel.Sel.Name == "NewTimer" || sel.Sel.Name == "Sleep") {
				if id, ok := call.Args[0].(*ast.Ident); ok {
					dv = id.Name
				}
			}
		}
		return true
	})
	ast.Inspect(fn.Body, func(n ast.Node) bool {
		switch s := n.(type) {
		case *ast.AssignStmt:
			if len(s.Lhs) == 1 && len(s.Rhs) == 1 {
				if id, ok := s.Lhs[0].(*ast.Ident); ok && id.Name == dv {
					if s.Tok == token.DEFINE {
						if v, ok := p.constVal(s.Rhs[0]); ok {
							initial = v
						}
					} else if s.Tok == token.ASSIGN {
						if be, ok := s.Rhs[0].(*ast.BinaryExpr); ok {
							x, xok := be.X.(*ast.Ident)
							y, yok := be.Y.(*ast.Ident)
							if be.Op == token.ADD && xok && yok && x.Name == dv && y.Name == dv {
								factor = "2"
							} else if be.Op == token.MUL {
								if v, ok := p.constVal(be.Y); ok && xok && x.Name == dv {
									factor = v
								}
								if v, ok := p.constVal(be.X); ok && yok && y.Name == dv {
									factor = v
								}
							}
						} else if sel, ok := s.Rhs[0].(*ast.SelectorExpr); ok && sel.Sel.Name == "MaxRetryDelay" {
							capped = "MaxRetryDelay"
						}
					} else if s.Tok == token.MUL_ASSIGN {
						if v, ok := p.constVal(s.Rhs[0]); ok {
							factor = v
						}
					}
				}
			}
		case *ast.SelectStmt:
			selectArms = len(s.Body.List)
		}
		return true
	})
	fmt.Fprintf(w, "\nDefinition trust_retry_initial_delay : string := %s.\n", coqString(initial))
	fmt.Fprintf(w, "Definition trust_retry_factor : string := %s.\n", coqString(factor))
	fmt.Fprintf(w, "Definition trust_retry_cap : string := %s.\n", coqString(capped))
	fmt.Fprintf(w, "Definition trust_retry_select_arms : N := %d%%N.\n", selectArms)
}

// emitOids extracts the []int literals of the OID variables.
func emitOids(p *pkgInfo, w *bytes.Buffer) {
	w.WriteString("\n")
	type kv struct {
		name string
		vals []string
	}
	var out []kv
	for _, f := range p.files {
		for _, d := range f.Decls {
			gd, ok := d.(*ast.GenDecl)
			if !ok || gd.Tok != token.VAR {
				continue
			}
			for _, sp := range gd.Specs {
				vs := sp.(*ast.ValueSpec)
				for i, n := range vs.Names {
					if i >= len(vs.Values) {
						continue
					}
					var lit *ast.CompositeLit
					ast.Inspect(vs.Values[i], func(x ast.Node) bool {
						if cl, ok := x.(*ast.CompositeLit); ok && lit == nil {
							if at, ok := cl.Type.(*ast.ArrayType); ok {
								if id, ok := at.Elt.(*ast.Ident); ok && id.Name == "int" {
									lit = cl
								}
							}
						}
						return true
					})
					if lit == nil {
						continue
					}
					var vals []string
					for _, e := range lit.Elts {
						v, ok := p.constVal(e)
						if !ok {
							v = "?"
						}
						vals = append(vals, v+"%N")
					}
					out = append(out, kv{n.Name, vals})
				}
			}
		}
	}
	sort.Slice(out, func(i, j int) bool { return out[i].name < out[j].name })
	for _, o := range out {
		fmt.Fprintf(w, "Definition pcs_oid_%s : list N := [%s].\n", o.name, strings.Join(o.vals, "; "))
	}
}

// sigOf renders a function's signature without parameter names.
func sigOf(p *pkgInfo, fd *ast.FuncDecl) string {
	var b bytes.Buffer
	for _, fl := range []*ast.FieldList{fd.Type.Params, fd.Type.Results} {
		b.WriteString("(")
		for _, t := range fieldTypes(fl) {
			printerFprint(&b, p.fset, t)
			b.WriteString(",")
		}
		b.WriteString(")")
	}
	return strings.ReplaceAll(b.String(), "uint8", "byte")
}

// bySig finds an unexported helper by name, else as the only function of the
// package with the given signature; the current name of each helper found that
// way is recorded in canon.
func bySig(p *pkgInfo, name, sig string) *ast.FuncDecl {
	if f := findFunc(p, name); f != nil {
		return f
	}
	var found []*ast.FuncDecl
	for _, file := range p.files {
		for _, d := range file.Decls {
			if fd, ok := d.(*ast.FuncDecl); ok && fd.Recv == nil && sigOf(p, fd) == sig {
				found = append(found, fd)
			}
		}
	}
	if len(found) == 1 {
		canon[found[0].Name.Name] = name
		return found[0]
	}
	return nil
}

// emitValidateTables extracts the option tables of checkOptionsLengths,
// exactByteMatch and the mask arguments of tdxQuoteV4.
func emitValidateTables(p *pkgInfo, w *bytes.Buffer) {
	w.WriteString("\n")
	// checkOptionsLengths: lengthCheck("name", SIZE, opts.X.Field) / lengthCheckMany("name", c, SIZE, opts.X.Field)
	var rows []fieldRow
	for _, h := range [][2]string{
		{"lengthCheck", "(string,int,[]byte,)(error,)"},
		{"lengthCheckMany", "(string,func(int) error,int,[][]byte,)(error,)"},
		{"byteCheck", "(string,string,int,[]byte,[]byte,)(error,)"},
		{"byteCheckRtmr", "(int,[][]byte,[][]byte,)(error,)"},
		{"byteCheckAny", "(int,[]byte,[][]byte,)(error,)"},
	} {
		bySig(p, h[0], h[1])
	}
	if fn := bySig(p, "checkOptionsLengths", "(*Options,)(error,)"); fn != nil {
		ast.Inspect(fn.Body, func(n ast.Node) bool {
			call, ok := n.(*ast.CallExpr)
			if !ok {
				return true
			}
			id, ok := call.Fun.(*ast.Ident)
			if !ok {
				return true
			}
			switch canonName(id.Name) {
			case "lengthCheck":
				if len(call.Args) == 3 {
					sz, _ := p.constVal(call.Args[1])
					rows = append(rows, fieldRow{lastSel(call.Args[2]), sz, "", "one"})
				}
			case "lengthCheckMany":
				if len(call.Args) == 4 {
					sz, _ := p.constVal(call.Args[2])
					c := "none"
					if cid, ok := call.Args[1].(*ast.Ident); ok && cid.Name != "nil" {
						c = cid.Name
					}
					rows = append(rows, fieldRow{lastSel(call.Args[3]), sz, c, "many"})
				}
			}
			return true
		})
	}
	emitRows(w, "validate_length_table", rows)

	// exactByteMatch: byteCheck(opt, field, SIZE, quote...GetF(), opts.X.Field) etc.
	rows = nil
	if fn := findFunc(p, "exactByteMatch"); fn != nil {
		ast.Inspect(fn.Body, func(n ast.Node) bool {
			call, ok := n.(*ast.CallExpr)
			if !ok {
				return true
			}
			id, ok := call.Fun.(*ast.Ident)
			if !ok {
				return true
			}
			switch canonName(id.Name) {
			case "byteCheck":
				if len(call.Args) == 5 {
					sz, _ := p.constVal(call.Args[2])
					rows = append(rows, fieldRow{stripGet(lastSel(call.Args[3])), sz, lastSel(call.Args[4]), "exact"})
				}
			case "byteCheckRtmr":
				if len(call.Args) == 3 {
					sz, _ := p.constVal(call.Args[0])
					rows = append(rows, fieldRow{stripGet(lastSel(call.Args[1])), sz, lastSel(call.Args[2]), "rtmr"})
				}
			case "byteCheckAny":
				if len(call.Args) == 3 {
					sz, _ := p.constVal(call.Args[0])
					rows = append(rows, fieldRow{stripGet(lastSel(call.Args[1])), sz, lastSel(call.Args[2]), "any"})
				}
			}
			return true
		})
	}
	emitRows(w, "validate_exact_table", rows)

	// tdxQuoteV4: the four groups and the mask arguments
	rows = nil
	if fn := findFunc(p, "tdxQuoteV4"); fn != nil {
		ast.Inspect(fn.Body, func(n ast.Node) bool {
			call, ok := n.(*ast.CallExpr)
			if !ok {
				return true
			}
			id, ok := call.Fun.(*ast.Ident)
			if !ok {
				return true
			}
			switch id.Name {
			case "exactByteMatch", "minVersionCheck":
				rows = append(rows, fieldRow{id.Name, "", "", "group"})
			case "validateXfam", "validateTdAttributes":
				if len(call.Args) == 3 {
					f1, _ := p.constVal(call.Args[1])
					f0, _ := p.constVal(call.Args[2])
					rows = append(rows, fieldRow{id.Name, f1, f0, stripGet(lastSel(call.Args[0]))})
				}
			}
			return true
		})
	}
	emitRows(w, "validate_groups_table", rows)
}

// ---- write sites ---------------------------------------------------------

// libWriter reports whether the called function is a standard-library routine
// that writes into a slice argument (resolved through the type checker, so
// pem.Decode, which only reads, is not confused with hex.Decode).
func libWriter(p *pkgInfo, fun ast.Expr) (string, bool) {
	var id *ast.Ident
	switch f := fun.(type) {
	case *ast.SelectorExpr:
		id = f.Sel
	case *ast.Ident:
		id = f
	default:
		return "", false
	}
	fn, ok := p.info.Uses[id].(*types.Func)
	if !ok || fn.Pkg() == nil {
		return "", false
	}
	pkg, name := fn.Pkg().Path(), fn.Name()
	full := pkg + "." + name
	sig, _ := fn.Type().(*types.Signature)
	isMethod := sig != nil && sig.Recv() != nil
	switch {
	case isMethod && (name == "Read" || name == "ReadAt" || name == "FillBytes" || name == "XORKeyStream" || name == "PutUint16" || name == "PutUint32" || name == "PutUint64"):
		return full, !strings.HasPrefix(name, "PutUint") // PutUintN already listed as "put"
	case isMethod && pkg == "encoding/base64" && (name == "Decode" || name == "Encode"):
		return full, true
	case isMethod && pkg == "encoding/binary" && strings.HasPrefix(name, "AppendUint"):
		return full, true
	}
	switch full {
	case "encoding/hex.Decode", "encoding/hex.Encode", "io.ReadFull", "io.ReadAtLeast", "crypto/rand.Read",
		"sort.Slice", "sort.SliceStable", "sort.Sort", "sort.Stable", "crypto/subtle.ConstantTimeCopy", "crypto/subtle.XORBytes",
		"encoding/binary.Read", "slices.Sort", "slices.SortFunc", "slices.SortStableFunc", "slices.Reverse", "slices.Insert",
		"slices.Delete", "slices.Compact", "slices.Grow", "unicode/utf8.AppendRune", "unicode/utf8.EncodeRune":
		return full, true
	}
	if (pkg == "strconv" || pkg == "fmt") && strings.HasPrefix(name, "Append") {
		return full, true
	}
	return "", false
}

type writeSite struct {
	file, fn, kind, dst, class string
	line                       int
}

// emitWriteSites lists every append / copy / index-assign / PutUintN site of the
// non-test files of the listed packages with the intra-procedural provenance
// class of the destination: "fresh" (make, clone, local array, result of a
// *ToAbiBytes / Sum256 call, nil var, hex/other call result) or "shared"
// (reaches a getter result, a parameter, or a field).
func emitWriteSites(root string, w *bytes.Buffer) {
	var sites []writeSite
	for _, rel := range []string{"abi", "verify", "validate", "pcs", "rtmr"} {
		p, err := loadPkg(root, rel)
		must(err)
		for _, f := range p.files {
			fname := filepath.Base(p.fset.Position(f.Pos()).Filename)
			for _, d := range f.Decls {
				fd, ok := d.(*ast.FuncDecl)
				if !ok || fd.Body == nil {
					continue
				}
				sites = append(sites, scanWrites(p, rel+"/"+fname, fd)...)
			}
		}
	}
	sort.Slice(sites, func(i, j int) bool {
		if sites[i].file != sites[j].file {
			return sites[i].file < sites[j].file
		}
		return sites[i].line < sites[j].line
	})
	fmt.Fprintf(w, "Definition write_sites : list (string * string * string * string) :=\n  [")
	for i, s := range sites {
		if i > 0 {
			w.WriteString(";\n   ")
		}
		fmt.Fprintf(w, "(%s, %s, %s, %s)", coqString(s.file+":"+s.fn), coqString(s.kind), coqString(s.dst), coqString(s.class))
	}
	w.WriteString("].\n\n")
	shared := 0
	for _, s := range sites {
		if s.class == "shared" {
			shared++
		}
	}
	fmt.Fprintf(w, "Definition write_sites_shared_count : N := %d%%N.\n", shared)
	if os.Getenv("GOTRANS_DEBUG") != "" {
		for _, s := range sites {
			fmt.Fprintf(os.Stderr, "%s:%d %s %s %s -> %s\n", s.file, s.line, s.fn, s.kind, s.dst, s.class)
		}
	}
}

func scanWrites(p *pkgInfo, file string, fd *ast.FuncDecl) []writeSite {
	// provenance of local identifiers: name -> class
	prov := map[string]string{}
	if fd.Type.Params != nil {
		for _, f := range fd.Type.Params.List {
			for _, n := range f.Names {
				prov[n.Name] = "shared"
			}
		}
	}
	if fd.Recv != nil {
		for _, f := range fd.Recv.List {
			for _, n := range f.Names {
				prov[n.Name] = "shared"
			}
		}
	}
	var classify func(e ast.Expr) string
	classify = func(e ast.Expr) string {
		switch x := e.(type) {
		case *ast.Ident:
			if x.Name == "nil" {
				return "fresh"
			}
			if c, ok := prov[x.Name]; ok {
				return c
			}
			return "shared" // package-level or unknown
		case *ast.SliceExpr:
			return classify(x.X)
		case *ast.IndexExpr:
			return classify(x.X)
		case *ast.ParenExpr:
			return classify(x.X)
		case *ast.StarExpr:
			return classify(x.X)
		case *ast.UnaryExpr:
			return classify(x.X)
		case *ast.CompositeLit:
			return "fresh"
		case *ast.BasicLit:
			return "fresh"
		case *ast.SelectorExpr:
			// field of something: as shared as its base, except fields of fresh locals
			return classify(x.X)
		case *ast.CallExpr:
			name := lastSel(x.Fun)
			switch {
			case name == "make" || name == "clone" || name == "new":
				return "fresh"
			case name == "append":
				if len(x.Args) > 0 {
					return classify(x.Args[0])
				}
				return "fresh"
			case strings.HasPrefix(name, "Get"):
				return "shared"
			case name == "string" || name == "byte":
				return "fresh"
			default:
				// results of other calls (ToAbiBytes, Sum256, DecodeString, Bytes, ...) are fresh
				return "fresh"
			}
		}
		return "shared"
	}
	var sites []writeSite
	add := func(pos token.Pos, kind string, dst ast.Expr) {
		sites = append(sites, writeSite{
			file: file, fn: fd.Name.Name, kind: kind,
			dst: exprString(p.fset, dst), class: classify(dst),
			line: p.fset.Position(pos).Line,
		})
	}
	ast.Inspect(fd.Body, func(n ast.Node) bool {
		switch s := n.(type) {
		case *ast.DeclStmt:
			if gd, ok := s.Decl.(*ast.GenDecl); ok && gd.Tok == token.VAR {
				for _, sp := range gd.Specs {
					vs := sp.(*ast.ValueSpec)
					for i, nm := range vs.Names {
						if i < len(vs.Values) {
							prov[nm.Name] = classify(vs.Values[i])
						} else {
							prov[nm.Name] = "fresh"
						}
					}
				}
			}
		case *ast.RangeStmt:
			c := classify(s.X)
			if id, ok := s.Key.(*ast.Ident); ok && id.Name != "_" {
				prov[id.Name] = "fresh"
			}
			if id, ok := s.Value.(*ast.Ident); ok && id.Name != "_" {
				prov[id.Name] = c
			}
		case *ast.AssignStmt:
			// index assignment is a write
			for _, l := range s.Lhs {
				if ix, ok := l.(*ast.IndexExpr); ok {
					if tv, ok := p.info.Types[ix.X]; ok {
						if _, isMap := tv.Type.Underlying().(interface{ Key() any }); isMap {
							continue
						}
					}
					add(ix.Pos(), "index", ix.X)
				}
			}
			// provenance
			if len(s.Lhs) == len(s.Rhs) {
				for i, l := range s.Lhs {
					if id, ok := l.(*ast.Ident); ok && id.Name != "_" {
						c := classify(s.Rhs[i])
						if s.Tok == token.DEFINE || prov[id.Name] == "" {
							prov[id.Name] = c
						} else if c == "shared" {
							prov[id.Name] = "shared"
						} else if call, ok := s.Rhs[i].(*ast.CallExpr); !ok || lastSel(call.Fun) != "append" {
							prov[id.Name] = c
						}
					}
				}
			} else if len(s.Rhs) == 1 {
				c := classify(s.Rhs[0])
				for _, l := range s.Lhs {
					if id, ok := l.(*ast.Ident); ok && id.Name != "_" {
						prov[id.Name] = c
					}
				}
			}
		case *ast.CallExpr:
			name := lastSel(s.Fun)
			switch {
			case name == "append" && len(s.Args) >= 1:
				if _, isIdent := s.Fun.(*ast.Ident); isIdent {
					add(s.Pos(), "append", s.Args[0])
				}
			case name == "copy" && len(s.Args) == 2:
				if _, isIdent := s.Fun.(*ast.Ident); isIdent {
					add(s.Pos(), "copy", s.Args[0])
				}
			case strings.HasPrefix(name, "PutUint") && len(s.Args) == 2:
				add(s.Pos(), "put", s.Args[0])
			default:
				// library routines that write into a slice argument: the destination is
				// the first argument of slice type
				if full, ok := libWriter(p, s.Fun); ok {
					for _, a := range s.Args {
						if tv, ok := p.info.Types[a]; ok && tv.Type != nil {
							if _, isSlice := tv.Type.Underlying().(*types.Slice); isSlice {
								add(s.Pos(), "libwrite:"+full, a)
								break
							}
						}
					}
				}
			}
		}
		return true
	})
	return sites
}
