module gotrans

go 1.20
