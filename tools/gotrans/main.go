// gotrans regenerates coq/Gen/*.v from the Go sources under a repository root.
//
// It emits (1) every package-level integer / string constant of the packages the
// properties depend on, (2) the field tables (parse, serialise, check) of the
// fixed-size ABI structures recovered from the bodies of the abi functions,
// (3) the option tables of validate, (4) literals of the retry getter and of
// the check tool, and (5) the inventory of in-place write sites.
//
// Output files are only rewritten when their content changes.
package main

import (
	"bytes"
	"flag"
	"fmt"
	"go/ast"
	"go/constant"
	"go/importer"
	"go/parser"
	"go/token"
	"go/types"
	"os"
	"path/filepath"
	"sort"
	"strconv"
	"strings"
)

type pkgInfo struct {
	name  string
	dir   string
	fset  *token.FileSet
	files []*ast.File
	info  *types.Info
	pkg   *types.Package
}

type stubImporter struct {
	root string
}

var (
	pkgCache = map[string]*types.Package{}
	srcFset  = token.NewFileSet()
	srcImp   types.Importer
)

const modPath = "github.com/google/go-tdx-guest/"

func (s stubImporter) Import(path string) (*types.Package, error) {
	if p, ok := pkgCache[path]; ok {
		return p, nil
	}
	var res *types.Package
	if strings.HasPrefix(path, modPath) {
		if pi, err := loadPkg(s.root, strings.TrimPrefix(path, modPath)); err == nil && pi.pkg != nil {
			res = pi.pkg
		}
	} else if !strings.Contains(strings.SplitN(path, "/", 2)[0], ".") {
		// standard library, from source
		if srcImp == nil {
			srcImp = importer.ForCompiler(srcFset, "source", nil)
		}
		if p, err := srcImp.Import(path); err == nil {
			res = p
		}
	}
	if res == nil {
		// Unknown (third-party) package: an empty package; uses become type errors
		// which we ignore (constants never depend on them).
		name := path[strings.LastIndex(path, "/")+1:]
		res = types.NewPackage(path, name)
		res.MarkComplete()
	}
	pkgCache[path] = res
	return res, nil
}

func loadPkg(root, rel string) (*pkgInfo, error) {
	dir := filepath.Join(root, rel)
	fset := token.NewFileSet()
	ents, err := os.ReadDir(dir)
	if err != nil {
		return nil, err
	}
	var files []*ast.File
	pkgName := ""
	for _, e := range ents {
		n := e.Name()
		if e.IsDir() || !strings.HasSuffix(n, ".go") || strings.HasSuffix(n, "_test.go") {
			continue
		}
		if strings.HasSuffix(n, "_windows.go") || strings.HasSuffix(n, "_macos.go") || strings.HasSuffix(n, "_darwin.go") {
			continue
		}
		f, err := parser.ParseFile(fset, filepath.Join(dir, n), nil, parser.ParseComments)
		if err != nil {
			return nil, err
		}
		if hasVerifTag(f) {
			continue
		}
		files = append(files, f)
		pkgName = f.Name.Name
	}
	if len(files) == 0 {
		return nil, fmt.Errorf("no Go files in %s", dir)
	}
	info := &types.Info{
		Types: map[ast.Expr]types.TypeAndValue{},
		Defs:  map[*ast.Ident]types.Object{},
		Uses:  map[*ast.Ident]types.Object{},
	}
	conf := types.Config{
		Importer: stubImporter{root},
		Error:    func(error) {},
		Sizes:    types.SizesFor("gc", "amd64"),
	}
	pkg, _ := conf.Check(pkgName, fset, files, info)
	return &pkgInfo{name: pkgName, dir: rel, fset: fset, files: files, info: info, pkg: pkg}, nil
}

func hasVerifTag(f *ast.File) bool {
	for _, cg := range f.Comments {
		for _, c := range cg.List {
			if strings.HasPrefix(c.Text, "//go:build") && strings.Contains(c.Text, "verif") {
				return true
			}
		}
	}
	return false
}

func coqIdent(s string) string {
	return strings.ReplaceAll(s, ".", "_")
}

func coqString(s string) string {
	return "\"" + strings.ReplaceAll(s, "\"", "\"\"") + "\""
}

// emitConsts writes every package-level constant as a Coq definition.
func emitConsts(p *pkgInfo, prefix string, w *bytes.Buffer) {
	scope := p.pkg.Scope()
	names := scope.Names()
	sort.Strings(names)
	var natNames []string
	defer func() {
		if len(natNames) > 0 {
			fmt.Fprintf(w, "\n#[global] Hint Unfold %s : %sconsts.\n", strings.Join(natNames, " "), prefix)
		}
	}()
	for _, n := range names {
		c, ok := scope.Lookup(n).(*types.Const)
		if !ok {
			continue
		}
		v := c.Val()
		switch v.Kind() {
		case constant.Int:
			if constant.Sign(v) < 0 {
				fmt.Fprintf(w, "Definition %s%s : Z := (%s)%%Z.\n", prefix, n, v.ExactString())
			} else {
				fmt.Fprintf(w, "Definition %s%s : N := %s%%N.\n", prefix, n, v.ExactString())
				if u, ok := constant.Uint64Val(v); ok && u <= 70000 {
					fmt.Fprintf(w, "Definition %s%s_nat : nat := %d.\n", prefix, n, u)
					natNames = append(natNames, prefix+n+"_nat")
				}
			}
		case constant.Float:
			if constant.ToInt(v).Kind() == constant.Int {
				fmt.Fprintf(w, "Definition %s%s : N := %s%%N.\n", prefix, n, constant.ToInt(v).ExactString())
			}
		case constant.String:
			fmt.Fprintf(w, "Definition %s%s : string := %s.\n", prefix, n, coqString(constant.StringVal(v)))
		}
	}
}

func findFunc(p *pkgInfo, name string) *ast.FuncDecl {
	for _, f := range p.files {
		for _, d := range f.Decls {
			if fd, ok := d.(*ast.FuncDecl); ok && fd.Name.Name == name && fd.Recv == nil {
				return fd
			}
		}
	}
	return nil
}

func findMethod(p *pkgInfo, recv, name string) *ast.FuncDecl {
	for _, f := range p.files {
		for _, d := range f.Decls {
			fd, ok := d.(*ast.FuncDecl)
			if !ok || fd.Name.Name != name || fd.Recv == nil || len(fd.Recv.List) != 1 {
				continue
			}
			t := fd.Recv.List[0].Type
			if st, ok := t.(*ast.StarExpr); ok {
				t = st.X
			}
			if id, ok := t.(*ast.Ident); ok && id.Name == recv {
				return fd
			}
		}
	}
	return nil
}

func (p *pkgInfo) constVal(e ast.Expr) (string, bool) {
	tv, ok := p.info.Types[e]
	if !ok || tv.Value == nil {
		return "", false
	}
	v := tv.Value
	if v.Kind() == constant.Float {
		v = constant.ToInt(v)
	}
	if v.Kind() != constant.Int {
		return "", false
	}
	return v.ExactString(), true
}

func exprString(fset *token.FileSet, e ast.Expr) string {
	var b bytes.Buffer
	printerFprint(&b, fset, e)
	return b.String()
}

// selName returns "F" for x.F, x.GetF(), and the like.
func lastSel(e ast.Expr) string {
	switch x := e.(type) {
	case *ast.SelectorExpr:
		return x.Sel.Name
	case *ast.CallExpr:
		return lastSel(x.Fun)
	case *ast.IndexExpr:
		return lastSel(x.X)
	case *ast.Ident:
		return x.Name
	}
	return ""
}

func stripGet(s string) string { return strings.TrimPrefix(s, "Get") }

// sliceBounds recognises data[A:B] with constant A and B (B may be absent).
func (p *pkgInfo) sliceBounds(e ast.Expr) (lo, hi string, ok bool) {
	se, isSlice := e.(*ast.SliceExpr)
	if !isSlice {
		return "", "", false
	}
	lo = "0"
	if se.Low != nil {
		v, ok := p.constVal(se.Low)
		if !ok {
			return "", "", false
		}
		lo = v
	}
	hi = "end"
	if se.High != nil {
		v, ok := p.constVal(se.High)
		if !ok {
			return "", "", false
		}
		hi = v
	}
	return lo, hi, true
}

type fieldRow struct {
	field, lo, hi, kind string
}

// binaryWidth recognises binary.LittleEndian.UintN / PutUintN.
func binaryWidth(fun ast.Expr) (put bool, width string, ok bool) {
	sel, isSel := fun.(*ast.SelectorExpr)
	if !isSel {
		return false, "", false
	}
	inner, isSel2 := sel.X.(*ast.SelectorExpr)
	if !isSel2 || inner.Sel.Name != "LittleEndian" {
		return false, "", false
	}
	n := sel.Sel.Name
	switch {
	case strings.HasPrefix(n, "PutUint"):
		return true, strings.TrimPrefix(n, "PutUint"), true
	case strings.HasPrefix(n, "Uint"):
		return false, strings.TrimPrefix(n, "Uint"), true
	}
	return false, "", false
}

func unwrapConv(e ast.Expr) ast.Expr {
	for {
		switch x := e.(type) {
		case *ast.ParenExpr:
			e = x.X
		case *ast.CallExpr:
			if id, ok := x.Fun.(*ast.Ident); ok && len(x.Args) == 1 &&
				(id.Name == "uint16" || id.Name == "uint32" || id.Name == "uint64" || id.Name == "int") {
				e = x.Args[0]
				continue
			}
			return e
		default:
			return e
		}
	}
}

// parseTable extracts `x.F = data[A:B]` and `x.F = uintN(binary.LittleEndian.UintM(data[A:B]))`
// assignments and the RTMR loop from a *ToProto function.
func (p *pkgInfo) parseTable(fn *ast.FuncDecl) []fieldRow {
	var rows []fieldRow
	ast.Inspect(fn.Body, func(n ast.Node) bool {
		switch s := n.(type) {
		case *ast.AssignStmt:
			if len(s.Lhs) != 1 || len(s.Rhs) != 1 {
				return true
			}
			lhs, ok := s.Lhs[0].(*ast.SelectorExpr)
			if !ok {
				return true
			}
			rhs := unwrapConv(s.Rhs[0])
			if lo, hi, ok := p.sliceBounds(rhs); ok {
				rows = append(rows, fieldRow{lhs.Sel.Name, lo, hi, "bytes"})
				return true
			}
			if call, ok := rhs.(*ast.CallExpr); ok {
				if put, w, ok := binaryWidth(call.Fun); ok && !put && len(call.Args) == 1 {
					if lo, hi, ok := p.sliceBounds(call.Args[0]); ok {
						rows = append(rows, fieldRow{lhs.Sel.Name, lo, hi, "le" + w})
					}
				}
			}
		case *ast.ForStmt:
			// for i := 0; i < C; i++ { ... data[start:end] ... }  (the RTMR loop)
			if be, ok := s.Cond.(*ast.BinaryExpr); ok {
				if cnt, ok := p.constVal(be.Y); ok {
					rows = append(rows, fieldRow{"#loop", cnt, p.loopStride(s), p.loopStart(fn, s)})
				}
			}
			return false
		}
		return true
	})
	return rows
}

// loopStride finds `x += C` in a loop body.
func (p *pkgInfo) loopStride(s *ast.ForStmt) string {
	stride := "?"
	ast.Inspect(s.Body, func(n ast.Node) bool {
		if a, ok := n.(*ast.AssignStmt); ok && a.Tok == token.ADD_ASSIGN && len(a.Rhs) == 1 {
			if v, ok := p.constVal(a.Rhs[0]); ok {
				stride = v
			}
		}
		return true
	})
	return stride
}

// loopStart finds the `v := C` preceding the loop whose variable the loop advances.
func (p *pkgInfo) loopStart(fn *ast.FuncDecl, loop *ast.ForStmt) string {
	varName := ""
	ast.Inspect(loop.Body, func(n ast.Node) bool {
		if a, ok := n.(*ast.AssignStmt); ok && a.Tok == token.ADD_ASSIGN {
			if id, ok := a.Lhs[0].(*ast.Ident); ok {
				varName = id.Name
			}
		}
		return true
	})
	start := "?"
	for _, st := range fn.Body.List {
		if st == ast.Stmt(loop) {
			break
		}
		if a, ok := st.(*ast.AssignStmt); ok && a.Tok == token.DEFINE && len(a.Lhs) == 1 {
			if id, ok := a.Lhs[0].(*ast.Ident); ok && id.Name == varName {
				if v, ok := p.constVal(a.Rhs[0]); ok {
					start = v
				}
			}
		}
	}
	return start
}

// serTable extracts copy(data[A:B], x.GetF()) / binary.LittleEndian.PutUintN(data[A:B], conv(x.GetF()))
// and the make size from a *ToAbiBytes function.
func (p *pkgInfo) serTable(fn *ast.FuncDecl) (rows []fieldRow, size string) {
	size = "?"
	ast.Inspect(fn.Body, func(n ast.Node) bool {
		switch s := n.(type) {
		case *ast.ForStmt:
			if be, ok := s.Cond.(*ast.BinaryExpr); ok {
				if cnt, ok := p.constVal(be.Y); ok {
					rows = append(rows, fieldRow{"#loop", cnt, p.loopStride(s), p.loopStart(fn, s)})
				}
			}
			return false
		case *ast.CallExpr:
			if id, ok := s.Fun.(*ast.Ident); ok {
				if id.Name == "make" && len(s.Args) == 2 {
					if v, ok := p.constVal(s.Args[1]); ok {
						size = v
					}
				}
				if id.Name == "copy" && len(s.Args) == 2 {
					if lo, hi, ok := p.sliceBounds(s.Args[0]); ok {
						rows = append(rows, fieldRow{stripGet(lastSel(s.Args[1])), lo, hi, "bytes"})
					}
				}
			}
			if put, w, ok := binaryWidth(s.Fun); ok && put && len(s.Args) == 2 {
				if lo, hi, ok := p.sliceBounds(s.Args[0]); ok {
					rows = append(rows, fieldRow{stripGet(lastSel(unwrapConv(s.Args[1]))), lo, hi, "le" + w})
				}
			}
		}
		return true
	})
	return rows, size
}

type checkRow struct{ field, rel, val string }

// checkTable extracts the guards of a check* function: `if <cond> { return ... }`
// with cond one of: x == nil; len(x.GetF()) != C; x.GetF() >= C; x.GetF() != C;
// x.GetF() != uint32(len(x.GetG())); sub-check calls.
func (p *pkgInfo) checkTable(fn *ast.FuncDecl) []checkRow {
	var rows []checkRow
	var walk func(list []ast.Stmt)
	walk = func(list []ast.Stmt) {
		for _, st := range list {
			switch s := st.(type) {
			case *ast.ForStmt:
				if be, ok := s.Cond.(*ast.BinaryExpr); ok {
					if cnt, ok := p.constVal(be.Y); ok {
						rows = append(rows, checkRow{"#loop", "count", cnt})
					}
				}
				walk(s.Body.List)
			case *ast.IfStmt:
				if s.Init != nil {
					if as, ok := s.Init.(*ast.AssignStmt); ok && len(as.Rhs) == 1 {
						if call, ok := as.Rhs[0].(*ast.CallExpr); ok {
							arg := ""
							if len(call.Args) == 1 {
								arg = stripGet(lastSel(call.Args[0]))
							}
							rows = append(rows, checkRow{arg, "call", canonName(lastSel(call.Fun))})
							continue
						}
					}
				}
				be, ok := s.Cond.(*ast.BinaryExpr)
				if !ok {
					rows = append(rows, checkRow{"?", "?", exprString(p.fset, s.Cond)})
					continue
				}
				rows = append(rows, p.checkCond(be))
			}
		}
	}
	walk(fn.Body.List)
	return rows
}

func (p *pkgInfo) checkCond(be *ast.BinaryExpr) checkRow {
	op := be.Op.String()
	if id, ok := be.Y.(*ast.Ident); ok && id.Name == "nil" {
		return checkRow{lastSel(be.X), op, "nil"}
	}
	val := ""
	if v, ok := p.constVal(be.Y); ok {
		val = v
	} else {
		y := unwrapConv(be.Y)
		if call, ok := y.(*ast.CallExpr); ok {
			if id, ok := call.Fun.(*ast.Ident); ok && id.Name == "len" && len(call.Args) == 1 {
				val = "len:" + stripGet(lastSel(call.Args[0]))
			}
		}
		if val == "" {
			val = "?" + exprString(p.fset, be.Y)
		}
	}
	x := be.X
	if call, ok := x.(*ast.CallExpr); ok {
		if id, ok := call.Fun.(*ast.Ident); ok && id.Name == "len" && len(call.Args) == 1 {
			a := call.Args[0]
			f := stripGet(lastSel(a))
			if _, isIdx := a.(*ast.IndexExpr); isIdx {
				f += "[i]"
			}
			return checkRow{"len:" + f, op, val}
		}
	}
	return checkRow{stripGet(lastSel(x)), op, val}
}

// sortRows orders the rows of a fixed-layout table by start offset: the order in
// which a function reads or writes disjoint byte ranges is immaterial, so two
// sources that differ only in statement order give the same table. Tables with a
// symbolic offset are left in source order.
func sortRows(rows []fieldRow) []fieldRow {
	keys := make([]int, len(rows))
	for i, r := range rows {
		src := r.lo
		if r.field == "#loop" {
			src = r.kind
		}
		k, err := strconv.Atoi(src)
		if err != nil {
			return rows
		}
		keys[i] = k
	}
	idx := make([]int, len(rows))
	for i := range idx {
		idx[i] = i
	}
	sort.SliceStable(idx, func(a, b int) bool { return keys[idx[a]] < keys[idx[b]] })
	out := make([]fieldRow, len(rows))
	for i, j := range idx {
		out[i] = rows[j]
	}
	return out
}

func emitRows(w *bytes.Buffer, name string, rows []fieldRow) {
	rows = sortRows(rows)
	fmt.Fprintf(w, "Definition %s : list (string * string * string * string) :=\n  [", name)
	for i, r := range rows {
		if i > 0 {
			w.WriteString(";\n   ")
		}
		fmt.Fprintf(w, "(%s, %s, %s, %s)", coqString(r.field), coqString(r.lo), coqString(r.hi), coqString(r.kind))
	}
	w.WriteString("].\n")
}

func emitChecks(w *bytes.Buffer, name string, rows []checkRow) {
	fmt.Fprintf(w, "Definition %s : list (string * string * string) :=\n  [", name)
	for i, r := range rows {
		if i > 0 {
			w.WriteString(";\n   ")
		}
		fmt.Fprintf(w, "(%s, %s, %s)", coqString(r.field), coqString(r.rel), coqString(r.val))
	}
	w.WriteString("].\n")
}

func header(w *bytes.Buffer, src string) {
	fmt.Fprintf(w, "(* GENERATED by tools/gotrans from %s — do not edit. *)\n", src)
	w.WriteString("From Coq Require Import NArith ZArith String List.\nImport ListNotations.\nOpen Scope string_scope.\n\n")
}

func writeIfChanged(path string, content []byte) error {
	old, err := os.ReadFile(path)
	if err == nil && bytes.Equal(old, content) {
		return nil
	}
	return os.WriteFile(path, content, 0o644)
}

func must(err error) {
	if err != nil {
		fmt.Fprintln(os.Stderr, "gotrans:", err)
		os.Exit(2)
	}
}

func mustFunc(p *pkgInfo, name string) *ast.FuncDecl {
	f := findFunc(p, name)
	if f == nil {
		must(fmt.Errorf("function %s.%s not found", p.name, name))
	}
	return f
}

// pbPointee returns T for an expression of the form *pb.T (else "").
func pbPointee(e ast.Expr) string {
	st, ok := e.(*ast.StarExpr)
	if !ok {
		return ""
	}
	sel, ok := st.X.(*ast.SelectorExpr)
	if !ok {
		return ""
	}
	if id, ok := sel.X.(*ast.Ident); !ok || id.Name != "pb" {
		return ""
	}
	return sel.Sel.Name
}

func isIdent(e ast.Expr, name string) bool {
	id, ok := e.(*ast.Ident)
	return ok && id.Name == name
}

func isByteSlice(e ast.Expr) bool {
	at, ok := e.(*ast.ArrayType)
	return ok && at.Len == nil && (isIdent(at.Elt, "byte") || isIdent(at.Elt, "uint8"))
}

func fieldTypes(fl *ast.FieldList) []ast.Expr {
	var out []ast.Expr
	if fl == nil {
		return out
	}
	for _, f := range fl.List {
		n := len(f.Names)
		if n == 0 {
			n = 1
		}
		for i := 0; i < n; i++ {
			out = append(out, f.Type)
		}
	}
	return out
}

// roleFunc finds the function that plays a role for the message type *pb.T, by
// its name when it still has the expected one, else by its signature (so that
// renaming an unexported function is not a translation failure):
//   parse: func([]byte) (*pb.T, ..., error)    check: func(*pb.T) error
//   ser:   func(*pb.T) ([]byte, error)
var canon = map[string]string{}

// canonName maps the current name of a function found by its signature back to
// the name the Coq side uses for it.
func canonName(n string) string {
	if c, ok := canon[n]; ok {
		return c
	}
	return n
}

func roleFunc(p *pkgInfo, name, role, msg string) *ast.FuncDecl {
	if f := findFunc(p, name); f != nil {
		return f
	}
	var found []*ast.FuncDecl
	for _, file := range p.files {
		for _, d := range file.Decls {
			fd, ok := d.(*ast.FuncDecl)
			if !ok || fd.Recv != nil || fd.Body == nil {
				continue
			}
			in, out := fieldTypes(fd.Type.Params), fieldTypes(fd.Type.Results)
			match := false
			switch role {
			case "parse":
				match = len(in) == 1 && isByteSlice(in[0]) && len(out) >= 2 && pbPointee(out[0]) == msg && isIdent(out[len(out)-1], "error")
			case "check":
				match = len(in) == 1 && pbPointee(in[0]) == msg && len(out) == 1 && isIdent(out[0], "error")
			case "ser":
				match = len(in) == 1 && pbPointee(in[0]) == msg && len(out) == 2 && isByteSlice(out[0]) && isIdent(out[1], "error")
			}
			if match {
				found = append(found, fd)
			}
		}
	}
	if len(found) != 1 {
		must(fmt.Errorf("function %s.%s not found (and %d functions have the signature of the %s function of %s)", p.name, name, len(found), role, msg))
	}
	canon[found[0].Name.Name] = name
	return found[0]
}

func main() {
	root := flag.String("repo", "/repo", "repository root")
	out := flag.String("out", "", "output directory (coq/Gen)")
	flag.Parse()
	if *out == "" {
		must(fmt.Errorf("-out required"))
	}
	must(os.MkdirAll(*out, 0o755))

	// ---- constants -------------------------------------------------------
	type cp struct{ rel, file, prefix string }
	for _, c := range []cp{
		{"abi", "AbiConsts.v", "abi_"},
		{"validate", "ValidateConsts.v", "validate_"},
		{"pcs", "PcsConsts.v", "pcs_"},
		{"verify", "VerifyConsts.v", "verify_"},
		{"client/linuxabi", "ClientConsts.v", "labi_"},
		{"tools/check", "CheckConsts.v", "check_"},
		{"verify/trust", "TrustConsts.v", "trust_"},
	} {
		p, err := loadPkg(*root, c.rel)
		must(err)
		var w bytes.Buffer
		header(&w, c.rel)
		emitConsts(p, c.prefix, &w)
		switch c.rel {
		case "verify/trust":
			emitRetryLiterals(p, &w)
		case "pcs":
			emitOids(p, &w)
		case "validate":
			emitValidateTables(p, &w)
		}
		must(writeIfChanged(filepath.Join(*out, c.file), w.Bytes()))
	}

	// ---- ABI tables --------------------------------------------------------
	abi, err := loadPkg(*root, "abi")
	must(err)
	var w bytes.Buffer
	header(&w, "abi/abi.go")
	for _, t := range [][2]string{{"checkHeader", "Header"}, {"checkTDQuoteBody", "TDQuoteBody"}, {"checkQeReport", "EnclaveReport"},
		{"checkEcdsa256BitQuoteV4AuthData", "Ecdsa256BitQuoteV4AuthData"}, {"checkCertificationData", "CertificationData"},
		{"checkQeReportCertificationData", "QEReportCertificationData"}, {"checkQeAuthData", "QeAuthData"},
		{"checkPCKCertificateChain", "PCKCertificateChainData"}} {
		roleFunc(abi, t[0], "check", t[1]) // fills canon before any table is read
	}
	for _, t := range []struct{ name, msg, parse, ser, check string }{
		{"header", "Header", "headerToProto", "HeaderToAbiBytes", "checkHeader"},
		{"body", "TDQuoteBody", "tdQuoteBodyToProto", "TdQuoteBodyToAbiBytes", "checkTDQuoteBody"},
		{"report", "EnclaveReport", "enclaveReportToProto", "EnclaveReportToAbiBytes", "checkQeReport"},
	} {
		emitRows(&w, t.name+"_parse_table", abi.parseTable(roleFunc(abi, t.parse, "parse", t.msg)))
		rows, size := abi.serTable(roleFunc(abi, t.ser, "ser", t.msg))
		emitRows(&w, t.name+"_ser_table", rows)
		fmt.Fprintf(&w, "Definition %s_ser_size : string := %s.\n", t.name, coqString(size))
		emitChecks(&w, t.name+"_check_table", abi.checkTable(roleFunc(abi, t.check, "check", t.msg)))
		w.WriteString("\n")
	}
	for _, t := range []struct{ name, msg, parse, check string }{
		{"signed", "Ecdsa256BitQuoteV4AuthData", "signedDataToProto", "checkEcdsa256BitQuoteV4AuthData"},
		{"certdata", "CertificationData", "certificationDataToProto", "checkCertificationData"},
		{"qercd", "QEReportCertificationData", "qeReportCertificationDataToProto", "checkQeReportCertificationData"},
		{"auth", "QeAuthData", "qeAuthDataToProto", "checkQeAuthData"},
		{"pck", "PCKCertificateChainData", "pckCertificateChainToProto", "checkPCKCertificateChain"},
		{"quote", "QuoteV4", "quoteToProtoV4", "CheckQuoteV4"},
	} {
		emitRows(&w, t.name+"_parse_table", abi.parseTable(roleFunc(abi, t.parse, "parse", t.msg)))
		emitChecks(&w, t.name+"_check_table", abi.checkTable(roleFunc(abi, t.check, "check", t.msg)))
		w.WriteString("\n")
	}
	must(writeIfChanged(filepath.Join(*out, "AbiTables.v"), w.Bytes()))

	// ---- write sites -------------------------------------------------------
	var ws bytes.Buffer
	header(&ws, "abi, verify, validate, pcs, rtmr (write sites)")
	emitWriteSites(*root, &ws)
	must(writeIfChanged(filepath.Join(*out, "WriteSites.v"), ws.Bytes()))
}
