// gotrans regenerates coq/Gen/*.v from the Go sources under a repository root.
//
// It emits (1) every package-level integer / string constant of the packages the
// properties depend on, (2) the field tables (parse, serialise, check) of the
// fixed-size ABI structures recovered from the bodies of the abi functions,
// (3) the option tables of validate, (4) literals of the retry getter and of
// the check tool, and (5) the inventory of in-place write sites.
//
// Output files are only rewritten when their content changes.
package main

import (
	"bytes"
	"flag"
	"fmt"
	"go/ast"
	"go/constant"
	"go/importer"
	"go/parser"
	"go/token"
	"go/types"
	"os"
	"path/filepath"
	"regexp"
	"sort"
	"strconv"
	"strings"
)

type pkgInfo struct {
	name  string
	dir   string
	fset  *token.FileSet
	files []*ast.File
	info  *types.Info
	pkg   *types.Package
}

type stubImporter struct {
	root string
}

var (
	pkgCache = map[string]*types.Package{}
	srcFset  = token.NewFileSet()
	srcImp   types.Importer
)

const modPath = "github.com/google/go-tdx-guest/"

func (s stubImporter) Import(path string) (*types.Package, error) {
	if p, ok := pkgCache[path]; ok {
		return p, nil
	}
	var res *types.Package
	if strings.HasPrefix(path, modPath) {
		if pi, err := loadPkg(s.root, strings.TrimPrefix(path, modPath)); err == nil && pi.pkg != nil {
			res = pi.pkg
		}
	} else if !strings.Contains(strings.SplitN(path, "/", 2)[0], ".") {
		// standard library, from source
		if srcImp == nil {
			srcImp = importer.ForCompiler(srcFset, "source", nil)
		}
		if p, err := srcImp.Import(path); err == nil {
			res = p
		}
	}
	if res == nil {
		// Unknown (third-party) package: an empty package; uses become type errors
		// which we ignore (constants never depend on them).
		name := path[strings.LastIndex(path, "/")+1:]
		res = types.NewPackage(path, name)
		res.MarkComplete()
	}
	pkgCache[path] = res
	return res, nil
}

func loadPkg(root, rel string) (*pkgInfo, error) {
	dir := filepath.Join(root, rel)
	fset := token.NewFileSet()
	ents, err := os.ReadDir(dir)
	if err != nil {
		return nil, err
	}
	var files []*ast.File
	pkgName := ""
	for _, e := range ents {
		n := e.Name()
		if e.IsDir() || !strings.HasSuffix(n, ".go") || strings.HasSuffix(n, "_test.go") {
			continue
		}
		if strings.HasSuffix(n, "_windows.go") || strings.HasSuffix(n, "_macos.go") || strings.HasSuffix(n, "_darwin.go") {
			continue
		}
		f, err := parser.ParseFile(fset, filepath.Join(dir, n), nil, parser.ParseComments)
		if err != nil {
			return nil, err
		}
		if hasVerifTag(f) {
			continue
		}
		files = append(files, f)
		pkgName = f.Name.Name
	}
	if len(files) == 0 {
		return nil, fmt.Errorf("no Go files in %s", dir)
	}
	info := &types.Info{
		Types: map[ast.Expr]types.TypeAndValue{},
		Defs:  map[*ast.Ident]types.Object{},
		Uses:  map[*ast.Ident]types.Object{},
	}
	conf := types.Config{
		Importer: stubImporter{root},
		Error:    func(error) {},
		Sizes:    types.SizesFor("gc", "amd64"),
	}
	pkg, _ := conf.Check(pkgName, fset, files, info)
	return &pkgInfo{name: pkgName, dir: rel, fset: fset, files: files, info: info, pkg: pkg}, nil
}

func hasVerifTag(f *ast.File) bool {
	for _, cg := range f.Comments {
		for _, c := range cg.List {
			if strings.HasPrefix(c.Text, "//go:build") && strings.Contains(c.Text, "verif") {
				return true
			}
		}
	}
	return false
}

func coqIdent(s string) string {
	return strings.ReplaceAll(s, ".", "_")
}

func coqString(s string) string {
	return "\"" + strings.ReplaceAll(s, "\"", "\"\"") + "\""
}

// emitConsts writes every package-level constant as a Coq definition.
func emitConsts(p *pkgInfo, prefix string, w *bytes.Buffer) {
	scope := p.pkg.Scope()
	names := scope.Names()
	sort.Strings(names)
	var natNames []string
	defer func() {
		if len(natNames) > 0 {
			fmt.Fprintf(w, "\n#[global] Hint Unfold %s : %sconsts.\n", strings.Join(natNames, " "), prefix)
		}
	}()
	for _, n := range names {
		c, ok := scope.Lookup(n).(*types.Const)
		if !ok {
			continue
		}
		v := c.Val()
		switch v.Kind() {
		case constant.Int:
			if constant.Sign(v) < 0 {
				fmt.Fprintf(w, "Definition %s%s : Z := (%s)%%Z.\n", prefix, n, v.ExactString())
			} else {
				fmt.Fprintf(w, "Definition %s%s : N := %s%%N.\n", prefix, n, v.ExactString())
				if u, ok := constant.Uint64Val(v); ok && u <= 70000 {
					fmt.Fprintf(w, "Definition %s%s_nat : nat := %d.\n", prefix, n, u)
					natNames = append(natNames, prefix+n+"_nat")
				}
			}
		case constant.Float:
			if constant.ToInt(v).Kind() == constant.Int {
				fmt.Fprintf(w, "Definition %s%s : N := %s%%N.\n", prefix, n, constant.ToInt(v).ExactString())
			}
		case constant.String:
			fmt.Fprintf(w, "Definition %s%s : string := %s.\n", prefix, n, coqString(constant.StringVal(v)))
		}
	}
}

func findFunc(p *pkgInfo, name string) *ast.FuncDecl {
	for _, f := range p.files {
		for _, d := range f.Decls {
			if fd, ok := d.(*ast.FuncDecl); ok && fd.Name.Name == name && fd.Recv == nil {
				return fd
			}
		}
	}
	return nil
}

func findMethod(p *pkgInfo, recv, name string) *ast.FuncDecl {
	for _, f := range p.files {
		for _, d := range f.Decls {
			fd, ok := d.(*ast.FuncDecl)
			if !ok || fd.Name.Name != name || fd.Recv == nil || len(fd.Recv.List) != 1 {
				continue
			}
			t := fd.Recv.List[0].Type
			if st, ok := t.(*ast.StarExpr); ok {
				t = st.X
			}
			if id, ok := t.(*ast.Ident); ok && id.Name == recv {
				return fd
			}
		}
	}
	return nil
}

func (p *pkgInfo) constVal(e ast.Expr) (string, bool) {
	tv, ok := p.info.Types[e]
	if !ok || tv.Value == nil {
		return "", false
	}
	v := tv.Value
	if v.Kind() == constant.Float {
		v = constant.ToInt(v)
	}
	if v.Kind() != constant.Int {
		return "", false
	}
	return v.ExactString(), true
}

func exprString(fset *token.FileSet, e ast.Expr) string {
	var b bytes.Buffer
	printerFprint(&b, fset, e)
	return b.String()
}

// selName returns "F" for x.F, x.GetF(), and the like.
func lastSel(e ast.Expr) string {
	switch x := e.(type) {
	case *ast.SelectorExpr:
		return x.Sel.Name
	case *ast.CallExpr:
		return lastSel(x.Fun)
	case *ast.IndexExpr:
		return lastSel(x.X)
	case *ast.Ident:
		return x.Name
	}
	return ""
}

func stripGet(s string) string { return strings.TrimPrefix(s, "Get") }

// sliceBounds recognises data[A:B] with constant A and B (B may be absent).
func (p *pkgInfo) sliceBounds(e ast.Expr) (lo, hi string, ok bool) {
	se, isSlice := e.(*ast.SliceExpr)
	if !isSlice {
		return "", "", false
	}
	lo = "0"
	if se.Low != nil {
		v, ok := p.constVal(se.Low)
		if !ok {
			return "", "", false
		}
		lo = v
	}
	hi = "end"
	if se.High != nil {
		v, ok := p.constVal(se.High)
		if !ok {
			return "", "", false
		}
		hi = v
	}
	return lo, hi, true
}

type fieldRow struct {
	field, lo, hi, kind string
}

// binaryWidth recognises binary.LittleEndian.UintN / PutUintN.
func binaryWidth(fun ast.Expr) (put bool, width string, ok bool) {
	sel, isSel := fun.(*ast.SelectorExpr)
	if !isSel {
		return false, "", false
	}
	inner, isSel2 := sel.X.(*ast.SelectorExpr)
	if !isSel2 || inner.Sel.Name != "LittleEndian" {
		return false, "", false
	}
	n := sel.Sel.Name
	switch {
	case strings.HasPrefix(n, "PutUint"):
		return true, strings.TrimPrefix(n, "PutUint"), true
	case strings.HasPrefix(n, "Uint"):
		return false, strings.TrimPrefix(n, "Uint"), true
	}
	return false, "", false
}

func unwrapConv(e ast.Expr) ast.Expr {
	for {
		switch x := e.(type) {
		case *ast.ParenExpr:
			e = x.X
		case *ast.CallExpr:
			if id, ok := x.Fun.(*ast.Ident); ok && len(x.Args) == 1 &&
				(id.Name == "uint16" || id.Name == "uint32" || id.Name == "uint64" || id.Name == "int") {
				e = x.Args[0]
				continue
			}
			return e
		default:
			return e
		}
	}
}

// unreadable collects, per table, the statements that are outside the idioms the
// extractors understand. A table with an entry here is emitted with
// <name>_readable = false: the Coq side then does not require it to equal the
// specification's table, and the tie for that function rests on the
// correspondence check alone (check.sh runs it at the thorough scale).
var unreadable = map[string][]string{}
var curTable string

func (p *pkgInfo) giveUp(n ast.Node, why string) {
	pos := p.fset.Position(n.Pos())
	unreadable[curTable] = append(unreadable[curTable], fmt.Sprintf("%s:%d %s", filepath.Base(pos.Filename), pos.Line, why))
}

// mentionsBytes: does the expression read the input buffer (slice / index
// expression or a binary.LittleEndian call)?
func mentionsBytes(e ast.Expr) bool {
	found := false
	ast.Inspect(e, func(n ast.Node) bool {
		switch x := n.(type) {
		case *ast.SliceExpr:
			found = true
		case *ast.CallExpr:
			if _, _, ok := binaryWidth(x.Fun); ok {
				found = true
			}
		}
		return !found
	})
	return found
}

// dynamicSlice: data[a:b] (possibly wrapped in a one-argument call) whose bounds
// are constants or plain local variables.
func (p *pkgInfo) dynamicSlice(e ast.Expr) bool {
	e = unwrapConv(e)
	if call, ok := e.(*ast.CallExpr); ok && len(call.Args) == 1 {
		if _, isId := call.Fun.(*ast.Ident); isId {
			e = call.Args[0]
		}
	}
	se, ok := e.(*ast.SliceExpr)
	if !ok {
		return false
	}
	for _, b := range []ast.Expr{se.Low, se.High} {
		if b == nil {
			continue
		}
		if _, isConst := p.constVal(b); isConst {
			continue
		}
		if _, isId := b.(*ast.Ident); isId {
			continue
		}
		return false
	}
	return true
}

// byteSource recognises data[A:B], clone(data[A:B]) and
// uintN(binary.LittleEndian.UintM(data[A:B])) with constant bounds.
func (p *pkgInfo) byteSource(e ast.Expr) (lo, hi, kind string, ok bool) {
	rhs := unwrapConv(e)
	if call, isCall := rhs.(*ast.CallExpr); isCall && len(call.Args) == 1 {
		if id, isId := call.Fun.(*ast.Ident); isId && id.Name != "len" && id.Name != "string" {
			// a one-argument package function around a slice (clone and the like)
			if lo, hi, ok := p.sliceBounds(call.Args[0]); ok {
				if fd := findFunc(p, id.Name); fd != nil && len(fieldTypes(fd.Type.Params)) == 1 && isByteSlice(fieldTypes(fd.Type.Params)[0]) {
					return lo, hi, "bytes", true
				}
			}
		}
	}
	if lo, hi, ok := p.sliceBounds(rhs); ok {
		return lo, hi, "bytes", true
	}
	if call, isCall := rhs.(*ast.CallExpr); isCall {
		if put, w, ok := binaryWidth(call.Fun); ok && !put && len(call.Args) == 1 {
			if lo, hi, ok := p.sliceBounds(call.Args[0]); ok {
				return lo, hi, "le" + w, true
			}
		}
	}
	return "", "", "", false
}

// parseTable extracts `x.F = data[A:B]` and `x.F = uintN(binary.LittleEndian.UintM(data[A:B]))`
// assignments (also through a local, and as members of a composite literal) and
// the RTMR loop from a *ToProto function.
func (p *pkgInfo) parseTable(fn *ast.FuncDecl) []fieldRow {
	var rows []fieldRow
	type src struct{ lo, hi, kind string }
	locals := map[string]src{}
	field := func(name string, val ast.Expr, at ast.Node) {
		if id, ok := unwrapConv(val).(*ast.Ident); ok {
			if b, ok := locals[id.Name]; ok {
				rows = append(rows, fieldRow{name, b.lo, b.hi, b.kind})
			}
			return
		}
		if lo, hi, kind, ok := p.byteSource(val); ok {
			rows = append(rows, fieldRow{name, lo, hi, kind})
			return
		}
		if p.dynamicSlice(val) {
			return // a variable-length field: not part of the fixed layout
		}
		if _, isCall := unwrapConv(val).(*ast.CallExpr); isCall || mentionsBytes(val) {
			p.giveUp(at, "field "+name+" is read from the input in a way the translator does not know: "+exprString(p.fset, val))
		}
	}
	ast.Inspect(fn.Body, func(n ast.Node) bool {
		switch s := n.(type) {
		case *ast.AssignStmt:
			if len(s.Lhs) != 1 || len(s.Rhs) != 1 {
				return true
			}
			switch lhs := s.Lhs[0].(type) {
			case *ast.SelectorExpr:
				field(lhs.Sel.Name, s.Rhs[0], s)
			case *ast.Ident:
				if lo, hi, kind, ok := p.byteSource(s.Rhs[0]); ok {
					if _, isSlice := unwrapConv(s.Rhs[0]).(*ast.SliceExpr); !isSlice || true {
						locals[lhs.Name] = src{lo, hi, kind}
					}
				}
			}
		case *ast.KeyValueExpr:
			if k, ok := s.Key.(*ast.Ident); ok {
				field(k.Name, s.Value, s)
			}
		case *ast.RangeStmt:
			if mentionsBytes2(s.Body) {
				p.giveUp(s, "range loop over the input")
			}
			return false
		case *ast.ForStmt:
			// for i := 0; i < C; i++ { ... data[start:end] ... }  (the RTMR loop)
			ok := false
			if be, isBin := s.Cond.(*ast.BinaryExpr); isBin {
				if cnt, isConst := p.constVal(be.Y); isConst {
					stride, start := p.loopStride(s), p.loopStart(fn, s)
					rows = append(rows, fieldRow{"#loop", cnt, stride, start})
					ok = stride != "?" && start != "?"
				}
			}
			if !ok {
				p.giveUp(s, "loop outside the running-offset idiom")
			}
			return false
		}
		return true
	})
	return rows
}

func mentionsBytes2(b *ast.BlockStmt) bool {
	found := false
	ast.Inspect(b, func(n ast.Node) bool {
		if e, ok := n.(ast.Expr); ok && !found && mentionsBytes(e) {
			found = true
		}
		return !found
	})
	return found
}

// loopStride finds `x += C` in a loop body.
func (p *pkgInfo) loopStride(s *ast.ForStmt) string {
	stride := "?"
	ast.Inspect(s.Body, func(n ast.Node) bool {
		if a, ok := n.(*ast.AssignStmt); ok && a.Tok == token.ADD_ASSIGN && len(a.Rhs) == 1 {
			if v, ok := p.constVal(a.Rhs[0]); ok {
				stride = v
			}
		}
		return true
	})
	return stride
}

// loopStart finds the `v := C` preceding the loop whose variable the loop advances.
func (p *pkgInfo) loopStart(fn *ast.FuncDecl, loop *ast.ForStmt) string {
	varName := ""
	ast.Inspect(loop.Body, func(n ast.Node) bool {
		if a, ok := n.(*ast.AssignStmt); ok && a.Tok == token.ADD_ASSIGN {
			if id, ok := a.Lhs[0].(*ast.Ident); ok {
				varName = id.Name
			}
		}
		return true
	})
	start := "?"
	for _, st := range fn.Body.List {
		if st == ast.Stmt(loop) {
			break
		}
		if a, ok := st.(*ast.AssignStmt); ok && a.Tok == token.DEFINE && len(a.Lhs) == 1 {
			if id, ok := a.Lhs[0].(*ast.Ident); ok && id.Name == varName {
				if v, ok := p.constVal(a.Rhs[0]); ok {
					start = v
				}
			}
		}
	}
	return start
}

// serTable extracts copy(data[A:B], x.GetF()) / binary.LittleEndian.PutUintN(data[A:B], conv(x.GetF()))
// and the make size from a *ToAbiBytes function.
func (p *pkgInfo) serTable(fn *ast.FuncDecl) (rows []fieldRow, size string) {
	size = "?"
	defer func() {
		if size == "?" {
			p.giveUp(fn, "size of the output buffer not found")
		}
	}()
	ast.Inspect(fn.Body, func(n ast.Node) bool {
		switch s := n.(type) {
		case *ast.RangeStmt:
			p.giveUp(s, "range loop in a serialiser")
			return false
		case *ast.ForStmt:
			ok := false
			if be, isBin := s.Cond.(*ast.BinaryExpr); isBin {
				if cnt, isConst := p.constVal(be.Y); isConst {
					stride, start := p.loopStride(s), p.loopStart(fn, s)
					rows = append(rows, fieldRow{"#loop", cnt, stride, start})
					ok = stride != "?" && start != "?"
				}
			}
			if !ok {
				p.giveUp(s, "loop outside the running-offset idiom")
			}
			return false
		case *ast.CallExpr:
			if id, ok := s.Fun.(*ast.Ident); ok {
				if id.Name == "make" && len(s.Args) == 2 {
					if v, ok := p.constVal(s.Args[1]); ok {
						size = v
					}
				}
				if id.Name == "copy" && len(s.Args) == 2 {
					if lo, hi, ok := p.sliceBounds(s.Args[0]); ok {
						rows = append(rows, fieldRow{stripGet(lastSel(s.Args[1])), lo, hi, "bytes"})
					} else {
						p.giveUp(s, "copy to a destination the translator cannot place: "+exprString(p.fset, s.Args[0]))
					}
				}
			}
			if put, w, ok := binaryWidth(s.Fun); ok && put && len(s.Args) == 2 {
				if lo, hi, ok := p.sliceBounds(s.Args[0]); ok {
					rows = append(rows, fieldRow{stripGet(lastSel(unwrapConv(s.Args[1]))), lo, hi, "le" + w})
				} else {
					p.giveUp(s, "PutUint to a destination the translator cannot place: "+exprString(p.fset, s.Args[0]))
				}
			}
		}
		return true
	})
	return rows, size
}

type checkRow struct{ field, rel, val string }

// checkTable extracts the guards of a check* function: `if <cond> { return ... }`
// with cond one of: x == nil; len(x.GetF()) != C; x.GetF() >= C; x.GetF() != C;
// x.GetF() != uint32(len(x.GetG())); sub-check calls.
func (p *pkgInfo) checkTable(fn *ast.FuncDecl) []checkRow {
	var rows []checkRow
	var walk func(list []ast.Stmt)
	walk = func(list []ast.Stmt) {
		for _, st := range list {
			switch s := st.(type) {
			case *ast.ReturnStmt, *ast.EmptyStmt:
			case *ast.ForStmt:
				ok := false
				if be, isBin := s.Cond.(*ast.BinaryExpr); isBin {
					if cnt, isConst := p.constVal(be.Y); isConst {
						rows = append(rows, checkRow{"#loop", "count", cnt})
						ok = true
					}
				}
				if !ok {
					p.giveUp(s, "loop with a bound the translator cannot evaluate")
				}
				walk(s.Body.List)
			case *ast.IfStmt:
				if s.Else != nil {
					p.giveUp(s, "guard with an else branch")
				}
				if s.Init != nil {
					if as, ok := s.Init.(*ast.AssignStmt); ok && len(as.Rhs) == 1 {
						if call, ok := as.Rhs[0].(*ast.CallExpr); ok {
							arg := ""
							if len(call.Args) == 1 {
								arg = stripGet(lastSel(call.Args[0]))
							}
							rows = append(rows, checkRow{arg, "call", canonName(lastSel(call.Fun))})
							continue
						}
					}
					p.giveUp(s, "guard with an initialiser the translator does not know")
					continue
				}
				be, ok := p.asComparison(s.Cond)
				if !ok {
					rows = append(rows, checkRow{"?", "?", exprString(p.fset, s.Cond)})
					p.giveUp(s, "guard condition outside the known forms: "+exprString(p.fset, s.Cond))
					continue
				}
				switch be.Op {
				case token.EQL, token.NEQ, token.LSS, token.LEQ, token.GTR, token.GEQ:
				default:
					p.giveUp(s, "compound guard condition: "+exprString(p.fset, s.Cond))
				}
				row := p.checkCond(be)
				if strings.HasPrefix(row.val, "?") {
					p.giveUp(s, "guard compares with an expression the translator cannot evaluate: "+exprString(p.fset, s.Cond))
				}
				rows = append(rows, row)
			default:
				p.giveUp(st, "statement outside the guard idiom")
			}
		}
	}
	walk(fn.Body.List)
	return rows
}

// asComparison reads a guard condition as one comparison: a binary expression,
// or (possibly negated) a call of a one-parameter predicate of this package whose
// body is `return <param> <op> <constant>`, which is inlined.
func (p *pkgInfo) asComparison(e ast.Expr) (*ast.BinaryExpr, bool) {
	neg := false
	for {
		switch x := e.(type) {
		case *ast.ParenExpr:
			e = x.X
			continue
		case *ast.UnaryExpr:
			if x.Op == token.NOT {
				neg = !neg
				e = x.X
				continue
			}
		}
		break
	}
	be, ok := e.(*ast.BinaryExpr)
	if !ok {
		call, isCall := e.(*ast.CallExpr)
		if !isCall || len(call.Args) != 1 {
			return nil, false
		}
		id, isId := call.Fun.(*ast.Ident)
		if !isId {
			return nil, false
		}
		fd := findFunc(p, id.Name)
		if fd == nil || fd.Body == nil || len(fd.Body.List) != 1 || len(fieldTypes(fd.Type.Params)) != 1 || len(fd.Type.Params.List[0].Names) != 1 {
			return nil, false
		}
		ret, isRet := fd.Body.List[0].(*ast.ReturnStmt)
		if !isRet || len(ret.Results) != 1 {
			return nil, false
		}
		inner, isBin := ret.Results[0].(*ast.BinaryExpr)
		if !isBin || !isIdent(inner.X, fd.Type.Params.List[0].Names[0].Name) {
			return nil, false
		}
		if _, isConst := p.constVal(inner.Y); !isConst {
			return nil, false
		}
		be = &ast.BinaryExpr{X: call.Args[0], Op: inner.Op, Y: inner.Y, OpPos: call.Pos()}
	}
	if neg {
		flip := map[token.Token]token.Token{token.EQL: token.NEQ, token.NEQ: token.EQL, token.LSS: token.GEQ, token.GEQ: token.LSS, token.GTR: token.LEQ, token.LEQ: token.GTR}
		op, known := flip[be.Op]
		if !known {
			return nil, false
		}
		be = &ast.BinaryExpr{X: be.X, Op: op, Y: be.Y, OpPos: be.OpPos}
	}
	return be, true
}

func (p *pkgInfo) checkCond(be *ast.BinaryExpr) checkRow {
	op := be.Op.String()
	// x > C is written x >= C+1 (one spelling per guard)
	if be.Op == token.GTR {
		if v, ok := p.constVal(be.Y); ok {
			if n, err := strconv.ParseUint(v, 10, 63); err == nil {
				r := p.checkCond(&ast.BinaryExpr{X: be.X, Op: token.GEQ, Y: be.Y})
				r.val = strconv.FormatUint(n+1, 10)
				return r
			}
		}
	}
	if id, ok := be.Y.(*ast.Ident); ok && id.Name == "nil" {
		return checkRow{lastSel(be.X), op, "nil"}
	}
	val := ""
	if v, ok := p.constVal(be.Y); ok {
		val = v
	} else {
		y := unwrapConv(be.Y)
		if call, ok := y.(*ast.CallExpr); ok {
			if id, ok := call.Fun.(*ast.Ident); ok && id.Name == "len" && len(call.Args) == 1 {
				val = "len:" + stripGet(lastSel(call.Args[0]))
			}
		}
		if val == "" {
			val = "?" + exprString(p.fset, be.Y)
		}
	}
	x := be.X
	if call, ok := x.(*ast.CallExpr); ok {
		if id, ok := call.Fun.(*ast.Ident); ok && id.Name == "len" && len(call.Args) == 1 {
			a := call.Args[0]
			f := stripGet(lastSel(a))
			if _, isIdx := a.(*ast.IndexExpr); isIdx {
				f += "[i]"
			}
			return checkRow{"len:" + f, op, val}
		}
	}
	return checkRow{stripGet(lastSel(x)), op, val}
}

// sortRows orders the rows of a fixed-layout table by start offset: the order in
// which a function reads or writes disjoint byte ranges is immaterial, so two
// sources that differ only in statement order give the same table. Tables with a
// symbolic offset are left in source order.
func sortRows(rows []fieldRow) []fieldRow {
	keys := make([]int, len(rows))
	for i, r := range rows {
		src := r.lo
		if r.field == "#loop" {
			src = r.kind
		}
		k, err := strconv.Atoi(src)
		if err != nil {
			return rows
		}
		keys[i] = k
	}
	idx := make([]int, len(rows))
	for i := range idx {
		idx[i] = i
	}
	sort.SliceStable(idx, func(a, b int) bool { return keys[idx[a]] < keys[idx[b]] })
	out := make([]fieldRow, len(rows))
	for i, j := range idx {
		out[i] = rows[j]
	}
	return out
}

func emitReadable(w *bytes.Buffer, name string) {
	v := "true"
	if len(unreadable[name]) > 0 {
		v = "false"
	}
	fmt.Fprintf(w, "Definition %s_readable : bool := %s.\n", name, v)
}

func emitRows(w *bytes.Buffer, name string, rows []fieldRow) {
	rows = sortRows(rows)
	fmt.Fprintf(w, "Definition %s : list (string * string * string * string) :=\n  [", name)
	for i, r := range rows {
		if i > 0 {
			w.WriteString(";\n   ")
		}
		fmt.Fprintf(w, "(%s, %s, %s, %s)", coqString(r.field), coqString(r.lo), coqString(r.hi), coqString(r.kind))
	}
	w.WriteString("].\n")
}

func emitChecks(w *bytes.Buffer, name string, rows []checkRow) {
	fmt.Fprintf(w, "Definition %s : list (string * string * string) :=\n  [", name)
	for i, r := range rows {
		if i > 0 {
			w.WriteString(";\n   ")
		}
		fmt.Fprintf(w, "(%s, %s, %s)", coqString(r.field), coqString(r.rel), coqString(r.val))
	}
	w.WriteString("].\n")
}

func header(w *bytes.Buffer, src string) {
	fmt.Fprintf(w, "(* GENERATED by tools/gotrans from %s — do not edit. *)\n", src)
	w.WriteString("From Coq Require Import NArith ZArith String List.\nImport ListNotations.\nOpen Scope string_scope.\n\n")
}

// pinned: definitions the hand-written development refers to by name
// (tools/pin_consts.py). A name that /repo no longer has (a constant renamed or
// inlined by a refactoring) is emitted with its pinned text, so that the
// development still compiles, and reported in unreadable.txt: for that constant
// the tie is the correspondence check alone.
var pinnedPath string
var definitionRe = regexp.MustCompile(`(?m)^Definition (\w+) `)

func withPinned(file string, content []byte) []byte {
	data, err := os.ReadFile(pinnedPath)
	if err != nil {
		return content
	}
	have := map[string]bool{}
	for _, m := range definitionRe.FindAllSubmatch(content, -1) {
		have[string(m[1])] = true
	}
	var extra bytes.Buffer
	for _, line := range strings.Split(string(data), "\n") {
		f := strings.SplitN(line, "\t", 3)
		if len(f) != 3 || f[0] != file || have[f[1]] {
			continue
		}
		fmt.Fprintf(&extra, "\n(* not found in /repo under this name on this run; pinned definition *)\n%s\n", f[2])
		if strings.HasSuffix(f[1], "_nat") {
			if i := strings.Index(f[1], "_"); i > 0 {
				fmt.Fprintf(&extra, "#[global] Hint Unfold %s : %s_consts.\n", f[1], f[1][:i])
			}
		}
		unreadableIn[file] = append(unreadableIn[file], f[1]+"\tno declaration of this name in the source; the pinned value is used")
	}
	return append(content, extra.Bytes()...)
}

var unreadableIn = map[string][]string{} // Gen file -> "item<TAB>why"

func writeIfChanged(path string, content []byte) error {
	content = withPinned(filepath.Base(path), content)
	old, err := os.ReadFile(path)
	if err == nil && bytes.Equal(old, content) {
		return nil
	}
	return os.WriteFile(path, content, 0o644)
}

func must(err error) {
	if err != nil {
		fmt.Fprintln(os.Stderr, "gotrans:", err)
		os.Exit(2)
	}
}

func mustFunc(p *pkgInfo, name string) *ast.FuncDecl {
	f := findFunc(p, name)
	if f == nil {
		must(fmt.Errorf("function %s.%s not found", p.name, name))
	}
	return f
}

// pbPointee returns T for an expression of the form *pb.T (else "").
func pbPointee(e ast.Expr) string {
	st, ok := e.(*ast.StarExpr)
	if !ok {
		return ""
	}
	sel, ok := st.X.(*ast.SelectorExpr)
	if !ok {
		return ""
	}
	if id, ok := sel.X.(*ast.Ident); !ok || id.Name != "pb" {
		return ""
	}
	return sel.Sel.Name
}

func isIdent(e ast.Expr, name string) bool {
	id, ok := e.(*ast.Ident)
	return ok && id.Name == name
}

func isByteSlice(e ast.Expr) bool {
	at, ok := e.(*ast.ArrayType)
	return ok && at.Len == nil && (isIdent(at.Elt, "byte") || isIdent(at.Elt, "uint8"))
}

func fieldTypes(fl *ast.FieldList) []ast.Expr {
	var out []ast.Expr
	if fl == nil {
		return out
	}
	for _, f := range fl.List {
		n := len(f.Names)
		if n == 0 {
			n = 1
		}
		for i := 0; i < n; i++ {
			out = append(out, f.Type)
		}
	}
	return out
}

// roleFunc finds the function that plays a role for the message type *pb.T, by
// its name when it still has the expected one, else by its signature (so that
// renaming an unexported function is not a translation failure):
//
//	parse: func([]byte) (*pb.T, ..., error)    check: func(*pb.T) error
//	ser:   func(*pb.T) ([]byte, error)
var canon = map[string]string{}

// canonName maps the current name of a function found by its signature back to
// the name the Coq side uses for it.
func canonName(n string) string {
	if c, ok := canon[n]; ok {
		return c
	}
	return n
}

func roleFunc(p *pkgInfo, name, role, msg string) *ast.FuncDecl {
	if f := findFunc(p, name); f != nil {
		return f
	}
	var found []*ast.FuncDecl
	for _, file := range p.files {
		for _, d := range file.Decls {
			fd, ok := d.(*ast.FuncDecl)
			if !ok || fd.Recv != nil || fd.Body == nil {
				continue
			}
			in, out := fieldTypes(fd.Type.Params), fieldTypes(fd.Type.Results)
			match := false
			switch role {
			case "parse":
				match = len(in) == 1 && isByteSlice(in[0]) && len(out) >= 2 && pbPointee(out[0]) == msg && isIdent(out[len(out)-1], "error")
			case "check":
				match = len(in) == 1 && pbPointee(in[0]) == msg && len(out) == 1 && isIdent(out[0], "error")
			case "ser":
				match = len(in) == 1 && pbPointee(in[0]) == msg && len(out) == 2 && isByteSlice(out[0]) && isIdent(out[1], "error")
			}
			if match {
				found = append(found, fd)
			}
		}
	}
	if len(found) != 1 {
		must(fmt.Errorf("function %s.%s not found (and %d functions have the signature of the %s function of %s)", p.name, name, len(found), role, msg))
	}
	canon[found[0].Name.Name] = name
	return found[0]
}

func main() {
	exe, _ := os.Executable()
	flag.StringVar(&pinnedPath, "pinned", filepath.Join(filepath.Dir(exe), "pinned.txt"), "pinned definitions")
	root := flag.String("repo", "/repo", "repository root")
	out := flag.String("out", "", "output directory (coq/Gen)")
	flag.Parse()
	if *out == "" {
		must(fmt.Errorf("-out required"))
	}
	must(os.MkdirAll(*out, 0o755))

	// ---- constants -------------------------------------------------------
	type cp struct{ rel, file, prefix string }
	for _, c := range []cp{
		{"abi", "AbiConsts.v", "abi_"},
		{"validate", "ValidateConsts.v", "validate_"},
		{"pcs", "PcsConsts.v", "pcs_"},
		{"verify", "VerifyConsts.v", "verify_"},
		{"client/linuxabi", "ClientConsts.v", "labi_"},
		{"tools/check", "CheckConsts.v", "check_"},
		{"verify/trust", "TrustConsts.v", "trust_"},
	} {
		p, err := loadPkg(*root, c.rel)
		must(err)
		var w bytes.Buffer
		header(&w, c.rel)
		emitConsts(p, c.prefix, &w)
		switch c.rel {
		case "verify/trust":
			emitRetryLiterals(p, &w)
		case "pcs":
			emitOids(p, &w)
		case "validate":
			emitValidateTables(p, &w)
		}
		must(writeIfChanged(filepath.Join(*out, c.file), w.Bytes()))
	}

	// ---- ABI tables --------------------------------------------------------
	abi, err := loadPkg(*root, "abi")
	must(err)
	var w bytes.Buffer
	header(&w, "abi/abi.go")
	for _, t := range [][2]string{{"checkHeader", "Header"}, {"checkTDQuoteBody", "TDQuoteBody"}, {"checkQeReport", "EnclaveReport"},
		{"checkEcdsa256BitQuoteV4AuthData", "Ecdsa256BitQuoteV4AuthData"}, {"checkCertificationData", "CertificationData"},
		{"checkQeReportCertificationData", "QEReportCertificationData"}, {"checkQeAuthData", "QeAuthData"},
		{"checkPCKCertificateChain", "PCKCertificateChainData"}} {
		roleFunc(abi, t[0], "check", t[1]) // fills canon before any table is read
	}
	for _, t := range []struct{ name, msg, parse, ser, check string }{
		{"header", "Header", "headerToProto", "HeaderToAbiBytes", "checkHeader"},
		{"body", "TDQuoteBody", "tdQuoteBodyToProto", "TdQuoteBodyToAbiBytes", "checkTDQuoteBody"},
		{"report", "EnclaveReport", "enclaveReportToProto", "EnclaveReportToAbiBytes", "checkQeReport"},
	} {
		curTable = t.name + "_parse_table"
		emitRows(&w, curTable, abi.parseTable(roleFunc(abi, t.parse, "parse", t.msg)))
		emitReadable(&w, curTable)
		curTable = t.name + "_ser_table"
		rows, size := abi.serTable(roleFunc(abi, t.ser, "ser", t.msg))
		emitRows(&w, curTable, rows)
		fmt.Fprintf(&w, "Definition %s_ser_size : string := %s.\n", t.name, coqString(size))
		emitReadable(&w, curTable)
		curTable = t.name + "_check_table"
		emitChecks(&w, curTable, abi.checkTable(roleFunc(abi, t.check, "check", t.msg)))
		emitReadable(&w, curTable)
		w.WriteString("\n")
	}
	for _, t := range []struct{ name, msg, parse, check string }{
		{"signed", "Ecdsa256BitQuoteV4AuthData", "signedDataToProto", "checkEcdsa256BitQuoteV4AuthData"},
		{"certdata", "CertificationData", "certificationDataToProto", "checkCertificationData"},
		{"qercd", "QEReportCertificationData", "qeReportCertificationDataToProto", "checkQeReportCertificationData"},
		{"auth", "QeAuthData", "qeAuthDataToProto", "checkQeAuthData"},
		{"pck", "PCKCertificateChainData", "pckCertificateChainToProto", "checkPCKCertificateChain"},
		{"quote", "QuoteV4", "quoteToProtoV4", "CheckQuoteV4"},
	} {
		curTable = t.name + "_parse_table"
		emitRows(&w, curTable, abi.parseTable(roleFunc(abi, t.parse, "parse", t.msg)))
		emitReadable(&w, curTable)
		curTable = t.name + "_check_table"
		emitChecks(&w, curTable, abi.checkTable(roleFunc(abi, t.check, "check", t.msg)))
		emitReadable(&w, curTable)
		w.WriteString("\n")
	}
	must(writeIfChanged(filepath.Join(*out, "AbiTables.v"), w.Bytes()))
	// what could not be read, for check.sh and the evidence
	var ur bytes.Buffer
	var names []string
	for n := range unreadable {
		names = append(names, n)
	}
	sort.Strings(names)
	for _, n := range names {
		for _, why := range unreadable[n] {
			fmt.Fprintf(&ur, "AbiTables.v\t%s\t%s\n", n, why)
		}
	}
	var files []string
	for f := range unreadableIn {
		files = append(files, f)
	}
	sort.Strings(files)
	for _, f := range files {
		for _, l := range unreadableIn[f] {
			fmt.Fprintf(&ur, "%s\t%s\n", f, l)
		}
	}
	must(os.WriteFile(filepath.Join(*out, "unreadable.txt"), ur.Bytes(), 0o644))

	// ---- write sites -------------------------------------------------------
	var ws bytes.Buffer
	header(&ws, "abi, verify, validate, pcs, rtmr (write sites)")
	emitWriteSites(*root, &ws)
	must(writeIfChanged(filepath.Join(*out, "WriteSites.v"), ws.Bytes()))
}
