#!/usr/bin/env python3
"""Regenerates MANIFEST.json from the table below (kept in one place so it stays valid)."""
import json
TB = ("Trusted base: Coq 8.16.1 kernel + vm_compute (no native_compute); no axioms (Print Assumptions under every property theorem is "
      "'Closed under the global context', enforced by check.sh); the translator tools/gotrans (constants, ABI/option tables, write-site inventory "
      "regenerated from /repo on every run); Coq extraction with exactly the ExtrOcamlBasic directives + ocaml/modelrun.ml; the Go correspondence "
      "harness (generators, world builders, abstraction of concrete inputs into model inputs, error projection). Modelled, not verified: Go stdlib "
      "crypto/x509/asn1/pem/json, protobuf, go-configfs-tsm, go-eventlog, the Go runtime and the OS. ")
TECH = "Coq theorems over an executable Gallina model (regenerated constants/tables) + extraction-based differential correspondence against /repo with a ground-truth oracle"
props = {
 "C08": ("Theorems C08_iff (for every well-formed message and every options value, validation succeeds iff the declarative conjunction of configured expectations holds: exact fields, RTMRs, allowed MR_TD, SVN minima component-wise, XFAM/TD_ATTRIBUTES masks bit by bit) and C08_total (no options value or message makes validation crash); the model is run against validate.TdxQuote / RawTdxQuote on every per-field variant, every single mask bit and list shapes, with an independent Go reading of the property as ground truth.",
         "6 (C08), Appendix A.3", "logger side effects and error texts are not modelled; an empty allowed-MR_TD entry acts as a wildcard in the code and in the model (outside the property's 'set of non-empty values')."),
 "C14": ("Theorems C14_converts_iff / C14_fails / C14_total (conversion succeeds exactly when both SVN minima fit 16 bits and every present byte-string expectation incl. minimum_tee_tcb_svn, RTMR and allowed-MR_TD entries has the right length) and C14_meaning (a converted policy gives the verdict the message literally describes and cannot crash validation); run against validate.PolicyToOptions followed by validate.TdxQuote.",
         "6 (C14), Appendix A.3", "protobuf decoding of the policy message is not modelled (the model starts from the getters' values)."),
 "C09": ("Theorems C09_parse_ser (serialise(parse raw) = raw for every accepted byte string), C09_signed_prefix (re-serialised header/body = bytes 0..631), C09_ser_parse (every well-formed message survives serialise-then-parse), C09_accepts_exactly (parser accepts exactly the serialisations of well-formed messages), C09_fields (every field is the literal-offset little-endian slice Intel's layout prescribes) and C09_tables (the field/offset/check tables the translator recovers from abi.go equal the specification's); the model parser/serialiser is run against abi.QuoteToProto / QuoteToAbiBytes / CheckQuoteV4 / the exported sub-serialisers on thousands of byte strings and messages per run, with an independent layout parser as ground truth.",
         "6 (C09), Appendix A.1", "Input lengths are assumed < 2^32 (the uint32 conversions of len in abi.go are not modelled); nil and empty byte fields are identified (as proto.Equal does)."),
 "C15": ("Theorems C15_ok_iff / C15_total / C15_no_crash / C15_relay / C15_device_bytes / C15_provider / C15_fallback over every scripted device and provider behaviour; the model is run against client.GetRawQuote on the full grid of device outcomes on every check.",
         "6 (C15)", "The device is a scripted behaviour record (what it writes, result codes, status, OutLen); the ioctl layer and /dev/tdx_guest are not modelled; the device fallback of the provider path can only be observed failing in the sandbox."),
}
checks = []
for pid, (text, ref, note) in sorted(props.items()):
    checks.append({
        "property_id": pid,
        "quick_cmd": f"./check.sh {pid} quick",
        "thorough_cmd": f"./check.sh {pid} thorough",
        "evidence_file": f"/verif/evidence/{pid}.json",
        "replay_cmd_template": f"./check.sh {pid} replay {{path}}",
        "engine": "coq-model+correspondence",
        "level_claimed": {"category": "proof", "text": text, "design_ref": f"DESIGN.md section {ref}"},
        "level_note": TB + note,
        "technique": TECH,
    })
allp = [json.loads(l)["id"] for l in open("/verif/properties.jsonl")]
na = [{"property_id": p, "reason": "check not built yet in this round (work in progress; planned, see DESIGN.md section 6)"} for p in allp if p not in props]
m = {
 "version": 1,
 "setup_cmd": "./setup.sh",
 "hooks": {"guard": "verif", "enable": "go build -tags verif (no hook is needed: every property is observed at the public API; no source commits)",
           "baseline_off_cmd": "cd /repo && GOFLAGS=-mod=mod GOPROXY=off go test -vet=off -count=1 ./...", "source_commits": [], "add_only": True},
 "engines": [{"name": "coq-model+correspondence", "path": "/verif/coq, /verif/harness, /verif/ocaml, /verif/tools/gotrans",
              "serves_properties": sorted(props), "kind_free_text": "Coq 8.16.1 development (model, proofs, property theorems) regenerated against /repo by a Go translator; extracted OCaml model run differentially against the Go packages by a Go harness"}],
 "checks": checks,
 "not_applicable": na,
 "notes": "See DESIGN.md. known_findings.json lists recorded and fixed defects.",
}
json.dump(m, open("/verif/MANIFEST.json", "w"), indent=1)
print("checks:", len(checks), "not_applicable:", len(na))
