#!/usr/bin/env python3
"""Regenerates MANIFEST.json from the table below (kept in one place so it stays valid)."""
import json
TB = ("Trusted base: Coq 8.16.1 kernel + vm_compute (no native_compute); no axioms (Print Assumptions under every property theorem is "
      "'Closed under the global context', enforced by check.sh); the translator tools/gotrans (constants, ABI/option tables, write-site inventory "
      "regenerated from /repo on every run); Coq extraction with exactly the ExtrOcamlBasic directives + ocaml/modelrun.ml; the Go correspondence "
      "harness (generators, world builders, abstraction of concrete inputs into model inputs, error projection). Modelled, not verified: Go stdlib "
      "crypto/x509/asn1/pem/json, protobuf, go-configfs-tsm, go-eventlog, the Go runtime and the OS. ")
TECH = "Coq theorems over an executable Gallina model (regenerated constants/tables) + extraction-based differential correspondence against /repo with a ground-truth oracle"
FLOW_NOTE = "The flow model (coq/Model/Verify.v) treats Go's crypto/ecdsa, SHA-256, crypto/x509 parsing and signature checks, encoding/pem, encoding/json, url.QueryUnescape and hex decoding as finite oracle tables inside the `world` (computed by the harness with Go's stdlib on its own bytes; a miss is reported as drift); certificate path building is a simplified Gallina model of crypto/x509 (no name constraints, EKU, path-length limits). "
props = {
 "C01": ("Theorems C01_links (an accepted quote implies: attestation key on P-256, its signature over the re-serialised header||body, the PCK leaf key's signature over the re-serialised QE report, and the SHA-256 binding of key||auth data in the QE report data), C01_raw (for raw input the signed message is bytes 0..631, via the C09 theorems), C01_*_injective (the signed encodings determine every header / body / QE report field) and C01_no_unsigned_accept; the verification flow model is run against verify.RawTdxQuote on bit mutants of every signed region, structured forgeries and random mutation under freshly forged PKIs, with the harness recomputing the three links as ground truth.",
         "6 (C01), Appendix A.2", FLOW_NOTE + "Cryptographic strength (unforgeability, collision resistance) is a hypothesis of C01_no_unsigned_accept, not a claim."),
 "C02": ("Theorems C02_anchor (accepted implies PCK-role leaf, Platform-CA intermediate, self-signed Root-CA root, each signed by the next, and a validated path into the effective root pool), C02_lookalike (a pool that neither contains nor verifies the leaf / intermediate rejects whatever the names), C02_role, C02_rot_exact / C02_rot_bad_bundle (a root-of-trust configuration trusts exactly the listed certificates; empty / non-PEM / unreadable bundles are errors); run against verify.RawTdxQuote over pairs of PKIs, look-alike substitutions, role-confusion chains and verify.RootOfTrustToOptions configurations.",
         "6 (C02)", FLOW_NOTE + "A Processor-CA intermediate is rejected by the CN check (stricter than the property needs; modelled as is)."),
 "C03": ("Theorems C03_signed_values (with collateral on, the TCB Info / QE Identity that drive the verdict are the decodings of the exact-key members whose raw bytes verify under the response's signature with an 'Intel SGX TCB Signing' certificate issued by a self-signed 'Intel SGX Root CA' that chains to the trusted roots, with id/version TDX/3 and TD_QE/2 and non-empty levels, and are the documents the TD body / QE report were judged against) and C03_needs_collateral; run against verify.RawTdxQuote on mutated, re-signed, re-encoded responses and unsigned extra / duplicate members under case and Unicode-fold spellings.",
         "6 (C03)", FLOW_NOTE + "encoding/json's member matching is an oracle: the model receives the exact-key raw member and its decoding; the claim that unsigned members are inert rests on the code decoding values from that raw member (checked by correspondence, incl. the fix 3212704)."),
 "C04": ("Theorems C04_accept_iff (the TD-body check succeeds iff FMSPC / PCE-ID / MRSIGNERSEAM / masked SEAM attributes match and the first matching platform level and, when TEE_TCB_SVN[1] > 0, the first applicable level of the first TDX_<version> identity are UpToDate), C04_level_matches, C04_first_match, C04_module_level, C04_no_match_fails and C04_supported_levels (no matching level: verification fails and the reporting API returns an error); run end-to-end through verify.RawTdxQuote and verify.SupportedTcbLevelsFromCollateral on signed TCB Info documents (exhaustive small scope in the thorough tier).",
         "6 (C04)", FLOW_NOTE + "FMSPC comparison is modelled as ASCII case folding (strings.EqualFold on hex strings)."),
 "C05": ("Theorems C05_sound (with revocation on, acceptance implies collateral on, a Root CA CRL authenticated by the chain's root and by both issuer-chain roots, a PCK CRL authenticated by the intermediate with the leaf's issuer name, and the leaf / intermediate / TCB-Info signer / QE-Identity signer serials absent) and C05_conflict (revocation without collateral never succeeds); run against verify.RawTdxQuote on generated CRLs (revoked sets, near misses, wrong or look-alike signers, endpoint failures, several distribution points).",
         "6 (C05)", FLOW_NOTE + "x509.ParseRevocationList and RevocationList.CheckSignatureFrom are oracles."),
 "C06": ("Theorems C06_sound (acceptance implies every certificate of the PCK chain and of the collateral issuer chains unexpired, validated paths inside their validity periods, TCB Info / QE Identity / PCK CRL / Root CA CRL not past nextUpdate, each at its own entry of the time set), C06_anchored_in_window, C06_expired_leaf_rejected; run against verify.RawTdxQuote on worlds in which exactly one of the 13 artefacts expires, at E-1s / E / E+1s / later with the other four times all before or all after E, zero times and a nil time set.",
         "6 (C06)", FLOW_NOTE + "time.Time is modelled as Unix seconds (Z); the zero time falls back to the wall clock inside x509 (modelled)."),
 "C07": ("Theorems C07_accept_iff (the QE-report check succeeds iff mask sizes are right, masked MISCSELECT / ATTRIBUTES equal the identity's values, MRSIGNER and ISVPRODID are equal and the first level with isvsvn <= the report's ISVSVN is UpToDate), C07_no_level, C07_total; run end-to-end through verify.RawTdxQuote on re-signed QE reports against generated signed QE Identity documents.",
         "6 (C07)", FLOW_NOTE),
 "C10": ("Theorems C10_parse / C10_serialize / C10_check / C10_verify / C10_verify_raw / C10_extract_chain / C10_validate / C10_policy: for every byte string, every message (nil, nil sub-messages, fields of any length), every world (arbitrary chain bytes, responses, oracle answers) and every option set the modelled entry point returns a value or an error, never the model's Panic outcome (every Go slice expression and index is a checked primitive in the model); all functions are structurally recursive. Run against the nine public entry points on truncations, size-field boundaries, every structural mutation of a message, arbitrary chain contents, endpoint responses and SGX-extension DER, under recover and a watchdog.",
         "6 (C10)", FLOW_NOTE + "Panics inside the Go standard library / protobuf and the runtime are not modelled; pcs.PckCertificateExtensions is covered by C13."),
 "C11": ("Theorems C11_parse (every serialisation of a well-formed message - any auth-data length, extra bytes, chain data - parses back to it) and C11_trailing_nul; PARTIAL: the model-level completeness theorem (honest facts imply acceptance) is not proved; acceptance of every honest world at the three levels is established by the correspondence runs on generated honest worlds (implementation and model both accept).",
         "6 (C11)", FLOW_NOTE + "Partial: completeness of the flow model is validated by differential runs only."),
 "C12": ("Theorems C12_monotone_crl, C12_monotone_collateral (dropping checks never turns an acceptance into a rejection, same world), C12_no_fetch, C12_urls / C12_ca_named / C12_url_shapes (only the TCB-Info URL naming the PCK FMSPC, the QE-identity URL and - with revocation - the PCK-CRL URL naming the issuing CA and the issuer root's distribution points are requested), C12_history; run against verify.RawTdxQuote on every generated world under all four option combinations with a recording getter, and on histories of verifications through one shared options value versus fresh ones.",
         "6 (C12)", FLOW_NOTE + "The history theorem is about the model's session (the repaired code writes nothing that a later call reads); the behaviour of the real shared *verify.Options is established by the history runs."),
 "C08": ("Theorems C08_iff (for every well-formed message and every options value, validation succeeds iff the declarative conjunction of configured expectations holds: exact fields, RTMRs, allowed MR_TD, SVN minima component-wise, XFAM/TD_ATTRIBUTES masks bit by bit) and C08_total (no options value or message makes validation crash); the model is run against validate.TdxQuote / RawTdxQuote on every per-field variant, every single mask bit and list shapes, with an independent Go reading of the property as ground truth.",
         "6 (C08), Appendix A.3", "logger side effects and error texts are not modelled; an empty allowed-MR_TD entry acts as a wildcard in the code and in the model (outside the property's 'set of non-empty values')."),
 "C14": ("Theorems C14_converts_iff / C14_fails / C14_total (conversion succeeds exactly when both SVN minima fit 16 bits and every present byte-string expectation incl. minimum_tee_tcb_svn, RTMR and allowed-MR_TD entries has the right length) and C14_meaning (a converted policy gives the verdict the message literally describes and cannot crash validation); run against validate.PolicyToOptions followed by validate.TdxQuote.",
         "6 (C14), Appendix A.3", "protobuf decoding of the policy message is not modelled (the model starts from the getters' values)."),
 "C09": ("Theorems C09_parse_ser (serialise(parse raw) = raw for every accepted byte string), C09_signed_prefix (re-serialised header/body = bytes 0..631), C09_ser_parse (every well-formed message survives serialise-then-parse), C09_accepts_exactly (parser accepts exactly the serialisations of well-formed messages), C09_fields (every field is the literal-offset little-endian slice Intel's layout prescribes) and C09_tables (the field/offset/check tables the translator recovers from abi.go equal the specification's); the model parser/serialiser is run against abi.QuoteToProto / QuoteToAbiBytes / CheckQuoteV4 / the exported sub-serialisers on thousands of byte strings and messages per run, with an independent layout parser as ground truth.",
         "6 (C09), Appendix A.1", "Input lengths are assumed < 2^32 (the uint32 conversions of len in abi.go are not modelled); nil and empty byte fields are identified (as proto.Equal does)."),
 "C15": ("Theorems C15_ok_iff / C15_total / C15_no_crash / C15_relay / C15_device_bytes / C15_provider / C15_fallback over every scripted device and provider behaviour; the model is run against client.GetRawQuote on the full grid of device outcomes on every check.",
         "6 (C15)", "The device is a scripted behaviour record (what it writes, result codes, status, OutLen); the ioctl layer and /dev/tdx_guest are not modelled; the device fallback of the provider path can only be observed failing in the sandbox."),
}
checks = []
for pid, (text, ref, note) in sorted(props.items()):
    checks.append({
        "property_id": pid,
        "quick_cmd": f"./check.sh {pid} quick",
        "thorough_cmd": f"./check.sh {pid} thorough",
        "evidence_file": f"/verif/evidence/{pid}.json",
        "replay_cmd_template": f"./check.sh {pid} replay {{path}}",
        "engine": "coq-model+correspondence",
        "level_claimed": {"category": "proof", "text": text, "design_ref": f"DESIGN.md section {ref}"},
        "level_note": TB + note,
        "technique": TECH,
    })
allp = [json.loads(l)["id"] for l in open("/verif/properties.jsonl")]
na = [{"property_id": p, "reason": "check not built yet in this round (work in progress; planned, see DESIGN.md section 6)"} for p in allp if p not in props]
m = {
 "version": 1,
 "setup_cmd": "./setup.sh",
 "hooks": {"guard": "verif", "enable": "go build -tags verif (no hook is needed: every property is observed at the public API; no source commits)",
           "baseline_off_cmd": "cd /repo && GOFLAGS=-mod=mod GOPROXY=off go test -vet=off -count=1 ./...", "source_commits": [], "add_only": True},
 "engines": [{"name": "coq-model+correspondence", "path": "/verif/coq, /verif/harness, /verif/ocaml, /verif/tools/gotrans",
              "serves_properties": sorted(props), "kind_free_text": "Coq 8.16.1 development (model, proofs, property theorems) regenerated against /repo by a Go translator; extracted OCaml model run differentially against the Go packages by a Go harness"}],
 "checks": checks,
 "not_applicable": na,
 "notes": "See DESIGN.md. known_findings.json lists recorded and fixed defects.",
}
json.dump(m, open("/verif/MANIFEST.json", "w"), indent=1)
print("checks:", len(checks), "not_applicable:", len(na))
