#!/usr/bin/env python3
"""tools/pin_consts.py -- records, for every definition of coq/Gen/*.v that the hand-written
development refers to by name, its current text (tools/gotrans/pinned.txt). When /repo later no
longer has a constant under that name (renamed or inlined by a refactoring), the translator emits
the pinned definition instead, so that the development still compiles, and reports the name as
not found (coq/Gen/unreadable.txt): for that constant the tie is the correspondence check alone.
Run by hand when the development starts using a new generated name."""
import re, os, glob
root = os.path.join(os.path.dirname(os.path.abspath(__file__)), "..", "coq")
defs = {}   # name -> (file, text)
for f in sorted(glob.glob(os.path.join(root, "Gen", "*.v"))):
    for m in re.finditer(r'^Definition (\w+) :[^\n]*?:=(?:[^.]|\.(?!\s))*\.\s*$', open(f).read(), re.M | re.S):
        defs[m.group(1)] = (os.path.basename(f), " ".join(m.group(0).split()))
used = set()
for f in glob.glob(os.path.join(root, "**", "*.v"), recursive=True):
    if os.sep + "Gen" + os.sep in f:
        continue
    for w in re.findall(r'\b[A-Za-z_][A-Za-z0-9_\']*\b', open(f).read()):
        if w in defs:
            used.add(w)
skip = re.compile(r'_table$|_readable$|_ser_size$|^write_sites$|^trust_retry_')
out = []
for n in sorted(used):
    if skip.search(n):
        continue
    out.append(f"{defs[n][0]}\t{n}\t{defs[n][1]}")
open(os.path.join(root, "..", "tools", "gotrans", "pinned.txt"), "w").write("\n".join(out) + "\n")
print(len(out), "pinned definitions")
