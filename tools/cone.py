#!/usr/bin/env python3
"""cone.py <coqdir> <file.v>: transitive project-local dependencies of a .v file
(from the From V Require lines), the file itself first."""
import re, sys, os
root, start = sys.argv[1], sys.argv[2]
seen, order = set(), []
def deps(f):
    out = []
    try:
        src = open(os.path.join(root, f)).read()
    except OSError:
        return out
    for line in src.splitlines():
        line = line.strip()
        if not line.startswith('From V Require'):
            continue
        line = line[len('From V Require'):].rstrip('.').strip()
        for mod in line.split():
            if mod in ('Import', 'Export'):
                continue
            out.append(mod.replace('.', '/') + '.v')
    return out
def visit(f):
    if f in seen: return
    seen.add(f); order.append(f)
    for d in deps(f): visit(d)
visit(start)
print(' '.join(order))
