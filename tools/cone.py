#!/usr/bin/env python3
"""cone.py <coqdir> <file.v>: transitive project-local dependencies of a .v file
(from the From V Require lines), the file itself first."""
import re, sys, os
root, start = sys.argv[1], sys.argv[2]
seen, order = set(), []
def deps(f):
    out = []
    try:
        src = open(os.path.join(root, f)).read()
    except OSError:
        return out
    # a Require sentence may span several lines: it ends at the first period followed by white space
    for m in re.finditer(r'From\s+V\s+Require\b', src):
        rest = src[m.end():]
        end = re.search(r'\.(\s|$)', rest)
        sentence = rest[:end.start()] if end else rest
        for mod in sentence.split():
            if mod in ('Import', 'Export'):
                continue
            out.append(mod.replace('.', '/') + '.v')
    return out
def visit(f):
    if f in seen: return
    seen.add(f); order.append(f)
    for d in deps(f): visit(d)
visit(start)
print(' '.join(order))
