#!/usr/bin/env python3
"""keep_mutant.py <src-dir> <seeded-id> <property> <caught-by> <status> -- copies patch.diff, demo, README into /verif/seeded/<id>/ with meta.json
status: caught | caught-after-strengthening | missed"""
import json, os, shutil, sys, re
src, sid, prop, caught, status = sys.argv[1:6]
note = sys.argv[6] if len(sys.argv) > 6 else ""
dst = f"/verif/seeded/{sid}"
os.makedirs(dst, exist_ok=True)
for f in ("patch.diff", "demo_test.go", "README.txt"):
    shutil.copy(os.path.join(src, f), os.path.join(dst, f))
# *_test.go files inside /verif must not be picked up by go tooling in the harness module: rename
os.replace(os.path.join(dst, "demo_test.go"), os.path.join(dst, "demo_test.go.txt"))
readme = open(os.path.join(dst, "README.txt")).read()
m = re.search(r'[a-zA-Z0-9_/.-]+_test\.go', readme)
meta = {
 "property": prop,
 "origin": "independent sub-agent given only the property text and a scratch worktree of /repo (no access to /verif)",
 "demonstration": {"file": "demo_test.go.txt", "place_at": m.group(0) if m else None,
                   "behaviour": "fails with patch.diff applied, passes without (confirmed in a scratch worktree by tools/try_mutant.sh)"},
 "needs_to_manifest": readme.strip().split("\n\n")[0][:1200],
 "confirmed": ["patch applies to /repo HEAD", "go build ./... ok", "existing test suite passes with the patch (go test -count=1 ./...)",
               "demonstration fails with the patch and passes without it"],
 "ran": f"tools/try_mutant.sh <dir> {caught}",
 "detection": {"status": status, "checks": caught.split(), "note": note},
}
json.dump(meta, open(os.path.join(dst, "meta.json"), "w"), indent=1)
print("kept", dst)
