#!/bin/bash
# tools/try_mutant.sh <mutant-dir (with patch.diff, demo_test.go, README.txt)> <Cxx> [more Cyy ...]
# 1. confirms in a scratch worktree that the patch compiles, the existing suite passes with it,
#    and the demonstration fails with / passes without it;
# 2. applies the patch to /repo, runs the listed checks (quick), reverts /repo.
set -u
export GOFLAGS=-mod=mod GOPROXY=off GOSUMDB=off GOTOOLCHAIN=local
M="$(cd "$1" && pwd)"; shift
WT=/tmp/mut/verify_wt
rm -rf "$WT"; git -C /repo worktree prune; git -C /repo worktree add -q --detach "$WT" HEAD || exit 2
DEMO_PATH="$(grep -oE '[a-zA-Z0-9_/.-]+_test\.go' "$M/README.txt" | grep / | head -1)"
[ -z "$DEMO_PATH" ] && DEMO_PATH="$(grep -m1 -oE '^package [a-z_]+' "$M/demo_test.go" | awk '{print $2}' | sed 's/_test$//')/zz_demo_test.go"
PKG_DIR="$(dirname "$DEMO_PATH")"
echo "== mutant $M  demo at $DEMO_PATH"
( cd "$WT" && git apply "$M/patch.diff" ) || { echo "PATCH DOES NOT APPLY"; git -C /repo worktree remove --force "$WT"; exit 2; }
( cd "$WT" && go build ./... ) || echo "BUILD FAILS"
SUITE=$(cd "$WT" && go test -count=1 ./... 2>&1 | grep -cE '^(FAIL|---.*FAIL)')
echo "suite failures with patch: $SUITE"
mkdir -p "$WT/$PKG_DIR"; cp "$M/demo_test.go" "$WT/$DEMO_PATH"
( cd "$WT" && go test -count=1 "./$PKG_DIR/" > /tmp/mut/demo_with.log 2>&1 ); RC_WITH=$?
( cd "$WT" && git apply -R "$M/patch.diff" && go test -count=1 "./$PKG_DIR/" > /tmp/mut/demo_without.log 2>&1 ); RC_WITHOUT=$?
echo "demo with patch rc=$RC_WITH (expect != 0), without rc=$RC_WITHOUT (expect 0)"
git -C /repo worktree remove --force "$WT"
# 3. my checks
( cd /repo && git apply "$M/patch.diff" ) || exit 2
for P in "$@"; do
  OUT=$(cd /verif && ./check.sh "$P" quick 2>&1); RC=$?
  echo "check $P rc=$RC: $(echo "$OUT" | grep -E '^VIOLATION|^KNOWN' | head -3 | tr '\n' ' ')"
  echo "$OUT" | grep -E "^\s+\[$P\]" | head -3 | cut -c1-220
done
git -C /repo checkout -- . ; git -C /repo status --short | head -3
