#!/bin/bash
# tools/run_seeded.sh [ids...] -- applies each kept mutant (seeded/<id>/patch.diff) to /repo, runs the
# quick check of its property, reverts, and prints one line per mutant. /repo must be clean.
set -u
cd /verif
[ -z "$(git -C /repo status --porcelain)" ] || { echo "/repo is not clean"; exit 2; }
IDS="$@"; [ -z "$IDS" ] && IDS=$(ls seeded | grep -E '^C[0-9]+-')
for id in $IDS; do
  P=$(python3 -c "import json;print(json.load(open('seeded/$id/meta.json'))['property'])")
  if ! git -C /repo apply "/verif/seeded/$id/patch.diff" 2>/dev/null; then echo "$id $P PATCH-DOES-NOT-APPLY"; continue; fi
  OUT=$(./check.sh "$P" quick 2>&1); RC=$?
  KIND="failing-input"; echo "$OUT" | grep -q "^VIOLATION.*no-failing-input-found" && KIND="no-failing-input-found"
  [ $RC = 0 ] && KIND="MISSED"
  echo "$id $P rc=$RC $KIND $(echo "$OUT" | grep -c '^VIOLATION') violation line(s)"
  git -C /repo checkout -- .
done
./build.sh >/dev/null 2>&1
