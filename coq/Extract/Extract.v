(* Extraction of the executable model for the correspondence harness.
   Directives: exactly those of ExtrOcamlBasic.  Run by setup.sh inside
   ocaml/gen (the output file lands in the current directory). *)
From Coq Require Import Extraction ExtrOcamlBasic.
From V Require Import Lib.Sexp Wire.C15 Wire.Abi Wire.Validate Wire.Verify Wire.Rtmr Wire.Retry Wire.PckExt Wire.Heap Wire.Ccel Wire.CheckTool.
Extraction Language OCaml.
Definition byte_of_N_opt := Byte.of_N.
Definition byte_to_N := Byte.to_N.
Extraction "model.ml" sexp byte_of_N_opt byte_to_N run_C15 run_abi run_val run_verify run_rtmr run_retry run_pck run_heap run_ccel run_checktool.
