From V Require Import Lib.Sexp Model.Retry.

Definition dur_offset : Z := 4611686018427387904%Z.  (* 2^62 *)
Definition sDur (s : sexp) : Z := (Z.of_N (sN s) - dur_offset)%Z.
Definition enc_dur (z : Z) : sexp := A (Z.to_N (z + dur_offset)).

Definition dec_attempt (s : sexp) : attempt :=
  {| aDuration := sDur (snth 0 s); aResult := sopt sB (snth 1 s) |}.

(* (attempts start timeout max ties) *)
Definition run_retry (s : sexp) : sexp :=
  let script := map dec_attempt (sL (snth 0 s)) in
  let ties := map sbool (sL (snth 4 s)) in
  let tr := retry_get script (sDur (snth 1 s)) (sDur (snth 2 s)) (sDur (snth 3 s)) (fun n => nth n ties false) in
  L [match trOutcome tr with
     | Success r => L [A 0; B r]
     | TimedOut => L [A 1]
     | ScriptExhausted => L [A 2]
     end;
     A (N.of_nat (trCalls tr))].
(* projection: the outcome and the number of calls; waits and the return time are
   compared by the harness against the real clock with tolerances *)
