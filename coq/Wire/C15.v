From V Require Import Lib.Sexp Model.Client.

Definition dec_device (s : sexp) : device :=
  {| rep_err := sbool (snth 0 s); rep_code := sN (snth 1 s); rep_write := sB (snth 2 s);
     q_err := sbool (snth 3 s); q_code := sN (snth 4 s); q_status := sN (snth 5 s);
     q_outlen := sN (snth 6 s); q_write := sB (snth 7 s) |}.

Definition dec_provider (s : sexp) : provider :=
  {| p_supported := sbool (snth 0 s); p_bytes := sB (snth 1 s); p_err := sbool (snth 2 s) |}.

Definition dec_qp (s : sexp) : qp :=
  match sN (snth 0 s) with
  | 0%N => QDevice (dec_device (snth 1 s))
  | 1%N => QProvider (dec_provider (snth 1 s))
  | 2%N => QBoth (dec_device (snth 1 s)) (dec_provider (snth 2 s))
  | _ => QOther
  end.

Definition enc_request (r : request) : sexp :=
  match r with
  | ReqReport rd => L [A 0; B rd]
  | ReqQuote v st il ol len data =>
    (* projection: the TD-report part of the buffer and whether the rest is zero *)
    L [A 1; A v; A st; A il; A ol; A len; B (firstn td_report_size data);
       of_bool (forallb (fun b => Byte.eqb b x00) (skipn td_report_size data))]
  end.

Definition enc_outcome (o : outcome * list request) : sexp :=
  match fst o with
  | Ret b e => L [A 0; B b; of_bool e; L (map enc_request (snd o))]
  | Crash => L [A 2]
  end.

(* case = (qp, report_data); the fallback device cannot be opened in the sandbox *)
Definition run_C15 (s : sexp) : sexp :=
  enc_outcome (get_raw_quote (dec_qp (snth 0 s)) None (sB (snth 1 s))).
