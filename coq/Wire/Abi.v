(* sexp <-> QuoteV4 message *)
From V Require Import Lib.Sexp Model.Abi Model.Der.

Definition enc_header (h : header) : sexp :=
  L [A (hVersion h); A (hAkt h); A (hTee h); B (hPceSvn h); B (hQeSvn h); B (hVendor h); B (hUser h)].
Definition dec_header (s : sexp) : header :=
  {| hVersion := sN (snth 0 s); hAkt := sN (snth 1 s); hTee := sN (snth 2 s);
     hPceSvn := sB (snth 3 s); hQeSvn := sB (snth 4 s); hVendor := sB (snth 5 s); hUser := sB (snth 6 s) |}.

Definition enc_body (b : tdbody) : sexp :=
  L [B (bTeeTcbSvn b); B (bMrSeam b); B (bMrSignerSeam b); B (bSeamAttr b); B (bTdAttr b); B (bXfam b);
     B (bMrTd b); B (bMrConfigId b); B (bMrOwner b); B (bMrOwnerConfig b);
     L (map B (bRtmrs b)); B (bReportData b)].
Definition dec_body (s : sexp) : tdbody :=
  {| bTeeTcbSvn := sB (snth 0 s); bMrSeam := sB (snth 1 s); bMrSignerSeam := sB (snth 2 s);
     bSeamAttr := sB (snth 3 s); bTdAttr := sB (snth 4 s); bXfam := sB (snth 5 s);
     bMrTd := sB (snth 6 s); bMrConfigId := sB (snth 7 s); bMrOwner := sB (snth 8 s);
     bMrOwnerConfig := sB (snth 9 s); bRtmrs := map sB (sL (snth 10 s)); bReportData := sB (snth 11 s) |}.

Definition enc_report (r : report) : sexp :=
  L [B (rCpuSvn r); A (rMiscSelect r); B (rReserved1 r); B (rAttributes r); B (rMrEnclave r);
     B (rReserved2 r); B (rMrSigner r); B (rReserved3 r); A (rIsvProdId r); A (rIsvSvn r);
     B (rReserved4 r); B (rReportData r)].
Definition dec_report (s : sexp) : report :=
  {| rCpuSvn := sB (snth 0 s); rMiscSelect := sN (snth 1 s); rReserved1 := sB (snth 2 s);
     rAttributes := sB (snth 3 s); rMrEnclave := sB (snth 4 s); rReserved2 := sB (snth 5 s);
     rMrSigner := sB (snth 6 s); rReserved3 := sB (snth 7 s); rIsvProdId := sN (snth 8 s);
     rIsvSvn := sN (snth 9 s); rReserved4 := sB (snth 10 s); rReportData := sB (snth 11 s) |}.

Definition enc_auth (a : authdata) : sexp := L [A (aSize a); B (aData a)].
Definition dec_auth (s : sexp) : authdata := {| aSize := sN (snth 0 s); aData := sB (snth 1 s) |}.
Definition enc_pck (p : pckchain) : sexp := L [A (pType p); A (pSize p); B (pChain p)].
Definition dec_pck (s : sexp) : pckchain :=
  {| pType := sN (snth 0 s); pSize := sN (snth 1 s); pChain := sB (snth 2 s) |}.

Definition enc_qercd (q : qercd) : sexp :=
  L [of_opt enc_report (qReport q); B (qSig q); of_opt enc_auth (qAuth q); of_opt enc_pck (qPck q)].
Definition dec_qercd (s : sexp) : qercd :=
  {| qReport := sopt dec_report (snth 0 s); qSig := sB (snth 1 s);
     qAuth := sopt dec_auth (snth 2 s); qPck := sopt dec_pck (snth 3 s) |}.

Definition enc_certdata (c : certdata) : sexp := L [A (cType c); A (cSize c); of_opt enc_qercd (cQercd c)].
Definition dec_certdata (s : sexp) : certdata :=
  {| cType := sN (snth 0 s); cSize := sN (snth 1 s); cQercd := sopt dec_qercd (snth 2 s) |}.

Definition enc_signed (d : signeddata) : sexp := L [B (sSig d); B (sKey d); of_opt enc_certdata (sCert d)].
Definition dec_signed (s : sexp) : signeddata :=
  {| sSig := sB (snth 0 s); sKey := sB (snth 1 s); sCert := sopt dec_certdata (snth 2 s) |}.

Definition enc_quote (q : quote) : sexp :=
  L [of_opt enc_header (qHeader q); of_opt enc_body (qBody q); A (qSignedDataSize q);
     of_opt enc_signed (qSigned q); B (qExtra q)].
Definition dec_quote (s : sexp) : quote :=
  {| qHeader := sopt dec_header (snth 0 s); qBody := sopt dec_body (snth 1 s);
     qSignedDataSize := sN (snth 2 s); qSigned := sopt dec_signed (snth 3 s); qExtra := sB (snth 4 s) |}.

Definition enc_unit (_ : unit) : sexp := L [].

(* entry: (op arg)
   0 parse raw | 1 serialize (opt quote) | 2 check (opt quote)
   3 ser_header (opt header) | 4 ser_body (opt body) | 5 ser_report (opt report)
   6 SignatureToDER bytes *)
Definition run_abi (s : sexp) : sexp :=
  let arg := snth 1 s in
  match sN (snth 0 s) with
  | 0%N => of_res enc_quote (parse (sB arg))
  | 1%N => of_res B (serialize (sopt dec_quote arg))
  | 2%N => of_res enc_unit (check_quote (sopt dec_quote arg))
  | 3%N => of_res B (ser_header (sopt dec_header arg))
  | 4%N => of_res B (ser_body (sopt dec_body arg))
  | 5%N => of_res B (ser_report (sopt dec_report arg))
  | 6%N => of_res B (sig_to_der (sB arg))
  | _ => L [A 255]
  end.
