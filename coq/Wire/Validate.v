From V Require Import Lib.Sexp Model.Validate Wire.Abi.

Definition sob (s : sexp) : option bytes := sopt sB s.
Definition of_ob (o : option bytes) : sexp := of_opt B o.

Definition dec_vopts (s : sexp) : vopts :=
  {| oMinQeSvn := sN (snth 0 s); oMinPceSvn := sN (snth 1 s); oQeVendorId := sob (snth 2 s);
     oMinTeeTcbSvn := sob (snth 3 s); oMrSeam := sob (snth 4 s); oTdAttr := sob (snth 5 s);
     oXfam := sob (snth 6 s); oMrTd := sob (snth 7 s); oMrConfigId := sob (snth 8 s);
     oMrOwner := sob (snth 9 s); oMrOwnerConfig := sob (snth 10 s);
     oRtmrs := map sB (sL (snth 11 s)); oReportData := sob (snth 12 s);
     oAnyMrTd := map sB (sL (snth 13 s)) |}.

Definition enc_vopts (o : vopts) : sexp :=
  L [A (oMinQeSvn o); A (oMinPceSvn o); of_ob (oQeVendorId o); of_ob (oMinTeeTcbSvn o);
     of_ob (oMrSeam o); of_ob (oTdAttr o); of_ob (oXfam o); of_ob (oMrTd o); of_ob (oMrConfigId o);
     of_ob (oMrOwner o); of_ob (oMrOwnerConfig o); L (map B (oRtmrs o)); of_ob (oReportData o);
     L (map B (oAnyMrTd o))].

Definition dec_policy (s : sexp) : policy :=
  {| pMinQeSvn := sN (snth 0 s); pMinPceSvn := sN (snth 1 s); pQeVendorId := sob (snth 2 s);
     pMinTeeTcbSvn := sob (snth 3 s); pMrSeam := sob (snth 4 s); pTdAttr := sob (snth 5 s);
     pXfam := sob (snth 6 s); pMrTd := sob (snth 7 s); pMrConfigId := sob (snth 8 s);
     pMrOwner := sob (snth 9 s); pMrOwnerConfig := sob (snth 10 s);
     pRtmrs := map sB (sL (snth 11 s)); pReportData := sob (snth 12 s);
     pAnyMrTd := map sB (sL (snth 13 s)) |}.

Definition validate_raw (raw : bytes) (o : option vopts) : res unit :=
  match parse raw with
  | Ok q => validate (Some q) o
  | Err c => Err EParse
  | Panic => Panic
  end.

(* (op a b):
   0 validate (opt quote) (opt vopts) | 1 validate_raw raw (opt vopts)
   2 policy_to_options policy | 3 policy_to_options then validate: policy (opt quote) *)
Definition run_val (s : sexp) : sexp :=
  let a := snth 1 s in let b := snth 2 s in
  match sN (snth 0 s) with
  | 0%N => of_res0 enc_unit (validate (sopt dec_quote a) (sopt dec_vopts b))
  | 1%N => of_res0 enc_unit (validate_raw (sB a) (sopt dec_vopts b))
  | 2%N => of_res0 enc_vopts (policy_to_options (dec_policy a))
  | 3%N => match policy_to_options (dec_policy a) with
           | Ok o => L [A 0; of_res0 enc_unit (validate (sopt dec_quote b) (Some o))]
           | Err c => L [A 1]
           | Panic => L [A 2]
           end
  | _ => L [A 255]
  end.
