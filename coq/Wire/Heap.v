(* sexp entry for the heap programs (C16).
   input:  (op blocks quote slices extra)
     blocks : list of byte strings, block i = shared block [Sh i] up to its full size
     quote  : the message as for Wire/Abi (scalars; byte values are re-read from the heap)
     slices : (s0 .. s13 (rtmr slices) s15 .. s31), each slice (blk off len cap)
     extra  : op 0: (raw-slice); op 1: ((input digest) ...) sha256 table;
              op 3: (a-slice b-slice); op 4: (option slices)
   output: (result writes-to-shared-blocks) *)
From V Require Import Lib.Sexp Model.Abi Model.HeapProgs Wire.Abi.

Definition dec_slice (s : sexp) : hslice :=
  {| sb := Sh (snat (snth 0 s)); so := snat (snth 1 s); sl := snat (snth 2 s); sc := snat (snth 3 s) |}.

Definition dec_hquote (qs ss : sexp) : hquote :=
  let f i := dec_slice (snth i ss) in
  {| hqScal := dec_quote qs;
     hqPceSvn := f 0; hqQeSvn := f 1; hqVendor := f 2; hqUser := f 3;
     hqTeeTcbSvn := f 4; hqMrSeam := f 5; hqMrSignerSeam := f 6; hqSeamAttr := f 7; hqTdAttr := f 8;
     hqXfam := f 9; hqMrTd := f 10; hqMrConfigId := f 11; hqMrOwner := f 12; hqMrOwnerConfig := f 13;
     hqRtmrs := map dec_slice (sL (snth 14 ss)); hqReportData := f 15;
     hqSig := f 16; hqKey := f 17;
     hqCpuSvn := f 18; hqRes1 := f 19; hqAttrs := f 20; hqMrEnclave := f 21; hqRes2 := f 22;
     hqMrSigner := f 23; hqRes3 := f 24; hqRes4 := f 25; hqQeReportData := f 26;
     hqQeSig := f 27; hqAuth := f 28; hqChain := f 29; hqExtra := f 30 |}.

Definition heap_of_blocks (bs : list bytes) : heap :=
  fun b => match b with Sh i => nth i bs [] | Pv _ _ => [] end.

Definition enc_blk (b : blk) : sexp :=
  match b with Sh n => L [A 0; A (N.of_nat n)] | Pv t n => L [A 1; A (N.of_nat n)] end.

Definition enc_slice (s : hslice) : sexp :=
  L [enc_blk (sb s); A (N.of_nat (so s)); A (N.of_nat (sl s)); A (N.of_nat (sc s))].

Definition is_shared (b : blk) : bool := match b with Sh _ => true | Pv _ _ => false end.

Definition enc_writes (w : wlog) : sexp :=
  L (map (fun e => L [enc_blk (fst (fst e)); A (N.of_nat (snd (fst e))); A (N.of_nat (snd e))])
         (filter (fun e => is_shared (fst (fst e))) w)).

Definition read_slice (h : heap) (s : hslice) : bytes := slice (so s) (so s + sl s) (h (sb s)).

Fixpoint lookup_sha (t : list (bytes * bytes)) (d : bytes) : bytes :=
  match t with
  | [] => zeros 32
  | (k, v) :: r => if bytes_eqb k d then v else lookup_sha r d
  end.

Definition finish {T} (r : option T * nat * heap * wlog) (f : heap -> T -> sexp) : sexp :=
  let '(res, _, h, w) := r in
  L [match res with Some a => f h a | None => L [A 2] end; enc_writes w].

Definition run_heap (s : sexp) : sexp :=
  let h0 := heap_of_blocks (map sB (sL (snth 1 s))) in
  let q := dec_hquote (snth 2 s) (snth 3 s) in
  let extra := snth 4 s in
  match sN (snth 0 s) with
  | 0%N => finish (run 0 (parse_h (dec_slice (snth 0 extra))) 0 h0)
             (fun _ r => of_res0 (fun hq => L (map enc_slice (hq_slices hq))) r)
  | 1%N => let tab := map (fun e => (sB (snth 0 e), sB (snth 1 e))) (sL extra) in
           finish (run 0 (verify_bytes_h (lookup_sha tab) q) 0 h0)
             (fun _ r => let '(c, m, ok, rp) := r in L [A 0; L [B c; B m; of_bool ok; B rp]])
  | 2%N => finish (run 0 (serialize_h q) 0 h0) (fun h r => of_res0 (fun sl_ => B (read_slice h sl_)) r)
  | 3%N => finish (run 0 (apply_mask_h (dec_slice (snth 0 extra)) (dec_slice (snth 1 extra))) 0 h0)
             (fun h r => L [A 0; B (read_slice h r)])
  | 4%N => finish (run 0 (validate_reads_h q (map dec_slice (sL extra))) 0 h0)
             (fun _ r => L [A 0; enc_quote (fst r); L (map B (snd r))])
  | 5%N => let tab := map (fun e => (sB (snth 0 e), sB (snth 1 e))) (sL extra) in
           finish (run 0 (verify_hash256_unrepaired (lookup_sha tab) q) 0 h0)
             (fun _ ok => L [A 0; of_bool ok])
  | _ => L [A 255]
  end.
