From V Require Import Lib.Sexp Model.PckExt.

Definition int_offset : Z := 9223372036854775808%Z.  (* 2^63 *)

Definition dec_any (s : sexp) : anyval :=
  match sN (snth 0 s) with
  | 1%N => AInt (Z.of_N (sN (snth 1 s)) - int_offset)%Z
  | 2%N => ABytes (sB (snth 1 s))
  | 3%N => AOther
  | _ => AErr
  end.

Fixpoint dec_node_fuel (fuel : nat) (s : sexp) : node :=
  match fuel with
  | O => Node 0 0 false [] None None AErr false
  | S f =>
    Node (sN (snth 0 s)) (sN (snth 1 s)) (sbool (snth 2 s)) (sB (snth 3 s))
         (sopt (fun x => map (dec_node_fuel f) (sL x)) (snth 4 s))
         (sopt (fun x => map sN (sL x)) (snth 5 s))
         (dec_any (snth 6 s))
         (sbool (snth 7 s))
  end.
Definition dec_node := dec_node_fuel 12.   (* nesting depth of the inputs is at most 6 *)

Fixpoint lookup_dec (k : bytes) (t : list (bytes * option (node * nat))) : option (node * nat) :=
  match t with
  | [] => None
  | (k', v) :: r => if bytes_eqb k k' then v else lookup_dec k r
  end.

Definition enc_values (v : pck_values) : sexp :=
  L [B (pvPpid v);
     L [A (tcPceSvn (pvTcb v)); B (tcCpuSvn (pvTcb v)); L (map A (tcComps (pvTcb v)))];
     B (pvPceId v); B (pvFmspc v)].

(* (decode-table extensions) *)
Definition run_pck (s : sexp) : sexp :=
  let tab := map (fun e => (sB (snth 0 e),
                            sopt (fun x => (dec_node (snth 0 x), snat (snth 1 x))) (snth 1 e))) (sL (snth 0 s)) in
  let exts := map (fun e => (map sN (sL (snth 0 e)), sB (snth 1 e))) (sL (snth 1 s)) in
  of_res0 enc_values (pck_extensions (fun b => lookup_dec b tab) exts).
