From V Require Import Lib.Sexp Model.Rtmr.

Definition idx_offset : Z := 9223372036854775808%Z.  (* 2^63 *)
Definition sIdx (s : sexp) : Z := (Z.of_N (sN s) - idx_offset)%Z.

(* the hash used when running the model: SHA-384 of event logs comes from the
   table; anything else (register extension in the model TSM) is a free,
   injective symbolic hash that the harness's model TSM uses as well *)
Fixpoint lookup_b (k : bytes) (t : list (bytes * bytes)) : option bytes :=
  match t with
  | [] => None
  | (k', v) :: r => if bytes_eqb k k' then Some v else lookup_b k r
  end.
Definition sym_hash (tab : list (bytes * bytes)) (x : bytes) : bytes :=
  match lookup_b x tab with
  | Some d => d
  | None => xff :: le_encode 4 (N.of_nat (length x)) ++ x
  end.

Definition dec_entry (s : sexp) : entry :=
  {| eName := sN (snth 0 s); eIndex := sopt sN (snth 1 s); eReg := sB (snth 2 s) |}.
Definition enc_entry (e : entry) : sexp := L [A (eName e); of_opt A (eIndex e); B (eReg e)].

Definition dec_request (s : sexp) : request :=
  match sN (snth 0 s) with
  | 0%N => RDigest (sIdx (snth 1 s)) (sB (snth 2 s))
  | _ => REventLog (sIdx (snth 1 s)) (sbool (snth 2 s)) (sB (snth 3 s))
  end.

Definition enc_op (o : op) : sexp :=
  match o with
  | ReadDir => L [A 0]
  | ReadIndex n => L [A 1; A n]
  | MkdirTemp i => L [A 2; A i]
  | WriteIndex n i => L [A 3; A n; A i]
  | WriteDigest n d => L [A 4; A n; B d]
  end.

Fixpoint run_all (h : bytes -> bytes) (t : tsm) (rs : list request) : list sexp * tsm :=
  match rs with
  | [] => ([], t)
  | r :: rest =>
    let '(t', ops, err) := run_request h t r in
    let '(outs, tf) := run_all h t' rest in
    (L [of_bool err; L (map enc_op ops)] :: outs, tf)
  end.

(* (sha-table initial-tsm requests) *)
Definition run_rtmr (s : sexp) : sexp :=
  let tab := map (fun e => (sB (snth 0 e), sB (snth 1 e))) (sL (snth 0 s)) in
  let t0 := map dec_entry (sL (snth 1 s)) in
  let rs := map dec_request (sL (snth 2 s)) in
  let '(outs, tf) := run_all (sym_hash tab) t0 rs in
  L [L outs; L (map enc_entry tf)].
