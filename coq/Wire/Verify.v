From V Require Import Lib.Sexp Model.Verify Model.RootOfTrust Wire.Abi.

Definition time_offset : Z := 137438953472%Z.   (* 2^37 *)
Definition sZ (s : sexp) : Z := (Z.of_N (sN s) - time_offset)%Z.

Definition status_of_N (n : N) : status :=
  match n with
  | 0 => UpToDate | 1 => SWHardeningNeeded | 2 => ConfigurationNeeded
  | 3 => ConfigurationAndSWHardeningNeeded | 4 => OutOfDate | 5 => OutOfDateConfigurationNeeded
  | _ => Revoked
  end%N.
Definition status_to_N (s : status) : N :=
  match s with
  | UpToDate => 0 | SWHardeningNeeded => 1 | ConfigurationNeeded => 2
  | ConfigurationAndSWHardeningNeeded => 3 | OutOfDate => 4 | OutOfDateConfigurationNeeded => 5
  | Revoked => 6
  end%N.

Definition dec_tcb (s : sexp) : tcb :=
  {| tSgx := map sN (sL (snth 0 s)); tPceSvn := sN (snth 1 s);
     tTdx := map sN (sL (snth 2 s)); tIsvSvn := sN (snth 3 s) |}.
Definition enc_tcb (t : tcb) : sexp :=
  L [L (map A (tSgx t)); A (tPceSvn t); L (map A (tTdx t)); A (tIsvSvn t)].
Definition dec_level (s : sexp) : tcblevel :=
  {| lTcb := dec_tcb (snth 0 s); lStatus := status_of_N (sN (snth 1 s)) |}.
Definition enc_level (l : tcblevel) : sexp := L [enc_tcb (lTcb l); A (status_to_N (lStatus l))].
Definition dec_module (s : sexp) : module_identity :=
  {| miId := sB (snth 0 s); miLevels := map dec_level (sL (snth 1 s)) |}.

Definition dec_tcbinfo (s : sexp) : tcbinfo :=
  {| tiId := sB (snth 0 s); tiVersion := sN (snth 1 s); tiNextUpdate := sZ (snth 2 s);
     tiFmspc := sB (snth 3 s); tiPceId := sB (snth 4 s); tiModMrsigner := sB (snth 5 s);
     tiModAttributes := sB (snth 6 s); tiModAttrMask := sB (snth 7 s);
     tiModules := map dec_module (sL (snth 8 s)); tiLevels := map dec_level (sL (snth 9 s)) |}.

Definition dec_qeidentity (s : sexp) : qeidentity :=
  {| qiId := sB (snth 0 s); qiVersion := sN (snth 1 s); qiNextUpdate := sZ (snth 2 s);
     qiMiscselect := sB (snth 3 s); qiMiscselectMask := sB (snth 4 s); qiAttributes := sB (snth 5 s);
     qiAttributesMask := sB (snth 6 s); qiMrsigner := sB (snth 7 s); qiIsvProdId := sN (snth 8 s);
     qiLevels := map dec_level (sL (snth 9 s)) |}.

Definition dec_pckext (s : sexp) : pckext :=
  {| eFmspc := sB (snth 0 s); ePceId := sB (snth 1 s);
     eCpuSvnComps := map sN (sL (snth 2 s)); ePceSvn := sN (snth 3 s) |}.

Definition dec_pckext_res (s : sexp) : option pckext :=
  match sN (snth 0 s) with
  | 0%N => Some (dec_pckext (snth 1 s))
  | _ => None
  end.

Definition dec_cert (s : sexp) : cert :=
  {| cId := sN (snth 0 s); cV3 := sbool (snth 1 s); cSigAlgOk := sbool (snth 2 s);
     cKeyAlgOk := sbool (snth 3 s); cCurveOk := sbool (snth 4 s);
     cSubjectCN := sB (snth 5 s); cIssuerCN := sB (snth 6 s);
     cSubject := sB (snth 7 s); cIssuer := sB (snth 8 s);
     cRawSubject := sB (snth 9 s); cRawIssuer := sB (snth 10 s); cSerial := sB (snth 11 s);
     cNotBefore := sZ (snth 12 s); cNotAfter := sZ (snth 13 s); cKey := sB (snth 14 s);
     cCrlDP := map sB (sL (snth 15 s)); cPckExt := dec_pckext_res (snth 16 s) |}.

Definition dec_crl (s : sexp) : crl :=
  {| rlIssuer := sB (snth 0 s); rlNextUpdate := sZ (snth 1 s);
     rlRevoked := map sB (sL (snth 2 s)); rlSignedBy := map sN (sL (snth 3 s)) |}.

Definition dec_pem_step (s : sexp) : pem_step :=
  match s with
  | L [] => PemNone
  | _ => PemBlock (sbool (snth 0 s)) (sopt dec_cert (snth 1 s)) (snat (snth 2 s)) (sbool (snth 3 s))
  end.

Definition dec_tcb_json (s : sexp) : tcb_json :=
  {| tjWholeOk := sbool (snth 0 s); tjSignature := sB (snth 1 s); tjRaw := sopt sB (snth 2 s);
     tjMember := sopt dec_tcbinfo (snth 3 s); tjZero := sbool (snth 4 s) |}.
Definition dec_qe_json (s : sexp) : qe_json :=
  {| qjWholeOk := sbool (snth 0 s); qjSignature := sB (snth 1 s); qjRaw := sopt sB (snth 2 s);
     qjMember := sopt dec_qeidentity (snth 3 s); qjZero := sbool (snth 4 s) |}.

Definition dec_response (s : sexp) : response :=
  {| rspHeaders := map (fun e => (sB (snth 0 e), map sB (sL (snth 1 e)))) (sL (snth 0 s));
     rspBody := sB (snth 1 s) |}.

Definition dec_table {V} (f : sexp -> V) (s : sexp) : list (bytes * V) :=
  map (fun e => (sB (snth 0 e), f (snth 1 e))) (sL s).

Definition dec_world (s : sexp) : world :=
  {| wFetch := dec_table (sopt dec_response) (snth 0 s);
     wPem := dec_table (fun x => map dec_pem_step (sL x)) (snth 1 s);
     wUnescape := dec_table (sopt sB) (snth 2 s);
     wTcbJson := dec_table dec_tcb_json (snth 3 s);
     wQeJson := dec_table dec_qe_json (snth 4 s);
     wCrl := dec_table (sopt dec_crl) (snth 5 s);
     wHex := dec_table (sopt sB) (snth 6 s);
     wEcdsa := map (fun e => (sB (snth 0 e), sB (snth 1 e), sB (snth 2 e), sbool (snth 3 e))) (sL (snth 7 s));
     wSha := dec_table sB (snth 8 s);
     wCurve := dec_table sbool (snth 9 s);
     wSigFrom := map (fun e => (sN (snth 0 e), sN (snth 1 e))) (sL (snth 10 s));
     wEmbeddedRoot := dec_cert (snth 11 s) |}.

Definition dec_timeset (s : sexp) : timeset :=
  {| tPck := sZ (snth 0 s); tTcbInfo := sZ (snth 1 s); tQeId := sZ (snth 2 s);
     tPckCrl := sZ (snth 3 s); tRootCrl := sZ (snth 4 s) |}.

Definition dec_options (s : sexp) : options :=
  {| optCheckRevocations := sbool (snth 0 s); optGetCollateral := sbool (snth 1 s);
     optNow := sopt dec_timeset (snth 2 s);
     optRoots := sopt (fun x => map dec_cert (sL x)) (snth 3 s) |}.

(* verdict projection: 0 accepted, 8 typed fetch error, 1 any other error, 2 panic, 9 oracle miss *)
Definition verdict_code {T} (r : res T) : N :=
  match r with
  | Ok _ => 0
  | Err EOther => 9
  | Err EFetch => 8
  | Err _ => 1
  | Panic => 2
  end%N.

Definition enc_fetching (f : fetching unit) : sexp := L [A (verdict_code (fst f)); L (map B (snd f))].

Fixpoint insert_sorted (x : N) (l : list N) : list N :=
  match l with
  | [] => [x]
  | y :: r => if N.eqb x y then l else if N.ltb x y then x :: l else y :: insert_sorted x r
  end.
Definition sort_ids (l : list N) : list N := fold_right insert_sorted [] l.

Definition dec_source (s : sexp) : source :=
  {| srcReadable := sbool (snth 0 s); srcCerts := map dec_cert (sL (snth 1 s)) |}.
Definition dec_rot (s : sexp) : root_of_trust :=
  {| rotPaths := map dec_source (sL (snth 0 s)); rotInline := map dec_source (sL (snth 1 s));
     rotCheckCrl := sbool (snth 2 s); rotGetCollateral := sbool (snth 3 s) |}.

(* (op world arg options wall):
   0 verify (opt quote) | 1 verify_raw bytes
   2 supported levels: arg = (tcbinfo qeidentity (tee...) pckext isvsvn) *)
Definition run_verify (s : sexp) : sexp :=
  let w := dec_world (snth 1 s) in
  let arg := snth 2 s in
  let o := sopt dec_options (snth 3 s) in
  let wall := sZ (snth 4 s) in
  match sN (snth 0 s) with
  | 0%N => enc_fetching (verify w (sopt dec_quote arg) o wall)
  | 1%N => enc_fetching (verify_raw w (sB arg) o wall)
  | 2%N =>
    match supported_levels (dec_tcbinfo (snth 0 arg)) (dec_qeidentity (snth 1 arg))
                           (map sN (sL (snth 2 arg))) (dec_pckext (snth 3 arg)) (sN (snth 4 arg)) with
    | Ok (a, b) => L [A 0; enc_level a; enc_level b]
    | Err _ => L [A 1]
    | Panic => L [A 2]
    end
  | 3%N =>
    match root_of_trust_to_options (dec_rot arg) with
    | Ok o => L [A 0; of_bool (optCheckRevocations o); of_bool (optGetCollateral o);
                 match optRoots o with
                 | None => L []
                 | Some p => L [L (map A (sort_ids (map cId p)))]
                 end]
    | Err _ => L [A 1]
    | Panic => L [A 2]
    end
  | _ => L [A 255]
  end.
