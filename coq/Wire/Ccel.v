(* sexp entry for ParseCcelWithTdQuote (C18).
   input:  (world (opt quote) (opt verify-options) (opt validate-options) wall
            (table-ok log-empty (opt events) extract) sha-table)
     events : ((idx no-action (opt digest)) ...)
     extract: (0 id) | (1) | (2)    result of go-eventlog's extraction on the verified events;
              then (opt id): the partial state returned next to an extraction error
     sha-table: ((input digest) ...) SHA-384 on the inputs the replay needs
   output: (verdict-code returned-state-id-or-0 urls) *)
From V Require Import Lib.Sexp Model.Abi Model.Validate Model.Verify Model.Ccel Wire.Abi Wire.Validate Wire.Verify.

Definition dec_event (s : sexp) : event :=
  {| evIdx := snat (snth 0 s); evNoAction := sbool (snth 1 s); evDigest := sopt sB (snth 2 s) |}.

Definition dec_res_id (s : sexp) : res N :=
  match sN (snth 0 s) with
  | 0%N => Ok (sN (snth 1 s))
  | 2%N => Panic
  | _ => Err EParse       (* extraction failed *)
  end.

Definition dec_oracle (s : sexp) : ccel_oracle :=
  {| coTable := sbool (snth 0 s); coEmpty := sbool (snth 1 s);
     coEvents := sopt (fun x => map dec_event (sL x)) (snth 2 s);
     coExtract := dec_res_id (snth 3 s);
     coPartial := sopt sN (snth 4 s) |}.

Fixpoint lookup_tab (t : list (bytes * bytes)) (d : bytes) : bytes :=
  match t with
  | [] => []
  | (k, v) :: r => if bytes_eqb k d then v else lookup_tab r d
  end.

(* verdict projection as for verification; a failing replay / table / log is an
   ordinary error; an extraction failure reported by the oracle too *)
Definition ccel_code (r : res N) : N :=
  match r with
  | Ok _ => 0
  | Err EFetch => 8
  | Err _ => 1
  | Panic => 2
  end%N.

Definition run_ccel (s : sexp) : sexp :=
  let w := dec_world (snth 0 s) in
  let q := sopt dec_quote (snth 1 s) in
  let vo := sopt dec_options (snth 2 s) in
  let po := sopt dec_vopts (snth 3 s) in
  let wall := sZ (snth 4 s) in
  let o := dec_oracle (snth 5 s) in
  let tab := map (fun e => (sB (snth 0 e), sB (snth 1 e))) (sL (snth 6 s)) in
  let r := parse_ccel_with_quote (lookup_tab tab) w q vo po wall o in
  let res := ocRes (fst r) in
  L [A (match res with Err EOther => 9 | x => ccel_code x end);
     A (match ocState (fst r) with Some id => id | None => 0 end); L (map B (snd r))].
