(* sexp entry for the check tool model (C19).
   input: (flags cfgfile input world wall)
     flag value: (0) unset | (1) malformed | (2 v)
     flags: (syntax-ok check_crl get_collateral minimum_qe_svn minimum_pce_svn (ten byte flags) rtmrs trusted_roots)
     cfgfile: (0) none | (1) unreadable or undecodable | (2 ((opt rot) (opt policy)))
       policy: ((opt (min_qe min_pce (opt vendor))) (opt ((ten opt byte fields) rtmrs any_mr_td)))
     input: (0) unreadable / undecodable | (1 raw) -inform bin | (2 quote) decoded message
   output: (exit-code urls), exit-code 100 = crash *)
From V Require Import Lib.Sexp Model.Abi Model.Validate Model.Verify Model.RootOfTrust Model.CheckTool
  Wire.Abi Wire.Verify.

Definition dec_flagv {A} (f : sexp -> A) (s : sexp) : flagv A :=
  match sN (snth 0 s) with
  | 0%N => FUnset
  | 1%N => FBad
  | _ => FGood (f (snth 1 s))
  end.

Definition bfield_index (f : bfield) : nat :=
  match f with
  | BQeVendorId => 0 | BMinTeeTcbSvn => 1 | BMrSeam => 2 | BTdAttr => 3 | BXfam => 4 | BMrTd => 5
  | BMrConfigId => 6 | BMrOwner => 7 | BMrOwnerConfig => 8 | BReportData => 9
  end.

Definition dec_flags (s : sexp) : flags :=
  {| fSyntax := sbool (snth 0 s);
     fCheckCrl := dec_flagv sbool (snth 1 s); fGetCollateral := dec_flagv sbool (snth 2 s);
     fMinQeSvn := dec_flagv sN (snth 3 s); fMinPceSvn := dec_flagv sN (snth 4 s);
     fBytes := fun f => dec_flagv sB (snth (bfield_index f) (snth 5 s));
     fRtmrs := dec_flagv (fun x => map sB (sL x)) (snth 6 s);
     fRoots := dec_flagv (fun x => map dec_source (sL x)) (snth 7 s) |}.

Definition dec_cfg_header (s : sexp) : cfg_header :=
  {| chMinQeSvn := sN (snth 0 s); chMinPceSvn := sN (snth 1 s); chQeVendorId := sopt sB (snth 2 s) |}.

Definition dec_cfg_body (s : sexp) : cfg_body :=
  {| cbBytes := fun f => sopt sB (snth (bfield_index f) (snth 0 s));
     cbRtmrs := map sB (sL (snth 1 s)); cbAnyMrTd := map sB (sL (snth 2 s)) |}.

Definition dec_cfg_policy (s : sexp) : cfg_policy :=
  {| cpHeader := sopt dec_cfg_header (snth 0 s); cpBody := sopt dec_cfg_body (snth 1 s) |}.

Definition dec_cfgfile (s : sexp) : cfgfile :=
  match sN (snth 0 s) with
  | 0%N => CfAbsent
  | 1%N => CfBad
  | _ => let c := snth 1 s in
         CfGood {| cfRot := sopt dec_rot (snth 0 c); cfPolicy := sopt dec_cfg_policy (snth 1 c) |}
  end.

Definition dec_input (s : sexp) : input :=
  match sN (snth 0 s) with
  | 0%N => InBad
  | 1%N => InRaw (sB (snth 1 s))
  | _ => InMsg (dec_quote (snth 1 s))
  end.

Definition exit_number (e : exitcode) : N :=
  match e with E0 => 0 | E1 => 1 | E2 => 2 | E3 => 3 | E4 => 4 | ECrash => 100 end%N.

Definition run_checktool (s : sexp) : sexp :=
  let r := run_tool (dec_flags (snth 0 s)) (dec_cfgfile (snth 1 s)) (dec_input (snth 2 s))
                    (dec_world (snth 3 s)) (sZ (snth 4 s)) in
  L [A (exit_number (fst r)); L (map B (snd r))].
