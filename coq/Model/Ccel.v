(* Model of rtmr/ccel.go: ParseCcelWithTdQuote, GetRtmrsFromTdQuote and
   TdxDefaultOpts, on top of the verification flow (Model/Verify.v), policy
   validation (Model/Validate.v) and the register extension of Model/Rtmr.v.

   go-eventlog's replay (tcg.replayPCR / replayEvents, v0.0.2-...f921bdc3aeb0) is
   modelled: per register of the bank, the events carrying its CC measurement
   register index (RTMR i has index i+1), except EV_NO_ACTION events, are folded
   with the extend operation and compared with the register's value; a register
   without events is accepted whatever its value.  Parsing the ACPI table and the
   log into events, and the extraction of the firmware log state from the
   verified events, are oracles (results supplied by the harness). *)
From V Require Import Lib.Bytes Lib.Res Model.Abi Model.Validate Model.Verify Model.Rtmr.

Section Ccel.
Variable sha384 : bytes -> bytes.

(* one event of the parsed log, as far as the replay is concerned *)
Record event := {
  evIdx : nat;                 (* CC measurement register index of the event *)
  evNoAction : bool;           (* EV_NO_ACTION: never extended *)
  evDigest : option bytes }.   (* its SHA-384 digest, if it has one *)

(* getRtmrsFromTdQuoteV4: RTMR i of the quote becomes register index i; more
   than four is an error (detected after the fifth was appended) *)
Fixpoint bank_from (i : nat) (l : list bytes) : res (list (nat * bytes)) :=
  match l with
  | [] => Ok []
  | r :: rest =>
    if Nat.ltb 3 i then Err EUsage
    else b <- bank_from (S i) rest ;; Ok ((i, r) :: b)
  end.

Definition rtmr_bank (q : option quote) : res (list (nat * bytes)) :=
  match q with
  | Some {| qBody := Some b |} => bank_from 0 (bRtmrs b)
  | Some {| qBody := None |} => Panic        (* quote.TdQuoteBody.Rtmrs on a nil body *)
  | None => Err EUsage                       (* unsupported quote type *)
  end.

(* tcg.replayPCR for the register with CC index idx and value dig *)
Definition events_of (es : list event) (idx : nat) : list event :=
  filter (fun e => Nat.eqb (evIdx e) idx && negb (evNoAction e)) es.

Fixpoint digests_ok (n : nat) (l : list event) : option (list bytes) :=
  match l with
  | [] => Some []
  | e :: r =>
    match evDigest e with
    | Some d => if Nat.eqb (length d) n
                then match digests_ok n r with Some ds => Some (d :: ds) | None => None end
                else None
    | None => None
    end
  end.

Definition replay_mr (es : list event) (idx : nat) (dig : bytes) : bool :=
  match events_of es idx with
  | [] => true
  | l => match digests_ok (length dig) l with
         | Some ds => bytes_eqb (extend_chain sha384 (zeros (length dig)) ds) dig
         | None => false
         end
  end.

Definition replay_all (es : list event) (bank : list (nat * bytes)) : bool :=
  forallb (fun ib => replay_mr es (S (fst ib)) (snd ib)) bank.

(* the oracle part of ccel.ReplayAndExtract *)
Record ccel_oracle := {
  coTable : bool;                 (* the ACPI table parses and says TDX *)
  coEmpty : bool;                 (* the log has no bytes *)
  coEvents : option (list event); (* the log parses into these events *)
  coExtract : res N;              (* extraction from the verified events: the state, or an error *)
  coPartial : option N }.         (* the partial state go-eventlog returns next to an extraction error *)

(* what a call hands back: the error (or Ok with the state) and the state pointer,
   which go-eventlog also fills, partially, next to an extraction error *)
Record outcome := { ocRes : res N; ocState : option N }.

Definition fail (c : errclass) : outcome := {| ocRes := Err c; ocState := None |}.

Definition extract_out (o : ccel_oracle) : outcome :=
  match coExtract o with
  | Ok id => {| ocRes := Ok id; ocState := Some id |}
  | Err c => {| ocRes := Err c; ocState := coPartial o |}
  | Panic => {| ocRes := Panic; ocState := None |}
  end.

Definition replay_and_extract (o : ccel_oracle) (bank : list (nat * bytes)) : outcome :=
  if negb (coTable o) then fail EParse
  else if coEmpty o then extract_out o
  else match coEvents o with
       | None => fail EParse
       | Some es => if replay_all es bank then extract_out o else fail EReplay
       end.

(* ParseCcelWithTdQuote: the outcome and the URLs fetched *)
Definition parse_ccel_with_quote (w : world) (q : option quote) (vo : option options) (po : option vopts)
    (wall : Z) (o : ccel_oracle) : outcome * list bytes :=
  let v := verify w q vo wall in
  match fst v with
  | Ok _ =>
    (match validate q po with
     | Ok _ => match rtmr_bank q with
               | Ok bank => replay_and_extract o bank
               | Err c => fail c
               | Panic => {| ocRes := Panic; ocState := None |}
               end
     | Err c => fail c
     | Panic => {| ocRes := Panic; ocState := None |}
     end, snd v)
  | Err c => (fail c, snd v)
  | Panic => ({| ocRes := Panic; ocState := None |}, snd v)
  end.

(* TdxDefaultOpts(nonce).Validation: only REPORT_DATA is constrained, to the
   nonce copied into a 64-byte buffer *)
Definition default_report_data (nonce : bytes) : bytes :=
  firstn 64 nonce ++ zeros (64 - length (firstn 64 nonce)).

Definition default_vopts (nonce : bytes) : vopts :=
  {| oMinQeSvn := 0; oMinPceSvn := 0; oQeVendorId := None; oMinTeeTcbSvn := None; oMrSeam := None;
     oTdAttr := None; oXfam := None; oMrTd := None; oMrConfigId := None; oMrOwner := None;
     oMrOwnerConfig := None; oRtmrs := []; oReportData := Some (default_report_data nonce); oAnyMrTd := [] |}.

End Ccel.
