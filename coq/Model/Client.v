(* Model of client.GetRawQuote / getRawQuoteViaDevice / getRawQuoteViaProvider
   (client/client.go).  The device is a scripted behaviour; the model returns
   the result together with the requests it issued. *)
From V Require Export Lib.Res.
From V Require Import Gen.ClientConsts.

Definition td_report_size : nat := N.to_nat labi_TdReportSize.   (* 1024 *)
Definition req_buf_size : nat := N.to_nat labi_ReqBufSize.       (* 16384 *)

(* What the device does when called.  rep_write / q_write are the bytes the
   device stores at offset 0 of the TdReport array resp. the Data array. *)
Record device := {
  rep_err : bool;  rep_code : N;  rep_write : bytes;
  q_err : bool;    q_code : N;    q_status : N;  q_outlen : N;  q_write : bytes
}.

Record provider := { p_supported : bool; p_bytes : bytes; p_err : bool }.

Inductive request :=
| ReqReport (report_data : bytes)
| ReqQuote (version status inlen outlen length : N) (data : bytes).

(* the value handed to GetRawQuote(any): the type switch tries Device first *)
Inductive qp :=
| QDevice (d : device)
| QProvider (p : provider)
| QBoth (d : device) (p : provider)
| QOther.

Inductive outcome :=
| Ret (b : bytes) (err : bool)
| Crash.

(* storing w at offset 0 of an array currently holding base *)
Definition overlay (w base : bytes) : bytes :=
  firstn (length base) (w ++ skipn (length w) base).

Definition get_report (d : device) (rd : bytes) : res bytes :=
  if rep_err d then Err EDevice
  else if negb (N.eqb (rep_code d) labi_TdxAttestSuccess) then Err EDevice
  else Ok (overlay (rep_write d) (zeros td_report_size)).

Definition quote_request (td_report : bytes) : request :=
  ReqQuote 1 0 labi_TdReportSize 0 labi_ReqBufSize
           (overlay (firstn td_report_size td_report) (zeros req_buf_size)).

Definition data_after_quote (d : device) (td_report : bytes) : bytes :=
  overlay (q_write d) (overlay (firstn td_report_size td_report) (zeros req_buf_size)).

Definition via_device (d : device) (rd : bytes) : outcome * list request :=
  match get_report d rd with
  | Err _ | Panic => (Ret [] true, [ReqReport rd])
  | Ok tdr =>
    let reqs := [ReqReport rd; quote_request tdr] in
    if q_err d then (Ret [] true, reqs)
    else if negb (N.eqb (q_code d) labi_TdxAttestSuccess) then (Ret [] true, reqs)
    else if negb (N.eqb (q_status d) 0) then (Ret [] true, reqs)
    else if N.eqb (q_outlen d) 0 || N.ltb labi_ReqBufSize (q_outlen d) then (Ret [] true, reqs)
    else (Ret (firstn (N.to_nat (q_outlen d)) (data_after_quote d tdr)) false, reqs)
  end.

(* fallback: the platform device, when it can be opened *)
Definition via_provider (p : provider) (fallback : option device) (rd : bytes)
  : outcome * list request :=
  if p_supported p then (Ret (p_bytes p) (p_err p), [])
  else match fallback with
       | Some d => via_device d rd
       | None => (Ret [] true, [])
       end.

Definition get_raw_quote (q : qp) (fallback : option device) (rd : bytes)
  : outcome * list request :=
  match q with
  | QDevice d | QBoth d _ => via_device d rd
  | QProvider p => via_provider p fallback rd
  | QOther => (Ret [] true, [])
  end.
