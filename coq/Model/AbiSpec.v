(* The v4 quote layout written down from Intel's specification with literal
   offsets (TDX DCAP Quoting Library API, appendix A.3 "Version 4 Quote Format (TDX-ECDSA...)"),
   independently of abi.go: what each field of a parsed quote must be as a
   little-endian slice of the input, and the tables the translator's output
   must equal. *)
From V Require Export Model.Abi.
From Coq Require Import String.
Open Scope string_scope.

Definition layout_quote (raw : bytes) : quote :=
  let n := N.to_nat (le_decode (slice 1218 1220 raw)) in
  let sds := le_decode (slice 632 636 raw) in
  let e := 636 + N.to_nat sds in
  {| qHeader := Some
       {| hVersion := le_decode (slice 0 2 raw); hAkt := le_decode (slice 2 4 raw);
          hTee := le_decode (slice 4 8 raw); hPceSvn := slice 8 10 raw; hQeSvn := slice 10 12 raw;
          hVendor := slice 12 28 raw; hUser := slice 28 48 raw |};
     qBody := Some
       {| bTeeTcbSvn := slice 48 64 raw; bMrSeam := slice 64 112 raw; bMrSignerSeam := slice 112 160 raw;
          bSeamAttr := slice 160 168 raw; bTdAttr := slice 168 176 raw; bXfam := slice 176 184 raw;
          bMrTd := slice 184 232 raw; bMrConfigId := slice 232 280 raw; bMrOwner := slice 280 328 raw;
          bMrOwnerConfig := slice 328 376 raw;
          bRtmrs := [slice 376 424 raw; slice 424 472 raw; slice 472 520 raw; slice 520 568 raw];
          bReportData := slice 568 632 raw |};
     qSignedDataSize := sds;
     qSigned := Some
       {| sSig := slice 636 700 raw; sKey := slice 700 764 raw;
          sCert := Some
            {| cType := le_decode (slice 764 766 raw); cSize := le_decode (slice 766 770 raw);
               cQercd := Some
                 {| qReport := Some
                      {| rCpuSvn := slice 770 786 raw; rMiscSelect := le_decode (slice 786 790 raw);
                         rReserved1 := slice 790 818 raw; rAttributes := slice 818 834 raw;
                         rMrEnclave := slice 834 866 raw; rReserved2 := slice 866 898 raw;
                         rMrSigner := slice 898 930 raw; rReserved3 := slice 930 1026 raw;
                         rIsvProdId := le_decode (slice 1026 1028 raw);
                         rIsvSvn := le_decode (slice 1028 1030 raw);
                         rReserved4 := slice 1030 1090 raw; rReportData := slice 1090 1154 raw |};
                    qSig := slice 1154 1218 raw;
                    qAuth := Some {| aSize := le_decode (slice 1218 1220 raw);
                                     aData := slice 1220 (1220 + n) raw |};
                    qPck := Some {| pType := le_decode (slice (1220 + n) (1222 + n) raw);
                                    pSize := le_decode (slice (1222 + n) (1226 + n) raw);
                                    pChain := slice (1226 + n) e raw |} |} |} |};
     qExtra := slice e (Datatypes.length raw) raw |}.

(* expected translator output for the three fixed-size structures *)
Definition spec_header_table : list (string * string * string * string) :=
  [("Version", "0", "2", "le16"); ("AttestationKeyType", "2", "4", "le16"); ("TeeType", "4", "8", "le32");
   ("PceSvn", "8", "10", "bytes"); ("QeSvn", "10", "12", "bytes"); ("QeVendorId", "12", "28", "bytes");
   ("UserData", "28", "48", "bytes")].

Definition spec_header_checks : list (string * string * string) :=
  [("header", "==", "nil"); ("Version", ">=", "65536"); ("Version", "!=", "4");
   ("AttestationKeyType", ">=", "65536"); ("AttestationKeyType", "!=", "2"); ("TeeType", "!=", "129");
   ("len:QeSvn", "!=", "2"); ("len:PceSvn", "!=", "2"); ("len:QeVendorId", "!=", "16");
   ("len:UserData", "!=", "20")].

Definition spec_body_fields : list (string * string * string * string) :=
  [("TeeTcbSvn", "0", "16", "bytes"); ("MrSeam", "16", "64", "bytes"); ("MrSignerSeam", "64", "112", "bytes");
   ("SeamAttributes", "112", "120", "bytes"); ("TdAttributes", "120", "128", "bytes"); ("Xfam", "128", "136", "bytes");
   ("MrTd", "136", "184", "bytes"); ("MrConfigId", "184", "232", "bytes"); ("MrOwner", "232", "280", "bytes");
   ("MrOwnerConfig", "280", "328", "bytes")].
Definition spec_body_rtmr_loop : string * string * string * string := ("#loop", "4", "48", "328").
Definition spec_body_reportdata : string * string * string * string := ("ReportData", "520", "584", "bytes").
(* the translator lists the rows of a fixed-layout table by start offset, whatever the statement order *)
Definition spec_body_parse_table := (spec_body_fields ++ [spec_body_rtmr_loop; spec_body_reportdata])%list.
Definition spec_body_ser_table := (spec_body_fields ++ [spec_body_rtmr_loop; spec_body_reportdata])%list.

Definition spec_body_checks : list (string * string * string) :=
  [("tdQuoteBody", "==", "nil"); ("len:TeeTcbSvn", "!=", "16"); ("len:MrSeam", "!=", "48");
   ("len:MrSignerSeam", "!=", "48"); ("len:SeamAttributes", "!=", "8"); ("len:TdAttributes", "!=", "8");
   ("len:Xfam", "!=", "8"); ("len:MrTd", "!=", "48"); ("len:MrConfigId", "!=", "48"); ("len:MrOwner", "!=", "48");
   ("len:MrOwnerConfig", "!=", "48"); ("len:Rtmrs", "!=", "4"); ("#loop", "count", "4");
   ("len:Rtmrs[i]", "!=", "48"); ("len:ReportData", "!=", "64")].

Definition spec_report_table : list (string * string * string * string) :=
  [("CpuSvn", "0", "16", "bytes"); ("MiscSelect", "16", "20", "le32"); ("Reserved1", "20", "48", "bytes");
   ("Attributes", "48", "64", "bytes"); ("MrEnclave", "64", "96", "bytes"); ("Reserved2", "96", "128", "bytes");
   ("MrSigner", "128", "160", "bytes"); ("Reserved3", "160", "256", "bytes"); ("IsvProdId", "256", "258", "le16");
   ("IsvSvn", "258", "260", "le16"); ("Reserved4", "260", "320", "bytes"); ("ReportData", "320", "384", "bytes")].

Definition spec_report_checks : list (string * string * string) :=
  [("report", "==", "nil"); ("len:CpuSvn", "!=", "16"); ("len:Reserved1", "!=", "28"); ("len:Attributes", "!=", "16");
   ("len:MrEnclave", "!=", "32"); ("len:Reserved2", "!=", "32"); ("len:MrSigner", "!=", "32");
   ("len:Reserved3", "!=", "96"); ("IsvProdId", ">=", "65536"); ("IsvSvn", ">=", "65536");
   ("len:Reserved4", "!=", "60"); ("len:ReportData", "!=", "64")].

Definition spec_signed_table : list (string * string * string * string) :=
  [("Signature", "0", "64", "bytes"); ("EcdsaAttestationKey", "64", "128", "bytes")].
Definition spec_signed_checks : list (string * string * string) :=
  [("signedData", "==", "nil"); ("len:Signature", "!=", "64"); ("len:EcdsaAttestationKey", "!=", "64");
   ("CertificationData", "call", "checkCertificationData")].
Definition spec_certdata_table : list (string * string * string * string) :=
  [("CertificateDataType", "0", "2", "le16"); ("Size", "2", "6", "le32")].
Definition spec_certdata_checks : list (string * string * string) :=
  [("certification", "==", "nil"); ("CertificateDataType", ">=", "65536"); ("CertificateDataType", "!=", "6");
   ("QeReportCertificationData", "call", "checkQeReportCertificationData")].
Definition spec_qercd_table : list (string * string * string * string) :=
  [("QeReportSignature", "384", "448", "bytes")].
Definition spec_qercd_checks : list (string * string * string) :=
  [("qeReport", "==", "nil"); ("QeReport", "call", "checkQeReport"); ("len:QeReportSignature", "!=", "64");
   ("QeAuthData", "call", "checkQeAuthData"); ("PckCertificateChainData", "call", "checkPCKCertificateChain")].
Definition spec_auth_table : list (string * string * string * string) :=
  [("ParsedDataSize", "0", "2", "le16")].
Definition spec_auth_checks : list (string * string * string) :=
  [("authData", "==", "nil"); ("ParsedDataSize", ">=", "65536"); ("ParsedDataSize", "!=", "len:Data")].
Definition spec_pck_table : list (string * string * string * string) :=
  [("CertificateDataType", "0", "2", "le16"); ("Size", "2", "6", "le32"); ("PckCertChain", "6", "end", "bytes")].
Definition spec_pck_checks : list (string * string * string) :=
  [("chain", "==", "nil"); ("CertificateDataType", ">=", "65536"); ("CertificateDataType", "!=", "5");
   ("Size", "!=", "len:PckCertChain")].
Definition spec_quote_table : list (string * string * string * string) :=
  [("SignedDataSize", "632", "636", "le32")].
Definition spec_quote_checks : list (string * string * string) :=
  [("quote", "==", "nil"); ("Header", "call", "checkHeader"); ("TdQuoteBody", "call", "checkTDQuoteBody");
   ("SignedData", "call", "checkEcdsa256BitQuoteV4AuthData")].
