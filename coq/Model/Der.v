(* Model of abi.SignatureToDER: the raw 64-byte ECDSA signature r || s as the DER
   SEQUENCE { INTEGER r, INTEGER s } that crypto/ecdsa.VerifyASN1 consumes.
   big.Int.SetBytes drops leading zero bytes; cryptobyte.AddASN1BigInt writes the
   minimal non-negative two's-complement form (one 0x00 for zero, a 0x00 in front
   of a byte >= 0x80); lengths are below 128 here, so one length byte each.
   [parse_der_sig] is the reading side (cryptobyte.ReadASN1Integer's rules:
   non-empty, minimal, and, for an unsigned big integer, non-negative). *)
From V Require Import Lib.Bytes Lib.Res.

(* big-endian value of a byte string *)
Definition be_value (b : bytes) : N := le_decode (rev b).

Fixpoint strip_zeros (b : bytes) : bytes :=
  match b with
  | x :: r => if Byte.eqb x x00 then strip_zeros r else b
  | [] => []
  end.

Definition high_bit (x : byte) : bool := N.leb 128 (Byte.to_N x).

(* the content octets of INTEGER n for n = be_value b *)
Definition int_body (b : bytes) : bytes :=
  match strip_zeros b with
  | [] => [x00]
  | x :: r => if high_bit x then x00 :: x :: r else x :: r
  end.

Definition len_byte (n : nat) : byte := byte_of_N (N.of_nat n).

Definition der_int (b : bytes) : bytes := x02 :: len_byte (length (int_body b)) :: int_body b.

Definition sig_to_der (sig : bytes) : res bytes :=
  if Nat.eqb (length sig) 64 then
    let body := der_int (slice 0 32 sig) ++ der_int (slice 32 64 sig) in
    Ok (x30 :: len_byte (length body) :: body)
  else Err EParse.

(* ---- the reading side ---- *)
Definition minimal_nonneg (c : bytes) : bool :=
  match c with
  | [] => false
  | [x] => negb (high_bit x)
  | x :: y :: _ => negb (high_bit x) && negb (Byte.eqb x x00 && negb (high_bit y))
  end.

(* one short-form TLV with the given tag: content and rest *)
Definition read_tlv (tag : byte) (b : bytes) : option (bytes * bytes) :=
  match b with
  | t :: l :: r =>
    let n := N.to_nat (Byte.to_N l) in
    if Byte.eqb t tag && negb (high_bit l) && Nat.leb n (length r) then Some (firstn n r, skipn n r) else None
  | _ => None
  end.

Definition read_int (b : bytes) : option (N * bytes) :=
  match read_tlv x02 b with
  | Some (c, rest) => if minimal_nonneg c then Some (be_value c, rest) else None
  | None => None
  end.

Definition parse_der_sig (b : bytes) : option (N * N) :=
  match read_tlv x30 b with
  | Some (c, []) =>
    match read_int c with
    | Some (r, rest) =>
      match read_int rest with
      | Some (s, []) => Some (r, s)
      | _ => None
      end
    | None => None
    end
  | _ => None
  end.
