(* Model of verify.RootOfTrustToOptions / getTrustedRoots. *)
From V Require Export Model.Verify.

(* one CA bundle: a path (readable or not) or an inline PEM string; [srcCerts] is
   what x509.CertPool.AppendCertsFromPEM adds from its content (oracle) *)
Record source := { srcReadable : bool; srcCerts : list cert }.

Record root_of_trust := {
  rotPaths : list source; rotInline : list source; rotCheckCrl : bool; rotGetCollateral : bool }.

Fixpoint add_bundles (srcs : list source) (pool : list cert) : res (list cert) :=
  match srcs with
  | [] => Ok pool
  | s :: rest =>
    if negb (srcReadable s) then Err EUsage
    else if Nat.eqb (length (srcCerts s)) 0 then Err EUsage
    else add_bundles rest (pool ++ srcCerts s)
  end.

Definition get_trusted_roots (r : root_of_trust) : res (option (list cert)) :=
  if Nat.eqb (length (rotPaths r)) 0 && Nat.eqb (length (rotInline r)) 0 then Ok None
  else
    p <- add_bundles (rotPaths r) [] ;;
    p2 <- add_bundles (rotInline r) p ;;
    Ok (Some p2).

Definition root_of_trust_to_options (r : root_of_trust) : res options :=
  roots <- get_trusted_roots r ;;
  Ok {| optCheckRevocations := rotCheckCrl r; optGetCollateral := rotGetCollateral r;
        optNow := None; optRoots := roots |}.
