(* Model of the TCB-status and QE-identity logic of verify/verify.go:
   isCPUSvnHigherOrEqual, isTdxTcbSvnHigherOrEqual, getMatchingTcbLevel,
   getMatchingTdxModuleTcbLevel, readTcbInfoTcbStatus, checkTcbInfoTcbStatus,
   verifyTdQuoteBody, readQeTcbStatus, checkQeTcbStatus, verifyQeReport,
   and the reporting API SupportedTcbLevelsFromCollateral (its TCB part). *)
From V Require Export Model.Abi.
From Coq Require Import Ascii.

Inductive status :=
| UpToDate | SWHardeningNeeded | ConfigurationNeeded | ConfigurationAndSWHardeningNeeded
| OutOfDate | OutOfDateConfigurationNeeded | Revoked.

Definition status_eqb (a b : status) : bool :=
  match a, b with
  | UpToDate, UpToDate | SWHardeningNeeded, SWHardeningNeeded
  | ConfigurationNeeded, ConfigurationNeeded
  | ConfigurationAndSWHardeningNeeded, ConfigurationAndSWHardeningNeeded
  | OutOfDate, OutOfDate | OutOfDateConfigurationNeeded, OutOfDateConfigurationNeeded
  | Revoked, Revoked => true
  | _, _ => false
  end.

(* pcs.Tcb: component SVN lists may have any length in the JSON *)
Record tcb := { tSgx : list N; tPceSvn : N; tTdx : list N; tIsvSvn : N }.
Record tcblevel := { lTcb : tcb; lStatus : status }.
Record module_identity := { miId : bytes; miLevels : list tcblevel }.

Record tcbinfo := {
  tiId : bytes; tiVersion : N; tiNextUpdate : Z; tiFmspc : bytes; tiPceId : bytes;
  tiModMrsigner : bytes; tiModAttributes : bytes; tiModAttrMask : bytes;
  tiModules : list module_identity; tiLevels : list tcblevel }.

Record qeidentity := {
  qiId : bytes; qiVersion : N; qiNextUpdate : Z;
  qiMiscselect : bytes; qiMiscselectMask : bytes; qiAttributes : bytes; qiAttributesMask : bytes;
  qiMrsigner : bytes; qiIsvProdId : N; qiLevels : list tcblevel }.

(* pcs.PckExtensions, the part verification uses: FMSPC / PCEID as the hex
   strings PckCertificateExtensions produces *)
Record pckext := { eFmspc : bytes; ePceId : bytes; eCpuSvnComps : list N; ePceSvn : N }.

Definition bN (b : byte) : N := Byte.to_N b.

(* isCPUSvnHigherOrEqual *)
Fixpoint all_ge (have need : list N) : bool :=
  match have, need with
  | [], [] => true
  | h :: have', n :: need' => negb (N.ltb h n) && all_ge have' need'
  | _, _ => false
  end.

Definition cpu_svn_ge (pck_comps : list N) (level_comps : list N) : bool :=
  Nat.eqb (length pck_comps) (length level_comps) && all_ge pck_comps level_comps.

(* isTdxTcbSvnHigherOrEqual: teeTcbSvn[1] is read after the length check; an
   empty vector with an empty component list would index out of range *)
Definition tdx_svn_ge (tee : list N) (level_comps : list N) : res bool :=
  if negb (Nat.eqb (length tee) (length level_comps)) then Ok false
  else match nth_error tee 1 with
       | None => Panic
       | Some t1 =>
         let start := if N.ltb 0 t1 then 2 else 0 in
         Ok (all_ge (skipn start tee) (skipn start level_comps))
       end.

(* getMatchingTcbLevel: the && short-circuits left to right *)
Fixpoint matching_level (levels : list tcblevel) (tee : list N) (pce : N) (cpu : list N)
  : res (option tcblevel) :=
  match levels with
  | [] => Ok None
  | l :: rest =>
    if cpu_svn_ge cpu (tSgx (lTcb l)) && negb (N.ltb pce (tPceSvn (lTcb l))) then
      g <- tdx_svn_ge tee (tTdx (lTcb l)) ;;
      if g then Ok (Some l) else matching_level rest tee pce cpu
    else matching_level rest tee pce cpu
  end.

Definition hex_digit (n : N) : byte :=
  match n with
  | 0 => x30 | 1 => x31 | 2 => x32 | 3 => x33 | 4 => x34 | 5 => x35 | 6 => x36 | 7 => x37
  | 8 => x38 | 9 => x39 | 10 => x61 | 11 => x62 | 12 => x63 | 13 => x64 | 14 => x65 | _ => x66
  end%N.

(* "TDX_" ++ hex.EncodeToString([]byte{v}) *)
Definition module_id (v : N) : bytes :=
  [x54; x44; x58; x5f; hex_digit (v / 16); hex_digit (v mod 16)].

Fixpoint first_isvsvn_le (levels : list tcblevel) (isvsvn : N) : option tcblevel :=
  match levels with
  | [] => None
  | l :: rest => if N.leb (tIsvSvn (lTcb l)) isvsvn then Some l else first_isvsvn_le rest isvsvn
  end.

(* getMatchingTdxModuleTcbLevel: the first identity with the id decides *)
Fixpoint matching_module_level (mods : list module_identity) (id : bytes) (isvsvn : N)
  : option tcblevel :=
  match mods with
  | [] => None
  | m :: rest =>
    if bytes_eqb id (miId m) then first_isvsvn_le (miLevels m) isvsvn
    else matching_module_level rest id isvsvn
  end.

Definition terr {A} : res A := Err ETcb.

(* readTcbInfoTcbStatus (after the repair): the platform level decides when it
   is not UpToDate; otherwise, when TEE_TCB_SVN[1] > 0, the module level *)
Definition read_tcb_status (ti : tcbinfo) (tee : list N) (ext : pckext) : res tcblevel :=
  ml <- matching_level (tiLevels ti) tee (ePceSvn ext) (eCpuSvnComps ext) ;;
  match ml with
  | None => terr
  | Some l =>
    match nth_error tee 1, nth_error tee 0 with
    | Some t1, Some t0 =>
      if N.ltb 0 t1 then
        match matching_module_level (tiModules ti) (module_id t1) t0 with
        | None => terr
        | Some m => if status_eqb (lStatus l) UpToDate then Ok m else Ok l
        end
      else Ok l
    | _, _ => Panic
    end
  end.

Definition check_tcb_status (ti : tcbinfo) (tee : list N) (ext : pckext) : res unit :=
  l <- read_tcb_status ti tee ext ;;
  if status_eqb (lStatus l) UpToDate then Ok tt else terr.

Definition lower (b : byte) : byte :=
  let n := bN b in if (N.leb 65 n && N.leb n 90)%bool then byte_of_N (n + 32) else b.
Definition ascii_fold_eq (a b : bytes) : bool := bytes_eqb (map lower a) (map lower b).

(* verifyTdQuoteBody *)
Definition verify_td_body (b : tdbody) (ti : tcbinfo) (ext : pckext) : res unit :=
  if negb (ascii_fold_eq (eFmspc ext) (tiFmspc ti)) then terr else
  if negb (bytes_eqb (ePceId ext) (tiPceId ti)) then terr else
  if negb (bytes_eqb (tiModMrsigner ti) (bMrSignerSeam b)) then terr else
  if negb (Nat.eqb (length (tiModAttrMask ti)) (length (bSeamAttr b))) then terr else
  if negb (bytes_eqb (tiModAttributes ti) (map2_and (tiModAttrMask ti) (bSeamAttr b))) then terr else
  check_tcb_status ti (map bN (bTeeTcbSvn b)) ext.

(* readQeTcbStatus / checkQeTcbStatus *)
Definition qerr {A} : res A := Err EQe.

Definition check_qe_status (levels : list tcblevel) (isvsvn : N) : res unit :=
  match first_isvsvn_le levels isvsvn with
  | None => qerr
  | Some l => if status_eqb (lStatus l) UpToDate then Ok tt else qerr
  end.

(* verifyQeReport *)
Definition verify_qe_report (r : report) (qi : qeidentity) : res unit :=
  if negb (Nat.eqb (length (qiMiscselectMask qi)) 4) then qerr else
  if negb (Nat.eqb (length (qiMiscselect qi)) 4) then qerr else
  let mask := le_decode (qiMiscselectMask qi) in
  let misc := le_decode (qiMiscselect qi) in
  if negb (N.eqb (N.land (rMiscSelect r) mask) misc) then qerr else
  if negb (Nat.eqb (length (qiAttributesMask qi)) (length (rAttributes r))) then qerr else
  if negb (bytes_eqb (qiAttributes qi) (map2_and (qiAttributesMask qi) (rAttributes r))) then qerr else
  if negb (bytes_eqb (qiMrsigner qi) (rMrSigner r)) then qerr else
  if negb (N.eqb (rIsvProdId r) (qiIsvProdId qi)) then qerr else
  check_qe_status (qiLevels qi) (rIsvSvn r).

(* SupportedTcbLevelsFromCollateral (after the repair): both matching levels, or
   an error when either has no match *)
Definition supported_levels (ti : tcbinfo) (qi : qeidentity) (tee : list N) (ext : pckext) (qe_isvsvn : N)
  : res (tcblevel * tcblevel) :=
  l <- read_tcb_status ti tee ext ;;
  match first_isvsvn_le (qiLevels qi) qe_isvsvn with
  | None => qerr
  | Some q => Ok (l, q)
  end.
