(* The write sites of abi / verify / validate / pcs / rtmr as they stood when
   Model/HeapProgs.v was written: per function, in source order, the kind of each
   site and the provenance class of its destination (fresh = a buffer made by the
   same call).  modelled_sites and site_model are documentation of which heap
   program stands for which function (they are not compared with the source, so
   that renaming or moving a write into a fresh buffer is not an alarm); what
   Proofs/HeapSites.v checks against the inventory regenerated from /repo
   (Gen/WriteSites.v) on every run is further down: every site is classified, and
   the only shared destination is the listed one. *)
From Coq Require Import String Ascii List Arith.
Import ListNotations.
Open Scope string_scope.

Definition modelled_sites : list (string * list (string * string)) :=
  [
   ("abi/abi.go:clone", [("copy", "fresh")]);
   ("abi/abi.go:tdQuoteBodyToProto", [("append", "fresh")]);
   ("abi/abi.go:EnclaveReportToAbiBytes", [("copy", "fresh"); ("put", "fresh"); ("copy", "fresh"); ("copy", "fresh"); ("copy", "fresh"); ("copy", "fresh"); ("copy", "fresh"); ("copy", "fresh"); ("put", "fresh"); ("put", "fresh"); ("copy", "fresh"); ("copy", "fresh")]);
   ("abi/abi.go:HeaderToAbiBytes", [("put", "fresh"); ("put", "fresh"); ("put", "fresh"); ("copy", "fresh"); ("copy", "fresh"); ("copy", "fresh"); ("copy", "fresh")]);
   ("abi/abi.go:TdQuoteBodyToAbiBytes", [("copy", "fresh"); ("copy", "fresh"); ("copy", "fresh"); ("copy", "fresh"); ("copy", "fresh"); ("copy", "fresh"); ("copy", "fresh"); ("copy", "fresh"); ("copy", "fresh"); ("copy", "fresh"); ("copy", "fresh"); ("copy", "fresh")]);
   ("abi/abi.go:pckCertificateChainToAbiBytes", [("put", "fresh"); ("put", "fresh"); ("copy", "fresh")]);
   ("abi/abi.go:qeAuthDataToAbiBytes", [("put", "fresh"); ("copy", "fresh")]);
   ("abi/abi.go:qeReportCertificationDataToAbiBytes", [("append", "fresh"); ("append", "fresh"); ("append", "fresh")]);
   ("abi/abi.go:certificationDataToAbiBytes", [("put", "fresh"); ("put", "fresh"); ("append", "fresh")]);
   ("abi/abi.go:signedDataToAbiBytes", [("copy", "fresh"); ("copy", "fresh"); ("append", "fresh")]);
   ("abi/abi.go:quoteToAbiBytesV4", [("append", "fresh"); ("append", "fresh"); ("put", "fresh"); ("append", "fresh"); ("append", "fresh"); ("append", "fresh")]);
   ("pcs/pcs.go:sgxTcbComponentOid", [("append", "shared")]);
   ("pcs/pcs.go:extractTcbExtension", [("index", "fresh"); ("index", "fresh")]);
   ("rtmr/ccel.go:getRtmrsFromTdQuoteV4", [("append", "fresh")]);
   ("rtmr/ccel.go:TdxDefaultOpts", [("copy", "fresh")]);
   ("verify/verify.go:applyMask", [("index", "fresh")]);
   ("verify/verify.go:getHeaderAndTdQuoteBodyInAbiBytes", [("append", "fresh")]);
   ("verify/verify.go:verifyHash256", [("append", "fresh"); ("append", "fresh"); ("append", "fresh")])].

(* which heap program stands for each function *)
Definition site_model : list (string * string) :=
  [
   ("abi/abi.go:clone", "Heap.clone");
   ("abi/abi.go:tdQuoteBodyToProto", "HeapProgs.parse_body_h (the RTMR slices are collected in a list of the callee's own)");
   ("abi/abi.go:EnclaveReportToAbiBytes", "HeapProgs.report_bytes_h");
   ("abi/abi.go:HeaderToAbiBytes", "HeapProgs.header_bytes_h");
   ("abi/abi.go:TdQuoteBodyToAbiBytes", "HeapProgs.body_bytes_h");
   ("abi/abi.go:pckCertificateChainToAbiBytes", "HeapProgs.serialize_h");
   ("abi/abi.go:qeAuthDataToAbiBytes", "HeapProgs.serialize_h");
   ("abi/abi.go:qeReportCertificationDataToAbiBytes", "HeapProgs.serialize_h");
   ("abi/abi.go:certificationDataToAbiBytes", "HeapProgs.serialize_h");
   ("abi/abi.go:signedDataToAbiBytes", "HeapProgs.serialize_h");
   ("abi/abi.go:quoteToAbiBytesV4", "HeapProgs.serialize_h");
   ("pcs/pcs.go:sgxTcbComponentOid", "not on a quote / option byte string: appends one int to a package-level []int literal whose capacity equals its length, so the runtime always copies");
   ("pcs/pcs.go:extractTcbExtension", "not on a quote / option byte string: fills two arrays made by the call");
   ("rtmr/ccel.go:getRtmrsFromTdQuoteV4", "not a byte write: collects register structs in a bank made by the call");
   ("rtmr/ccel.go:TdxDefaultOpts", "fills a ReportData buffer made by the call");
   ("verify/verify.go:applyMask", "HeapProgs.apply_mask_h");
   ("verify/verify.go:getHeaderAndTdQuoteBodyInAbiBytes", "HeapProgs.header_body_h");
   ("verify/verify.go:verifyHash256", "HeapProgs.verify_hash256_h")].

(* the only destination that is not a buffer of the call's own *)
Definition allowed_shared : list (string * string) :=
  [("pcs/pcs.go:sgxTcbComponentOid", "append")].

(* What the tie to the source checks: every write site found in the source writes
   to a destination that the translator's provenance analysis classifies as a
   buffer made by the same call ("fresh"), except the listed ones.  How many fresh
   sites there are, and in which functions, does not matter to the property (a
   write to a buffer of the call's own is what the heap programs do everywhere), so
   adding, removing, renaming or moving such a site is not an alarm. *)
(* the package directory of a site "pkg/file.go:func" *)
Fixpoint file_of (s : string) : string :=
  match s with
  | EmptyString => EmptyString
  | String c r => if Ascii.eqb c "/"%char then EmptyString else String c (file_of r)
  end.

Definition classes_known (l : list (string * string * string * string)) : bool :=
  forallb (fun e => String.eqb (snd e) "fresh" || String.eqb (snd e) "shared")%bool l.

Definition shared_files_of (l : list (string * string * string * string)) : list (string * string) :=
  map (fun e => (file_of (fst (fst (fst e))), snd (fst (fst e))))
      (filter (fun e => String.eqb (snd e) "shared") l).

Definition allowed_shared_files : list (string * string) := [("pcs", "append")].

(* group consecutive inventory entries by function *)
Fixpoint group (l : list (string * string * string * string)) : list (string * list (string * string)) :=
  match l with
  | [] => []
  | (fn, kind, _, cls) :: r =>
      match group r with
      | (fn', items) :: g => if String.eqb fn fn' then (fn, (kind, cls) :: items) :: g
                             else (fn, [(kind, cls)]) :: (fn', items) :: g
      | [] => [(fn, [(kind, cls)])]
      end
  end.

Definition shared_of (l : list (string * string * string * string)) : list (string * string) :=
  map (fun e => (fst (fst (fst e)), snd (fst (fst e))))
      (filter (fun e => String.eqb (snd e) "shared") l).
