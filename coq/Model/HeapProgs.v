(* Slice-level models of the functions of abi / verify / validate that allocate,
   copy or append (the inventory of Gen/WriteSites.v), over Model/Heap.v:
   which block each parsed field lives in and with what capacity, and which
   blocks each call reads and writes.  The byte-level results are those of the
   list models (Model/Abi.v); what is added here is *where* the bytes live. *)
From V Require Import Lib.Bytes Lib.Res Gen.AbiConsts Model.Abi.
From V Require Export Model.Heap.

(* A message on the heap: the scalars (and, for reference, the byte values at the
   time of construction) in [hqScal]; every bytes field as a slice. *)
Record hquote := {
  hqScal : quote;
  hqPceSvn : hslice; hqQeSvn : hslice; hqVendor : hslice; hqUser : hslice;
  hqTeeTcbSvn : hslice; hqMrSeam : hslice; hqMrSignerSeam : hslice; hqSeamAttr : hslice;
  hqTdAttr : hslice; hqXfam : hslice; hqMrTd : hslice; hqMrConfigId : hslice;
  hqMrOwner : hslice; hqMrOwnerConfig : hslice; hqRtmrs : list hslice; hqReportData : hslice;
  hqSig : hslice; hqKey : hslice;
  hqCpuSvn : hslice; hqRes1 : hslice; hqAttrs : hslice; hqMrEnclave : hslice; hqRes2 : hslice;
  hqMrSigner : hslice; hqRes3 : hslice; hqRes4 : hslice; hqQeReportData : hslice;
  hqQeSig : hslice; hqAuth : hslice; hqChain : hslice; hqExtra : hslice }.

(* every slice of a message, in field order *)
Definition hq_slices (q : hquote) : list hslice :=
  [hqPceSvn q; hqQeSvn q; hqVendor q; hqUser q;
   hqTeeTcbSvn q; hqMrSeam q; hqMrSignerSeam q; hqSeamAttr q; hqTdAttr q; hqXfam q; hqMrTd q;
   hqMrConfigId q; hqMrOwner q; hqMrOwnerConfig q] ++ hqRtmrs q ++
  [hqReportData q; hqSig q; hqKey q;
   hqCpuSvn q; hqRes1 q; hqAttrs q; hqMrEnclave q; hqRes2 q; hqMrSigner q; hqRes3 q; hqRes4 q;
   hqQeReportData q; hqQeSig q; hqAuth q; hqChain q; hqExtra q].

Fixpoint rd_all (l : list hslice) : hprog (list bytes) :=
  match l with
  | [] => Ret []
  | s :: r => d <-- rd s ;;; ds <-- rd_all r ;;; Ret (d :: ds)
  end.

(* ---- parsing (abi.QuoteToProto): clone at every level, fields are sub-slices
   of the level's clone, so a field's capacity runs to the end of that clone ---- *)

Definition lift_res {A B} (r : res A) (k : A -> hprog (res B)) : hprog (res B) :=
  match r with Ok a => k a | Err e => Ret (Err e) | Panic => Fail end.

Fixpoint sub_rtmrs (n start : nat) (data : hslice) : hprog (list hslice) :=
  match n with
  | O => Ret []
  | S n' => a <-- sub data start (start + abi_RtmrSize_nat) ;;;
            r <-- sub_rtmrs n' (start + abi_RtmrSize_nat) data ;;; Ret (a :: r)
  end.

Record hheader := { hhPceSvn : hslice; hhQeSvn : hslice; hhVendor : hslice; hhUser : hslice }.

Definition parse_header_h (b : hslice) : hprog (res hheader) :=
  data <-- clone b ;;; d <-- rd data ;;;
  lift_res (parse_header d) (fun _ =>
    p <-- sub data abi_headerPceSvnStart_nat abi_headerPceSvnEnd_nat ;;;
    q <-- sub data abi_headerQeSvnStart_nat abi_headerQeSvnEnd_nat ;;;
    v <-- sub data abi_headerQeVendorIDStart_nat abi_headerQeVendorIDEnd_nat ;;;
    u <-- sub data abi_headerUserDataStart_nat abi_headerUserDataEnd_nat ;;;
    Ret (Ok {| hhPceSvn := p; hhQeSvn := q; hhVendor := v; hhUser := u |})).

Record hbody := {
  hbF : list hslice;       (* TeeTcbSvn .. MrOwnerConfig, in order *)
  hbRtmrs : list hslice; hbReportData : hslice }.

Definition body_ranges : list (nat * nat) :=
  [(abi_tdTeeTcbSvnStart_nat, abi_tdTeeTcbSvnEnd_nat); (abi_tdMrSeamStart_nat, abi_tdMrSeamEnd_nat);
   (abi_tdMrSignerSeamStart_nat, abi_tdMrSignerSeamEnd_nat);
   (abi_tdSeamAttributesStart_nat, abi_tdSeamAttributesEnd_nat);
   (abi_tdAttributesStart_nat, abi_tdAttributesEnd_nat); (abi_tdXfamStart_nat, abi_tdXfamEnd_nat);
   (abi_tdMrTdStart_nat, abi_tdMrTdEnd_nat); (abi_tdMrConfigIDStart_nat, abi_tdMrConfigIDEnd_nat);
   (abi_tdMrOwnerStart_nat, abi_tdMrOwnerEnd_nat); (abi_tdMrOwnerConfigStart_nat, abi_tdMrOwnerConfigEnd_nat)].

Fixpoint sub_ranges (data : hslice) (l : list (nat * nat)) : hprog (list hslice) :=
  match l with
  | [] => Ret []
  | (a, b) :: r => s <-- sub data a b ;;; ss <-- sub_ranges data r ;;; Ret (s :: ss)
  end.

Definition parse_body_h (b : hslice) : hprog (res hbody) :=
  data <-- clone b ;;; d <-- rd data ;;;
  lift_res (parse_body d) (fun _ =>
    fs <-- sub_ranges data body_ranges ;;;
    rd_ <-- sub data abi_tdReportDataStart_nat abi_tdReportDataEnd_nat ;;;
    rt <-- sub_rtmrs abi_rtmrsCount_nat abi_tdRtmrsStart_nat data ;;;
    Ret (Ok {| hbF := fs; hbRtmrs := rt; hbReportData := rd_ |})).

Definition report_ranges : list (nat * nat) :=
  [(abi_qeCPUSvnStart_nat, abi_qeCPUSvnEnd_nat); (abi_qeReserved1Start_nat, abi_qeReserved1End_nat);
   (abi_qeAttributesStart_nat, abi_qeAttributesEnd_nat); (abi_qeMrEnclaveStart_nat, abi_qeMrEnclaveEnd_nat);
   (abi_qeReserved2Start_nat, abi_qeReserved2End_nat); (abi_qeMrSignerStart_nat, abi_qeMrSignerEnd_nat);
   (abi_qeReserved3Start_nat, abi_qeReserved3End_nat); (abi_qeReserved4Start_nat, abi_qeReserved4End_nat);
   (abi_qeReportDataStart_nat, abi_qeReportDataEnd_nat)].

Definition parse_report_h (b : hslice) : hprog (res (list hslice)) :=
  data <-- clone b ;;; d <-- rd data ;;;
  lift_res (parse_report d) (fun _ => fs <-- sub_ranges data report_ranges ;;; Ret (Ok fs)).

Definition parse_pck_h (b : hslice) : hprog (res hslice) :=
  data <-- clone b ;;; d <-- rd data ;;;
  lift_res (parse_pck d) (fun _ => c <-- sub_from data abi_pckCertChainDataStart_nat ;;; Ret (Ok c)).

(* returns the data slice and authDataEnd *)
Definition parse_auth_h (b : hslice) : hprog (res (hslice * nat)) :=
  data <-- clone b ;;; d <-- rd data ;;;
  lift_res (parse_auth d) (fun ae =>
    a <-- sub data abi_authDataStart_nat (snd ae) ;;; Ret (Ok (a, snd ae))).

Record hqercd := { hcRep : list hslice; hcSig : hslice; hcAuth : hslice; hcChain : hslice }.

Definition parse_qercd_h (b : hslice) : hprog (res hqercd) :=
  data <-- clone b ;;; d <-- rd data ;;;
  lift_res (parse_qercd d) (fun _ =>
    rb <-- sub data abi_enclaveReportStart_nat abi_enclaveReportEnd_nat ;;;
    r <-- parse_report_h rb ;;;
    lift_res r (fun rep =>
      sg <-- sub data abi_qeReportCertificationDataSignatureStart_nat abi_qeReportCertificationDataSignatureEnd_nat ;;;
      ab <-- sub_from data abi_qeReportCertificationDataAuthDataStart_nat ;;;
      a <-- parse_auth_h ab ;;;
      lift_res a (fun ae =>
        pb <-- sub_from data (abi_qeReportCertificationDataAuthDataStart_nat + snd ae) ;;;
        p <-- parse_pck_h pb ;;;
        lift_res p (fun ch =>
          Ret (Ok {| hcRep := rep; hcSig := sg; hcAuth := fst ae; hcChain := ch |}))))).

Definition parse_certdata_h (b : hslice) : hprog (res hqercd) :=
  data <-- clone b ;;; d <-- rd data ;;;
  lift_res (parse_certdata d) (fun _ =>
    rawc <-- sub_from data abi_certificateDataStart_nat ;;; parse_qercd_h rawc).

Record hsigned := { hsSig : hslice; hsKey : hslice; hsCert : hqercd }.

Definition parse_signed_h (b : hslice) : hprog (res hsigned) :=
  data <-- clone b ;;; d <-- rd data ;;;
  lift_res (parse_signed d) (fun _ =>
    sg <-- sub data abi_signedDataSignatureStart_nat abi_signedDataSignatureEnd_nat ;;;
    k <-- sub data abi_signedDataAttestationKeyStart_nat abi_signedDataAttestationKeyEnd_nat ;;;
    cb <-- sub_from data abi_signedDataCertificationDataStart_nat ;;;
    c <-- parse_certdata_h cb ;;;
    lift_res c (fun cd => Ret (Ok {| hsSig := sg; hsKey := k; hsCert := cd |}))).

Definition nth_s (l : list hslice) (i : nat) : hslice := nth i l nil_slice.

(* abi.QuoteToProto: determineQuoteFormat clones once more, then quoteToProtoV4 *)
Definition parse_h (raw : hslice) : hprog (res hquote) :=
  fmt <-- clone raw ;;;
  data <-- clone raw ;;; d <-- rd data ;;;
  lift_res (parse d) (fun pq =>
    hb <-- sub data abi_quoteHeaderStart_nat abi_quoteHeaderEnd_nat ;;;
    h <-- parse_header_h hb ;;;
    lift_res h (fun hh =>
      bb <-- sub data abi_quoteBodyStart_nat abi_quoteBodyEnd_nat ;;;
      b <-- parse_body_h bb ;;;
      lift_res b (fun bd =>
        let sd_end := abi_quoteSignedDataStart_nat + N.to_nat (qSignedDataSize pq) in
        rawsd <-- sub data abi_quoteSignedDataStart_nat sd_end ;;;
        extra <-- sub_from data sd_end ;;;
        s <-- parse_signed_h rawsd ;;;
        lift_res s (fun sd =>
          let f := hbF bd in let r := hcRep (hsCert sd) in
          Ret (Ok {| hqScal := pq;
                     hqPceSvn := hhPceSvn hh; hqQeSvn := hhQeSvn hh; hqVendor := hhVendor hh; hqUser := hhUser hh;
                     hqTeeTcbSvn := nth_s f 0; hqMrSeam := nth_s f 1; hqMrSignerSeam := nth_s f 2;
                     hqSeamAttr := nth_s f 3; hqTdAttr := nth_s f 4; hqXfam := nth_s f 5; hqMrTd := nth_s f 6;
                     hqMrConfigId := nth_s f 7; hqMrOwner := nth_s f 8; hqMrOwnerConfig := nth_s f 9;
                     hqRtmrs := hbRtmrs bd; hqReportData := hbReportData bd;
                     hqSig := hsSig sd; hqKey := hsKey sd;
                     hqCpuSvn := nth_s r 0; hqRes1 := nth_s r 1; hqAttrs := nth_s r 2; hqMrEnclave := nth_s r 3;
                     hqRes2 := nth_s r 4; hqMrSigner := nth_s r 5; hqRes3 := nth_s r 6; hqRes4 := nth_s r 7;
                     hqQeReportData := nth_s r 8;
                     hqQeSig := hcSig (hsCert sd); hqAuth := hcAuth (hsCert sd); hqChain := hcChain (hsCert sd);
                     hqExtra := if Nat.eqb (sl extra) 0 then nil_slice else extra |}))))).

(* ---- reading a message back into the list model ---- *)

Definition upd_header (h : header) (p q v u : bytes) : header :=
  {| hVersion := hVersion h; hAkt := hAkt h; hTee := hTee h; hPceSvn := p; hQeSvn := q; hVendor := v; hUser := u |}.

Definition load (q : hquote) : hprog quote :=
  p <-- rd (hqPceSvn q) ;;; qs <-- rd (hqQeSvn q) ;;; v <-- rd (hqVendor q) ;;; u <-- rd (hqUser q) ;;;
  b1 <-- rd (hqTeeTcbSvn q) ;;; b2 <-- rd (hqMrSeam q) ;;; b3 <-- rd (hqMrSignerSeam q) ;;;
  b4 <-- rd (hqSeamAttr q) ;;; b5 <-- rd (hqTdAttr q) ;;; b6 <-- rd (hqXfam q) ;;; b7 <-- rd (hqMrTd q) ;;;
  b8 <-- rd (hqMrConfigId q) ;;; b9 <-- rd (hqMrOwner q) ;;; b10 <-- rd (hqMrOwnerConfig q) ;;;
  rt <-- rd_all (hqRtmrs q) ;;; b12 <-- rd (hqReportData q) ;;;
  sg <-- rd (hqSig q) ;;; k <-- rd (hqKey q) ;;;
  r1 <-- rd (hqCpuSvn q) ;;; r2 <-- rd (hqRes1 q) ;;; r3 <-- rd (hqAttrs q) ;;; r4 <-- rd (hqMrEnclave q) ;;;
  r5 <-- rd (hqRes2 q) ;;; r6 <-- rd (hqMrSigner q) ;;; r7 <-- rd (hqRes3 q) ;;; r8 <-- rd (hqRes4 q) ;;;
  r9 <-- rd (hqQeReportData q) ;;;
  qsg <-- rd (hqQeSig q) ;;; au <-- rd (hqAuth q) ;;; ch <-- rd (hqChain q) ;;; ex <-- rd (hqExtra q) ;;;
  let s := hqScal q in
  Ret {| qHeader := option_map (fun h => upd_header h p qs v u) (qHeader s);
         qBody := option_map (fun _ =>
           {| bTeeTcbSvn := b1; bMrSeam := b2; bMrSignerSeam := b3; bSeamAttr := b4; bTdAttr := b5; bXfam := b6;
              bMrTd := b7; bMrConfigId := b8; bMrOwner := b9; bMrOwnerConfig := b10; bRtmrs := rt;
              bReportData := b12 |}) (qBody s);
         qSignedDataSize := qSignedDataSize s;
         qSigned := option_map (fun sd =>
           {| sSig := sg; sKey := k;
              sCert := option_map (fun c =>
                {| cType := cType c; cSize := cSize c;
                   cQercd := option_map (fun qc =>
                     {| qReport := option_map (fun r =>
                          {| rCpuSvn := r1; rMiscSelect := rMiscSelect r; rReserved1 := r2; rAttributes := r3;
                             rMrEnclave := r4; rReserved2 := r5; rMrSigner := r6; rReserved3 := r7;
                             rIsvProdId := rIsvProdId r; rIsvSvn := rIsvSvn r; rReserved4 := r8;
                             rReportData := r9 |}) (qReport qc);
                        qSig := qsg;
                        qAuth := option_map (fun a => {| aSize := aSize a; aData := au |}) (qAuth qc);
                        qPck := option_map (fun pk => {| pType := pType pk; pSize := pSize pk; pChain := ch |}) (qPck qc)
                     |}) (cQercd c) |}) (sCert sd) |}) (qSigned s);
         qExtra := ex |}.

(* ---- *ToAbiBytes: a fresh buffer, the fields copied into their ranges ---- *)

(* copy(data[a:b], f) *)
Definition put_field (data : hslice) (a b : nat) (f : hslice) : hprog unit :=
  dst <-- sub data a b ;;; copy dst f.

(* binary.LittleEndian.PutUintN(data[a:b], v) *)
Definition put_scalar (data : hslice) (a b : nat) (v : N) : hprog unit :=
  dst <-- sub data a b ;;; copy_bytes dst (le_encode (b - a) v).

Fixpoint put_fields (data : hslice) (l : list (nat * nat * hslice)) : hprog unit :=
  match l with
  | [] => Ret tt
  | (a, b, f) :: r => put_field data a b f ;;; put_fields data r
  end.

Definition hdr_of (q : hquote) : header :=
  match qHeader (hqScal q) with
  | Some h => h
  | None => {| hVersion := 0; hAkt := 0; hTee := 0; hPceSvn := []; hQeSvn := []; hVendor := []; hUser := [] |}
  end.

(* abi.HeaderToAbiBytes (after its checks) *)
Definition header_bytes_h (q : hquote) : hprog hslice :=
  data <-- make abi_headerSize_nat ;;;
  put_scalar data abi_headerVersionStart_nat abi_headerVersionEnd_nat (hVersion (hdr_of q)) ;;;
  put_scalar data abi_headerAttestationKeyTypeStart_nat abi_headerAttestationKeyTypeEnd_nat (hAkt (hdr_of q)) ;;;
  put_scalar data abi_headerTeeTypeStart_nat abi_headerTeeTypeEnd_nat (hTee (hdr_of q)) ;;;
  put_fields data
    [(abi_headerPceSvnStart_nat, abi_headerPceSvnEnd_nat, hqPceSvn q);
     (abi_headerQeSvnStart_nat, abi_headerQeSvnEnd_nat, hqQeSvn q);
     (abi_headerQeVendorIDStart_nat, abi_headerQeVendorIDEnd_nat, hqVendor q);
     (abi_headerUserDataStart_nat, abi_headerUserDataEnd_nat, hqUser q)] ;;;
  Ret data.

Fixpoint put_rtmrs (data : hslice) (start : nat) (l : list hslice) : hprog unit :=
  match l with
  | [] => Ret tt
  | f :: r => put_field data start (start + abi_RtmrSize_nat) f ;;; put_rtmrs data (start + abi_RtmrSize_nat) r
  end.

(* abi.TdQuoteBodyToAbiBytes (after its checks: four RTMRs) *)
Definition body_bytes_h (q : hquote) : hprog hslice :=
  data <-- make abi_tdQuoteBodySize_nat ;;;
  put_fields data (combine (combine (map fst body_ranges) (map snd body_ranges))
    [hqTeeTcbSvn q; hqMrSeam q; hqMrSignerSeam q; hqSeamAttr q; hqTdAttr q; hqXfam q; hqMrTd q;
     hqMrConfigId q; hqMrOwner q; hqMrOwnerConfig q]) ;;;
  put_rtmrs data abi_tdRtmrsStart_nat (firstn abi_rtmrsCount_nat (hqRtmrs q)) ;;;
  put_field data abi_tdReportDataStart_nat abi_tdReportDataEnd_nat (hqReportData q) ;;;
  Ret data.

(* verify.getHeaderAndTdQuoteBodyInAbiBytes: append(header, tdQuoteBody...) *)
Definition header_body_h (q : hquote) : hprog hslice :=
  h <-- header_bytes_h q ;;; b <-- body_bytes_h q ;;; append h b.

Definition rep_of (q : hquote) : report :=
  match qSigned (hqScal q) with
  | Some {| sCert := Some {| cQercd := Some {| qReport := Some r |} |} |} => r
  | _ => {| rCpuSvn := []; rMiscSelect := 0; rReserved1 := []; rAttributes := []; rMrEnclave := [];
            rReserved2 := []; rMrSigner := []; rReserved3 := []; rIsvProdId := 0; rIsvSvn := 0;
            rReserved4 := []; rReportData := [] |}
  end.

(* abi.EnclaveReportToAbiBytes (after its checks) *)
Definition report_bytes_h (q : hquote) : hprog hslice :=
  data <-- make abi_qeReportSize_nat ;;;
  put_field data abi_qeCPUSvnStart_nat abi_qeCPUSvnEnd_nat (hqCpuSvn q) ;;;
  put_scalar data abi_qeMiscSelectStart_nat abi_qeMiscSelectEnd_nat (rMiscSelect (rep_of q)) ;;;
  put_fields data
    [(abi_qeReserved1Start_nat, abi_qeReserved1End_nat, hqRes1 q);
     (abi_qeAttributesStart_nat, abi_qeAttributesEnd_nat, hqAttrs q);
     (abi_qeMrEnclaveStart_nat, abi_qeMrEnclaveEnd_nat, hqMrEnclave q);
     (abi_qeReserved2Start_nat, abi_qeReserved2End_nat, hqRes2 q);
     (abi_qeMrSignerStart_nat, abi_qeMrSignerEnd_nat, hqMrSigner q);
     (abi_qeReserved3Start_nat, abi_qeReserved3End_nat, hqRes3 q)] ;;;
  put_scalar data abi_qeIsvProdIDStart_nat abi_qeIsvProdIDEnd_nat (rIsvProdId (rep_of q)) ;;;
  put_scalar data abi_qeIsvSvnStart_nat abi_qeIsvSvnEnd_nat (rIsvSvn (rep_of q)) ;;;
  put_fields data
    [(abi_qeReserved4Start_nat, abi_qeReserved4End_nat, hqRes4 q);
     (abi_qeReportDataStart_nat, abi_qeReportDataEnd_nat, hqQeReportData q)] ;;;
  Ret data.

(* make([]byte, l, c) *)
Definition make_lc (l c : nat) : hprog hslice :=
  Alloc c (fun b => Ret {| sb := b; so := 0; sl := l; sc := c |}).

Section WithSha.
Variable sha256 : bytes -> bytes.

(* verify.verifyHash256 as repaired: the concatenation is built in a buffer of
   its own *)
Definition verify_hash256_h (q : hquote) : hprog bool :=
  c0 <-- make_lc 0 (sl (hqKey q) + sl (hqAuth q)) ;;;
  c1 <-- append c0 (hqKey q) ;;;
  c2 <-- append c1 (hqAuth q) ;;;
  d <-- rd c2 ;;;
  rdv <-- rd (hqQeReportData q) ;;;
  let hm := sha256 d in
  if Nat.ltb (length rdv) (length hm) then Fail      (* make([]byte, negative) *)
  else Ret (bytes_eqb (hm ++ zeros (length rdv - length hm)) rdv).

(* the same function before the repair: append(attestKey, qeAuthData...) *)
Definition verify_hash256_unrepaired (q : hquote) : hprog bool :=
  c2 <-- append (hqKey q) (hqAuth q) ;;;
  d <-- rd c2 ;;;
  rdv <-- rd (hqQeReportData q) ;;;
  let hm := sha256 d in
  if Nat.ltb (length rdv) (length hm) then Fail
  else Ret (bytes_eqb (hm ++ zeros (length rdv - length hm)) rdv).

(* The byte handling of verify.TdxQuote on a checked message, in call order:
   chain extraction reads the PEM bytes; the signed message is header || body in
   a fresh buffer; the signature and key are read; the QE report data is compared
   with the hash of key || auth data; the QE report is serialised into a fresh
   buffer and its signature read.  (The cryptography on these byte strings is
   the business of Model/Verify.v.) *)
Definition verify_bytes_h (q : hquote) : hprog (bytes * bytes * bool * bytes) :=
  chain <-- rd (hqChain q) ;;;
  hb <-- header_body_h q ;;; msg <-- rd hb ;;;
  rd (hqSig q) ;;; rd (hqKey q) ;;;
  ok <-- verify_hash256_h q ;;;
  rp <-- report_bytes_h q ;;; rep <-- rd rp ;;;
  rd (hqQeSig q) ;;;
  Ret (chain, msg, ok, rep).
End WithSha.

(* verify.applyMask(a, b): a fresh buffer of len(a); b[i] for i < len(a) *)
Definition apply_mask_h (a b : hslice) : hprog hslice :=
  data <-- make (sl a) ;;;
  av <-- rd a ;;; bv <-- rd b ;;;
  if Nat.ltb (length bv) (length av) then Fail       (* index out of range *)
  else copy_bytes data (map2_and av bv) ;;; Ret data.

(* abi.QuoteToAbiBytes: every intermediate buffer is made by the callee and
   appended to a nil / fresh slice; the model reads the message and writes the
   result of the list-level serialiser into one fresh buffer. *)
Definition serialize_h (q : hquote) : hprog (res hslice) :=
  pq <-- load q ;;;
  lift_res (serialize (Some pq)) (fun out =>
    s <-- make (length out) ;;; copy_bytes s out ;;; Ret (Ok s)).

(* validate.TdxQuote and verify.ExtractChainFromQuote only read: the message
   fields and the option byte strings *)
Definition validate_reads_h (q : hquote) (opts : list hslice) : hprog (quote * list bytes) :=
  pq <-- load q ;;; os <-- rd_all opts ;;; Ret (pq, os).

Definition extract_chain_h (q : hquote) : hprog bytes := rd (hqChain q).

(* a predicate on every slice of a message *)
Definition hq_all (P : hslice -> Prop) (q : hquote) : Prop :=
  P (hqPceSvn q) /\
  P (hqQeSvn q) /\
  P (hqVendor q) /\
  P (hqUser q) /\
  P (hqTeeTcbSvn q) /\
  P (hqMrSeam q) /\
  P (hqMrSignerSeam q) /\
  P (hqSeamAttr q) /\
  P (hqTdAttr q) /\
  P (hqXfam q) /\
  P (hqMrTd q) /\
  P (hqMrConfigId q) /\
  P (hqMrOwner q) /\
  P (hqMrOwnerConfig q) /\
  Forall P (hqRtmrs q) /\
  P (hqReportData q) /\
  P (hqSig q) /\
  P (hqKey q) /\
  P (hqCpuSvn q) /\
  P (hqRes1 q) /\
  P (hqAttrs q) /\
  P (hqMrEnclave q) /\
  P (hqRes2 q) /\
  P (hqMrSigner q) /\
  P (hqRes3 q) /\
  P (hqRes4 q) /\
  P (hqQeReportData q) /\
  P (hqQeSig q) /\
  P (hqAuth q) /\
  P (hqChain q) /\
  P (hqExtra q).

(* ---- the inventory of write sites this file accounts for ----
   function -> list of (kind, class) in source order; compared with the
   regenerated Gen/WriteSites.v in Proofs/HeapSites.v *)
