(* Model of abi/abi.go: the QuoteV4 message, CheckQuoteV4, QuoteToProto and
   QuoteToAbiBytes.  Offsets and sizes are the regenerated constants of
   Gen/AbiConsts.v, used by the same names as in the Go source.  Every Go slice
   expression is a checked [gslice]; every error is [Err EParse]. *)
From V Require Export Lib.Res.
From V Require Import Gen.AbiConsts.

(* ---- the message (pb.QuoteV4); nil sub-messages are None ---- *)
Record header := {
  hVersion : N; hAkt : N; hTee : N;
  hPceSvn : bytes; hQeSvn : bytes; hVendor : bytes; hUser : bytes }.

Record tdbody := {
  bTeeTcbSvn : bytes; bMrSeam : bytes; bMrSignerSeam : bytes; bSeamAttr : bytes;
  bTdAttr : bytes; bXfam : bytes; bMrTd : bytes; bMrConfigId : bytes;
  bMrOwner : bytes; bMrOwnerConfig : bytes; bRtmrs : list bytes; bReportData : bytes }.

Record report := {
  rCpuSvn : bytes; rMiscSelect : N; rReserved1 : bytes; rAttributes : bytes;
  rMrEnclave : bytes; rReserved2 : bytes; rMrSigner : bytes; rReserved3 : bytes;
  rIsvProdId : N; rIsvSvn : N; rReserved4 : bytes; rReportData : bytes }.

Record authdata := { aSize : N; aData : bytes }.
Record pckchain := { pType : N; pSize : N; pChain : bytes }.
Record qercd := {
  qReport : option report; qSig : bytes; qAuth : option authdata; qPck : option pckchain }.
Record certdata := { cType : N; cSize : N; cQercd : option qercd }.
Record signeddata := { sSig : bytes; sKey : bytes; sCert : option certdata }.
Record quote := {
  qHeader : option header; qBody : option tdbody; qSignedDataSize : N;
  qSigned : option signeddata; qExtra : bytes }.

Definition len_is (b : bytes) (n : nat) : bool := Nat.eqb (length b) n.
Definition chk (b : bool) : res unit := guard b EParse.

(* ---- check* ---- *)
Definition check_header (o : option header) : res unit :=
  match o with
  | None => Err EParse
  | Some h =>
    chk (N.ltb (hVersion h) 65536) ;; chk (N.eqb (hVersion h) abi_QuoteVersion) ;;
    chk (N.ltb (hAkt h) 65536) ;; chk (N.eqb (hAkt h) abi_AttestationKeyType) ;;
    chk (N.eqb (hTee h) abi_TeeTDX) ;;
    chk (len_is (hQeSvn h) abi_qeSvnSize_nat) ;; chk (len_is (hPceSvn h) abi_pceSvnSize_nat) ;;
    chk (len_is (hVendor h) abi_QeVendorIDSize_nat) ;; chk (len_is (hUser h) abi_userDataSize_nat)
  end.

Definition check_body (o : option tdbody) : res unit :=
  match o with
  | None => Err EParse
  | Some b =>
    chk (len_is (bTeeTcbSvn b) abi_TeeTcbSvnSize_nat) ;; chk (len_is (bMrSeam b) abi_MrSeamSize_nat) ;;
    chk (len_is (bMrSignerSeam b) abi_mrSignerSeamSize_nat) ;; chk (len_is (bSeamAttr b) abi_seamAttributesSize_nat) ;;
    chk (len_is (bTdAttr b) abi_TdAttributesSize_nat) ;; chk (len_is (bXfam b) abi_XfamSize_nat) ;;
    chk (len_is (bMrTd b) abi_MrTdSize_nat) ;; chk (len_is (bMrConfigId b) abi_MrConfigIDSize_nat) ;;
    chk (len_is (bMrOwner b) abi_MrOwnerSize_nat) ;; chk (len_is (bMrOwnerConfig b) abi_MrOwnerConfigSize_nat) ;;
    chk (Nat.eqb (length (bRtmrs b)) abi_rtmrsCount_nat) ;;
    chk (forallb (fun r => len_is r abi_RtmrSize_nat) (bRtmrs b)) ;;
    chk (len_is (bReportData b) abi_ReportDataSize_nat)
  end.

Definition check_report (o : option report) : res unit :=
  match o with
  | None => Err EParse
  | Some r =>
    chk (len_is (rCpuSvn r) abi_cpuSvnSize_nat) ;; chk (len_is (rReserved1 r) abi_reserved1Size_nat) ;;
    chk (len_is (rAttributes r) abi_attributesSize_nat) ;; chk (len_is (rMrEnclave r) abi_mrEnclaveSize_nat) ;;
    chk (len_is (rReserved2 r) abi_reserved2Size_nat) ;; chk (len_is (rMrSigner r) abi_mrSignerSize_nat) ;;
    chk (len_is (rReserved3 r) abi_reserved3Size_nat) ;;
    chk (N.ltb (rIsvProdId r) 65536) ;; chk (N.ltb (rIsvSvn r) 65536) ;;
    chk (len_is (rReserved4 r) abi_reserved4Size_nat) ;; chk (len_is (rReportData r) abi_ReportDataSize_nat)
  end.

Definition check_auth (o : option authdata) : res unit :=
  match o with
  | None => Err EParse
  | Some a => chk (N.ltb (aSize a) 65536) ;; chk (N.eqb (aSize a) (N.of_nat (length (aData a))))
  end.

Definition check_pck (o : option pckchain) : res unit :=
  match o with
  | None => Err EParse
  | Some p =>
    chk (N.ltb (pType p) 65536) ;; chk (N.eqb (pType p) abi_pckReportCertificationDataType) ;;
    chk (N.eqb (pSize p) (N.of_nat (length (pChain p))))
  end.

Definition check_qercd (o : option qercd) : res unit :=
  match o with
  | None => Err EParse
  | Some q =>
    check_report (qReport q) ;; chk (len_is (qSig q) abi_signatureSize_nat) ;;
    check_auth (qAuth q) ;; check_pck (qPck q)
  end.

Definition check_certdata (o : option certdata) : res unit :=
  match o with
  | None => Err EParse
  | Some c =>
    chk (N.ltb (cType c) 65536) ;; chk (N.eqb (cType c) abi_qeReportCertificationDataType) ;;
    check_qercd (cQercd c)
  end.

Definition check_signed (o : option signeddata) : res unit :=
  match o with
  | None => Err EParse
  | Some s =>
    chk (len_is (sSig s) abi_signatureSize_nat) ;; chk (len_is (sKey s) abi_attestationKeySize_nat) ;;
    check_certdata (sCert s)
  end.

(* CheckQuoteV4 *)
Definition check_quote (o : option quote) : res unit :=
  match o with
  | None => Err EParse
  | Some q => check_header (qHeader q) ;; check_body (qBody q) ;; check_signed (qSigned q)
  end.

(* ---- *ToAbiBytes ---- *)
Definition ser_header (o : option header) : res bytes :=
  match o with
  | None => Err EParse
  | Some h =>
    check_header o ;;
    Ok (le_encode 2 (hVersion h) ++ le_encode 2 (hAkt h) ++ le_encode 4 (hTee h) ++
        hPceSvn h ++ hQeSvn h ++ hVendor h ++ hUser h)
  end.

Definition ser_body (o : option tdbody) : res bytes :=
  match o with
  | None => Err EParse
  | Some b =>
    check_body o ;;
    Ok (bTeeTcbSvn b ++ bMrSeam b ++ bMrSignerSeam b ++ bSeamAttr b ++ bTdAttr b ++ bXfam b ++
        bMrTd b ++ bMrConfigId b ++ bMrOwner b ++ bMrOwnerConfig b ++ concat (bRtmrs b) ++ bReportData b)
  end.

Definition ser_report (o : option report) : res bytes :=
  match o with
  | None => Err EParse
  | Some r =>
    check_report o ;;
    Ok (rCpuSvn r ++ le_encode 4 (rMiscSelect r) ++ rReserved1 r ++ rAttributes r ++ rMrEnclave r ++
        rReserved2 r ++ rMrSigner r ++ rReserved3 r ++ le_encode 2 (rIsvProdId r) ++
        le_encode 2 (rIsvSvn r) ++ rReserved4 r ++ rReportData r)
  end.

Definition ser_pck (o : option pckchain) : res bytes :=
  match o with
  | None => Err EParse
  | Some p => check_pck o ;; Ok (le_encode 2 (pType p) ++ le_encode 4 (pSize p) ++ pChain p)
  end.

Definition ser_auth (o : option authdata) : res bytes :=
  match o with
  | None => Err EParse
  | Some a => check_auth o ;; Ok (le_encode 2 (aSize a) ++ aData a)
  end.

Definition ser_qercd (o : option qercd) : res bytes :=
  match o with
  | None => Err EParse
  | Some q =>
    check_qercd o ;;
    r <- ser_report (qReport q) ;; a <- ser_auth (qAuth q) ;; p <- ser_pck (qPck q) ;;
    Ok (r ++ qSig q ++ a ++ p)
  end.

Definition ser_certdata (o : option certdata) : res bytes :=
  match o with
  | None => Err EParse
  | Some c =>
    check_certdata o ;;
    d <- ser_qercd (cQercd c) ;;
    Ok (le_encode 2 (cType c) ++ le_encode 4 (cSize c) ++ d)
  end.

Definition ser_signed (o : option signeddata) : res bytes :=
  match o with
  | None => Err EParse
  | Some s =>
    check_signed o ;;
    d <- ser_certdata (sCert s) ;;
    Ok (sSig s ++ sKey s ++ d)
  end.

(* QuoteToAbiBytes on a *pb.QuoteV4 *)
Definition serialize (o : option quote) : res bytes :=
  match o with
  | None => Err EParse
  | Some q =>
    check_quote o ;;
    h <- ser_header (qHeader q) ;; b <- ser_body (qBody q) ;; s <- ser_signed (qSigned q) ;;
    Ok (h ++ b ++ le_encode 4 (qSignedDataSize q) ++ s ++ qExtra q)
  end.

(* ---- *ToProto ---- *)
Definition parse_header (d : bytes) : res header :=
  v <- gslice abi_headerVersionStart_nat abi_headerVersionEnd_nat d ;;
  k <- gslice abi_headerAttestationKeyTypeStart_nat abi_headerAttestationKeyTypeEnd_nat d ;;
  t <- gslice abi_headerTeeTypeStart_nat abi_headerTeeTypeEnd_nat d ;;
  p <- gslice abi_headerPceSvnStart_nat abi_headerPceSvnEnd_nat d ;;
  q <- gslice abi_headerQeSvnStart_nat abi_headerQeSvnEnd_nat d ;;
  i <- gslice abi_headerQeVendorIDStart_nat abi_headerQeVendorIDEnd_nat d ;;
  u <- gslice abi_headerUserDataStart_nat abi_headerUserDataEnd_nat d ;;
  let h := {| hVersion := le_decode v; hAkt := le_decode k; hTee := le_decode t;
              hPceSvn := p; hQeSvn := q; hVendor := i; hUser := u |} in
  check_header (Some h) ;; Ok h.

Fixpoint parse_rtmrs (n : nat) (start : nat) (d : bytes) : res (list bytes) :=
  match n with
  | O => Ok []
  | S n' =>
    a <- gslice start (start + abi_RtmrSize_nat) d ;;
    r <- parse_rtmrs n' (start + abi_RtmrSize_nat) d ;;
    Ok (a :: r)
  end.

Definition parse_body (d : bytes) : res tdbody :=
  f1 <- gslice abi_tdTeeTcbSvnStart_nat abi_tdTeeTcbSvnEnd_nat d ;;
  f2 <- gslice abi_tdMrSeamStart_nat abi_tdMrSeamEnd_nat d ;;
  f3 <- gslice abi_tdMrSignerSeamStart_nat abi_tdMrSignerSeamEnd_nat d ;;
  f4 <- gslice abi_tdSeamAttributesStart_nat abi_tdSeamAttributesEnd_nat d ;;
  f5 <- gslice abi_tdAttributesStart_nat abi_tdAttributesEnd_nat d ;;
  f6 <- gslice abi_tdXfamStart_nat abi_tdXfamEnd_nat d ;;
  f7 <- gslice abi_tdMrTdStart_nat abi_tdMrTdEnd_nat d ;;
  f8 <- gslice abi_tdMrConfigIDStart_nat abi_tdMrConfigIDEnd_nat d ;;
  f9 <- gslice abi_tdMrOwnerStart_nat abi_tdMrOwnerEnd_nat d ;;
  f10 <- gslice abi_tdMrOwnerConfigStart_nat abi_tdMrOwnerConfigEnd_nat d ;;
  f12 <- gslice abi_tdReportDataStart_nat abi_tdReportDataEnd_nat d ;;
  f11 <- parse_rtmrs abi_rtmrsCount_nat abi_tdRtmrsStart_nat d ;;
  let b := {| bTeeTcbSvn := f1; bMrSeam := f2; bMrSignerSeam := f3; bSeamAttr := f4; bTdAttr := f5;
              bXfam := f6; bMrTd := f7; bMrConfigId := f8; bMrOwner := f9; bMrOwnerConfig := f10;
              bRtmrs := f11; bReportData := f12 |} in
  check_body (Some b) ;; Ok b.

Definition parse_report (d : bytes) : res report :=
  f1 <- gslice abi_qeCPUSvnStart_nat abi_qeCPUSvnEnd_nat d ;;
  f2 <- gslice abi_qeMiscSelectStart_nat abi_qeMiscSelectEnd_nat d ;;
  f3 <- gslice abi_qeReserved1Start_nat abi_qeReserved1End_nat d ;;
  f4 <- gslice abi_qeAttributesStart_nat abi_qeAttributesEnd_nat d ;;
  f5 <- gslice abi_qeMrEnclaveStart_nat abi_qeMrEnclaveEnd_nat d ;;
  f6 <- gslice abi_qeReserved2Start_nat abi_qeReserved2End_nat d ;;
  f7 <- gslice abi_qeMrSignerStart_nat abi_qeMrSignerEnd_nat d ;;
  f8 <- gslice abi_qeReserved3Start_nat abi_qeReserved3End_nat d ;;
  f9 <- gslice abi_qeIsvProdIDStart_nat abi_qeIsvProdIDEnd_nat d ;;
  f10 <- gslice abi_qeIsvSvnStart_nat abi_qeIsvSvnEnd_nat d ;;
  f11 <- gslice abi_qeReserved4Start_nat abi_qeReserved4End_nat d ;;
  f12 <- gslice abi_qeReportDataStart_nat abi_qeReportDataEnd_nat d ;;
  let r := {| rCpuSvn := f1; rMiscSelect := le_decode f2; rReserved1 := f3; rAttributes := f4;
              rMrEnclave := f5; rReserved2 := f6; rMrSigner := f7; rReserved3 := f8;
              rIsvProdId := le_decode f9; rIsvSvn := le_decode f10; rReserved4 := f11;
              rReportData := f12 |} in
  check_report (Some r) ;; Ok r.

(* pckCertificateChainToProto *)
Definition parse_pck (d : bytes) : res pckchain :=
  chk (abi_pckCertificateChainKnownSize_nat <=? length d) ;;
  t <- gslice abi_pckCertChainCertificationDataTypeStart_nat abi_pckCertChainCertificationDataTypeEnd_nat d ;;
  s <- gslice abi_pckCertChainSizeStart_nat abi_pckCertChainSizeEnd_nat d ;;
  c <- gslice_from abi_pckCertChainDataStart_nat d ;;
  let p := {| pType := le_decode t; pSize := le_decode s; pChain := c |} in
  check_pck (Some p) ;; Ok p.

(* qeAuthDataToProto: returns the message and authDataEnd *)
Definition parse_auth (d : bytes) : res (authdata * nat) :=
  chk (abi_qeAuthDataKnownSize_nat <=? length d) ;;
  s <- gslice abi_authDataParsedDataSizeStart_nat abi_authDataParsedDataSizeEnd_nat d ;;
  let size := le_decode s in
  let auth_end := abi_authDataParsedDataSizeEnd_nat + N.to_nat size in
  chk (auth_end <=? length d) ;;
  a <- gslice abi_authDataStart_nat auth_end d ;;
  let m := {| aSize := size; aData := a |} in
  check_auth (Some m) ;; Ok (m, auth_end).

(* qeReportCertificationDataToProto *)
Definition parse_qercd (d : bytes) : res qercd :=
  chk (abi_qeReportCertificationDataAuthDataStart_nat <=? length d) ;;
  rb <- gslice abi_enclaveReportStart_nat abi_enclaveReportEnd_nat d ;;
  r <- parse_report rb ;;
  sg <- gslice abi_qeReportCertificationDataSignatureStart_nat abi_qeReportCertificationDataSignatureEnd_nat d ;;
  ab <- gslice_from abi_qeReportCertificationDataAuthDataStart_nat d ;;
  ae <- parse_auth ab ;;
  let '(a, auth_end) := ae in
  pb <- gslice_from (abi_qeReportCertificationDataAuthDataStart_nat + auth_end) d ;;
  p <- parse_pck pb ;;
  let q := {| qReport := Some r; qSig := sg; qAuth := Some a; qPck := Some p |} in
  check_qercd (Some q) ;; Ok q.

(* certificationDataToProto *)
Definition parse_certdata (d : bytes) : res certdata :=
  chk (abi_certificationDataKnownSize_nat <=? length d) ;;
  t <- gslice abi_certificateDataTypeStart_nat abi_certificateDataTypeEnd_nat d ;;
  s <- gslice abi_certificateSizeStart_nat abi_certificateSizeEnd_nat d ;;
  rawc <- gslice_from abi_certificateDataStart_nat d ;;
  chk (N.eqb (N.of_nat (length rawc)) (le_decode s)) ;;
  q <- parse_qercd rawc ;;
  let c := {| cType := le_decode t; cSize := le_decode s; cQercd := Some q |} in
  check_certdata (Some c) ;; Ok c.

(* signedDataToProto *)
Definition parse_signed (d : bytes) : res signeddata :=
  chk (abi_quoteV4AuthDataKnownSize_nat <=? length d) ;;
  sg <- gslice abi_signedDataSignatureStart_nat abi_signedDataSignatureEnd_nat d ;;
  k <- gslice abi_signedDataAttestationKeyStart_nat abi_signedDataAttestationKeyEnd_nat d ;;
  cb <- gslice_from abi_signedDataCertificationDataStart_nat d ;;
  c <- parse_certdata cb ;;
  let s := {| sSig := sg; sKey := k; sCert := Some c |} in
  check_signed (Some s) ;; Ok s.

(* QuoteToProto = determineQuoteFormat ; quoteToProtoV4 *)
Definition parse (raw : bytes) : res quote :=
  chk (abi_headerVersionEnd_nat <=? length raw) ;;
  v <- gslice abi_headerVersionStart_nat abi_headerVersionEnd_nat raw ;;
  chk (N.eqb (le_decode v) abi_intelQuoteV4Version) ;;
  chk (abi_QuoteMinSize_nat <=? length raw) ;;
  hb <- gslice abi_quoteHeaderStart_nat abi_quoteHeaderEnd_nat raw ;;
  h <- parse_header hb ;;
  bb <- gslice abi_quoteBodyStart_nat abi_quoteBodyEnd_nat raw ;;
  b <- parse_body bb ;;
  sz <- gslice abi_quoteSignedDataSizeStart_nat abi_quoteSignedDataSizeEnd_nat raw ;;
  let sds := le_decode sz in
  add <- gslice_from abi_quoteSignedDataStart_nat raw ;;
  chk (N.leb sds (N.of_nat (length add))) ;;
  let sd_end := abi_quoteSignedDataStart_nat + N.to_nat sds in
  rawsd <- gslice abi_quoteSignedDataStart_nat sd_end raw ;;
  extra <- gslice_from sd_end raw ;;
  s <- parse_signed rawsd ;;
  let q := {| qHeader := Some h; qBody := Some b; qSignedDataSize := sds;
              qSigned := Some s; qExtra := extra |} in
  check_quote (Some q) ;; Ok q.
