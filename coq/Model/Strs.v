(* The string constants of the Go source (regenerated) as byte strings. *)
From V Require Export Lib.Bytes.
From V Require Import Gen.VerifyConsts Gen.PcsConsts.
From Coq Require Import String Ascii.

Fixpoint bytes_of_string (s : string) : bytes :=
  match s with
  | EmptyString => []
  | String c s' => byte_of_N (N_of_ascii c) :: bytes_of_string s'
  end.

Definition s_rootCertPhrase := bytes_of_string verify_rootCertPhrase.
Definition s_intermediateCertPhrase := bytes_of_string verify_intermediateCertPhrase.
Definition s_pckCertPhrase := bytes_of_string verify_pckCertPhrase.
Definition s_tcbSigningPhrase := bytes_of_string verify_tcbSigningPhrase.
Definition s_tcbInfoID := bytes_of_string verify_tcbInfoID.
Definition s_qeIdentityID := bytes_of_string verify_qeIdentityID.
Definition s_platformIssuer := bytes_of_string verify_platformIssuer.
Definition s_platformIssuerID := bytes_of_string verify_platformIssuerID.
Definition s_processorIssuer := bytes_of_string verify_processorIssuer.
Definition s_processorIssuerID := bytes_of_string verify_processorIssuerID.
Definition s_TdxBaseURL := bytes_of_string pcs_TdxBaseURL.
Definition s_SgxBaseURL := bytes_of_string pcs_SgxBaseURL.
(* format strings of pcs.TcbInfoURL / QeIdentityURL / PckCrlURL *)
Definition s_tcb_path := bytes_of_string "/tcb?fmspc=".
Definition s_qe_path := bytes_of_string "/qe/identity".
Definition s_crl_path := bytes_of_string "/pckcrl?ca=".
Definition s_crl_suffix := bytes_of_string "&encoding=der".
(* http.CanonicalHeaderKey of the issuer-chain header names *)
Definition s_hdr_tcb_info := bytes_of_string "Tcb-Info-Issuer-Chain".
Definition s_hdr_qe_identity := bytes_of_string "Sgx-Enclave-Identity-Issuer-Chain".
Definition s_hdr_pck_crl := bytes_of_string "Sgx-Pck-Crl-Issuer-Chain".
