(* Model of verify.TdxQuote / verify.RawTdxQuote (verify/verify.go): chain
   extraction, collateral fetching and authentication, PCK chain validation,
   revocation, expiry, quote signature chain, TCB / QE identity checks.

   The Go standard library appears as oracles, all of them *data* inside the
   [world] (finite tables the harness computes independently with Go's crypto on
   its own bytes): PEM decoding + x509 parsing, JSON decoding, CRL parsing,
   ECDSA verification, SHA-256, curve membership, signature-from relations.  A
   table miss is the distinguished error [EOracle] (harness/model drift), never a
   silent "false". *)
From V Require Export Model.Tcb.
From V Require Import Gen.AbiConsts Gen.VerifyConsts.
From V Require Import Model.Strs.

(* ---- certificates, CRLs ---- *)
Record cert := {
  cId : N;                       (* identity of the certificate (equal ids = equal DER) *)
  cV3 : bool;                    (* Version == 3 *)
  cSigAlgOk : bool;              (* SignatureAlgorithm == ECDSAWithSHA256 *)
  cKeyAlgOk : bool;              (* PublicKeyAlgorithm == ECDSA *)
  cCurveOk : bool;               (* public key is *ecdsa.PublicKey on P-256 *)
  cSubjectCN : bytes; cIssuerCN : bytes;
  cSubject : bytes; cIssuer : bytes;     (* Subject.String(), Issuer.String() *)
  cRawSubject : bytes; cRawIssuer : bytes;
  cSerial : bytes;
  cNotBefore : Z; cNotAfter : Z;
  cKey : bytes;                  (* raw public key X||Y when on P-256 *)
  cCrlDP : list bytes;
  cPckExt : option pckext        (* pcs.PckCertificateExtensions(cert) (None = error); modelled in Model/PckExt.v *)
}.

Record crl := {
  rlIssuer : bytes;              (* Issuer.String() *)
  rlNextUpdate : Z;
  rlRevoked : list bytes;        (* serial numbers *)
  rlSignedBy : list N            (* ids of certificates for which CheckSignatureFrom succeeds *)
}.

(* one pem.Decode step on the remaining input *)
Inductive pem_step :=
| PemNone                                            (* no block found *)
| PemBlock (is_cert_type : bool) (parsed : option cert) (rest_len : nat) (rest_is_nul : bool).

(* encoding/json views of a response body *)
Record tcb_json := {
  tjWholeOk : bool;              (* json.Unmarshal(body, &pcs.TdxTcbInfo{}) succeeds *)
  tjSignature : bytes;           (* .Signature after that decode *)
  tjRaw : option bytes;          (* exact-key "tcbInfo" member, last wins *)
  tjMember : option tcbinfo;     (* json.Unmarshal(raw member, &pcs.TcbInfo{}) *)
  tjZero : bool                  (* decoded document deep-equals the zero value *)
}.
Record qe_json := {
  qjWholeOk : bool; qjSignature : bytes; qjRaw : option bytes; qjMember : option qeidentity; qjZero : bool }.

Record response := {
  rspHeaders : list (bytes * list bytes);     (* header map *)
  rspBody : bytes }.

Record world := {
  wFetch : list (bytes * option response);     (* URL -> response / getter error; absent = getter error *)
  wPem : list (bytes * list pem_step);         (* successive pem.Decode steps of an input *)
  wUnescape : list (bytes * option bytes);     (* url.QueryUnescape *)
  wTcbJson : list (bytes * tcb_json);
  wQeJson : list (bytes * qe_json);
  wCrl : list (bytes * option crl);            (* x509.ParseRevocationList *)
  wHex : list (bytes * option bytes);          (* hex.DecodeString of a signature string *)
  wEcdsa : list (bytes * bytes * bytes * bool);   (* key, message, raw signature -> verifies *)
  wSha : list (bytes * bytes);                 (* SHA-256 *)
  wCurve : list (bytes * bool);                (* 64-byte X||Y is on P-256 *)
  wSigFrom : list (N * N);                     (* (child, parent): child.CheckSignatureFrom(parent) == nil *)
  wEmbeddedRoot : cert                         (* verify/trusted_root.pem *)
}.

Record timeset := { tPck : Z; tTcbInfo : Z; tQeId : Z; tPckCrl : Z; tRootCrl : Z }.

Record options := {
  optCheckRevocations : bool;
  optGetCollateral : bool;
  optNow : option timeset;               (* nil => the wall clock at the call *)
  optRoots : option (list cert)          (* nil => embedded root *)
}.

Definition EOracle := EOther.
Definition oracle_miss {A} : res A := Err EOracle.

Fixpoint lookup {V} (k : bytes) (t : list (bytes * V)) : option V :=
  match t with
  | [] => None
  | (k', v) :: rest => if bytes_eqb k k' then Some v else lookup k rest
  end.

Definition ora {V} (k : bytes) (t : list (bytes * V)) : res V :=
  match lookup k t with Some v => Ok v | None => oracle_miss end.

Definition ecdsa_ok (w : world) (key msg sg : bytes) : res bool :=
  let fix go (t : list (bytes * bytes * bytes * bool)) :=
    match t with
    | [] => oracle_miss
    | (k, m, s, r) :: rest =>
      if bytes_eqb k key && bytes_eqb m msg && bytes_eqb s sg then Ok r else go rest
    end in go (wEcdsa w).

Definition sig_from (w : world) (child parent : cert) : bool :=
  existsb (fun p => N.eqb (fst p) (cId child) && N.eqb (snd p) (cId parent)) (wSigFrom w).

(* ---- collateral ---- *)
Record collateral := {
  colTcbInfo : tcbinfo; colTcbSig : bytes; colTcbRaw : bytes; colTcbZero : bool;
  colTcbSigner : cert; colTcbRoot : cert;
  colQeId : qeidentity; colQeSig : bytes; colQeRaw : bytes; colQeZero : bool;
  colQeSigner : cert; colQeRoot : cert;
  colPckCrl : option crl; colPckCrlSigner : option cert; colPckCrlRoot : option cert;
  colRootCrl : option crl }.

Definition ferr {A} : res A := Err EFetch.
Definition cerr {A} : res A := Err EChain.

Definition header_get (k : bytes) (h : list (bytes * list bytes)) : option (list bytes) := lookup k h.

(* the two CERTIFICATE blocks of an issuer-chain header; every failure is an error *)
Definition header_to_issuer_chain (w : world) (h : list (bytes * list bytes)) (phrase : bytes)
  : res (cert * cert) :=
  match header_get phrase h with
  | None => ferr
  | Some vals =>
    match vals with
    | [v] =>
      if Nat.eqb (length v) 0 then ferr else
      u <- ora v (wUnescape w) ;;
      match u with
      | None => ferr
      | Some chain =>
        steps <- ora chain (wPem w) ;;
        match steps with
        | PemBlock ty1 p1 rest1 _ :: more =>
          if Nat.eqb rest1 0 then ferr else
          if negb ty1 then ferr else
          match p1 with
          | None => ferr
          | Some signer =>
            match more with
            | PemBlock ty2 p2 rest2 _ :: _ =>
              if negb (Nat.eqb rest2 0) then ferr else
              if negb ty2 then ferr else
              match p2 with
              | None => ferr
              | Some root => Ok (signer, root)
              end
            | _ => ferr
            end
          end
        | _ => ferr
        end
      end
    | _ => ferr
    end
  end.

Definition fetch (w : world) (url : bytes) : option response :=
  match lookup url (wFetch w) with Some (Some r) => Some r | _ => None end.

Definition tcb_info_url (fmspc : bytes) : bytes := s_TdxBaseURL ++ s_tcb_path ++ fmspc.
Definition qe_identity_url : bytes := s_TdxBaseURL ++ s_qe_path.
Definition pck_crl_url (ca : bytes) : bytes := s_SgxBaseURL ++ s_crl_path ++ ca ++ s_crl_suffix.

(* http.CanonicalHeaderKey of the three header names (checked against the Go
   constants by Proofs/VerifyConsts.v) *)
Definition hdr_tcb_info : bytes := s_hdr_tcb_info.
Definition hdr_qe_identity : bytes := s_hdr_qe_identity.
Definition hdr_pck_crl : bytes := s_hdr_pck_crl.

(* a computation that also records the URLs it requested *)
Definition fetching (A : Type) := (res A * list bytes)%type.
Definition fret {A} (r : res A) : fetching A := (r, []).
Definition fbind {A B} (m : fetching A) (k : A -> fetching B) : fetching B :=
  match fst m with
  | Ok a => let r := k a in (fst r, snd m ++ snd r)
  | Err c => (Err c, snd m)
  | Panic => (Panic, snd m)
  end.
Definition fget (w : world) (url : bytes) : fetching (option response) := (Ok (fetch w url), [url]).

(* getTcbInfo *)
Definition get_tcb_info (w : world) (fmspc : bytes)
  : fetching (tcbinfo * bytes * bytes * bool * cert * cert) :=
  fbind (fget w (tcb_info_url fmspc)) (fun r =>
  fret (match r with
  | None => ferr
  | Some rsp =>
    ch <- header_to_issuer_chain w (rspHeaders rsp) hdr_tcb_info ;;
    j <- ora (rspBody rsp) (wTcbJson w) ;;
    if negb (tjWholeOk j) then ferr else
    if Nat.eqb (length (rspBody rsp)) 0 then ferr else
    match tjRaw j with
    | None => ferr
    | Some raw =>
      match tjMember j with
      | None => ferr
      | Some ti => Ok (ti, tjSignature j, raw, tjZero j, fst ch, snd ch)
      end
    end
  end)).

Definition get_qe_identity (w : world)
  : fetching (qeidentity * bytes * bytes * bool * cert * cert) :=
  fbind (fget w qe_identity_url) (fun r =>
  fret (match r with
  | None => ferr
  | Some rsp =>
    ch <- header_to_issuer_chain w (rspHeaders rsp) hdr_qe_identity ;;
    j <- ora (rspBody rsp) (wQeJson w) ;;
    if negb (qjWholeOk j) then ferr else
    if Nat.eqb (length (rspBody rsp)) 0 then ferr else
    match qjRaw j with
    | None => ferr
    | Some raw =>
      match qjMember j with
      | None => ferr
      | Some qi => Ok (qi, qjSignature j, raw, qjZero j, fst ch, snd ch)
      end
    end
  end)).

(* getPckCrl *)
Definition get_pck_crl (w : world) (ca : bytes) : fetching (crl * cert * cert) :=
  fbind (fget w (pck_crl_url ca)) (fun r =>
  fret (match r with
  | None => ferr
  | Some rsp =>
    ch <- reclass ECollContent (header_to_issuer_chain w (rspHeaders rsp) hdr_pck_crl) ;;
    c <- ora (rspBody rsp) (wCrl w) ;;
    match c with
    | None => ferr
    | Some c => Ok (c, fst ch, snd ch)
    end
  end)).

(* getRootCrl: the distribution points of the QE-identity issuer root, in order;
   the first that fetches and parses wins *)
Fixpoint get_root_crl_loop (w : world) (urls : list bytes) : fetching crl :=
  match urls with
  | [] => fret ferr
  | u :: rest =>
    fbind (fget w u) (fun r =>
    match r with
    | None => get_root_crl_loop w rest
    | Some rsp =>
      match ora (rspBody rsp) (wCrl w) with
      | Ok (Some c) => fret (Ok c)
      | Ok None => get_root_crl_loop w rest
      | Err e => fret (Err e)
      | Panic => fret Panic
      end
    end)
  end.

Definition get_root_crl (w : world) (qe_root : cert) : fetching crl :=
  if Nat.eqb (length (cCrlDP qe_root)) 0 then fret (Err ECollContent) else get_root_crl_loop w (cCrlDP qe_root).

(* obtainCollateral *)
Definition obtain_collateral (w : world) (fmspc ca : bytes) (o : options) : fetching collateral :=
  fbind (get_tcb_info w fmspc) (fun t =>
  fbind (get_qe_identity w) (fun q =>
  let '(ti, tsig, traw, tzero, tsigner, troot) := t in
  let '(qi, qsig, qraw, qzero, qsigner, qroot) := q in
  let base := {| colTcbInfo := ti; colTcbSig := tsig; colTcbRaw := traw; colTcbZero := tzero;
                 colTcbSigner := tsigner; colTcbRoot := troot;
                 colQeId := qi; colQeSig := qsig; colQeRaw := qraw; colQeZero := qzero;
                 colQeSigner := qsigner; colQeRoot := qroot;
                 colPckCrl := None; colPckCrlSigner := None; colPckCrlRoot := None; colRootCrl := None |} in
  if optCheckRevocations o then
    fbind (get_pck_crl w ca) (fun p =>
    fbind (get_root_crl w qroot) (fun rc =>
    let '(pc, psigner, proot) := p in
    fret (Ok {| colTcbInfo := ti; colTcbSig := tsig; colTcbRaw := traw; colTcbZero := tzero;
                colTcbSigner := tsigner; colTcbRoot := troot;
                colQeId := qi; colQeSig := qsig; colQeRaw := qraw; colQeZero := qzero;
                colQeSigner := qsigner; colQeRoot := qroot;
                colPckCrl := Some pc; colPckCrlSigner := Some psigner; colPckCrlRoot := Some proot;
                colRootCrl := Some rc |})))
  else fret (Ok base))).

(* ---- chain extraction: extractChainFromQuoteV4 ---- *)
Record chain := { chLeaf : cert; chInter : cert; chRoot : cert }.

Definition chain_bytes (q : quote) : bytes :=
  match qSigned q with
  | Some s => match sCert s with
              | Some c => match cQercd c with
                          | Some qe => match qPck qe with Some p => pChain p | None => [] end
                          | None => [] end
              | None => [] end
  | None => []
  end.

Definition extract_chain (w : world) (q : quote) : res chain :=
  let cb := chain_bytes q in
  if Nat.eqb (length cb) 0 then cerr else     (* nil => ErrPCKCertChainNil; empty => no PEM block *)
  steps <- ora cb (wPem w) ;;
  match steps with
  | PemBlock ty1 p1 rest1 _ :: more1 =>
    if Nat.eqb rest1 0 || negb ty1 then cerr else
    match p1 with
    | None => cerr
    | Some leaf =>
      match more1 with
      | PemBlock ty2 p2 rest2 _ :: more2 =>
        if Nat.eqb rest2 0 || negb ty2 then cerr else
        match p2 with
        | None => cerr
        | Some inter =>
          match more2 with
          | PemBlock ty3 p3 rest3 nul3 :: _ =>
            if negb ty3 then cerr else
            if negb (Nat.eqb rest3 0) && negb nul3 then cerr else
            match p3 with
            | None => cerr
            | Some root => Ok {| chLeaf := leaf; chInter := inter; chRoot := root |}
            end
          | _ => cerr
          end
        end
      | _ => cerr
      end
    end
  | _ => cerr
  end.

(* ---- certificate validation ---- *)
(* validateCertificate(cert, parent, phrase) *)
Definition validate_certificate (w : world) (c parent : cert) (phrase : bytes) : res unit :=
  if negb (cV3 c) then cerr else
  if negb (cSigAlgOk c) then cerr else
  if negb (cKeyAlgOk c) then cerr else
  if negb (cCurveOk c) then cerr else
  if negb (bytes_eqb (cSubjectCN c) phrase) then cerr else
  if negb (bytes_eqb (cIssuer c) (cSubject parent)) then cerr else
  if negb (sig_from w c parent) then cerr else Ok tt.

Definition in_window (c : cert) (t : Z) : bool := Z.leb (cNotBefore c) t && Z.leb t (cNotAfter c).

(* a certificate issued c (what crypto/x509 requires of a parent during path building) *)
Definition issued (w : world) (c parent : cert) : bool :=
  bytes_eqb (cRawIssuer c) (cRawSubject parent) && sig_from w c parent.

Definition same_cert (a b : cert) : bool := N.eqb (cId a) (cId b).

(* leaf.Verify(VerifyOptions{Roots, Intermediates, CurrentTime}): a simplified
   model of crypto/x509 path building (no name constraints, EKU or path-length
   limits; the generator emits none): the leaf is itself in the pool, or is
   issued by a pool certificate, or by an intermediate that is in the pool or is
   issued by a pool certificate; every certificate on the path, the anchor
   included, is inside its validity period. *)
Definition path_ok (w : world) (leaf : cert) (inters roots : list cert) (t : Z) : bool :=
  in_window leaf t &&
  (existsb (same_cert leaf) roots
   || existsb (fun r => issued w leaf r && in_window r t) roots
   || existsb (fun i => issued w leaf i && in_window i t &&
                        (existsb (same_cert i) roots ||
                         existsb (fun r => issued w i r && in_window r t) roots)) inters).

(* x509.VerifyOptions.CurrentTime: the zero time.Time means "now" *)
Definition zero_time : Z := (-62135596800)%Z.
Definition x509_time (t wall : Z) : Z := if Z.eqb t zero_time then wall else t.

Definition effective_roots (w : world) (o : options) : list cert :=
  match optRoots o with Some p => p | None => [wEmbeddedRoot w] end.

(* validateCRL *)
Definition rerr {A} : res A := Err ERevoked.
Definition validate_crl (c : option crl) (trusted : cert) : res unit :=
  match c with
  | None => rerr
  | Some c =>
    if negb (bytes_eqb (rlIssuer c) (cSubject trusted)) then rerr else
    if negb (existsb (N.eqb (cId trusted)) (rlSignedBy c)) then rerr else Ok tt
  end.

Definition revoked (c : crl) (serial : bytes) : bool := existsb (bytes_eqb serial) (rlRevoked c).

Definition xerr {A} : res A := Err EExpired.
Definition after (t limit : Z) : bool := Z.ltb limit t.     (* time.Time.After *)

(* verifyPCKCertificationChain *)
Definition verify_pck_chain (w : world) (ch : chain) (col : option collateral) (o : options) (now : timeset)
  (wall : Z) : res unit :=
  let root := chRoot ch in let inter := chInter ch in let leaf := chLeaf ch in
  validate_certificate w root root s_rootCertPhrase ;;
  validate_certificate w inter root s_intermediateCertPhrase ;;
  validate_certificate w leaf inter s_pckCertPhrase ;;
  (if path_ok w leaf [inter] (effective_roots w o) (x509_time (tPck now) wall) then Ok tt else Err ETrust) ;;
  (if optCheckRevocations o then
     if optGetCollateral o then
       match col with
       | None => Panic                        (* collateral is nil only when GetCollateral is off *)
       | Some col =>
         validate_crl (colRootCrl col) root ;;
         validate_crl (colPckCrl col) inter ;;
         match colPckCrl col, colRootCrl col with
         | Some pc, Some rc =>
           if negb (bytes_eqb (rlIssuer pc) (cIssuer leaf)) then rerr else
           if revoked rc (cSerial inter) then rerr else
           if revoked pc (cSerial leaf) then rerr else Ok tt
         | _, _ => rerr
         end
       end
     else Err EUsage                          (* ErrRevocationCheckFailed *)
   else Ok tt) ;;
  (* checkCertificateExpiration *)
  if after (tPck now) (cNotAfter root) then xerr else
  if after (tPck now) (cNotAfter inter) then xerr else
  if after (tPck now) (cNotAfter leaf) then xerr else Ok tt.

(* verifyCollateral: presence, then checkCollateralExpiration *)
Definition verify_collateral (col : option collateral) (o : options) (now : timeset) : res unit :=
  match col with
  | None => Err ECollContent
  | Some col =>
    if colTcbZero col then Err ECollContent else
    if colQeZero col then Err ECollContent else
    (if optCheckRevocations o then
       match colPckCrl col, colRootCrl col, colPckCrlSigner col, colPckCrlRoot col with
       | Some _, Some _, Some _, Some _ => Ok tt
       | _, _, _, _ => Err ECollContent
       end
     else Ok tt) ;;
    if after (tTcbInfo now) (tiNextUpdate (colTcbInfo col)) then xerr else
    if after (tQeId now) (qiNextUpdate (colQeId col)) then xerr else
    if after (tTcbInfo now) (cNotAfter (colTcbSigner col)) then xerr else
    if after (tTcbInfo now) (cNotAfter (colTcbRoot col)) then xerr else
    if after (tQeId now) (cNotAfter (colQeRoot col)) then xerr else
    if after (tQeId now) (cNotAfter (colQeSigner col)) then xerr else
    if optCheckRevocations o then
      match colRootCrl col, colPckCrl col, colPckCrlSigner col, colPckCrlRoot col with
      | Some rc, Some pc, Some ps, Some pr =>
        if after (tRootCrl now) (rlNextUpdate rc) then xerr else
        if after (tPckCrl now) (rlNextUpdate pc) then xerr else
        if after (tPckCrl now) (cNotAfter ps) then xerr else
        if after (tPckCrl now) (cNotAfter pr) then xerr else Ok tt
      | _, _, _, _ => Err ECollContent
      end
    else Ok tt
  end.

(* verifyResponse *)
Definition aerr {A} : res A := Err ECollAuth.
Definition verify_response (w : world) (root signer : cert) (raw sigstr : bytes) (rc : option crl)
  (o : options) (t wall : Z) : res unit :=
  reclass ECollAuth (validate_certificate w root root s_rootCertPhrase) ;;
  reclass ECollAuth (validate_certificate w signer root s_tcbSigningPhrase) ;;
  (if path_ok w signer [] (effective_roots w o) (x509_time t wall) then Ok tt else aerr) ;;
  h <- ora sigstr (wHex w) ;;
  match h with
  | None => aerr
  | Some sg =>
    if negb (Nat.eqb (length sg) abi_signatureSize_nat) then aerr else
    v <- ecdsa_ok w (cKey signer) raw sg ;;
    if negb v then aerr else
    if optCheckRevocations o then
      if optGetCollateral o then
        validate_crl rc root ;;
        match rc with
        | Some rc => if revoked rc (cSerial signer) then rerr else Ok tt
        | None => rerr
        end
      else Err EUsage
    else Ok tt
  end.

Definition verify_tcb_info (w : world) (col : collateral) (o : options) (now : timeset) (wall : Z) : res unit :=
  let ti := colTcbInfo col in
  if negb (bytes_eqb (tiId ti) s_tcbInfoID) then Err ECollContent else
  if negb (N.eqb (tiVersion ti) verify_tcbInfoVersion) then Err ECollContent else
  if Nat.eqb (length (tiLevels ti)) 0 then Err ECollContent else
  verify_response w (colTcbRoot col) (colTcbSigner col) (colTcbRaw col) (colTcbSig col) (colRootCrl col) o (tTcbInfo now) wall.

Definition verify_qe_identity (w : world) (col : collateral) (o : options) (now : timeset) (wall : Z) : res unit :=
  let qi := colQeId col in
  if negb (bytes_eqb (qiId qi) s_qeIdentityID) then Err ECollContent else
  if negb (N.eqb (qiVersion qi) verify_qeIdentityVersion) then Err ECollContent else
  if Nat.eqb (length (qiLevels qi)) 0 then Err ECollContent else
  verify_response w (colQeRoot col) (colQeSigner col) (colQeRaw col) (colQeSig col) (colRootCrl col) o (tQeId now) wall.

(* ---- the quote's own signature chain: verifyQuote ---- *)
Definition att_key (q : quote) : bytes := match qSigned q with Some s => sKey s | None => [] end.
Definition quote_sig (q : quote) : bytes := match qSigned q with Some s => sSig s | None => [] end.
Definition quote_qercd (q : quote) : option qercd :=
  match qSigned q with
  | Some s => match sCert s with Some c => cQercd c | None => None end
  | None => None
  end.

Definition verify_quote_sigs (w : world) (q : quote) (leaf : cert) : res unit :=
  let key := att_key q in
  if negb (Nat.eqb (length key) verify_pubKeySize_nat) then Err ESigQuote else
  oc <- ora key (wCurve w) ;;
  if negb oc then Err ESigQuote else
  if negb (Nat.eqb (length (quote_sig q)) abi_signatureSize_nat) then Err ESigQuote else
  hb <- reclass ESigQuote (ser_header (qHeader q)) ;;
  bb <- reclass ESigQuote (ser_body (qBody q)) ;;
  v <- ecdsa_ok w key (hb ++ bb) (quote_sig q) ;;
  if negb v then Err ESigQuote else
  match quote_qercd q with
  | None => Err ESigQe
  | Some qe =>
    rb <- reclass ESigQe (ser_report (qReport qe)) ;;
    if negb (Nat.eqb (length (qSig qe)) abi_signatureSize_nat) then Err ESigQe else
    v2 <- ecdsa_ok w (cKey leaf) rb (qSig qe) ;;
    if negb v2 then Err ESigQe else
    (* verifyHash256 *)
    let auth := match qAuth qe with Some a => aData a | None => [] end in
    let rd := match qReport qe with Some r => rReportData r | None => [] end in
    d <- ora (key ++ auth) (wSha w) ;;
    if bytes_eqb (d ++ zeros (length rd - length d)) rd then Ok tt else Err EHashBind
  end.

Definition verify_quote (w : world) (q : quote) (ch : chain) (col : option collateral) (ext : pckext)
  : res unit :=
  verify_quote_sigs w q (chLeaf ch) ;;
  match col with
  | None => Ok tt
  | Some col =>
    match qBody q, quote_qercd q with
    | Some b, Some qe =>
      verify_td_body b (colTcbInfo col) ext ;;
      match qReport qe with
      | Some r => verify_qe_report r (colQeId col)
      | None => Panic
      end
    | _, _ => Panic
    end
  end.

(* extractCaFromPckCert *)
Definition extract_ca (leaf : cert) : res bytes :=
  if bytes_eqb (cIssuerCN leaf) s_platformIssuer then Ok s_platformIssuerID
  else if bytes_eqb (cIssuerCN leaf) s_processorIssuer then Ok s_processorIssuerID
  else cerr.

(* verifyEvidenceV4 *)
Definition verify_evidence (w : world) (q : quote) (ch : chain) (col : option collateral) (ext : pckext)
  (o : options) (now : timeset) (wall : Z) : res unit :=
  match qHeader q with
  | Some h => if N.eqb (hTee h) abi_TeeTDX then Ok tt else Err EParse
  | None => Err EParse
  end ;;
  verify_pck_chain w ch col o now wall ;;
  (if optGetCollateral o then
     verify_collateral col o now ;;
     match col with
     | Some c => verify_tcb_info w c o now wall ;; verify_qe_identity w c o now wall
     | None => Panic
     end
   else Ok tt) ;;
  verify_quote w q ch col ext.

(* tdxQuoteV4 (after the repairs: getters instead of field access before the
   check; the default time set is not written into the caller's options).
   [wall] is the wall clock at the call. *)
Definition default_timeset (wall : Z) : timeset :=
  {| tPck := wall; tTcbInfo := wall; tQeId := wall; tPckCrl := wall; tRootCrl := wall |}.

Definition verify_v4 (w : world) (q : option quote) (o : options) (wall : Z) : fetching unit :=
  match check_quote q, q with
  | Panic, _ => fret Panic
  | Err _, _ => fret (Err EParse)
  | Ok _, None => fret (Err EParse)
  | Ok _, Some q =>
    match extract_chain w q with
    | Panic => fret Panic
    | Err c => fret (Err c)
    | Ok ch =>
      match cPckExt (chLeaf ch) with
      | None => fret (Err EPckExt)
      | Some ext =>
        let now := match optNow o with Some t => t | None => default_timeset wall end in
        if optGetCollateral o then
          match extract_ca (chLeaf ch) with
          | Ok ca =>
            fbind (obtain_collateral w (eFmspc ext) ca o) (fun col =>
              fret (verify_evidence w q ch (Some col) ext o now wall))
          | Err c => fret (Err c)
          | Panic => fret Panic
          end
        else fret (verify_evidence w q ch None ext o now wall)
      end
    end
  end.

(* verify.TdxQuote(quote, options) *)
Definition verify (w : world) (q : option quote) (o : option options) (wall : Z) : fetching unit :=
  match o with
  | None => fret (Err EUsage)
  | Some o => verify_v4 w q o wall
  end.

(* verify.RawTdxQuote *)
Definition verify_raw (w : world) (raw : bytes) (o : option options) (wall : Z) : fetching unit :=
  match parse raw with
  | Ok q => verify w (Some q) o wall
  | Err c => fret (Err EParse)
  | Panic => fret Panic
  end.
