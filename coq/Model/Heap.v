(* A block-structured heap with Go slices on top of it, and a small language of
   heap programs.  Used by C16: which memory a call may write.

   Blocks are either shared (they exist before any of the calls under study:
   the raw input, the buffers behind the fields of a message, option byte
   strings) or private to a thread (allocated by a call running on that thread;
   the Go allocator never hands the same memory to two allocations).  A program
   sees block names only through the slices it is given and through the result of
   its own allocations. *)
From V Require Import Lib.Bytes Lib.Res.

Inductive blk : Type :=
| Sh (n : nat)            (* pre-existing block number n *)
| Pv (t : nat) (n : nat). (* n-th allocation of thread t *)

Definition blk_eqb (a b : blk) : bool :=
  match a, b with
  | Sh n, Sh m => Nat.eqb n m
  | Pv t n, Pv u m => Nat.eqb t u && Nat.eqb n m
  | _, _ => false
  end.

Definition own (t : nat) (b : blk) : bool :=
  match b with Pv u _ => Nat.eqb u t | Sh _ => false end.

Definition readable (t : nat) (b : blk) : bool :=
  match b with Pv u _ => Nat.eqb u t | Sh _ => true end.

(* Heap programs.  Reads and writes are whole ranges (Go's copy / append /
   slice reads); an out-of-range access is a Go panic (Fail). *)
Inductive hprog (A : Type) : Type :=
| Ret (a : A)
| Fail
| Alloc (n : nat) (k : blk -> hprog A)                (* make([]byte, n): zeroed *)
| RdR (b : blk) (off n : nat) (k : bytes -> hprog A)
| WrR (b : blk) (off : nat) (d : bytes) (k : hprog A).
Arguments Ret {A} a.
Arguments Fail {A}.
Arguments Alloc {A} n k.
Arguments RdR {A} b off n k.
Arguments WrR {A} b off d k.

Fixpoint hbind {A B} (p : hprog A) (f : A -> hprog B) : hprog B :=
  match p with
  | Ret a => f a
  | Fail => Fail
  | Alloc n k => Alloc n (fun b => hbind (k b) f)
  | RdR b off n k => RdR b off n (fun d => hbind (k d) f)
  | WrR b off d k => WrR b off d (hbind k f)
  end.

Declare Scope hprog_scope.
Delimit Scope hprog_scope with hprog.
Notation "x <-- m ;;; k" := (hbind m (fun x => k))
  (at level 61, m at next level, right associativity) : hprog_scope.
Notation "m ;;; k" := (hbind m (fun _ => k))
  (at level 61, right associativity) : hprog_scope.
Open Scope hprog_scope.

(* ---- heaps and the semantics ---- *)

Definition heap := blk -> bytes.      (* an unallocated block is [] *)

Definition upd (h : heap) (b : blk) (v : bytes) : heap :=
  fun b' => if blk_eqb b b' then v else h b'.

(* overwrite d at offset off of a block (the range is inside the block) *)
Definition splice (old : bytes) (off : nat) (d : bytes) : bytes :=
  firstn off old ++ d ++ skipn (off + length d) old.

Definition in_range (h : heap) (b : blk) (off n : nat) : bool :=
  Nat.leb (off + n) (length (h b)).

(* one write: which block, where, how many bytes *)
Definition wlog := list (blk * nat * nat).

(* small step of thread t whose allocation counter is n *)
Definition step1 {A} (t : nat) (p : hprog A) (n : nat) (h : heap) : hprog A * nat * heap :=
  match p with
  | Ret a => (Ret a, n, h)
  | Fail => (Fail, n, h)
  | Alloc sz k => (k (Pv t n), S n, upd h (Pv t n) (zeros sz))
  | RdR b off len k =>
      if in_range h b off len then (k (slice off (off + len) (h b)), n, h) else (Fail, n, h)
  | WrR b off d k =>
      if in_range h b off (length d) then (k, n, upd h b (splice (h b) off d)) else (Fail, n, h)
  end.

(* big step: result (None = panic), new counter, heap, writes in order *)
Fixpoint run {A} (t : nat) (p : hprog A) (n : nat) (h : heap) : option A * nat * heap * wlog :=
  match p with
  | Ret a => (Some a, n, h, [])
  | Fail => (None, n, h, [])
  | Alloc sz k => run t (k (Pv t n)) (S n) (upd h (Pv t n) (zeros sz))
  | RdR b off len k =>
      if in_range h b off len then run t (k (slice off (off + len) (h b))) n h else (None, n, h, [])
  | WrR b off d k =>
      if in_range h b off (length d)
      then let '(r, n', h', w) := run t k n (upd h b (splice (h b) off d)) in
           (r, n', h', (b, off, length d) :: w)
      else (None, n, h, [])
  end.

(* The discipline that C16 is about, for a program run by thread t: it writes
   only blocks it allocated itself, it reads only shared blocks and its own, and
   its result satisfies Q, whatever names (numbered lo or later) its allocations
   receive. *)
Fixpoint safe {A} (t lo : nat) (Q : A -> Prop) (p : hprog A) : Prop :=
  match p with
  | Ret a => Q a
  | Fail => True
  | Alloc _ k => forall m, lo <= m -> safe t lo Q (k (Pv t m))
  | RdR b _ _ k => readable t b = true /\ forall d, safe t lo Q (k d)
  | WrR b _ _ k => own t b = true /\ safe t lo Q k
  end.

(* ---- Go slices ---- *)

Record hslice := { sb : blk; so : nat; sl : nat; sc : nat }.   (* sc: capacity from so *)

Definition nil_slice : hslice := {| sb := Sh 0; so := 0; sl := 0; sc := 0 |}.

(* s[i:j]  (j may go up to the capacity) *)
Definition sub (s : hslice) (i j : nat) : hprog hslice :=
  if Nat.leb i j && Nat.leb j (sc s)
  then Ret {| sb := sb s; so := so s + i; sl := j - i; sc := sc s - i |}
  else Fail.

(* s[i:] *)
Definition sub_from (s : hslice) (i : nat) : hprog hslice := sub s i (sl s).

Definition rd (s : hslice) : hprog bytes := RdR (sb s) (so s) (sl s) Ret.

Definition make (n : nat) : hprog hslice :=
  Alloc n (fun b => Ret {| sb := b; so := 0; sl := n; sc := n |}).

(* copy(dst, src): min(len dst, len src) bytes *)
Definition copy_bytes (dst : hslice) (d : bytes) : hprog unit :=
  WrR (sb dst) (so dst) (firstn (sl dst) d) (Ret tt).

Definition copy (dst src : hslice) : hprog unit :=
  d <-- rd src ;;; copy_bytes dst d.

(* append(dst, d...): in place when the capacity allows, otherwise a new block
   (its capacity is whatever the runtime picks; the exact length is the least) *)
Definition append_bytes (dst : hslice) (d : bytes) : hprog hslice :=
  if Nat.leb (sl dst + length d) (sc dst)
  then WrR (sb dst) (so dst + sl dst) d
         (Ret {| sb := sb dst; so := so dst; sl := sl dst + length d; sc := sc dst |})
  else old <-- rd dst ;;;
       Alloc (sl dst + length d) (fun b =>
         WrR b 0 (old ++ d) (Ret {| sb := b; so := 0; sl := sl dst + length d; sc := sl dst + length d |})).

Definition append (dst src : hslice) : hprog hslice :=
  d <-- rd src ;;; append_bytes dst d.

(* clone(b) of abi.go *)
Definition clone (s : hslice) : hprog hslice :=
  r <-- make (sl s) ;;; copy r s ;;; Ret r.

Definition readable_s (t : nat) (s : hslice) : Prop := readable t (sb s) = true.
Definition own_s (t : nat) (s : hslice) : Prop := own t (sb s) = true.

(* a private slice allocated at or after counter n *)
Definition fresh_s (t n : nat) (s : hslice) : Prop :=
  exists m, sb s = Pv t m /\ n <= m.
