(* Model of tools/check (check.go main): how flags and the config file merge into
   the effective root of trust and policy, and which exit code follows.  The
   library calls are the models of Model/RootOfTrust.v, Model/Verify.v and
   Model/Validate.v.  What the Go flag package, cmdline.Bytes, strconv, the
   protobuf decoders and the file system do with their inputs enters as the
   classification of each flag / file (unset, malformed, well-formed value). *)
From V Require Import Lib.Bytes Lib.Res Model.Abi Model.Validate Model.Verify Model.RootOfTrust.

Inductive exitcode := E0 | E1 | E2 | E3 | E4 | ECrash.

(* a flag as the tool sees it *)
Inductive flagv (A : Type) := FUnset | FBad | FGood (a : A).
Arguments FUnset {A}.
Arguments FBad {A}.
Arguments FGood {A} a.

(* the byte-string fields of the policy that have a flag of their own *)
Inductive bfield := BQeVendorId | BMinTeeTcbSvn | BMrSeam | BTdAttr | BXfam | BMrTd | BMrConfigId
                  | BMrOwner | BMrOwnerConfig | BReportData.

Definition all_bfields : list bfield :=
  [BQeVendorId; BMinTeeTcbSvn; BMrSeam; BTdAttr; BXfam; BMrTd; BMrConfigId; BMrOwner; BMrOwnerConfig; BReportData].

Record flags := {
  fSyntax : bool;                        (* flag.Parse accepts the command line *)
  fCheckCrl : flagv bool; fGetCollateral : flagv bool;
  fMinQeSvn : flagv N; fMinPceSvn : flagv N;       (* parseUint(_, 32) *)
  fBytes : bfield -> flagv bytes;                  (* cmdline.Bytes: decoded and zero-padded to the field size *)
  fRtmrs : flagv (list bytes);
  fRoots : flagv (list source) }.                  (* -trusted_roots: every path exists and is a file *)

(* the config file: sub-messages may be absent *)
Record cfg_header := { chMinQeSvn : N; chMinPceSvn : N; chQeVendorId : option bytes }.
Record cfg_body := { cbBytes : bfield -> option bytes; cbRtmrs : list bytes; cbAnyMrTd : list bytes }.
Record cfg_policy := { cpHeader : option cfg_header; cpBody : option cfg_body }.
Record cfg := { cfRot : option root_of_trust; cfPolicy : option cfg_policy }.

Inductive cfgfile := CfAbsent | CfBad | CfGood (c : cfg).

(* the effective policy, before validate.PolicyToOptions *)
Record epolicy := {
  epMinQeSvn : N; epMinPceSvn : N; epBytes : bfield -> option bytes;
  epRtmrs : list bytes; epAnyMrTd : list bytes }.

Definition empty_rot : root_of_trust :=
  {| rotPaths := []; rotInline := []; rotCheckCrl := false; rotGetCollateral := false |}.

(* the policy message read as the getters read it: absent sub-messages are zero *)
Definition cfg_bytes (p : cfg_policy) (f : bfield) : option bytes :=
  match f with
  | BQeVendorId => match cpHeader p with Some h => chQeVendorId h | None => None end
  | _ => match cpBody p with Some b => cbBytes b f | None => None end
  end.

Definition base_policy (c : cfgfile) : epolicy :=
  match c with
  | CfGood {| cfPolicy := Some p |} =>
    {| epMinQeSvn := match cpHeader p with Some h => chMinQeSvn h | None => 0 end;
       epMinPceSvn := match cpHeader p with Some h => chMinPceSvn h | None => 0 end;
       epBytes := cfg_bytes p;
       epRtmrs := match cpBody p with Some b => cbRtmrs b | None => [] end;
       epAnyMrTd := match cpBody p with Some b => cbAnyMrTd b | None => [] end |}
  | _ => {| epMinQeSvn := 0; epMinPceSvn := 0; epBytes := fun _ => None; epRtmrs := []; epAnyMrTd := [] |}
  end.

Definition base_rot (c : cfgfile) : root_of_trust :=
  match c with
  | CfGood {| cfRot := Some r |} => r
  | _ => empty_rot
  end.

Definition config_present (c : cfgfile) : bool := match c with CfAbsent => false | _ => true end.

(* setBool / setUint32: the flag if given, else the config's value, else (no config) the default *)
Definition set_scalar {A} (fl : flagv A) (present : bool) (cur dflt : A) : res A :=
  match fl with
  | FGood v => Ok v
  | FBad => Err EUsage
  | FUnset => Ok (if present then cur else dflt)
  end.

Definition override {A} (fl : flagv A) (cur : A) : res A :=
  match fl with FGood v => Ok v | FBad => Err EUsage | FUnset => Ok cur end.

(* populateRootOfTrust *)
Definition populate_rot (fl : flags) (c : cfgfile) : res root_of_trust :=
  let r := base_rot c in
  crl <- set_scalar (fCheckCrl fl) (config_present c) (rotCheckCrl r) false ;;
  col <- set_scalar (fGetCollateral fl) (config_present c) (rotGetCollateral r) false ;;
  match fRoots fl with
  | FBad => Err EUsage
  | FGood (p :: ps) => Ok {| rotPaths := p :: ps; rotInline := rotInline r; rotCheckCrl := crl; rotGetCollateral := col |}
  | _ => Ok {| rotPaths := rotPaths r; rotInline := rotInline r; rotCheckCrl := crl; rotGetCollateral := col |}
  end.

(* populateConfig (cmdline.Parse has already rejected malformed byte flags) *)
Definition populate_policy (fl : flags) (c : cfgfile) : res epolicy :=
  let p := base_policy c in
  qe <- set_scalar (fMinQeSvn fl) (config_present c) (epMinQeSvn p) 0%N ;;
  pce <- set_scalar (fMinPceSvn fl) (config_present c) (epMinPceSvn p) 0%N ;;
  rt <- override (fRtmrs fl) (epRtmrs p) ;;
  Ok {| epMinQeSvn := qe; epMinPceSvn := pce;
        epBytes := fun f => match fBytes fl f with FGood v => Some v | _ => epBytes p f end;
        epRtmrs := rt; epAnyMrTd := epAnyMrTd p |}.

Definition any_bad_bytes (fl : flags) : bool :=
  existsb (fun f => match fBytes fl f with FBad => true | _ => false end) all_bfields.

Definition to_policy (p : epolicy) : policy :=
  {| pMinQeSvn := epMinQeSvn p; pMinPceSvn := epMinPceSvn p; pQeVendorId := epBytes p BQeVendorId;
     pMinTeeTcbSvn := epBytes p BMinTeeTcbSvn; pMrSeam := epBytes p BMrSeam; pTdAttr := epBytes p BTdAttr;
     pXfam := epBytes p BXfam; pMrTd := epBytes p BMrTd; pMrConfigId := epBytes p BMrConfigId;
     pMrOwner := epBytes p BMrOwner; pMrOwnerConfig := epBytes p BMrOwnerConfig;
     pRtmrs := epRtmrs p; pReportData := epBytes p BReportData; pAnyMrTd := epAnyMrTd p |}.

(* the effective configuration, or a usage error *)
Definition effective (fl : flags) (c : cfgfile) : res (root_of_trust * epolicy) :=
  if negb (fSyntax fl) then Err EUsage
  else if any_bad_bytes fl then Err EUsage
  else match c with
       | CfBad => Err EUsage
       | _ =>
         (* multierr.Combine(populateRootOfTrust(), populateConfig()): both run *)
         match populate_rot fl c, populate_policy fl c with
         | Ok r, Ok p =>
           if rotCheckCrl r && negb (rotGetCollateral r) then Err EUsage else Ok (r, p)
         | Panic, _ | _, Panic => Panic
         | _, _ => Err EUsage
         end
       end.

(* the quote input: unreadable / undecodable / unknown -inform, or a message
   (for -inform bin the result of abi.QuoteToProto) *)
Inductive input := InBad | InRaw (raw : bytes) | InMsg (q : quote).

Definition read_quote (i : input) : res quote :=
  match i with
  | InBad => Err EUsage
  | InRaw raw => match parse raw with Ok q => Ok q | Err _ => Err EUsage | Panic => Panic end
  | InMsg q => Ok q
  end.

Definition exit_of_verify (r : res unit) : option exitcode :=
  match r with
  | Ok _ => None
  | Err EFetch => Some E3
  | Err _ => Some E2
  | Panic => Some ECrash
  end.

Definition run_tool (fl : flags) (c : cfgfile) (i : input) (w : world) (wall : Z) : exitcode * list bytes :=
  match effective fl c with
  | Panic => (ECrash, [])
  | Err _ => (E1, [])
  | Ok (rot, pol) =>
    match read_quote i with
    | Panic => (ECrash, [])
    | Err _ => (E1, [])
    | Ok q =>
      match root_of_trust_to_options rot with
      | Panic => (ECrash, [])
      | Err _ => (E1, [])
      | Ok o =>
        let v := verify w (Some q) (Some o) wall in
        match exit_of_verify (fst v) with
        | Some e => (e, snd v)
        | None =>
          match policy_to_options (to_policy pol) with
          | Panic => (ECrash, snd v)
          | Err _ => (E1, snd v)
          | Ok vo =>
            match validate (Some q) (Some vo) with
            | Ok _ => (E0, snd v)
            | Err _ => (E4, snd v)
            | Panic => (ECrash, snd v)
            end
          end
        end
      end
    end
  end.

(* populateConfig as it stood before the repair: it dereferenced
   policy.HeaderPolicy / policy.TdQuoteBodyPolicy, which are nil when the config
   file has a policy message without them *)
Definition populate_policy_unrepaired (fl : flags) (c : cfgfile) : res epolicy :=
  match c with
  | CfGood {| cfPolicy := Some {| cpHeader := None |} |}
  | CfGood {| cfPolicy := Some {| cpBody := None |} |} => Panic
  | _ => populate_policy fl c
  end.
