(* Model of rtmr.ExtendDigestClient / ExtendEventLogClient (rtmr/extend.go) and of
   the go-configfs-tsm protocol they drive (rtmr.ExtendDigest: search the rtmrs
   directory for the entry bound to the index, create and bind one otherwise,
   write the digest), against a model TSM that implements register extension. *)
From V Require Export Lib.Res.

Section Rtmr.
Variable sha384 : bytes -> bytes.

(* one configfs entry under /sys/kernel/config/tsm/rtmrs *)
Record entry := { eName : N; eIndex : option N; eReg : bytes }.
Definition tsm := list entry.

Inductive op :=
| ReadDir
| ReadIndex (name : N)
| MkdirTemp (index : N)                 (* pattern "rtmr<index>-" *)
| WriteIndex (name : N) (index : N)
| WriteDigest (name : N) (digest : bytes).

Definition zero48 : bytes := zeros 48.
Definition extend_reg (reg digest : bytes) : bytes := sha384 (reg ++ digest).

(* searchRtmrInterface: entries in directory order; the first whose index file
   parses to the wanted index *)
Fixpoint search (t : tsm) (idx : N) : option N * list op :=
  match t with
  | [] => (None, [])
  | e :: rest =>
    match eIndex e with
    | Some i => if N.eqb i idx then (Some (eName e), [ReadIndex (eName e)])
                else let r := search rest idx in (fst r, ReadIndex (eName e) :: snd r)
    | None => let r := search rest idx in (fst r, ReadIndex (eName e) :: snd r)
    end
  end.

Definition fresh_name (t : tsm) : N := N.succ (fold_right N.max 0%N (map eName t)).

Fixpoint write_digest (t : tsm) (name : N) (digest : bytes) : tsm :=
  match t with
  | [] => []
  | e :: rest =>
    if N.eqb (eName e) name
    then {| eName := eName e; eIndex := eIndex e; eReg := extend_reg (eReg e) digest |} :: rest
    else e :: write_digest rest name digest
  end.

(* the library's ExtendDigest on a well-behaved TSM *)
Definition lib_extend (t : tsm) (idx : N) (digest : bytes) : tsm * list op :=
  let s := search t idx in
  match fst s with
  | Some name => (write_digest t name digest, ReadDir :: snd s ++ [WriteDigest name digest])
  | None =>
    let name := fresh_name t in
    let t' := t ++ [{| eName := name; eIndex := Some idx; eReg := zero48 |}] in
    (write_digest t' name digest,
     ReadDir :: snd s ++ [MkdirTemp idx; WriteIndex name idx; WriteDigest name digest])
  end.

(* rtmr.ExtendDigestClient *)
Definition extend_digest (t : tsm) (idx : Z) (digest : bytes) : tsm * list op * bool :=
  if (Z.ltb idx 0 || Z.ltb 3 idx)%bool then (t, [], true)
  else if negb (Nat.eqb (length digest) 48) then (t, [], true)
  else let r := lib_extend t (Z.to_N idx) digest in (fst r, snd r, false).

(* rtmr.ExtendEventLogClient: hash algorithm must be SHA-384, log non-empty *)
Definition extend_event_log (t : tsm) (idx : Z) (is_sha384 : bool) (log : bytes) : tsm * list op * bool :=
  if negb is_sha384 then (t, [], true)
  else if Nat.eqb (length log) 0 then (t, [], true)
  else extend_digest t idx (sha384 log).

(* requests and histories *)
Inductive request :=
| RDigest (idx : Z) (digest : bytes)
| REventLog (idx : Z) (is_sha384 : bool) (log : bytes).

Definition run_request (t : tsm) (r : request) : tsm * list op * bool :=
  match r with
  | RDigest i d => extend_digest t i d
  | REventLog i a l => extend_event_log t i a l
  end.

Definition run_history (t : tsm) (rs : list request) : tsm :=
  fold_left (fun t r => fst (fst (run_request t r))) rs t.

(* register bound to an index: the first entry bound to it *)
Fixpoint register (t : tsm) (idx : N) : option bytes :=
  match t with
  | [] => None
  | e :: rest =>
    match eIndex e with
    | Some i => if N.eqb i idx then Some (eReg e) else register rest idx
    | None => register rest idx
    end
  end.

(* the digest a request extends into index i, if it is accepted for i *)
Definition accepted_digest (i : N) (r : request) : option bytes :=
  match r with
  | RDigest idx d =>
    if (Z.ltb idx 0 || Z.ltb 3 idx)%bool then None
    else if negb (Nat.eqb (length d) 48) then None
    else if N.eqb (Z.to_N idx) i then Some d else None
  | REventLog idx a l =>
    if negb a then None else if Nat.eqb (length l) 0 then None
    else if (Z.ltb idx 0 || Z.ltb 3 idx)%bool then None
    else if negb (Nat.eqb (length (sha384 l)) 48) then None
    else if N.eqb (Z.to_N idx) i then Some (sha384 l) else None
  end.

Definition extend_chain (start : bytes) (ds : list bytes) : bytes := fold_left extend_reg ds start.

Fixpoint filter_map {A B} (f : A -> option B) (l : list A) : list B :=
  match l with
  | [] => []
  | x :: r => match f x with Some y => y :: filter_map f r | None => filter_map f r end
  end.
End Rtmr.
