(* Model of pcs.PckCertificateExtensions (pcs/pcs.go).  DER is abstracted into
   TLV trees ([node]); which byte strings decode into which tree, how a leaf
   decodes into an OID or into an `any` value are oracles (encoding/asn1); the
   rules by which asn1.Unmarshal fits a tree into []RawValue,
   pkix.AttributeTypeAndValue, pkix.Extension and []byte, and all of the
   extension logic, are modelled. *)
From V Require Export Lib.Res.
From V Require Import Gen.PcsConsts.

Inductive anyval := AErr | AInt (z : Z) | ABytes (b : bytes) | AOther.

Inductive node :=
| Node (cls tag : N) (constructed : bool) (content : bytes)
       (children : option (list node))   (* Some iff constructed: the well-formed TLVs at the start of the content *)
       (oid : option (list N))           (* Some iff a valid universal OBJECT IDENTIFIER *)
       (any : anyval)                    (* decoding into interface{} *)
       (complete : bool).                (* the children are all of the content (no malformed tail) *)

Definition n_cls (n : node) := let '(Node c _ _ _ _ _ _ _) := n in c.
Definition n_tag (n : node) := let '(Node _ t _ _ _ _ _ _) := n in t.
Definition n_cons (n : node) := let '(Node _ _ c _ _ _ _ _) := n in c.
Definition n_content (n : node) := let '(Node _ _ _ c _ _ _ _) := n in c.
Definition n_children (n : node) := let '(Node _ _ _ _ c _ _ _) := n in c.
Definition n_oid (n : node) := let '(Node _ _ _ _ _ o _ _) := n in o.
Definition n_any (n : node) := let '(Node _ _ _ _ _ _ a _) := n in a.
Definition n_complete (n : node) := let '(Node _ _ _ _ _ _ _ c) := n in c.

Definition is_universal (n : node) (tag : N) (cons : bool) : bool :=
  N.eqb (n_cls n) 0 && N.eqb (n_tag n) tag && Bool.eqb (n_cons n) cons.

(* asn1.Unmarshal(x, &[]asn1.RawValue{}): a universal constructed SEQUENCE whose
   whole content is well-formed TLVs *)
Definition as_seq (n : node) : option (list node) :=
  if is_universal n 16 true && n_complete n then n_children n else None.

(* asn1.Unmarshal into a struct: a universal constructed SEQUENCE; its members
   are read one by one from the front, whatever follows them is ignored *)
Definition as_struct (n : node) : option (list node) :=
  if is_universal n 16 true then n_children n else None.

(* into pkix.AttributeTypeAndValue{Type OID; Value any}; trailing members are tolerated *)
Definition as_atv (n : node) : option (list N * anyval) :=
  match as_struct n with
  | Some (c0 :: c1 :: _) =>
    match n_oid c0, n_any c1 with
    | Some o, AErr => None
    | Some o, v => Some (o, v)
    | None, _ => None
    end
  | _ => None
  end.

Definition valid_bool (n : node) : bool :=
  match n_content n with [b] => Byte.eqb b x00 || Byte.eqb b xff | _ => false end.

(* into pkix.Extension{Id OID; Critical bool `optional`; Value []byte} *)
Definition as_extension (n : node) : option bytes :=
  match as_struct n with
  | Some (c0 :: rest) =>
    match n_oid c0 with
    | None => None
    | Some _ =>
      match rest with
      | c1 :: rest' =>
        if is_universal c1 1 false then
          if valid_bool c1 then
            match rest' with
            | c2 :: _ => if is_universal c2 4 false then Some (n_content c2) else None
            | [] => None
            end
          else None
        else if is_universal c1 4 false then Some (n_content c1) else None
      | [] => None
      end
    end
  | _ => None
  end.

Section Pck.
(* asn1 TLV decoding of a byte string: the first TLV as a tree and the number of bytes left *)
Variable decode : bytes -> option (node * nat).

Definition perr {A} : res A := Err EPckExt.

Fixpoint oid_eqb (a b : list N) : bool :=
  match a, b with
  | [], [] => true
  | x :: a', y :: b' => N.eqb x y && oid_eqb a' b'
  | _, _ => false
  end.

(* asn1OctetString *)
Definition octet_value (value : bytes) (size : nat) : res bytes :=
  if Nat.eqb (length value) size then Ok value
  else match decode value with
       | Some (n, rest) =>
         if negb (is_universal n 4 false) then perr
         else if negb (Nat.eqb rest 0) then perr
         else if negb (Nat.eqb (length (n_content n)) size) then perr
         else Ok (n_content n)
       | None => perr
       end.

(* extractAsn1OctetStringExtension (the hex encoding is left to the caller) *)
Definition octet_extension (elem : node) (size : nat) : res bytes :=
  match as_extension elem with
  | Some v => octet_value v size
  | None => perr
  end.

Record pck_tcb := { tcPceSvn : N; tcCpuSvn : bytes; tcComps : list N }.
Record pck_values := { pvPpid : bytes; pvTcb : pck_tcb; pvPceId : bytes; pvFmspc : bytes }.

(* state of extractTcbExtension: the 16 components, PCE SVN, CPU SVN, each with a seen flag *)
Record tcb_acc := { taComps : list (option N); taPce : option N; taCpu : option bytes }.
Definition tcb_acc0 : tcb_acc := {| taComps := repeat None 16; taPce := None; taCpu := None |}.

Fixpoint set_nth {A} (i : nat) (v : A) (l : list A) : list A :=
  match l, i with
  | [], _ => []
  | _ :: r, O => v :: r
  | x :: r, S i' => x :: set_nth i' v r
  end.

Definition comp_index (o : list N) : option nat :=
  let p := pcs_oid_sgxTcbComponentOidPrefix in
  if Nat.eqb (length o) (S (length p)) && oid_eqb (firstn (length p) o) p then
    match nth_error o (length p) with
    | Some k => if N.leb 1 k && N.leb k 16 then Some (N.to_nat k - 1) else None
    | None => None
    end
  else None.

Definition tcb_step (acc : tcb_acc) (c : node) : res tcb_acc :=
  match as_atv c with
  | None => perr
  | Some (o, v) =>
    match comp_index o with
    | Some i =>
      match v with
      | AInt z =>
        if Z.ltb z 0 || Z.ltb 255 z then perr
        else match nth_error (taComps acc) i with
             | Some (Some _) => perr                           (* duplicate component *)
             | _ => Ok {| taComps := set_nth i (Some (Z.to_N z)) (taComps acc); taPce := taPce acc; taCpu := taCpu acc |}
             end
      | _ => perr
      end
    | None =>
      if oid_eqb o pcs_oid_OidPCESvn then
        match v with
        | AInt z =>
          if Z.ltb z 0 || Z.ltb 65535 z then perr
          else match taPce acc with
               | Some _ => perr
               | None => Ok {| taComps := taComps acc; taPce := Some (Z.to_N z); taCpu := taCpu acc |}
               end
        | _ => perr
        end
      else if oid_eqb o pcs_oid_OidCPUSvn then
        match v with
        | ABytes b =>
          if negb (Nat.eqb (length b) pcs_cpuSvnSize_nat) then perr
          else match taCpu acc with
               | Some _ => perr
               | None => Ok {| taComps := taComps acc; taPce := taPce acc; taCpu := Some b |}
               end
        | _ => perr
        end
      else Ok acc                                              (* unknown component OID: ignored *)
    end
  end.

Fixpoint tcb_fold (acc : tcb_acc) (cs : list node) : res tcb_acc :=
  match cs with
  | [] => Ok acc
  | c :: rest => a <- tcb_step acc c ;; tcb_fold a rest
  end.

Fixpoint all_some {A} (l : list (option A)) : option (list A) :=
  match l with
  | [] => Some []
  | Some x :: r => match all_some r with Some r' => Some (x :: r') | None => None end
  | None :: _ => None
  end.

(* extractAsn1SequenceTcbExtension *)
Definition extract_tcb (elem : node) : res pck_tcb :=
  match as_seq elem with
  | Some [_; second] =>
    match as_seq second with
    | Some comps =>
      if negb (Nat.eqb (length comps) pcs_tcbExtensionSize_nat) then perr else
      acc <- tcb_fold tcb_acc0 comps ;;
      match all_some (taComps acc), taPce acc, taCpu acc with
      | Some cs, Some p, Some c => Ok {| tcPceSvn := p; tcCpuSvn := c; tcComps := cs |}
      | _, _, _ => perr                                         (* a component is missing *)
      end
    | None => perr
    end
  | _ => perr
  end.

Record sgx_acc := { saPpid : option bytes; saTcb : option pck_tcb; saPceId : option bytes; saFmspc : option bytes }.
Definition sgx_acc0 : sgx_acc := {| saPpid := None; saTcb := None; saPceId := None; saFmspc := None |}.

Definition sgx_step (acc : sgx_acc) (e : node) : res sgx_acc :=
  match as_atv e with
  | None => perr
  | Some (o, _) =>
    if oid_eqb o pcs_oid_OidPPID then
      match saPpid acc with Some _ => perr | None =>
        v <- octet_extension e pcs_ppidSize_nat ;;
        Ok {| saPpid := Some v; saTcb := saTcb acc; saPceId := saPceId acc; saFmspc := saFmspc acc |} end
    else if oid_eqb o pcs_oid_OidTCB then
      match saTcb acc with Some _ => perr | None =>
        t <- extract_tcb e ;;
        Ok {| saPpid := saPpid acc; saTcb := Some t; saPceId := saPceId acc; saFmspc := saFmspc acc |} end
    else if oid_eqb o pcs_oid_OidPCEID then
      match saPceId acc with Some _ => perr | None =>
        v <- octet_extension e pcs_pceIDSize_nat ;;
        Ok {| saPpid := saPpid acc; saTcb := saTcb acc; saPceId := Some v; saFmspc := saFmspc acc |} end
    else if oid_eqb o pcs_oid_OidFMSPC then
      match saFmspc acc with Some _ => perr | None =>
        v <- octet_extension e pcs_fmspcSize_nat ;;
        Ok {| saPpid := saPpid acc; saTcb := saTcb acc; saPceId := saPceId acc; saFmspc := Some v |} end
    else Ok acc
  end.

Fixpoint sgx_fold (acc : sgx_acc) (es : list node) : res sgx_acc :=
  match es with
  | [] => Ok acc
  | e :: rest => a <- sgx_step acc e ;; sgx_fold a rest
  end.

(* extractSgxExtensions *)
Definition extract_sgx (elems : list node) : res pck_values :=
  if Nat.ltb (length elems) pcs_sgxExtensionMinSize_nat then perr else
  acc <- sgx_fold sgx_acc0 elems ;;
  match saPpid acc, saTcb acc, saPceId acc, saFmspc acc with
  | Some p, Some t, Some i, Some f => Ok {| pvPpid := p; pvTcb := t; pvPceId := i; pvFmspc := f |}
  | _, _, _, _ => perr
  end.

Fixpoint find_ext (exts : list (list N * bytes)) (o : list N) : option bytes :=
  match exts with
  | [] => None
  | (id, v) :: rest => if oid_eqb id o then Some v else find_ext rest o
  end.

(* PckCertificateExtensions(cert) on cert.Extensions = [(Id, Value)] *)
Definition pck_extensions (exts : list (list N * bytes)) : res pck_values :=
  if negb (Nat.eqb (length exts) pcs_pckCertExtensionSize_nat) then perr else
  match find_ext exts pcs_oid_OidSgxExtension with
  | None => perr
  | Some v =>
    match decode v with
    | Some (n, rest) =>
      match as_seq n with
      | Some elems => if negb (Nat.eqb rest 0) then perr else extract_sgx elems
      | None => perr
      end
    | None => perr
    end
  end.
End Pck.
