(* Model of trust.RetryHTTPSGetter.Get (verify/trust/trust.go) with an explicit
   clock (nanoseconds).  The wrapped getter is a finite script of attempts, each
   taking some time and failing or succeeding; the select between the deadline
   and the retry timer is resolved by [tie] when both are ready. *)
From V Require Export Lib.Res.

Definition initial_delay : Z := 2000000000%Z.    (* 2 * time.Second; tied to the source by Proofs/Retry.v *)
Definition growth : Z := 2%Z.                    (* delay = delay + delay *)

Record attempt := { aDuration : Z; aResult : option bytes }.   (* Some = success with that response *)

Inductive retry_outcome :=
| Success (response : bytes)
| TimedOut
| ScriptExhausted.       (* every scripted attempt failed before the deadline: no verdict yet *)

Record trace := {
  trOutcome : retry_outcome;
  trCalls : nat;               (* calls made to the wrapped getter *)
  trWaits : list Z;            (* waits that ended because the retry timer fired *)
  trCut : option Z;            (* the final wait, ended by the deadline *)
  trEnd : Z                    (* time of return *)
}.

Definition next_delay (delay max : Z) : Z :=
  let d := (growth * delay)%Z in if Z.ltb max d then max else d.

(* one iteration: attempt, then the select *)
Fixpoint run (script : list attempt) (now deadline delay max : Z) (tie : nat -> bool) (n : nat) : trace :=
  match script with
  | [] => {| trOutcome := ScriptExhausted; trCalls := 0; trWaits := []; trCut := None; trEnd := now |}
  | a :: rest =>
    let t := (now + aDuration a)%Z in
    match aResult a with
    | Some r => {| trOutcome := Success r; trCalls := 1; trWaits := []; trCut := None; trEnd := t |}
    | None =>
      let d := next_delay delay max in
      let wake := (t + Z.max 0 d)%Z in
      (* ctx.Done is ready iff deadline <= time; the timer fires at wake *)
      let timeout_first := Z.ltb deadline wake || (Z.eqb deadline wake && tie n) || (Z.leb deadline t && negb (Z.leb d 0 && negb (tie n))) in
      if timeout_first then
        {| trOutcome := TimedOut; trCalls := 1; trWaits := []; trCut := Some (Z.max t deadline - t)%Z; trEnd := Z.max t deadline |}
      else
        let r := run rest wake deadline d max tie (S n) in
        {| trOutcome := trOutcome r; trCalls := S (trCalls r); trWaits := (wake - t)%Z :: trWaits r; trCut := trCut r; trEnd := trEnd r |}
    end
  end.

(* RetryHTTPSGetter{Timeout, MaxRetryDelay}.Get started at time [start] *)
Definition retry_get (script : list attempt) (start timeout max : Z) (tie : nat -> bool) : trace :=
  run script start (start + timeout)%Z initial_delay max tie 0.
