(* Model of validate/validate.go: TdxQuote (policy validation) and
   PolicyToOptions.  Sizes and masks are the regenerated constants. *)
From V Require Export Model.Abi.
From V Require Import Gen.AbiConsts Gen.ValidateConsts.

(* []byte options: None = nil *)
Definition ob (o : option bytes) : bytes := match o with Some b => b | None => [] end.

Record vopts := {
  oMinQeSvn : N; oMinPceSvn : N; oQeVendorId : option bytes;
  oMinTeeTcbSvn : option bytes; oMrSeam : option bytes; oTdAttr : option bytes; oXfam : option bytes;
  oMrTd : option bytes; oMrConfigId : option bytes; oMrOwner : option bytes; oMrOwnerConfig : option bytes;
  oRtmrs : list bytes; oReportData : option bytes; oAnyMrTd : list bytes }.

(* multierr.Combine(e1, ..., en): every argument is evaluated (a panic in any of
   them propagates), the result is nil iff all are nil *)
Fixpoint combine (l : list (res unit)) : res unit :=
  match l with
  | [] => Ok tt
  | r :: rest =>
    match r with
    | Panic => Panic
    | Ok _ => combine rest
    | Err c => match combine rest with Panic => Panic | _ => Err c end
    end
  end.

Definition perr : res unit := Err EPolicy.

(* byteCheck *)
Definition byte_check (size : nat) (given required : bytes) : res unit :=
  if Nat.eqb (length required) 0 then Ok tt
  else if negb (Nat.eqb (length required) size) then perr
  else if bytes_eqb required given then Ok tt else perr.

(* given[i] in Go *)
Definition gnth (i : nat) (l : list bytes) : res bytes :=
  match nth_error l i with Some x => Ok x | None => Panic end.

Fixpoint byte_check_rtmr_loop (size : nat) (i : nat) (given : list bytes) (required : list bytes) : res unit :=
  match required with
  | [] => Ok tt
  | bs :: rest =>
    g <- gnth i given ;;
    byte_check size g bs ;;
    byte_check_rtmr_loop size (S i) given rest
  end.

Definition byte_check_rtmr (size : nat) (given required : list bytes) : res unit :=
  if Nat.eqb (length required) 0 then Ok tt
  else if negb (Nat.eqb (length required) validate_rtmrsCount_nat) then perr
  else byte_check_rtmr_loop size 0 given required.

Fixpoint byte_check_any_loop (size : nat) (given : bytes) (allowed : list bytes) : res unit :=
  match allowed with
  | [] => perr
  | bs :: rest =>
    match byte_check size given bs with
    | Ok _ => Ok tt
    | Panic => Panic
    | Err _ => byte_check_any_loop size given rest
    end
  end.

Definition byte_check_any (size : nat) (given : bytes) (allowed : list bytes) : res unit :=
  if Nat.eqb (length allowed) 0 then Ok tt else byte_check_any_loop size given allowed.

Definition exact_byte_match (h : header) (b : tdbody) (o : vopts) : res unit :=
  combine [
    byte_check abi_MrSeamSize_nat (bMrSeam b) (ob (oMrSeam o));
    byte_check abi_TdAttributesSize_nat (bTdAttr b) (ob (oTdAttr o));
    byte_check abi_XfamSize_nat (bXfam b) (ob (oXfam o));
    byte_check abi_MrTdSize_nat (bMrTd b) (ob (oMrTd o));
    byte_check abi_MrConfigIDSize_nat (bMrConfigId b) (ob (oMrConfigId o));
    byte_check abi_MrOwnerSize_nat (bMrOwner b) (ob (oMrOwner o));
    byte_check abi_MrOwnerConfigSize_nat (bMrOwnerConfig b) (ob (oMrOwnerConfig o));
    byte_check_rtmr abi_RtmrSize_nat (bRtmrs b) (oRtmrs o);
    byte_check_any abi_MrTdSize_nat (bMrTd b) (oAnyMrTd o);
    byte_check abi_ReportDataSize_nat (bReportData b) (ob (oReportData o));
    byte_check abi_QeVendorIDSize_nat (hVendor h) (ob (oQeVendorId o)) ].

(* isSvnHigherOrEqual: for i := range quoteSvn { quoteSvn[i] < optionSvn[i] } *)
Fixpoint svn_ge_loop (q m : bytes) : res bool :=
  match q with
  | [] => Ok true
  | x :: q' =>
    match m with
    | [] => Panic                      (* optionSvn[i] out of range *)
    | y :: m' => if N.ltb (Byte.to_N x) (Byte.to_N y) then Ok false else svn_ge_loop q' m'
    end
  end.

Definition svn_ge (quote_svn : bytes) (option_svn : option bytes) : res bool :=
  if Nat.eqb (length (ob option_svn)) 0 then Ok true else svn_ge_loop quote_svn (ob option_svn).

(* binary.LittleEndian.Uint16(b): panics when len(b) < 2 *)
Definition uint16_le (b : bytes) : res N :=
  s <- gslice 0 2 b ;; Ok (le_decode s).
Definition uint64_le (b : bytes) : res N :=
  s <- gslice 0 8 b ;; Ok (le_decode s).

Definition min_version_check (h : header) (b : tdbody) (o : vopts) : res unit :=
  let m := ob (oMinTeeTcbSvn o) in
  if negb (Nat.eqb (length m) 0) && negb (Nat.eqb (length m) abi_TeeTcbSvnSize_nat) then perr else
  ge <- svn_ge (bTeeTcbSvn b) (oMinTeeTcbSvn o) ;;
  if negb ge then perr else
  qe <- uint16_le (hQeSvn h) ;;
  pce <- uint16_le (hPceSvn h) ;;
  if N.ltb qe (oMinQeSvn o) then perr else
  if N.ltb pce (oMinPceSvn o) then perr else Ok tt.

(* validateXfam / validateTdAttributes: v & fixed1 == fixed1, v & ^fixed0 == 0 *)
Definition validate_mask (size : nat) (value : bytes) (fixed1 fixed0 : N) : res unit :=
  if Nat.eqb (length value) 0 then Ok tt
  else if negb (Nat.eqb (length value) size) then perr
  else
    v <- uint64_le value ;;
    if negb (N.eqb (N.land v fixed1) fixed1) then perr
    else if negb (N.eqb (N.ldiff v fixed0) 0) then perr
    else Ok tt.

(* validate.TdxQuote on a *pb.QuoteV4 with non-nil options *)
Definition validate (q : option quote) (o : option vopts) : res unit :=
  match o with
  | None => Err EUsage
  | Some o =>
    match check_quote q with
    | Panic => Panic
    | Err _ => perr
    | Ok _ =>
      match q with
      | Some {| qHeader := Some h; qBody := Some b |} =>
        combine [ exact_byte_match h b o;
                  min_version_check h b o;
                  validate_mask abi_XfamSize_nat (bXfam b) validate_xfamFixed1 validate_xfamFixed0;
                  validate_mask abi_TdAttributesSize_nat (bTdAttr b) validate_tdAttributesFixed1 validate_tdAttributesFixed0 ]
      | _ => perr   (* unreachable after check_quote *)
      end
    end
  end.

(* ---- PolicyToOptions ---- *)
Record policy := {
  pMinQeSvn : N; pMinPceSvn : N; pQeVendorId : option bytes;
  pMinTeeTcbSvn : option bytes; pMrSeam : option bytes; pTdAttr : option bytes; pXfam : option bytes;
  pMrTd : option bytes; pMrConfigId : option bytes; pMrOwner : option bytes; pMrOwnerConfig : option bytes;
  pRtmrs : list bytes; pReportData : option bytes; pAnyMrTd : list bytes }.

Definition oerr : res unit := Err EOption.

Definition length_check (n : nat) (v : option bytes) : res unit :=
  match v with
  | Some b => if Nat.eqb (length b) n then Ok tt else oerr
  | None => Ok tt
  end.

Definition length_check_many (count : option nat) (n : nat) (l : list bytes) : res unit :=
  if Nat.eqb (length l) 0 then Ok tt
  else
    match count with
    | Some c => if Nat.eqb (length l) c then Ok tt else oerr
    | None => Ok tt
    end ;;
    if forallb (fun e => Nat.eqb (length e) 0 || Nat.eqb (length e) n) l then Ok tt else oerr.

Definition check_options_lengths (o : vopts) : res unit :=
  combine [
    length_check abi_MrSeamSize_nat (oMrSeam o);
    length_check abi_TdAttributesSize_nat (oTdAttr o);
    length_check abi_XfamSize_nat (oXfam o);
    length_check abi_MrTdSize_nat (oMrTd o);
    length_check abi_MrConfigIDSize_nat (oMrConfigId o);
    length_check abi_MrOwnerSize_nat (oMrOwner o);
    length_check abi_MrOwnerConfigSize_nat (oMrOwnerConfig o);
    length_check abi_ReportDataSize_nat (oReportData o);
    length_check abi_QeVendorIDSize_nat (oQeVendorId o);
    length_check abi_TeeTcbSvnSize_nat (oMinTeeTcbSvn o);
    length_check_many (Some validate_rtmrsCount_nat) abi_RtmrSize_nat (oRtmrs o);
    length_check_many None abi_MrTdSize_nat (oAnyMrTd o) ].

Definition policy_options (p : policy) : vopts :=
  {| oMinQeSvn := pMinQeSvn p mod 65536; oMinPceSvn := pMinPceSvn p mod 65536;
     oQeVendorId := pQeVendorId p; oMinTeeTcbSvn := pMinTeeTcbSvn p; oMrSeam := pMrSeam p;
     oTdAttr := pTdAttr p; oXfam := pXfam p; oMrTd := pMrTd p; oMrConfigId := pMrConfigId p;
     oMrOwner := pMrOwner p; oMrOwnerConfig := pMrOwnerConfig p; oRtmrs := pRtmrs p;
     oReportData := pReportData p; oAnyMrTd := pAnyMrTd p |}.

Definition policy_to_options (p : policy) : res vopts :=
  if N.ltb 65535 (pMinQeSvn p) then Err EOption else
  if N.ltb 65535 (pMinPceSvn p) then Err EOption else
  let o := policy_options p in
  check_options_lengths o ;; Ok o.
