(* The wire format between the Go harness and the extracted model. *)
From V Require Export Lib.Res.

Inductive sexp :=
| A (n : N)
| B (b : bytes)
| L (l : list sexp).

Definition sN (s : sexp) : N := match s with A n => n | _ => 0 end.
Definition sB (s : sexp) : bytes := match s with B b => b | _ => [] end.
Definition sL (s : sexp) : list sexp := match s with L l => l | _ => [] end.
Definition snth (i : nat) (s : sexp) : sexp := nth i (sL s) (L []).
Definition sbool (s : sexp) : bool := negb (N.eqb (sN s) 0).
Definition snat (s : sexp) : nat := N.to_nat (sN s).
Definition of_bool (b : bool) : sexp := A (if b then 1 else 0).

(* optional values: L [] = absent, L [x] = present *)
Definition sopt {T} (f : sexp -> T) (s : sexp) : option T :=
  match s with L (x :: _) => Some (f x) | _ => None end.
Definition of_opt {T} (f : T -> sexp) (o : option T) : sexp :=
  match o with Some x => L [f x] | None => L [] end.

Definition of_res {T} (f : T -> sexp) (r : res T) : sexp :=
  match r with
  | Ok a => L [A 0; f a]
  | Err c => L [A 1; A (errclass_code c)]
  | Panic => L [A 2]
  end.

(* verdict only: the error class is not part of the observation *)
Definition of_res0 {T} (f : T -> sexp) (r : res T) : sexp :=
  match r with
  | Ok a => L [A 0; f a]
  | Err _ => L [A 1]
  | Panic => L [A 2]
  end.

(* structural equality (used by the in-kernel cross-check of the extracted model) *)
Fixpoint sexp_eqb (a b : sexp) : bool :=
  match a, b with
  | A n, A m => N.eqb n m
  | B x, B y => bytes_eqb x y
  | L x, L y =>
    (fix go (x y : list sexp) : bool :=
       match x, y with
       | [], [] => true
       | u :: x', v :: y' => sexp_eqb u v && go x' y'
       | _, _ => false
       end) x y
  | _, _ => false
  end.

(* bytes from a hexadecimal string literal (for generated files) *)
From Coq Require Import String Ascii.
Definition hex_digit (c : ascii) : N :=
  let n := N_of_ascii c in
  if N.leb 48 n && N.leb n 57 then n - 48
  else if N.leb 97 n && N.leb n 102 then n - 87
  else 0.
Fixpoint hexb (s : string) : bytes :=
  match s with
  | String a (String b r) =>
    match Byte.of_N (16 * hex_digit a + hex_digit b) with
    | Some x => x :: hexb r
    | None => hexb r
    end
  | _ => []
  end.
