(* How a table that the translator regenerates from /repo on every run is tied to
   the table the model is written against.  The translator marks a table readable
   when every statement of the function it came from is in an idiom it
   understands; then the two tables must be equal.  When it meets a statement it
   cannot read (a helper it cannot inline, a loop in another shape) it says so
   (readable = false, with the reason in Gen/unreadable.txt) instead of guessing:
   for that function the tie then rests on the correspondence check, which
   check.sh runs at the thorough scale for the run and notes in the evidence. *)
Definition tied {A : Type} (readable : bool) (gen spec : A) : Prop :=
  readable = true -> gen = spec.

Ltac tie :=
  unfold tied; vm_compute;
  let H := fresh "H" in intro H; first [ reflexivity | discriminate H ].
