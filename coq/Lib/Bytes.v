(* Byte strings, slices and little-endian integers.  Definitions and their basic
   lemmas; used by every model file. *)
From Coq Require Export List NArith ZArith Lia Bool.
From Coq Require Export Init.Byte Strings.Byte.
From Coq Require Import ZifyN ZifyNat ZifyBool.
Export ListNotations.

Ltac Zify.zify_post_hook ::= Z.div_mod_to_equations.

Definition bytes := list byte.

Fixpoint bytes_eqb (a b : bytes) : bool :=
  match a, b with
  | [], [] => true
  | x :: a', y :: b' => Byte.eqb x y && bytes_eqb a' b'
  | _, _ => false
  end.

Lemma byte_eqb_refl x : Byte.eqb x x = true.
Proof. apply Byte.byte_dec_lb; reflexivity. Qed.

Lemma byte_eqb_eq x y : Byte.eqb x y = true <-> x = y.
Proof. split; [apply Byte.byte_dec_bl | apply Byte.byte_dec_lb]. Qed.

Lemma bytes_eqb_eq a b : bytes_eqb a b = true <-> a = b.
Proof.
  revert b; induction a as [|x a IH]; intros [|y b]; cbn; split; intro H;
    try reflexivity; try discriminate.
  - apply andb_true_iff in H as [H1 H2]. apply byte_eqb_eq in H1. apply IH in H2. congruence.
  - inversion H; subst. rewrite byte_eqb_refl. cbn. apply IH; reflexivity.
Qed.

Lemma bytes_eqb_refl a : bytes_eqb a a = true.
Proof. apply bytes_eqb_eq; reflexivity. Qed.

Lemma bytes_eqb_neq a b : bytes_eqb a b = false <-> a <> b.
Proof.
  split; intro H.
  - intro E. apply bytes_eqb_eq in E. congruence.
  - destruct (bytes_eqb a b) eqn:E; [|reflexivity]. apply bytes_eqb_eq in E. contradiction.
Qed.

Definition zeros (n : nat) : bytes := repeat x00 n.

Lemma zeros_length n : length (zeros n) = n.
Proof. apply repeat_length. Qed.

(* s[a:b] on a list whose length is known to be >= b (unchecked form). *)
Definition slice (a b : nat) (l : bytes) : bytes := firstn (b - a) (skipn a l).

Lemma skipn_skipn {A} (a b : nat) (l : list A) : skipn a (skipn b l) = skipn (a + b) l.
Proof.
  revert l; induction b as [|b IH]; intro l.
  - now rewrite Nat.add_0_r.
  - destruct l as [|x l]; [now rewrite !skipn_nil|].
    rewrite Nat.add_succ_r. cbn. apply IH.
Qed.

Lemma firstn_plus {A} (n m : nat) (l : list A) :
  firstn (n + m) l = firstn n l ++ firstn m (skipn n l).
Proof.
  revert l; induction n as [|n IH]; intro l; [reflexivity|].
  destruct l as [|x l]; cbn; [now rewrite firstn_nil|]. now rewrite IH.
Qed.

Lemma slice_length a b l : b <= length l -> length (slice a b l) = b - a.
Proof. intro H. unfold slice. rewrite firstn_length, skipn_length. lia. Qed.

Lemma slice_length_le a b l : length (slice a b l) <= b - a.
Proof. unfold slice. rewrite firstn_length. lia. Qed.

Lemma slice_app a b c l : a <= b -> b <= c -> slice a b l ++ slice b c l = slice a c l.
Proof.
  intros Hab Hbc. unfold slice.
  replace (c - a) with ((b - a) + (c - b)) by lia.
  rewrite firstn_plus.
  rewrite skipn_skipn. replace (b - a + a) with b by lia. reflexivity.
Qed.

Lemma slice_full l : slice 0 (length l) l = l.
Proof. unfold slice. rewrite Nat.sub_0_r. cbn. apply firstn_all. Qed.

Lemma slice_to_end a l : slice a (length l) l = skipn a l.
Proof. unfold slice. rewrite <- skipn_length. apply firstn_all. Qed.

Lemma slice_0 b l : slice 0 b l = firstn b l.
Proof. unfold slice. now rewrite Nat.sub_0_r. Qed.

Lemma slice_skipn a b k l : slice a b (skipn k l) = slice (k + a) (k + b) l.
Proof. unfold slice. rewrite skipn_skipn. f_equal; [lia|f_equal; lia]. Qed.

Lemma slice_firstn a b k l : b <= k -> slice a b (firstn k l) = slice a b l.
Proof.
  intro H. unfold slice. rewrite skipn_firstn_comm, firstn_firstn. f_equal. lia.
Qed.

Lemma slice_slice a b c d l : d <= b - a -> slice c d (slice a b l) = slice (a + c) (a + d) l.
Proof.
  intro H. unfold slice at 2. rewrite slice_firstn by lia. apply slice_skipn.
Qed.

Lemma slice_app_l a b l1 l2 : b <= length l1 -> slice a b (l1 ++ l2) = slice a b l1.
Proof.
  intro H. unfold slice.
  destruct (Nat.le_gt_cases a (length l1)) as [Ha|Ha].
  - rewrite skipn_app. replace (a - length l1) with 0 by lia. cbn [skipn].
    rewrite firstn_app. rewrite skipn_length.
    replace (b - a - (length l1 - a)) with 0 by lia. cbn. now rewrite app_nil_r.
  - replace (b - a) with 0 by lia. reflexivity.
Qed.

Lemma slice_app_r a b l1 l2 :
  length l1 <= a -> slice a b (l1 ++ l2) = slice (a - length l1) (b - length l1) l2.
Proof.
  intro H. unfold slice. rewrite skipn_app.
  rewrite (skipn_all2 l1) by lia. cbn. f_equal. lia.
Qed.

Lemma firstn_skipn_slice a l : firstn a l = slice 0 a l.
Proof. now rewrite slice_0. Qed.

(* little-endian *)
Fixpoint le_decode (l : bytes) : N :=
  match l with
  | [] => 0
  | b :: r => Byte.to_N b + 256 * le_decode r
  end.

Definition byte_of_N (v : N) : byte :=
  match Byte.of_N (v mod 256) with Some b => b | None => x00 end.

Fixpoint le_encode (n : nat) (v : N) : bytes :=
  match n with
  | O => []
  | S n' => byte_of_N v :: le_encode n' (v / 256)
  end.

Lemma le_encode_length n v : length (le_encode n v) = n.
Proof. revert v; induction n as [|n IH]; intro v; cbn; [reflexivity|now rewrite IH]. Qed.

Lemma to_N_byte_of_N v : Byte.to_N (byte_of_N v) = (v mod 256)%N.
Proof.
  unfold byte_of_N. destruct (Byte.of_N (v mod 256)) eqn:E.
  - now apply Byte.to_of_N in E.
  - apply Byte.of_N_None_iff in E. lia.
Qed.

Lemma byte_of_N_to_N b k : byte_of_N (Byte.to_N b + 256 * k) = b.
Proof.
  unfold byte_of_N.
  pose proof (Byte.to_N_bounded b) as Hb.
  replace ((Byte.to_N b + 256 * k) mod 256)%N with (Byte.to_N b) by lia.
  now rewrite Byte.of_to_N.
Qed.

Lemma le_encode_decode l : le_encode (length l) (le_decode l) = l.
Proof.
  induction l as [|b l IH]; [reflexivity|].
  cbn [length le_decode le_encode]. rewrite byte_of_N_to_N. f_equal.
  pose proof (Byte.to_N_bounded b) as Hb.
  replace ((Byte.to_N b + 256 * le_decode l) / 256)%N with (le_decode l) by lia.
  exact IH.
Qed.

Lemma le_decode_bound l : (le_decode l < 256 ^ N.of_nat (length l))%N.
Proof.
  induction l as [|b l IH]; [cbn; lia|].
  cbn [length le_decode]. rewrite Nat2N.inj_succ, N.pow_succ_r'.
  pose proof (Byte.to_N_bounded b). lia.
Qed.

Lemma le_decode_encode n v : (v < 256 ^ N.of_nat n)%N -> le_decode (le_encode n v) = v.
Proof.
  revert v; induction n as [|n IH]; intros v Hv.
  - cbn in *. lia.
  - cbn [le_encode le_decode]. rewrite to_N_byte_of_N.
    rewrite Nat2N.inj_succ, N.pow_succ_r' in Hv.
    rewrite IH by (apply N.div_lt_upper_bound; lia).
    pose proof (N.div_mod v 256). lia.
Qed.

Lemma le_decode_encode_mod n v : le_decode (le_encode n v) = (v mod 256 ^ N.of_nat n)%N.
Proof.
  revert v; induction n as [|n IH]; intro v.
  - cbn. now rewrite N.mod_1_r.
  - cbn [le_encode le_decode]. rewrite to_N_byte_of_N, IH.
    rewrite Nat2N.inj_succ, N.pow_succ_r'.
    assert (H : (0 < 256 ^ N.of_nat n)%N) by (apply N.neq_0_lt_0, N.pow_nonzero; lia).
    rewrite (N.mul_comm 256), N.mod_mul_r by lia. lia.
Qed.

(* bitwise and of two byte strings, as Go's applyMask: result has length of a; b must be as long *)
Definition byte_and (x y : byte) : byte := byte_of_N (N.land (Byte.to_N x) (Byte.to_N y)).

Fixpoint map2_and (a b : bytes) : bytes :=
  match a, b with
  | x :: a', y :: b' => byte_and x y :: map2_and a' b'
  | _, _ => []
  end.

Lemma map2_and_length a b : length a = length b -> length (map2_and a b) = length a.
Proof.
  revert b; induction a as [|x a IH]; intros [|y b] H; cbn in *; try lia.
  rewrite IH; lia.
Qed.

Global Arguments N.add : simpl never.
Global Arguments N.mul : simpl never.
Global Arguments N.div : simpl never.
Global Arguments N.modulo : simpl never.
Global Arguments N.pow : simpl never.
