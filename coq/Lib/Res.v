(* Three-way results: a Go call returns a value, returns an error (projected to a
   small class), or panics. *)
From V Require Export Lib.Bytes.

Inductive errclass :=
| EParse        (* malformed quote bytes / message sizes *)
| EUsage        (* nil options, unsupported type, option conflicts *)
| EChain        (* PCK chain extraction / certificate validation *)
| ETrust        (* path to trusted roots *)
| ESigQuote     (* quote signature / attestation key *)
| ESigQe        (* QE report signature *)
| EHashBind     (* QE report data binding *)
| EFetch        (* collateral / CRL could not be fetched or interpreted *)
| ECollAuth     (* collateral authenticity *)
| ECollContent  (* id / version / levels / presence *)
| ETcb          (* TD body vs TCB info *)
| EQe           (* QE report vs QE identity *)
| ERevoked      (* revocation *)
| EExpired      (* expiry *)
| EPolicy       (* policy validation mismatch *)
| EOption       (* malformed option *)
| EDevice       (* device / provider failure *)
| EPckExt       (* PCK extension *)
| EReplay       (* event log replay does not reproduce a register *)
| EOther.

Definition errclass_code (c : errclass) : N :=
  match c with
  | EParse => 1 | EUsage => 2 | EChain => 3 | ETrust => 4 | ESigQuote => 5
  | ESigQe => 6 | EHashBind => 7 | EFetch => 8 | ECollAuth => 9 | ECollContent => 10
  | ETcb => 11 | EQe => 12 | ERevoked => 13 | EExpired => 14 | EPolicy => 15
  | EOption => 16 | EDevice => 17 | EPckExt => 18 | EOther => 19 | EReplay => 20
  end%N.

Inductive res (A : Type) :=
| Ok (a : A)
| Err (c : errclass)
| Panic.
Arguments Ok {A} a.
Arguments Err {A} c.
Arguments Panic {A}.

Definition bind {A B} (m : res A) (k : A -> res B) : res B :=
  match m with
  | Ok a => k a
  | Err c => Err c
  | Panic => Panic
  end.

Declare Scope res_scope.
Delimit Scope res_scope with res.
Notation "x <- m ;; k" := (bind m (fun x => k))
  (at level 61, m at next level, right associativity) : res_scope.
Notation "' pat <- m ;; k" := (bind m (fun x => match x with pat => k end))
  (at level 61, pat pattern, m at next level, right associativity) : res_scope.
Notation "m ;; k" := (bind m (fun _ => k))
  (at level 61, right associativity) : res_scope.
(* guard: continue when b holds, else fail with class c *)
Definition guard (b : bool) (c : errclass) : res unit := if b then Ok tt else Err c.
Notation "'check' b 'else' c ;; k" := (bind (guard b c) (fun _ => k))
  (at level 61, b at next level, c at next level, right associativity) : res_scope.
Open Scope res_scope.

Definition is_ok {A} (r : res A) : bool := match r with Ok _ => true | _ => false end.
Definition is_panic {A} (r : res A) : bool := match r with Panic => true | _ => false end.

(* re-class any error (Go: wrapping) *)
Definition reclass {A} (c : errclass) (r : res A) : res A :=
  match r with Err _ => Err c | x => x end.

(* Checked Go slice expression s[a:b] with len = cap (after clone): panics
   exactly when a > b or b > len. *)
Definition gslice (a b : nat) (l : bytes) : res bytes :=
  if (a <=? b) && (b <=? length l) then Ok (slice a b l) else Panic.

Definition gslice_from (a : nat) (l : bytes) : res bytes := gslice a (length l) l.

Lemma bind_ok {A B} (m : res A) (k : A -> res B) b :
  bind m k = Ok b <-> exists a, m = Ok a /\ k a = Ok b.
Proof.
  destruct m; cbn; split; intro H; try discriminate.
  - eauto.
  - destruct H as (? & E & ?). inversion E; subst; assumption.
  - destruct H as (? & E & ?). discriminate.
  - destruct H as (? & E & ?). discriminate.
Qed.

Lemma guard_ok b c : guard b c = Ok tt <-> b = true.
Proof. destruct b; cbn; split; congruence. Qed.

Lemma bind_guard_ok {B} b c (k : unit -> res B) r :
  bind (guard b c) k = Ok r <-> b = true /\ k tt = Ok r.
Proof.
  destruct b; cbn; split; intro H; try tauto; try discriminate.
  destruct H; discriminate.
Qed.

Lemma bind_nopanic {A B} (m : res A) (k : A -> res B) :
  m <> Panic -> (forall a, m = Ok a -> k a <> Panic) -> bind m k <> Panic.
Proof. destruct m; cbn; intros H1 H2; try congruence. now apply H2. Qed.

Lemma guard_nopanic b c : guard b c <> Panic.
Proof. destruct b; cbn; congruence. Qed.

Lemma gslice_ok a b l : a <= b -> b <= length l -> gslice a b l = Ok (slice a b l).
Proof.
  intros H1 H2. unfold gslice.
  apply Nat.leb_le in H1, H2. now rewrite H1, H2.
Qed.

Lemma gslice_inv a b l r : gslice a b l = Ok r -> a <= b /\ b <= length l /\ r = slice a b l.
Proof.
  unfold gslice. destruct (a <=? b) eqn:E1, (b <=? length l) eqn:E2; cbn; intro H; try discriminate.
  apply Nat.leb_le in E1, E2. inversion H. auto.
Qed.
