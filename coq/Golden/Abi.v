(* Non-vacuity: a concrete 1246-byte input is accepted by the model parser, and
   the premises of the C09 theorems are met by it (evaluated in the kernel). *)
From V Require Import Model.AbiSpec Proofs.Abi.

Definition sample_header : bytes :=
  [x04; x00; x02; x00; x81; x00; x00; x00] ++ repeat x11 40.
Definition sample_raw : bytes :=
  sample_header ++ repeat x22 584 ++ le_encode 4 604 ++
  repeat x33 64 ++ repeat x44 64 ++ le_encode 2 6 ++ le_encode 4 470 ++
  repeat x55 384 ++ repeat x66 64 ++ le_encode 2 4 ++ repeat x77 4 ++
  le_encode 2 5 ++ le_encode 4 10 ++ repeat x78 10 ++ [x99; x98].

Example sample_parses : is_ok (parse sample_raw) = true.
Proof. vm_compute. reflexivity. Qed.

Example sample_roundtrip :
  match parse sample_raw with
  | Ok q => match serialize (Some q) with Ok b => bytes_eqb b sample_raw | _ => false end
  | _ => false
  end = true.
Proof. vm_compute. reflexivity. Qed.

Example sample_fields :
  match parse sample_raw with
  | Ok q => qExtra q = [x99; x98] /\ qSignedDataSize q = 604%N
  | _ => False
  end.
Proof. vm_compute. split; reflexivity. Qed.

(* a truncated input is rejected, not a crash *)
Example sample_truncated : parse (firstn 1100 sample_raw) = Err EParse.
Proof. vm_compute. reflexivity. Qed.
