(* Closed, kernel-evaluated examples showing that the hypotheses of the property
   theorems are met by concrete non-trivial states of the models (non-vacuity).
   The flow theorems (C01-C07, C11, C12) are exercised on concrete worlds by the
   correspondence runs; here are the models that need no forged world. *)
From V Require Import Lib.Bytes Lib.Res Model.Abi Model.AbiSpec Model.Validate Model.Rtmr Model.Retry
  Model.Ccel Model.CheckTool Model.RootOfTrust Model.Verify Golden.Abi.

(* a hash stand-in with a 48-byte result (the theorems hold for any function) *)
Definition toy384 (b : bytes) : bytes := firstn 48 (rev b ++ zeros 48).

(* ---- C17: a history with a rejected request between two accepted ones ---- *)
Definition d1 : bytes := repeat x01 48.
Definition d2 : bytes := repeat x02 48.
Definition hist : list request :=
  [RDigest 2 d1; RDigest 4 d1; RDigest 2 (repeat x03 47); REventLog 2 true [x07; x08]; RDigest 0 d2].

Example c17_history_registers :
  register (run_history toy384 [] hist) 2 = Some (extend_chain toy384 zero48 [d1; toy384 [x07; x08]]) /\
  register (run_history toy384 [] hist) 0 = Some (extend_chain toy384 zero48 [d2]) /\
  register (run_history toy384 [] hist) 3 = None.
Proof. vm_compute. repeat split. Qed.

Example c17_rejected_writes_nothing :
  run_request toy384 [] (RDigest 4 d1) = ([], [], true) /\
  run_request toy384 [] (REventLog 1 false [x01]) = ([], [], true) /\
  run_request toy384 [] (REventLog 1 true []) = ([], [], true).
Proof. vm_compute. repeat split. Qed.

(* ---- C20: two failures, then a success; and a getter that never succeeds ---- *)
Definition ms (n : Z) : Z := (n * 1000000)%Z.
Definition script3 : list attempt :=
  [{| aDuration := ms 5; aResult := None |}; {| aDuration := ms 5; aResult := None |};
   {| aDuration := ms 5; aResult := Some [x2a] |}; {| aDuration := ms 5; aResult := Some [x2b] |}].

Example c20_first_success :
  let t := retry_get script3 0 (ms 1000) (ms 100) (fun _ => false) in
  trOutcome t = Success [x2a] /\ trCalls t = 3 /\ trWaits t = [ms 100; ms 100].
Proof. vm_compute. repeat split. Qed.

Example c20_gives_up :
  let t := retry_get (repeat {| aDuration := ms 5; aResult := None |} 50) 0 (ms 300) (ms 100) (fun _ => false) in
  trOutcome t = TimedOut /\ trCalls t = 3 /\ (trEnd t <= ms 300 + ms 100)%Z.
Proof. vm_compute. repeat split; discriminate. Qed.

(* ---- C08 / C14: the parsed sample under a policy built from its own fields ---- *)
Definition sample_quote : option quote := match parse sample_raw with Ok q => Some q | _ => None end.
Definition sample_body : tdbody :=
  match sample_quote with Some {| qBody := Some b |} => b | _ =>
    {| bTeeTcbSvn := []; bMrSeam := []; bMrSignerSeam := []; bSeamAttr := []; bTdAttr := []; bXfam := []; bMrTd := [];
       bMrConfigId := []; bMrOwner := []; bMrOwnerConfig := []; bRtmrs := []; bReportData := [] |} end.

Definition matching_policy : policy :=
  {| pMinQeSvn := 0; pMinPceSvn := 0; pQeVendorId := None; pMinTeeTcbSvn := Some (zeros 16);
     pMrSeam := Some (bMrSeam sample_body); pTdAttr := None; pXfam := None; pMrTd := Some (bMrTd sample_body);
     pMrConfigId := None; pMrOwner := None; pMrOwnerConfig := None; pRtmrs := bRtmrs sample_body;
     pReportData := Some (bReportData sample_body); pAnyMrTd := [zeros 48; bMrTd sample_body] |}.

Example c14_policy_converts : is_ok (policy_to_options matching_policy) = true.
Proof. vm_compute. reflexivity. Qed.

(* the sample's XFAM / TD_ATTRIBUTES bytes (0x22...) violate the fixed-bit masks, so validation
   reports a mismatch: the error branch of C08 is reachable on a structurally valid quote *)
Example c08_validates_or_reports :
  match policy_to_options matching_policy with
  | Ok o => validate sample_quote (Some o) = Err EPolicy
  | _ => False
  end.
Proof. vm_compute. reflexivity. Qed.

Example c14_malformed_policy_rejected :
  policy_to_options {| pMinQeSvn := 65536; pMinPceSvn := 0; pQeVendorId := None; pMinTeeTcbSvn := None; pMrSeam := None;
                       pTdAttr := None; pXfam := None; pMrTd := None; pMrConfigId := None; pMrOwner := None;
                       pMrOwnerConfig := None; pRtmrs := []; pReportData := None; pAnyMrTd := [] |} = Err EOption.
Proof. vm_compute. reflexivity. Qed.

(* ---- C18: the replay comparison on a small event list ---- *)
Definition evs : list event :=
  [{| evIdx := 1; evNoAction := false; evDigest := Some d1 |};
   {| evIdx := 3; evNoAction := true; evDigest := Some d2 |};
   {| evIdx := 1; evNoAction := false; evDigest := Some d2 |};
   {| evIdx := 4; evNoAction := false; evDigest := Some d1 |}].

Example c18_replay :
  replay_all toy384 evs [(0, extend_chain toy384 zero48 [d1; d2]); (1, d1); (2, d2); (3, extend_chain toy384 zero48 [d1])] = true /\
  replay_all toy384 evs [(0, extend_chain toy384 zero48 [d1; d2]); (1, d1); (2, d2); (3, zero48)] = false /\
  replay_all toy384 evs [(0, extend_chain toy384 zero48 [d2; d1]); (1, d1); (2, d2); (3, extend_chain toy384 zero48 [d1])] = false.
Proof. vm_compute. repeat split. Qed.

(* ---- C19: usage errors and the flag-over-config merge on concrete inputs ---- *)
Definition no_flags : flags :=
  {| fSyntax := true; fCheckCrl := FUnset; fGetCollateral := FUnset; fMinQeSvn := FUnset; fMinPceSvn := FUnset;
     fBytes := fun _ => FUnset; fRtmrs := FUnset; fRoots := FUnset |}.
Definition cfg_with_mrtd (v : bytes) : cfgfile :=
  CfGood {| cfRot := None;
            cfPolicy := Some {| cpHeader := None;
                                cpBody := Some {| cbBytes := fun f => match f with BMrTd => Some v | _ => None end;
                                                  cbRtmrs := []; cbAnyMrTd := [] |} |} |}.
Definition flags_mrtd (v : bytes) : flags :=
  {| fSyntax := true; fCheckCrl := FUnset; fGetCollateral := FUnset; fMinQeSvn := FGood 7%N; fMinPceSvn := FUnset;
     fBytes := fun f => match f with BMrTd => FGood v | _ => FUnset end; fRtmrs := FUnset; fRoots := FUnset |}.

Example c19_flag_wins :
  match effective (flags_mrtd d1) (cfg_with_mrtd d2) with
  | Ok (_, p) => epBytes p BMrTd = Some d1 /\ epMinQeSvn p = 7%N /\ epBytes p BMrSeam = None
  | _ => False
  end.
Proof. vm_compute. repeat split. Qed.

Example c19_unset_keeps :
  match effective no_flags (cfg_with_mrtd d2) with
  | Ok (r, p) => epBytes p BMrTd = Some d2 /\ rotCheckCrl r = false
  | _ => False
  end.
Proof. vm_compute. repeat split. Qed.

Example c19_usage_exit_1 :
  forall w, fst (run_tool {| fSyntax := true; fCheckCrl := FGood true; fGetCollateral := FUnset; fMinQeSvn := FUnset;
                            fMinPceSvn := FUnset; fBytes := fun _ => FUnset; fRtmrs := FUnset; fRoots := FUnset |}
                          CfAbsent (InRaw sample_raw) w 0) = E1.
Proof. intro w. vm_compute. reflexivity. Qed.
