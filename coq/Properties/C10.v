(* C10 — No entry point crashes on untrusted quotes, quote messages or collateral. *)
From V Require Import Model.Verify Model.Validate Proofs.Abi Proofs.Validate Proofs.VerifyNoPanic.

Theorem C10_parse : forall raw, parse raw <> Panic.
Proof. exact parse_np. Qed.
Print Assumptions C10_parse.
Theorem C10_serialize : forall q, serialize q <> Panic.
Proof. exact serialize_np. Qed.
Print Assumptions C10_serialize.
Theorem C10_check : forall q, check_quote q <> Panic.
Proof. exact check_quote_np. Qed.
Print Assumptions C10_check.
Theorem C10_ser_header : forall h, ser_header h <> Panic.
Proof. exact ser_header_np. Qed.
Theorem C10_ser_body : forall b, ser_body b <> Panic.
Proof. exact ser_body_np. Qed.
Theorem C10_ser_report : forall r, ser_report r <> Panic.
Proof. exact ser_report_np. Qed.

(* verification: every world (any chain bytes, any collateral / CRL / header
   responses, any oracle answers), every message (nil, nil sub-messages, fields
   of any length), every option set *)
Theorem C10_verify : forall w q o wall, fst (verify w q o wall) <> Panic.
Proof. exact verify_np. Qed.
Print Assumptions C10_verify.
Theorem C10_verify_raw : forall w raw o wall, fst (verify_raw w raw o wall) <> Panic.
Proof. exact verify_raw_np. Qed.
Print Assumptions C10_verify_raw.
Theorem C10_extract_chain : forall w q, extract_chain w q <> Panic.
Proof. exact extract_chain_np. Qed.
Print Assumptions C10_extract_chain.

Theorem C10_validate : forall q o, validate q o <> Panic.
Proof. exact validate_total. Qed.
Print Assumptions C10_validate.
Theorem C10_policy : forall p, policy_to_options p <> Panic.
Proof. exact policy_to_options_np. Qed.
Print Assumptions C10_policy.
(* termination: every function above is structurally recursive (accepted by the
   guard checker); no fuel is used. pcs.PckCertificateExtensions: Properties/C13.v. *)
