(* C05 — Revoked or unverifiable certificates are never accepted when revocation is on. *)
From V Require Import Model.Verify Proofs.Verify Proofs.VerifyComplete.

(* With revocation checking on, an accepted quote implies collateral fetching was
   on, a Root CA CRL authenticated by (name + signature of) the chain's root and
   a PCK CRL authenticated by the chain's intermediate were obtained, the PCK
   CRL's issuer is the leaf's issuer, the leaf's serial is absent from the PCK
   CRL, and the serials of the intermediate and of the TCB-Info and QE-Identity
   signing certificates are absent from the Root CA CRL (which is also
   authenticated by the root of each issuer chain). *)
Theorem C05_sound : forall w q o wall,
  fst (verify w q (Some o) wall) = Ok tt -> optCheckRevocations o = true ->
  optGetCollateral o = true /\
  exists qq ch c rc pc,
    q = Some qq /\ extract_chain w qq = Ok ch /\
    colRootCrl c = Some rc /\ colPckCrl c = Some pc /\
    crl_authentic rc (chRoot ch) /\ crl_authentic pc (chInter ch) /\
    rlIssuer pc = cIssuer (chLeaf ch) /\
    ~ In (cSerial (chLeaf ch)) (rlRevoked pc) /\
    ~ In (cSerial (chInter ch)) (rlRevoked rc) /\
    crl_authentic rc (colTcbRoot c) /\ ~ In (cSerial (colTcbSigner c)) (rlRevoked rc) /\
    crl_authentic rc (colQeRoot c) /\ ~ In (cSerial (colQeSigner c)) (rlRevoked rc).
Proof.
  intros w q o wall H Hr.
  apply accept_facts in H as (qq & ch & ext & col & Hq & _ & Hch & _ & Hcf & _ & _ & Hc).
  destruct (cf_revocation _ _ _ _ _ _ Hcf Hr) as (Hg & c & rc & pc & Hcol & Hrc & Hpc & A1 & A2 & Hi & N1 & N2).
  split; [exact Hg|].
  destruct (Hc Hg) as (c' & ca & Hc' & _ & _ & _ & _ & T & Q & _). rewrite Hcol in Hc'. inversion Hc'; subst c'.
  destruct (rf_revocation _ _ _ _ _ _ _ _ _ (tf_response _ _ _ _ _ T) Hr) as (_ & rc1 & E1 & B1 & M1).
  destruct (rf_revocation _ _ _ _ _ _ _ _ _ (qf_response _ _ _ _ _ Q) Hr) as (_ & rc2 & E2 & B2 & M2).
  rewrite Hrc in E1, E2. inversion E1; subst rc1. inversion E2; subst rc2.
  exists qq, ch, c, rc, pc. auto 15.
Qed.
Print Assumptions C05_sound.

(* Asking for revocation checks without collateral fetching always fails. *)
Theorem C05_conflict : forall w q o wall,
  optCheckRevocations o = true -> optGetCollateral o = false ->
  fst (verify w q (Some o) wall) <> Ok tt.
Proof. exact revocation_needs_collateral. Qed.
Print Assumptions C05_conflict.

(* The converse reading: whenever revocation checking is on and the CRLs that
   the endpoints deliver list the PCK leaf (PCK CRL) or the intermediate, the
   TCB-Info signer or the QE-Identity signer (Root CA CRL), the quote is refused --
   whatever else is true of it. *)
Theorem C05_listed_rejected : forall w qq o wall ch ext ca c,
  extract_chain w qq = Ok ch -> cPckExt (chLeaf ch) = Some ext -> extract_ca (chLeaf ch) = Ok ca ->
  fst (obtain_collateral w (eFmspc ext) ca o) = Ok c -> optCheckRevocations o = true ->
  ((exists pc, colPckCrl c = Some pc /\ In (cSerial (chLeaf ch)) (rlRevoked pc)) \/
   (exists rc, colRootCrl c = Some rc /\
      (In (cSerial (chInter ch)) (rlRevoked rc) \/ In (cSerial (colTcbSigner c)) (rlRevoked rc) \/
       In (cSerial (colQeSigner c)) (rlRevoked rc)))) ->
  fst (verify w (Some qq) (Some o) wall) <> Ok tt.
Proof. exact listed_rejected. Qed.
Print Assumptions C05_listed_rejected.
