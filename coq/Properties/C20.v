(* C20 — The retrying fetcher returns the first success intact; gives up in bounded time. *)
From V Require Import Model.Retry Proofs.Retry.

(* The result is the wrapped getter's first successful response, unmodified, and
   exactly index+1 calls were made (no further attempt after it). *)
Theorem C20_first_success : forall script now deadline delay max tie n r tr,
  run script now deadline delay max tie n = tr -> trOutcome tr = Success r ->
  exists k, first_success script = Some (k, r) /\ trCalls tr = S k.
Proof. exact success_is_first. Qed.
Print Assumptions C20_first_success.

Theorem C20_calls_bounded : forall script now deadline delay max tie n,
  trCalls (run script now deadline delay max tie n) <= length script.
Proof. exact calls_bounded. Qed.
Print Assumptions C20_calls_bounded.

(* Between failed attempts it waits, never longer than max(0, MaxRetryDelay) per wait. *)
Theorem C20_wait_bounds : forall script now deadline delay max tie n,
  let tr := run script now deadline delay max tie n in
  Forall (fun w => 0 <= w <= Z.max 0 max)%Z (trWaits tr) /\
  (forall w, trCut tr = Some w -> 0 <= w <= Z.max 0 max)%Z.
Proof. exact waits_bounded. Qed.
Print Assumptions C20_wait_bounds.

(* ... and, for a positive MaxRetryDelay, never in a busy loop: every completed wait is positive.
   (For MaxRetryDelay <= 0 this fails - C20_busy_refuted, a recorded finding.) *)
Theorem C20_no_busy_loop : forall script now deadline delay max tie n,
  (0 < max)%Z -> (0 < delay)%Z ->
  Forall (fun w => 0 < w)%Z (trWaits (run script now deadline delay max tie n)).
Proof. exact waits_positive. Qed.
Print Assumptions C20_no_busy_loop.

(* When the wrapped getter keeps failing it returns no later than the deadline
   plus the duration of the attempt in progress (which started before the deadline). *)
Theorem C20_gives_up : forall script now deadline delay max tie n gmax,
  (now <= deadline)%Z ->
  Forall (fun a => 0 <= aDuration a <= gmax)%Z script ->
  let tr := run script now deadline delay max tie n in
  trOutcome tr = TimedOut -> (trEnd tr <= deadline + gmax)%Z.
Proof. exact gives_up_bounded. Qed.
Print Assumptions C20_gives_up.

Theorem C20_busy_refuted :
  exists script start timeout max tie,
    (max <= 0)%Z /\ (0 < timeout)%Z /\
    trWaits (retry_get script start timeout max tie) = [0; 0; 0]%Z /\
    trCalls (retry_get script start timeout max tie) = 4.
Proof. exact busy_loop_refuted. Qed.
Print Assumptions C20_busy_refuted.

Example C20_nonvacuous :
  let s := [ {| aDuration := 5; aResult := None |}; {| aDuration := 5; aResult := None |};
             {| aDuration := 5; aResult := Some [x2a] |} ] in
  let tr := retry_get s 0 10000000000 3000000000 (fun _ => false) in
  trOutcome tr = Success [x2a] /\ trCalls tr = 3 /\ trWaits tr = [3000000000; 3000000000]%Z.
Proof. vm_compute. repeat split. Qed.
