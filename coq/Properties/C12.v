(* C12 — Options gate the checks exactly; more checking never accepts more. *)
From V Require Import Model.Verify Model.Strs Proofs.Verify.

(* A quote accepted with collateral and revocation checking is accepted with
   collateral checking alone (same world, same fetched data). *)
Theorem C12_monotone_crl : forall w q o wall,
  optGetCollateral o = true ->
  fst (verify w q (Some o) wall) = Ok tt ->
  fst (verify w q (Some (drop_crl o)) wall) = Ok tt.
Proof. exact mono_crl. Qed.
Print Assumptions C12_monotone_crl.

(* A quote accepted with collateral checking is accepted with signature and chain checking alone. *)
Theorem C12_monotone_collateral : forall w q o wall,
  optGetCollateral o = true -> optCheckRevocations o = false ->
  fst (verify w q (Some o) wall) = Ok tt ->
  fst (verify w q (Some (drop_collateral o)) wall) = Ok tt.
Proof. exact mono_collateral. Qed.
Print Assumptions C12_monotone_collateral.

(* With collateral checking off nothing is fetched. *)
Theorem C12_no_fetch : forall w q o wall,
  optGetCollateral o = false -> snd (verify w q (Some o) wall) = [].
Proof. exact no_collateral_no_fetch. Qed.
Print Assumptions C12_no_fetch.

(* Every URL requested is the TCB-Info URL naming the FMSPC of the quote's PCK
   certificate, the QE-identity URL, or - only with revocation checking - the
   PCK-CRL URL naming the CA that issued the leaf or a CRL distribution point of
   the QE-identity issuer root. *)
Theorem C12_urls : forall w q o wall u,
  In u (snd (verify w q (Some o) wall)) ->
  exists qq ch ext ca, q = Some qq /\ extract_chain w qq = Ok ch /\ cPckExt (chLeaf ch) = Some ext /\
    extract_ca (chLeaf ch) = Ok ca /\ optGetCollateral o = true /\
    (u = tcb_info_url (eFmspc ext) \/ u = qe_identity_url \/
     (optCheckRevocations o = true /\
      (u = pck_crl_url ca \/ exists x, fst (get_qe_identity w) = Ok x /\ In u (cCrlDP (snd x))))).
Proof.
  intros w q o wall u H. apply verify_urls in H as (qq & ch & ext & ca & Hq & Hch & Hext & Hca & Hg & Hu).
  apply obtain_collateral_urls in Hu. exists qq, ch, ext, ca. auto 10.
Qed.
Print Assumptions C12_urls.

Theorem C12_ca_named : forall leaf ca, extract_ca leaf = Ok ca ->
  (cIssuerCN leaf = s_platformIssuer /\ ca = s_platformIssuerID) \/
  (cIssuerCN leaf = s_processorIssuer /\ ca = s_processorIssuerID).
Proof. exact extract_ca_spec. Qed.
Print Assumptions C12_ca_named.

Theorem C12_url_shapes : forall fmspc ca,
  tcb_info_url fmspc = s_TdxBaseURL ++ s_tcb_path ++ fmspc /\
  pck_crl_url ca = s_SgxBaseURL ++ s_crl_path ++ ca ++ s_crl_suffix.
Proof. intros; split; reflexivity. Qed.

(* The verdict depends only on the quote, the option settings and the fetched
   data: a session that threads an options value through earlier verifications
   (the unexported chain / collateral / extension fields are overwritten before
   use; the time set is never written) gives the verdict of a fresh one. *)
Record session := { sChain : option chain; sCollateral : option collateral; sExt : option pckext }.
Definition fresh_session : session := {| sChain := None; sCollateral := None; sExt := None |}.
Definition step (w : world) (s : session) (q : option quote) (o : options) (wall : Z)
  : session * fetching unit :=
  (* what tdxQuoteV4 leaves in the options: the last chain / collateral / extensions it computed *)
  (match q with
   | Some qq => match extract_chain w qq with
                | Ok ch => {| sChain := Some ch; sCollateral := sCollateral s; sExt := cPckExt (chLeaf ch) |}
                | _ => s end
   | None => s end,
   verify w q (Some o) wall).
Theorem C12_history : forall w (hist : list (option quote * options * Z)) q o wall,
  let s := fold_left (fun s x => fst (step w s (fst (fst x)) (snd (fst x)) (snd x))) hist fresh_session in
  snd (step w s q o wall) = snd (step w fresh_session q o wall).
Proof. reflexivity. Qed.
Print Assumptions C12_history.
