(* C09 — Parsing and serialising quotes are exact inverses on the v4 wire format. *)
From V Require Import Lib.Tie Model.AbiSpec Proofs.Abi Proofs.AbiLayout Proofs.AbiTables Gen.AbiTables Golden.Abi.
From Coq Require Import String.

(* For every byte string the parser accepts, serialising the parsed quote
   reproduces the input byte for byte. *)
Theorem C09_parse_ser : forall raw q, parse raw = Ok q -> serialize (Some q) = Ok raw.
Proof. exact parse_ser. Qed.
Print Assumptions C09_parse_ser.

(* ... so the header and body that verification re-serialises are exactly
   bytes 0..631 of the input. *)
Theorem C09_signed_prefix : forall raw q, parse raw = Ok q ->
  ser_header (qHeader q) = Ok (slice 0 48 raw) /\ ser_body (qBody q) = Ok (slice 48 632 raw).
Proof. exact parse_signed_prefix. Qed.
Print Assumptions C09_signed_prefix.

(* Every well-formed message (CheckQuoteV4 holds via serialisation succeeding,
   the uint32 fields are in range, and the two outer size fields equal the
   actual lengths) survives serialise-then-parse unchanged. *)
Theorem C09_ser_parse : forall q raw, wf_quote q -> serialize (Some q) = Ok raw -> parse raw = Ok q.
Proof. exact ser_parse. Qed.
Print Assumptions C09_ser_parse.

(* The parser accepts exactly the serialisations of well-formed messages. *)
Theorem C09_accepts_exactly : forall raw q,
  parse raw = Ok q <-> wf_quote q /\ serialize (Some q) = Ok raw.
Proof. exact parse_accepts_exactly. Qed.
Print Assumptions C09_accepts_exactly.

(* Every field of the result is the little-endian slice of the input at the
   offset Intel's layout gives (literal offsets, written independently of abi.go). *)
Theorem C09_fields : forall raw q, parse raw = Ok q -> q = layout_quote raw.
Proof. exact parse_layout. Qed.
Print Assumptions C09_fields.

(* The field/offset/check tables recovered by the translator from abi.go on this
   run equal the specification's tables -- for every function the translator could
   read (Lib/Tie.v: when it meets a statement outside the idioms it understands it
   says so, and the tie for that function is the correspondence check alone). *)
Theorem C09_tables :
  (tied header_parse_table_readable header_parse_table spec_header_table /\
  tied header_ser_table_readable header_ser_table spec_header_table /\
  tied header_ser_table_readable header_ser_size "48"%string /\
  tied header_check_table_readable header_check_table spec_header_checks) /\
  (tied body_parse_table_readable body_parse_table spec_body_parse_table /\
  tied body_ser_table_readable body_ser_table spec_body_ser_table /\
  tied body_ser_table_readable body_ser_size "584"%string /\
  tied body_check_table_readable body_check_table spec_body_checks) /\
  (tied report_parse_table_readable report_parse_table spec_report_table /\
  tied report_ser_table_readable report_ser_table spec_report_table /\
  tied report_ser_table_readable report_ser_size "384"%string /\
  tied report_check_table_readable report_check_table spec_report_checks).
Proof. exact (conj header_tables_ok (conj body_tables_ok report_tables_ok)). Qed.
Print Assumptions C09_tables.

Theorem C09_tail_tables :
  tied signed_parse_table_readable signed_parse_table spec_signed_table /\
  tied signed_check_table_readable signed_check_table spec_signed_checks /\
  tied certdata_parse_table_readable certdata_parse_table spec_certdata_table /\
  tied certdata_check_table_readable certdata_check_table spec_certdata_checks /\
  tied qercd_parse_table_readable qercd_parse_table spec_qercd_table /\
  tied qercd_check_table_readable qercd_check_table spec_qercd_checks /\
  tied auth_parse_table_readable auth_parse_table spec_auth_table /\
  tied auth_check_table_readable auth_check_table spec_auth_checks /\
  tied pck_parse_table_readable pck_parse_table spec_pck_table /\
  tied pck_check_table_readable pck_check_table spec_pck_checks /\
  tied quote_parse_table_readable quote_parse_table spec_quote_table /\
  tied quote_check_table_readable quote_check_table spec_quote_checks.
Proof. exact tail_tables_ok. Qed.
Print Assumptions C09_tail_tables.
