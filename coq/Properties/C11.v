(* C11 — Every honestly produced, in-date quote is accepted at every checking level. *)
From V Require Import Model.Verify Model.AbiSpec Proofs.Abi Proofs.Verify Proofs.VerifyComplete.

(* Byte level: whatever the platform serialises for a well-formed message - any
   header / body contents, QE authentication data of any length, optional bytes
   after the signed data, any chain data - is accepted by the parser and yields
   that message. *)
Theorem C11_parse : forall q raw, wf_quote q -> serialize (Some q) = Ok raw -> parse raw = Ok q.
Proof. exact ser_parse. Qed.
Print Assumptions C11_parse.

(* The optional NUL after the certificate chain is tolerated by chain extraction. *)
Theorem C11_trailing_nul : forall w q leaf inter root n,
  lookup (chain_bytes q) (wPem w) =
    Some [PemBlock true (Some leaf) (S n) false; PemBlock true (Some inter) (S n) false;
          PemBlock true (Some root) 1 true] ->
  chain_bytes q <> [] ->
  extract_chain w q = Ok {| chLeaf := leaf; chInter := inter; chRoot := root |}.
Proof.
  intros w q leaf inter root n H Hne. unfold extract_chain, ora.
  destruct (chain_bytes q) eqn:E; [contradiction|]. cbn [length Nat.eqb]. rewrite H. reflexivity.
Qed.
Print Assumptions C11_trailing_nul.
(* Acceptance: a quote all of whose links hold -- the message passes the structure
   checks; the chain extracts; every certificate has its role's name, is signed by
   the next and the leaf has a path into the effective roots at the PCK time; the
   quote and QE report signatures verify and the QE report data binds the
   attestation key; no artefact is past its date at its own verification time;
   and, per checking level, the collateral was fetched, is authentic, in date,
   names no listed certificate, and the TD body / QE report meet it -- is
   accepted.  [all_links_hold] (Proofs/VerifyComplete.v) is the conjunction of
   exactly the facts that acceptance implies, so the two coincide. *)
Theorem C11_honest_accepted : forall w q o wall,
  all_links_hold w q o wall -> fst (verify w (Some q) (Some o) wall) = Ok tt.
Proof. exact honest_accepted. Qed.
Theorem C11_accepted_iff : forall w q o wall,
  fst (verify w (Some q) (Some o) wall) = Ok tt <-> all_links_hold w q o wall.
Proof. exact accepted_iff. Qed.
Theorem C11_raw : forall w raw q o wall,
  parse raw = Ok q -> all_links_hold w q o wall -> fst (verify_raw w raw (Some o) wall) = Ok tt.
Proof. intros w raw q o wall Hp H. unfold verify_raw. rewrite Hp. apply honest_accepted, H. Qed.
Print Assumptions C11_honest_accepted.
Print Assumptions C11_accepted_iff.
Print Assumptions C11_raw.
(* Non-vacuity: the honest worlds of the generator are accepted by the model in
   every correspondence run, so by C11_accepted_iff they satisfy all_links_hold. *)
