(* C11 — Every honestly produced, in-date quote is accepted at every checking level. *)
From V Require Import Model.Verify Model.AbiSpec Proofs.Abi.

(* Byte level: whatever the platform serialises for a well-formed message - any
   header / body contents, QE authentication data of any length, optional bytes
   after the signed data, any chain data - is accepted by the parser and yields
   that message. *)
Theorem C11_parse : forall q raw, wf_quote q -> serialize (Some q) = Ok raw -> parse raw = Ok q.
Proof. exact ser_parse. Qed.
Print Assumptions C11_parse.

(* The optional NUL after the certificate chain is tolerated by chain extraction. *)
Theorem C11_trailing_nul : forall w q leaf inter root n,
  lookup (chain_bytes q) (wPem w) =
    Some [PemBlock true (Some leaf) (S n) false; PemBlock true (Some inter) (S n) false;
          PemBlock true (Some root) 1 true] ->
  chain_bytes q <> [] ->
  extract_chain w q = Ok {| chLeaf := leaf; chInter := inter; chRoot := root |}.
Proof.
  intros w q leaf inter root n H Hne. unfold extract_chain, ora.
  destruct (chain_bytes q) eqn:E; [contradiction|]. cbn [length Nat.eqb]. rewrite H. reflexivity.
Qed.
Print Assumptions C11_trailing_nul.
(* C11_accept_partial: the acceptance of every honest world at the three levels is
   established by the correspondence runs (honest worlds from the generator on
   the implementation and on the model); the model-level completeness theorem
   (honest facts imply acceptance) is not yet proved - see DESIGN.md. *)
