(* C14 — A policy message means the same after conversion to validation options. *)
From V Require Import Model.Validate Proofs.Validate.

(* Conversion succeeds exactly when both SVN minima fit 16 bits and every
   byte-string expectation that is present — minimum TEE TCB SVN, every RTMR
   entry and every allowed MR_TD included — has the right length; the options
   are then the policy's fields. *)
Theorem C14_converts_iff : forall p o,
  policy_to_options p = Ok o <->
  o = policy_options p /\ (pMinQeSvn p <= 65535)%N /\ (pMinPceSvn p <= 65535)%N /\
  options_sized (policy_options p).
Proof. exact policy_to_options_ok. Qed.
Print Assumptions C14_converts_iff.

(* Otherwise conversion fails (with an error, never a crash). *)
Theorem C14_fails : forall p,
  ~ ((pMinQeSvn p <= 65535)%N /\ (pMinPceSvn p <= 65535)%N /\ options_sized (policy_options p)) ->
  policy_to_options p = Err EOption.
Proof. exact policy_to_options_fails. Qed.
Print Assumptions C14_fails.

Theorem C14_total : forall p, policy_to_options p <> Panic.
Proof. exact policy_to_options_np. Qed.
Print Assumptions C14_total.

(* A policy that converts gives, for every well-formed quote, the verdict the
   message literally describes, and cannot crash validation. *)
Theorem C14_meaning : forall p o q h b,
  policy_to_options p = Ok o ->
  check_quote (Some q) = Ok tt -> qHeader q = Some h -> qBody q = Some b ->
  (validate (Some q) (Some o) = Ok tt <-> policy_meaning p h b) /\
  validate (Some q) (Some o) <> Panic.
Proof. exact policy_meaning_preserved. Qed.
Print Assumptions C14_meaning.

Definition ex_policy (tee : option bytes) : policy :=
  {| pMinQeSvn := 7; pMinPceSvn := 65535; pQeVendorId := None; pMinTeeTcbSvn := tee;
     pMrSeam := Some (repeat x01 48); pTdAttr := None; pXfam := None; pMrTd := None; pMrConfigId := None;
     pMrOwner := None; pMrOwnerConfig := None; pRtmrs := [[]; repeat x02 48; []; []];
     pReportData := None; pAnyMrTd := [] |}.

Example C14_nonvacuous :
  is_ok (policy_to_options (ex_policy (Some (repeat x00 16)))) = true /\
  policy_to_options (ex_policy (Some (repeat x00 15))) = Err EOption.
Proof. vm_compute. split; reflexivity. Qed.
