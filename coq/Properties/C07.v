(* C07 — The quoting enclave must match Intel's QE identity and be UpToDate. *)
From V Require Import Model.Tcb Proofs.Tcb.

(* The QE-report check succeeds iff the masks have the right sizes, MISCSELECT and
   ATTRIBUTES equal the identity's values once the identity's masks are applied,
   MRSIGNER and ISVPRODID are equal, and the first QE TCB level in listed order
   whose isvsvn is not above the report's ISVSVN is UpToDate. *)
Theorem C07_accept_iff : forall r qi,
  verify_qe_report r qi = Ok tt <->
  (length (qiMiscselectMask qi) = 4 /\ length (qiMiscselect qi) = 4 /\
   N.land (rMiscSelect r) (le_decode (qiMiscselectMask qi)) = le_decode (qiMiscselect qi) /\
   length (qiAttributesMask qi) = length (rAttributes r) /\
   qiAttributes qi = map2_and (qiAttributesMask qi) (rAttributes r) /\
   qiMrsigner qi = rMrSigner r /\
   rIsvProdId r = qiIsvProdId qi) /\
  exists l, (exists pre post, qiLevels qi = pre ++ l :: post /\
               Forall (fun x => (rIsvSvn r < tIsvSvn (lTcb x))%N) pre /\
               (tIsvSvn (lTcb l) <= rIsvSvn r)%N) /\
            lStatus l = UpToDate.
Proof. exact verify_qe_report_ok. Qed.
Print Assumptions C07_accept_iff.

(* If no level applies, verification fails. *)
Theorem C07_no_level : forall levels n,
  Forall (fun x => (n < tIsvSvn (lTcb x))%N) levels -> check_qe_status levels n = Err EQe.
Proof.
  intros levels n H. unfold check_qe_status. apply first_isvsvn_le_none in H. now rewrite H.
Qed.
Print Assumptions C07_no_level.

Theorem C07_total : forall r qi, verify_qe_report r qi <> Panic.
Proof. exact verify_qe_report_np. Qed.
Print Assumptions C07_total.

Definition ex_report (misc : N) : report :=
  {| rCpuSvn := []; rMiscSelect := misc; rReserved1 := []; rAttributes := [xff; x0f]; rMrEnclave := [];
     rReserved2 := []; rMrSigner := [x09]; rReserved3 := []; rIsvProdId := 2; rIsvSvn := 8;
     rReserved4 := []; rReportData := [] |}.
Definition ex_qi : qeidentity :=
  {| qiId := []; qiVersion := 2; qiNextUpdate := 0%Z;
     qiMiscselect := [x01; x00; x00; x00]; qiMiscselectMask := [x0f; x00; x00; x00];
     qiAttributes := [x0f; x0f]; qiAttributesMask := [x0f; xff]; qiMrsigner := [x09]; qiIsvProdId := 2;
     qiLevels := [{| lTcb := {| tSgx := []; tPceSvn := 0; tTdx := []; tIsvSvn := 9 |}; lStatus := OutOfDate |};
                  {| lTcb := {| tSgx := []; tPceSvn := 0; tTdx := []; tIsvSvn := 8 |}; lStatus := UpToDate |}] |}.
Example C07_nonvacuous :
  verify_qe_report (ex_report 0xf1) ex_qi = Ok tt /\ verify_qe_report (ex_report 0xf2) ex_qi = Err EQe.
Proof. vm_compute. split; reflexivity. Qed.
