(* C03 — Collateral counts only if authentically signed by Intel's TCB signer. *)
From V Require Import Model.Verify Model.Strs Proofs.Verify Gen.VerifyConsts.

(* With collateral checking on, an accepted quote implies, for the TCB Info
   (and likewise the QE Identity): the document that drives the verdict is the
   decoding of the exact-key member whose raw bytes verify, under the signature
   member of the same response, with a certificate named "Intel SGX TCB Signing"
   issued by a self-signed "Intel SGX Root CA" certificate of the same header,
   that chains to the trusted roots; it has the expected id and version and a
   non-empty level list; and it is this document that the TD body / QE report
   were checked against. *)
Theorem C03_signed_values : forall w q o wall,
  fst (verify w q (Some o) wall) = Ok tt -> optGetCollateral o = true ->
  exists qq ch ext c,
    q = Some qq /\ extract_chain w qq = Ok ch /\ cPckExt (chLeaf ch) = Some ext /\
    (* the values come from the signed member of the fetched response *)
    (exists rsp j, fetch w (tcb_info_url (eFmspc ext)) = Some rsp /\
       lookup (rspBody rsp) (wTcbJson w) = Some j /\
       tjRaw j = Some (colTcbRaw c) /\ tjMember j = Some (colTcbInfo c) /\ tjSignature j = colTcbSig c /\
       header_to_issuer_chain w (rspHeaders rsp) hdr_tcb_info = Ok (colTcbSigner c, colTcbRoot c)) /\
    (exists rsp j, fetch w qe_identity_url = Some rsp /\
       lookup (rspBody rsp) (wQeJson w) = Some j /\
       qjRaw j = Some (colQeRaw c) /\ qjMember j = Some (colQeId c) /\ qjSignature j = colQeSig c /\
       header_to_issuer_chain w (rspHeaders rsp) hdr_qe_identity = Ok (colQeSigner c, colQeRoot c)) /\
    (* authenticity of both *)
    tiId (colTcbInfo c) = s_tcbInfoID /\ tiVersion (colTcbInfo c) = 3%N /\ tiLevels (colTcbInfo c) <> [] /\
    cert_valid w (colTcbRoot c) (colTcbRoot c) s_rootCertPhrase /\
    cert_valid w (colTcbSigner c) (colTcbRoot c) s_tcbSigningPhrase /\
    anchored w (colTcbSigner c) [] (effective_roots w o) (x509_time (tTcbInfo (now_of o wall)) wall) /\
    (exists sg, lookup (colTcbSig c) (wHex w) = Some (Some sg) /\ length sg = 64 /\
                ecdsa_ok w (cKey (colTcbSigner c)) (colTcbRaw c) sg = Ok true) /\
    qiId (colQeId c) = s_qeIdentityID /\ qiVersion (colQeId c) = 2%N /\ qiLevels (colQeId c) <> [] /\
    cert_valid w (colQeRoot c) (colQeRoot c) s_rootCertPhrase /\
    cert_valid w (colQeSigner c) (colQeRoot c) s_tcbSigningPhrase /\
    anchored w (colQeSigner c) [] (effective_roots w o) (x509_time (tQeId (now_of o wall)) wall) /\
    (exists sg, lookup (colQeSig c) (wHex w) = Some (Some sg) /\ length sg = 64 /\
                ecdsa_ok w (cKey (colQeSigner c)) (colQeRaw c) sg = Ok true) /\
    (* and these documents are the ones the quote was judged against *)
    (exists b qe r, qBody qq = Some b /\ quote_qercd qq = Some qe /\ qReport qe = Some r /\
       verify_td_body b (colTcbInfo c) ext = Ok tt /\ verify_qe_report r (colQeId c) = Ok tt).
Proof.
  intros w q o wall H Hg.
  apply accept_facts in H as (qq & ch & ext & col & Hq & _ & Hch & Hext & _ & _ & _ & Hc).
  destruct (Hc Hg) as (c & ca & _ & _ & _ & (Ht & Hqe) & _ & T & Q & Hb).
  exists qq, ch, ext, c. destruct T as [T1 T2 T3 [T4 T5 T6 T7 _]]. destruct Q as [Q1 Q2 Q3 [Q4 Q5 Q6 Q7 _]].
  unfold verify_tcbInfoVersion in T2. unfold verify_qeIdentityVersion in Q2.
  repeat (split; [assumption|]). exact Hb.
Qed.
Print Assumptions C03_signed_values.

(* If a response cannot be fetched, decoded or lacks its member / issuer chain,
   there is no collateral and the quote is rejected: acceptance needs the fetch
   to have succeeded. *)
Theorem C03_needs_collateral : forall w q o wall,
  fst (verify w q (Some o) wall) = Ok tt -> optGetCollateral o = true ->
  exists qq ch ext ca c, q = Some qq /\ extract_chain w qq = Ok ch /\ cPckExt (chLeaf ch) = Some ext /\
    extract_ca (chLeaf ch) = Ok ca /\ fst (obtain_collateral w (eFmspc ext) ca o) = Ok c.
Proof.
  intros w q o wall H Hg.
  apply accept_facts in H as (qq & ch & ext & col & Hq & _ & Hch & Hext & _ & _ & _ & Hc).
  destruct (Hc Hg) as (c & ca & _ & Hca & Hob & _). exists qq, ch, ext, ca, c. auto.
Qed.
Print Assumptions C03_needs_collateral.
