(* C01 — Accepted quotes are authentic: every link of the signature chain holds. *)
From V Require Import Model.Verify Model.Der Proofs.Abi Proofs.Verify Proofs.Der.

(* Verification succeeds only if (1) the attestation key carried in the quote is a
   64-byte point on P-256 and the ECDSA-P256/SHA-256 signature in the quote
   verifies, under that key, over the re-serialised header || TD body; (2) the
   QE report's signature verifies under the public key of the chain's leaf over
   the re-serialised QE report; (3) the QE report's report-data equals
   SHA-256(attestation key || QE authentication data) followed by zeros up to 64
   bytes.  [ecdsa_ok], [wCurve], [wSha] are the crypto oracles of the world. *)
Theorem C01_links : forall w q o wall,
  fst (verify w q (Some o) wall) = Ok tt ->
  exists qq ch, q = Some qq /\ extract_chain w qq = Ok ch /\
    length (att_key qq) = 64 /\ lookup (att_key qq) (wCurve w) = Some true /\
    (exists hb bb, ser_header (qHeader qq) = Ok hb /\ ser_body (qBody qq) = Ok bb /\
       ecdsa_ok w (att_key qq) (hb ++ bb) (quote_sig qq) = Ok true) /\
    (exists qe rb, quote_qercd qq = Some qe /\ ser_report (qReport qe) = Ok rb /\
       ecdsa_ok w (cKey (chLeaf ch)) rb (qSig qe) = Ok true /\
       exists d, lookup (att_key qq ++ match qAuth qe with Some a => aData a | None => [] end) (wSha w) = Some d /\
         d ++ zeros (length (match qReport qe with Some r => rReportData r | None => [] end) - length d)
         = match qReport qe with Some r => rReportData r | None => [] end).
Proof.
  intros w q o wall H. apply accept_facts in H as (qq & ch & ext & col & Hq & _ & Hch & _ & _ & Hs & _).
  exists qq, ch. destruct Hs. auto 10.
Qed.
Print Assumptions C01_links.

(* For raw input the signed message is exactly bytes 0..631 of what was handed in. *)
Theorem C01_raw : forall w raw o wall,
  fst (verify_raw w raw (Some o) wall) = Ok tt ->
  exists q, parse raw = Ok q /\ ecdsa_ok w (att_key q) (slice 0 632 raw) (quote_sig q) = Ok true.
Proof. exact raw_signed_message. Qed.
Print Assumptions C01_raw.

(* The signed encodings determine the header, the TD body and the QE report:
   no field of them can change without changing a signed message. *)
Theorem C01_header_injective : forall h1 h2 d,
  ser_header (Some h1) = Ok d -> ser_header (Some h2) = Ok d -> h1 = h2.
Proof. exact ser_header_injective. Qed.
Theorem C01_body_injective : forall b1 b2 d,
  ser_body (Some b1) = Ok d -> ser_body (Some b2) = Ok d -> b1 = b2.
Proof. exact ser_body_injective. Qed.
Theorem C01_report_injective : forall r1 r2 d,
  u32 (rMiscSelect r1) -> u32 (rMiscSelect r2) ->
  ser_report (Some r1) = Ok d -> ser_report (Some r2) = Ok d -> r1 = r2.
Proof. exact ser_report_injective. Qed.
Print Assumptions C01_header_injective.
Print Assumptions C01_body_injective.
Print Assumptions C01_report_injective.

(* Reading of the oracles: if a true answer of the ECDSA oracle means "signed by
   the holder of the key", an accepted quote's header || body was signed by its
   attestation key and its QE report by the PCK key. *)
Section Meaning.
  Variable w : world.
  Variable Signed : bytes -> bytes -> Prop.
  Hypothesis ecdsa_sound : forall k m s, ecdsa_ok w k m s = Ok true -> Signed k m.
  Theorem C01_no_unsigned_accept : forall q o wall,
    fst (verify w q (Some o) wall) = Ok tt ->
    exists qq ch hb bb qe rb, q = Some qq /\ extract_chain w qq = Ok ch /\
      ser_header (qHeader qq) = Ok hb /\ ser_body (qBody qq) = Ok bb /\ Signed (att_key qq) (hb ++ bb) /\
      quote_qercd qq = Some qe /\ ser_report (qReport qe) = Ok rb /\ Signed (cKey (chLeaf ch)) rb.
  Proof.
    intros q o wall H. apply C01_links in H as (qq & ch & -> & Hch & _ & _ & (hb & bb & H1 & H2 & H3) & (qe & rb & H4 & H5 & H6 & _)).
    exists qq, ch, hb, bb, qe, rb.
    refine (conj eq_refl (conj Hch (conj H1 (conj H2 (conj _ (conj H4 (conj H5 _))))))).
    - exact (ecdsa_sound _ _ _ H3).
    - exact (ecdsa_sound _ _ _ H6).
  Qed.
End Meaning.
Print Assumptions C01_no_unsigned_accept.

(* The ECDSA oracle is asked about the raw 64-byte signatures r || s; the code
   hands crypto/ecdsa the DER form produced by abi.SignatureToDER.  That
   conversion is faithful and canonical: for every 64-byte signature the DER bytes
   parse back, under the strict reading rules (minimal, non-negative INTEGERs,
   nothing left over), to exactly the numbers r and s -- so the signature that is
   verified is the one carried in the quote; other lengths are refused. *)
Theorem C01_signature_encoding : forall sig, length sig = 64 ->
  exists d, sig_to_der sig = Ok d /\
            parse_der_sig d = Some (be_value (slice 0 32 sig), be_value (slice 32 64 sig)).
Proof. exact sig_to_der_roundtrip. Qed.
Theorem C01_signature_encoding_length : forall sig, length sig <> 64 -> sig_to_der sig = Err EParse.
Proof. exact sig_to_der_rejects. Qed.
Print Assumptions C01_signature_encoding.
Print Assumptions C01_signature_encoding_length.
