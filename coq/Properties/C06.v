(* C06 — Nothing expired is accepted; each artifact is judged at its own configured time. *)
From V Require Import Model.Verify Proofs.Verify Proofs.VerifyComplete.

(* An accepted quote implies: at the PCK-chain time no certificate of the chain
   is past notAfter and the leaf / an intermediate or anchor on its validated path
   is inside its validity period ([anchored]); at the TCB-Info time the TCB Info
   is not past nextUpdate and neither certificate of its issuer chain is past
   notAfter (and the signer's validated path is in date); the same at the
   QE-Identity time; with revocation checking, at the PCK-CRL time the PCK CRL
   and its issuer chain and at the Root-CA-CRL time the Root CA CRL are in date.
   [now_of o wall] is the caller's time set (the wall clock when none is given). *)
Theorem C06_sound : forall w q o wall,
  fst (verify w q (Some o) wall) = Ok tt ->
  let now := now_of o wall in
  exists qq ch col, q = Some qq /\ extract_chain w qq = Ok ch /\
    (tPck now <= cNotAfter (chRoot ch))%Z /\ (tPck now <= cNotAfter (chInter ch))%Z /\
    (tPck now <= cNotAfter (chLeaf ch))%Z /\
    anchored w (chLeaf ch) [chInter ch] (effective_roots w o) (x509_time (tPck now) wall) /\
    (optGetCollateral o = true -> exists c, col = Some c /\
       (tTcbInfo now <= tiNextUpdate (colTcbInfo c))%Z /\
       (tTcbInfo now <= cNotAfter (colTcbSigner c))%Z /\ (tTcbInfo now <= cNotAfter (colTcbRoot c))%Z /\
       anchored w (colTcbSigner c) [] (effective_roots w o) (x509_time (tTcbInfo now) wall) /\
       (tQeId now <= qiNextUpdate (colQeId c))%Z /\
       (tQeId now <= cNotAfter (colQeSigner c))%Z /\ (tQeId now <= cNotAfter (colQeRoot c))%Z /\
       anchored w (colQeSigner c) [] (effective_roots w o) (x509_time (tQeId now) wall) /\
       (optCheckRevocations o = true ->
          exists rc pc ps pr, colRootCrl c = Some rc /\ colPckCrl c = Some pc /\
            colPckCrlSigner c = Some ps /\ colPckCrlRoot c = Some pr /\
            (tRootCrl now <= rlNextUpdate rc)%Z /\ (tPckCrl now <= rlNextUpdate pc)%Z /\
            (tPckCrl now <= cNotAfter ps)%Z /\ (tPckCrl now <= cNotAfter pr)%Z)).
Proof.
  intros w q o wall H now.
  apply accept_facts in H as (qq & ch & ext & col & Hq & _ & Hch & _ & Hcf & _ & _ & Hc).
  exists qq, ch, col. destruct Hcf as [_ _ _ Ha _ (E1 & E2 & E3)].
  repeat (split; [assumption|]).
  intro Hg. destruct (Hc Hg) as (c & ca & -> & _ & _ & _ & K & T & Q & _).
  exists c. destruct K as [_ (K1 & K2 & K3) (K4 & K5 & K6) K7].
  split; [reflexivity|]. repeat (split; [assumption|]).
  split; [exact (rf_anchor _ _ _ _ _ _ _ _ _ (tf_response _ _ _ _ _ T))|].
  repeat (split; [assumption|]).
  split; [exact (rf_anchor _ _ _ _ _ _ _ _ _ (qf_response _ _ _ _ _ Q))|]. exact K7.
Qed.
Print Assumptions C06_sound.

(* validity window on a validated path, spelled out *)
Theorem C06_anchored_in_window : forall w leaf inters roots t,
  anchored w leaf inters roots t -> (cNotBefore leaf <= t <= cNotAfter leaf)%Z.
Proof.
  intros w leaf inters roots t [H _]. unfold in_window in H.
  apply andb_true_iff in H as [H1 H2]. apply Z.leb_le in H1, H2. auto.
Qed.
Print Assumptions C06_anchored_in_window.

(* Once the leaf has expired, verification fails at that and every later time. *)
Theorem C06_expired_leaf_rejected : forall w q o wall qq ch,
  q = Some qq -> extract_chain w qq = Ok ch ->
  (cNotAfter (chLeaf ch) < tPck (now_of o wall))%Z ->
  fst (verify w q (Some o) wall) <> Ok tt.
Proof.
  intros w q o wall qq ch Hq Hch Hlt H. apply C06_sound in H as (qq' & ch' & col & Hq' & Hch' & _ & _ & E & _).
  rewrite Hq in Hq'. inversion Hq'; subst. rewrite Hch in Hch'. inversion Hch'; subst. lia.
Qed.
Print Assumptions C06_expired_leaf_rejected.

(* The converse reading: with collateral checking on, a quote is refused as soon
   as one artefact is past its end at the time-set entry that judges it: the TCB
   Info or its signer at the TCB-Info time, the QE Identity or its signer at the
   QE-Identity time, a certificate of the PCK chain at the PCK time and, with
   revocation checking, a CRL at its own time -- whatever the other entries are. *)
Theorem C06_out_of_date_rejected : forall w qq o wall ch ext ca c,
  extract_chain w qq = Ok ch -> cPckExt (chLeaf ch) = Some ext -> extract_ca (chLeaf ch) = Ok ca ->
  fst (obtain_collateral w (eFmspc ext) ca o) = Ok c -> optGetCollateral o = true ->
  let now := now_of o wall in
  ((tiNextUpdate (colTcbInfo c) < tTcbInfo now)%Z \/ (qiNextUpdate (colQeId c) < tQeId now)%Z \/
   (cNotAfter (colTcbSigner c) < tTcbInfo now)%Z \/ (cNotAfter (colQeSigner c) < tQeId now)%Z \/
   (cNotAfter (chLeaf ch) < tPck now)%Z \/ (cNotAfter (chInter ch) < tPck now)%Z \/ (cNotAfter (chRoot ch) < tPck now)%Z \/
   (optCheckRevocations o = true /\
    ((exists pc, colPckCrl c = Some pc /\ (rlNextUpdate pc < tPckCrl now)%Z) \/
     (exists rc, colRootCrl c = Some rc /\ (rlNextUpdate rc < tRootCrl now)%Z)))) ->
  fst (verify w (Some qq) (Some o) wall) <> Ok tt.
Proof. exact out_of_date_rejected. Qed.
Print Assumptions C06_out_of_date_rejected.
