(* C19 — The check tool's exit code is truthful, flags override config, it never crashes. *)
From V Require Import Lib.Bytes Lib.Res Model.Abi Model.Validate Model.Verify Model.RootOfTrust Model.CheckTool
  Proofs.CheckTool.

(* Exit 0 exactly when flags and config are well-formed, the input is a quote,
   the root of trust converts, the quote verifies under the effective options and
   the effective policy converts and is satisfied. *)
Theorem C19_exit0_iff : forall fl c i w wall,
  fst (run_tool fl c i w wall) = E0 <->
  exists rot pol q o vo,
    effective fl c = Ok (rot, pol) /\ read_quote i = Ok q /\ root_of_trust_to_options rot = Ok o /\
    fst (verify w (Some q) (Some o) wall) = Ok tt /\
    policy_to_options (to_policy pol) = Ok vo /\ validate (Some q) (Some vo) = Ok tt.
Proof. exact exit0_iff. Qed.

(* A flag, when given, overrides the same field of the config file ... *)
Theorem C19_flag_overrides : forall fl c rot pol, effective fl c = Ok (rot, pol) ->
  (forall f v, fBytes fl f = FGood v -> epBytes pol f = Some v) /\
  (forall v, fMinQeSvn fl = FGood v -> epMinQeSvn pol = v) /\
  (forall v, fMinPceSvn fl = FGood v -> epMinPceSvn pol = v) /\
  (forall v, fRtmrs fl = FGood v -> epRtmrs pol = v) /\
  (forall v, fCheckCrl fl = FGood v -> rotCheckCrl rot = v) /\
  (forall v, fGetCollateral fl = FGood v -> rotGetCollateral rot = v) /\
  (forall p ps, fRoots fl = FGood (p :: ps) -> rotPaths rot = p :: ps).
Proof. exact flag_overrides. Qed.

(* ... and unset flags leave the config's value in force (absent sub-messages read as zero values) ... *)
Theorem C19_unset_keeps : forall fl c rot pol, effective fl c = Ok (rot, pol) ->
  let bp := base_policy c in let br := base_rot c in
  (forall f, fBytes fl f = FUnset -> epBytes pol f = epBytes bp f) /\
  (fMinQeSvn fl = FUnset -> epMinQeSvn pol = epMinQeSvn bp) /\
  (fMinPceSvn fl = FUnset -> epMinPceSvn pol = epMinPceSvn bp) /\
  (fRtmrs fl = FUnset -> epRtmrs pol = epRtmrs bp) /\
  (fCheckCrl fl = FUnset -> rotCheckCrl rot = rotCheckCrl br) /\
  (fGetCollateral fl = FUnset -> rotGetCollateral rot = rotGetCollateral br) /\
  (fRoots fl = FUnset -> rotPaths rot = rotPaths br) /\
  epAnyMrTd pol = epAnyMrTd bp /\ rotInline rot = rotInline br.
Proof. exact unset_keeps. Qed.

(* ... which, without a config file, are the documented defaults. *)
Theorem C19_defaults : forall fl rot pol, effective fl CfAbsent = Ok (rot, pol) ->
  (fCheckCrl fl = FUnset -> rotCheckCrl rot = false) /\
  (fGetCollateral fl = FUnset -> rotGetCollateral rot = false) /\
  (fMinQeSvn fl = FUnset -> epMinQeSvn pol = 0%N) /\ (fMinPceSvn fl = FUnset -> epMinPceSvn pol = 0%N) /\
  (forall f, fBytes fl f = FUnset -> epBytes pol f = None) /\
  (fRoots fl = FUnset -> rotPaths rot = []) /\ rotInline rot = [].
Proof. exact defaults_without_config. Qed.

(* Malformed flags or config exit 1. *)
Theorem C19_usage_errors : forall fl c i w wall,
  fSyntax fl = false \/ any_bad_bytes fl = true \/ c = CfBad \/
  fCheckCrl fl = FBad \/ fGetCollateral fl = FBad \/ fMinQeSvn fl = FBad \/ fMinPceSvn fl = FBad \/
  fRtmrs fl = FBad \/ fRoots fl = FBad \/ i = InBad ->
  fst (run_tool fl c i w wall) = E1.
Proof. exact usage_errors. Qed.

(* What each code means: 1 usage / config / input / malformed policy, 2 a
   verification failure that is not a fetch failure, 3 a failure to download
   collateral or CRLs (the library's typed fetch errors), 4 a policy mismatch on a
   verified quote; and the tool never crashes. *)
Theorem C19_exit_codes : forall fl c i w wall,
  match fst (run_tool fl c i w wall) with
  | E0 => True
  | E1 =>
    (forall x, effective fl c <> Ok x) \/
    (exists rot pol, effective fl c = Ok (rot, pol) /\
       ((forall q, read_quote i <> Ok q) \/ (forall o, root_of_trust_to_options rot <> Ok o) \/
        (exists q o, read_quote i = Ok q /\ root_of_trust_to_options rot = Ok o /\
                     fst (verify w (Some q) (Some o) wall) = Ok tt /\
                     forall vo, policy_to_options (to_policy pol) <> Ok vo)))
  | E2 => exists rot pol q o e, effective fl c = Ok (rot, pol) /\ read_quote i = Ok q /\
            root_of_trust_to_options rot = Ok o /\ fst (verify w (Some q) (Some o) wall) = Err e /\ e <> EFetch
  | E3 => exists rot pol q o, effective fl c = Ok (rot, pol) /\ read_quote i = Ok q /\
            root_of_trust_to_options rot = Ok o /\ fst (verify w (Some q) (Some o) wall) = Err EFetch
  | E4 => exists rot pol q o vo e, effective fl c = Ok (rot, pol) /\ read_quote i = Ok q /\
            root_of_trust_to_options rot = Ok o /\ fst (verify w (Some q) (Some o) wall) = Ok tt /\
            policy_to_options (to_policy pol) = Ok vo /\ validate (Some q) (Some vo) = Err e
  | ECrash => False
  end.
Proof. exact exit_codes. Qed.

Theorem C19_never_crashes : forall fl c i w wall, fst (run_tool fl c i w wall) <> ECrash.
Proof. exact run_tool_total. Qed.

(* populateConfig as it stood before the repair crashed on a config file whose
   policy message lacks a sub-message. *)
Theorem C19_unrepaired_crash_refuted : forall fl,
  populate_policy_unrepaired fl (CfGood {| cfRot := None; cfPolicy := Some {| cpHeader := None; cpBody := None |} |}) = Panic.
Proof. exact unrepaired_crashes. Qed.

Print Assumptions C19_exit0_iff.
Print Assumptions C19_flag_overrides.
Print Assumptions C19_unset_keeps.
Print Assumptions C19_defaults.
Print Assumptions C19_usage_errors.
Print Assumptions C19_exit_codes.
Print Assumptions C19_never_crashes.
Print Assumptions C19_unrepaired_crash_refuted.
