(* C17 — RTMR extension writes exactly the requested digest to the requested register. *)
From V Require Import Model.Rtmr Proofs.Rtmr.

Section C17.
Variable sha384 : bytes -> bytes.   (* SHA-384; every theorem holds for any function *)

(* An extend request with an index outside 0-3 or a digest that is not 48 bytes,
   and an event-log request with another hash algorithm or an empty log, fails
   without any operation on the TSM interface and leaves every register as it was. *)
Theorem C17_reject_digest : forall t idx d,
  ~ ((0 <= idx <= 3)%Z /\ length d = 48) -> extend_digest sha384 t idx d = (t, [], true).
Proof. exact (extend_digest_reject sha384). Qed.
Theorem C17_reject_event_log : forall t idx a l,
  a = false \/ l = [] -> extend_event_log sha384 t idx a l = (t, [], true).
Proof. exact (extend_event_log_reject sha384). Qed.
Theorem C17_rejected_no_trace : forall t r,
  snd (run_request sha384 t r) = true -> run_request sha384 t r = (t, [], true).
Proof. exact (run_request_rejected sha384). Qed.

(* A valid request results in exactly one digest write, of exactly the given
   digest, on the entry bound to the index: an existing entry bound to it is
   re-used, otherwise one new entry is created and bound first. *)
Theorem C17_one_extend : forall t idx d,
  exists name, digest_writes (snd (lib_extend sha384 t idx d)) = [(name, d)] /\
    ((exists e, In e t /\ eName e = name /\ eIndex e = Some idx)
     \/ (register t idx = None /\ name = fresh_name t)).
Proof. exact (lib_extend_one_write sha384). Qed.

Theorem C17_event_log_digest : forall t idx l, l <> [] ->
  extend_event_log sha384 t idx true l = extend_digest sha384 t idx (sha384 l).
Proof. intros t idx l H. unfold extend_event_log. destruct l; [contradiction|reflexivity]. Qed.

(* Over any sequence of requests each register equals the extend chain of the
   accepted digests for its index, in call order (from any TSM state with
   distinct entry names, in particular the empty one). *)
Theorem C17_history : forall rs t i, names_unique t ->
  reg_or_zero (run_history sha384 t rs) i =
  extend_chain sha384 (reg_or_zero t i) (filter_map (accepted_digest sha384 i) rs).
Proof. exact (history_registers sha384). Qed.
Theorem C17_history_from_empty : forall rs i,
  reg_or_zero (run_history sha384 [] rs) i =
  extend_chain sha384 zero48 (filter_map (accepted_digest sha384 i) rs).
Proof. exact (history_from_empty sha384). Qed.
End C17.
Print Assumptions C17_reject_digest.
Print Assumptions C17_reject_event_log.
Print Assumptions C17_rejected_no_trace.
Print Assumptions C17_one_extend.
Print Assumptions C17_history.
Print Assumptions C17_history_from_empty.

Example C17_nonvacuous :
  let h := fun b : bytes => firstn 48 (b ++ zeros 48) in
  let t := run_history h [] [RDigest 2 (repeat x01 48); RDigest 7 (repeat x02 48); REventLog 2 true [x05]] in
  length t = 1 /\ reg_or_zero t 2 = extend_chain h zero48 [repeat x01 48; h [x05]].
Proof. vm_compute. split; reflexivity. Qed.
