(* C02 — Trust is anchored only in the configured roots and in PCK-role certificates. *)
From V Require Import Model.Verify Model.RootOfTrust Model.Strs Proofs.Verify Proofs.RootOfTrust.

(* Verification succeeds only if the three certificates carried in the quote are
   v3 ECDSA-P256/SHA-256 certificates named "Intel SGX Root CA" (self-signed),
   "Intel SGX PCK Platform CA" (signed by that root) and "Intel SGX PCK
   Certificate" (signed by that intermediate), and the leaf chains, through the
   intermediate carried in the quote, to a certificate of the effective root pool
   (the caller's pool, or the embedded Intel root when none is given). *)
Theorem C02_anchor : forall w q o wall,
  fst (verify w q (Some o) wall) = Ok tt ->
  exists qq ch, q = Some qq /\ extract_chain w qq = Ok ch /\
    cert_valid w (chRoot ch) (chRoot ch) s_rootCertPhrase /\
    cert_valid w (chInter ch) (chRoot ch) s_intermediateCertPhrase /\
    cert_valid w (chLeaf ch) (chInter ch) s_pckCertPhrase /\
    anchored w (chLeaf ch) [chInter ch] (effective_roots w o) (x509_time (tPck (now_of o wall)) wall).
Proof.
  intros w q o wall H. apply accept_facts in H as (qq & ch & ext & col & Hq & _ & Hch & _ & Hcf & _).
  exists qq, ch. destruct Hcf. auto 10.
Qed.
Print Assumptions C02_anchor.

Theorem C02_effective_roots : forall w o,
  effective_roots w o = match optRoots o with Some p => p | None => [wEmbeddedRoot w] end.
Proof. reflexivity. Qed.

(* A quote that is perfectly self-consistent under any other root - identical
   subject names included - is rejected: if no pool certificate is the leaf or
   the intermediate, or verifies the signature on either, nothing anchors. *)
Theorem C02_lookalike : forall w q o wall,
  (forall qq ch, q = Some qq -> extract_chain w qq = Ok ch ->
     forall r, In r (effective_roots w o) ->
       same_cert (chLeaf ch) r = false /\ sig_from w (chLeaf ch) r = false /\
       same_cert (chInter ch) r = false /\ sig_from w (chInter ch) r = false) ->
  fst (verify w q (Some o) wall) <> Ok tt.
Proof. exact foreign_pool_rejects. Qed.
Print Assumptions C02_lookalike.

(* A 'leaf' of another role is rejected. *)
Theorem C02_role : forall w q o wall qq ch,
  q = Some qq -> extract_chain w qq = Ok ch ->
  cSubjectCN (chLeaf ch) <> s_pckCertPhrase ->
  fst (verify w q (Some o) wall) <> Ok tt.
Proof.
  intros w q o wall qq ch Hq Hch Hcn H. apply C02_anchor in H as (qq' & ch' & Hq' & Hch' & _ & _ & Hl & _).
  rewrite Hq in Hq'. inversion Hq'; subst qq'. rewrite Hch in Hch'. inversion Hch'; subst ch'.
  destruct Hl as (_ & _ & _ & _ & Hn & _). contradiction.
Qed.
Print Assumptions C02_role.

(* A root-of-trust configuration trusts exactly the certificates it lists. *)
Theorem C02_rot_exact : forall r o,
  root_of_trust_to_options r = Ok o ->
  optCheckRevocations o = rotCheckCrl r /\ optGetCollateral o = rotGetCollateral r /\
  ((rotPaths r = [] /\ rotInline r = []) -> optRoots o = None) /\
  (~ (rotPaths r = [] /\ rotInline r = []) ->
     exists pool, optRoots o = Some pool /\
       forall c, In c pool <-> exists s, In s (rotPaths r ++ rotInline r) /\ In c (srcCerts s)).
Proof. exact root_of_trust_exact. Qed.
Print Assumptions C02_rot_exact.

Theorem C02_rot_bad_bundle : forall r,
  Exists (fun s => srcReadable s = false \/ srcCerts s = []) (rotPaths r ++ rotInline r) ->
  root_of_trust_to_options r = Err EUsage.
Proof. exact root_of_trust_bad_bundle. Qed.
Print Assumptions C02_rot_bad_bundle.
