(* C18 — An event log is returned only behind both gates and a matching RTMR replay. *)
From V Require Import Lib.Bytes Lib.Res Model.Abi Model.Validate Model.Verify Model.Rtmr Model.Ccel Proofs.Ccel.

Section C18.
Variable sha384 : bytes -> bytes.   (* SHA-384; every theorem holds for any function *)
Notation parse_ccel := (parse_ccel_with_quote sha384).

(* A firmware log state is handed back -- with or without an error next to it --
   only if the quote passes verification under the given options and validation
   under the given policy, the register bank was taken from the quote, and the
   replay-and-extract step produced that state. *)
Theorem C18_gates : forall w q vo po wall o st,
  ocState (fst (parse_ccel w q vo po wall o)) = Some st ->
  fst (verify w q vo wall) = Ok tt /\ validate q po = Ok tt /\
  exists bank, rtmr_bank q = Ok bank /\ ocState (replay_and_extract sha384 o bank) = Some st.
Proof. exact (ccel_gates sha384). Qed.
Theorem C18_success_hands_back_the_state : forall w q vo po wall o st,
  ocRes (fst (parse_ccel w q vo po wall o)) = Ok st -> ocState (fst (parse_ccel w q vo po wall o)) = Some st.
Proof. exact (ccel_ok_state sha384). Qed.

(* Either gate failing: an error and no state. *)
Theorem C18_verification_gate : forall w q vo po wall o,
  fst (verify w q vo wall) <> Ok tt ->
  ocState (fst (parse_ccel w q vo po wall o)) = None /\ forall st, ocRes (fst (parse_ccel w q vo po wall o)) <> Ok st.
Proof. exact (ccel_verify_gate sha384). Qed.
Theorem C18_policy_gate : forall w q vo po wall o,
  validate q po <> Ok tt ->
  ocState (fst (parse_ccel w q vo po wall o)) = None /\ forall st, ocRes (fst (parse_ccel w q vo po wall o)) <> Ok st.
Proof. exact (ccel_validate_gate sha384). Qed.

(* RTMR i of the quote is register index i of the replay bank, four of them;
   a state is handed back only if, for every RTMR the log has events for, the
   quote's value is the extend chain (from 48 zero bytes) of those events'
   SHA-384 digests in log order. *)
Theorem C18_rtmr_match : forall w q vo po wall o st,
  ocState (fst (parse_ccel w q vo po wall o)) = Some st -> coEmpty o = false ->
  exists qq b r0 r1 r2 r3 es,
    q = Some qq /\ qBody qq = Some b /\ bRtmrs b = [r0; r1; r2; r3] /\ coEvents o = Some es /\
    forall i r, nth_error [r0; r1; r2; r3] i = Some r -> measured es (S i) ->
      exists ds, digests_ok 48 (events_of es (S i)) = Some ds /\ extend_chain sha384 zero48 ds = r.
Proof. exact (ccel_rtmr_match sha384). Qed.

(* A quote -- valid, correctly signed, policy-conforming or not -- whose value
   of a measured RTMR differs from the replay is refused: an error and no state. *)
Theorem C18_mismatch_rejected : forall w qq vo po wall o b r0 r1 r2 r3 es i r,
  qBody qq = Some b -> bRtmrs b = [r0; r1; r2; r3] -> coEmpty o = false -> coEvents o = Some es ->
  nth_error [r0; r1; r2; r3] i = Some r -> measured es (S i) ->
  (forall ds, digests_ok 48 (events_of es (S i)) = Some ds -> extend_chain sha384 zero48 ds <> r) ->
  ocState (fst (parse_ccel w (Some qq) vo po wall o)) = None /\
  forall st, ocRes (fst (parse_ccel w (Some qq) vo po wall o)) <> Ok st.
Proof. exact (ccel_mismatch_rejected sha384). Qed.

(* Nothing is fetched beyond what verification fetches, and the call never
   crashes (provided go-eventlog's extraction does not). *)
Theorem C18_urls : forall w q vo po wall o,
  snd (parse_ccel w q vo po wall o) = snd (verify w q vo wall).
Proof. exact (ccel_urls sha384). Qed.
Theorem C18_total : forall w q vo po wall o,
  coExtract o <> Panic -> ocRes (fst (parse_ccel w q vo po wall o)) <> Panic.
Proof. exact (ccel_total sha384). Qed.
End C18.

(* The default options bind REPORT_DATA to the caller's nonce. *)
Theorem C18_default_opts_bind_nonce : forall q b nonce,
  qBody q = Some b -> validate (Some q) (Some (default_vopts nonce)) = Ok tt ->
  bReportData b = default_report_data nonce.
Proof. exact default_opts_bind_nonce. Qed.

Print Assumptions C18_gates.
Print Assumptions C18_success_hands_back_the_state.
Print Assumptions C18_verification_gate.
Print Assumptions C18_policy_gate.
Print Assumptions C18_rtmr_match.
Print Assumptions C18_mismatch_rejected.
Print Assumptions C18_urls.
Print Assumptions C18_total.
Print Assumptions C18_default_opts_bind_nonce.
