(* C13 — PCK certificate SGX extension values are extracted exactly. *)
From Coq Require Import Permutation.
From V Require Import Model.PckExt Proofs.PckExt Proofs.PckExtPerm Gen.PcsConsts.

Section C13.
Variable decode : bytes -> option (node * nat).   (* encoding/asn1 TLV decoding (oracle) *)

(* Arbitrary DER in the SGX extension (and any extension list) yields a result or an error. *)
Theorem C13_total : forall exts, pck_extensions decode exts <> Panic.
Proof. exact (pck_extensions_np decode). Qed.

(* Every TCB value returned stems from an element of the certificate that carries
   exactly that value under that component's OID and fits the field: sixteen
   components in 0..255 by index, PCE SVN in 0..65535, a 16-byte CPU SVN; the
   element list has exactly 18 entries and no OID was consumed twice (a repeated
   or missing OID is an error, see the model's tcb_step / extract_tcb). *)
Theorem C13_tcb_sound : forall elem t,
  extract_tcb elem = Ok t ->
  exists first comps, as_seq elem = Some [first; comps] /\
  exists cs, as_seq comps = Some cs /\ length cs = 18 /\
    length (tcComps t) = 16 /\
    (forall i v, nth_error (tcComps t) i = Some v ->
       exists c z o, In c cs /\ as_atv c = Some (o, AInt z) /\ comp_index o = Some i /\
                     (0 <= z <= 255)%Z /\ v = Z.to_N z) /\
    (exists c z o, In c cs /\ as_atv c = Some (o, AInt z) /\ oid_eqb o pcs_oid_OidPCESvn = true /\
                   (0 <= z <= 65535)%Z /\ tcPceSvn t = Z.to_N z) /\
    (exists c o, In c cs /\ as_atv c = Some (o, ABytes (tcCpuSvn t)) /\ oid_eqb o pcs_oid_OidCPUSvn = true /\
                 length (tcCpuSvn t) = 16).
Proof. exact extract_tcb_sound. Qed.

(* Octet-string values have exactly the field's size and are the extension's
   octets - or, only when those have another size, the inner octets of a nested
   DER OCTET STRING of the right size (the recorded leniency, KNOWN-FINDING). *)
Theorem C13_octets_sound : forall value size b,
  octet_value decode value size = Ok b ->
  length b = size /\
  (b = value \/
   (length value <> size /\ exists n, decode value = Some (n, 0) /\ is_universal n 4 false = true /\ b = n_content n)).
Proof. exact (octet_value_sound decode). Qed.

(* Whatever the order of the elements: permuting the 18 TCB elements, or the
   sub-extensions of the SGX extension (whose TCB element may itself be permuted
   inside), changes neither the values returned nor whether an error is returned. *)
Theorem C13_tcb_order : forall elem elem' f f' s s' cs cs',
  as_seq elem = Some [f; s] -> as_seq elem' = Some [f'; s'] ->
  as_seq s = Some cs -> as_seq s' = Some cs' -> Permutation cs cs' ->
  extract_tcb elem = extract_tcb elem'.
Proof. exact extract_tcb_perm. Qed.
Theorem C13_sgx_order : forall es es', Permutation es es' -> extract_sgx decode es = extract_sgx decode es'.
Proof. exact (extract_sgx_perm decode). Qed.
End C13.
Print Assumptions C13_total.
Print Assumptions C13_tcb_sound.
Print Assumptions C13_octets_sound.
Print Assumptions C13_tcb_order.
Print Assumptions C13_sgx_order.
