(* C08 — Policy validation accepts exactly the quotes that meet every stated expectation. *)
From V Require Import Model.Validate Proofs.Validate Gen.ValidateConsts.

(* Success exactly when every configured expectation holds.  [expectations]
   (Proofs/Validate.v) is the declarative reading: each configured exact-match
   field (an entry is configured when non-empty; it must then have the field's
   size) equals the quote's, each given RTMR likewise, MR_TD is one of the
   allowed values, QE SVN / PCE SVN / every TEE_TCB_SVN component are at least
   their minimum, and XFAM / TD_ATTRIBUTES respect the fixed-1 / fixed-0 masks
   bit by bit. *)
Theorem C08_iff : forall q o h b,
  check_quote (Some q) = Ok tt -> qHeader q = Some h -> qBody q = Some b ->
  (validate (Some q) (Some o) = Ok tt <-> expectations h b o).
Proof. exact validate_iff. Qed.
Print Assumptions C08_iff.

(* For every options value and every message — absent, empty, wrongly sized
   entries, nil sub-messages included — validation returns; it never crashes. *)
Theorem C08_total : forall q o, validate q o <> Panic.
Proof. exact validate_total. Qed.
Print Assumptions C08_total.

(* The masks, bit by bit. *)
Theorem C08_mask_bits : forall f1 f0 v,
  mask_ok f1 f0 v <->
  (forall i, N.testbit f1 i = true -> N.testbit v i = true) /\
  (forall i, N.testbit v i = true -> N.testbit f0 i = true).
Proof. intros; reflexivity. Qed.

(* non-vacuity: the premises are met by a concrete message; one matching and one
   mismatching expectation give the two verdicts *)
Definition ex_header : header :=
  {| hVersion := 4; hAkt := 2; hTee := 129; hPceSvn := [x05; x00]; hQeSvn := [x03; x00];
     hVendor := repeat x01 16; hUser := repeat x02 20 |}.
Definition ex_body : tdbody :=
  {| bTeeTcbSvn := repeat x03 16; bMrSeam := repeat x04 48; bMrSignerSeam := repeat x05 48;
     bSeamAttr := repeat x00 8; bTdAttr := repeat x00 8; bXfam := x03 :: repeat x00 7;
     bMrTd := repeat x06 48; bMrConfigId := repeat x07 48; bMrOwner := repeat x08 48;
     bMrOwnerConfig := repeat x09 48; bRtmrs := repeat (repeat x0a 48) 4; bReportData := repeat x0b 64 |}.
Definition ex_quote : quote :=
  {| qHeader := Some ex_header; qBody := Some ex_body; qSignedDataSize := 0;
     qSigned := Some {| sSig := repeat x00 64; sKey := repeat x00 64;
       sCert := Some {| cType := 6; cSize := 0; cQercd := Some
         {| qReport := Some {| rCpuSvn := repeat x00 16; rMiscSelect := 0; rReserved1 := repeat x00 28;
                               rAttributes := repeat x00 16; rMrEnclave := repeat x00 32;
                               rReserved2 := repeat x00 32; rMrSigner := repeat x00 32;
                               rReserved3 := repeat x00 96; rIsvProdId := 1; rIsvSvn := 2;
                               rReserved4 := repeat x00 60; rReportData := repeat x00 64 |};
            qSig := repeat x00 64; qAuth := Some {| aSize := 0; aData := [] |};
            qPck := Some {| pType := 5; pSize := 0; pChain := [] |} |} |} |};
     qExtra := [] |}.
Definition ex_opts (mrtd : bytes) : vopts :=
  {| oMinQeSvn := 3; oMinPceSvn := 5; oQeVendorId := None; oMinTeeTcbSvn := Some (repeat x03 16);
     oMrSeam := None; oTdAttr := None; oXfam := None; oMrTd := Some mrtd; oMrConfigId := None;
     oMrOwner := None; oMrOwnerConfig := None; oRtmrs := []; oReportData := None; oAnyMrTd := [] |}.

Example C08_nonvacuous :
  check_quote (Some ex_quote) = Ok tt /\
  validate (Some ex_quote) (Some (ex_opts (repeat x06 48))) = Ok tt /\
  validate (Some ex_quote) (Some (ex_opts (repeat x07 48))) = Err EPolicy.
Proof. vm_compute. repeat split. Qed.
