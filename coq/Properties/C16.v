(* C16 — Parsing copies, checking never writes: quotes can be shared across goroutines.
   Stated over the block heap of Model/Heap.v (blocks hold their full capacity)
   and the slice-level programs of Model/HeapProgs.v. *)
From Coq Require Import String.
From V Require Import Lib.Bytes Lib.Res Model.Abi Model.HeapProgs Model.HeapSites Gen.WriteSites
  Proofs.Heap Proofs.HeapProgs Proofs.HeapCalls Proofs.HeapSites.

(* A parsed quote shares no memory with the buffer it was parsed from: every
   field of the result is the nil slice or lies in a block allocated by the call
   (so in no block that existed before it: the raw input's, any other
   goroutine's), and the call writes nothing but blocks it allocated. *)
Theorem C16_parse_shares_nothing : forall t raw n h q n' h' w,
  readable_s t raw -> run t (parse_h raw) n h = (Some (Ok q), n', h', w) ->
  hq_all (fun s => s = nil_slice \/ (fresh_s t n s /\ forall b, allocated_before t n b -> sb s <> b)) q /\
  (forall b, own t b = false -> h' b = h b) /\
  Forall (fun e => own t (fst (fst e)) = true) w.
Proof. exact parse_shares_nothing. Qed.

(* Verification, validation, chain extraction, serialisation and masking never
   write a byte of a block they did not allocate themselves -- whatever the
   layout of the message (fields overlapping, spare capacity behind a field,
   option byte strings anywhere): every foreign block is identical before and
   after, to its full capacity. *)
Theorem C16_checks_never_write : forall t c n h r n' h' w,
  call_ok t c -> run t (prog_of c) n h = (r, n', h', w) ->
  (forall b, own t b = false -> h' b = h b) /\ Forall (fun e => own t (fst (fst e)) = true) w.
Proof. exact call_never_writes. Qed.

(* One message, many goroutines, each with its own options, any schedule: every
   goroutine passes through exactly the states of its solo run (so it ends with
   the same verdict), no two goroutines ever touch the same block with one of
   them writing, and the shared data stays as it was. *)
Theorem C16_concurrent_as_solo : forall (cs : list call) (s : list nat) (h : heap) i c,
  Forall call_shared cs -> nth_error cs i = Some c ->
  let c' := exec s (threads_of cs, h) in
  let '(ps, ns, hs) := solo (count i s) i (prog_of c) 0 h in
  nth_error (fst c') i = Some (ps, ns) /\ same_view i (snd c') hs.
Proof. exact concurrent_as_solo. Qed.

Theorem C16_no_conflicting_access : forall i j b,
  i <> j -> own i b = true -> readable j b = false /\ own j b = false.
Proof. exact no_conflict. Qed.

Theorem C16_shared_unchanged : forall (cs : list call) (s : list nat) (h : heap),
  Forall call_shared cs -> forall n, snd (exec s (threads_of cs, h)) (Sh n) = h (Sh n).
Proof. exact concurrent_shared_unchanged. Qed.

(* the big-step run used above and by the correspondence harness is the solo
   small-step run carried to its end *)
Theorem C16_run_is_solo : forall t (p : hprog cres) n h,
  exists k, let '(r, n', h', _) := run t p n h in
            solo k t p n h = (match r with Some a => Ret a | None => Fail end, n', h').
Proof. intros t p. exact (run_solo t p). Qed.

(* The discipline has teeth: verifyHash256 as it stood before the repair
   (append(attestKey, qeAuthData...)) writes the spare capacity behind the
   attestation key of a parsed quote. *)
Theorem C16_unrepaired_append_refuted :
  writes_of (run 0 (verify_hash256_unrepaired demo_sha demo_quote) 0 demo_heap) = [(Sh 1, 128, 32)] /\
  slice 128 160 (heap_of (run 0 (verify_hash256_unrepaired demo_sha demo_quote) 0 demo_heap) (Sh 1)) = repeat x01 32 /\
  ~ safe 0 0 Tr (verify_hash256_unrepaired demo_sha demo_quote).
Proof. exact unrepaired_writes_shared. Qed.

(* Tie to the source: of the write sites (append / copy / index assignment /
   PutUintN / library routines that fill a slice) found in abi, verify,
   validate, pcs and rtmr of /repo on this run, every one is classified, and the
   only destination that is not a buffer made by the same call is the OID literal
   of pcs.sgxTcbComponentOid (Model/HeapSites.v lists which heap program stands
   for which function). *)
Theorem C16_inventory : classes_known write_sites = true /\ shared_files_of write_sites = allowed_shared_files.
Proof. exact (conj inventory_classified shared_destinations). Qed.

Print Assumptions C16_parse_shares_nothing.
Print Assumptions C16_checks_never_write.
Print Assumptions C16_concurrent_as_solo.
Print Assumptions C16_no_conflicting_access.
Print Assumptions C16_shared_unchanged.
Print Assumptions C16_run_is_solo.
Print Assumptions C16_unrepaired_append_refuted.
Print Assumptions C16_inventory.
