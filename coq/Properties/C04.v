(* C04 — TCB status follows Intel's algorithm; only an UpToDate platform and module pass. *)
From V Require Import Model.Tcb Proofs.Tcb.

(* The TD-body check of a quote succeeds iff FMSPC (case-insensitively), PCE-ID,
   MRSIGNERSEAM and the masked SEAM attributes match the TCB Info, the first TCB
   level in listed order that matches the platform is UpToDate, and - when
   TEE_TCB_SVN[1] is non-zero - the first identity TDX_<version> has as its first
   level with isvsvn <= TEE_TCB_SVN[0] an UpToDate level. *)
Theorem C04_accept_iff : forall b ti ext, length (bTeeTcbSvn b) = 16 ->
  (verify_td_body b ti ext = Ok tt <->
   td_identity b ti ext /\ tcb_accept ti (map bN (bTeeTcbSvn b)) ext).
Proof. exact verify_td_body_ok. Qed.
Print Assumptions C04_accept_iff.

(* what "matches the platform" means: every SGX component, the PCE SVN and the
   TDX components from index 2 (when TEE_TCB_SVN[1] > 0) or 0 are not above the
   platform's *)
Theorem C04_level_matches : forall tee pce cpu l, 2 <= length tee ->
  level_matches tee pce cpu l = true <->
  Forall2 (fun h n => (n <= h)%N) cpu (tSgx (lTcb l)) /\
  (tPceSvn (lTcb l) <= pce)%N /\
  length tee = length (tTdx (lTcb l)) /\
  let start := if N.ltb 0 (nth 1 tee 0%N) then 2 else 0 in
  Forall2 (fun h n => (n <= h)%N) (skipn start tee) (skipn start (tTdx (lTcb l))).
Proof. exact level_matches_spec. Qed.
Print Assumptions C04_level_matches.

(* "first in listed order" *)
Theorem C04_first_match : forall tee pce cpu levels l,
  find (level_matches tee pce cpu) levels = Some l <->
  exists pre post, levels = pre ++ l :: post /\
    Forall (fun y => level_matches tee pce cpu y = false) pre /\ level_matches tee pce cpu l = true.
Proof. intros. apply find_some_iff. Qed.
Print Assumptions C04_first_match.

Theorem C04_module_level : forall mods id n l,
  matching_module_level mods id n = Some l <->
  exists m, find (fun m => bytes_eqb id (miId m)) mods = Some m /\ first_applicable (miLevels m) n l.
Proof. exact matching_module_level_spec. Qed.
Print Assumptions C04_module_level.

(* If no level matches, verification fails and the reporting API returns an
   error rather than an empty level. *)
Theorem C04_no_match_fails : forall ti tee ext qi isv, 2 <= length tee ->
  find (level_matches tee (ePceSvn ext) (eCpuSvnComps ext)) (tiLevels ti) = None ->
  check_tcb_status ti tee ext = Err ETcb /\ supported_levels ti qi tee ext isv = Err ETcb.
Proof. exact no_match_fails. Qed.
Print Assumptions C04_no_match_fails.

Theorem C04_supported_levels : forall ti qi tee ext isv l q, 2 <= length tee ->
  supported_levels ti qi tee ext isv = Ok (l, q) ->
  (exists p, find (level_matches tee (ePceSvn ext) (eCpuSvnComps ext)) (tiLevels ti) = Some p) /\
  first_applicable (qiLevels qi) isv q.
Proof. exact supported_levels_ok. Qed.
Print Assumptions C04_supported_levels.

Theorem C04_total : forall b ti ext, length (bTeeTcbSvn b) = 16 -> verify_td_body b ti ext <> Panic.
Proof. exact verify_td_body_np. Qed.
Print Assumptions C04_total.

(* non-vacuity: an OutOfDate platform level is rejected although the module level is UpToDate *)
Definition ex_level (s : status) : tcblevel :=
  {| lTcb := {| tSgx := repeat 1%N 16; tPceSvn := 5; tTdx := repeat 1%N 16; tIsvSvn := 0 |}; lStatus := s |}.
Definition ex_ti (s : status) : tcbinfo :=
  {| tiId := []; tiVersion := 3; tiNextUpdate := 0%Z; tiFmspc := [x61]; tiPceId := [x30];
     tiModMrsigner := []; tiModAttributes := []; tiModAttrMask := [];
     tiModules := [{| miId := module_id 1; miLevels := [{| lTcb := {| tSgx := []; tPceSvn := 0; tTdx := []; tIsvSvn := 2 |}; lStatus := UpToDate |}] |}];
     tiLevels := [ex_level s] |}.
Definition ex_ext : pckext := {| eFmspc := [x41]; ePceId := [x30]; eCpuSvnComps := repeat 2%N 16; ePceSvn := 7 |}.
Example C04_nonvacuous :
  check_tcb_status (ex_ti UpToDate) (3 :: 1 :: repeat 2 14)%N ex_ext = Ok tt /\
  check_tcb_status (ex_ti OutOfDate) (3 :: 1 :: repeat 2 14)%N ex_ext = Err ETcb.
Proof. vm_compute. split; reflexivity. Qed.
