(* C15 — The guest client relays device data exactly; every device failure is an error. *)
From V Require Import Model.Client Proofs.Client Gen.ClientConsts.

(* Success exactly when both requests succeed with status 0 and
   0 < OutLen <= buffer size; the result is then the first OutLen bytes of the
   buffer the device wrote into. *)
Theorem C15_ok_iff : forall d rd b,
  fst (via_device d rd) = Ret b false <->
  (rep_err d = false /\ rep_code d = 0%N /\
   q_err d = false /\ q_code d = 0%N /\ q_status d = 0%N /\
   (0 < q_outlen d <= labi_ReqBufSize)%N) /\
  b = firstn (N.to_nat (q_outlen d)) (data_after_quote d (td_report_of d)).
Proof. exact via_device_ok_iff. Qed.
Print Assumptions C15_ok_iff.

(* Any other device outcome yields an error with no data; never a crash. *)
Theorem C15_total : forall d rd,
  exists b e, fst (via_device d rd) = Ret b e /\ (e = true -> b = []).
Proof. exact via_device_total. Qed.
Print Assumptions C15_total.

Theorem C15_no_crash : forall q fb rd, fst (get_raw_quote q fb rd) <> Crash.
Proof. exact get_raw_quote_no_crash. Qed.
Print Assumptions C15_no_crash.

(* The caller's report data reaches the report request unchanged and the TD
   report the device returned reaches the quote request. *)
Theorem C15_relay : forall d rd,
  snd (via_device d rd) =
  match get_report d rd with
  | Ok tdr => [ReqReport rd; quote_request tdr]
  | _ => [ReqReport rd]
  end.
Proof. exact via_device_requests. Qed.
Print Assumptions C15_relay.

Theorem C15_relay_report : forall tdr,
  length tdr = td_report_size ->
  quote_request tdr =
  ReqQuote 1 0 labi_TdReportSize 0 labi_ReqBufSize (tdr ++ zeros (req_buf_size - td_report_size)).
Proof. exact quote_request_data. Qed.
Print Assumptions C15_relay_report.

(* The returned bytes are what the device wrote (not the TD report that was in
   the buffer) whenever the device wrote at least OutLen bytes. *)
Theorem C15_device_bytes : forall d rd b,
  fst (via_device d rd) = Ret b false ->
  N.to_nat (q_outlen d) <= length (q_write d) ->
  b = firstn (N.to_nat (q_outlen d)) (q_write d).
Proof. exact via_device_device_bytes. Qed.
Print Assumptions C15_device_bytes.

(* Provider path: verbatim when supported, device path otherwise. *)
Theorem C15_provider : forall p fb rd,
  p_supported p = true -> via_provider p fb rd = (Ret (p_bytes p) (p_err p), []).
Proof. exact via_provider_supported. Qed.
Print Assumptions C15_provider.

Theorem C15_fallback : forall p fb rd,
  p_supported p = false ->
  via_provider p fb rd = match fb with Some d => via_device d rd | None => (Ret [] true, []) end.
Proof. exact via_provider_fallback. Qed.
Print Assumptions C15_fallback.

(* non-vacuity: a device satisfying the success premises exists and yields data *)
Example C15_nonvacuous :
  let d := {| rep_err := false; rep_code := 0; rep_write := [x01; x02];
              q_err := false; q_code := 0; q_status := 0; q_outlen := 3;
              q_write := [x0a; x0b; x0c; x0d] |} in
  fst (via_device d [x07]) = Ret [x0a; x0b; x0c] false.
Proof. vm_compute. reflexivity. Qed.
