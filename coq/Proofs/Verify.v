(* Proofs about the verification flow (Model/Verify.v): what an accepted quote
   implies, link by link. *)
From V Require Import Model.Verify Model.Strs Proofs.Abi Proofs.Tcb Gen.AbiConsts Gen.VerifyConsts.
From Coq Require Import ZifyN ZifyNat ZifyBool.

(* ---- inversion helpers ---- *)
Ltac inv_if_as H E :=
  match type of H with
  | (if negb ?c then _ else _) = Ok _ =>
      destruct c eqn:E; cbn [negb] in H; [|discriminate H]
  | (if ?c then Err _ else _) = Ok _ => destruct c eqn:E; [discriminate H|]
  | (if ?c then xerr else _) = Ok _ => destruct c eqn:E; [discriminate H|]
  | (if ?c then rerr else _) = Ok _ => destruct c eqn:E; [discriminate H|]
  | (if ?c then cerr else _) = Ok _ => destruct c eqn:E; [discriminate H|]
  | (if ?c then aerr else _) = Ok _ => destruct c eqn:E; [discriminate H|]
  | (if ?c then ferr else _) = Ok _ => destruct c eqn:E; [discriminate H|]
  | (if ?c then _ else Err _) = Ok _ => destruct c eqn:E; [|discriminate H]
  | (if ?c then _ else aerr) = Ok _ => destruct c eqn:E; [|discriminate H]
  end.
Tactic Notation "inv_if" hyp(H) "as" ident(E) := inv_if_as H E.
Tactic Notation "inv_if" hyp(H) := let E := fresh "E" in inv_if_as H E.

Lemma seq_ok {B} (m : res unit) (k : res B) r : (m ;; k) = Ok r <-> m = Ok tt /\ k = Ok r.
Proof.
  split; [apply seq_ok_inv|]. intros [-> H]. exact H.
Qed.

Lemma reclass_ok {A} c (r : res A) a : reclass c r = Ok a <-> r = Ok a.
Proof. destruct r; cbn; split; intro H; congruence. Qed.

(* ---- validateCertificate ---- *)
Definition cert_valid (w : world) (c parent : cert) (phrase : bytes) : Prop :=
  cV3 c = true /\ cSigAlgOk c = true /\ cKeyAlgOk c = true /\ cCurveOk c = true /\
  cSubjectCN c = phrase /\ cIssuer c = cSubject parent /\ sig_from w c parent = true.

Lemma validate_certificate_ok w c p ph :
  validate_certificate w c p ph = Ok tt <-> cert_valid w c p ph.
Proof.
  unfold validate_certificate, cert_valid, cerr.
  destruct (cV3 c), (cSigAlgOk c), (cKeyAlgOk c), (cCurveOk c); cbn [negb];
    try (split; [discriminate|intros (?&?&?&?&_); discriminate]).
  destruct (bytes_eqb (cSubjectCN c) ph) eqn:E1; cbn [negb];
    [apply bytes_eqb_eq in E1|apply bytes_eqb_neq in E1; split; [discriminate|intros (_&_&_&_&?&_); contradiction]].
  destruct (bytes_eqb (cIssuer c) (cSubject p)) eqn:E2; cbn [negb];
    [apply bytes_eqb_eq in E2|apply bytes_eqb_neq in E2; split; [discriminate|intros (_&_&_&_&_&?&_); contradiction]].
  destruct (sig_from w c p); cbn [negb]; [tauto|].
  split; [discriminate|intros (_&_&_&_&_&_&?); discriminate].
Qed.

(* ---- path validation: an anchor in the pool ---- *)
Definition anchored (w : world) (leaf : cert) (inters roots : list cert) (t : Z) : Prop :=
  in_window leaf t = true /\
  ((exists r, In r roots /\ same_cert leaf r = true) \/
   (exists r, In r roots /\ issued w leaf r = true /\ in_window r t = true) \/
   (exists i, In i inters /\ issued w leaf i = true /\ in_window i t = true /\
      ((exists r, In r roots /\ same_cert i r = true) \/
       (exists r, In r roots /\ issued w i r = true /\ in_window r t = true)))).

Lemma path_ok_spec w leaf inters roots t :
  path_ok w leaf inters roots t = true <-> anchored w leaf inters roots t.
Proof.
  unfold path_ok, anchored.
  rewrite andb_true_iff, !orb_true_iff, !existsb_exists.
  split.
  - intros [Hw [[H|H]|H]]; split; auto.
    + destruct H as (r & Hr & H). right; left. apply andb_true_iff in H as [? ?]. eauto.
    + destruct H as (i & Hi & H). right; right.
      apply andb_true_iff in H as [H H3]. apply andb_true_iff in H as [H1 H2].
      exists i. repeat split; auto.
      apply orb_true_iff in H3 as [H3|H3]; apply existsb_exists in H3 as (r & Hr & H3); [left; eauto|right].
      apply andb_true_iff in H3 as [? ?]. eauto.
  - intros [Hw [H|[H|H]]]; split; auto.
    + destruct H as (r & Hr & H1 & H2). left; right. exists r. split; auto. now rewrite H1, H2.
    + destruct H as (i & Hi & H1 & H2 & H3). right. exists i. split; auto.
      rewrite H1, H2. cbn [andb]. apply orb_true_iff.
      destruct H3 as [(r & Hr & H3)|(r & Hr & H3 & H4)]; [left|right]; apply existsb_exists; exists r; split; auto.
      now rewrite H3, H4.
Qed.

(* a pool none of whose certificates is the leaf / the intermediate or verifies
   their signatures anchors nothing, whatever the names say *)
Lemma no_anchor w leaf inter roots t :
  (forall r, In r roots ->
     same_cert leaf r = false /\ sig_from w leaf r = false /\
     same_cert inter r = false /\ sig_from w inter r = false) ->
  path_ok w leaf [inter] roots t = false.
Proof.
  intro H. destruct (path_ok w leaf [inter] roots t) eqn:E; [|reflexivity].
  apply path_ok_spec in E as [_ [(r & Hr & E)|[(r & Hr & E & _)|(i & Hi & _ & _ & E)]]].
  - destruct (H r Hr) as (H1 & _). congruence.
  - destruct (H r Hr) as (_ & H2 & _). unfold issued in E. apply andb_true_iff in E as [_ E]. congruence.
  - destruct Hi as [<-|[]].
    destruct E as [(r & Hr & E)|(r & Hr & E & _)]; destruct (H r Hr) as (_ & _ & H3 & H4); [congruence|].
    unfold issued in E. apply andb_true_iff in E as [_ E]. congruence.
Qed.

(* ---- CRLs ---- *)
Definition crl_authentic (c : crl) (trusted : cert) : Prop :=
  rlIssuer c = cSubject trusted /\ In (cId trusted) (rlSignedBy c).

Lemma validate_crl_ok c t : validate_crl c t = Ok tt <-> exists c', c = Some c' /\ crl_authentic c' t.
Proof.
  unfold validate_crl, crl_authentic, rerr. destruct c as [c|]; [|split; [discriminate|intros (?&?&_); discriminate]].
  destruct (bytes_eqb (rlIssuer c) (cSubject t)) eqn:E1; cbn [negb].
  - apply bytes_eqb_eq in E1.
    destruct (existsb (N.eqb (cId t)) (rlSignedBy c)) eqn:E2; cbn [negb].
    + apply existsb_exists in E2 as (x & Hx & E2). apply N.eqb_eq in E2. subst x.
      split; [intros _; eauto|reflexivity].
    + split; [discriminate|]. intros (c' & Hc & _ & Hin). inversion Hc; subst c'.
      assert (existsb (N.eqb (cId t)) (rlSignedBy c) = true)
        by (apply existsb_exists; exists (cId t); split; [exact Hin|apply N.eqb_refl]).
      congruence.
  - apply bytes_eqb_neq in E1. split; [discriminate|]. intros (c' & Hc & Hi & _). inversion Hc; subst. contradiction.
Qed.

Lemma revoked_false c s : revoked c s = false <-> ~ In s (rlRevoked c).
Proof.
  unfold revoked. split.
  - intros H Hin. assert (existsb (bytes_eqb s) (rlRevoked c) = true)
      by (apply existsb_exists; exists s; split; [exact Hin|apply bytes_eqb_refl]). congruence.
  - intro H. destruct (existsb _ _) eqn:E; [|reflexivity].
    apply existsb_exists in E as (x & Hx & E). apply bytes_eqb_eq in E. subst. contradiction.
Qed.

(* ---- verifyPCKCertificationChain ---- *)
Record chain_facts (w : world) (ch : chain) (col : option collateral) (o : options) (now : timeset) (wall : Z) : Prop := {
  cf_root : cert_valid w (chRoot ch) (chRoot ch) s_rootCertPhrase;
  cf_inter : cert_valid w (chInter ch) (chRoot ch) s_intermediateCertPhrase;
  cf_leaf : cert_valid w (chLeaf ch) (chInter ch) s_pckCertPhrase;
  cf_anchor : anchored w (chLeaf ch) [chInter ch] (effective_roots w o) (x509_time (tPck now) wall);
  cf_revocation :
    optCheckRevocations o = true ->
    optGetCollateral o = true /\
    exists c rc pc, col = Some c /\ colRootCrl c = Some rc /\ colPckCrl c = Some pc /\
      crl_authentic rc (chRoot ch) /\ crl_authentic pc (chInter ch) /\
      rlIssuer pc = cIssuer (chLeaf ch) /\
      ~ In (cSerial (chInter ch)) (rlRevoked rc) /\ ~ In (cSerial (chLeaf ch)) (rlRevoked pc);
  cf_expiry :
    (tPck now <= cNotAfter (chRoot ch))%Z /\ (tPck now <= cNotAfter (chInter ch))%Z /\
    (tPck now <= cNotAfter (chLeaf ch))%Z
}.

Lemma after_false t l : after t l = false <-> (t <= l)%Z.
Proof. unfold after. rewrite Z.ltb_ge. reflexivity. Qed.

Lemma verify_pck_chain_inv w ch col o now wall :
  verify_pck_chain w ch col o now wall = Ok tt -> chain_facts w ch col o now wall.
Proof.
  unfold verify_pck_chain. intro H.
  apply seq_ok in H as [H1 H]. apply seq_ok in H as [H2 H]. apply seq_ok in H as [H3 H].
  apply seq_ok in H as [H4 H]. apply seq_ok in H as [H5 H].
  apply validate_certificate_ok in H1, H2, H3.
  inv_if H4 as Ep. apply path_ok_spec in Ep.
  inv_if H as X1. inv_if H as X2. inv_if H as X3. apply after_false in X1, X2, X3.
  constructor; auto.
  intro Hr. rewrite Hr in H5.
  destruct (optGetCollateral o); [|discriminate]. split; [reflexivity|].
  destruct col as [c|]; [|discriminate].
  apply seq_ok in H5 as [C1 H5]. apply seq_ok in H5 as [C2 H5].
  apply validate_crl_ok in C1 as (rc & Hrc & A1). apply validate_crl_ok in C2 as (pc & Hpc & A2).
  rewrite Hrc, Hpc in H5.
  inv_if H5 as Y1. apply bytes_eqb_eq in Y1. inv_if H5 as Y2. inv_if H5 as Y3.
  apply revoked_false in Y2, Y3.
  exists c, rc, pc. repeat split; auto; apply A1 || apply A2.
Qed.

(* ---- verifyResponse ---- *)
Record response_facts (w : world) (root signer : cert) (raw sigstr : bytes) (rc : option crl)
       (o : options) (t wall : Z) : Prop := {
  rf_root : cert_valid w root root s_rootCertPhrase;
  rf_signer : cert_valid w signer root s_tcbSigningPhrase;
  rf_anchor : anchored w signer [] (effective_roots w o) (x509_time t wall);
  rf_sig : exists sg, lookup sigstr (wHex w) = Some (Some sg) /\ length sg = 64 /\
                      ecdsa_ok w (cKey signer) raw sg = Ok true;
  rf_revocation :
    optCheckRevocations o = true ->
    optGetCollateral o = true /\
    exists c, rc = Some c /\ crl_authentic c root /\ ~ In (cSerial signer) (rlRevoked c)
}.

Lemma ora_ok {V} k (t : list (bytes * V)) v : ora k t = Ok v <-> lookup k t = Some v.
Proof. unfold ora, oracle_miss. destruct (lookup k t); split; intro H; congruence. Qed.

Lemma verify_response_inv w root signer raw sigstr rc o t wall :
  verify_response w root signer raw sigstr rc o t wall = Ok tt ->
  response_facts w root signer raw sigstr rc o t wall.
Proof.
  unfold verify_response. intro H.
  apply seq_ok in H as [H1 H]. apply seq_ok in H as [H2 H]. apply seq_ok in H as [H3 H].
  apply reclass_ok, validate_certificate_ok in H1. apply reclass_ok, validate_certificate_ok in H2.
  inv_if H3 as Ep. apply path_ok_spec in Ep.
  apply bind_ok in H as (h & Hh & H). apply ora_ok in Hh.
  destruct h as [sg|]; [|discriminate].
  inv_if H as El. apply Nat.eqb_eq in El. unfold abi_signatureSize_nat in El.
  apply bind_ok in H as (v & Hv & H). inv_if H as Ev. subst v.
  constructor; auto.
  - exists sg. auto.
  - intro Hr. rewrite Hr in H. destruct (optGetCollateral o); [|discriminate]. split; [reflexivity|].
    apply seq_ok in H as [C1 H]. apply validate_crl_ok in C1 as (c & -> & A).
    inv_if H as Er. apply revoked_false in Er. eauto.
Qed.

(* ---- verifyCollateral: presence and expiry ---- *)
Record collateral_facts (c : collateral) (o : options) (now : timeset) : Prop := {
  kf_nonzero : colTcbZero c = false /\ colQeZero c = false;
  kf_tcb : (tTcbInfo now <= tiNextUpdate (colTcbInfo c))%Z /\
           (tTcbInfo now <= cNotAfter (colTcbSigner c))%Z /\ (tTcbInfo now <= cNotAfter (colTcbRoot c))%Z;
  kf_qe : (tQeId now <= qiNextUpdate (colQeId c))%Z /\
          (tQeId now <= cNotAfter (colQeSigner c))%Z /\ (tQeId now <= cNotAfter (colQeRoot c))%Z;
  kf_crl : optCheckRevocations o = true ->
           exists rc pc ps pr, colRootCrl c = Some rc /\ colPckCrl c = Some pc /\
             colPckCrlSigner c = Some ps /\ colPckCrlRoot c = Some pr /\
             (tRootCrl now <= rlNextUpdate rc)%Z /\ (tPckCrl now <= rlNextUpdate pc)%Z /\
             (tPckCrl now <= cNotAfter ps)%Z /\ (tPckCrl now <= cNotAfter pr)%Z
}.

Lemma verify_collateral_inv col o now :
  verify_collateral col o now = Ok tt -> exists c, col = Some c /\ collateral_facts c o now.
Proof.
  unfold verify_collateral. destruct col as [c|]; [|discriminate]. intro H.
  inv_if H as Z1. inv_if H as Z2. apply seq_ok in H as [_ H].
  inv_if H as A1. inv_if H as A2. inv_if H as A3. inv_if H as A4. inv_if H as A5. inv_if H as A6.
  apply after_false in A1, A2, A3, A4, A5, A6.
  exists c. split; [reflexivity|]. constructor; auto.
  intro Hr. rewrite Hr in H.
  destruct (colRootCrl c) as [rc|]; [|discriminate]. destruct (colPckCrl c) as [pc|]; [|discriminate].
  destruct (colPckCrlSigner c) as [ps|]; [|discriminate]. destruct (colPckCrlRoot c) as [pr|]; [|discriminate].
  inv_if H as B1. inv_if H as B2. inv_if H as B3. inv_if H as B4. apply after_false in B1, B2, B3, B4.
  exists rc, pc, ps, pr. auto 10.
Qed.

Record tcbinfo_facts (w : world) (c : collateral) (o : options) (now : timeset) (wall : Z) : Prop := {
  tf_id : tiId (colTcbInfo c) = s_tcbInfoID;
  tf_version : tiVersion (colTcbInfo c) = verify_tcbInfoVersion;
  tf_levels : tiLevels (colTcbInfo c) <> [];
  tf_response : response_facts w (colTcbRoot c) (colTcbSigner c) (colTcbRaw c) (colTcbSig c)
                               (colRootCrl c) o (tTcbInfo now) wall
}.

Lemma verify_tcb_info_inv w c o now wall :
  verify_tcb_info w c o now wall = Ok tt -> tcbinfo_facts w c o now wall.
Proof.
  unfold verify_tcb_info. intro H.
  inv_if H as I1. apply bytes_eqb_eq in I1. inv_if H as I2. apply N.eqb_eq in I2. inv_if H as I3. apply Nat.eqb_neq in I3.
  apply verify_response_inv in H. constructor; auto.
  intro Hn. rewrite Hn in I3. now apply I3.
Qed.

Record qeidentity_facts (w : world) (c : collateral) (o : options) (now : timeset) (wall : Z) : Prop := {
  qf_id : qiId (colQeId c) = s_qeIdentityID;
  qf_version : qiVersion (colQeId c) = verify_qeIdentityVersion;
  qf_levels : qiLevels (colQeId c) <> [];
  qf_response : response_facts w (colQeRoot c) (colQeSigner c) (colQeRaw c) (colQeSig c)
                               (colRootCrl c) o (tQeId now) wall
}.

Lemma verify_qe_identity_inv w c o now wall :
  verify_qe_identity w c o now wall = Ok tt -> qeidentity_facts w c o now wall.
Proof.
  unfold verify_qe_identity. intro H.
  inv_if H as I1. apply bytes_eqb_eq in I1. inv_if H as I2. apply N.eqb_eq in I2. inv_if H as I3. apply Nat.eqb_neq in I3.
  apply verify_response_inv in H. constructor; auto.
  intro Hn. rewrite Hn in I3. now apply I3.
Qed.

(* ---- the quote's own signature chain ---- *)
Record sig_facts (w : world) (q : quote) (leaf : cert) : Prop := {
  sf_key_size : length (att_key q) = 64;
  sf_on_curve : lookup (att_key q) (wCurve w) = Some true;
  sf_quote_sig : exists hb bb, ser_header (qHeader q) = Ok hb /\ ser_body (qBody q) = Ok bb /\
                   ecdsa_ok w (att_key q) (hb ++ bb) (quote_sig q) = Ok true;
  sf_qe_sig : exists qe rb, quote_qercd q = Some qe /\ ser_report (qReport qe) = Ok rb /\
                ecdsa_ok w (cKey leaf) rb (qSig qe) = Ok true /\
                (* verifyHash256 *)
                exists d, lookup (att_key q ++ match qAuth qe with Some a => aData a | None => [] end) (wSha w) = Some d /\
                  d ++ zeros (length (match qReport qe with Some r => rReportData r | None => [] end) - length d)
                  = match qReport qe with Some r => rReportData r | None => [] end
}.

Lemma verify_quote_sigs_inv w q leaf : verify_quote_sigs w q leaf = Ok tt -> sig_facts w q leaf.
Proof.
  unfold verify_quote_sigs. intro H.
  inv_if H as S1. apply Nat.eqb_eq in S1. unfold verify_pubKeySize_nat in S1.
  apply bind_ok in H as (oc & Hoc & H). apply ora_ok in Hoc. inv_if H as S2. subst oc.
  inv_if H as S3.
  apply bind_ok in H as (hb & Hhb & H). apply reclass_ok in Hhb.
  apply bind_ok in H as (bb & Hbb & H). apply reclass_ok in Hbb.
  apply bind_ok in H as (v & Hv & H). inv_if H as S4. subst v.
  destruct (quote_qercd q) as [qe|] eqn:Eq; [|discriminate].
  apply bind_ok in H as (rb & Hrb & H). apply reclass_ok in Hrb.
  inv_if H as S5.
  apply bind_ok in H as (v2 & Hv2 & H). inv_if H as S6. subst v2.
  apply bind_ok in H as (d & Hd & H). apply ora_ok in Hd.
  inv_if H as S7. apply bytes_eqb_eq in S7.
  constructor; eauto 10.
Qed.

(* ---- verifyQuote with collateral: TD body and QE report checks ---- *)
Lemma verify_quote_inv w q ch col ext :
  verify_quote w q ch col ext = Ok tt ->
  sig_facts w q (chLeaf ch) /\
  (forall c, col = Some c ->
     exists b qe r, qBody q = Some b /\ quote_qercd q = Some qe /\ qReport qe = Some r /\
       verify_td_body b (colTcbInfo c) ext = Ok tt /\ verify_qe_report r (colQeId c) = Ok tt).
Proof.
  unfold verify_quote. intro H. apply seq_ok in H as [Hs H]. apply verify_quote_sigs_inv in Hs.
  split; [exact Hs|]. intros c ->.
  destruct (qBody q) as [b|]; [|discriminate]. destruct (quote_qercd q) as [qe|]; [|discriminate].
  apply seq_ok in H as [Ht H]. destruct (qReport qe) as [r|] eqn:Er; [|discriminate].
  exists b, qe, r. auto.
Qed.

(* ---- verifyEvidenceV4 ---- *)
Lemma verify_evidence_inv w q ch col ext o now wall :
  verify_evidence w q ch col ext o now wall = Ok tt ->
  chain_facts w ch col o now wall /\
  (optGetCollateral o = true ->
     exists c, col = Some c /\ collateral_facts c o now /\
               tcbinfo_facts w c o now wall /\ qeidentity_facts w c o now wall) /\
  verify_quote w q ch col ext = Ok tt.
Proof.
  unfold verify_evidence. intro H.
  apply seq_ok in H as [_ H]. apply seq_ok in H as [Hc H]. apply seq_ok in H as [Hk H].
  apply verify_pck_chain_inv in Hc. split; [exact Hc|]. split; [|exact H].
  intro Hg. rewrite Hg in Hk. apply seq_ok in Hk as [K1 K2].
  apply verify_collateral_inv in K1 as (c & -> & K1).
  apply seq_ok in K2 as [K2 K3]. apply verify_tcb_info_inv in K2. apply verify_qe_identity_inv in K3.
  eauto 10.
Qed.

(* ---- fetching ---- *)
Lemma fbind_ok {A B} (m : fetching A) (k : A -> fetching B) b :
  fst (fbind m k) = Ok b -> exists a, fst m = Ok a /\ fst (k a) = Ok b.
Proof. unfold fbind. destruct (fst m); cbn; intro H; try discriminate. eauto. Qed.

(* what getTcbInfo returns is what the signed member decodes to *)
Lemma get_tcb_info_inv w fmspc ti tsig traw tzero tsigner troot :
  fst (get_tcb_info w fmspc) = Ok (ti, tsig, traw, tzero, tsigner, troot) ->
  exists rsp j, fetch w (tcb_info_url fmspc) = Some rsp /\
    lookup (rspBody rsp) (wTcbJson w) = Some j /\
    tjRaw j = Some traw /\ tjMember j = Some ti /\ tjSignature j = tsig /\
    header_to_issuer_chain w (rspHeaders rsp) hdr_tcb_info = Ok (tsigner, troot).
Proof.
  unfold get_tcb_info, fbind, fget, fret. cbn [fst snd].
  destruct (fetch w (tcb_info_url fmspc)) as [rsp|]; [|discriminate]. intro H.
  apply bind_ok in H as ([s r] & Hch & H). apply bind_ok in H as (j & Hj & H). apply ora_ok in Hj.
  inv_if H. inv_if H.
  destruct (tjRaw j) as [raw|] eqn:Er; [|discriminate]. destruct (tjMember j) as [m|] eqn:Em; [|discriminate].
  apply Ok_inj in H. inversion H; subst. cbn [fst snd] in *. eauto 10.
Qed.

Lemma get_qe_identity_inv w qi qsig qraw qzero qsigner qroot :
  fst (get_qe_identity w) = Ok (qi, qsig, qraw, qzero, qsigner, qroot) ->
  exists rsp j, fetch w qe_identity_url = Some rsp /\
    lookup (rspBody rsp) (wQeJson w) = Some j /\
    qjRaw j = Some qraw /\ qjMember j = Some qi /\ qjSignature j = qsig /\
    header_to_issuer_chain w (rspHeaders rsp) hdr_qe_identity = Ok (qsigner, qroot).
Proof.
  unfold get_qe_identity, fbind, fget, fret. cbn [fst snd].
  destruct (fetch w qe_identity_url) as [rsp|]; [|discriminate]. intro H.
  apply bind_ok in H as ([s r] & Hch & H). apply bind_ok in H as (j & Hj & H). apply ora_ok in Hj.
  inv_if H. inv_if H.
  destruct (qjRaw j) as [raw|] eqn:Er; [|discriminate]. destruct (qjMember j) as [m|] eqn:Em; [|discriminate].
  apply Ok_inj in H. inversion H; subst. cbn [fst snd] in *. eauto 10.
Qed.

(* the collateral that drives the verdict: both documents are the decoded signed members *)
Definition collateral_from_signed (w : world) (fmspc : bytes) (c : collateral) : Prop :=
  (exists rsp j, fetch w (tcb_info_url fmspc) = Some rsp /\ lookup (rspBody rsp) (wTcbJson w) = Some j /\
     tjRaw j = Some (colTcbRaw c) /\ tjMember j = Some (colTcbInfo c) /\ tjSignature j = colTcbSig c /\
     header_to_issuer_chain w (rspHeaders rsp) hdr_tcb_info = Ok (colTcbSigner c, colTcbRoot c)) /\
  (exists rsp j, fetch w qe_identity_url = Some rsp /\ lookup (rspBody rsp) (wQeJson w) = Some j /\
     qjRaw j = Some (colQeRaw c) /\ qjMember j = Some (colQeId c) /\ qjSignature j = colQeSig c /\
     header_to_issuer_chain w (rspHeaders rsp) hdr_qe_identity = Ok (colQeSigner c, colQeRoot c)).

Lemma obtain_collateral_inv w fmspc ca o c :
  fst (obtain_collateral w fmspc ca o) = Ok c -> collateral_from_signed w fmspc c.
Proof.
  unfold obtain_collateral. intro H.
  apply fbind_ok in H as (t & Ht & H). apply fbind_ok in H as (q & Hq & H).
  destruct t as [[[[[ti tsig] traw] tzero] tsigner] troot].
  destruct q as [[[[[qi qsig] qraw] qzero] qsigner] qroot].
  apply get_tcb_info_inv in Ht. apply get_qe_identity_inv in Hq.
  destruct (optCheckRevocations o).
  - apply fbind_ok in H as (p & Hp & H). apply fbind_ok in H as (rc & Hrc & H).
    destruct p as [[pc ps] pr]. cbn [fret fst] in H. apply Ok_inj in H. subst c.
    split; cbn; assumption.
  - cbn [fret fst] in H. apply Ok_inj in H. subst c. split; cbn; assumption.
Qed.

(* ---- the whole of verify ---- *)
Definition now_of (o : options) (wall : Z) : timeset :=
  match optNow o with Some t => t | None => default_timeset wall end.

Theorem verify_accept_inv w q o wall :
  fst (verify w q (Some o) wall) = Ok tt ->
  exists qq ch ext col,
    q = Some qq /\ check_quote (Some qq) = Ok tt /\
    extract_chain w qq = Ok ch /\ cPckExt (chLeaf ch) = Some ext /\
    (optGetCollateral o = false -> col = None) /\
    (optGetCollateral o = true ->
       exists c ca, col = Some c /\ extract_ca (chLeaf ch) = Ok ca /\
                    fst (obtain_collateral w (eFmspc ext) ca o) = Ok c) /\
    verify_evidence w qq ch col ext o (now_of o wall) wall = Ok tt.
Proof.
  unfold verify, verify_v4. intro H.
  destruct (check_quote q) as [[]| |] eqn:Hck; [|discriminate|discriminate].
  destruct q as [qq|]; [|discriminate].
  destruct (extract_chain w qq) as [ch| |] eqn:Hch; [|discriminate|discriminate].
  destruct (cPckExt (chLeaf ch)) as [ext|] eqn:Hext; [|discriminate].
  fold (now_of o wall) in H.
  destruct (optGetCollateral o) eqn:Hg.
  - destruct (extract_ca (chLeaf ch)) as [ca| |] eqn:Hca; [|discriminate|discriminate].
    apply fbind_ok in H as (c & Hc & H). cbn [fret fst] in H.
    exists qq, ch, ext, (Some c). repeat split; auto; [discriminate|]. intros _. eauto.
  - cbn [fret fst] in H. exists qq, ch, ext, None. repeat split; auto. discriminate.
Qed.

(* ---- more checking never accepts more ---- *)
Definition drop_crl (o : options) : options :=
  {| optCheckRevocations := false; optGetCollateral := optGetCollateral o;
     optNow := optNow o; optRoots := optRoots o |}.
Definition drop_collateral (o : options) : options :=
  {| optCheckRevocations := false; optGetCollateral := false;
     optNow := optNow o; optRoots := optRoots o |}.

Definition strip_crl (c : collateral) : collateral :=
  {| colTcbInfo := colTcbInfo c; colTcbSig := colTcbSig c; colTcbRaw := colTcbRaw c; colTcbZero := colTcbZero c;
     colTcbSigner := colTcbSigner c; colTcbRoot := colTcbRoot c;
     colQeId := colQeId c; colQeSig := colQeSig c; colQeRaw := colQeRaw c; colQeZero := colQeZero c;
     colQeSigner := colQeSigner c; colQeRoot := colQeRoot c;
     colPckCrl := None; colPckCrlSigner := None; colPckCrlRoot := None; colRootCrl := None |}.

Lemma obtain_drop_crl w f ca o c :
  fst (obtain_collateral w f ca o) = Ok c ->
  fst (obtain_collateral w f ca (drop_crl o)) = Ok (strip_crl c).
Proof.
  unfold obtain_collateral. intro H.
  apply fbind_ok in H as (t & Ht & H). apply fbind_ok in H as (q & Hq & H).
  unfold fbind at 1. rewrite Ht. cbn [fst snd]. unfold fbind at 1. rewrite Hq. cbn [fst snd].
  destruct t as [[[[[ti tsig] traw] tzero] tsigner] troot].
  destruct q as [[[[[qi qsig] qraw] qzero] qsigner] qroot].
  cbn [drop_crl optCheckRevocations fret fst].
  destruct (optCheckRevocations o).
  - apply fbind_ok in H as (p & Hp & H). apply fbind_ok in H as (rc & Hrc & H).
    destruct p as [[pc ps] pr]. cbn [fret fst] in H. apply Ok_inj in H. subst c. reflexivity.
  - cbn [fret fst] in H. apply Ok_inj in H. subst c. reflexivity.
Qed.

Lemma if_true_ok (b : bool) (x : res unit) : b = true -> (if b then Ok tt else x) = Ok tt.
Proof. now intros ->. Qed.
Lemma if_false_ok (b : bool) (x y : res unit) : b = false -> y = Ok tt -> (if b then x else y) = Ok tt.
Proof. now intros -> ->. Qed.

Lemma verify_pck_chain_drop w ch col col' o o' now wall :
  optCheckRevocations o' = false -> optRoots o' = optRoots o ->
  verify_pck_chain w ch col o now wall = Ok tt ->
  verify_pck_chain w ch col' o' now wall = Ok tt.
Proof.
  intros Hr Hroots H. unfold verify_pck_chain in *.
  apply seq_ok in H as [H1 H]. apply seq_ok in H as [H2 H]. apply seq_ok in H as [H3 H].
  apply seq_ok in H as [H4 H]. apply seq_ok in H as [_ H].
  repeat (apply seq_ok; split); auto.
  - unfold effective_roots in *. rewrite Hroots. exact H4.
  - now rewrite Hr.
Qed.

Lemma verify_response_drop w root signer raw sg rc rc' o o' t wall :
  optCheckRevocations o' = false -> optRoots o' = optRoots o ->
  verify_response w root signer raw sg rc o t wall = Ok tt ->
  verify_response w root signer raw sg rc' o' t wall = Ok tt.
Proof.
  intros Hr Hroots H. unfold verify_response in *.
  apply seq_ok in H as [H1 H]. apply seq_ok in H as [H2 H]. apply seq_ok in H as [H3 H].
  repeat (apply seq_ok; split); auto.
  - unfold effective_roots in *. rewrite Hroots. exact H3.
  - apply bind_ok in H as (h & Hh & H). rewrite Hh. cbn [bind].
    destruct h as [s|]; [|discriminate].
    inv_if H as El. apply bind_ok in H as (v & Hv & H). rewrite Hv. cbn [bind].
    inv_if H as Ev. now rewrite Hr.
Qed.

Lemma verify_evidence_drop_crl w q ch c ext o now wall :
  verify_evidence w q ch (Some c) ext o now wall = Ok tt ->
  optGetCollateral o = true ->
  verify_evidence w q ch (Some (strip_crl c)) ext (drop_crl o) now wall = Ok tt.
Proof.
  intros H Hg. unfold verify_evidence in *.
  apply seq_ok in H as [H0 H]. apply seq_ok in H as [H1 H]. apply seq_ok in H as [H2 H].
  rewrite Hg in H2. apply seq_ok in H2 as [K1 K2]. apply seq_ok in K2 as [K2 K3].
  apply seq_ok; split; [exact H0|]. apply seq_ok; split; [|apply seq_ok; split; [|exact H]].
  - eapply verify_pck_chain_drop with (o := o) (col := Some c); [reflexivity|reflexivity|exact H1].
  - cbn [drop_crl optGetCollateral]. rewrite Hg. apply seq_ok. split; [|apply seq_ok; split].
    + (* verify_collateral *)
      unfold verify_collateral in *. cbn [strip_crl drop_crl optCheckRevocations colTcbZero colQeZero
        colTcbInfo colQeId colTcbSigner colTcbRoot colQeRoot colQeSigner].
      inv_if K1 as Z1. inv_if K1 as Z2. apply seq_ok in K1 as [_ K1].
      inv_if K1 as A1. inv_if K1 as A2. inv_if K1 as A3. inv_if K1 as A4. inv_if K1 as A5. inv_if K1 as A6.
      cbn [bind]. reflexivity.
    + unfold verify_tcb_info in *. cbn [strip_crl colTcbInfo colTcbRoot colTcbSigner colTcbRaw colTcbSig colRootCrl].
      inv_if K2 as I1. inv_if K2 as I2. inv_if K2 as I3.
      eapply verify_response_drop with (o := o) (rc := colRootCrl c); [reflexivity|reflexivity|exact K2].
    + unfold verify_qe_identity in *. cbn [strip_crl colQeId colQeRoot colQeSigner colQeRaw colQeSig colRootCrl].
      inv_if K3 as I1. inv_if K3 as I2. inv_if K3 as I3.
      eapply verify_response_drop with (o := o) (rc := colRootCrl c); [reflexivity|reflexivity|exact K3].
Qed.

Theorem mono_crl w q o wall :
  optGetCollateral o = true ->
  fst (verify w q (Some o) wall) = Ok tt ->
  fst (verify w q (Some (drop_crl o)) wall) = Ok tt.
Proof.
  intros Hg H. apply verify_accept_inv in H as (qq & ch & ext & col & -> & Hck & Hch & Hext & _ & Hcol & Hev).
  destruct (Hcol Hg) as (c & ca & -> & Hca & Hob).
  unfold verify, verify_v4. rewrite Hck, Hch, Hext.
  cbn [drop_crl optGetCollateral optNow]. rewrite Hg, Hca.
  apply obtain_drop_crl in Hob.
  unfold fbind. cbn [drop_crl] in Hob |- *. rewrite Hob. cbn [fst snd fret].
  apply verify_evidence_drop_crl in Hev; [|exact Hg].
  unfold now_of in Hev. exact Hev.
Qed.

Lemma verify_quote_drop_collateral w q ch c ext :
  verify_quote w q ch (Some c) ext = Ok tt -> verify_quote w q ch None ext = Ok tt.
Proof.
  unfold verify_quote. intro H. apply seq_ok in H as [H _]. apply seq_ok. auto.
Qed.

Theorem mono_collateral w q o wall :
  optGetCollateral o = true -> optCheckRevocations o = false ->
  fst (verify w q (Some o) wall) = Ok tt ->
  fst (verify w q (Some (drop_collateral o)) wall) = Ok tt.
Proof.
  intros Hg Hr H. apply verify_accept_inv in H as (qq & ch & ext & col & -> & Hck & Hch & Hext & _ & Hcol & Hev).
  destruct (Hcol Hg) as (c & ca & -> & Hca & Hob).
  unfold verify, verify_v4. rewrite Hck, Hch, Hext.
  cbn [drop_collateral optGetCollateral optNow fret fst].
  unfold now_of in Hev. unfold verify_evidence in *.
  apply seq_ok in Hev as [H0 Hev]. apply seq_ok in Hev as [H1 Hev]. apply seq_ok in Hev as [_ Hev].
  apply seq_ok; split; [exact H0|]. apply seq_ok; split; [|apply seq_ok; split; [reflexivity|]].
  - eapply verify_pck_chain_drop with (o := o) (col := Some c); [reflexivity|reflexivity|exact H1].
  - eapply verify_quote_drop_collateral; exact Hev.
Qed.

(* ---- what is fetched ---- *)
Theorem no_collateral_no_fetch w q o wall :
  optGetCollateral o = false -> snd (verify w q (Some o) wall) = [].
Proof.
  intro Hg. unfold verify, verify_v4.
  destruct (check_quote q) as [[]| |]; try reflexivity.
  destruct q as [qq|]; [|reflexivity].
  destruct (extract_chain w qq); try reflexivity.
  destruct (cPckExt (chLeaf a)); try reflexivity.
  now rewrite Hg.
Qed.

Lemma snd_fbind {A B} (m : fetching A) (k : A -> fetching B) u :
  In u (snd (fbind m k)) -> In u (snd m) \/ exists a, fst m = Ok a /\ In u (snd (k a)).
Proof.
  unfold fbind. destruct (fst m) eqn:E; cbn [snd]; intro H; auto.
  apply in_app_or in H as [H|H]; eauto.
Qed.

Lemma root_crl_loop_urls w urls u : In u (snd (get_root_crl_loop w urls)) -> In u urls.
Proof.
  induction urls as [|x r IH]; cbn [get_root_crl_loop fret snd]; [auto|].
  intro H. apply snd_fbind in H as [H|(a & _ & H)].
  - cbn in H. destruct H as [<-|[]]. now left.
  - destruct a as [rsp|]; [|right; now apply IH].
    destruct (ora (rspBody rsp) (wCrl w)) as [[c|]| |]; cbn in H; try contradiction. right; now apply IH.
Qed.

(* every URL requested is one of: the TCB-info URL naming the FMSPC, the QE
   identity URL, and - only with revocation checking - the PCK CRL URL naming the
   CA and a distribution point of the QE-identity issuer root *)
Theorem obtain_collateral_urls w fmspc ca o u :
  In u (snd (obtain_collateral w fmspc ca o)) ->
  u = tcb_info_url fmspc \/ u = qe_identity_url \/
  (optCheckRevocations o = true /\
   (u = pck_crl_url ca \/
    exists q, fst (get_qe_identity w) = Ok q /\ In u (cCrlDP (snd q)))).
Proof.
  unfold obtain_collateral. intro H.
  apply snd_fbind in H as [H|(t & Ht & H)].
  { unfold get_tcb_info in H. apply snd_fbind in H as [H|(a & _ & H)]; cbn in H; [|contradiction].
    destruct H as [<-|[]]. auto. }
  apply snd_fbind in H as [H|(q & Hq & H)].
  { unfold get_qe_identity in H. apply snd_fbind in H as [H|(a & _ & H)]; cbn in H; [|contradiction].
    destruct H as [<-|[]]. auto. }
  destruct t as [[[[[ti tsig] traw] tzero] tsigner] troot].
  destruct q as [[[[[qi qsig] qraw] qzero] qsigner] qroot].
  destruct (optCheckRevocations o) eqn:Hr; [|cbn in H; contradiction].
  right; right. split; [reflexivity|].
  apply snd_fbind in H as [H|(p & Hp & H)].
  { unfold get_pck_crl in H. apply snd_fbind in H as [H|(a & _ & H)]; cbn in H; [|contradiction].
    destruct H as [<-|[]]. auto. }
  apply snd_fbind in H as [H|(rc & Hrc & H)].
  - right. exists (qi, qsig, qraw, qzero, qsigner, qroot). split; [exact Hq|]. cbn [snd].
    unfold get_root_crl in H. destruct (Nat.eqb _ 0); [cbn in H; contradiction|].
    now apply root_crl_loop_urls in H.
  - destruct p as [[pc ps] pr]. cbn in H. contradiction.
Qed.

Theorem verify_urls w q o wall u :
  In u (snd (verify w q (Some o) wall)) ->
  exists qq ch ext ca, q = Some qq /\ extract_chain w qq = Ok ch /\ cPckExt (chLeaf ch) = Some ext /\
    extract_ca (chLeaf ch) = Ok ca /\ optGetCollateral o = true /\
    In u (snd (obtain_collateral w (eFmspc ext) ca o)).
Proof.
  unfold verify, verify_v4.
  destruct (check_quote q) as [[]| |]; cbn; try contradiction.
  destruct q as [qq|]; cbn; [|contradiction].
  destruct (extract_chain w qq) as [ch| |] eqn:Hch; cbn; try contradiction.
  destruct (cPckExt (chLeaf ch)) as [ext|] eqn:Hext; cbn; try contradiction.
  destruct (optGetCollateral o) eqn:Hg; cbn; [|contradiction].
  destruct (extract_ca (chLeaf ch)) as [ca| |] eqn:Hca; cbn; try contradiction.
  intro H. apply snd_fbind in H as [H|(c & _ & H)]; [|cbn in H; contradiction].
  exists qq, ch, ext, ca. auto 10.
Qed.

(* the CA named in the PCK CRL request is the one that issued the leaf *)
Lemma extract_ca_spec leaf ca : extract_ca leaf = Ok ca ->
  (cIssuerCN leaf = s_platformIssuer /\ ca = s_platformIssuerID) \/
  (cIssuerCN leaf = s_processorIssuer /\ ca = s_processorIssuerID).
Proof.
  unfold extract_ca, cerr.
  destruct (bytes_eqb (cIssuerCN leaf) s_platformIssuer) eqn:E1.
  - apply bytes_eqb_eq in E1. intro H. apply Ok_inj in H. auto.
  - destruct (bytes_eqb (cIssuerCN leaf) s_processorIssuer) eqn:E2; [|discriminate].
    apply bytes_eqb_eq in E2. intro H. apply Ok_inj in H. auto.
Qed.

(* ---- raw entry point ---- *)
Theorem verify_raw_accept w raw o wall :
  fst (verify_raw w raw o wall) = Ok tt ->
  exists q, parse raw = Ok q /\ fst (verify w (Some q) o wall) = Ok tt.
Proof.
  unfold verify_raw. destruct (parse raw) as [q| |]; cbn; try discriminate. eauto.
Qed.

(* ---- corollaries used by the property files ---- *)
Theorem accept_facts w q o wall :
  fst (verify w q (Some o) wall) = Ok tt ->
  exists qq ch ext col,
    q = Some qq /\ check_quote (Some qq) = Ok tt /\ extract_chain w qq = Ok ch /\
    cPckExt (chLeaf ch) = Some ext /\
    chain_facts w ch col o (now_of o wall) wall /\
    sig_facts w qq (chLeaf ch) /\
    (optGetCollateral o = false -> col = None) /\
    (optGetCollateral o = true ->
       exists c ca, col = Some c /\ extract_ca (chLeaf ch) = Ok ca /\
         fst (obtain_collateral w (eFmspc ext) ca o) = Ok c /\
         collateral_from_signed w (eFmspc ext) c /\
         collateral_facts c o (now_of o wall) /\
         tcbinfo_facts w c o (now_of o wall) wall /\ qeidentity_facts w c o (now_of o wall) wall /\
         exists b qe r, qBody qq = Some b /\ quote_qercd qq = Some qe /\ qReport qe = Some r /\
           verify_td_body b (colTcbInfo c) ext = Ok tt /\ verify_qe_report r (colQeId c) = Ok tt).
Proof.
  intro H. apply verify_accept_inv in H as (qq & ch & ext & col & -> & Hck & Hch & Hext & Hn & Hc & Hev).
  apply verify_evidence_inv in Hev as (Hcf & Hk & Hq).
  apply verify_quote_inv in Hq as (Hs & Hbody).
  exists qq, ch, ext, col.
  refine (conj eq_refl (conj Hck (conj Hch (conj Hext (conj Hcf (conj Hs (conj Hn _))))))).
  intro Hg. destruct (Hc Hg) as (c & ca & -> & Hca & Hob).
  destruct (Hk Hg) as (c' & Hc' & K1 & K2 & K3). inversion Hc'; subst c'.
  exists c, ca.
  refine (conj eq_refl (conj Hca (conj Hob (conj _ (conj K1 (conj K2 (conj K3 _))))))).
  - eapply obtain_collateral_inv; eassumption.
  - exact (Hbody c eq_refl).
Qed.

(* the message whose signature is checked is bytes 0..631 of the raw input *)
Theorem raw_signed_message w raw o wall :
  fst (verify_raw w raw (Some o) wall) = Ok tt ->
  exists q, parse raw = Ok q /\
    ecdsa_ok w (att_key q) (slice 0 632 raw) (quote_sig q) = Ok true.
Proof.
  intro H. apply verify_raw_accept in H as (q & Hp & H).
  apply accept_facts in H as (qq & ch & ext & col & Hq & _ & _ & _ & _ & Hs & _).
  inversion Hq; subst qq. exists q. split; [exact Hp|].
  destruct (sf_quote_sig _ _ _ Hs) as (hb & bb & Hh & Hb & He).
  destruct (parse_signed_prefix _ _ Hp) as [Hh' Hb'].
  rewrite Hh' in Hh. rewrite Hb' in Hb. apply Ok_inj in Hh, Hb. subst.
  rewrite slice_app in He by lia. exact He.
Qed.

(* the signed encodings determine the header / body / report: no field can change
   without changing a signed message *)
Theorem ser_header_injective h1 h2 d :
  ser_header (Some h1) = Ok d -> ser_header (Some h2) = Ok d -> h1 = h2.
Proof.
  intros H1 H2. apply ser_header_parse in H1 as [H1 _]. apply ser_header_parse in H2 as [H2 _]. congruence.
Qed.
Theorem ser_body_injective b1 b2 d :
  ser_body (Some b1) = Ok d -> ser_body (Some b2) = Ok d -> b1 = b2.
Proof.
  intros H1 H2. apply ser_body_parse in H1 as [H1 _]. apply ser_body_parse in H2 as [H2 _]. congruence.
Qed.
Theorem ser_report_injective r1 r2 d :
  u32 (rMiscSelect r1) -> u32 (rMiscSelect r2) ->
  ser_report (Some r1) = Ok d -> ser_report (Some r2) = Ok d -> r1 = r2.
Proof.
  intros U1 U2 H1 H2. apply (ser_report_parse _ _ U1) in H1 as [H1 _].
  apply (ser_report_parse _ _ U2) in H2 as [H2 _]. congruence.
Qed.

(* revocation asked for without collateral never succeeds *)
Theorem revocation_needs_collateral w q o wall :
  optCheckRevocations o = true -> optGetCollateral o = false ->
  fst (verify w q (Some o) wall) <> Ok tt.
Proof.
  intros Hr Hg H. apply accept_facts in H as (qq & ch & ext & col & _ & _ & _ & _ & Hcf & _).
  destruct (cf_revocation _ _ _ _ _ _ Hcf Hr) as (Hg' & _). congruence.
Qed.

(* a pool that neither contains nor certifies the chain's leaf / intermediate rejects *)
Theorem foreign_pool_rejects w q o wall :
  (forall qq ch, q = Some qq -> extract_chain w qq = Ok ch ->
     forall r, In r (effective_roots w o) ->
       same_cert (chLeaf ch) r = false /\ sig_from w (chLeaf ch) r = false /\
       same_cert (chInter ch) r = false /\ sig_from w (chInter ch) r = false) ->
  fst (verify w q (Some o) wall) <> Ok tt.
Proof.
  intros Hf H. apply accept_facts in H as (qq & ch & ext & col & Hq & _ & Hch & _ & Hcf & _).
  pose proof (cf_anchor _ _ _ _ _ _ Hcf) as Ha. apply path_ok_spec in Ha.
  rewrite (no_anchor w (chLeaf ch) (chInter ch)) in Ha; [discriminate|].
  exact (Hf qq ch Hq Hch).
Qed.
