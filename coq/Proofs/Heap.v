(* Generic facts about heap programs: the [safe] discipline composes, a safe
   program leaves every block it does not own untouched, and safe threads
   interleave without interference. *)
From V Require Import Lib.Bytes Lib.Res Model.Heap.

(* ---- composition ---- *)

Lemma safe_weaken {A} t lo lo' (Q Q' : A -> Prop) (p : hprog A) :
  lo' <= lo -> (forall a, Q a -> Q' a) -> safe t lo' Q p -> safe t lo Q' p.
Proof.
  intros Hlo HQ. induction p as [a| |n k IH|b off n k IH|b off d k IH]; cbn; intro H.
  - apply HQ, H.
  - exact I.
  - intros m Hm. apply IH, H. lia.
  - destruct H as [Hr H]. split; [exact Hr|]. intro d. apply IH, H.
  - destruct H as [Ho H]. split; [exact Ho|]. apply IH, H.
Qed.

Lemma safe_bind {A B} t lo (Q : A -> Prop) (R : B -> Prop) (p : hprog A) (f : A -> hprog B) :
  safe t lo Q p -> (forall a, Q a -> safe t lo R (f a)) -> safe t lo R (hbind p f).
Proof.
  intros Hp Hf. induction p as [a| |n k IH|b off n k IH|b off d k IH]; cbn in *.
  - apply Hf, Hp.
  - exact I.
  - intros m Hm. apply IH, Hp, Hm.
  - destruct Hp as [Hr Hp]. split; [exact Hr|]. intro d. apply IH, Hp.
  - destruct Hp as [Ho Hp]. split; [exact Ho|]. apply IH, Hp.
Qed.

Lemma own_readable t b : own t b = true -> readable t b = true.
Proof. destruct b; cbn; congruence. Qed.

Lemma fresh_own t lo s : fresh_s t lo s -> own_s t s.
Proof. intros [m [E _]]. unfold own_s. rewrite E. cbn. apply Nat.eqb_refl. Qed.

Lemma own_s_readable t s : own_s t s -> readable_s t s.
Proof. apply own_readable. Qed.

(* ---- the slice operations ---- *)

Lemma safe_sub t lo s i j : safe t lo (fun r => sb r = sb s) (sub s i j).
Proof. unfold sub. destruct (_ && _); cbn; [reflexivity|exact I]. Qed.

Lemma safe_sub_from t lo s i : safe t lo (fun r => sb r = sb s) (sub_from s i).
Proof. apply safe_sub. Qed.

Lemma safe_rd t lo s : readable_s t s -> safe t lo (fun _ => True) (rd s).
Proof. intro H. cbn. split; [exact H|]. intros _. exact I. Qed.

Lemma safe_make t lo n : safe t lo (fresh_s t lo) (make n).
Proof. cbn. intros m Hm. exists m. cbn. split; [reflexivity|exact Hm]. Qed.

Lemma safe_copy_bytes t lo dst d : own_s t dst -> safe t lo (fun _ => True) (copy_bytes dst d).
Proof. intro H. cbn. split; [exact H|exact I]. Qed.

Lemma safe_copy t lo dst src : own_s t dst -> readable_s t src -> safe t lo (fun _ => True) (copy dst src).
Proof.
  intros Hd Hs. unfold copy. eapply safe_bind; [apply safe_rd, Hs|].
  intros d _. apply safe_copy_bytes, Hd.
Qed.

Lemma safe_append_bytes t lo dst d : own_s t dst -> safe t lo (own_s t) (append_bytes dst d).
Proof.
  intro H. unfold append_bytes. destruct (Nat.leb _ _); cbn.
  - split; [exact H|exact H].
  - split; [apply own_readable, H|]. intros _ m _. split; [apply Nat.eqb_refl|].
    unfold own_s; cbn. apply Nat.eqb_refl.
Qed.

Lemma safe_append t lo dst src : own_s t dst -> readable_s t src -> safe t lo (own_s t) (append dst src).
Proof.
  intros Hd Hs. unfold append. eapply safe_bind; [apply safe_rd, Hs|].
  intros d _. apply safe_append_bytes, Hd.
Qed.

Lemma safe_clone t lo s : readable_s t s -> safe t lo (fresh_s t lo) (clone s).
Proof.
  intro H. unfold clone. eapply safe_bind; [apply safe_make|].
  intros r Hr. eapply safe_bind; [apply safe_copy; [eapply fresh_own, Hr|exact H]|].
  intros _ _. exact Hr.
Qed.

(* ---- a safe program leaves foreign blocks alone ---- *)

Lemma blk_eqb_eq a b : blk_eqb a b = true <-> a = b.
Proof.
  destruct a as [n|t n], b as [m|u m]; cbn; split; intro H; try discriminate; try congruence.
  - apply Nat.eqb_eq in H. congruence.
  - inversion H. apply Nat.eqb_refl.
  - apply andb_true_iff in H as [H1 H2]. apply Nat.eqb_eq in H1, H2. congruence.
  - inversion H. rewrite !Nat.eqb_refl. reflexivity.
Qed.

Lemma upd_other h b v b' : b <> b' -> upd h b v b' = h b'.
Proof.
  intro H. unfold upd. destruct (blk_eqb b b') eqn:E; [|reflexivity].
  apply blk_eqb_eq in E. contradiction.
Qed.

Lemma upd_same h b v : upd h b v b = v.
Proof. unfold upd. replace (blk_eqb b b) with true; [reflexivity|]. symmetry. apply blk_eqb_eq. reflexivity. Qed.

Lemma own_upd_foreign t h b v b' : own t b = true -> own t b' = false -> upd h b v b' = h b'.
Proof. intros H1 H2. apply upd_other. intro E. subst. congruence. Qed.

Theorem run_safe {A} t lo (Q : A -> Prop) (p : hprog A) :
  safe t lo Q p ->
  forall n h r n' h' w, lo <= n -> run t p n h = (r, n', h', w) ->
    (forall b, own t b = false -> h' b = h b) /\
    Forall (fun e => own t (fst (fst e)) = true) w /\
    match r with Some a => Q a | None => True end /\ n <= n'.
Proof.
  induction p as [a| |sz k IH|b off len k IH|b off d k IH]; cbn; intros Hs n h r n' h' w Hn Hr.
  - inversion Hr; subst. repeat split; auto.
  - inversion Hr; subst. repeat split; auto.
  - specialize (IH (Pv t n) (Hs n Hn) (S n) _ r n' h' w (le_S _ _ Hn) Hr).
    destruct IH as [H1 [H2 [H3 H4]]]. repeat split; auto; [|lia].
    intros b' Hb'. rewrite H1 by exact Hb'. apply own_upd_foreign with (t := t); [cbn; apply Nat.eqb_refl|exact Hb'].
  - destruct Hs as [_ Hs]. destruct (in_range h b off len).
    + eapply IH; eauto.
    + inversion Hr; subst. repeat split; auto.
  - destruct Hs as [Ho Hs]. destruct (in_range h b off (length d)).
    + destruct (run t k n (upd h b (splice (h b) off d))) as [[[r0 n0] h0] w0] eqn:E.
      inversion Hr; subst. specialize (IH Hs n _ r n' h' w0 Hn E).
      destruct IH as [H1 [H2 [H3 H4]]]. split; [|split; [|split]]; [| |exact H3|exact H4].
      * intros b' Hb'. rewrite H1 by exact Hb'. apply own_upd_foreign with (t := t); assumption.
      * constructor; [exact Ho|exact H2].
    + inversion Hr; subst. repeat split; auto.
Qed.

(* ---- interleaving ---- *)

Section Interleave.
Context {A : Type}.

(* thread i of a configuration: its program and allocation counter *)
Definition cfg : Type := list (hprog A * nat) * heap.

Definition set_nth {X} (l : list X) (i : nat) (x : X) : list X :=
  firstn i l ++ match skipn i l with [] => [] | _ :: r => x :: r end.

Definition sched_step (i : nat) (c : cfg) : cfg :=
  match nth_error (fst c) i with
  | None => c
  | Some (p, n) => let '(p', n', h') := step1 i p n (snd c) in (set_nth (fst c) i (p', n'), h')
  end.

Definition exec (s : list nat) (c : cfg) : cfg := fold_left (fun c i => sched_step i c) s c.

Fixpoint solo (k : nat) (t : nat) (p : hprog A) (n : nat) (h : heap) : hprog A * nat * heap :=
  match k with
  | O => (p, n, h)
  | S k' => let '(p', n', h') := step1 t p n h in solo k' t p' n' h'
  end.

(* what thread i can see: shared blocks and its own *)
Definition same_view (i : nat) (h1 h2 : heap) : Prop := forall b, readable i b = true -> h1 b = h2 b.

Definition tsafe (i : nat) (p : hprog A) : Prop := safe i 0 (fun _ => True) p.

Lemma step1_safe i p n h p' n' h' : tsafe i p -> step1 i p n h = (p', n', h') -> tsafe i p'.
Proof.
  unfold tsafe. destruct p as [a| |sz k|b off len k|b off d k]; cbn; intros Hs E.
  - inversion E; subst. exact Hs.
  - inversion E; subst. exact I.
  - inversion E; subst. apply Hs. lia.
  - destruct (in_range h b off len); inversion E; subst; [apply Hs|exact I].
  - destruct (in_range h b off (length d)); inversion E; subst; [apply Hs|exact I].
Qed.

(* a step of thread j changes only blocks that j owns *)
Lemma step1_foreign j p n h p' n' h' b :
  tsafe j p -> step1 j p n h = (p', n', h') -> own j b = false -> h' b = h b.
Proof.
  unfold tsafe. destruct p as [a| |sz k|b0 off len k|b0 off d k]; cbn; intros Hs E Hb.
  - inversion E; subst. reflexivity.
  - inversion E; subst. reflexivity.
  - inversion E; subst. apply own_upd_foreign with (t := j); [cbn; apply Nat.eqb_refl|exact Hb].
  - destruct (in_range h b0 off len); inversion E; subst; reflexivity.
  - destruct (in_range h b0 off (length d)); inversion E; subst; [|reflexivity].
    apply own_upd_foreign with (t := j); [apply Hs|exact Hb].
Qed.

(* a step of thread i depends only on i's view, and maps equal views to equal views *)
Lemma step1_view i p n h1 h2 :
  tsafe i p -> same_view i h1 h2 ->
  let '(p1, n1, h1') := step1 i p n h1 in
  let '(p2, n2, h2') := step1 i p n h2 in
  p1 = p2 /\ n1 = n2 /\ same_view i h1' h2'.
Proof.
  unfold tsafe. destruct p as [a| |sz k|b off len k|b off d k]; cbn; intros Hs Hv.
  - auto.
  - auto.
  - repeat split; auto. intros b Hb. unfold upd. destruct (blk_eqb (Pv i n) b); [reflexivity|apply Hv, Hb].
  - destruct Hs as [Hr _]. unfold in_range. rewrite (Hv b Hr).
    destruct (Nat.leb _ _); auto.
  - destruct Hs as [Ho _]. pose proof (own_readable _ _ Ho) as Hr. unfold in_range. rewrite (Hv b Hr).
    destruct (Nat.leb _ _); auto. repeat split; auto.
    intros b' Hb'. unfold upd. destruct (blk_eqb b b'); [reflexivity|apply Hv, Hb'].
Qed.

Lemma own_other_not_readable i j b : i <> j -> own j b = true -> readable i b = false.
Proof.
  intros Hij. destruct b as [m|u m]; cbn; [discriminate|]. intro H. apply Nat.eqb_eq in H. subst.
  apply Nat.eqb_neq. auto.
Qed.

Lemma nth_error_set_nth_same {X} (l : list X) i x : i < length l -> nth_error (set_nth l i x) i = Some x.
Proof.
  revert i; induction l as [|y l IH]; intros i Hi; [cbn in Hi; lia|].
  destruct i as [|i]; [reflexivity|]. cbn in Hi. unfold set_nth. cbn. apply IH. lia.
Qed.

Lemma nth_error_set_nth_other {X} (l : list X) i j x : i <> j -> nth_error (set_nth l i x) j = nth_error l j.
Proof.
  revert i j; induction l as [|y l IH]; intros i j Hij.
  - unfold set_nth. rewrite firstn_nil, skipn_nil. reflexivity.
  - destruct i as [|i], j as [|j]; try reflexivity; try congruence.
    unfold set_nth. cbn. apply IH. congruence.
Qed.

Lemma set_nth_length {X} (l : list X) i x : length (set_nth l i x) = length l.
Proof.
  revert i; induction l as [|y l IH]; intro i.
  - unfold set_nth. rewrite firstn_nil, skipn_nil. reflexivity.
  - destruct i as [|i]; [reflexivity|]. unfold set_nth in *. cbn. f_equal. apply IH.
Qed.

Definition all_safe (ts : list (hprog A * nat)) : Prop :=
  forall j p n, nth_error ts j = Some (p, n) -> tsafe j p.

Lemma sched_step_safe j c : all_safe (fst c) -> all_safe (fst (sched_step j c)).
Proof.
  intro H. unfold sched_step. destruct (nth_error (fst c) j) as [[p n]|] eqn:E; [|exact H].
  destruct (step1 j p n (snd c)) as [[p' n'] h'] eqn:S1. cbn.
  intros j' q m Hq. destruct (Nat.eq_dec j j') as [->|Hne].
  - rewrite nth_error_set_nth_same in Hq by (apply nth_error_Some; congruence).
    inversion Hq; subst. eapply step1_safe; [eapply H, E|exact S1].
  - rewrite nth_error_set_nth_other in Hq by exact Hne. eapply H, Hq.
Qed.

Fixpoint count (i : nat) (s : list nat) : nat :=
  match s with [] => 0 | j :: r => (if Nat.eqb j i then 1 else 0) + count i r end.

Lemma solo_view k i p n h1 h2 :
  tsafe i p -> same_view i h1 h2 ->
  let '(p1, n1, h1') := solo k i p n h1 in
  let '(p2, n2, h2') := solo k i p n h2 in
  p1 = p2 /\ n1 = n2 /\ same_view i h1' h2'.
Proof.
  revert p n h1 h2; induction k as [|k IH]; intros p n h1 h2 Hs Hv; cbn; [auto|].
  pose proof (step1_view i p n h1 h2 Hs Hv) as S.
  destruct (step1 i p n h1) as [[p1 n1] h1'] eqn:E1.
  destruct (step1 i p n h2) as [[p2 n2] h2'] eqn:E2.
  destruct S as [-> [-> Hv']]. apply IH; [eapply step1_safe; [exact Hs|exact E2]|exact Hv'].
Qed.

Lemma solo_snoc k i p n h :
  solo (S k) i p n h = let '(p', n', h') := solo k i p n h in step1 i p' n' h'.
Proof.
  revert p n h; induction k as [|k IH]; intros p n h.
  - cbn. destruct (step1 i p n h) as [[p' n'] h']. reflexivity.
  - change (solo (S (S k)) i p n h) with (let '(p', n', h') := step1 i p n h in solo (S k) i p' n' h').
    destruct (step1 i p n h) as [[p' n'] h'] eqn:E. rewrite IH. cbn. rewrite E. reflexivity.
Qed.

Lemma solo_safe k i p n h : tsafe i p -> tsafe i (fst (fst (solo k i p n h))).
Proof.
  revert p n h; induction k as [|k IH]; intros p n h Hs; [exact Hs|]. cbn.
  destruct (step1 i p n h) as [[p' n'] h'] eqn:E. apply IH. eapply step1_safe; eauto.
Qed.

(* Under every schedule, thread i goes through exactly the states of its solo
   run (as many steps as the schedule gave it), and sees the same memory. *)
Theorem interleave (s : list nat) :
  forall (ts : list (hprog A * nat)) (h : heap) i p n,
    all_safe ts -> nth_error ts i = Some (p, n) ->
    let c' := exec s (ts, h) in
    let '(ps, ns, hs) := solo (count i s) i p n h in
    nth_error (fst c') i = Some (ps, ns) /\ same_view i (snd c') hs.
Proof.
  induction s as [|j s IH] using rev_ind; intros ts h i p n Hall Hi.
  - cbn. split; [exact Hi|]. intros b _. reflexivity.
  - unfold exec. rewrite fold_left_app. cbn [fold_left].
    fold (exec s (ts, h)).
    assert (Hc : count i (s ++ [j]) = count i s + (if Nat.eqb j i then 1 else 0)).
    { clear. induction s as [|x s IHs]; cbn; [lia|]. rewrite IHs. lia. }
    specialize (IH ts h i p n Hall Hi). cbn zeta in IH.
    assert (Hsafe : all_safe (fst (exec s (ts, h)))).
    { clear -Hall. revert ts h Hall. induction s as [|x s IHs]; intros ts h Hall; [exact Hall|].
      cbn. pose proof (sched_step_safe x (ts, h) Hall) as H.
      destruct (sched_step x (ts, h)) as [ts' h'] eqn:E. apply IHs. exact H. }
    destruct (exec s (ts, h)) as [ts' h'] eqn:Ex. cbn [fst snd] in *.
    destruct (solo (count i s) i p n h) as [[ps ns] hs] eqn:So.
    destruct IH as [Hnth Hview].
    rewrite Hc. destruct (Nat.eqb j i) eqn:Eji.
    + apply Nat.eqb_eq in Eji. subst j.
      replace (count i s + 1) with (S (count i s)) by lia. rewrite solo_snoc, So.
      unfold sched_step. cbn [fst snd]. rewrite Hnth.
      assert (Hps : tsafe i ps) by (eapply Hsafe, Hnth).
      pose proof (step1_view i ps ns h' hs Hps Hview) as SV.
      destruct (step1 i ps ns h') as [[p1 n1] h1] eqn:E1.
      destruct (step1 i ps ns hs) as [[p2 n2] h2] eqn:E2.
      destruct SV as [-> [-> Hv]]. cbn [fst snd]. split; [|exact Hv].
      apply nth_error_set_nth_same. apply nth_error_Some. congruence.
    + apply Nat.eqb_neq in Eji. rewrite Nat.add_0_r, So.
      unfold sched_step. cbn [fst snd].
      destruct (nth_error ts' j) as [[pj nj]|] eqn:Ej; [|split; assumption].
      destruct (step1 j pj nj h') as [[pj' nj'] hj'] eqn:E1. cbn [fst snd]. split.
      * rewrite nth_error_set_nth_other by exact Eji. exact Hnth.
      * intros b Hb. rewrite <- (Hview b Hb).
        eapply step1_foreign; [eapply Hsafe, Ej|exact E1|].
        destruct (own j b) eqn:Eo; [|reflexivity].
        rewrite (own_other_not_readable i j b) in Hb by auto. discriminate.
Qed.

(* No two threads ever touch the same block with one of them writing: a write
   goes to a block its thread owns, which no other thread may read or write. *)
Theorem no_conflict i j b : i <> j -> own i b = true -> readable j b = false /\ own j b = false.
Proof.
  intros Hij Ho. split.
  - eapply own_other_not_readable; [|exact Ho]. auto.
  - destruct b as [m|u m]; cbn in *; [reflexivity|]. apply Nat.eqb_eq in Ho. subst.
    apply Nat.eqb_neq. auto.
Qed.

End Interleave.

(* the big-step run is the solo small-step run carried to the end *)
Lemma run_solo {A} t (p : hprog A) : forall n h,
  exists k, let '(r, n', h', _) := run t p n h in
            solo k t p n h = (match r with Some a => Ret a | None => Fail end, n', h').
Proof.
  induction p as [a| |sz k IH|b off len k IH|b off d k IH]; intros n h.
  - exists 0. reflexivity.
  - exists 0. reflexivity.
  - destruct (IH (Pv t n) (S n) (upd h (Pv t n) (zeros sz))) as [k' Hk]. exists (S k'). cbn.
    destruct (run t (k (Pv t n)) (S n) _) as [[[r n'] h'] w]. exact Hk.
  - cbn. destruct (in_range h b off len) eqn:E.
    + destruct (IH (slice off (off + len) (h b)) n h) as [k' Hk]. exists (S k'). cbn. rewrite E.
      destruct (run t (k _) n h) as [[[r n'] h'] w]. exact Hk.
    + exists 1. cbn. rewrite E. reflexivity.
  - cbn. destruct (in_range h b off (length d)) eqn:E.
    + destruct (IH n (upd h b (splice (h b) off d))) as [k' Hk]. exists (S k'). cbn. rewrite E.
      destruct (run t k n _) as [[[r n'] h'] w]. exact Hk.
    + exists 1. cbn. rewrite E. reflexivity.
Qed.
