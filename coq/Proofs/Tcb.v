(* Proofs about Model/Tcb.v *)
From V Require Import Model.Tcb.
From Coq Require Import ZifyN ZifyNat ZifyBool.

(* "first element in listed order with property p" *)
Lemma find_some_iff {A} (p : A -> bool) l x :
  find p l = Some x <->
  exists pre post, l = pre ++ x :: post /\ Forall (fun y => p y = false) pre /\ p x = true.
Proof.
  induction l as [|a l IH]; cbn [find].
  - split; [discriminate|]. intros (pre & post & H & _). destruct pre; discriminate.
  - destruct (p a) eqn:E.
    + split.
      * intro H. inversion H; subst. exists [], l. auto.
      * intros (pre & post & H & Hf & Hx). destruct pre as [|b pre]; cbn in H; inversion H; subst; [reflexivity|].
        inversion Hf; subst. congruence.
    + rewrite IH. split.
      * intros (pre & post & -> & Hf & Hx). exists (a :: pre), post. auto.
      * intros (pre & post & H & Hf & Hx). destruct pre as [|b pre]; cbn in H; inversion H; subst; [congruence|].
        inversion Hf; subst. eauto.
Qed.

Lemma find_none_iff {A} (p : A -> bool) l : find p l = None <-> Forall (fun y => p y = false) l.
Proof.
  induction l as [|a l IH]; cbn [find]; [split; auto|].
  destruct (p a) eqn:E.
  - split; [discriminate|]. intro H. inversion H; congruence.
  - rewrite IH. split; [auto|]. intro H. now inversion H.
Qed.

(* ---- QE levels ---- *)
Lemma first_isvsvn_le_find levels n :
  first_isvsvn_le levels n = find (fun l => N.leb (tIsvSvn (lTcb l)) n) levels.
Proof. induction levels as [|l r IH]; cbn; [reflexivity|]. destruct (N.leb _ _); auto. Qed.

Definition first_applicable (levels : list tcblevel) (n : N) (l : tcblevel) : Prop :=
  exists pre post, levels = pre ++ l :: post /\
                   Forall (fun x => (n < tIsvSvn (lTcb x))%N) pre /\ (tIsvSvn (lTcb l) <= n)%N.

Lemma first_isvsvn_le_some levels n l :
  first_isvsvn_le levels n = Some l <-> first_applicable levels n l.
Proof.
  rewrite first_isvsvn_le_find, find_some_iff. unfold first_applicable.
  split; intros (pre & post & H & Hf & Hx); exists pre, post; repeat split; auto.
  - eapply Forall_impl; [|exact Hf]. cbn. intros a Ha. apply N.leb_gt in Ha. exact Ha.
  - now apply N.leb_le.
  - eapply Forall_impl; [|exact Hf]. cbn. intros a Ha. now apply N.leb_gt.
  - now apply N.leb_le.
Qed.

Lemma first_isvsvn_le_none levels n :
  first_isvsvn_le levels n = None <-> Forall (fun x => (n < tIsvSvn (lTcb x))%N) levels.
Proof.
  rewrite first_isvsvn_le_find, find_none_iff.
  split; intro H; (eapply Forall_impl; [|exact H]); cbn; intros a Ha; now apply N.leb_gt.
Qed.

Lemma status_eqb_eq a b : status_eqb a b = true <-> a = b.
Proof. destruct a, b; cbn; split; intro; try reflexivity; try discriminate. Qed.

Lemma check_qe_status_ok levels n :
  check_qe_status levels n = Ok tt <->
  exists l, first_applicable levels n l /\ lStatus l = UpToDate.
Proof.
  unfold check_qe_status, qerr.
  destruct (first_isvsvn_le levels n) as [l|] eqn:E.
  - apply first_isvsvn_le_some in E.
    destruct (status_eqb (lStatus l) UpToDate) eqn:Es.
    + apply status_eqb_eq in Es. split; [eauto|reflexivity].
    + split; [discriminate|]. intros (l' & Hf & Hs).
      apply first_isvsvn_le_some in E, Hf. rewrite E in Hf. inversion Hf; subst.
      apply status_eqb_eq in Hs. congruence.
  - split; [discriminate|]. intros (l' & Hf & _). apply first_isvsvn_le_some in Hf. congruence.
Qed.

Lemma check_qe_status_np levels n : check_qe_status levels n <> Panic.
Proof.
  unfold check_qe_status, qerr. destruct (first_isvsvn_le levels n); [|discriminate].
  destruct (status_eqb _ _); discriminate.
Qed.

(* ---- verifyQeReport ---- *)
Definition qe_matches (r : report) (qi : qeidentity) : Prop :=
  length (qiMiscselectMask qi) = 4 /\ length (qiMiscselect qi) = 4 /\
  N.land (rMiscSelect r) (le_decode (qiMiscselectMask qi)) = le_decode (qiMiscselect qi) /\
  length (qiAttributesMask qi) = length (rAttributes r) /\
  qiAttributes qi = map2_and (qiAttributesMask qi) (rAttributes r) /\
  qiMrsigner qi = rMrSigner r /\
  rIsvProdId r = qiIsvProdId qi.

Ltac step_if :=
  match goal with
  | |- context [if negb ?c then _ else _] => let E := fresh "E" in destruct c eqn:E; cbn [negb]
  end.

Theorem verify_qe_report_ok r qi :
  verify_qe_report r qi = Ok tt <->
  qe_matches r qi /\
  exists l, first_applicable (qiLevels qi) (rIsvSvn r) l /\ lStatus l = UpToDate.
Proof.
  unfold verify_qe_report, qe_matches, qerr.
  step_if; [apply Nat.eqb_eq in E|apply Nat.eqb_neq in E; split; [discriminate|intros ((?&_)&_); contradiction]].
  step_if; [apply Nat.eqb_eq in E0|apply Nat.eqb_neq in E0; split; [discriminate|intros ((_&?&_)&_); contradiction]].
  step_if; [apply N.eqb_eq in E1|apply N.eqb_neq in E1; split; [discriminate|intros ((_&_&?&_)&_); contradiction]].
  step_if; [apply Nat.eqb_eq in E2|apply Nat.eqb_neq in E2; split; [discriminate|intros ((_&_&_&?&_)&_); contradiction]].
  step_if; [apply bytes_eqb_eq in E3|apply bytes_eqb_neq in E3; split; [discriminate|intros ((_&_&_&_&?&_)&_); contradiction]].
  step_if; [apply bytes_eqb_eq in E4|apply bytes_eqb_neq in E4; split; [discriminate|intros ((_&_&_&_&_&?&_)&_); contradiction]].
  step_if; [apply N.eqb_eq in E5|apply N.eqb_neq in E5; split; [discriminate|intros ((_&_&_&_&_&_&?)&_); contradiction]].
  rewrite check_qe_status_ok. tauto.
Qed.

Lemma verify_qe_report_np r qi : verify_qe_report r qi <> Panic.
Proof.
  unfold verify_qe_report, qerr.
  repeat (step_if; [|discriminate]). apply check_qe_status_np.
Qed.

(* ---- platform TCB levels ---- *)
Definition tdx_ok (tee comps : list N) : bool :=
  Nat.eqb (length tee) (length comps) &&
  let start := if N.ltb 0 (nth 1 tee 0%N) then 2 else 0 in
  all_ge (skipn start tee) (skipn start comps).

Definition level_matches (tee : list N) (pce : N) (cpu : list N) (l : tcblevel) : bool :=
  cpu_svn_ge cpu (tSgx (lTcb l)) && negb (N.ltb pce (tPceSvn (lTcb l))) && tdx_ok tee (tTdx (lTcb l)).

Lemma tdx_svn_ge_pure tee comps : 2 <= length tee -> tdx_svn_ge tee comps = Ok (tdx_ok tee comps).
Proof.
  intro H. unfold tdx_svn_ge, tdx_ok.
  destruct (Nat.eqb (length tee) (length comps)); cbn [negb andb]; [|reflexivity].
  destruct tee as [|t0 [|t1 tee]]; cbn in H; try lia. reflexivity.
Qed.

Lemma matching_level_find levels tee pce cpu : 2 <= length tee ->
  matching_level levels tee pce cpu = Ok (find (level_matches tee pce cpu) levels).
Proof.
  intro H. induction levels as [|l r IH]; cbn [matching_level find]; [reflexivity|].
  unfold level_matches at 1.
  destruct (cpu_svn_ge cpu (tSgx (lTcb l)) && negb (N.ltb pce (tPceSvn (lTcb l)))) eqn:E.
  - rewrite tdx_svn_ge_pure by exact H. cbn [bind andb].
    destruct (tdx_ok tee (tTdx (lTcb l))); [reflexivity|exact IH].
  - cbn [andb]. exact IH.
Qed.

Lemma matching_module_level_spec mods id n l :
  matching_module_level mods id n = Some l <->
  exists m, find (fun m => bytes_eqb id (miId m)) mods = Some m /\ first_applicable (miLevels m) n l.
Proof.
  induction mods as [|m r IH]; cbn [matching_module_level find].
  - split; [discriminate|intros (? & ? & _); discriminate].
  - destruct (bytes_eqb id (miId m)).
    + rewrite first_isvsvn_le_some. split; [eauto|]. intros (m' & Hm & Hf). now inversion Hm; subst.
    + exact IH.
Qed.

(* the platform part of the decision, for a 16-byte TEE_TCB_SVN *)
Definition tcb_accept (ti : tcbinfo) (tee : list N) (ext : pckext) : Prop :=
  exists l, find (level_matches tee (ePceSvn ext) (eCpuSvnComps ext)) (tiLevels ti) = Some l /\
            lStatus l = UpToDate /\
            ((0 < nth 1 tee 0)%N ->
             exists m, matching_module_level (tiModules ti) (module_id (nth 1 tee 0%N)) (nth 0 tee 0%N) = Some m /\
                       lStatus m = UpToDate).

Lemma nth_error_nth {A} (l : list A) i d : i < length l -> nth_error l i = Some (nth i l d).
Proof. revert i; induction l; intros [|i] H; cbn in *; try lia; [reflexivity|apply IHl; lia]. Qed.

Theorem check_tcb_status_ok ti tee ext : 2 <= length tee ->
  (check_tcb_status ti tee ext = Ok tt <-> tcb_accept ti tee ext).
Proof.
  intro H. unfold check_tcb_status, read_tcb_status, tcb_accept, terr.
  rewrite matching_level_find by exact H. cbn [bind].
  rewrite (nth_error_nth tee 1 0%N), (nth_error_nth tee 0 0%N) by lia.
  destruct (find _ (tiLevels ti)) as [l|]; [|split; [discriminate|intros (? & ? & _); discriminate]].
  destruct (N.ltb_spec 0 (nth 1 tee 0%N)) as [E|E].
  - destruct (matching_module_level _ _ _) as [m|] eqn:Em.
    + destruct (status_eqb (lStatus l) UpToDate) eqn:Es; cbn [bind].
      * apply status_eqb_eq in Es.
        destruct (status_eqb (lStatus m) UpToDate) eqn:Es2.
        -- apply status_eqb_eq in Es2. split; [intros _; exists l; repeat split; auto; intros _; eauto|reflexivity].
        -- split; [discriminate|]. intros (l' & Hl & _ & Hm). inversion Hl; subst.
           destruct (Hm E) as (m' & Hm' & Hs). inversion Hm'; subst. apply status_eqb_eq in Hs. congruence.
      * rewrite Es. split; [discriminate|]. intros (l' & Hl & Hs & _). inversion Hl; subst.
        apply status_eqb_eq in Hs. congruence.
    + cbn [bind]. split; [discriminate|]. intros (l' & _ & _ & Hm). destruct (Hm E) as (? & ? & _). discriminate.
  - cbn [bind]. destruct (status_eqb (lStatus l) UpToDate) eqn:Es.
    + apply status_eqb_eq in Es. split; [intros _; exists l; repeat split; auto; intro; lia|reflexivity].
    + split; [discriminate|]. intros (l' & Hl & Hs & _). inversion Hl; subst. apply status_eqb_eq in Hs. congruence.
Qed.

Lemma check_tcb_status_np ti tee ext : 2 <= length tee -> check_tcb_status ti tee ext <> Panic.
Proof.
  intro H. unfold check_tcb_status, read_tcb_status, terr.
  rewrite matching_level_find by exact H. cbn [bind].
  rewrite (nth_error_nth tee 1 0%N), (nth_error_nth tee 0 0%N) by lia.
  destruct (find _ _); [|discriminate].
  destruct (N.ltb 0 _).
  - destruct (matching_module_level _ _ _); [|discriminate].
    destruct (status_eqb (lStatus t) UpToDate); cbn [bind];
      match goal with |- context [if ?c then _ else _] => destruct c end; discriminate.
  - cbn [bind]. destruct (status_eqb _ _); discriminate.
Qed.

(* identity part of verifyTdQuoteBody *)
Definition td_identity (b : tdbody) (ti : tcbinfo) (ext : pckext) : Prop :=
  ascii_fold_eq (eFmspc ext) (tiFmspc ti) = true /\
  ePceId ext = tiPceId ti /\
  tiModMrsigner ti = bMrSignerSeam b /\
  length (tiModAttrMask ti) = length (bSeamAttr b) /\
  tiModAttributes ti = map2_and (tiModAttrMask ti) (bSeamAttr b).

Theorem verify_td_body_ok b ti ext : length (bTeeTcbSvn b) = 16 ->
  (verify_td_body b ti ext = Ok tt <->
   td_identity b ti ext /\ tcb_accept ti (map bN (bTeeTcbSvn b)) ext).
Proof.
  intro H. unfold verify_td_body, td_identity, terr.
  step_if; [|split; [discriminate|intros ((?&_)&_); congruence]].
  step_if; [apply bytes_eqb_eq in E0|apply bytes_eqb_neq in E0; split; [discriminate|intros ((_&?&_)&_); contradiction]].
  step_if; [apply bytes_eqb_eq in E1|apply bytes_eqb_neq in E1; split; [discriminate|intros ((_&_&?&_)&_); contradiction]].
  step_if; [apply Nat.eqb_eq in E2|apply Nat.eqb_neq in E2; split; [discriminate|intros ((_&_&_&?&_)&_); contradiction]].
  step_if; [apply bytes_eqb_eq in E3|apply bytes_eqb_neq in E3; split; [discriminate|intros ((_&_&_&_&?)&_); contradiction]].
  rewrite check_tcb_status_ok by (rewrite map_length; lia). tauto.
Qed.

Lemma verify_td_body_np b ti ext : length (bTeeTcbSvn b) = 16 -> verify_td_body b ti ext <> Panic.
Proof.
  intro H. unfold verify_td_body, terr. repeat (step_if; [|discriminate]).
  apply check_tcb_status_np. rewrite map_length. lia.
Qed.

(* no matching level: verification fails and the reporting API returns an error *)
Theorem no_match_fails ti tee ext qi isv : 2 <= length tee ->
  find (level_matches tee (ePceSvn ext) (eCpuSvnComps ext)) (tiLevels ti) = None ->
  check_tcb_status ti tee ext = Err ETcb /\ supported_levels ti qi tee ext isv = Err ETcb.
Proof.
  intros H Hn. unfold check_tcb_status, supported_levels, read_tcb_status, terr.
  rewrite matching_level_find by exact H. rewrite Hn. cbn. auto.
Qed.

Theorem supported_levels_ok ti qi tee ext isv l q : 2 <= length tee ->
  supported_levels ti qi tee ext isv = Ok (l, q) ->
  (exists p, find (level_matches tee (ePceSvn ext) (eCpuSvnComps ext)) (tiLevels ti) = Some p) /\
  first_applicable (qiLevels qi) isv q.
Proof.
  intros H. unfold supported_levels, read_tcb_status, terr, qerr.
  rewrite matching_level_find by exact H. cbn [bind].
  destruct (find _ (tiLevels ti)) as [p|]; [|discriminate]. intro Hs.
  split; [eauto|].
  destruct (nth_error tee 1), (nth_error tee 0); try discriminate.
  match type of Hs with bind ?m _ = _ => destruct m as [x| |]; cbn [bind] in Hs; try discriminate end.
  destruct (first_isvsvn_le (qiLevels qi) isv) eqn:E; [|discriminate].
  inversion Hs; subst. now apply first_isvsvn_le_some.
Qed.

(* the level comparison, spelled out *)
Lemma all_ge_spec have need :
  all_ge have need = true <-> Forall2 (fun h n => (n <= h)%N) have need.
Proof.
  revert need; induction have as [|h have IH]; intros [|n need]; cbn.
  - split; constructor.
  - split; [discriminate|intro H; inversion H].
  - split; [discriminate|intro H; inversion H].
  - rewrite andb_true_iff, IH. split.
    + intros [H1 H2]. constructor; [lia|exact H2].
    + intro H. inversion H; subst. split; [lia|assumption].
Qed.

Theorem level_matches_spec tee pce cpu l : 2 <= length tee ->
  level_matches tee pce cpu l = true <->
  Forall2 (fun h n => (n <= h)%N) cpu (tSgx (lTcb l)) /\
  (tPceSvn (lTcb l) <= pce)%N /\
  length tee = length (tTdx (lTcb l)) /\
  let start := if N.ltb 0 (nth 1 tee 0%N) then 2 else 0 in
  Forall2 (fun h n => (n <= h)%N) (skipn start tee) (skipn start (tTdx (lTcb l))).
Proof.
  intro H. unfold level_matches, cpu_svn_ge, tdx_ok.
  rewrite !andb_true_iff, !all_ge_spec, !Nat.eqb_eq, negb_true_iff, N.ltb_ge.
  split.
  - intros (((_ & H1) & H2) & H3 & H4). auto.
  - intros (H1 & H2 & H3 & H4). repeat split; auto.
    clear -H1. induction H1; cbn; congruence.
Qed.
