(* The calls of C16 as one family of heap programs, and the statements about a
   single call and about concurrent calls. *)
From V Require Import Lib.Bytes Lib.Res Model.Abi Model.HeapProgs Proofs.Heap Proofs.HeapProgs.

Inductive call :=
| CVerify (sha : bytes -> bytes) (q : hquote)       (* verify.TdxQuote's byte handling *)
| CValidate (q : hquote) (opts : list hslice)        (* validate.TdxQuote: message and option byte strings *)
| CSerialize (q : hquote)                            (* abi.QuoteToAbiBytes *)
| CExtract (q : hquote)                              (* verify.ExtractChainFromQuote *)
| CMask (a b : hslice).                              (* verify.applyMask *)

Inductive cres :=
| RVerify (r : bytes * bytes * bool * bytes)
| RValidate (r : quote * list bytes)
| RSerialize (r : res hslice)
| RExtract (r : bytes)
| RMask (r : hslice).

Definition prog_of (c : call) : hprog cres :=
  match c with
  | CVerify sha q => r <-- verify_bytes_h sha q ;;; Ret (RVerify r)
  | CValidate q o => r <-- validate_reads_h q o ;;; Ret (RValidate r)
  | CSerialize q => r <-- serialize_h q ;;; Ret (RSerialize r)
  | CExtract q => r <-- extract_chain_h q ;;; Ret (RExtract r)
  | CMask a b => r <-- apply_mask_h a b ;;; Ret (RMask r)
  end.

(* every slice the call is given is readable by thread t *)
Definition call_ok (t : nat) (c : call) : Prop :=
  match c with
  | CVerify _ q | CSerialize q | CExtract q => hq_all (readable_s t) q
  | CValidate q o => hq_all (readable_s t) q /\ Forall (readable_s t) o
  | CMask a b => readable_s t a /\ readable_s t b
  end.

Lemma prog_of_safe t lo c : call_ok t c -> safe t lo Tr (prog_of c).
Proof.
  destruct c as [sha q|q o|q|q|a b]; cbn [call_ok prog_of]; intro H.
  - sbind ltac:(apply safe_verify_bytes; exact H). intros; exact I.
  - destruct H as [H1 H2]. sbind ltac:(apply safe_validate_reads; assumption). intros; exact I.
  - sbind ltac:(apply safe_serialize; exact H). intros; exact I.
  - sbind ltac:(apply safe_extract_chain; exact H). intros; exact I.
  - destruct H as [H1 H2]. sbind ltac:(apply safe_apply_mask_h; assumption). intros; exact I.
Qed.

(* a single call leaves every block it did not allocate itself exactly as it
   was: whole blocks, so spare capacity behind a field included *)
Theorem call_never_writes t c n h r n' h' w :
  call_ok t c -> run t (prog_of c) n h = (r, n', h', w) ->
  (forall b, own t b = false -> h' b = h b) /\ Forall (fun e => own t (fst (fst e)) = true) w.
Proof.
  intros Hc Hr. pose proof (run_safe t 0 Tr (prog_of c) (prog_of_safe t 0 c Hc) n h r n' h' w (Nat.le_0_l n) Hr) as H.
  destruct H as [H1 [H2 _]]. split; assumption.
Qed.

(* parsing: the result lives in blocks allocated by the call, the input and
   every other foreign block are untouched *)
Definition allocated_before (t n : nat) (b : blk) : Prop :=
  match b with Sh _ => True | Pv u k => u <> t \/ k < n end.

Lemma fresh_not_before t n s b : fresh_s t n s -> allocated_before t n b -> sb s <> b.
Proof.
  intros [m [E Hm]] Hb Eq. rewrite E in Eq. subst b. cbn in Hb. destruct Hb as [Hb|Hb]; [congruence|lia].
Qed.

Theorem parse_shares_nothing t raw n h q n' h' w :
  readable_s t raw -> run t (parse_h raw) n h = (Some (Ok q), n', h', w) ->
  hq_all (fun s => s = nil_slice \/ (fresh_s t n s /\ forall b, allocated_before t n b -> sb s <> b)) q /\
  (forall b, own t b = false -> h' b = h b) /\
  Forall (fun e => own t (fst (fst e)) = true) w.
Proof.
  intros Hraw Hr.
  pose proof (run_safe t n _ (parse_h raw) (safe_parse t n raw Hraw) n h _ n' h' w (le_n n) Hr) as H.
  destruct H as [H1 [H2 [H3 _]]]. cbn in H3. split; [|split; assumption].
  assert (W : forall s, fresh_or_nil t n s ->
              s = nil_slice \/ (fresh_s t n s /\ forall b, allocated_before t n b -> sb s <> b)).
  { intros s [Hs|Hs]; [right|left; exact Hs]. split; [exact Hs|]. intros b Hb. eapply fresh_not_before; eauto. }
  hq_destruct H3. unfold hq_all.
  repeat split; try (apply W; assumption).
  eapply Forall_impl; [|exact HRtmrs]. exact W.
Qed.

(* ---- concurrent calls on shared data ---- *)

Definition shared_s (s : hslice) : Prop := exists n, sb s = Sh n.

Definition call_shared (c : call) : Prop :=
  match c with
  | CVerify _ q | CSerialize q | CExtract q => hq_all shared_s q
  | CValidate q o => hq_all shared_s q /\ Forall shared_s o
  | CMask a b => shared_s a /\ shared_s b
  end.

Lemma shared_readable t s : shared_s s -> readable_s t s.
Proof. intros [n E]. unfold readable_s. rewrite E. reflexivity. Qed.

Lemma hq_all_impl (P Q : hslice -> Prop) q : (forall s, P s -> Q s) -> hq_all P q -> hq_all Q q.
Proof.
  intros W H. hq_destruct H. unfold hq_all. repeat split; try (apply W; assumption).
  eapply Forall_impl; [|exact HRtmrs]. exact W.
Qed.

Lemma call_shared_ok t c : call_shared c -> call_ok t c.
Proof.
  destruct c as [sha q|q o|q|q|a b]; cbn; intro H.
  - eapply hq_all_impl; [apply shared_readable|exact H].
  - destruct H as [H1 H2]. split; [eapply hq_all_impl; [apply shared_readable|exact H1]|].
    eapply Forall_impl; [|exact H2]. apply shared_readable.
  - eapply hq_all_impl; [apply shared_readable|exact H].
  - eapply hq_all_impl; [apply shared_readable|exact H].
  - destruct H; split; apply shared_readable; assumption.
Qed.

Definition threads_of (cs : list call) : list (hprog cres * nat) := map (fun c => (prog_of c, 0)) cs.

Lemma threads_all_safe cs : Forall call_shared cs -> all_safe (threads_of cs).
Proof.
  intros H j p n Hj. unfold threads_of in Hj. rewrite nth_error_map in Hj.
  destruct (nth_error cs j) as [c|] eqn:E; [|discriminate]. cbn in Hj. inversion Hj; subst.
  apply prog_of_safe, call_shared_ok. rewrite Forall_forall in H. eapply H, nth_error_In, E.
Qed.

(* Any number of goroutines, each making one of the calls on shared data (the
   same message, each with its own options), under any schedule: every thread
   goes through exactly the states of its solo run and sees the memory of its
   solo run; in particular it ends with the same result. *)
Theorem concurrent_as_solo (cs : list call) (s : list nat) (h : heap) i c :
  Forall call_shared cs -> nth_error cs i = Some c ->
  let c' := exec s (threads_of cs, h) in
  let '(ps, ns, hs) := solo (count i s) i (prog_of c) 0 h in
  nth_error (fst c') i = Some (ps, ns) /\ same_view i (snd c') hs.
Proof.
  intros Hall Hi. apply interleave; [apply threads_all_safe, Hall|].
  unfold threads_of. rewrite nth_error_map, Hi. reflexivity.
Qed.

(* and the shared data is never changed by anyone *)
Theorem concurrent_shared_unchanged (cs : list call) (s : list nat) (h : heap) :
  Forall call_shared cs -> forall n, snd (exec s (threads_of cs, h)) (Sh n) = h (Sh n).
Proof.
  intros Hall n. pose proof (threads_all_safe cs Hall) as Hs. revert Hs. generalize (threads_of cs) as ts.
  revert h. induction s as [|j s IH] using rev_ind; intros h ts Hs; [reflexivity|].
  unfold exec. rewrite fold_left_app. cbn [fold_left]. fold (exec s (ts, h)).
  assert (Hsafe : all_safe (fst (exec s (ts, h)))).
  { clear -Hs. revert ts h Hs. induction s as [|x s IHs]; intros ts h Hs; [exact Hs|].
    cbn. pose proof (sched_step_safe x (ts, h) Hs) as H.
    destruct (sched_step x (ts, h)) as [ts' h'] eqn:E. apply IHs. exact H. }
  specialize (IH h ts Hs). destruct (exec s (ts, h)) as [ts' h'] eqn:Ex. cbn [fst snd] in *.
  unfold sched_step. cbn [fst snd]. destruct (nth_error ts' j) as [[pj nj]|] eqn:Ej; [|exact IH].
  destruct (step1 j pj nj h') as [[pj' nj'] hj'] eqn:E1. cbn [snd]. rewrite <- IH.
  eapply step1_foreign; [eapply Hsafe, Ej|exact E1|reflexivity].
Qed.
