(* Proofs about Model/Abi.v: no panic, parse/serialise round trips, layout. *)
From V Require Import Model.Abi Gen.AbiConsts.
From Coq Require Import ZifyN ZifyNat ZifyBool.

Ltac unf := autounfold with abi_consts in *.

Lemma Ok_inj {T} (a b : T) : Ok a = Ok b -> a = b.
Proof. congruence. Qed.

(* ---- inversion of monadic Ok results ---- *)
Ltac inv1 H :=
  match type of H with
  | bind (chk _) _ = Ok _ => unfold chk in H; inv1 H
  | bind (guard _ _) _ = Ok _ =>
      let Hc := fresh "Hc" in apply bind_guard_ok in H; destruct H as [Hc H]
  | bind (gslice _ _ _) _ = Ok _ =>
      let x := fresh "x" in let Hg := fresh "Hg" in let Ha := fresh "Ha" in let Hb := fresh "Hb" in
      apply bind_ok in H; destruct H as (x & Hg & H);
      apply gslice_inv in Hg; destruct Hg as (Ha & Hb & ->)
  | bind (gslice_from _ _) _ = Ok _ => unfold gslice_from in H; inv1 H
  | bind _ _ = Ok _ =>
      let x := fresh "x" in let Hx := fresh "Hx" in
      apply bind_ok in H; destruct H as (x & Hx & H)
  | Ok (_, _) = Ok _ =>
      let H1 := fresh in let H2 := fresh in
      apply Ok_inj in H; apply pair_equal_spec in H; destruct H as [H1 H2]; subst
  | Ok _ = Ok _ => apply Ok_inj in H; subst
  end.
Ltac inv H := repeat inv1 H.

Lemma chk_np b : chk b <> Panic.
Proof. apply guard_nopanic. Qed.

Lemma gslice_np a b l : a <= b -> b <= length l -> gslice a b l <> Panic.
Proof. intros. rewrite gslice_ok by assumption. discriminate. Qed.

(* a res unit built from guards only never panics *)
Ltac chk_np :=
  repeat match goal with
         | |- bind (chk ?b) _ <> Panic => destruct b; cbn [chk guard bind]; [|discriminate]
         | |- chk ?b <> Panic => apply chk_np
         | |- Ok _ <> Panic => discriminate
         | |- Err _ <> Panic => discriminate
         end.

Lemma check_header_np o : check_header o <> Panic.
Proof. destruct o; cbn [check_header]; chk_np. Qed.
Lemma check_body_np o : check_body o <> Panic.
Proof. destruct o; cbn [check_body]; chk_np. Qed.
Lemma check_report_np o : check_report o <> Panic.
Proof. destruct o; cbn [check_report]; chk_np. Qed.
Lemma check_auth_np o : check_auth o <> Panic.
Proof. destruct o; cbn [check_auth]; chk_np. Qed.
Lemma check_pck_np o : check_pck o <> Panic.
Proof. destruct o; cbn [check_pck]; chk_np. Qed.

Lemma seq_np {B} (m : res unit) (k : res B) : m <> Panic -> k <> Panic -> (m ;; k) <> Panic.
Proof. intros. apply bind_nopanic; auto. Qed.

Lemma check_qercd_np o : check_qercd o <> Panic.
Proof.
  destruct o; cbn [check_qercd]; [|discriminate].
  repeat apply seq_np; auto using check_report_np, chk_np, check_auth_np, check_pck_np.
Qed.
Lemma check_certdata_np o : check_certdata o <> Panic.
Proof.
  destruct o; cbn [check_certdata]; [|discriminate].
  repeat apply seq_np; auto using chk_np, check_qercd_np.
Qed.
Lemma check_signed_np o : check_signed o <> Panic.
Proof.
  destruct o; cbn [check_signed]; [|discriminate].
  repeat apply seq_np; auto using chk_np, check_certdata_np.
Qed.
Lemma check_quote_np o : check_quote o <> Panic.
Proof.
  destruct o; cbn [check_quote]; [|discriminate].
  repeat apply seq_np; auto using check_header_np, check_body_np, check_signed_np.
Qed.

(* serialisers: guards and concatenation only *)
Lemma bind_np_simple {A B} (m : res A) (k : A -> res B) :
  m <> Panic -> (forall a, k a <> Panic) -> bind m k <> Panic.
Proof. intros. apply bind_nopanic; auto. Qed.

Lemma ser_header_np o : ser_header o <> Panic.
Proof. destruct o; cbn [ser_header]; [|discriminate]. apply seq_np; [apply check_header_np|discriminate]. Qed.
Lemma ser_body_np o : ser_body o <> Panic.
Proof. destruct o; cbn [ser_body]; [|discriminate]. apply seq_np; [apply check_body_np|discriminate]. Qed.
Lemma ser_report_np o : ser_report o <> Panic.
Proof. destruct o; cbn [ser_report]; [|discriminate]. apply seq_np; [apply check_report_np|discriminate]. Qed.
Lemma ser_pck_np o : ser_pck o <> Panic.
Proof. destruct o; cbn [ser_pck]; [|discriminate]. apply seq_np; [apply check_pck_np|discriminate]. Qed.
Lemma ser_auth_np o : ser_auth o <> Panic.
Proof. destruct o; cbn [ser_auth]; [|discriminate]. apply seq_np; [apply check_auth_np|discriminate]. Qed.
Lemma ser_qercd_np o : ser_qercd o <> Panic.
Proof.
  destruct o; cbn [ser_qercd]; [|discriminate].
  apply seq_np; [apply check_qercd_np|].
  apply bind_np_simple; [apply ser_report_np|intro].
  apply bind_np_simple; [apply ser_auth_np|intro].
  apply bind_np_simple; [apply ser_pck_np|intro]. discriminate.
Qed.
Lemma ser_certdata_np o : ser_certdata o <> Panic.
Proof.
  destruct o; cbn [ser_certdata]; [|discriminate].
  apply seq_np; [apply check_certdata_np|].
  apply bind_np_simple; [apply ser_qercd_np|intro]. discriminate.
Qed.
Lemma ser_signed_np o : ser_signed o <> Panic.
Proof.
  destruct o; cbn [ser_signed]; [|discriminate].
  apply seq_np; [apply check_signed_np|].
  apply bind_np_simple; [apply ser_certdata_np|intro]. discriminate.
Qed.
Lemma serialize_np o : serialize o <> Panic.
Proof.
  destruct o; cbn [serialize]; [|discriminate].
  apply seq_np; [apply check_quote_np|].
  apply bind_np_simple; [apply ser_header_np|intro].
  apply bind_np_simple; [apply ser_body_np|intro].
  apply bind_np_simple; [apply ser_signed_np|intro]. discriminate.
Qed.

(* ---- parsers never panic ---- *)
(* step: a gslice whose bounds follow from the hypotheses *)
Ltac gs_step :=
  match goal with
  | |- bind (gslice ?a ?b ?l) _ <> Panic =>
      rewrite (gslice_ok a b l) by (unf; lia); cbn [bind]
  | |- bind (gslice_from ?a ?l) _ <> Panic =>
      unfold gslice_from; rewrite (gslice_ok a (length l) l) by (unf; lia); cbn [bind]
  end.

Lemma parse_header_np d : length d = 48 -> parse_header d <> Panic.
Proof.
  intro H. unfold parse_header. repeat gs_step.
  apply seq_np; [apply check_header_np|discriminate].
Qed.

Lemma parse_rtmrs_np n s d : s + n * 48 <= length d -> parse_rtmrs n s d <> Panic.
Proof.
  revert s; induction n as [|n IH]; intros s H; cbn [parse_rtmrs]; [discriminate|].
  gs_step. apply bind_np_simple; [apply IH; unf; lia|intro]. discriminate.
Qed.

Lemma parse_body_np d : length d = 584 -> parse_body d <> Panic.
Proof.
  intro H. unfold parse_body. repeat gs_step.
  apply bind_np_simple; [apply parse_rtmrs_np; unf; lia|intro].
  apply seq_np; [apply check_body_np|discriminate].
Qed.

Lemma parse_report_np d : length d = 384 -> parse_report d <> Panic.
Proof.
  intro H. unfold parse_report. repeat gs_step.
  apply seq_np; [apply check_report_np|discriminate].
Qed.

Ltac chk_step :=
  match goal with
  | |- bind (chk ?b) _ <> Panic =>
      let E := fresh "E" in destruct b eqn:E; cbn [chk guard bind]; [|discriminate]
  end.

Lemma parse_pck_np d : parse_pck d <> Panic.
Proof.
  unfold parse_pck. chk_step. apply Nat.leb_le in E. unf.
  repeat gs_step. apply seq_np; [apply check_pck_np|discriminate].
Qed.

Lemma parse_auth_np d : parse_auth d <> Panic.
Proof.
  unfold parse_auth. chk_step. apply Nat.leb_le in E. unf.
  gs_step. chk_step. apply Nat.leb_le in E0.
  gs_step. apply seq_np; [apply check_auth_np|discriminate].
Qed.

Lemma parse_auth_end d a e : parse_auth d = Ok (a, e) -> 2 <= e <= length d.
Proof.
  unfold parse_auth. intro H. inv H. apply Nat.leb_le in Hc, Hc0. unf. lia.
Qed.

Lemma parse_qercd_np d : parse_qercd d <> Panic.
Proof.
  unfold parse_qercd. chk_step. apply Nat.leb_le in E. unf.
  gs_step. apply bind_nopanic; [apply parse_report_np; rewrite slice_length; lia|intros r _].
  gs_step. gs_step.
  apply bind_nopanic; [apply parse_auth_np|intros [a e] Ha].
  apply parse_auth_end in Ha. rewrite slice_length in Ha by lia.
  gs_step. apply bind_np_simple; [apply parse_pck_np|intro].
  apply seq_np; [apply check_qercd_np|discriminate].
Qed.

Lemma parse_certdata_np d : parse_certdata d <> Panic.
Proof.
  unfold parse_certdata. chk_step. apply Nat.leb_le in E. unf.
  repeat gs_step. chk_step.
  apply bind_np_simple; [apply parse_qercd_np|intro].
  apply seq_np; [apply check_certdata_np|discriminate].
Qed.

Lemma parse_signed_np d : parse_signed d <> Panic.
Proof.
  unfold parse_signed. chk_step. apply Nat.leb_le in E. unf.
  repeat gs_step.
  apply bind_np_simple; [apply parse_certdata_np|intro].
  apply seq_np; [apply check_signed_np|discriminate].
Qed.

Theorem parse_np raw : parse raw <> Panic.
Proof.
  unfold parse. chk_step. apply Nat.leb_le in E. unf.
  gs_step. chk_step. chk_step. apply Nat.leb_le in E1.
  gs_step. apply bind_nopanic; [apply parse_header_np; rewrite slice_length; lia|intros h _].
  gs_step. apply bind_nopanic; [apply parse_body_np; rewrite slice_length; lia|intros b _].
  gs_step. gs_step. chk_step. apply N.leb_le in E2. rewrite slice_length in E2 by lia.
  gs_step. gs_step.
  apply bind_np_simple; [apply parse_signed_np|intro].
  apply seq_np; [apply check_quote_np|discriminate].
Qed.

(* ---- parse then serialise reproduces the input ---- *)
Lemma le_encode_decode_len n l : length l = n -> le_encode n (le_decode l) = l.
Proof. intros <-. apply le_encode_decode. Qed.

Lemma slice_all n d : length d = n -> slice 0 n d = d.
Proof. intros <-. apply slice_full. Qed.

Ltac slices := repeat rewrite slice_app by lia.
Ltac le_fix :=
  repeat match goal with
         | |- context [le_encode ?n (le_decode (slice ?a ?b ?d))] =>
             rewrite (le_encode_decode_len n (slice a b d)) by (rewrite slice_length; lia)
         end.

Lemma unit_ok (x : unit) (m : res unit) : m = Ok x -> m = Ok tt.
Proof. now destruct x. Qed.

Lemma parse_header_ser d h : length d = 48 -> parse_header d = Ok h -> ser_header (Some h) = Ok d.
Proof.
  intros Hl H. unfold parse_header in H. inv H. unf.
  cbn [ser_header]. rewrite (unit_ok _ _ Hx). cbn [bind hVersion hAkt hTee hPceSvn hQeSvn hVendor hUser].
  f_equal. le_fix. slices. now apply slice_all.
Qed.

Lemma parse_rtmrs_concat n s d r :
  parse_rtmrs n s d = Ok r -> concat r = slice s (s + n * 48) d /\ length r = n.
Proof.
  revert s r; induction n as [|n IH]; intros s r H; cbn [parse_rtmrs] in H.
  - inv H. cbn. unfold slice. replace (s + 0 - s) with 0 by lia. auto.
  - inv H. unf. apply IH in Hx as [Hc Hn]. cbn [concat length]. rewrite Hc, Hn. split; [|reflexivity].
    rewrite slice_app by lia. f_equal. lia.
Qed.

Lemma parse_body_ser d b : length d = 584 -> parse_body d = Ok b -> ser_body (Some b) = Ok d.
Proof.
  intros Hl H. unfold parse_body in H. inv H. unf.
  apply parse_rtmrs_concat in Hx as [Hc _].
  cbn [ser_body]. rewrite (unit_ok _ _ Hx0).
  cbn [bind bTeeTcbSvn bMrSeam bMrSignerSeam bSeamAttr bTdAttr bXfam bMrTd bMrConfigId bMrOwner bMrOwnerConfig bRtmrs bReportData].
  f_equal. rewrite Hc. cbn [Nat.mul Nat.add]. slices. now apply slice_all.
Qed.

Lemma parse_report_ser d r : length d = 384 -> parse_report d = Ok r -> ser_report (Some r) = Ok d.
Proof.
  intros Hl H. unfold parse_report in H. inv H. unf.
  cbn [ser_report]. rewrite (unit_ok _ _ Hx).
  cbn [bind rCpuSvn rMiscSelect rReserved1 rAttributes rMrEnclave rReserved2 rMrSigner rReserved3 rIsvProdId rIsvSvn rReserved4 rReportData].
  f_equal. le_fix. slices. now apply slice_all.
Qed.

Lemma parse_pck_ser d p : parse_pck d = Ok p -> ser_pck (Some p) = Ok d.
Proof.
  intro H. unfold parse_pck in H. inv H. unf. apply Nat.leb_le in Hc.
  cbn [ser_pck]. rewrite (unit_ok _ _ Hx). cbn [bind pType pSize pChain].
  f_equal. le_fix. slices. apply slice_full.
Qed.

Lemma parse_auth_ser d a e : parse_auth d = Ok (a, e) -> ser_auth (Some a) = Ok (slice 0 e d).
Proof.
  intro H. unfold parse_auth in H. inv H. unf. apply Nat.leb_le in Hc, Hc0.
  cbn [ser_auth]. rewrite (unit_ok _ _ Hx). cbn [bind aSize aData].
  f_equal. le_fix. slices. reflexivity.
Qed.

Lemma parse_qercd_ser d q : parse_qercd d = Ok q -> ser_qercd (Some q) = Ok d.
Proof.
  intro H. unfold parse_qercd in H.
  inv1 H. apply Nat.leb_le in Hc. unf.
  inv1 H. inv1 H. inv1 H. inv1 H. inv1 H.
  match goal with Hp : parse_auth _ = Ok ?p |- _ => destruct p as [a e]; rename Hp into Hauth end.
  match goal with Hp : parse_report _ = Ok _ |- _ => rename Hp into Hrep end.
  pose proof (parse_auth_end _ _ _ Hauth) as He. rewrite slice_length in He by lia.
  inv1 H. inv1 H.
  match goal with Hp : parse_pck _ = Ok _ |- _ => rename Hp into Hpck end.
  inv1 H.
  match goal with Hp : check_qercd _ = Ok _ |- _ => rename Hp into Hchk end.
  inv1 H.
  apply parse_report_ser in Hrep; [|rewrite slice_length; lia].
  apply parse_auth_ser in Hauth. apply parse_pck_ser in Hpck.
  cbn [ser_qercd]. rewrite (unit_ok _ _ Hchk). cbn [bind qReport qSig qAuth qPck].
  rewrite Hrep, Hauth, Hpck. cbn [bind]. f_equal.
  rewrite slice_slice by lia. cbn [Nat.add].
  slices. apply slice_full.
Qed.

Lemma parse_certdata_ser d c : parse_certdata d = Ok c -> ser_certdata (Some c) = Ok d.
Proof.
  intro H. unfold parse_certdata in H. inv H. unf. apply Nat.leb_le in Hc.
  match goal with Hp : parse_qercd _ = Ok _ |- _ => apply parse_qercd_ser in Hp; rename Hp into Hq end.
  match goal with Hp : check_certdata _ = Ok _ |- _ => rename Hp into Hchk end.
  cbn [ser_certdata]. rewrite (unit_ok _ _ Hchk). cbn [bind cType cSize cQercd]. rewrite Hq. cbn [bind].
  f_equal. le_fix. slices. apply slice_full.
Qed.

Lemma parse_signed_ser d s : parse_signed d = Ok s -> ser_signed (Some s) = Ok d.
Proof.
  intro H. unfold parse_signed in H. inv H. unf. apply Nat.leb_le in Hc.
  match goal with Hp : parse_certdata _ = Ok _ |- _ => apply parse_certdata_ser in Hp; rename Hp into Hq end.
  match goal with Hp : check_signed _ = Ok _ |- _ => rename Hp into Hchk end.
  cbn [ser_signed]. rewrite (unit_ok _ _ Hchk). cbn [bind sSig sKey sCert]. rewrite Hq. cbn [bind].
  f_equal. slices. apply slice_full.
Qed.

Theorem parse_ser raw q : parse raw = Ok q -> serialize (Some q) = Ok raw.
Proof.
  intro H. unfold parse in H.
  inv1 H. apply Nat.leb_le in Hc. unf.
  inv1 H. inv1 H. inv1 H. apply Nat.leb_le in Hc1.
  inv1 H. inv1 H. inv1 H. inv1 H. inv1 H. inv1 H. inv1 H.
  apply N.leb_le in Hc2. rewrite slice_length in Hc2 by lia.
  inv H.
  match goal with Hp : parse_header _ = Ok _ |- _ =>
    apply parse_header_ser in Hp; [|rewrite slice_length; lia]; rename Hp into Hh end.
  match goal with Hp : parse_body _ = Ok _ |- _ =>
    apply parse_body_ser in Hp; [|rewrite slice_length; lia]; rename Hp into Hb' end.
  match goal with Hp : parse_signed _ = Ok _ |- _ => apply parse_signed_ser in Hp; rename Hp into Hs end.
  match goal with Hp : check_quote _ = Ok _ |- _ => rename Hp into Hchk end.
  cbn [serialize]. rewrite (unit_ok _ _ Hchk). cbn [bind qHeader qBody qSignedDataSize qSigned qExtra].
  rewrite Hh, Hb', Hs. cbn [bind]. f_equal.
  le_fix. slices. apply slice_full.
Qed.

(* ---- serialise then parse gives the message back ---- *)
Ltac lens :=
  repeat first
    [ rewrite le_encode_length
    | match goal with Hl : length ?x = _ |- context [length ?x] => rewrite Hl end ].

Ltac sl1 :=
  match goal with
  | |- context [slice ?a ?b (?x ++ ?y)] =>
      first [ rewrite (slice_app_l a b x y) by (lens; lia)
            | rewrite (slice_app_r a b x y) by (lens; lia); lens; cbn [Nat.sub] ]
  end.
Ltac sl := repeat sl1; repeat rewrite slice_all by (lens; reflexivity).

Lemma chk_ok_inv {B} b (k : res B) r : (chk b ;; k) = Ok r -> b = true /\ k = Ok r.
Proof. unfold chk. intro H. now apply bind_guard_ok in H. Qed.

Ltac chk_inv H :=
  repeat (let Hc := fresh "Hc" in apply chk_ok_inv in H; destruct H as [Hc H]);
  try (unfold chk in H; apply guard_ok in H).

Lemma len_is_eq b n : len_is b n = true -> length b = n.
Proof. apply Nat.eqb_eq. Qed.

Ltac to_props :=
  repeat match goal with
         | H : len_is _ _ = true |- _ => apply len_is_eq in H
         | H : N.ltb _ _ = true |- _ => apply N.ltb_lt in H
         | H : N.eqb _ _ = true |- _ => apply N.eqb_eq in H
         | H : N.leb _ _ = true |- _ => apply N.leb_le in H
         | H : Nat.eqb _ _ = true |- _ => apply Nat.eqb_eq in H
         | H : Nat.leb _ _ = true |- _ => apply Nat.leb_le in H
         end.

Lemma check_header_inv h : check_header (Some h) = Ok tt ->
  hVersion h = 4%N /\ hAkt h = 2%N /\ hTee h = 129%N /\
  length (hQeSvn h) = 2 /\ length (hPceSvn h) = 2 /\ length (hVendor h) = 16 /\ length (hUser h) = 20.
Proof.
  cbn [check_header]. intro H. chk_inv H. unf. to_props.
  unfold abi_QuoteVersion, abi_AttestationKeyType, abi_TeeTDX in *. auto 10.
Qed.

Lemma le_dec_enc n v k : (v < k)%N -> k = (256 ^ N.of_nat n)%N -> le_decode (le_encode n v) = v.
Proof. intros H ->. now apply le_decode_encode. Qed.

Lemma gslice_eq a b l : a <= b -> b <= length l -> gslice a b l = Ok (slice a b l).
Proof. apply gslice_ok. Qed.

Ltac gs_ok :=
  repeat match goal with
         | |- context [gslice ?a ?b ?l] => rewrite (gslice_ok a b l) by (rewrite ?app_length; lens; lia); cbn [bind]
         end.

Lemma ser_header_parse h d : ser_header (Some h) = Ok d -> parse_header d = Ok h /\ length d = 48.
Proof.
  cbn [ser_header]. intro H. apply bind_ok in H as ([] & Hck & H). apply Ok_inj in H.
  pose proof (check_header_inv _ Hck) as (Hv & Hk & Ht & L1 & L2 & L3 & L4).
  destruct h as [v k t p q i u]; cbn [hVersion hAkt hTee hPceSvn hQeSvn hVendor hUser] in *.
  assert (Hd : length d = 48) by (subst d; rewrite !app_length; lens; reflexivity).
  split; [|exact Hd].
  unfold parse_header. unf. gs_ok. subst d. sl.
  rewrite !le_decode_encode by (cbn; lia).
  rewrite Hck. reflexivity.
Qed.

Lemma check_body_inv b : check_body (Some b) = Ok tt ->
  length (bTeeTcbSvn b) = 16 /\ length (bMrSeam b) = 48 /\ length (bMrSignerSeam b) = 48 /\
  length (bSeamAttr b) = 8 /\ length (bTdAttr b) = 8 /\ length (bXfam b) = 8 /\
  length (bMrTd b) = 48 /\ length (bMrConfigId b) = 48 /\ length (bMrOwner b) = 48 /\
  length (bMrOwnerConfig b) = 48 /\
  (exists r0 r1 r2 r3, bRtmrs b = [r0; r1; r2; r3] /\ length r0 = 48 /\ length r1 = 48 /\
                       length r2 = 48 /\ length r3 = 48) /\
  length (bReportData b) = 64.
Proof.
  cbn [check_body]. intro H. chk_inv H. unf. to_props.
  repeat (split; [assumption|]). split; [|assumption].
  destruct (bRtmrs b) as [|r0 [|r1 [|r2 [|r3 [|]]]]]; try discriminate.
  cbn [forallb] in *. repeat match goal with Hf : _ && _ = true |- _ => apply andb_true_iff in Hf as [? Hf] end.
  to_props. eauto 10.
Qed.

Lemma ser_body_parse b d : ser_body (Some b) = Ok d -> parse_body d = Ok b /\ length d = 584.
Proof.
  cbn [ser_body]. intro H. apply bind_ok in H as ([] & Hck & H). apply Ok_inj in H.
  pose proof (check_body_inv _ Hck) as (L1&L2&L3&L4&L5&L6&L7&L8&L9&L10&(r0&r1&r2&r3&Hr&R0&R1&R2&R3)&L12).
  destruct b as [f1 f2 f3 f4 f5 f6 f7 f8 f9 f10 f11 f12].
  cbn [bTeeTcbSvn bMrSeam bMrSignerSeam bSeamAttr bTdAttr bXfam bMrTd bMrConfigId bMrOwner bMrOwnerConfig bRtmrs bReportData] in *.
  subst f11. cbn [concat] in H. rewrite app_nil_r in H.
  assert (Hd : length d = 584) by (subst d; rewrite !app_length; lens; reflexivity).
  split; [|exact Hd].
  unfold parse_body. unf. cbn [parse_rtmrs]. unf. cbn [Nat.add]. gs_ok. subst d.
  rewrite <- !app_assoc. sl.
  rewrite Hck. reflexivity.
Qed.

Lemma check_report_inv r : check_report (Some r) = Ok tt ->
  length (rCpuSvn r) = 16 /\ length (rReserved1 r) = 28 /\ length (rAttributes r) = 16 /\
  length (rMrEnclave r) = 32 /\ length (rReserved2 r) = 32 /\ length (rMrSigner r) = 32 /\
  length (rReserved3 r) = 96 /\ (rIsvProdId r < 65536)%N /\ (rIsvSvn r < 65536)%N /\
  length (rReserved4 r) = 60 /\ length (rReportData r) = 64.
Proof.
  cbn [check_report]. intro H. chk_inv H. unf. to_props. auto 12.
Qed.

(* MISCSELECT is a uint32 proto field *)
Lemma ser_report_parse r d : (rMiscSelect r < 4294967296)%N ->
  ser_report (Some r) = Ok d -> parse_report d = Ok r /\ length d = 384.
Proof.
  intro Hm. cbn [ser_report]. intro H. apply bind_ok in H as ([] & Hck & H). apply Ok_inj in H.
  pose proof (check_report_inv _ Hck) as (L1&L3&L4&L5&L6&L7&L8&P9&P10&L11&L12).
  destruct r as [f1 f2 f3 f4 f5 f6 f7 f8 f9 f10 f11 f12].
  cbn [rCpuSvn rMiscSelect rReserved1 rAttributes rMrEnclave rReserved2 rMrSigner rReserved3 rIsvProdId rIsvSvn rReserved4 rReportData] in *.
  assert (Hd : length d = 384) by (subst d; rewrite !app_length; lens; reflexivity).
  split; [|exact Hd].
  unfold parse_report. unf. gs_ok. subst d. sl.
  rewrite !le_decode_encode by (cbn; lia).
  rewrite Hck. reflexivity.
Qed.

Lemma skipn_app_len {A} n (l1 l2 : list A) : length l1 = n -> skipn n (l1 ++ l2) = l2.
Proof. intros <-. rewrite skipn_app, skipn_all, Nat.sub_diag. reflexivity. Qed.

Lemma firstn_app_len {A} n (l1 l2 : list A) : length l1 = n -> firstn n (l1 ++ l2) = l1.
Proof. intros <-. rewrite firstn_app, firstn_all, Nat.sub_diag. cbn. apply app_nil_r. Qed.

Lemma gslice_from_app n l1 l2 : length l1 = n -> gslice_from n (l1 ++ l2) = Ok l2.
Proof.
  intro H. unfold gslice_from. rewrite gslice_ok by (rewrite app_length; lia).
  rewrite slice_to_end, skipn_app_len by exact H. reflexivity.
Qed.

Lemma gslice_from_app2 n l1 l2 l3 :
  length l1 + length l2 = n -> gslice_from n (l1 ++ l2 ++ l3) = Ok l3.
Proof. intro H. rewrite app_assoc. apply gslice_from_app. now rewrite app_length. Qed.

Lemma slice_mid a l1 l2 l3 : length l1 = a -> slice a (a + length l2) (l1 ++ l2 ++ l3) = l2.
Proof.
  intro H. unfold slice. rewrite skipn_app_len by exact H.
  replace (a + length l2 - a) with (length l2) by lia. now apply firstn_app_len.
Qed.

Definition u32 (v : N) : Prop := (v < 4294967296)%N.

Lemma check_pck_inv p : check_pck (Some p) = Ok tt ->
  pType p = 5%N /\ pSize p = N.of_nat (length (pChain p)).
Proof.
  cbn [check_pck]. intro H. chk_inv H. to_props.
  unfold abi_pckReportCertificationDataType in *. auto.
Qed.

Lemma ser_pck_parse p d : u32 (pSize p) -> ser_pck (Some p) = Ok d -> parse_pck d = Ok p.
Proof.
  unfold u32. intro Hu. cbn [ser_pck]. intro H. apply bind_ok in H as ([] & Hck & H). apply Ok_inj in H.
  pose proof (check_pck_inv _ Hck) as (Ht & Hs).
  destruct p as [t s c]; cbn [pType pSize pChain] in *.
  unfold parse_pck. unf.
  assert (Hl : 6 <= length d) by (subst d; rewrite !app_length; lens; lia).
  apply Nat.leb_le in Hl. rewrite Hl. cbn [chk guard bind]. apply Nat.leb_le in Hl.
  gs_ok. subst d.
  rewrite gslice_from_app2 by (lens; reflexivity). cbn [bind].
  sl. rewrite !le_decode_encode by (cbn; lia).
  rewrite Hck. reflexivity.
Qed.

Lemma check_auth_inv a : check_auth (Some a) = Ok tt ->
  (aSize a < 65536)%N /\ aSize a = N.of_nat (length (aData a)).
Proof. cbn [check_auth]. intro H. chk_inv H. to_props. auto. Qed.

Lemma ser_auth_parse a d rest :
  ser_auth (Some a) = Ok d -> parse_auth (d ++ rest) = Ok (a, length d).
Proof.
  cbn [ser_auth]. intro H. apply bind_ok in H as ([] & Hck & H). apply Ok_inj in H.
  pose proof (check_auth_inv _ Hck) as (Hb & Hs).
  destruct a as [s c]; cbn [aSize aData] in *.
  unfold parse_auth. unf. subst d. rewrite <- app_assoc.
  assert (Hlen : length (le_encode 2 s ++ c ++ rest) = 2 + length c + length rest)
    by (rewrite !app_length; lens; lia).
  assert (Hl : 2 <= length (le_encode 2 s ++ c ++ rest)) by lia.
  apply Nat.leb_le in Hl. rewrite Hl. cbn [chk guard bind]. apply Nat.leb_le in Hl.
  rewrite (gslice_ok 0 2) by lia. cbn [bind]. sl.
  rewrite le_decode_encode by (cbn; lia).
  assert (Hn : N.to_nat s = length c) by lia. rewrite Hn.
  assert (Hl2 : 2 + length c <= length (le_encode 2 s ++ c ++ rest)) by lia.
  apply Nat.leb_le in Hl2. rewrite Hl2. cbn [chk guard bind]. apply Nat.leb_le in Hl2.
  rewrite gslice_ok by lia. cbn [bind].
  rewrite slice_mid by apply le_encode_length.
  rewrite Hck. cbn [bind]. rewrite app_length, le_encode_length. reflexivity.
Qed.

Lemma check_report_some o : check_report o = Ok tt -> exists r, o = Some r.
Proof. destruct o; [eauto|discriminate]. Qed.
Lemma check_auth_some o : check_auth o = Ok tt -> exists r, o = Some r.
Proof. destruct o; [eauto|discriminate]. Qed.
Lemma check_pck_some o : check_pck o = Ok tt -> exists r, o = Some r.
Proof. destruct o; [eauto|discriminate]. Qed.
Lemma check_qercd_some o : check_qercd o = Ok tt -> exists r, o = Some r.
Proof. destruct o; [eauto|discriminate]. Qed.
Lemma check_certdata_some o : check_certdata o = Ok tt -> exists r, o = Some r.
Proof. destruct o; [eauto|discriminate]. Qed.
Lemma check_signed_some o : check_signed o = Ok tt -> exists r, o = Some r.
Proof. destruct o; [eauto|discriminate]. Qed.

Lemma seq_ok_inv {B} (m : res unit) (k : res B) r : (m ;; k) = Ok r -> m = Ok tt /\ k = Ok r.
Proof. intro H. apply bind_ok in H as ([] & ? & ?). auto. Qed.

Lemma ser_qercd_parse r a p sg d :
  u32 (rMiscSelect r) -> u32 (pSize p) ->
  ser_qercd (Some {| qReport := Some r; qSig := sg; qAuth := Some a; qPck := Some p |}) = Ok d ->
  parse_qercd d = Ok {| qReport := Some r; qSig := sg; qAuth := Some a; qPck := Some p |}.
Proof.
  intros Hr Hp H. cbn [ser_qercd qReport qSig qAuth qPck] in H.
  apply seq_ok_inv in H as [Hck H].
  apply bind_ok in H as (rb & Hrb & H). apply bind_ok in H as (ab & Hab & H).
  apply bind_ok in H as (pb & Hpb & H). apply Ok_inj in H.
  pose proof Hck as Hck'. cbn [check_qercd qReport qSig qAuth qPck] in Hck'.
  apply seq_ok_inv in Hck' as [_ Hck']. apply chk_ok_inv in Hck' as [Hsg _]. unf. to_props.
  destruct (ser_report_parse _ _ Hr Hrb) as [Prb Lrb].
  pose proof (ser_auth_parse _ _ pb Hab) as Pab.
  pose proof (ser_pck_parse _ _ Hp Hpb) as Ppb.
  unfold parse_qercd. unf. subst d.
  assert (Hlen : length (rb ++ sg ++ ab ++ pb) = 448 + length ab + length pb)
    by (rewrite !app_length; lens; lia).
  assert (Hl : 448 <= length (rb ++ sg ++ ab ++ pb)) by lia.
  apply Nat.leb_le in Hl. rewrite Hl. cbn [chk guard bind]. apply Nat.leb_le in Hl.
  rewrite (gslice_ok 0 384) by lia. cbn [bind]. sl. rewrite Prb. cbn [bind].
  rewrite (gslice_ok 384 448) by lia. cbn [bind].
  rewrite gslice_from_app2 by (lens; reflexivity). cbn [bind].
  rewrite Pab. cbn [bind].
  replace (rb ++ sg ++ ab ++ pb) with ((rb ++ sg ++ ab) ++ pb) by (now rewrite <- !app_assoc).
  rewrite gslice_from_app by (rewrite !app_length; lens; lia). cbn [bind].
  rewrite Ppb. cbn [bind].
  rewrite <- !app_assoc. sl. rewrite Hck. reflexivity.
Qed.

Lemma ser_certdata_parse t sz r a p sg d :
  u32 sz -> u32 (rMiscSelect r) -> u32 (pSize p) ->
  let qe := {| qReport := Some r; qSig := sg; qAuth := Some a; qPck := Some p |} in
  (forall qb, ser_qercd (Some qe) = Ok qb -> sz = N.of_nat (length qb)) ->
  ser_certdata (Some {| cType := t; cSize := sz; cQercd := Some qe |}) = Ok d ->
  parse_certdata d = Ok {| cType := t; cSize := sz; cQercd := Some qe |}.
Proof.
  intros Hsz Hr Hp qe Hcons H. cbn [ser_certdata cType cSize cQercd] in H.
  apply seq_ok_inv in H as [Hck H]. apply bind_ok in H as (qb & Hqb & H). apply Ok_inj in H.
  pose proof Hck as Hck'. cbn [check_certdata cType cSize cQercd] in Hck'.
  chk_inv Hck'. to_props. unfold abi_qeReportCertificationDataType in *.
  specialize (Hcons _ Hqb).
  pose proof (ser_qercd_parse _ _ _ _ _ Hr Hp Hqb) as Pqb.
  unfold parse_certdata. unf. subst d.
  assert (Hlen : length (le_encode 2 t ++ le_encode 4 sz ++ qb) = 6 + length qb)
    by (rewrite !app_length; lens; lia).
  assert (Hl : 6 <= length (le_encode 2 t ++ le_encode 4 sz ++ qb)) by lia.
  apply Nat.leb_le in Hl. rewrite Hl. cbn [chk guard bind]. apply Nat.leb_le in Hl.
  rewrite (gslice_ok 0 2) by lia. rewrite (gslice_ok 2 6) by lia. cbn [bind].
  rewrite gslice_from_app2 by (lens; reflexivity). cbn [bind]. sl.
  unfold u32 in *. rewrite !le_decode_encode by (cbn; lia).
  assert (He : N.eqb (N.of_nat (length qb)) sz = true) by (apply N.eqb_eq; lia).
  rewrite He. cbn [chk guard bind].
  fold qe in Pqb. rewrite Pqb. cbn [bind]. rewrite Hck. reflexivity.
Qed.

Lemma ser_auth_len o d : ser_auth o = Ok d -> 2 <= length d.
Proof.
  destruct o; cbn [ser_auth]; [|discriminate]. intro H. apply seq_ok_inv in H as [_ H].
  apply Ok_inj in H. subst d. rewrite app_length, le_encode_length. lia.
Qed.
Lemma ser_pck_len o d : ser_pck o = Ok d -> 6 <= length d.
Proof.
  destruct o; cbn [ser_pck]; [|discriminate]. intro H. apply seq_ok_inv in H as [_ H].
  apply Ok_inj in H. subst d. rewrite !app_length, !le_encode_length. lia.
Qed.

Lemma ser_signed_parse sg k t sz r a p qsg d :
  u32 sz -> u32 (rMiscSelect r) -> u32 (pSize p) ->
  let qe := {| qReport := Some r; qSig := qsg; qAuth := Some a; qPck := Some p |} in
  let c := {| cType := t; cSize := sz; cQercd := Some qe |} in
  let s := {| sSig := sg; sKey := k; sCert := Some c |} in
  (forall qb, ser_qercd (Some qe) = Ok qb -> sz = N.of_nat (length qb)) ->
  ser_signed (Some s) = Ok d -> parse_signed d = Ok s.
Proof.
  intros Hsz Hr Hp qe c s Hcons H. cbn [ser_signed sSig sKey sCert s] in H.
  apply seq_ok_inv in H as [Hck H]. apply bind_ok in H as (cb & Hcb & H). apply Ok_inj in H.
  pose proof Hck as Hck'. cbn [check_signed sSig sKey sCert] in Hck'.
  chk_inv Hck'. unf. to_props. unfold s in Hc, Hc0. cbn [sSig sKey] in Hc, Hc0.
  pose proof (ser_certdata_parse _ _ _ _ _ _ _ Hsz Hr Hp Hcons Hcb) as Pcb.
  unfold parse_signed. unf. subst d.
  assert (Hlen : length (sg ++ k ++ cb) = 128 + length cb) by (rewrite !app_length; lens; lia).
  assert (Hl : 128 <= length (sg ++ k ++ cb)) by lia.
  apply Nat.leb_le in Hl. rewrite Hl. cbn [chk guard bind]. apply Nat.leb_le in Hl.
  rewrite (gslice_ok 0 64) by lia. rewrite (gslice_ok 64 128) by lia. cbn [bind].
  rewrite gslice_from_app2 by (lens; reflexivity). cbn [bind].
  fold qe in Pcb. fold c in Pcb. rewrite Pcb. cbn [bind]. sl.
  fold c. fold s. cbn [s] in Hck |- *. rewrite Hck. reflexivity.
Qed.

(* a message in which every sub-message is present *)
Definition full_quote h b sds sg k t sz r qsg a p extra : quote :=
  {| qHeader := Some h; qBody := Some b; qSignedDataSize := sds;
     qSigned := Some {| sSig := sg; sKey := k;
                        sCert := Some {| cType := t; cSize := sz;
                                         cQercd := Some {| qReport := Some r; qSig := qsg;
                                                           qAuth := Some a; qPck := Some p |} |} |};
     qExtra := extra |}.

Theorem ser_parse_full h b sds sg k t sz r qsg a p extra raw :
  let q := full_quote h b sds sg k t sz r qsg a p extra in
  u32 sds -> u32 sz -> u32 (rMiscSelect r) -> u32 (pSize p) ->
  (forall sb, ser_signed (qSigned q) = Ok sb -> sds = N.of_nat (length sb)) ->
  (forall qb, ser_qercd (Some {| qReport := Some r; qSig := qsg; qAuth := Some a; qPck := Some p |}) = Ok qb ->
              sz = N.of_nat (length qb)) ->
  serialize (Some q) = Ok raw -> parse raw = Ok q.
Proof.
  intros q Hsds Hsz Hr Hp Hc1 Hc2 H.
  cbn [serialize q full_quote qHeader qBody qSignedDataSize qSigned qExtra] in H.
  apply seq_ok_inv in H as [Hck H].
  apply bind_ok in H as (hb & Hhb & H). apply bind_ok in H as (bb & Hbb & H).
  apply bind_ok in H as (sb & Hsb & H). apply Ok_inj in H.
  destruct (ser_header_parse _ _ Hhb) as [Phb Lhb].
  destruct (ser_body_parse _ _ Hbb) as [Pbb Lbb].
  pose proof (ser_signed_parse _ _ _ _ _ _ _ _ _ Hsz Hr Hp Hc2 Hsb) as Psb.
  specialize (Hc1 _ Hsb).
  pose proof Hhb as Hhv. cbn [ser_header] in Hhv. apply seq_ok_inv in Hhv as [Hhck Hhv]. apply Ok_inj in Hhv.
  pose proof (check_header_inv _ Hhck) as (Hv & _).
  unfold parse. unf. subst raw.
  assert (Hlen : length (hb ++ bb ++ le_encode 4 sds ++ sb ++ extra) = 636 + length sb + length extra)
    by (rewrite !app_length; lens; lia).
  assert (Hl : 2 <= length (hb ++ bb ++ le_encode 4 sds ++ sb ++ extra)) by lia.
  apply Nat.leb_le in Hl. rewrite Hl. cbn [chk guard bind]. apply Nat.leb_le in Hl.
  rewrite (gslice_ok 0 2) by lia. cbn [bind].
  rewrite (slice_app_l 0 2 hb) by lia.
  assert (Hver : le_decode (slice 0 2 hb) = 4%N).
  { rewrite <- Hhv. sl. rewrite le_decode_encode by (cbn; lia). exact Hv. }
  rewrite Hver. cbn [N.eqb Pos.eqb chk guard bind abi_intelQuoteV4Version].
  assert (Hl2 : 1020 <= length (hb ++ bb ++ le_encode 4 sds ++ sb ++ extra)).
  { (* the signed data alone is at least 128 + 6 + 448 + 2 + 6 bytes *)
    enough (590 <= length sb) by lia.
    cbn [ser_signed sSig sKey sCert] in Hsb. apply seq_ok_inv in Hsb as [Hs1 Hsb].
    apply bind_ok in Hsb as (cb & Hcb & Hsb). apply Ok_inj in Hsb.
    cbn [ser_certdata cType cSize cQercd] in Hcb. apply seq_ok_inv in Hcb as [_ Hcb].
    apply bind_ok in Hcb as (qb & Hqb & Hcb). apply Ok_inj in Hcb.
    cbn [ser_qercd qReport qSig qAuth qPck] in Hqb. apply seq_ok_inv in Hqb as [Hq1 Hqb].
    apply bind_ok in Hqb as (rb & Hrb & Hqb). apply bind_ok in Hqb as (ab & Hab & Hqb).
    apply bind_ok in Hqb as (pb & Hpb & Hqb). apply Ok_inj in Hqb.
    destruct (ser_report_parse _ _ Hr Hrb) as [_ Lrb].
    cbn [check_signed sSig sKey sCert] in Hs1. chk_inv Hs1.
    cbn [check_qercd qReport qSig qAuth qPck] in Hq1.
    apply seq_ok_inv in Hq1 as [_ Hq1]. apply chk_ok_inv in Hq1 as [Hq2 _].
    unf. to_props. apply ser_auth_len in Hab. apply ser_pck_len in Hpb.
    subst sb cb qb. rewrite !app_length. lens. lia. }
  apply Nat.leb_le in Hl2. rewrite Hl2. cbn [chk guard bind]. apply Nat.leb_le in Hl2.
  rewrite (gslice_ok 0 48) by lia. cbn [bind]. sl. rewrite Phb. cbn [bind].
  rewrite (gslice_ok 48 632) by lia. cbn [bind]. sl. rewrite Pbb. cbn [bind].
  rewrite (gslice_ok 632 636) by lia. cbn [bind]. sl.
  unfold u32 in *. rewrite le_decode_encode by (cbn; lia).
  replace (hb ++ bb ++ le_encode 4 sds ++ sb ++ extra)
    with ((hb ++ bb ++ le_encode 4 sds) ++ sb ++ extra) by (now rewrite <- !app_assoc).
  assert (L3 : length (hb ++ bb ++ le_encode 4 sds) = 636) by (rewrite !app_length; lens; lia).
  rewrite gslice_from_app by exact L3. cbn [bind].
  assert (Hle : N.leb sds (N.of_nat (length (sb ++ extra))) = true)
    by (apply N.leb_le; rewrite app_length; lia).
  rewrite Hle. cbn [chk guard bind].
  assert (Hn : N.to_nat sds = length sb) by lia. rewrite Hn.
  assert (L4 : length ((hb ++ bb ++ le_encode 4 sds) ++ sb ++ extra) = 636 + length sb + length extra)
    by (rewrite app_length, L3, app_length; lia).
  rewrite gslice_ok by (rewrite ?L4; lia). cbn [bind].
  rewrite slice_mid by exact L3.
  rewrite (app_assoc _ sb extra).
  rewrite gslice_from_app by (rewrite app_length, L3; lia). cbn [bind].
  rewrite Psb. cbn [bind].
  unfold q, full_quote in *. rewrite Hck. reflexivity.
Qed.

(* ---- well-formed messages ---- *)
Definition wf_quote (q : quote) : Prop :=
  exists h b sds sg k t sz r qsg a p extra,
    q = full_quote h b sds sg k t sz r qsg a p extra /\
    u32 sds /\ u32 sz /\ u32 (rMiscSelect r) /\ u32 (pSize p) /\
    (forall sb, ser_signed (qSigned q) = Ok sb -> sds = N.of_nat (length sb)) /\
    (forall qb, ser_qercd (Some {| qReport := Some r; qSig := qsg; qAuth := Some a; qPck := Some p |}) = Ok qb ->
                sz = N.of_nat (length qb)).

Theorem ser_parse q raw : wf_quote q -> serialize (Some q) = Ok raw -> parse raw = Ok q.
Proof.
  intros (h&b&sds&sg&k&t&sz&r&qsg&a&p&extra&->&H1&H2&H3&H4&H5&H6) H.
  eapply ser_parse_full; eassumption.
Qed.

Lemma le_decode_u32 l : length l = 4 -> u32 (le_decode l).
Proof. intro H. unfold u32. pose proof (le_decode_bound l) as Hb. rewrite H in Hb. exact Hb. Qed.

Lemma parse_report_misc d r : length d = 384 -> parse_report d = Ok r -> u32 (rMiscSelect r).
Proof.
  intros Hl H. unfold parse_report in H. inv H. unf. cbn [rMiscSelect].
  apply le_decode_u32. rewrite slice_length; lia.
Qed.

Lemma parse_pck_size d p : parse_pck d = Ok p -> u32 (pSize p).
Proof.
  intro H. unfold parse_pck in H. inv H. unf. apply Nat.leb_le in Hc. cbn [pSize].
  apply le_decode_u32. rewrite slice_length; lia.
Qed.

Lemma parse_qercd_shape d q : parse_qercd d = Ok q ->
  exists r sg a p, q = {| qReport := Some r; qSig := sg; qAuth := Some a; qPck := Some p |} /\
                   u32 (rMiscSelect r) /\ u32 (pSize p).
Proof.
  intro H. unfold parse_qercd in H.
  inv1 H. apply Nat.leb_le in Hc. unf.
  inv1 H. inv1 H. inv1 H. inv1 H. inv1 H.
  match goal with Hp : parse_auth _ = Ok ?p |- _ => destruct p as [a e] end.
  inv H.
  match goal with Hp : parse_report _ = Ok _ |- _ => apply parse_report_misc in Hp; [|rewrite slice_length; lia] end.
  match goal with Hp : parse_pck _ = Ok _ |- _ => apply parse_pck_size in Hp end.
  eauto 10.
Qed.

Lemma parse_certdata_shape d c : parse_certdata d = Ok c ->
  exists t sz r sg a p,
    let qe := {| qReport := Some r; qSig := sg; qAuth := Some a; qPck := Some p |} in
    c = {| cType := t; cSize := sz; cQercd := Some qe |} /\
    u32 sz /\ u32 (rMiscSelect r) /\ u32 (pSize p) /\
    (forall qb, ser_qercd (Some qe) = Ok qb -> sz = N.of_nat (length qb)).
Proof.
  intro H. unfold parse_certdata in H. inv H. unf. apply Nat.leb_le in Hc. to_props.
  match goal with Hp : parse_qercd _ = Ok ?q |- _ =>
    pose proof (parse_qercd_ser _ _ Hp) as Hser;
    apply parse_qercd_shape in Hp as (r & sg & a & p & -> & Hr & Hps) end.
  exists (le_decode (slice 0 2 d)), (le_decode (slice 2 6 d)), r, sg, a, p.
  cbn zeta. split; [reflexivity|]. split; [apply le_decode_u32; rewrite slice_length; lia|].
  split; [exact Hr|]. split; [exact Hps|].
  intros qb Hqb. rewrite Hser in Hqb. apply Ok_inj in Hqb. subst qb. lia.
Qed.

Theorem parse_wf raw q : parse raw = Ok q -> wf_quote q.
Proof.
  intro H. pose proof H as Hp. unfold parse in H.
  inv1 H. apply Nat.leb_le in Hc. unf.
  inv1 H. inv1 H. inv1 H. apply Nat.leb_le in Hc1.
  inv1 H. inv1 H. inv1 H. inv1 H. inv1 H. inv1 H. inv1 H.
  apply N.leb_le in Hc2. rewrite slice_length in Hc2 by lia.
  inv H.
  match goal with Hs : parse_signed _ = Ok ?s |- _ =>
    pose proof (parse_signed_ser _ _ Hs) as Hser; unfold parse_signed in Hs; inv Hs end.
  unf. to_props.
  match goal with Hcd : parse_certdata _ = Ok ?c |- _ =>
    apply parse_certdata_shape in Hcd as (t & sz & r & sg & a & p & Hceq & U1 & U2 & U3 & Hcons) end.
  cbn zeta in Hceq, Hcons. subst.
  do 12 eexists. split; [unfold full_quote; reflexivity|].
  split; [apply le_decode_u32; rewrite slice_length; lia|].
  split; [exact U1|]. split; [exact U2|]. split; [exact U3|].
  split; [|exact Hcons].
  cbn [qSigned]. intros sb Hsb. rewrite Hser in Hsb. apply Ok_inj in Hsb. subst sb.
  rewrite slice_length by lia. lia.
Qed.

(* the parser accepts exactly the serialisations of well-formed messages *)
Theorem parse_accepts_exactly raw q :
  parse raw = Ok q <-> wf_quote q /\ serialize (Some q) = Ok raw.
Proof.
  split.
  - intro H. split; [eapply parse_wf; eassumption|now apply parse_ser].
  - intros [Hw Hs]. now apply ser_parse.
Qed.

(* the bytes that verification re-serialises are bytes 0..631 of the input *)
Theorem parse_signed_prefix raw q : parse raw = Ok q ->
  ser_header (qHeader q) = Ok (slice 0 48 raw) /\ ser_body (qBody q) = Ok (slice 48 632 raw).
Proof.
  intro H. unfold parse in H.
  inv1 H. apply Nat.leb_le in Hc. unf.
  inv1 H. inv1 H. inv1 H. apply Nat.leb_le in Hc1.
  inv1 H. inv1 H. inv1 H. inv1 H. inv1 H. inv1 H. inv1 H. inv H.
  cbn [qHeader qBody]. split.
  - match goal with Hp : parse_header _ = Ok _ |- _ => apply parse_header_ser in Hp; [exact Hp|rewrite slice_length; lia] end.
  - match goal with Hp : parse_body _ = Ok _ |- _ => apply parse_body_ser in Hp; [exact Hp|rewrite slice_length; lia] end.
Qed.
