(* abi.SignatureToDER is a faithful, canonical encoding: the DER bytes parse back
   (under the strict reading rules) to exactly the numbers r and s of the raw
   signature, for every 64-byte input. *)
From V Require Import Lib.Bytes Lib.Res Model.Der.
From Coq Require Import ZifyN ZifyNat ZifyBool.

Lemma byte_eqb_spec x y : Byte.eqb x y = true <-> x = y.
Proof. apply byte_eqb_eq. Qed.

Lemma to_N_x00 : Byte.to_N x00 = 0%N. Proof. reflexivity. Qed.

Lemma be_value_cons_zero b : be_value (x00 :: b) = be_value b.
Proof.
  unfold be_value. cbn [rev]. generalize (rev b) as l. induction l as [|y l IH]; cbn [app le_decode]; [reflexivity|].
  rewrite IH. reflexivity.
Qed.

Lemma be_value_strip b : be_value (strip_zeros b) = be_value b.
Proof.
  induction b as [|x b IH]; [reflexivity|]. cbn [strip_zeros].
  destruct (Byte.eqb x x00) eqn:E; [|reflexivity].
  apply byte_eqb_spec in E. subst x. rewrite be_value_cons_zero. exact IH.
Qed.

Lemma strip_zeros_length b : length (strip_zeros b) <= length b.
Proof.
  induction b as [|x b IH]; [cbn; lia|]. cbn [strip_zeros]. destruct (Byte.eqb x x00); cbn [length]; lia.
Qed.

Lemma strip_zeros_head b x r : strip_zeros b = x :: r -> x <> x00.
Proof.
  induction b as [|y b IH]; [discriminate|]. cbn [strip_zeros].
  destruct (Byte.eqb y x00) eqn:E; [exact IH|].
  intro H. inversion H; subst. intro C. subst. rewrite byte_eqb_refl in E. discriminate.
Qed.

Lemma int_body_value b : be_value (int_body b) = be_value b.
Proof.
  unfold int_body. destruct (strip_zeros b) as [|x r] eqn:E.
  - rewrite <- (be_value_strip b), E. reflexivity.
  - destruct (high_bit x); [rewrite be_value_cons_zero|]; rewrite <- (be_value_strip b), E; reflexivity.
Qed.

Lemma int_body_length b : 1 <= length (int_body b) <= S (length b).
Proof.
  unfold int_body. pose proof (strip_zeros_length b) as L. destruct (strip_zeros b) as [|x r]; cbn [length] in *.
  - lia.
  - destruct (high_bit x); cbn [length]; lia.
Qed.

Lemma high_bit_x00 : high_bit x00 = false. Proof. reflexivity. Qed.

Lemma int_body_minimal b : minimal_nonneg (int_body b) = true.
Proof.
  unfold int_body. destruct (strip_zeros b) as [|x r] eqn:E; [reflexivity|].
  pose proof (strip_zeros_head b x r E) as Hx.
  destruct (high_bit x) eqn:Hh.
  - cbn [minimal_nonneg]. rewrite high_bit_x00, byte_eqb_refl, Hh. reflexivity.
  - destruct r as [|y r']; cbn [minimal_nonneg]; rewrite Hh; [reflexivity|].
    replace (Byte.eqb x x00) with false; [reflexivity|].
    symmetry. apply Bool.not_true_iff_false. intro C. apply byte_eqb_spec in C. contradiction.
Qed.

Lemma len_byte_small n : n < 128 -> Byte.to_N (len_byte n) = N.of_nat n /\ high_bit (len_byte n) = false.
Proof.
  intro H. unfold len_byte. assert (E : Byte.to_N (byte_of_N (N.of_nat n)) = N.of_nat n).
  { rewrite to_N_byte_of_N. apply N.mod_small. lia. }
  split; [exact E|]. unfold high_bit. rewrite E. apply N.leb_gt. lia.
Qed.

Lemma read_tlv_ok tag c rest : length c < 128 ->
  read_tlv tag (tag :: len_byte (length c) :: c ++ rest) = Some (c, rest).
Proof.
  intro H. destruct (len_byte_small _ H) as [E1 E2]. unfold read_tlv. rewrite byte_eqb_refl, E2, E1, Nat2N.id.
  cbn [negb andb]. rewrite app_length.
  replace (Nat.leb (length c) (length c + length rest)) with true by (symmetry; apply Nat.leb_le; lia).
  rewrite firstn_app, Nat.sub_diag, firstn_all, firstn_O, app_nil_r.
  rewrite skipn_app, Nat.sub_diag, skipn_all. reflexivity.
Qed.

Lemma read_int_der b rest : length b <= 64 -> read_int (der_int b ++ rest) = Some (be_value b, rest).
Proof.
  intro H. unfold read_int, der_int. pose proof (int_body_length b) as [_ L].
  change ((x02 :: len_byte (length (int_body b)) :: int_body b) ++ rest)
    with (x02 :: len_byte (length (int_body b)) :: int_body b ++ rest).
  rewrite read_tlv_ok by lia. rewrite int_body_minimal, int_body_value. reflexivity.
Qed.

Lemma der_int_length b : length (der_int b) = 2 + length (int_body b).
Proof. reflexivity. Qed.

Theorem sig_to_der_roundtrip sig : length sig = 64 ->
  exists d, sig_to_der sig = Ok d /\
            parse_der_sig d = Some (be_value (slice 0 32 sig), be_value (slice 32 64 sig)).
Proof.
  intro H. unfold sig_to_der. rewrite H. cbn [Nat.eqb]. eexists. split; [reflexivity|].
  set (r := slice 0 32 sig). set (s := slice 32 64 sig).
  assert (Lr : length r = 32) by (unfold r; rewrite slice_length; lia).
  assert (Ls : length s = 32) by (unfold s; rewrite slice_length; lia).
  unfold parse_der_sig.
  pose proof (int_body_length r) as [_ Br]. pose proof (int_body_length s) as [_ Bs].
  assert (Lb : length (der_int r ++ der_int s) < 128) by (rewrite app_length, !der_int_length; lia).
  rewrite <- (app_nil_r (der_int r ++ der_int s)) at 2.
  rewrite read_tlv_ok by exact Lb.
  rewrite read_int_der by lia.
  rewrite <- (app_nil_r (der_int s)). rewrite read_int_der by lia. reflexivity.
Qed.

(* the conversion applies to 64-byte signatures only *)
Theorem sig_to_der_rejects sig : length sig <> 64 -> sig_to_der sig = Err EParse.
Proof.
  intro H. unfold sig_to_der. destruct (Nat.eqb (length sig) 64) eqn:E; [apply Nat.eqb_eq in E; contradiction|reflexivity].
Qed.

(* two signatures with the same DER encoding are the same pair of numbers *)
Corollary sig_to_der_injective a b d : length a = 64 -> length b = 64 ->
  sig_to_der a = Ok d -> sig_to_der b = Ok d ->
  be_value (slice 0 32 a) = be_value (slice 0 32 b) /\ be_value (slice 32 64 a) = be_value (slice 32 64 b).
Proof.
  intros La Lb Ha Hb.
  destruct (sig_to_der_roundtrip a La) as (da & Ea & Pa). destruct (sig_to_der_roundtrip b Lb) as (db & Eb & Pb).
  rewrite Ha in Ea. rewrite Hb in Eb. inversion Ea; inversion Eb; subst. rewrite Pa in Pb. inversion Pb. split; congruence.
Qed.
