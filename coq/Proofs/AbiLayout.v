(* Every field of a parsed quote is the little-endian slice of the input that
   Intel's layout prescribes (literal offsets). *)
From V Require Import Model.AbiSpec Proofs.Abi Gen.AbiConsts.
From Coq Require Import ZifyN ZifyNat ZifyBool.

Lemma parse_header_fields d h : parse_header d = Ok h ->
  h = {| hVersion := le_decode (slice 0 2 d); hAkt := le_decode (slice 2 4 d);
         hTee := le_decode (slice 4 8 d); hPceSvn := slice 8 10 d; hQeSvn := slice 10 12 d;
         hVendor := slice 12 28 d; hUser := slice 28 48 d |}.
Proof. intro H. unfold parse_header in H. inv H. unf. reflexivity. Qed.

Lemma parse_body_fields d b : parse_body d = Ok b ->
  b = {| bTeeTcbSvn := slice 0 16 d; bMrSeam := slice 16 64 d; bMrSignerSeam := slice 64 112 d;
         bSeamAttr := slice 112 120 d; bTdAttr := slice 120 128 d; bXfam := slice 128 136 d;
         bMrTd := slice 136 184 d; bMrConfigId := slice 184 232 d; bMrOwner := slice 232 280 d;
         bMrOwnerConfig := slice 280 328 d;
         bRtmrs := [slice 328 376 d; slice 376 424 d; slice 424 472 d; slice 472 520 d];
         bReportData := slice 520 584 d |}.
Proof.
  intro H. unfold parse_body in H. unf. cbn [parse_rtmrs] in H. unf. cbn [Nat.add] in H.
  inv H. repeat match goal with Hr : _ = Ok _ |- _ => progress inv Hr end. reflexivity.
Qed.

Lemma parse_report_fields d r : parse_report d = Ok r ->
  r = {| rCpuSvn := slice 0 16 d; rMiscSelect := le_decode (slice 16 20 d); rReserved1 := slice 20 48 d;
         rAttributes := slice 48 64 d; rMrEnclave := slice 64 96 d; rReserved2 := slice 96 128 d;
         rMrSigner := slice 128 160 d; rReserved3 := slice 160 256 d;
         rIsvProdId := le_decode (slice 256 258 d); rIsvSvn := le_decode (slice 258 260 d);
         rReserved4 := slice 260 320 d; rReportData := slice 320 384 d |}.
Proof. intro H. unfold parse_report in H. inv H. unf. reflexivity. Qed.

Lemma parse_pck_fields d p : parse_pck d = Ok p ->
  6 <= length d /\
  p = {| pType := le_decode (slice 0 2 d); pSize := le_decode (slice 2 6 d); pChain := slice 6 (length d) d |}.
Proof. intro H. unfold parse_pck in H. inv H. unf. apply Nat.leb_le in Hc. auto. Qed.

Lemma parse_auth_fields d a e : parse_auth d = Ok (a, e) ->
  e = 2 + N.to_nat (le_decode (slice 0 2 d)) /\ e <= length d /\
  a = {| aSize := le_decode (slice 0 2 d); aData := slice 2 e d |}.
Proof. intro H. unfold parse_auth in H. inv H. unf. apply Nat.leb_le in Hc, Hc0. auto. Qed.

Lemma parse_qercd_fields d q : parse_qercd d = Ok q ->
  let n := N.to_nat (le_decode (slice 448 450 d)) in
  456 + n <= length d /\
  exists r, parse_report (slice 0 384 d) = Ok r /\
  q = {| qReport := Some r; qSig := slice 384 448 d;
         qAuth := Some {| aSize := le_decode (slice 448 450 d); aData := slice 450 (450 + n) d |};
         qPck := Some {| pType := le_decode (slice (450 + n) (452 + n) d);
                         pSize := le_decode (slice (452 + n) (456 + n) d);
                         pChain := slice (456 + n) (length d) d |} |}.
Proof.
  intro H. unfold parse_qercd in H.
  inv1 H. apply Nat.leb_le in Hc. unf.
  inv1 H. inv1 H. inv1 H. inv1 H. inv1 H.
  match goal with Hp : parse_auth _ = Ok ?p |- _ => destruct p as [a e]; apply parse_auth_fields in Hp as (He & Hle & ->) end.
  rewrite slice_length in Hle by lia.
  rewrite slice_slice in He by lia. cbn [Nat.add] in He.
  inv1 H. inv1 H.
  match goal with Hp : parse_pck _ = Ok _ |- _ => apply parse_pck_fields in Hp as (Hl6 & ->) end.
  rewrite slice_length in Hl6 by lia.
  inv H. cbn zeta.
  split; [lia|]. eexists. split; [eassumption|].
  rewrite !slice_length by lia.
  repeat rewrite slice_slice by (rewrite ?slice_length; lia).
  repeat (f_equal; try lia).
Qed.

Ltac arith_eq := repeat (f_equal; try lia).

Lemma parse_certdata_fields d c : parse_certdata d = Ok c ->
  6 <= length d /\ le_decode (slice 2 6 d) = N.of_nat (length d - 6) /\
  exists q, parse_qercd (slice 6 (length d) d) = Ok q /\
  c = {| cType := le_decode (slice 0 2 d); cSize := le_decode (slice 2 6 d); cQercd := Some q |}.
Proof.
  intro H. unfold parse_certdata in H. inv H. unf. apply Nat.leb_le in Hc. to_props.
  rewrite slice_length in Hc0 by lia.
  repeat split; [lia|lia|]. eexists. split; [eassumption|reflexivity].
Qed.

Lemma parse_signed_fields d s : parse_signed d = Ok s ->
  128 <= length d /\
  exists c, parse_certdata (slice 128 (length d) d) = Ok c /\
  s = {| sSig := slice 0 64 d; sKey := slice 64 128 d; sCert := Some c |}.
Proof.
  intro H. unfold parse_signed in H. inv H. unf. apply Nat.leb_le in Hc.
  split; [lia|]. eexists. split; [eassumption|reflexivity].
Qed.

Ltac sl_side := repeat (rewrite slice_length by sl_side); lia.
Ltac norm_in H :=
  repeat first [ rewrite slice_slice in H by sl_side | rewrite slice_length in H by sl_side ].
Ltac norm_goal :=
  repeat first [ rewrite slice_slice by sl_side | rewrite slice_length by sl_side ].

(* unary arithmetic on offsets up to 1226 must not be unfolded by conversion
   while the nested slices are normalised (lia does not need it) *)
Local Opaque Nat.add Nat.sub Nat.mul.

Theorem parse_layout raw q : parse raw = Ok q -> q = layout_quote raw.
Proof.
  intro H. unfold parse in H.
  inv1 H. apply Nat.leb_le in Hc. unf.
  inv1 H. inv1 H. inv1 H. apply Nat.leb_le in Hc1.
  inv1 H. inv1 H. inv1 H. inv1 H. inv1 H. inv1 H. inv1 H.
  apply N.leb_le in Hc2. rewrite slice_length in Hc2 by lia.
  inv H.
  match goal with Hp : parse_header _ = Ok _ |- _ => apply parse_header_fields in Hp; subst end.
  match goal with Hp : parse_body _ = Ok _ |- _ => apply parse_body_fields in Hp; subst end.
  match goal with Hp : parse_signed _ = Ok _ |- _ =>
    apply parse_signed_fields in Hp as (Ls & c & Hcd & ->) end.
  set (sds := N.to_nat (le_decode (slice 632 636 raw))) in *.
  norm_in Ls. norm_in Hcd.
  apply parse_certdata_fields in Hcd as (Lc & Hsz & qe & Hqe & ->).
  norm_in Lc. norm_in Hsz. norm_in Hqe.
  apply parse_qercd_fields in Hqe as (Lq & r & Hr & ->).
  apply parse_report_fields in Hr. subst r.
  norm_in Lq.
  (* the check of the parsed message is not needed any more; it is a huge term
     that every arithmetic side condition would otherwise have to scan *)
  repeat match goal with Hk : check_quote _ = _ |- _ => clear Hk end.
  unfold layout_quote. fold sds. norm_goal.
  arith_eq.
Qed.
