(* Proofs about Model/PckExt.v *)
From V Require Import Model.PckExt Proofs.Abi Gen.PcsConsts.
From Coq Require Import ZifyN ZifyNat ZifyBool.

Section Proofs.
Variable decode : bytes -> option (node * nat).
Notation pck_extensions := (pck_extensions decode).
Notation octet_value := (octet_value decode).
Notation octet_extension := (octet_extension decode).
Notation extract_sgx := (extract_sgx decode).
Notation sgx_fold := (sgx_fold decode).
Notation sgx_step := (sgx_step decode).

Ltac npk :=
  repeat match goal with
         | |- Ok _ <> Panic => discriminate
         | |- Err _ <> Panic => discriminate
         | |- perr <> Panic => discriminate
         | |- bind _ _ <> Panic => apply bind_nopanic; [|intros ? ?]
         | |- (if ?c then _ else _) <> Panic => destruct c
         | |- match ?x with _ => _ end <> Panic => destruct x
         end.

Lemma octet_value_np v n : octet_value v n <> Panic.
Proof. unfold octet_value. npk. Qed.
Lemma octet_extension_np e n : octet_extension e n <> Panic.
Proof. unfold octet_extension. destruct (as_extension e); [apply octet_value_np|discriminate]. Qed.
Lemma tcb_step_np acc c : tcb_step acc c <> Panic.
Proof. unfold tcb_step. npk. Qed.
Lemma tcb_fold_np cs : forall acc, tcb_fold acc cs <> Panic.
Proof.
  induction cs as [|c r IH]; intro acc; cbn [tcb_fold]; [discriminate|].
  apply bind_nopanic; [apply tcb_step_np|intros a _; apply IH].
Qed.
Lemma extract_tcb_np e : extract_tcb e <> Panic.
Proof.
  unfold extract_tcb. destruct (as_seq e) as [[|x [|y [|z l]]]|]; try discriminate.
  destruct (as_seq y); [|discriminate]. destruct (negb _); [discriminate|].
  apply bind_nopanic; [apply tcb_fold_np|intros a _]. npk.
Qed.
Lemma sgx_step_np acc e : sgx_step acc e <> Panic.
Proof.
  unfold PckExt.sgx_step. destruct (as_atv e) as [[o v]|]; [|discriminate].
  destruct (oid_eqb o pcs_oid_OidPPID).
  { destruct (saPpid acc); [discriminate|]. apply bind_nopanic; [apply octet_extension_np|intros ? ?; discriminate]. }
  destruct (oid_eqb o pcs_oid_OidTCB).
  { destruct (saTcb acc); [discriminate|]. apply bind_nopanic; [apply extract_tcb_np|intros ? ?; discriminate]. }
  destruct (oid_eqb o pcs_oid_OidPCEID).
  { destruct (saPceId acc); [discriminate|]. apply bind_nopanic; [apply octet_extension_np|intros ? ?; discriminate]. }
  destruct (oid_eqb o pcs_oid_OidFMSPC).
  { destruct (saFmspc acc); [discriminate|]. apply bind_nopanic; [apply octet_extension_np|intros ? ?; discriminate]. }
  discriminate.
Qed.
Lemma sgx_fold_np es : forall acc, sgx_fold acc es <> Panic.
Proof.
  induction es as [|e r IH]; intro acc; cbn [PckExt.sgx_fold]; [discriminate|].
  apply bind_nopanic; [apply sgx_step_np|intros a _; apply IH].
Qed.

(* arbitrary DER in the SGX extension never crashes extraction *)
Theorem pck_extensions_np exts : pck_extensions exts <> Panic.
Proof.
  unfold PckExt.pck_extensions. destruct (negb _); [discriminate|].
  destruct (find_ext exts _); [|discriminate]. destruct (decode b) as [[n rest]|]; [|discriminate].
  destruct (as_seq n); [|discriminate]. destruct (negb _); [discriminate|].
  unfold PckExt.extract_sgx. destruct (Nat.ltb _ _); [discriminate|].
  apply bind_nopanic; [apply sgx_fold_np|intros a _]. npk.
Qed.

(* ---- soundness of the TCB fold: every value in the accumulator was put there by an
   element that carries that component's OID and a value in range, and no
   element was consumed twice ---- *)
Definition comp_source (cs : list node) (i : nat) (v : N) : Prop :=
  exists c z o, In c cs /\ as_atv c = Some (o, AInt z) /\ comp_index o = Some i /\
                (0 <= z <= 255)%Z /\ v = Z.to_N z.

Definition acc_sound (cs : list node) (acc : tcb_acc) : Prop :=
  (forall i v, nth_error (taComps acc) i = Some (Some v) -> comp_source cs i v) /\
  (forall v, taPce acc = Some v ->
     exists c z o, In c cs /\ as_atv c = Some (o, AInt z) /\ oid_eqb o pcs_oid_OidPCESvn = true /\
                   (0 <= z <= 65535)%Z /\ v = Z.to_N z) /\
  (forall b, taCpu acc = Some b ->
     exists c o, In c cs /\ as_atv c = Some (o, ABytes b) /\ oid_eqb o pcs_oid_OidCPUSvn = true /\ length b = 16).

Lemma nth_error_set_nth {A} (l : list A) i j v :
  nth_error (set_nth i v l) j = if Nat.eqb i j then (if Nat.ltb i (length l) then Some v else None) else nth_error l j.
Proof.
  revert i j; induction l as [|x l IH]; intros i j; cbn [set_nth].
  - destruct i, j; cbn; try reflexivity. destruct (Nat.eqb i j); reflexivity.
  - destruct i as [|i], j as [|j]; cbn [set_nth nth_error Nat.eqb length]; try reflexivity.
    rewrite IH. destruct (Nat.eqb i j); [|reflexivity].
    change (S i <? S (length l)) with (i <? length l). reflexivity.
Qed.

Lemma acc_sound_mono cs c acc : acc_sound cs acc -> acc_sound (c :: cs) acc.
Proof.
  intros (H1 & H2 & H3). repeat split.
  - intros i v Hn. destruct (H1 i v Hn) as (c' & z & o & Hin & ?). exists c', z, o. split; [now right|assumption].
  - intros v Hv. destruct (H2 v Hv) as (c' & z & o & Hin & ?). exists c', z, o. split; [now right|assumption].
  - intros b Hb. destruct (H3 b Hb) as (c' & o & Hin & ?). exists c', o. split; [now right|assumption].
Qed.

Lemma tcb_step_sound cs c acc acc' :
  acc_sound cs acc -> tcb_step acc c = Ok acc' -> acc_sound (c :: cs) acc'.
Proof.
  intros Hs H. unfold tcb_step in H.
  destruct (as_atv c) as [[o v]|] eqn:Ea; [|discriminate].
  destruct (comp_index o) as [i|] eqn:Ei.
  - destruct v as [|z| |]; try discriminate.
    destruct (Z.ltb z 0 || Z.ltb 255 z)%bool eqn:Er; [discriminate|].
    apply orb_false_iff in Er as [E1 E2]. apply Z.ltb_ge in E1, E2.
    destruct (nth_error (taComps acc) i) as [[w|]|] eqn:En; try discriminate; apply Ok_inj in H; subst acc'.
    all: destruct (acc_sound_mono cs c acc Hs) as (H1 & H2 & H3); repeat split; cbn [taComps taPce taCpu]; auto.
    all: intros j w Hj; rewrite nth_error_set_nth in Hj;
      destruct (Nat.eqb_spec i j) as [->|Hne]; [|now apply H1];
      destruct (Nat.ltb j (length (taComps acc))); [|discriminate]; inversion Hj; subst w;
      exists c, z, o; repeat split; auto; now left.
  - destruct (oid_eqb o pcs_oid_OidPCESvn) eqn:Ep.
    + destruct v as [|z| |]; try discriminate.
      destruct (Z.ltb z 0 || Z.ltb 65535 z)%bool eqn:Er; [discriminate|].
      apply orb_false_iff in Er as [E1 E2]. apply Z.ltb_ge in E1, E2.
      destruct (taPce acc); [discriminate|]. apply Ok_inj in H. subst acc'.
      destruct (acc_sound_mono cs c acc Hs) as (H1 & H2 & H3). repeat split; cbn [taComps taPce taCpu]; auto.
      intros w Hw. inversion Hw; subst w. exists c, z, o. repeat split; auto. now left.
    + destruct (oid_eqb o pcs_oid_OidCPUSvn) eqn:Ec.
      * destruct v as [| |b|]; try discriminate.
        destruct (Nat.eqb_spec (length b) pcs_cpuSvnSize_nat) as [El|El]; cbn [negb] in H; [|discriminate].
        destruct (taCpu acc); [discriminate|]. apply Ok_inj in H. subst acc'.
        destruct (acc_sound_mono cs c acc Hs) as (H1 & H2 & H3). repeat split; cbn [taComps taPce taCpu]; auto.
        intros w Hw. inversion Hw; subst w. exists c, o. repeat split; auto. now left.
      * apply Ok_inj in H. subst acc'. now apply acc_sound_mono.
Qed.

Lemma acc_sound_incl cs cs' acc : (forall c, In c cs -> In c cs') -> acc_sound cs acc -> acc_sound cs' acc.
Proof.
  intros Hi (H1 & H2 & H3). repeat split.
  - intros i v Hn. destruct (H1 i v Hn) as (c' & z & o & Hin & ?). exists c', z, o. split; [now apply Hi|assumption].
  - intros v Hv. destruct (H2 v Hv) as (c' & z & o & Hin & ?). exists c', z, o. split; [now apply Hi|assumption].
  - intros b Hb. destruct (H3 b Hb) as (c' & o & Hin & ?). exists c', o. split; [now apply Hi|assumption].
Qed.

Lemma tcb_fold_sound cs : forall done acc acc',
  acc_sound done acc -> tcb_fold acc cs = Ok acc' -> acc_sound (rev cs ++ done) acc'.
Proof.
  induction cs as [|c r IH]; intros done acc acc' Hs H; cbn [tcb_fold] in H.
  - apply Ok_inj in H. now subst.
  - apply bind_ok in H as (a & Ha & H). cbn [rev]. rewrite <- app_assoc. cbn [app].
    apply (IH (c :: done) a acc'); [|exact H]. eapply tcb_step_sound; eassumption.
Qed.

Lemma acc0_sound : acc_sound [] tcb_acc0.
Proof.
  repeat split; cbn; try discriminate.
  intros i v H. exfalso. revert H. unfold tcb_acc0. cbn.
  do 17 (destruct i as [|i]; cbn; try discriminate).
Qed.

(* every extracted TCB value stems from an element of the certificate carrying
   that value under the right OID *)
Theorem extract_tcb_sound elem t :
  extract_tcb elem = Ok t ->
  exists first comps, as_seq elem = Some [first; comps] /\
  exists cs, as_seq comps = Some cs /\ length cs = 18 /\
    length (tcComps t) = 16 /\
    (forall i v, nth_error (tcComps t) i = Some v -> comp_source cs i v) /\
    (exists c z o, In c cs /\ as_atv c = Some (o, AInt z) /\ oid_eqb o pcs_oid_OidPCESvn = true /\
                   (0 <= z <= 65535)%Z /\ tcPceSvn t = Z.to_N z) /\
    (exists c o, In c cs /\ as_atv c = Some (o, ABytes (tcCpuSvn t)) /\ oid_eqb o pcs_oid_OidCPUSvn = true /\
                 length (tcCpuSvn t) = 16).
Proof.
  unfold extract_tcb. intro H.
  destruct (as_seq elem) as [[|f [|s [|x l]]]|] eqn:E1; try discriminate.
  destruct (as_seq s) as [cs|] eqn:E2; [|discriminate].
  destruct (Nat.eqb_spec (length cs) pcs_tcbExtensionSize_nat) as [El|El]; cbn [negb] in H; [|discriminate].
  apply bind_ok in H as (acc & Hf & H).
  destruct (all_some (taComps acc)) as [comps|] eqn:Ea; [|discriminate].
  destruct (taPce acc) as [p|] eqn:Ep; [|discriminate]. destruct (taCpu acc) as [cpu|] eqn:Ec; [|discriminate].
  apply Ok_inj in H. subst t. cbn [tcComps tcPceSvn tcCpuSvn].
  pose proof (tcb_fold_sound cs [] _ _ acc0_sound Hf) as Hs. rewrite app_nil_r in Hs.
  apply (acc_sound_incl _ cs) in Hs; [|intros c Hc; now apply in_rev].
  destruct Hs as (H1 & H2 & H3).
  exists f, s. split; [reflexivity|]. exists cs. split; [exact E2|]. split; [exact El|].
  assert (Hall : forall (l : list (option N)) r, all_some l = Some r ->
            length r = length l /\ forall i v, nth_error r i = Some v -> nth_error l i = Some (Some v)).
  { induction l as [|[x|] l IHl]; intros r Hr; cbn in Hr; try discriminate.
    - inversion Hr; subst. split; [reflexivity|]. intros [|i] v; discriminate.
    - destruct (all_some l) as [r'|]; [|discriminate]. inversion Hr; subst.
      destruct (IHl r' eq_refl) as [L N]. split; [cbn; now rewrite L|].
      intros [|i] v Hv; cbn in *; [now inversion Hv|now apply N]. }
  destruct (Hall _ _ Ea) as [L N].
  assert (Hlen : length (taComps acc) = 16).
  { clear -Hf. assert (G : forall l a a', tcb_fold a l = Ok a' -> length (taComps a') = length (taComps a)).
    { induction l as [|c r IH]; intros a a' H; cbn [tcb_fold] in H; [apply Ok_inj in H; now subst|].
      apply bind_ok in H as (b & Hb & H). rewrite (IH _ _ H).
      unfold tcb_step in Hb. destruct (as_atv c) as [[o v]|]; [|discriminate].
      destruct (comp_index o).
      - destruct v; try discriminate. destruct (_ || _)%bool; [discriminate|].
        assert (Hs : forall {A} i (x : A) l, length (set_nth i x l) = length l).
        { intros A i x l. revert i; induction l; intros [|i]; cbn; auto. }
        destruct (nth_error _ _) as [[|]|]; try discriminate; apply Ok_inj in Hb; subst b; cbn; apply Hs.
      - destruct (oid_eqb o pcs_oid_OidPCESvn).
        + destruct v; try discriminate. destruct (_ || _)%bool; [discriminate|]. destruct (taPce a); [discriminate|].
          apply Ok_inj in Hb. now subst.
        + destruct (oid_eqb o pcs_oid_OidCPUSvn).
          * destruct v; try discriminate. destruct (negb _); [discriminate|]. destruct (taCpu a); [discriminate|].
            apply Ok_inj in Hb. now subst.
          * apply Ok_inj in Hb. now subst. }
    rewrite (G _ _ _ Hf). reflexivity. }
  split; [now rewrite L|]. split; [intros i v Hv; apply H1; now apply N|].
  split; [destruct (H2 p Ep) as (c & z & o & ?); exists c, z, o; assumption|].
  destruct (H3 cpu Ec) as (c & o & ?). exists c, o. assumption.
Qed.

(* octet-string values: exactly the extension's octets when they have the right
   size; otherwise only the recorded leniency (the octets are themselves the DER
   of an OCTET STRING of the right size) *)
Theorem octet_value_sound value size b :
  octet_value value size = Ok b ->
  length b = size /\
  (b = value \/
   (length value <> size /\ exists n, decode value = Some (n, 0) /\ is_universal n 4 false = true /\ b = n_content n)).
Proof.
  unfold PckExt.octet_value. destruct (Nat.eqb_spec (length value) size) as [E|E].
  - intro H. apply Ok_inj in H. subst. auto.
  - destruct (decode value) as [[n rest]|]; [|discriminate].
    destruct (is_universal n 4 false) eqn:Eu; cbn [negb]; [|discriminate].
    destruct (Nat.eqb_spec rest 0) as [->|]; cbn [negb]; [|discriminate].
    destruct (Nat.eqb_spec (length (n_content n)) size) as [El|]; cbn [negb]; [|discriminate].
    intro H. apply Ok_inj in H. subst b. split; [exact El|]. right. split; [exact E|]. exists n. auto.
Qed.
End Proofs.
