(* Order independence of the SGX extension extraction: permuting the 18 TCB
   elements, or the sub-extensions of the SGX extension, changes neither the
   values returned nor whether an error is returned. *)
From Coq Require Import Permutation.
From V Require Import Lib.Bytes Lib.Res Model.PckExt Proofs.PckExt Gen.PcsConsts.

Section Perm.
Variable decode : bytes -> option (node * nat).

(* ---- list helpers ---- *)
Lemma nth_error_set_nth_same {A} (l : list A) i v : i < length l -> nth_error (set_nth i v l) i = Some v.
Proof.
  revert i; induction l as [|x l IH]; intros i Hi; [cbn in Hi; lia|].
  destruct i; cbn; [reflexivity|]. apply IH. cbn in Hi. lia.
Qed.

Lemma nth_error_set_nth_other {A} (l : list A) i j v : i <> j -> nth_error (set_nth i v l) j = nth_error l j.
Proof.
  revert i j; induction l as [|x l IH]; intros i j Hij; [destruct i; reflexivity|].
  destruct i, j; cbn; try reflexivity; try congruence. apply IH. congruence.
Qed.

Lemma set_nth_out {A} (l : list A) i v : length l <= i -> set_nth i v l = l.
Proof.
  revert i; induction l as [|x l IH]; intros i Hi; [destruct i; reflexivity|].
  destruct i; cbn in *; [lia|]. f_equal. apply IH. lia.
Qed.

Lemma set_nth_comm {A} (l : list A) i j v w : i <> j -> set_nth i v (set_nth j w l) = set_nth j w (set_nth i v l).
Proof.
  revert i j; induction l as [|x l IH]; intros i j Hij; [destruct i, j; reflexivity|].
  destruct i, j; cbn; try reflexivity; try congruence. f_equal. apply IH. congruence.
Qed.

(* ---- one TCB element: what it asks for, independently of the state ---- *)
Inductive action := XFail | XSkip | XComp (i : nat) (v : N) | XPce (v : N) | XCpu (b : bytes).

Definition classify (c : node) : action :=
  match as_atv c with
  | None => XFail
  | Some (o, v) =>
    match comp_index o with
    | Some i =>
      match v with
      | AInt z => if Z.ltb z 0 || Z.ltb 255 z then XFail else XComp i (Z.to_N z)
      | _ => XFail
      end
    | None =>
      if oid_eqb o pcs_oid_OidPCESvn then
        match v with
        | AInt z => if Z.ltb z 0 || Z.ltb 65535 z then XFail else XPce (Z.to_N z)
        | _ => XFail
        end
      else if oid_eqb o pcs_oid_OidCPUSvn then
        match v with
        | ABytes b => if negb (Nat.eqb (length b) pcs_cpuSvnSize_nat) then XFail else XCpu b
        | _ => XFail
        end
      else XSkip
    end
  end.

Definition act (acc : tcb_acc) (a : action) : res tcb_acc :=
  match a with
  | XFail => perr
  | XSkip => Ok acc
  | XComp i v =>
    match nth_error (taComps acc) i with
    | Some (Some _) => perr
    | _ => Ok {| taComps := set_nth i (Some v) (taComps acc); taPce := taPce acc; taCpu := taCpu acc |}
    end
  | XPce v => match taPce acc with Some _ => perr | None => Ok {| taComps := taComps acc; taPce := Some v; taCpu := taCpu acc |} end
  | XCpu b => match taCpu acc with Some _ => perr | None => Ok {| taComps := taComps acc; taPce := taPce acc; taCpu := Some b |} end
  end.

Lemma tcb_step_act acc c : tcb_step acc c = act acc (classify c).
Proof.
  unfold tcb_step, classify. destruct (as_atv c) as [[o v]|]; [|reflexivity].
  destruct (comp_index o) as [i|].
  - destruct v; try reflexivity. destruct (Z.ltb z 0 || Z.ltb 255 z); reflexivity.
  - destruct (oid_eqb o pcs_oid_OidPCESvn).
    + destruct v; try reflexivity. destruct (Z.ltb z 0 || Z.ltb 65535 z); reflexivity.
    + destruct (oid_eqb o pcs_oid_OidCPUSvn); [|reflexivity].
      destruct v; try reflexivity. destruct (negb (Nat.eqb (length b) pcs_cpuSvnSize_nat)); reflexivity.
Qed.

(* two elements commute: same result, same failure *)
Lemma act_comm acc a b :
  (x <- act acc a ;; act x b) = (x <- act acc b ;; act x a).
Proof.
  destruct a as [| |i v|v|v], b as [| |j w|w|w]; cbn [act bind];
    try reflexivity;
    try (destruct (act acc _) as [x| |]; reflexivity);
    try (destruct (nth_error (taComps acc) _) as [[?|]|]; cbn [bind act taComps taPce taCpu]; try reflexivity;
         destruct (taPce acc), (taCpu acc); reflexivity);
    try (destruct (taPce acc), (taCpu acc); cbn [bind act taComps taPce taCpu]; try reflexivity;
         destruct (nth_error (taComps acc) _) as [[?|]|]; reflexivity).
  - (* two components *)
    destruct (Nat.eq_dec i j) as [->|Hij].
    + destruct (nth_error (taComps acc) j) as [[u|]|] eqn:E; cbn [bind act taComps]; try reflexivity.
      * assert (L : j < length (taComps acc)) by (apply nth_error_Some; congruence).
        rewrite !nth_error_set_nth_same by exact L. reflexivity.
      * assert (L : length (taComps acc) <= j) by (apply nth_error_None; exact E).
        repeat rewrite (set_nth_out (taComps acc) j (Some v) L). repeat rewrite (set_nth_out (taComps acc) j (Some w) L).
        rewrite E. repeat rewrite (set_nth_out (taComps acc) j (Some v) L). repeat rewrite (set_nth_out (taComps acc) j (Some w) L). reflexivity.
    + destruct (nth_error (taComps acc) i) as [[u|]|] eqn:Ei; destruct (nth_error (taComps acc) j) as [[u'|]|] eqn:Ej;
        cbn [bind act taComps taPce taCpu];
        rewrite ?nth_error_set_nth_other by congruence; rewrite ?Ei, ?Ej; try reflexivity;
        rewrite (set_nth_comm (taComps acc) i j) by exact Hij; reflexivity.
Qed.

Fixpoint afold (acc : tcb_acc) (l : list action) : res tcb_acc :=
  match l with
  | [] => Ok acc
  | a :: r => x <- act acc a ;; afold x r
  end.

Lemma tcb_fold_afold cs : forall acc, tcb_fold acc cs = afold acc (map classify cs).
Proof.
  induction cs as [|c cs IH]; intro acc; [reflexivity|]. cbn [tcb_fold map afold].
  rewrite tcb_step_act. destruct (act acc (classify c)); cbn [bind]; [apply IH|reflexivity|reflexivity].
Qed.

Lemma afold_swap acc a b l : afold acc (a :: b :: l) = afold acc (b :: a :: l).
Proof.
  cbn [afold].
  transitivity (y <- (x <- act acc a ;; act x b) ;; afold y l).
  { destruct (act acc a); cbn [bind]; reflexivity. }
  rewrite act_comm. destruct (act acc b); cbn [bind]; reflexivity.
Qed.

Lemma afold_perm l l' : Permutation l l' -> forall acc, afold acc l = afold acc l'.
Proof.
  induction 1 as [|a l l' _ IH|a b l|l1 l2 l3 _ IH1 _ IH2]; intro acc.
  - reflexivity.
  - cbn [afold]. destruct (act acc a); cbn [bind]; [apply IH|reflexivity|reflexivity].
  - apply afold_swap.
  - rewrite IH1. apply IH2.
Qed.

Theorem tcb_fold_perm cs cs' acc : Permutation cs cs' -> tcb_fold acc cs = tcb_fold acc cs'.
Proof.
  intro H. rewrite !tcb_fold_afold. apply afold_perm. apply Permutation_map. exact H.
Qed.

(* the TCB sub-extension: any order of its elements gives the same values (or the same error) *)
Theorem extract_tcb_perm elem elem' f f' s s' cs cs' :
  as_seq elem = Some [f; s] -> as_seq elem' = Some [f'; s'] ->
  as_seq s = Some cs -> as_seq s' = Some cs' -> Permutation cs cs' ->
  extract_tcb elem = extract_tcb elem'.
Proof.
  intros E E' S S' P. unfold extract_tcb. rewrite E, E', S, S'.
  rewrite (Permutation_length P). rewrite (tcb_fold_perm cs cs' tcb_acc0 P). reflexivity.
Qed.

(* ---- the sub-extensions of the SGX extension ---- *)
Inductive saction := SFail | SSkip | SPpid (r : res bytes) | STcb (r : res pck_tcb) | SPceId (r : res bytes) | SFmspc (r : res bytes).

Definition sclassify (e : node) : saction :=
  match as_atv e with
  | None => SFail
  | Some (o, _) =>
    if oid_eqb o pcs_oid_OidPPID then SPpid (octet_extension decode e pcs_ppidSize_nat)
    else if oid_eqb o pcs_oid_OidTCB then STcb (extract_tcb e)
    else if oid_eqb o pcs_oid_OidPCEID then SPceId (octet_extension decode e pcs_pceIDSize_nat)
    else if oid_eqb o pcs_oid_OidFMSPC then SFmspc (octet_extension decode e pcs_fmspcSize_nat)
    else SSkip
  end.

(* the values come out of oracles that never panic; an error in them is the same error as a duplicate *)
Definition norm {A} (r : res A) : res A := match r with Ok a => Ok a | _ => perr end.

Definition sact (acc : sgx_acc) (a : saction) : res sgx_acc :=
  match a with
  | SFail => perr
  | SSkip => Ok acc
  | SPpid r => match saPpid acc with Some _ => perr | None =>
      v <- r ;; Ok {| saPpid := Some v; saTcb := saTcb acc; saPceId := saPceId acc; saFmspc := saFmspc acc |} end
  | STcb r => match saTcb acc with Some _ => perr | None =>
      t <- r ;; Ok {| saPpid := saPpid acc; saTcb := Some t; saPceId := saPceId acc; saFmspc := saFmspc acc |} end
  | SPceId r => match saPceId acc with Some _ => perr | None =>
      v <- r ;; Ok {| saPpid := saPpid acc; saTcb := saTcb acc; saPceId := Some v; saFmspc := saFmspc acc |} end
  | SFmspc r => match saFmspc acc with Some _ => perr | None =>
      v <- r ;; Ok {| saPpid := saPpid acc; saTcb := saTcb acc; saPceId := saPceId acc; saFmspc := Some v |} end
  end.

Lemma sgx_step_sact acc e : sgx_step decode acc e = sact acc (sclassify e).
Proof.
  unfold sgx_step, sclassify. destruct (as_atv e) as [[o v]|]; [|reflexivity].
  destruct (oid_eqb o pcs_oid_OidPPID); [reflexivity|].
  destruct (oid_eqb o pcs_oid_OidTCB); [reflexivity|].
  destruct (oid_eqb o pcs_oid_OidPCEID); [reflexivity|].
  destruct (oid_eqb o pcs_oid_OidFMSPC); reflexivity.
Qed.

(* an action is well-behaved when its value is a result or the extension error *)
Definition tame (a : saction) : Prop :=
  match a with
  | SPpid r | SPceId r | SFmspc r => r = norm r
  | STcb r => r = norm r
  | _ => True
  end.

Lemma sact_comm acc a b : tame a -> tame b ->
  (x <- sact acc a ;; sact x b) = (x <- sact acc b ;; sact x a).
Proof.
  intros Ta Tb.
  destruct a as [| |ra|ra|ra|ra], b as [| |rb|rb|rb|rb]; cbn [tame] in Ta, Tb; cbn [sact bind];
    try reflexivity;
    try (destruct (sact acc _) as [x| |]; reflexivity);
    try rewrite Ta; try rewrite Tb;
    destruct (saPpid acc), (saTcb acc), (saPceId acc), (saFmspc acc);
    try destruct ra as [?|?|]; try destruct rb as [?|?|]; cbn; try reflexivity.
Qed.

(* every value extraction ends in a value or in the extension error *)
Lemma act_tame acc a : act acc a = norm (act acc a).
Proof.
  destruct a; cbn [act]; try reflexivity.
  - destruct (nth_error (taComps acc) i) as [[?|]|]; reflexivity.
  - destruct (taPce acc); reflexivity.
  - destruct (taCpu acc); reflexivity.
Qed.

Lemma afold_tame l : forall acc, afold acc l = norm (afold acc l).
Proof.
  induction l as [|a l IH]; intro acc; [reflexivity|]. cbn [afold].
  rewrite (act_tame acc a). destruct (act acc a); cbn [norm bind]; [apply IH|reflexivity|reflexivity].
Qed.

Lemma extract_tcb_tame e : extract_tcb e = norm (extract_tcb e).
Proof.
  unfold extract_tcb. destruct (as_seq e) as [[|a [|b [|c l]]]|]; try reflexivity.
  destruct (as_seq b) as [cs|]; [|reflexivity].
  destruct (negb (Nat.eqb (length cs) pcs_tcbExtensionSize_nat)); [reflexivity|].
  rewrite tcb_fold_afold. rewrite (afold_tame (map classify cs) tcb_acc0).
  destruct (afold tcb_acc0 (map classify cs)) as [acc| |]; cbn [norm bind]; try reflexivity.
  destruct (all_some (taComps acc)), (taPce acc), (taCpu acc); reflexivity.
Qed.

Lemma octet_value_tame v n : octet_value decode v n = norm (octet_value decode v n).
Proof.
  unfold octet_value. destruct (Nat.eqb (length v) n); [reflexivity|].
  destruct (decode v) as [[nd rest]|]; [|reflexivity].
  destruct (negb (is_universal nd 4 false)); [reflexivity|].
  destruct (negb (Nat.eqb rest 0)); [reflexivity|].
  destruct (negb (Nat.eqb (length (n_content nd)) n)); reflexivity.
Qed.

Lemma octet_extension_tame e n : octet_extension decode e n = norm (octet_extension decode e n).
Proof. unfold octet_extension. destruct (as_extension e); [apply octet_value_tame|reflexivity]. Qed.

Lemma sclassify_tame e : tame (sclassify e).
Proof.
  unfold sclassify. destruct (as_atv e) as [[o v]|]; [|exact I].
  destruct (oid_eqb o pcs_oid_OidPPID); [apply octet_extension_tame|].
  destruct (oid_eqb o pcs_oid_OidTCB); [apply extract_tcb_tame|].
  destruct (oid_eqb o pcs_oid_OidPCEID); [apply octet_extension_tame|].
  destruct (oid_eqb o pcs_oid_OidFMSPC); [apply octet_extension_tame|exact I].
Qed.

Fixpoint sfold (acc : sgx_acc) (l : list saction) : res sgx_acc :=
  match l with
  | [] => Ok acc
  | a :: r => x <- sact acc a ;; sfold x r
  end.

Lemma sgx_fold_sfold es : forall acc, sgx_fold decode acc es = sfold acc (map sclassify es).
Proof.
  induction es as [|e es IH]; intro acc; [reflexivity|]. cbn [sgx_fold map sfold].
  rewrite sgx_step_sact. destruct (sact acc (sclassify e)); cbn [bind]; [apply IH|reflexivity|reflexivity].
Qed.

Lemma sfold_perm l l' : Permutation l l' -> Forall tame l -> forall acc, sfold acc l = sfold acc l'.
Proof.
  induction 1 as [|a l l' P IH|a b l|l1 l2 l3 P1 IH1 P2 IH2]; intros T acc.
  - reflexivity.
  - cbn [sfold]. inversion T; subst. destruct (sact acc a); cbn [bind]; [apply IH; assumption|reflexivity|reflexivity].
  - inversion T as [|? ? Tb T']; subst. inversion T' as [|? ? Ta T'']; subst. cbn [sfold].
    transitivity (y <- (x <- sact acc b ;; sact x a) ;; sfold y l).
    { destruct (sact acc b); cbn [bind]; reflexivity. }
    rewrite (sact_comm acc b a Tb Ta). destruct (sact acc a); cbn [bind]; reflexivity.
  - rewrite IH1 by exact T. apply IH2. eapply Permutation_Forall; eauto.
Qed.

Theorem sgx_fold_perm es es' acc : Permutation es es' -> sgx_fold decode acc es = sgx_fold decode acc es'.
Proof.
  intro P. rewrite !sgx_fold_sfold. apply sfold_perm; [apply Permutation_map, P|].
  apply Forall_forall. intros a Ha. apply in_map_iff in Ha as (e & <- & _). apply sclassify_tame.
Qed.

(* the SGX extension: any order of its sub-extensions gives the same values (or the same error) *)
Theorem extract_sgx_perm es es' : Permutation es es' -> extract_sgx decode es = extract_sgx decode es'.
Proof.
  intro P. unfold extract_sgx. rewrite (Permutation_length P). rewrite (sgx_fold_perm es es' sgx_acc0 P). reflexivity.
Qed.
End Perm.
