(* Completeness of the verification flow: the facts that acceptance implies
   (Proofs/Verify.v) are also sufficient.  Together with the inversion lemmas this
   characterises acceptance exactly, and gives C11: a quote whose links all hold
   and whose artefacts are all in date is accepted at every checking level. *)
From V Require Import Model.Verify Model.Strs Proofs.Abi Proofs.Tcb Proofs.Verify Proofs.Validate Gen.AbiConsts Gen.VerifyConsts.
From Coq Require Import ZifyN ZifyNat ZifyBool.

Lemma after_le t l : (t <= l)%Z -> after t l = false.
Proof. apply after_false. Qed.

Lemma not_in_revoked c s : ~ In s (rlRevoked c) -> revoked c s = false.
Proof. apply revoked_false. Qed.

Lemma crl_ok c t : crl_authentic c t -> validate_crl (Some c) t = Ok tt.
Proof. intro H. apply validate_crl_ok. exists c. split; [reflexivity|exact H]. Qed.

(* ---- verifyPCKCertificationChain ---- *)
Lemma verify_pck_chain_complete w ch col o now wall :
  chain_facts w ch col o now wall -> verify_pck_chain w ch col o now wall = Ok tt.
Proof.
  intros [Hr Hi Hl Ha Hrev [X1 [X2 X3]]]. unfold verify_pck_chain.
  apply seq_ok; split; [apply validate_certificate_ok, Hr|].
  apply seq_ok; split; [apply validate_certificate_ok, Hi|].
  apply seq_ok; split; [apply validate_certificate_ok, Hl|].
  apply seq_ok; split; [apply path_ok_spec in Ha; rewrite Ha; reflexivity|].
  apply seq_ok; split.
  - destruct (optCheckRevocations o) eqn:Er; [|reflexivity].
    destruct (Hrev eq_refl) as (Hg & c & rc & pc & -> & Erc & Epc & A1 & A2 & Iss & N1 & N2).
    rewrite Hg, Erc, Epc.
    apply seq_ok; split; [apply crl_ok, A1|]. apply seq_ok; split; [apply crl_ok, A2|].
    rewrite Iss, bytes_eqb_refl. cbn [negb]. rewrite (not_in_revoked _ _ N1), (not_in_revoked _ _ N2). reflexivity.
  - rewrite (after_le _ _ X1), (after_le _ _ X2), (after_le _ _ X3). reflexivity.
Qed.

(* ---- verifyCollateral ---- *)
Lemma verify_collateral_complete c o now :
  collateral_facts c o now -> verify_collateral (Some c) o now = Ok tt.
Proof.
  intros [[Z1 Z2] [T1 [T2 T3]] [Q1 [Q2 Q3]] Hcrl]. unfold verify_collateral. rewrite Z1, Z2.
  apply seq_ok; split.
  - destruct (optCheckRevocations o) eqn:Er; [|reflexivity].
    destruct (Hcrl eq_refl) as (rc & pc & ps & pr & -> & -> & -> & -> & _). reflexivity.
  - rewrite (after_le _ _ T1), (after_le _ _ Q1), (after_le _ _ T2), (after_le _ _ T3), (after_le _ _ Q3), (after_le _ _ Q2).
    destruct (optCheckRevocations o) eqn:Er; [|reflexivity].
    destruct (Hcrl eq_refl) as (rc & pc & ps & pr & -> & -> & -> & -> & B1 & B2 & B3 & B4).
    rewrite (after_le _ _ B1), (after_le _ _ B2), (after_le _ _ B3), (after_le _ _ B4). reflexivity.
Qed.

(* ---- verifyResponse ---- *)
Lemma verify_response_complete w root signer raw sigstr rc o t wall :
  response_facts w root signer raw sigstr rc o t wall ->
  verify_response w root signer raw sigstr rc o t wall = Ok tt.
Proof.
  intros [Hr Hs Ha (sg & Hlk & Hlen & Hec) Hrev]. unfold verify_response.
  apply seq_ok; split; [apply reclass_ok, validate_certificate_ok, Hr|].
  apply seq_ok; split; [apply reclass_ok, validate_certificate_ok, Hs|].
  apply seq_ok; split; [apply path_ok_spec in Ha; rewrite Ha; reflexivity|].
  apply ora_ok in Hlk. rewrite Hlk. cbn [bind].
  replace (Nat.eqb (length sg) abi_signatureSize_nat) with true
    by (symmetry; apply Nat.eqb_eq; rewrite Hlen; reflexivity).
  cbn [negb]. rewrite Hec. cbn [bind negb].
  destruct (optCheckRevocations o) eqn:Er; [|reflexivity].
  destruct (Hrev eq_refl) as (Hg & c & -> & A & N). rewrite Hg.
  apply seq_ok; split; [apply crl_ok, A|]. rewrite (not_in_revoked _ _ N). reflexivity.
Qed.

Lemma verify_tcb_info_complete w c o now wall :
  tcbinfo_facts w c o now wall -> verify_tcb_info w c o now wall = Ok tt.
Proof.
  intros [I1 I2 I3 R]. unfold verify_tcb_info. rewrite I1, bytes_eqb_refl, I2, N.eqb_refl. cbn [negb].
  destruct (tiLevels (colTcbInfo c)) eqn:E; [contradiction|]. cbn [length Nat.eqb].
  apply verify_response_complete, R.
Qed.

Lemma verify_qe_identity_complete w c o now wall :
  qeidentity_facts w c o now wall -> verify_qe_identity w c o now wall = Ok tt.
Proof.
  intros [I1 I2 I3 R]. unfold verify_qe_identity. rewrite I1, bytes_eqb_refl, I2, N.eqb_refl. cbn [negb].
  destruct (qiLevels (colQeId c)) eqn:E; [contradiction|]. cbn [length Nat.eqb].
  apply verify_response_complete, R.
Qed.

(* ---- the quote's own signatures ---- *)
Lemma verify_quote_sigs_complete w q leaf :
  sig_facts w q leaf -> length (quote_sig q) = 64 ->
  (forall qe, quote_qercd q = Some qe -> length (qSig qe) = 64) ->
  verify_quote_sigs w q leaf = Ok tt.
Proof.
  intros [K1 K2 (hb & bb & Hhb & Hbb & Hv) (qe & rb & Hq & Hrb & Hv2 & d & Hd & Hbind)] L1 L2.
  unfold verify_quote_sigs.
  replace (Nat.eqb (length (att_key q)) verify_pubKeySize_nat) with true
    by (symmetry; apply Nat.eqb_eq; rewrite K1; reflexivity).
  cbn [negb]. apply ora_ok in K2. rewrite K2. cbn [bind negb].
  replace (Nat.eqb (length (quote_sig q)) abi_signatureSize_nat) with true
    by (symmetry; apply Nat.eqb_eq; rewrite L1; reflexivity).
  cbn [negb]. rewrite Hhb, Hbb. cbn [reclass bind]. rewrite Hv. cbn [bind negb].
  rewrite Hq, Hrb. cbn [reclass bind].
  replace (Nat.eqb (length (qSig qe)) abi_signatureSize_nat) with true
    by (symmetry; apply Nat.eqb_eq; rewrite (L2 qe Hq); reflexivity).
  cbn [negb]. rewrite Hv2. cbn [bind negb]. cbv zeta.
  unfold ora. unfold bytes in *. rewrite Hd. cbn [bind]. rewrite Hbind, bytes_eqb_refl. reflexivity.
Qed.

(* the signature lengths follow from the message checks *)
Lemma checked_sig_lengths q : check_quote (Some q) = Ok tt ->
  length (quote_sig q) = 64 /\ forall qe, quote_qercd q = Some qe -> length (qSig qe) = 64.
Proof.
  cbn [check_quote]. intro H. apply seq_ok in H as [_ H]. apply seq_ok in H as [_ H].
  unfold quote_sig, quote_qercd. destruct (qSigned q) as [s|]; [|discriminate].
  cbn [check_signed] in H. chk_inv H.
  destruct (sCert s) as [c|]; [|discriminate]. cbn [check_certdata] in H. chk_inv H.
  destruct (cQercd c) as [qe|]; [|discriminate]. cbn [check_qercd] in H.
  apply seq_ok in H as [_ H]. chk_inv H.
  unf. to_props. split; [assumption|]. intros qe' E. inversion E; subst. assumption.
Qed.

(* ---- verifyQuote ---- *)
Lemma verify_quote_complete w q ch col ext :
  check_quote (Some q) = Ok tt -> sig_facts w q (chLeaf ch) ->
  (forall c, col = Some c ->
     exists b qe r, qBody q = Some b /\ quote_qercd q = Some qe /\ qReport qe = Some r /\
       verify_td_body b (colTcbInfo c) ext = Ok tt /\ verify_qe_report r (colQeId c) = Ok tt) ->
  verify_quote w q ch col ext = Ok tt.
Proof.
  intros Hck Hs Hb. destruct (checked_sig_lengths q Hck) as [L1 L2]. unfold verify_quote.
  apply seq_ok; split; [apply verify_quote_sigs_complete; assumption|].
  destruct col as [c|]; [|reflexivity].
  destruct (Hb c eq_refl) as (b & qe & r & -> & -> & Hr & T & Q).
  apply seq_ok; split; [exact T|]. rewrite Hr. exact Q.
Qed.

(* ---- verifyEvidenceV4 ---- *)
Lemma verify_evidence_complete w q ch col ext o now wall :
  check_quote (Some q) = Ok tt ->
  chain_facts w ch col o now wall ->
  (optGetCollateral o = true ->
     exists c, col = Some c /\ collateral_facts c o now /\
               tcbinfo_facts w c o now wall /\ qeidentity_facts w c o now wall) ->
  verify_quote w q ch col ext = Ok tt ->
  verify_evidence w q ch col ext o now wall = Ok tt.
Proof.
  intros Hck Hc Hk Hq. unfold verify_evidence.
  apply seq_ok; split.
  { destruct (check_quote_parts q Hck) as (h & b & -> & _ & Ch & _).
    destruct (check_header_inv h Ch) as (_ & _ & T & _). rewrite T. reflexivity. }
  apply seq_ok; split; [apply verify_pck_chain_complete, Hc|].
  apply seq_ok; split; [|exact Hq].
  destruct (optGetCollateral o) eqn:Hg; [|reflexivity].
  destruct (Hk eq_refl) as (c & -> & K1 & K2 & K3).
  apply seq_ok; split; [apply verify_collateral_complete, K1|].
  apply seq_ok; split; [apply verify_tcb_info_complete, K2|apply verify_qe_identity_complete, K3].
Qed.

(* ---- the whole of verify: acceptance characterised ---- *)
Definition all_links_hold (w : world) (q : quote) (o : options) (wall : Z) : Prop :=
  check_quote (Some q) = Ok tt /\
  exists ch ext,
    extract_chain w q = Ok ch /\ cPckExt (chLeaf ch) = Some ext /\
    sig_facts w q (chLeaf ch) /\
    ((optGetCollateral o = false /\ chain_facts w ch None o (now_of o wall) wall) \/
     (optGetCollateral o = true /\
      exists ca c,
        extract_ca (chLeaf ch) = Ok ca /\ fst (obtain_collateral w (eFmspc ext) ca o) = Ok c /\
        chain_facts w ch (Some c) o (now_of o wall) wall /\
        collateral_facts c o (now_of o wall) /\
        tcbinfo_facts w c o (now_of o wall) wall /\ qeidentity_facts w c o (now_of o wall) wall /\
        exists b qe r, qBody q = Some b /\ quote_qercd q = Some qe /\ qReport qe = Some r /\
          verify_td_body b (colTcbInfo c) ext = Ok tt /\ verify_qe_report r (colQeId c) = Ok tt)).

Lemma fbind_ok_intro {A B} (m : fetching A) (k : A -> fetching B) a b :
  fst m = Ok a -> fst (k a) = Ok b -> fst (fbind m k) = Ok b.
Proof. unfold fbind. intros -> H. cbn. exact H. Qed.

Theorem honest_accepted w q o wall :
  all_links_hold w q o wall -> fst (verify w (Some q) (Some o) wall) = Ok tt.
Proof.
  intros (Hck & ch & ext & Hch & Hext & Hs & Hlevel).
  unfold verify, verify_v4. rewrite Hck, Hch, Hext. fold (now_of o wall).
  destruct Hlevel as [(Hg & Hc) | (Hg & ca & c & Hca & Hob & Hc & K1 & K2 & K3 & Hb)]; rewrite Hg.
  - cbn [fret fst]. apply verify_evidence_complete; try assumption.
    + rewrite Hg. discriminate.
    + apply verify_quote_complete; try assumption. discriminate.
  - rewrite Hca. eapply fbind_ok_intro; [exact Hob|]. cbn [fret fst].
    apply verify_evidence_complete; try assumption.
    + intros _. exists c. auto.
    + apply verify_quote_complete; try assumption. intros c' E. inversion E; subst c'. exact Hb.
Qed.

Theorem accepted_iff w q o wall :
  fst (verify w (Some q) (Some o) wall) = Ok tt <-> all_links_hold w q o wall.
Proof.
  split; [|apply honest_accepted].
  intro H. apply accept_facts in H as (qq & ch & ext & col & Eq & Hck & Hch & Hext & Hcf & Hs & Hn & Hc).
  inversion Eq; subst qq. split; [exact Hck|]. exists ch, ext.
  refine (conj Hch (conj Hext (conj Hs _))).
  destruct (optGetCollateral o) eqn:Hg.
  - right. split; [reflexivity|]. destruct (Hc eq_refl) as (c & ca & -> & Hca & Hob & _ & K1 & K2 & K3 & Hb).
    exists ca, c. auto 10.
  - left. split; [reflexivity|]. rewrite (Hn eq_refl) in Hcf. exact Hcf.
Qed.

(* ---- contrapositives used by C05 / C06: a listed or out-of-date artefact is refused ---- *)
Theorem listed_rejected w qq o wall ch ext ca c :
  extract_chain w qq = Ok ch -> cPckExt (chLeaf ch) = Some ext -> extract_ca (chLeaf ch) = Ok ca ->
  fst (obtain_collateral w (eFmspc ext) ca o) = Ok c -> optCheckRevocations o = true ->
  ((exists pc, colPckCrl c = Some pc /\ In (cSerial (chLeaf ch)) (rlRevoked pc)) \/
   (exists rc, colRootCrl c = Some rc /\
      (In (cSerial (chInter ch)) (rlRevoked rc) \/ In (cSerial (colTcbSigner c)) (rlRevoked rc) \/
       In (cSerial (colQeSigner c)) (rlRevoked rc)))) ->
  fst (verify w (Some qq) (Some o) wall) <> Ok tt.
Proof.
  intros Hch Hext Hca Hob Hr Hl H.
  apply accept_facts in H as (qq' & ch' & ext' & col & Hq & _ & Hch' & Hext' & Hcf & _ & _ & Hc).
  inversion Hq; subst qq'. rewrite Hch in Hch'. inversion Hch'; subst ch'.
  rewrite Hext in Hext'. inversion Hext'; subst ext'.
  destruct (cf_revocation _ _ _ _ _ _ Hcf Hr) as (Hg & c' & rc & pc & Hcol & Hrc & Hpc & _ & _ & _ & N1 & N2).
  destruct (Hc Hg) as (c'' & ca' & Hc'' & Hca' & Hob' & _ & _ & T & Q & _).
  rewrite Hcol in Hc''. inversion Hc''; subst c''. rewrite Hca in Hca'. inversion Hca'; subst ca'.
  rewrite Hob in Hob'. inversion Hob'; subst c'.
  destruct (rf_revocation _ _ _ _ _ _ _ _ _ (tf_response _ _ _ _ _ T) Hr) as (_ & rc1 & E1 & _ & M1).
  destruct (rf_revocation _ _ _ _ _ _ _ _ _ (qf_response _ _ _ _ _ Q) Hr) as (_ & rc2 & E2 & _ & M2).
  rewrite Hrc in E1, E2. inversion E1; subst rc1. inversion E2; subst rc2.
  destruct Hl as [(pc' & Epc & Hin)|(rc' & Erc & [Hin|[Hin|Hin]])].
  - rewrite Hpc in Epc. inversion Epc; subst pc'. exact (N2 Hin).
  - rewrite Hrc in Erc. inversion Erc; subst rc'. exact (N1 Hin).
  - rewrite Hrc in Erc. inversion Erc; subst rc'. exact (M1 Hin).
  - rewrite Hrc in Erc. inversion Erc; subst rc'. exact (M2 Hin).
Qed.

Theorem out_of_date_rejected w qq o wall ch ext ca c :
  extract_chain w qq = Ok ch -> cPckExt (chLeaf ch) = Some ext -> extract_ca (chLeaf ch) = Ok ca ->
  fst (obtain_collateral w (eFmspc ext) ca o) = Ok c -> optGetCollateral o = true ->
  let now := now_of o wall in
  ((tiNextUpdate (colTcbInfo c) < tTcbInfo now)%Z \/ (qiNextUpdate (colQeId c) < tQeId now)%Z \/
   (cNotAfter (colTcbSigner c) < tTcbInfo now)%Z \/ (cNotAfter (colQeSigner c) < tQeId now)%Z \/
   (cNotAfter (chLeaf ch) < tPck now)%Z \/ (cNotAfter (chInter ch) < tPck now)%Z \/ (cNotAfter (chRoot ch) < tPck now)%Z \/
   (optCheckRevocations o = true /\
    ((exists pc, colPckCrl c = Some pc /\ (rlNextUpdate pc < tPckCrl now)%Z) \/
     (exists rc, colRootCrl c = Some rc /\ (rlNextUpdate rc < tRootCrl now)%Z)))) ->
  fst (verify w (Some qq) (Some o) wall) <> Ok tt.
Proof.
  intros Hch Hext Hca Hob Hg now Hl H.
  apply accept_facts in H as (qq' & ch' & ext' & col & Hq & _ & Hch' & Hext' & Hcf & _ & _ & Hc).
  inversion Hq; subst qq'. rewrite Hch in Hch'. inversion Hch'; subst ch'.
  rewrite Hext in Hext'. inversion Hext'; subst ext'.
  destruct (Hc Hg) as (c' & ca' & Hcol & Hca' & Hob' & _ & K & _).
  rewrite Hca in Hca'. inversion Hca'; subst ca'. rewrite Hob in Hob'. inversion Hob'; subst c'.
  destruct K as [_ [T1 [T2 T3]] [Q1 [Q2 Q3]] Kcrl]. destruct (cf_expiry _ _ _ _ _ _ Hcf) as [X1 [X2 X3]].
  fold now in T1, T2, T3, Q1, Q2, Q3, X1, X2, X3.
  destruct Hl as [L|[L|[L|[L|[L|[L|[L|[Hr L]]]]]]]]; try lia.
  destruct (Kcrl Hr) as (rc & pc & ps & pr & Erc & Epc & _ & _ & B1 & B2 & _). fold now in B1, B2.
  destruct L as [(pc' & E & L)|(rc' & E & L)].
  - rewrite Epc in E. inversion E; subst pc'. lia.
  - rewrite Erc in E. inversion E; subst rc'. lia.
Qed.
