(* The literals of RetryHTTPSGetter.Get recovered by the translator are the ones
   the model uses: initial delay 2 s, doubling, cap MaxRetryDelay, a two-armed select. *)
From V Require Import Model.Retry Gen.TrustConsts.
From Coq Require Import String ZArith.

Lemma retry_literals :
  trust_retry_initial_delay = "2000000000"%string /\ trust_retry_factor = "2"%string /\
  trust_retry_cap = "MaxRetryDelay"%string /\ trust_retry_select_arms = 2%N /\
  initial_delay = 2000000000%Z /\ growth = 2%Z.
Proof. repeat split; reflexivity. Qed.
