From V Require Import Model.Client Gen.ClientConsts.
From Coq Require Import ZifyN ZifyNat ZifyBool.

Lemma overlay_length w base : length (overlay w base) = length base.
Proof.
  unfold overlay. rewrite firstn_length, app_length, skipn_length. lia.
Qed.

Lemma overlay_firstn w base n :
  n <= length w -> n <= length base -> firstn n (overlay w base) = firstn n w.
Proof.
  intros H1 H2. unfold overlay. rewrite firstn_firstn.
  replace (Nat.min n (length base)) with n by lia.
  rewrite firstn_app. replace (n - length w) with 0 by lia. cbn. apply app_nil_r.
Qed.

Definition dev_ok (d : device) : Prop :=
  rep_err d = false /\ rep_code d = 0%N /\
  q_err d = false /\ q_code d = 0%N /\ q_status d = 0%N /\
  (0 < q_outlen d <= labi_ReqBufSize)%N.

Definition td_report_of (d : device) : bytes := overlay (rep_write d) (zeros td_report_size).

(* exactly when everything succeeded the bytes are returned, and they are the
   first OutLen bytes of the buffer after the device wrote into it *)
Lemma via_device_ok_iff d rd b :
  fst (via_device d rd) = Ret b false <->
  dev_ok d /\ b = firstn (N.to_nat (q_outlen d)) (data_after_quote d (td_report_of d)).
Proof.
  unfold via_device, get_report, dev_ok, td_report_of, labi_TdxAttestSuccess.
  destruct (rep_err d) eqn:E1; cbn [fst].
  { split; [discriminate|]. intros [(H & _) _]. discriminate. }
  destruct (N.eqb_spec (rep_code d) 0) as [E2|E2]; cbn [negb fst].
  2:{ split; [discriminate|]. intros [(_ & H & _) _]. contradiction. }
  destruct (q_err d) eqn:E3; cbn [fst].
  { split; [discriminate|]. intros [(_ & _ & H & _) _]. discriminate. }
  destruct (N.eqb_spec (q_code d) 0) as [E4|E4]; cbn [negb fst].
  2:{ split; [discriminate|]. intros [(_ & _ & _ & H & _) _]. contradiction. }
  destruct (N.eqb_spec (q_status d) 0) as [E5|E5]; cbn [negb fst].
  2:{ split; [discriminate|]. intros [(_ & _ & _ & _ & H & _) _]. contradiction. }
  destruct (N.eqb_spec (q_outlen d) 0) as [E6|E6]; cbn [orb fst].
  { split; [discriminate|]. intros [(_ & _ & _ & _ & _ & H) _]. lia. }
  destruct (N.ltb_spec labi_ReqBufSize (q_outlen d)) as [E7|E7]; cbn [fst].
  { split; [discriminate|]. intros [(_ & _ & _ & _ & _ & H) _]. lia. }
  split.
  - intro H. inversion H; subst. repeat split; auto; lia.
  - intros [_ ->]. reflexivity.
Qed.

(* every other device outcome is an error with no data *)
Lemma via_device_total d rd :
  exists b e, fst (via_device d rd) = Ret b e /\ (e = true -> b = []).
Proof.
  unfold via_device.
  destruct (get_report d rd); cbn [fst]; try (exists [], true; auto; fail).
  repeat match goal with
         | |- context [if ?c then _ else _] => destruct c; cbn [fst]
         end;
    try (exists [], true; auto; fail).
  eexists _, false. split; [reflexivity|discriminate].
Qed.

Lemma via_device_no_crash d rd : fst (via_device d rd) <> Crash.
Proof. destruct (via_device_total d rd) as (b & e & H & _). rewrite H. discriminate. Qed.

(* requests: the caller's report data goes to the report request unchanged; if
   that succeeds the TD report goes to the quote request *)
Lemma via_device_requests d rd :
  snd (via_device d rd) =
  match get_report d rd with
  | Ok tdr => [ReqReport rd; quote_request tdr]
  | _ => [ReqReport rd]
  end.
Proof.
  unfold via_device. destruct (get_report d rd); cbn [snd]; try reflexivity.
  repeat match goal with
         | |- context [if ?c then _ else _] => destruct c; cbn [snd]
         end; reflexivity.
Qed.

Lemma get_report_ok d rd tdr :
  get_report d rd = Ok tdr <-> rep_err d = false /\ rep_code d = 0%N /\ tdr = td_report_of d.
Proof.
  unfold get_report, td_report_of, labi_TdxAttestSuccess.
  destruct (rep_err d); [split; [discriminate|intros (H&_); discriminate]|].
  destruct (N.eqb_spec (rep_code d) 0); cbn [negb].
  - split; [intro H; inversion H; auto|intros (_&_&->); reflexivity].
  - split; [discriminate|intros (_&H&_); contradiction].
Qed.

Lemma skipn_repeat {A} (x : A) k n : skipn k (repeat x n) = repeat x (n - k).
Proof.
  revert n; induction k as [|k IH]; intro n; [now rewrite Nat.sub_0_r|].
  destruct n; [reflexivity|]. cbn. apply IH.
Qed.

Lemma overlay_zeros w n : length w <= n -> overlay w (zeros n) = w ++ zeros (n - length w).
Proof.
  intro H. unfold overlay, zeros. rewrite repeat_length, skipn_repeat.
  apply firstn_all2. rewrite app_length, repeat_length. lia.
Qed.

Lemma quote_request_data tdr :
  length tdr = td_report_size ->
  quote_request tdr =
  ReqQuote 1 0 labi_TdReportSize 0 labi_ReqBufSize (tdr ++ zeros (req_buf_size - td_report_size)).
Proof.
  intro H. unfold quote_request. f_equal.
  rewrite firstn_all2 by lia.
  rewrite overlay_zeros by (rewrite H; vm_compute; lia). now rewrite H.
Qed.

(* the bytes returned are the device's, never the TD report that was in the
   buffer before: whenever the device wrote at least OutLen bytes *)
Lemma via_device_device_bytes d rd b :
  fst (via_device d rd) = Ret b false ->
  N.to_nat (q_outlen d) <= length (q_write d) ->
  b = firstn (N.to_nat (q_outlen d)) (q_write d).
Proof.
  intros H Hl. apply via_device_ok_iff in H as [Hok ->].
  unfold data_after_quote. apply overlay_firstn; [exact Hl|].
  rewrite overlay_length, zeros_length.
  destruct Hok as (_ & _ & _ & _ & _ & Hr).
  unfold req_buf_size. lia.
Qed.

Lemma via_provider_supported p fb rd :
  p_supported p = true -> via_provider p fb rd = (Ret (p_bytes p) (p_err p), []).
Proof. intro H. unfold via_provider. now rewrite H. Qed.

Lemma via_provider_fallback p fb rd :
  p_supported p = false ->
  via_provider p fb rd = match fb with Some d => via_device d rd | None => (Ret [] true, []) end.
Proof. intro H. unfold via_provider. now rewrite H. Qed.

Lemma get_raw_quote_no_crash q fb rd : fst (get_raw_quote q fb rd) <> Crash.
Proof.
  destruct q as [d|p|d p|]; cbn [get_raw_quote]; try apply via_device_no_crash; try (cbn; discriminate).
  unfold via_provider. destruct (p_supported p); [cbn; discriminate|].
  destruct fb; [apply via_device_no_crash|cbn; discriminate].
Qed.
