(* The check tool: exit code 0 exactly when everything holds, flags override the
   config, the other codes mean what they say, never a crash. *)
From V Require Import Lib.Bytes Lib.Res Model.Abi Model.Validate Model.Verify Model.RootOfTrust Model.CheckTool
  Proofs.Validate Proofs.VerifyNoPanic.

Lemma set_scalar_np {A} (fl : flagv A) p c d : set_scalar fl p c d <> Panic.
Proof. destruct fl; cbn; discriminate. Qed.

Lemma populate_rot_np fl c : populate_rot fl c <> Panic.
Proof.
  unfold populate_rot.
  destruct (set_scalar (fCheckCrl fl) _ _ _) as [crl| |] eqn:E1; cbn; try discriminate;
    [|exfalso; eapply set_scalar_np; eauto].
  destruct (set_scalar (fGetCollateral fl) _ _ _) as [col| |] eqn:E2; cbn; try discriminate;
    [|exfalso; eapply set_scalar_np; eauto].
  destruct (fRoots fl) as [| |[|p ps]]; discriminate.
Qed.

Lemma populate_policy_np fl c : populate_policy fl c <> Panic.
Proof.
  unfold populate_policy.
  destruct (set_scalar (fMinQeSvn fl) _ _ _) as [qe| |] eqn:E1; cbn; try discriminate;
    [|exfalso; eapply set_scalar_np; eauto].
  destruct (set_scalar (fMinPceSvn fl) _ _ _) as [pce| |] eqn:E2; cbn; try discriminate;
    [|exfalso; eapply set_scalar_np; eauto].
  destruct (fRtmrs fl); cbn; discriminate.
Qed.

Lemma effective_np fl c : effective fl c <> Panic.
Proof.
  unfold effective. destruct (negb (fSyntax fl)); [discriminate|].
  destruct (any_bad_bytes fl); [discriminate|].
  pose proof (populate_rot_np fl c) as H1. pose proof (populate_policy_np fl c) as H2.
  destruct c as [| |c]; try discriminate;
    destruct (populate_rot fl _) as [r| |]; destruct (populate_policy fl _) as [p| |];
    try contradiction; try discriminate;
    destruct (rotCheckCrl r && negb (rotGetCollateral r)); discriminate.
Qed.

Lemma add_bundles_np srcs : forall pool, add_bundles srcs pool <> Panic.
Proof.
  induction srcs as [|s rest IH]; intro pool; cbn; [discriminate|].
  destruct (negb (srcReadable s)); [discriminate|]. destruct (Nat.eqb _ 0); [discriminate|]. apply IH.
Qed.

Lemma rot_to_options_np r : root_of_trust_to_options r <> Panic.
Proof.
  unfold root_of_trust_to_options, get_trusted_roots.
  destruct (_ && _); cbn; [discriminate|].
  pose proof (add_bundles_np (rotPaths r) []) as H1.
  destruct (add_bundles (rotPaths r) []) as [p| |]; cbn; try discriminate; [|contradiction].
  pose proof (add_bundles_np (rotInline r) p) as H2.
  destruct (add_bundles (rotInline r) p) as [p2| |]; cbn; try discriminate. contradiction.
Qed.

Lemma read_quote_np i : read_quote i <> Panic.
Proof.
  destruct i as [|raw|q]; cbn; try discriminate.
  pose proof (Proofs.Abi.parse_np raw) as H. destruct (parse raw); try discriminate. contradiction.
Qed.

(* ---- never a crash ---- *)
Ltac np_case H := exfalso; apply H; reflexivity.

Theorem run_tool_total fl c i w wall : fst (run_tool fl c i w wall) <> ECrash.
Proof.
  unfold run_tool. pose proof (effective_np fl c) as H1.
  destruct (effective fl c) as [[rot pol]| |]; cbn [fst]; try discriminate; [|np_case H1].
  pose proof (read_quote_np i) as H2. destruct (read_quote i) as [q| |]; cbn [fst]; try discriminate; [|np_case H2].
  pose proof (rot_to_options_np rot) as H3.
  destruct (root_of_trust_to_options rot) as [o| |]; cbn [fst]; try discriminate; [|np_case H3].
  pose proof (verify_np w (Some q) (Some o) wall) as H4.
  destruct (fst (verify w (Some q) (Some o) wall)) as [[]|e|]; cbn [fst exit_of_verify]; [| |np_case H4].
  - pose proof (policy_to_options_np (to_policy pol)) as H5.
    destruct (policy_to_options (to_policy pol)) as [vo| |]; cbn [fst]; try discriminate; [|np_case H5].
    pose proof (validate_total (Some q) (Some vo)) as H6.
    destruct (validate (Some q) (Some vo)) as [[]| |]; cbn [fst]; try discriminate. np_case H6.
  - destruct e; cbn [fst]; discriminate.
Qed.

(* ---- exit code 0 exactly when everything holds ---- *)
Theorem exit0_iff fl c i w wall :
  fst (run_tool fl c i w wall) = E0 <->
  exists rot pol q o vo,
    effective fl c = Ok (rot, pol) /\ read_quote i = Ok q /\ root_of_trust_to_options rot = Ok o /\
    fst (verify w (Some q) (Some o) wall) = Ok tt /\
    policy_to_options (to_policy pol) = Ok vo /\ validate (Some q) (Some vo) = Ok tt.
Proof.
  unfold run_tool. split.
  - destruct (effective fl c) as [[rot pol]| |] eqn:E1; cbn [fst exit_of_verify]; try discriminate.
    destruct (read_quote i) as [q| |] eqn:E2; cbn [fst exit_of_verify]; try discriminate.
    destruct (root_of_trust_to_options rot) as [o| |] eqn:E3; cbn [fst exit_of_verify]; try discriminate.
    destruct (fst (verify w (Some q) (Some o) wall)) as [[]|e|] eqn:V; cbn [fst exit_of_verify]; try discriminate;
      [|destruct e; cbn [fst exit_of_verify]; discriminate].
    destruct (policy_to_options (to_policy pol)) as [vo| |] eqn:E5; cbn [fst exit_of_verify]; try discriminate.
    destruct (validate (Some q) (Some vo)) as [[]| |] eqn:P; cbn [fst exit_of_verify]; try discriminate.
    intros _. exists rot, pol, q, o, vo. repeat split; try assumption; reflexivity.
  - intros (rot & pol & q & o & vo & H1 & H2 & H3 & H4 & H5 & H6).
    rewrite H1, H2. cbn [fst exit_of_verify]. rewrite H3. cbn [fst exit_of_verify]. rewrite H4. cbn [fst exit_of_verify]. rewrite H5. cbn [fst exit_of_verify]. rewrite H6. reflexivity.
Qed.

(* ---- what the other codes mean ---- *)
Theorem exit_codes fl c i w wall :
  match fst (run_tool fl c i w wall) with
  | E0 => True
  | E1 => (* malformed flags / config / input, or a malformed policy *)
    (forall x, effective fl c <> Ok x) \/
    (exists rot pol, effective fl c = Ok (rot, pol) /\
       ((forall q, read_quote i <> Ok q) \/ (forall o, root_of_trust_to_options rot <> Ok o) \/
        (exists q o, read_quote i = Ok q /\ root_of_trust_to_options rot = Ok o /\
                     fst (verify w (Some q) (Some o) wall) = Ok tt /\
                     forall vo, policy_to_options (to_policy pol) <> Ok vo)))
  | E2 => exists rot pol q o e, effective fl c = Ok (rot, pol) /\ read_quote i = Ok q /\
            root_of_trust_to_options rot = Ok o /\ fst (verify w (Some q) (Some o) wall) = Err e /\ e <> EFetch
  | E3 => exists rot pol q o, effective fl c = Ok (rot, pol) /\ read_quote i = Ok q /\
            root_of_trust_to_options rot = Ok o /\ fst (verify w (Some q) (Some o) wall) = Err EFetch
  | E4 => exists rot pol q o vo e, effective fl c = Ok (rot, pol) /\ read_quote i = Ok q /\
            root_of_trust_to_options rot = Ok o /\ fst (verify w (Some q) (Some o) wall) = Ok tt /\
            policy_to_options (to_policy pol) = Ok vo /\ validate (Some q) (Some vo) = Err e
  | ECrash => False
  end.
Proof.
  pose proof (run_tool_total fl c i w wall) as NP. revert NP. unfold run_tool.
  destruct (effective fl c) as [[rot pol]|e0|] eqn:E; cbn [fst exit_of_verify]; intro NP; [| left; intros x; discriminate | contradiction].
  destruct (read_quote i) as [q|e1|] eqn:R; cbn [fst exit_of_verify] in *; [| right; exists rot, pol; split; [reflexivity|left; intros; discriminate] | contradiction].
  destruct (root_of_trust_to_options rot) as [o|e2|] eqn:O; cbn [fst exit_of_verify] in *;
    [| right; exists rot, pol; split; [reflexivity|right; left; intros; rewrite O; discriminate] | contradiction].
  destruct (fst (verify w (Some q) (Some o) wall)) as [[]|e|] eqn:V; cbn [fst exit_of_verify] in *; [| |contradiction].
  - destruct (policy_to_options (to_policy pol)) as [vo|e3|] eqn:PO; cbn [fst exit_of_verify] in *; [| |contradiction].
    + destruct (validate (Some q) (Some vo)) as [[]|e4|] eqn:VA; cbn [fst exit_of_verify] in *; [exact I| |contradiction].
      exists rot, pol, q, o, vo, e4. repeat split; assumption.
    + right. exists rot, pol. split; [reflexivity|]. right. right. exists q, o. repeat split; try assumption. intros; rewrite PO; discriminate.
  - destruct e; cbn [fst exit_of_verify];
      (exists rot, pol, q, o; eexists; repeat split; try eassumption; discriminate).
Qed.

(* ---- flags override the config; unset flags leave it in force ---- *)

Lemma effective_inv fl c rot pol : effective fl c = Ok (rot, pol) ->
  fSyntax fl = true /\ any_bad_bytes fl = false /\ c <> CfBad /\
  populate_rot fl c = Ok rot /\ populate_policy fl c = Ok pol /\
  (rotCheckCrl rot = true -> rotGetCollateral rot = true).
Proof.
  unfold effective. destruct (fSyntax fl); cbn [negb]; [|discriminate].
  destruct (any_bad_bytes fl); [discriminate|].
  destruct c as [| |c]; [|discriminate|];
    (destruct (populate_rot fl _) as [r| |] eqn:R; destruct (populate_policy fl _) as [p| |] eqn:P; try discriminate;
     destruct (rotCheckCrl r && negb (rotGetCollateral r)) eqn:X; [discriminate|]; intro H; inversion H; subst;
     repeat split; try reflexivity; try discriminate;
     intro Hc; rewrite Hc in X; cbn in X; destruct (rotGetCollateral rot); [reflexivity|discriminate]).
Qed.

Lemma set_scalar_good {A} (fl : flagv A) p cur d v r : set_scalar fl p cur d = Ok r -> fl = FGood v -> r = v.
Proof. intros H E. subst fl. cbn in H. congruence. Qed.

Lemma set_scalar_unset {A} (fl : flagv A) p cur d r :
  set_scalar fl p cur d = Ok r -> fl = FUnset -> r = if p then cur else d.
Proof. intros H E. subst fl. cbn in H. congruence. Qed.

Lemma populate_policy_inv fl c pol : populate_policy fl c = Ok pol ->
  exists qe pce rt,
    set_scalar (fMinQeSvn fl) (config_present c) (epMinQeSvn (base_policy c)) 0%N = Ok qe /\
    set_scalar (fMinPceSvn fl) (config_present c) (epMinPceSvn (base_policy c)) 0%N = Ok pce /\
    override (fRtmrs fl) (epRtmrs (base_policy c)) = Ok rt /\
    pol = {| epMinQeSvn := qe; epMinPceSvn := pce;
             epBytes := fun f => match fBytes fl f with FGood v => Some v | _ => epBytes (base_policy c) f end;
             epRtmrs := rt; epAnyMrTd := epAnyMrTd (base_policy c) |}.
Proof.
  unfold populate_policy.
  destruct (set_scalar (fMinQeSvn fl) _ _ _) as [qe| |]; cbn; try discriminate.
  destruct (set_scalar (fMinPceSvn fl) _ _ _) as [pce| |]; cbn; try discriminate.
  destruct (override (fRtmrs fl) _) as [rt| |]; cbn; try discriminate.
  intro H. inversion H. exists qe, pce, rt. repeat split; reflexivity.
Qed.

Lemma populate_rot_inv fl c rot : populate_rot fl c = Ok rot ->
  exists crl col,
    set_scalar (fCheckCrl fl) (config_present c) (rotCheckCrl (base_rot c)) false = Ok crl /\
    set_scalar (fGetCollateral fl) (config_present c) (rotGetCollateral (base_rot c)) false = Ok col /\
    rotCheckCrl rot = crl /\ rotGetCollateral rot = col /\ rotInline rot = rotInline (base_rot c) /\
    match fRoots fl with
    | FGood (p :: ps) => rotPaths rot = p :: ps
    | FBad => False
    | _ => rotPaths rot = rotPaths (base_rot c)
    end.
Proof.
  unfold populate_rot.
  destruct (set_scalar (fCheckCrl fl) _ _ _) as [crl| |]; cbn; try discriminate.
  destruct (set_scalar (fGetCollateral fl) _ _ _) as [col| |]; cbn; try discriminate.
  destruct (fRoots fl) as [| |[|p ps]]; try discriminate; intro H; inversion H; exists crl, col; repeat split; reflexivity.
Qed.

(* a base value is the default whenever there is no config file *)
Lemma base_default c : config_present c = false ->
  base_rot c = empty_rot /\ epMinQeSvn (base_policy c) = 0%N /\ epMinPceSvn (base_policy c) = 0%N /\
  epRtmrs (base_policy c) = [] /\ epAnyMrTd (base_policy c) = [] /\ forall f, epBytes (base_policy c) f = None.
Proof. destruct c; cbn; try discriminate. intros _. repeat split. Qed.

Theorem flag_overrides fl c rot pol : effective fl c = Ok (rot, pol) ->
  (forall f v, fBytes fl f = FGood v -> epBytes pol f = Some v) /\
  (forall v, fMinQeSvn fl = FGood v -> epMinQeSvn pol = v) /\
  (forall v, fMinPceSvn fl = FGood v -> epMinPceSvn pol = v) /\
  (forall v, fRtmrs fl = FGood v -> epRtmrs pol = v) /\
  (forall v, fCheckCrl fl = FGood v -> rotCheckCrl rot = v) /\
  (forall v, fGetCollateral fl = FGood v -> rotGetCollateral rot = v) /\
  (forall p ps, fRoots fl = FGood (p :: ps) -> rotPaths rot = p :: ps).
Proof.
  intro H. destruct (effective_inv _ _ _ _ H) as (_ & _ & _ & R & P & _).
  destruct (populate_policy_inv _ _ _ P) as (qe & pce & rt & Hq & Hp & Hr & ->).
  destruct (populate_rot_inv _ _ _ R) as (crl & col & Hc & Hg & <- & <- & _ & Hroots).
  cbn [epBytes epMinQeSvn epMinPceSvn epRtmrs].
  repeat split.
  - intros f v E. rewrite E. reflexivity.
  - intros v E. eapply set_scalar_good; eauto.
  - intros v E. eapply set_scalar_good; eauto.
  - intros v E. rewrite E in Hr. cbn in Hr. congruence.
  - intros v E. eapply set_scalar_good; eauto.
  - intros v E. eapply set_scalar_good; eauto.
  - intros p ps E. rewrite E in Hroots. exact Hroots.
Qed.

Theorem unset_keeps fl c rot pol : effective fl c = Ok (rot, pol) ->
  let bp := base_policy c in let br := base_rot c in
  (forall f, fBytes fl f = FUnset -> epBytes pol f = epBytes bp f) /\
  (fMinQeSvn fl = FUnset -> epMinQeSvn pol = epMinQeSvn bp) /\
  (fMinPceSvn fl = FUnset -> epMinPceSvn pol = epMinPceSvn bp) /\
  (fRtmrs fl = FUnset -> epRtmrs pol = epRtmrs bp) /\
  (fCheckCrl fl = FUnset -> rotCheckCrl rot = rotCheckCrl br) /\
  (fGetCollateral fl = FUnset -> rotGetCollateral rot = rotGetCollateral br) /\
  (fRoots fl = FUnset -> rotPaths rot = rotPaths br) /\
  epAnyMrTd pol = epAnyMrTd bp /\ rotInline rot = rotInline br.
Proof.
  intro H. destruct (effective_inv _ _ _ _ H) as (_ & _ & _ & R & P & _).
  destruct (populate_policy_inv _ _ _ P) as (qe & pce & rt & Hq & Hp & Hr & ->).
  destruct (populate_rot_inv _ _ _ R) as (crl & col & Hc & Hg & <- & <- & Hin & Hroots).
  cbn [epBytes epMinQeSvn epMinPceSvn epRtmrs epAnyMrTd].
  assert (D : forall {A} (b : bool) (cur d : A), (b = false -> cur = d) -> (if b then cur else d) = cur).
  { intros A b cur d W. destruct b; [reflexivity|symmetry; apply W; reflexivity]. }
  destruct (config_present c) eqn:CP.
  - repeat split; try assumption.
    + intros f E. rewrite E. reflexivity.
    + intro E. apply (set_scalar_unset _ _ _ _ _ Hq E).
    + intro E. apply (set_scalar_unset _ _ _ _ _ Hp E).
    + intro E. rewrite E in Hr. cbn in Hr. congruence.
    + intro E. apply (set_scalar_unset _ _ _ _ _ Hc E).
    + intro E. apply (set_scalar_unset _ _ _ _ _ Hg E).
    + intro E. rewrite E in Hroots. exact Hroots.
  - destruct (base_default c CP) as (Br & B1 & B2 & B3 & B4 & B5).
    repeat split; try assumption.
    + intros f E. rewrite E. reflexivity.
    + intro E. rewrite (set_scalar_unset _ _ _ _ _ Hq E). symmetry. exact B1.
    + intro E. rewrite (set_scalar_unset _ _ _ _ _ Hp E). symmetry. exact B2.
    + intro E. rewrite E in Hr. cbn in Hr. congruence.
    + intro E. rewrite (set_scalar_unset _ _ _ _ _ Hc E). rewrite Br. reflexivity.
    + intro E. rewrite (set_scalar_unset _ _ _ _ _ Hg E). rewrite Br. reflexivity.
    + intro E. rewrite E in Hroots. exact Hroots.
Qed.

(* the defaults without a config file *)
Theorem defaults_without_config fl rot pol : effective fl CfAbsent = Ok (rot, pol) ->
  (fCheckCrl fl = FUnset -> rotCheckCrl rot = false) /\
  (fGetCollateral fl = FUnset -> rotGetCollateral rot = false) /\
  (fMinQeSvn fl = FUnset -> epMinQeSvn pol = 0%N) /\ (fMinPceSvn fl = FUnset -> epMinPceSvn pol = 0%N) /\
  (forall f, fBytes fl f = FUnset -> epBytes pol f = None) /\
  (fRoots fl = FUnset -> rotPaths rot = []) /\ rotInline rot = [].
Proof.
  intro H. destruct (unset_keeps _ _ _ _ H) as (U1 & U2 & U3 & U4 & U5 & U6 & U7 & U8 & U9). cbn in *.
  repeat split; auto.
Qed.

(* malformed flags, an unreadable / undecodable config, and -check_crl without
   -get_collateral are usage errors: exit 1 *)
Theorem usage_errors fl c i w wall :
  fSyntax fl = false \/ any_bad_bytes fl = true \/ c = CfBad \/
  fCheckCrl fl = FBad \/ fGetCollateral fl = FBad \/ fMinQeSvn fl = FBad \/ fMinPceSvn fl = FBad \/
  fRtmrs fl = FBad \/ fRoots fl = FBad \/ i = InBad ->
  fst (run_tool fl c i w wall) = E1.
Proof.
  intro H.
  assert (NC : fst (run_tool fl c i w wall) <> E0 /\ True) by (split; [|exact I]; intro E0';
    apply exit0_iff in E0' as (rot & pol & q & o & vo & He & Hr & _);
    destruct (effective_inv _ _ _ _ He) as (S & B & C & R & P & _);
    destruct (populate_policy_inv _ _ _ P) as (qe & pce & rt & Hq & Hp & Hrt & _);
    destruct (populate_rot_inv _ _ _ R) as (crl & col & Hc & Hg & _ & _ & _ & Hroots);
    destruct H as [H|[H|[H|[H|[H|[H|[H|[H|[H|H]]]]]]]]]; try congruence;
    try (rewrite H in *; cbn in *; try discriminate; try contradiction)).
  unfold run_tool.
  destruct (effective fl c) as [[rot pol]|e|] eqn:E; [| reflexivity | exfalso; eapply effective_np; eauto].
  destruct (effective_inv _ _ _ _ E) as (S & B & C & R & P & _).
  destruct (populate_policy_inv _ _ _ P) as (qe & pce & rt & Hq & Hp & Hrt & _).
  destruct (populate_rot_inv _ _ _ R) as (crl & col & Hc & Hg & _ & _ & _ & Hroots).
  destruct H as [H|[H|[H|[H|[H|[H|[H|[H|[H|H]]]]]]]]]; try congruence;
    try (rewrite H in *; cbn in *; try discriminate; try contradiction).
  reflexivity.
Qed.

(* the unrepaired populateConfig crashed on a config whose policy lacks a sub-message *)
Theorem unrepaired_crashes fl :
  populate_policy_unrepaired fl (CfGood {| cfRot := None; cfPolicy := Some {| cpHeader := None; cpBody := None |} |}) = Panic.
Proof. reflexivity. Qed.
