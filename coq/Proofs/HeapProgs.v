(* Each slice-level program of Model/HeapProgs.v keeps the discipline [safe]:
   it writes only blocks it allocated itself; parsing returns only fresh blocks. *)
From V Require Import Lib.Bytes Lib.Res Gen.AbiConsts Model.Abi Model.HeapProgs Proofs.Heap.

Ltac hq_destruct H := destruct H as [HPceSvn [HQeSvn [HVendor [HUser [HTeeTcbSvn [HMrSeam [HMrSignerSeam [HSeamAttr [HTdAttr [HXfam [HMrTd [HMrConfigId [HMrOwner [HMrOwnerConfig [HRtmrs [HReportData [HSig [HKey [HCpuSvn [HRes1 [HAttrs [HMrEnclave [HRes2 [HMrSigner [HRes3 [HRes4 [HQeReportData [HQeSig [HAuth [HChain HExtra]]]]]]]]]]]]]]]]]]]]]]]]]]]]]].

Definition Tr {A} : A -> Prop := fun _ => True.

(* one step of a sequential composition whose first part is a basic operation *)
Ltac sbind L := eapply safe_bind; [L|].

Lemma safe_rd_all t lo l : Forall (readable_s t) l -> safe t lo Tr (rd_all l).
Proof.
  induction l as [|s l IH]; intro H; [exact I|]. inversion H; subst. cbn [rd_all].
  sbind ltac:(apply safe_rd; assumption). intros d _.
  sbind ltac:(apply IH; assumption). intros ds _. exact I.
Qed.

Lemma safe_load t lo q : hq_all (readable_s t) q -> safe t lo Tr (load q).
Proof.
  intro H. hq_destruct H. unfold load.
  repeat (first [ sbind ltac:(apply safe_rd; assumption); intros ? _
                | sbind ltac:(apply safe_rd_all; assumption); intros ? _ ]).
  exact I.
Qed.

Lemma safe_lift_res {A B} t lo (Q : res B -> Prop) (r : res A) (k : A -> hprog (res B)) :
  (forall a, r = Ok a -> safe t lo Q (k a)) -> (forall e, Q (Err e)) -> safe t lo Q (lift_res r k).
Proof. intros Hk He. destruct r; cbn; auto. Qed.

(* sub-slicing stays in the block *)
Definition in_blk (b : blk) (s : hslice) : Prop := sb s = b.

Lemma safe_sub_in t lo s i j : safe t lo (in_blk (sb s)) (sub s i j).
Proof. apply safe_sub. Qed.

Lemma safe_sub_ranges t lo data l : safe t lo (Forall (in_blk (sb data))) (sub_ranges data l).
Proof.
  induction l as [|[a b] l IH]; cbn [sub_ranges]; [constructor|].
  sbind ltac:(apply safe_sub_in). intros s Hs. sbind ltac:(apply IH). intros ss Hss.
  constructor; assumption.
Qed.

Lemma safe_sub_rtmrs t lo data n start : safe t lo (Forall (in_blk (sb data))) (sub_rtmrs n start data).
Proof.
  revert start; induction n as [|n IH]; intro start; cbn [sub_rtmrs]; [constructor|].
  sbind ltac:(apply safe_sub_in). intros s Hs. sbind ltac:(apply IH). intros ss Hss.
  constructor; assumption.
Qed.

(* ---- parsing returns only blocks allocated during the call ---- *)

Lemma in_blk_fresh t lo data s : fresh_s t lo data -> in_blk (sb data) s -> fresh_s t lo s.
Proof. intros [m [E Hm]] Hs. exists m. unfold in_blk in Hs. split; [congruence|exact Hm]. Qed.

Lemma Forall_in_blk_fresh t lo data l :
  fresh_s t lo data -> Forall (in_blk (sb data)) l -> Forall (fresh_s t lo) l.
Proof. intros Hd H. eapply Forall_impl; [|exact H]. intros s Hs. eapply (in_blk_fresh t lo data); eauto. Qed.

Lemma fresh_readable t lo s : fresh_s t lo s -> readable_s t s.
Proof. intro H. apply own_s_readable. eapply fresh_own, H. Qed.

Definition okP {A} (P : A -> Prop) (r : res A) : Prop := match r with Ok a => P a | _ => True end.

(* the common opening of every *ToProto: data := clone(b); read it *)
Ltac open_level Hb :=
  sbind ltac:(apply safe_clone; exact Hb); intros data Hdata;
  sbind ltac:(apply safe_rd; eapply fresh_readable; exact Hdata); intros d _;
  apply safe_lift_res; [|intro; exact I].

Ltac sub_step := sbind ltac:(first [apply safe_sub_in | apply safe_sub_from]); intros ? ?.

Lemma safe_parse_header t lo b : readable_s t b ->
  safe t lo (okP (fun h => fresh_s t lo (hhPceSvn h) /\ fresh_s t lo (hhQeSvn h) /\
                           fresh_s t lo (hhVendor h) /\ fresh_s t lo (hhUser h))) (parse_header_h b).
Proof.
  intro Hb. unfold parse_header_h. open_level Hb. intros _ _.
  do 4 sub_step. cbn. repeat split; eapply (in_blk_fresh t lo data); eauto.
Qed.

Lemma safe_parse_body t lo b : readable_s t b ->
  safe t lo (okP (fun h => Forall (fresh_s t lo) (hbF h) /\ Forall (fresh_s t lo) (hbRtmrs h) /\
                           fresh_s t lo (hbReportData h))) (parse_body_h b).
Proof.
  intro Hb. unfold parse_body_h. open_level Hb. intros _ _.
  sbind ltac:(apply safe_sub_ranges). intros fs Hfs. sub_step.
  sbind ltac:(apply safe_sub_rtmrs). intros rt Hrt. cbn.
  repeat split; [eapply (Forall_in_blk_fresh t lo data); eauto|eapply (Forall_in_blk_fresh t lo data); eauto|eapply (in_blk_fresh t lo data); eauto].
Qed.

Lemma safe_parse_report t lo b : readable_s t b ->
  safe t lo (okP (Forall (fresh_s t lo))) (parse_report_h b).
Proof.
  intro Hb. unfold parse_report_h. open_level Hb. intros _ _.
  sbind ltac:(apply safe_sub_ranges). intros fs Hfs. cbn. eapply (Forall_in_blk_fresh t lo data); eauto.
Qed.

Lemma safe_parse_pck t lo b : readable_s t b -> safe t lo (okP (fresh_s t lo)) (parse_pck_h b).
Proof.
  intro Hb. unfold parse_pck_h. open_level Hb. intros _ _. sub_step. cbn. eapply (in_blk_fresh t lo data); eauto.
Qed.

Lemma safe_parse_auth t lo b : readable_s t b ->
  safe t lo (okP (fun r => fresh_s t lo (fst r))) (parse_auth_h b).
Proof.
  intro Hb. unfold parse_auth_h. open_level Hb. intros ae _. sub_step. cbn. eapply (in_blk_fresh t lo data); eauto.
Qed.

Definition fresh_qercd t lo (c : hqercd) : Prop :=
  Forall (fresh_s t lo) (hcRep c) /\ fresh_s t lo (hcSig c) /\ fresh_s t lo (hcAuth c) /\ fresh_s t lo (hcChain c).

Lemma in_blk_readable t lo data s : fresh_s t lo data -> in_blk (sb data) s -> readable_s t s.
Proof. intros Hd Hs. eapply fresh_readable, in_blk_fresh; eauto. Qed.

Lemma safe_parse_qercd t lo b : readable_s t b -> safe t lo (okP (fresh_qercd t lo)) (parse_qercd_h b).
Proof.
  intro Hb. unfold parse_qercd_h. open_level Hb. intros _ _.
  sub_step. sbind ltac:(apply safe_parse_report; eapply (in_blk_readable t lo data); eauto). intros rr Hr.
  apply safe_lift_res; [|intro; exact I]. intros rep Erep. subst rr. cbn in Hr.
  sub_step. sub_step.
  sbind ltac:(apply safe_parse_auth; eapply (in_blk_readable t lo data); eauto). intros ra Ha.
  apply safe_lift_res; [|intro; exact I]. intros ae Eae. subst ra. cbn in Ha.
  sub_step. sbind ltac:(apply safe_parse_pck; eapply (in_blk_readable t lo data); eauto). intros rp Hp.
  apply safe_lift_res; [|intro; exact I]. intros ch Ech. subst rp. cbn in Hp.
  cbn. unfold fresh_qercd. cbn. repeat split; try assumption. eapply (in_blk_fresh t lo data); eauto.
Qed.

Lemma safe_parse_certdata t lo b : readable_s t b -> safe t lo (okP (fresh_qercd t lo)) (parse_certdata_h b).
Proof.
  intro Hb. unfold parse_certdata_h. open_level Hb. intros _ _.
  sub_step. apply safe_parse_qercd. eapply (in_blk_readable t lo data); eauto.
Qed.

Lemma safe_parse_signed t lo b : readable_s t b ->
  safe t lo (okP (fun s => fresh_s t lo (hsSig s) /\ fresh_s t lo (hsKey s) /\ fresh_qercd t lo (hsCert s)))
       (parse_signed_h b).
Proof.
  intro Hb. unfold parse_signed_h. open_level Hb. intros _ _.
  do 3 sub_step. sbind ltac:(apply safe_parse_certdata; eapply (in_blk_readable t lo data); eauto). intros rc Hc.
  apply safe_lift_res; [|intro; exact I]. intros cd Ecd. subst rc. cbn in Hc.
  destruct Hc as [Hc1 [Hc2 [Hc3 Hc4]]].
  cbn. unfold fresh_qercd. repeat split; try assumption; eapply (in_blk_fresh t lo data); eauto.
Qed.

(* a slice that is fresh, or the nil slice (no memory at all) *)
Definition fresh_or_nil t lo (s : hslice) : Prop := fresh_s t lo s \/ s = nil_slice.

Lemma nth_s_fresh t lo l i : Forall (fresh_s t lo) l -> fresh_or_nil t lo (nth_s l i).
Proof.
  intro H. unfold nth_s. destruct (nth_in_or_default i l nil_slice) as [Hin|E].
  - left. rewrite Forall_forall in H. apply H, Hin.
  - right. exact E.
Qed.

Theorem safe_parse t lo raw : readable_s t raw ->
  safe t lo (okP (hq_all (fresh_or_nil t lo))) (parse_h raw).
Proof.
  intro Hb. unfold parse_h.
  sbind ltac:(apply safe_clone; exact Hb). intros fmt _.
  open_level Hb. intros pq _.
  sub_step. sbind ltac:(apply safe_parse_header; eapply (in_blk_readable t lo data); eauto). intros rh Hh.
  apply safe_lift_res; [|intro; exact I]. intros hh Ehh. subst rh. cbn in Hh.
  sub_step. sbind ltac:(apply safe_parse_body; eapply (in_blk_readable t lo data); eauto). intros rb Hbd.
  apply safe_lift_res; [|intro; exact I]. intros bd Ebd. subst rb. cbn in Hbd.
  sub_step. sub_step.
  sbind ltac:(apply safe_parse_signed; eapply (in_blk_readable t lo data); eauto). intros rs Hs.
  apply safe_lift_res; [|intro; exact I]. intros sd Esd. subst rs. cbn in Hs.
  destruct Hh as [Hh1 [Hh2 [Hh3 Hh4]]]. destruct Hbd as [Hb1 [Hb2 Hb3]].
  destruct Hs as [Hs1 [Hs2 [Hc1 [Hc2 [Hc3 Hc4]]]]].
  cbn. unfold hq_all. cbn.
  repeat split; try (left; assumption); try (apply nth_s_fresh; assumption).
  - eapply Forall_impl; [|exact Hb2]. intros; left; assumption.
  - destruct (Nat.eqb _ 0); [right; reflexivity|left; eapply (in_blk_fresh t lo data); eauto].
Qed.

(* ---- the checking side: writes go to buffers made by the call itself ---- *)

Lemma safe_put_field t lo data a b f : own_s t data -> readable_s t f -> safe t lo Tr (put_field data a b f).
Proof.
  intros Hd Hf. unfold put_field. sbind ltac:(apply safe_sub_in). intros dst Hdst.
  apply safe_copy; [unfold own_s; rewrite Hdst; exact Hd|exact Hf].
Qed.

Lemma safe_put_scalar t lo data a b v : own_s t data -> safe t lo Tr (put_scalar data a b v).
Proof.
  intros Hd. unfold put_scalar. sbind ltac:(apply safe_sub_in). intros dst Hdst.
  apply safe_copy_bytes. unfold own_s; rewrite Hdst; exact Hd.
Qed.

Lemma safe_put_fields t lo data l :
  own_s t data -> Forall (fun x => readable_s t (snd x)) l -> safe t lo Tr (put_fields data l).
Proof.
  intros Hd. induction l as [|[[a b] f] l IH]; intro H; [exact I|]. inversion H; subst. cbn [put_fields].
  sbind ltac:(apply safe_put_field; assumption). intros _ _. apply IH. assumption.
Qed.

Lemma safe_put_rtmrs t lo data l : forall start,
  own_s t data -> Forall (readable_s t) l -> safe t lo Tr (put_rtmrs data start l).
Proof.
  induction l as [|f l IH]; intros start Hd H; [exact I|]. inversion H; subst. cbn [put_rtmrs].
  sbind ltac:(apply safe_put_field; assumption). intros _ _. apply IH; assumption.
Qed.

Lemma Forall_firstn' {X} (P : X -> Prop) n (l : list X) : Forall P l -> Forall P (firstn n l).
Proof.
  revert n; induction l as [|x l IH]; intros n H; [rewrite firstn_nil; constructor|].
  destruct n; [constructor|]. inversion H; subst. cbn. constructor; [assumption|apply IH; assumption].
Qed.

Ltac fresh_data := sbind ltac:(apply safe_make); intros data Hdata; pose proof (fresh_own _ _ _ Hdata) as Hown.

Lemma safe_header_bytes t lo q : hq_all (readable_s t) q -> safe t lo (fresh_s t lo) (header_bytes_h q).
Proof.
  intro H. hq_destruct H. unfold header_bytes_h. fresh_data.
  do 3 (sbind ltac:(apply safe_put_scalar; exact Hown); intros _ _).
  sbind ltac:(apply safe_put_fields; [exact Hown|repeat constructor; assumption]). intros _ _. exact Hdata.
Qed.

Lemma safe_body_bytes t lo q : hq_all (readable_s t) q -> safe t lo (fresh_s t lo) (body_bytes_h q).
Proof.
  intro H. hq_destruct H. unfold body_bytes_h. fresh_data.
  sbind ltac:(apply safe_put_fields; [exact Hown|cbn; repeat constructor; assumption]). intros _ _.
  sbind ltac:(apply safe_put_rtmrs; [exact Hown|apply Forall_firstn'; assumption]). intros _ _.
  sbind ltac:(apply safe_put_field; assumption). intros _ _. exact Hdata.
Qed.

Lemma safe_header_body t lo q : hq_all (readable_s t) q -> safe t lo (own_s t) (header_body_h q).
Proof.
  intro H. unfold header_body_h.
  sbind ltac:(apply safe_header_bytes; exact H). intros h Hh.
  sbind ltac:(apply safe_body_bytes; exact H). intros b Hb.
  apply safe_append; [eapply fresh_own, Hh|eapply fresh_readable, Hb].
Qed.

Lemma safe_report_bytes t lo q : hq_all (readable_s t) q -> safe t lo (fresh_s t lo) (report_bytes_h q).
Proof.
  intro H. hq_destruct H. unfold report_bytes_h. fresh_data.
  sbind ltac:(apply safe_put_field; assumption). intros _ _.
  sbind ltac:(apply safe_put_scalar; exact Hown). intros _ _.
  sbind ltac:(apply safe_put_fields; [exact Hown|repeat constructor; assumption]). intros _ _.
  do 2 (sbind ltac:(apply safe_put_scalar; exact Hown); intros _ _).
  sbind ltac:(apply safe_put_fields; [exact Hown|repeat constructor; assumption]). intros _ _. exact Hdata.
Qed.

Lemma safe_make_lc t lo l c : safe t lo (fresh_s t lo) (make_lc l c).
Proof. cbn. intros m Hm. exists m. cbn. split; [reflexivity|exact Hm]. Qed.

Lemma safe_verify_hash256 sha t lo q : hq_all (readable_s t) q -> safe t lo Tr (verify_hash256_h sha q).
Proof.
  intro H. hq_destruct H. unfold verify_hash256_h.
  sbind ltac:(apply safe_make_lc). intros c0 Hc0.
  sbind ltac:(apply safe_append; [eapply fresh_own, Hc0|assumption]). intros c1 Hc1.
  sbind ltac:(apply safe_append; [exact Hc1|assumption]). intros c2 Hc2.
  sbind ltac:(apply safe_rd, own_s_readable, Hc2). intros d _.
  sbind ltac:(apply safe_rd; assumption). intros rdv _.
  destruct (Nat.ltb _ _); exact I.
Qed.

Theorem safe_verify_bytes sha t lo q : hq_all (readable_s t) q -> safe t lo Tr (verify_bytes_h sha q).
Proof.
  intro H. pose proof H as H'. hq_destruct H'. unfold verify_bytes_h.
  sbind ltac:(apply safe_rd; assumption). intros chain _.
  sbind ltac:(apply safe_header_body; exact H). intros hb Hhb.
  sbind ltac:(apply safe_rd, own_s_readable, Hhb). intros msg _.
  do 2 (sbind ltac:(apply safe_rd; assumption); intros _ _).
  sbind ltac:(apply safe_verify_hash256; exact H). intros ok _.
  sbind ltac:(apply safe_report_bytes; exact H). intros rp Hrp.
  sbind ltac:(apply safe_rd; eapply fresh_readable, Hrp). intros rep _.
  sbind ltac:(apply safe_rd; assumption). intros _ _. exact I.
Qed.

Theorem safe_apply_mask_h t lo a b : readable_s t a -> readable_s t b -> safe t lo (fresh_s t lo) (apply_mask_h a b).
Proof.
  intros Ha Hb. unfold apply_mask_h. fresh_data.
  sbind ltac:(apply safe_rd; assumption). intros av _.
  sbind ltac:(apply safe_rd; assumption). intros bv _.
  destruct (Nat.ltb _ _); [exact I|].
  sbind ltac:(apply safe_copy_bytes; exact Hown). intros _ _. exact Hdata.
Qed.

Theorem safe_serialize t lo q : hq_all (readable_s t) q -> safe t lo (okP (fresh_s t lo)) (serialize_h q).
Proof.
  intro H. unfold serialize_h. sbind ltac:(apply safe_load; exact H). intros pq _.
  apply safe_lift_res; [|intro; exact I]. intros out _. fresh_data.
  sbind ltac:(apply safe_copy_bytes; exact Hown). intros _ _. exact Hdata.
Qed.

Theorem safe_validate_reads t lo q opts :
  hq_all (readable_s t) q -> Forall (readable_s t) opts -> safe t lo Tr (validate_reads_h q opts).
Proof.
  intros H Ho. unfold validate_reads_h. sbind ltac:(apply safe_load; exact H). intros pq _.
  sbind ltac:(apply safe_rd_all; exact Ho). intros os _. exact I.
Qed.

Theorem safe_extract_chain t lo q : hq_all (readable_s t) q -> safe t lo Tr (extract_chain_h q).
Proof. intro H. hq_destruct H. apply safe_rd. assumption. Qed.

(* ---- the unrepaired verifyHash256 breaks the discipline ---- *)

Definition demo_slice (b : blk) (o l c : nat) : hslice := {| sb := b; so := o; sl := l; sc := c |}.

(* attestation key = bytes 64..128 of a 200-byte block (as signedDataToProto
   leaves it), QE auth data = 32 bytes of another block *)
Definition demo_quote : hquote :=
  let z := nil_slice in
  {| hqScal := {| qHeader := None; qBody := None; qSignedDataSize := 0; qSigned := None; qExtra := [] |};
     hqPceSvn := z; hqQeSvn := z; hqVendor := z; hqUser := z; hqTeeTcbSvn := z; hqMrSeam := z;
     hqMrSignerSeam := z; hqSeamAttr := z; hqTdAttr := z; hqXfam := z; hqMrTd := z; hqMrConfigId := z;
     hqMrOwner := z; hqMrOwnerConfig := z; hqRtmrs := []; hqReportData := z;
     hqSig := demo_slice (Sh 1) 0 64 200; hqKey := demo_slice (Sh 1) 64 64 136;
     hqCpuSvn := z; hqRes1 := z; hqAttrs := z; hqMrEnclave := z; hqRes2 := z; hqMrSigner := z; hqRes3 := z;
     hqRes4 := z; hqQeReportData := demo_slice (Sh 3) 0 64 64;
     hqQeSig := z; hqAuth := demo_slice (Sh 2) 0 32 32; hqChain := z; hqExtra := z |}.

Definition demo_heap : heap := fun b =>
  match b with
  | Sh 1 => zeros 200 | Sh 2 => repeat x01 32 | Sh 3 => zeros 64 | _ => []
  end.

Definition demo_sha (d : bytes) : bytes := zeros 32.

Definition writes_of {A} (r : option A * nat * heap * wlog) : wlog := snd r.
Definition heap_of {A} (r : option A * nat * heap * wlog) : heap := snd (fst r).

(* the unrepaired code writes 32 bytes at offset 128 of the shared block behind
   the attestation key: the spare capacity, which the signature field reaches *)
Theorem unrepaired_writes_shared :
  writes_of (run 0 (verify_hash256_unrepaired demo_sha demo_quote) 0 demo_heap) = [(Sh 1, 128, 32)] /\
  slice 128 160 (heap_of (run 0 (verify_hash256_unrepaired demo_sha demo_quote) 0 demo_heap) (Sh 1)) = repeat x01 32 /\
  ~ safe 0 0 Tr (verify_hash256_unrepaired demo_sha demo_quote).
Proof.
  split; [vm_compute; reflexivity|]. split; [vm_compute; reflexivity|].
  intro H. cbn in H. destruct H as [_ H]. specialize (H []). cbn in H. destruct H as [H _]. discriminate.
Qed.

(* ... and the repaired one, on the same layout, writes nothing shared *)
Theorem repaired_writes_private :
  Forall (fun e => own 0 (fst (fst e)) = true)
         (writes_of (run 0 (verify_hash256_h demo_sha demo_quote) 0 demo_heap)).
Proof. vm_compute. repeat constructor. Qed.
