From V Require Import Model.RootOfTrust Proofs.Abi.

Lemma add_bundles_ok srcs pool p :
  add_bundles srcs pool = Ok p ->
  p = pool ++ concat (map srcCerts srcs) /\
  Forall (fun s => srcReadable s = true /\ srcCerts s <> []) srcs.
Proof.
  revert pool p; induction srcs as [|s rest IH]; intros pool p H; cbn [add_bundles] in H.
  - apply Ok_inj in H. subst. cbn. rewrite app_nil_r. auto.
  - destruct (srcReadable s) eqn:E1; cbn [negb] in H; [|discriminate].
    destruct (Nat.eqb_spec (length (srcCerts s)) 0) as [E2|E2]; [discriminate|].
    apply IH in H as [-> Hf]. cbn [map concat]. rewrite app_assoc. split; [reflexivity|].
    constructor; [split; [exact E1|]|exact Hf]. intro Hn. rewrite Hn in E2. now apply E2.
Qed.

Lemma add_bundles_err srcs pool :
  Exists (fun s => srcReadable s = false \/ srcCerts s = []) srcs -> add_bundles srcs pool = Err EUsage.
Proof.
  revert pool; induction srcs as [|s rest IH]; intros pool H; [inversion H|].
  cbn [add_bundles]. destruct (srcReadable s) eqn:E1; cbn [negb]; [|reflexivity].
  destruct (Nat.eqb_spec (length (srcCerts s)) 0) as [E2|E2]; [reflexivity|].
  inversion H as [? ? [Hx|Hx]|]; subst; [congruence| |now apply IH].
  rewrite Hx in E2. cbn in E2. contradiction.
Qed.

Lemma add_bundles_np srcs pool : add_bundles srcs pool <> Panic.
Proof.
  revert pool; induction srcs as [|s rest IH]; intro pool; cbn [add_bundles]; [discriminate|].
  destruct (srcReadable s); cbn [negb]; [|discriminate]. destruct (Nat.eqb _ 0); [discriminate|apply IH].
Qed.

Lemma add_bundles_err_class srcs pool c : add_bundles srcs pool = Err c -> c = EUsage.
Proof.
  revert pool; induction srcs as [|s rest IH]; intro pool; cbn [add_bundles]; [discriminate|].
  destruct (srcReadable s); cbn [negb]; [|congruence]. destruct (Nat.eqb _ 0); [congruence|apply IH].
Qed.

(* a root-of-trust configuration trusts exactly the certificates it lists; no
   bundle at all means the embedded root *)
Theorem root_of_trust_exact r o :
  root_of_trust_to_options r = Ok o ->
  optCheckRevocations o = rotCheckCrl r /\ optGetCollateral o = rotGetCollateral r /\
  ((rotPaths r = [] /\ rotInline r = []) -> optRoots o = None) /\
  (~ (rotPaths r = [] /\ rotInline r = []) ->
     exists pool, optRoots o = Some pool /\
       forall c, In c pool <-> exists s, In s (rotPaths r ++ rotInline r) /\ In c (srcCerts s)).
Proof.
  unfold root_of_trust_to_options, get_trusted_roots. intro H.
  apply bind_ok in H as (roots & Hr & H). apply Ok_inj in H. subst o. cbn.
  repeat split.
  - intros [E1 E2]. rewrite E1, E2 in Hr. cbn in Hr. now apply Ok_inj in Hr.
  - intro Hne.
    destruct (Nat.eqb_spec (length (rotPaths r)) 0) as [E1|E1];
      destruct (Nat.eqb_spec (length (rotInline r)) 0) as [E2|E2]; cbn [andb] in Hr;
      try (exfalso; apply Hne; split; [now destruct (rotPaths r)|now destruct (rotInline r)]).
    all: apply bind_ok in Hr as (p & Hp & Hr); apply bind_ok in Hr as (p2 & Hp2 & Hr); apply Ok_inj in Hr; subst roots;
      apply add_bundles_ok in Hp as [-> _]; apply add_bundles_ok in Hp2 as [-> _];
      eexists; split; [reflexivity|]; intro c; cbn [app];
      rewrite in_app_iff, !in_concat; split.
    all: try (intros [(l & Hl & Hc)|(l & Hl & Hc)]; apply in_map_iff in Hl as (s & <- & Hs); exists s; split; auto; apply in_app_iff; auto).
    all: intros (s & Hs & Hc); apply in_app_iff in Hs as [Hs|Hs]; [left|right]; exists (srcCerts s); split; auto; now apply in_map.
Qed.

Theorem root_of_trust_bad_bundle r :
  Exists (fun s => srcReadable s = false \/ srcCerts s = []) (rotPaths r ++ rotInline r) ->
  root_of_trust_to_options r = Err EUsage.
Proof.
  intro H. unfold root_of_trust_to_options, get_trusted_roots.
  assert (Hne : Nat.eqb (length (rotPaths r)) 0 && Nat.eqb (length (rotInline r)) 0 = false).
  { destruct (rotPaths r), (rotInline r); cbn; try reflexivity. inversion H. }
  rewrite Hne. apply Exists_app in H as [H|H].
  - rewrite add_bundles_err by exact H. reflexivity.
  - pose proof (add_bundles_np (rotPaths r) []) as Hnp.
    destruct (add_bundles (rotPaths r) []) as [p|c|] eqn:E; cbn [bind]; [| |contradiction].
    + rewrite add_bundles_err by exact H. reflexivity.
    + apply add_bundles_err_class in E. now subst.
Qed.
