(* The regenerated inventory of write sites equals the table the heap model
   accounts for; a new write site, or an old one whose destination is no longer a
   buffer of the call's own, breaks this file. *)
From Coq Require Import String List.
From V Require Import Gen.WriteSites Model.HeapSites.
Import ListNotations.

Lemma inventory_accounted : group write_sites = modelled_sites.
Proof. vm_compute. reflexivity. Qed.

Lemma shared_destinations : shared_of write_sites = allowed_shared.
Proof. vm_compute. reflexivity. Qed.

Lemma every_function_modelled :
  forallb (fun g => existsb (fun m => String.eqb (fst g) (fst m)) site_model) (group write_sites) = true.
Proof. vm_compute. reflexivity. Qed.
