(* The regenerated inventory of write sites has, per source file, exactly the
   numbers of sites of each kind and destination class that the heap model accounts
   for; a new write site, or an old one whose destination is no longer a buffer of
   the call's own, breaks this file (renaming a function does not). *)
From Coq Require Import String List.
From V Require Import Gen.WriteSites Model.HeapSites.
Import ListNotations.

(* the checked tie: counts per file, kind and class; and the one shared destination *)
Lemma inventory_counts : counts_ok write_sites = true.
Proof. vm_compute. reflexivity. Qed.

Lemma shared_destinations : shared_files_of write_sites = allowed_shared_files.
Proof. vm_compute. reflexivity. Qed.

