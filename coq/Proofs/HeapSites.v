(* In the regenerated inventory of write sites the only destination that is not a
   buffer of the call's own is the listed one; a write site whose destination is
   (or becomes) memory reachable from an argument breaks this file.  Adding,
   renaming or moving a write into a fresh buffer does not. *)
From Coq Require Import String List.
From V Require Import Gen.WriteSites Model.HeapSites.
Import ListNotations.

(* the checked tie: every site is classified, and the one shared destination *)
Lemma inventory_classified : classes_known write_sites = true.
Proof. vm_compute. reflexivity. Qed.

Lemma shared_destinations : shared_files_of write_sites = allowed_shared_files.
Proof. vm_compute. reflexivity. Qed.

