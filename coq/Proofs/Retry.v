From V Require Import Model.Retry.

(* ---- the first success is returned intact, with no further attempt ---- *)
Fixpoint first_success (script : list attempt) : option (nat * bytes) :=
  match script with
  | [] => None
  | a :: rest =>
    match aResult a with
    | Some r => Some (0, r)
    | None => match first_success rest with Some (k, r) => Some (S k, r) | None => None end
    end
  end.

Theorem success_is_first script now deadline delay max tie n r tr :
  run script now deadline delay max tie n = tr -> trOutcome tr = Success r ->
  exists k, first_success script = Some (k, r) /\ trCalls tr = S k.
Proof.
  revert now delay n tr; induction script as [|a rest IH]; intros now delay n tr Hr Ho; cbn [run] in Hr.
  - subst tr. discriminate.
  - cbn [first_success]. destruct (aResult a) as [x|].
    + subst tr. cbn in Ho. inversion Ho; subst. exists 0. auto.
    + match type of Hr with (if ?c then _ else _) = _ => destruct c end.
      * subst tr. discriminate.
      * subst tr. cbn [trOutcome trCalls] in *.
        destruct (IH _ _ _ _ eq_refl Ho) as (k & Hk & Hc). rewrite Hk. exists (S k). now rewrite Hc.
Qed.

(* calls never exceed the script: nothing is attempted after a success *)
Theorem calls_bounded script now deadline delay max tie n :
  trCalls (run script now deadline delay max tie n) <= length script.
Proof.
  revert now delay n; induction script as [|a rest IH]; intros now delay n; cbn [run]; [cbn; lia|].
  destruct (aResult a); [cbn; lia|].
  match goal with |- context [if ?c then _ else _] => destruct c end; cbn [trCalls length]; [lia|].
  specialize (IH (now + aDuration a + Z.max 0 (next_delay delay max))%Z (next_delay delay max) (S n)). lia.
Qed.

(* ---- waits ---- *)
Lemma next_delay_le_max delay max : (next_delay delay max <= Z.max max (growth * delay))%Z /\ (next_delay delay max <= max \/ next_delay delay max = growth * delay)%Z.
Proof. unfold next_delay. destruct (Z.ltb_spec max (growth * delay)); lia. Qed.

Lemma next_delay_cap delay max : (next_delay delay max <= max)%Z.
Proof. unfold next_delay. destruct (Z.ltb_spec max (growth * delay)); lia. Qed.

(* every wait is at most max(0, MaxRetryDelay), and never negative *)
Theorem waits_bounded script now deadline delay max tie n :
  let tr := run script now deadline delay max tie n in
  Forall (fun w => 0 <= w <= Z.max 0 max)%Z (trWaits tr) /\
  (forall w, trCut tr = Some w -> 0 <= w <= Z.max 0 max)%Z.
Proof.
  revert now delay n; induction script as [|a rest IH]; intros now delay n; cbn [run].
  - split; [constructor|discriminate].
  - destruct (aResult a); [split; [constructor|discriminate]|].
    pose proof (next_delay_cap delay max) as Hc.
    match goal with |- context [if ?c then _ else _] => destruct c eqn:E end; cbn [trWaits trCut].
    + split; [constructor|]. intros w Hw. inversion Hw; subst.
      apply orb_true_iff in E as [E|E]; [apply orb_true_iff in E as [E|E]|].
      * apply Z.ltb_lt in E. lia.
      * apply andb_true_iff in E as [E _]. apply Z.eqb_eq in E. lia.
      * apply andb_true_iff in E as [E _]. apply Z.leb_le in E. lia.
    + destruct (IH (now + aDuration a + Z.max 0 (next_delay delay max))%Z (next_delay delay max) (S n)) as [I1 I2].
      split; [constructor; [lia|exact I1]|exact I2].
Qed.

(* with a positive MaxRetryDelay every completed wait is positive: no busy loop *)
Theorem waits_positive script now deadline delay max tie n :
  (0 < max)%Z -> (0 < delay)%Z ->
  Forall (fun w => 0 < w)%Z (trWaits (run script now deadline delay max tie n)).
Proof.
  intros Hm. revert now delay n; induction script as [|a rest IH]; intros now delay n Hd; cbn [run]; [constructor|].
  destruct (aResult a); [constructor|].
  assert (Hn : (0 < next_delay delay max)%Z).
  { unfold next_delay, growth. destruct (Z.ltb_spec max (2 * delay)); lia. }
  match goal with |- context [if ?c then _ else _] => destruct c eqn:E end; cbn [trWaits]; [constructor|].
  constructor; [lia|]. now apply IH.
Qed.

(* ---- giving up in bounded time ---- *)
(* if the result is TimedOut, the return time is the deadline or - when the
   attempt in progress ran past it - the end of that attempt, which started
   before the deadline *)
Theorem gives_up_bounded script now deadline delay max tie n gmax :
  (now <= deadline)%Z ->
  Forall (fun a => 0 <= aDuration a <= gmax)%Z script ->
  let tr := run script now deadline delay max tie n in
  trOutcome tr = TimedOut -> (trEnd tr <= deadline + gmax)%Z.
Proof.
  revert now delay n; induction script as [|a rest IH]; intros now delay n Hnow Hf; cbn [run]; [discriminate|].
  inversion Hf as [|? ? Ha Hf']; subst.
  destruct (aResult a); [discriminate|].
  match goal with |- context [if ?c then _ else _] => destruct c eqn:E end; cbn [trOutcome trEnd].
  - intros _. lia.
  - intro Ho.
    (* the next attempt starts at wake, which is before the deadline *)
    apply orb_false_iff in E as [E E3]. apply orb_false_iff in E as [E1 E2].
    apply Z.ltb_ge in E1.
    apply (IH _ _ _ E1 Hf' Ho).
Qed.

(* first attempt is always made *)
Theorem at_least_one_call a rest start timeout max tie :
  1 <= trCalls (retry_get (a :: rest) start timeout max tie).
Proof.
  unfold retry_get. cbn [run]. destruct (aResult a); [cbn; lia|].
  match goal with |- context [if ?c then _ else _] => destruct c end; cbn; lia.
Qed.

(* the defect recorded as a known finding: with MaxRetryDelay <= 0 and time left
   the getter is called again without any wait *)
Theorem busy_loop_refuted :
  exists script start timeout max tie,
    (max <= 0)%Z /\ (0 < timeout)%Z /\
    trWaits (retry_get script start timeout max tie) = [0; 0; 0]%Z /\
    trCalls (retry_get script start timeout max tie) = 4.
Proof.
  exists [ {| aDuration := 1; aResult := None |}; {| aDuration := 1; aResult := None |};
           {| aDuration := 1; aResult := None |}; {| aDuration := 1; aResult := Some [x01] |} ],
         0%Z, 1000%Z, 0%Z, (fun _ => false).
  vm_compute. repeat split; discriminate || reflexivity.
Qed.
