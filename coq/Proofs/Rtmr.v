From V Require Import Model.Rtmr.
From Coq Require Import ZifyN ZifyNat ZifyBool.

Section Proofs.
Variable sha384 : bytes -> bytes.
Notation extend_digest := (extend_digest sha384).
Notation extend_event_log := (extend_event_log sha384).
Notation lib_extend := (lib_extend sha384).
Notation write_digest := (write_digest sha384).
Notation run_request := (run_request sha384).
Notation run_history := (run_history sha384).
Notation accepted_digest := (accepted_digest sha384).
Notation extend_chain := (extend_chain sha384).
Notation extend_reg := (extend_reg sha384).

(* ---- rejected requests write nothing ---- *)
Definition valid_digest_request (idx : Z) (d : bytes) : Prop := (0 <= idx <= 3)%Z /\ length d = 48.

Lemma extend_digest_reject t idx d :
  ~ valid_digest_request idx d -> extend_digest t idx d = (t, [], true).
Proof.
  unfold extend_digest, valid_digest_request. intro H.
  destruct (Z.ltb_spec idx 0); cbn [orb]; [reflexivity|].
  destruct (Z.ltb_spec 3 idx); [reflexivity|].
  destruct (Nat.eqb_spec (length d) 48); cbn [negb]; [|reflexivity].
  exfalso. apply H. lia.
Qed.

Lemma extend_event_log_reject t idx a l :
  a = false \/ l = [] -> extend_event_log t idx a l = (t, [], true).
Proof.
  unfold extend_event_log. intros [->| ->]; [reflexivity|]. destruct a; reflexivity.
Qed.

(* ---- a valid request: exactly one digest write, on the entry bound to the index ---- *)
Lemma search_found t idx name ops :
  search t idx = (Some name, ops) ->
  exists e, In e t /\ eName e = name /\ eIndex e = Some idx.
Proof.
  revert ops; induction t as [|e r IH]; cbn [search]; intros ops H; [discriminate|].
  destruct (eIndex e) as [i|] eqn:Ei.
  - destruct (N.eqb_spec i idx) as [->|Hn].
    + inversion H; subst. exists e. cbn. auto.
    + destruct (search r idx) as [o ops'] eqn:Es. cbn in H. inversion H; subst.
      destruct (IH _ eq_refl) as (e' & Hin & Hn' & Hi). exists e'. cbn. auto.
  - destruct (search r idx) as [o ops'] eqn:Es. cbn in H. inversion H; subst.
    destruct (IH _ eq_refl) as (e' & Hin & Hn' & Hi). exists e'. cbn. auto.
Qed.

Lemma search_none_register t idx : fst (search t idx) = None <-> register t idx = None.
Proof.
  induction t as [|e r IH]; cbn [search register]; [tauto|].
  destruct (eIndex e) as [i|].
  - destruct (N.eqb i idx); cbn [fst]; [split; discriminate|exact IH].
  - cbn [fst]. exact IH.
Qed.

Definition digest_writes (ops : list op) : list (N * bytes) :=
  filter_map (fun o => match o with WriteDigest n d => Some (n, d) | _ => None end) ops.

Lemma digest_writes_app a b : digest_writes (a ++ b) = digest_writes a ++ digest_writes b.
Proof.
  unfold digest_writes. induction a as [|o a IH]; cbn; [reflexivity|].
  destruct o; cbn; rewrite ?IH; reflexivity.
Qed.

Lemma search_no_writes t idx : digest_writes (snd (search t idx)) = [].
Proof.
  induction t as [|e r IH]; cbn [search]; [reflexivity|].
  destruct (eIndex e) as [i|]; [destruct (N.eqb i idx)|]; cbn; auto.
Qed.

Theorem lib_extend_one_write t idx d :
  exists name, digest_writes (snd (lib_extend t idx d)) = [(name, d)] /\
    ((exists e, In e t /\ eName e = name /\ eIndex e = Some idx) (* re-used *)
     \/ (register t idx = None /\ name = fresh_name t)).           (* created and bound *)
Proof.
  unfold lib_extend. destruct (search t idx) as [[name|] ops] eqn:Es; cbn [fst snd].
  - exists name. split.
    + cbn. rewrite digest_writes_app. change ops with (snd (Some name, ops)). rewrite <- Es, search_no_writes. reflexivity.
    + left. eapply search_found. exact Es.
  - exists (fresh_name t). split.
    + cbn. rewrite digest_writes_app. change ops with (snd (@None N, ops)). rewrite <- Es, search_no_writes. reflexivity.
    + right. split; [|reflexivity]. apply search_none_register. now rewrite Es.
Qed.

(* ---- registers ---- *)
Definition names_unique (t : tsm) : Prop := NoDup (map eName t).

Lemma register_write_digest_same t idx name d e :
  names_unique t -> search t idx = (Some name, e) ->
  register (write_digest t name d) idx = option_map (fun r => extend_reg r d) (register t idx).
Proof.
  revert e; induction t as [|x r IH]; intros e Hu H; cbn [search] in H; [discriminate|].
  cbn [write_digest register]. inversion Hu as [|? ? Hnin Hu']; subst.
  destruct (eIndex x) as [i|] eqn:Ei.
  - destruct (N.eqb_spec i idx) as [->|Hn].
    + inversion H; subst. rewrite N.eqb_refl. cbn [register eIndex eReg option_map]. rewrite N.eqb_refl. reflexivity.
    + destruct (search r idx) as [o ops'] eqn:Es. cbn in H. inversion H; subst.
      destruct (N.eqb_spec (eName x) name) as [En|En].
      * exfalso. destruct (search_found _ _ _ _ Es) as (e' & Hin & Hn' & _).
        apply Hnin. rewrite En, <- Hn'. now apply in_map.
      * cbn [register]. rewrite Ei. apply N.eqb_neq in Hn. rewrite Hn. eapply IH; eauto.
  - destruct (search r idx) as [o ops'] eqn:Es. cbn in H. inversion H; subst.
    destruct (N.eqb_spec (eName x) name) as [En|En].
    + exfalso. destruct (search_found _ _ _ _ Es) as (e' & Hin & Hn' & _).
      apply Hnin. rewrite En, <- Hn'. now apply in_map.
    + cbn [register]. rewrite Ei. eapply IH; eauto.
Qed.

Lemma register_write_digest_other t idx name d :
  (forall e, In e t -> eName e = name -> eIndex e <> Some idx) ->
  register (write_digest t name d) idx = register t idx.
Proof.
  induction t as [|x r IH]; intro H; cbn [write_digest register]; [reflexivity|].
  destruct (N.eqb_spec (eName x) name) as [En|En].
  - cbn [register eIndex]. destruct (eIndex x) as [i|] eqn:Ei; [|reflexivity].
    destruct (N.eqb_spec i idx) as [->|Hn]; [|reflexivity].
    exfalso. apply (H x); cbn; auto.
  - cbn [register]. destruct (eIndex x) as [i|]; [destruct (N.eqb i idx); [reflexivity|]|];
      apply IH; intros e He; apply H; now right.
Qed.

Lemma fresh_name_not_in t : ~ In (fresh_name t) (map eName t).
Proof.
  unfold fresh_name. intro H.
  assert (Hle : forall l x, In x l -> (x <= fold_right N.max 0 l)%N).
  { induction l as [|y l IHl]; intros x Hx; [destruct Hx|]. destruct Hx as [->|Hx]; cbn; [lia|]. specialize (IHl _ Hx). lia. }
  apply Hle in H. lia.
Qed.

Lemma write_digest_names t name d : map eName (write_digest t name d) = map eName t.
Proof.
  induction t as [|x r IH]; cbn [write_digest map]; [reflexivity|].
  destruct (N.eqb (eName x) name); cbn [map eName]; [reflexivity|now rewrite IH].
Qed.

Lemma register_app_none t e idx : register t idx = None ->
  register (t ++ [e]) idx = register [e] idx.
Proof.
  induction t as [|x r IH]; intro H; cbn [app register] in *; [reflexivity|].
  destruct (eIndex x) as [i|]; [destruct (N.eqb i idx); [discriminate|]|]; now apply IH.
Qed.

Lemma register_app_some t e idx v : register t idx = Some v -> register (t ++ [e]) idx = Some v.
Proof.
  induction t as [|x r IH]; intro H; cbn [app register] in *; [discriminate|].
  destruct (eIndex x) as [i|]; [destruct (N.eqb i idx); [exact H|]|]; now apply IH.
Qed.

Lemma NoDup_snoc {A} (l : list A) x : NoDup l -> ~ In x l -> NoDup (l ++ [x]).
Proof.
  induction 1 as [|y l Hy Hl IH]; intro Hx; cbn; [constructor; [intros []|constructor]|].
  constructor.
  - intro Hin. apply in_app_or in Hin as [Hin|[<-|[]]]; [contradiction|]. apply Hx. now left.
  - apply IH. intro Hin. apply Hx. now right.
Qed.

Lemma unique_name_eq t e e' : names_unique t -> In e t -> In e' t -> eName e = eName e' -> e = e'.
Proof.
  unfold names_unique. induction t as [|x r IH]; intros Hu He He' Hn; [contradiction|].
  inversion Hu as [|? ? Hnin Hu']; subst.
  destruct He as [->|He], He' as [->|He']; auto.
  - exfalso. apply Hnin. rewrite Hn. now apply in_map.
  - exfalso. apply Hnin. rewrite <- Hn. now apply in_map.
Qed.

Lemma search_app_new t e idx : register t idx = None -> eIndex e = Some idx ->
  fst (search (t ++ [e]) idx) = Some (eName e).
Proof.
  induction t as [|x r IH]; intros Hn He; cbn [app search register] in *.
  - rewrite He, N.eqb_refl. reflexivity.
  - destruct (eIndex x) as [j|]; [destruct (N.eqb j idx); [discriminate|]|]; cbn [fst]; now apply IH.
Qed.

(* the effect of one library extend on every register *)
Definition reg_or_zero (t : tsm) (i : N) : bytes :=
  match register t i with Some r => r | None => zero48 end.

Theorem lib_extend_registers t idx d i :
  names_unique t ->
  names_unique (fst (lib_extend t idx d)) /\
  reg_or_zero (fst (lib_extend t idx d)) i =
    if N.eqb i idx then extend_reg (reg_or_zero t idx) d else reg_or_zero t i.
Proof.
  intro Hu. unfold lib_extend, reg_or_zero.
  destruct (search t idx) as [[name|] ops] eqn:Es; cbn [fst snd].
  - split; [unfold names_unique; now rewrite write_digest_names|].
    destruct (N.eqb_spec i idx) as [->|Hn].
    + rewrite (register_write_digest_same _ _ _ _ _ Hu Es).
      destruct (search_found _ _ _ _ Es) as (e & Hin & Hne & Hie).
      assert (Hs : register t idx <> None).
      { intro Hc. apply search_none_register in Hc. rewrite Es in Hc. discriminate. }
      destruct (register t idx); [reflexivity|contradiction].
    + rewrite register_write_digest_other; [reflexivity|].
      intros e He Hne Hie.
      (* the entry named [name] is bound to idx, and names are unique *)
      destruct (search_found _ _ _ _ Es) as (e' & Hin' & Hne' & Hie').
      assert (e = e') by (eapply unique_name_eq; eauto; congruence).
      subst e'. rewrite Hie in Hie'. inversion Hie'. contradiction.
  - assert (Hnone : register t idx = None) by (apply search_none_register; now rewrite Es).
    set (name := fresh_name t).
    set (ne := {| eName := name; eIndex := Some idx; eReg := zero48 |}).
    assert (Hu' : names_unique (t ++ [ne])).
    { unfold names_unique. rewrite map_app. cbn [map eName ne]. apply NoDup_snoc; [exact Hu|apply fresh_name_not_in]. }
    split; [unfold names_unique; now rewrite write_digest_names|].
    assert (Hs : search (t ++ [ne]) idx = (Some name, snd (search (t ++ [ne]) idx))).
    { pose proof (search_app_new t ne idx Hnone eq_refl) as Hf.
      destruct (search (t ++ [ne]) idx) as [o l]. cbn in Hf |- *. now rewrite Hf. }
    destruct (N.eqb_spec i idx) as [->|Hn].
    + rewrite (register_write_digest_same _ _ _ _ _ Hu' Hs).
      rewrite (register_app_none _ _ _ Hnone). cbn. rewrite N.eqb_refl. cbn. rewrite Hnone. reflexivity.
    + rewrite register_write_digest_other.
      * destruct (register t i) as [v|] eqn:Er.
        -- now rewrite (register_app_some _ _ _ _ Er).
        -- rewrite (register_app_none _ _ _ Er). cbn. apply N.eqb_neq in Hn.
           rewrite N.eqb_sym, Hn. reflexivity.
      * intros e He Hne Hie. apply in_app_or in He as [He|[<-|[]]].
        -- apply (fresh_name_not_in t). fold name. rewrite <- Hne. now apply in_map.
        -- cbn in Hie. inversion Hie. congruence.
Qed.

Lemma extend_digest_registers t idx d i :
  names_unique t ->
  names_unique (fst (fst (extend_digest t idx d))) /\
  reg_or_zero (fst (fst (extend_digest t idx d))) i =
    match accepted_digest i (RDigest idx d) with
    | Some x => extend_reg (reg_or_zero t i) x
    | None => reg_or_zero t i
    end.
Proof.
  intro Hu. unfold extend_digest. cbn [accepted_digest].
  destruct (Z.ltb idx 0 || Z.ltb 3 idx)%bool eqn:E1; cbn [fst]; [auto|].
  destruct (negb (Nat.eqb (length d) 48)) eqn:E2; cbn [fst]; [auto|].
  destruct (lib_extend_registers t (Z.to_N idx) d i Hu) as [H1 H2]. split; [exact H1|].
  rewrite H2. rewrite (N.eqb_sym i). destruct (N.eqb_spec (Z.to_N idx) i) as [->|]; reflexivity.
Qed.

Lemma run_request_registers t r i :
  names_unique t ->
  names_unique (fst (fst (run_request t r))) /\
  reg_or_zero (fst (fst (run_request t r))) i =
    match accepted_digest i r with
    | Some x => extend_reg (reg_or_zero t i) x
    | None => reg_or_zero t i
    end.
Proof.
  intro Hu. destruct r as [idx d|idx a l]; cbn [run_request].
  - now apply extend_digest_registers.
  - unfold extend_event_log. cbn [accepted_digest].
    destruct a; cbn [negb fst]; [|auto].
    destruct (Nat.eqb (length l) 0); cbn [fst]; [auto|].
    pose proof (extend_digest_registers t idx (sha384 l) i Hu) as H. cbn [accepted_digest] in H. exact H.
Qed.

(* over any sequence of requests each register equals the SHA-384 extend chain of
   the accepted digests for its index, in call order *)
Theorem history_registers rs t i :
  names_unique t ->
  reg_or_zero (run_history t rs) i =
    extend_chain (reg_or_zero t i) (filter_map (accepted_digest i) rs).
Proof.
  revert t; induction rs as [|r rs IH]; intros t Hu; [reflexivity|].
  unfold run_history. cbn [fold_left filter_map].
  destruct (run_request_registers t r i Hu) as [Hu' Hr].
  fold (run_history (fst (fst (run_request t r))) rs). rewrite (IH _ Hu'), Hr.
  destruct (accepted_digest i r); reflexivity.
Qed.

Theorem history_from_empty rs i :
  reg_or_zero (run_history [] rs) i = extend_chain zero48 (filter_map (accepted_digest i) rs).
Proof. apply (history_registers rs [] i). constructor. Qed.

(* requests that are rejected leave no trace *)
Theorem run_request_rejected t r :
  snd (run_request t r) = true -> run_request t r = (t, [], true).
Proof.
  destruct r as [idx d|idx a l]; cbn [run_request]; unfold extend_event_log, extend_digest.
  - destruct (Z.ltb idx 0 || Z.ltb 3 idx)%bool; [reflexivity|].
    destruct (negb (Nat.eqb (length d) 48)); [reflexivity|]. cbn. discriminate.
  - destruct (negb a); [reflexivity|]. destruct (Nat.eqb (length l) 0); [reflexivity|].
    destruct (Z.ltb idx 0 || Z.ltb 3 idx)%bool; [reflexivity|].
    destruct (negb (Nat.eqb (length (sha384 l)) 48)); [reflexivity|]. cbn. discriminate.
Qed.
End Proofs.
