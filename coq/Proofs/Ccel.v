(* ParseCcelWithTdQuote returns a state only behind both gates and a matching
   replay of every register the log has events for. *)
From V Require Import Lib.Bytes Lib.Res Model.Abi Model.Validate Model.Verify Model.Rtmr Model.Ccel
  Proofs.Abi Proofs.Validate Proofs.Verify Proofs.VerifyNoPanic.

Section Ccel.
Variable sha384 : bytes -> bytes.
Notation parse_ccel := (parse_ccel_with_quote sha384).

(* a state pointer comes back (with or without an error next to it) only behind
   both gates, from the bank taken from the quote, out of replay-and-extract *)
Theorem ccel_gates w q vo po wall o st :
  ocState (fst (parse_ccel w q vo po wall o)) = Some st ->
  fst (verify w q vo wall) = Ok tt /\ validate q po = Ok tt /\
  exists bank, rtmr_bank q = Ok bank /\ ocState (replay_and_extract sha384 o bank) = Some st.
Proof.
  unfold parse_ccel_with_quote. destruct (fst (verify w q vo wall)) as [[]| |] eqn:V; cbn [fst]; try discriminate.
  destruct (validate q po) as [[]| |] eqn:P; try discriminate.
  destruct (rtmr_bank q) as [bank| |] eqn:B; cbn; try discriminate.
  intro H. repeat split. exists bank. split; [reflexivity|exact H].
Qed.

(* success is the special case: Ok carries the state that is handed back *)
Theorem ccel_ok_state w q vo po wall o st :
  ocRes (fst (parse_ccel w q vo po wall o)) = Ok st -> ocState (fst (parse_ccel w q vo po wall o)) = Some st.
Proof.
  unfold parse_ccel_with_quote. destruct (fst (verify w q vo wall)) as [[]| |]; cbn [fst]; try discriminate.
  destruct (validate q po) as [[]| |]; try discriminate.
  destruct (rtmr_bank q) as [bank| |]; cbn; try discriminate.
  unfold replay_and_extract, fail. destruct (negb (coTable o)); cbn; [discriminate|].
  assert (E : ocRes (extract_out o) = Ok st -> ocState (extract_out o) = Some st).
  { unfold extract_out. destruct (coExtract o); cbn; congruence. }
  destruct (coEmpty o); [exact E|]. destruct (coEvents o) as [es|]; cbn; [|discriminate].
  destruct (replay_all sha384 es bank); cbn; [exact E|discriminate].
Qed.

(* a failing gate: an error and no state *)
Theorem ccel_verify_gate w q vo po wall o :
  fst (verify w q vo wall) <> Ok tt ->
  ocState (fst (parse_ccel w q vo po wall o)) = None /\ forall st, ocRes (fst (parse_ccel w q vo po wall o)) <> Ok st.
Proof.
  intro H. unfold parse_ccel_with_quote. destruct (fst (verify w q vo wall)) as [[]| |] eqn:V; cbn [fst];
    [contradiction| |]; split; try reflexivity; discriminate.
Qed.

Theorem ccel_validate_gate w q vo po wall o :
  validate q po <> Ok tt ->
  ocState (fst (parse_ccel w q vo po wall o)) = None /\ forall st, ocRes (fst (parse_ccel w q vo po wall o)) <> Ok st.
Proof.
  intro H. unfold parse_ccel_with_quote. destruct (fst (verify w q vo wall)) as [[]| |] eqn:V; cbn [fst];
    [|split; [reflexivity|discriminate]|split; [reflexivity|discriminate]].
  destruct (validate q po) as [[]| |]; [contradiction| |]; split; try reflexivity; discriminate.
Qed.

(* nothing is fetched beyond what verification fetches *)
Theorem ccel_urls w q vo po wall o : snd (parse_ccel w q vo po wall o) = snd (verify w q vo wall).
Proof.
  unfold parse_ccel_with_quote. destruct (fst (verify w q vo wall)) as [[]| |]; reflexivity.
Qed.

(* the bank of a checked quote: RTMR i of the quote is register index i, four of them *)
Lemma bank_of_checked q bank : check_quote (Some q) = Ok tt -> rtmr_bank (Some q) = Ok bank ->
  exists b r0 r1 r2 r3, qBody q = Some b /\ bRtmrs b = [r0; r1; r2; r3] /\
    bank = [(0, r0); (1, r1); (2, r2); (3, r3)] /\
    length r0 = 48 /\ length r1 = 48 /\ length r2 = 48 /\ length r3 = 48.
Proof.
  intros Hck Hb. destruct (check_quote_parts q Hck) as (h & b & Hh & Hbody & Ch & Cb).
  destruct (check_body_inv b Cb) as (_&_&_&_&_&_&_&_&_&_&(r0&r1&r2&r3&Er&L0&L1&L2&L3)&_).
  exists b, r0, r1, r2, r3. repeat split; try assumption.
  unfold rtmr_bank in Hb. destruct q as [qh qb sds qs qe]. cbn in Hbody. subst qb. rewrite Er in Hb.
  cbn in Hb. inversion Hb. reflexivity.
Qed.

Definition measured (es : list event) (idx : nat) : Prop := events_of es idx <> [].

Lemma replay_mr_match es idx dig : replay_mr sha384 es idx dig = true -> measured es idx ->
  exists ds, digests_ok (length dig) (events_of es idx) = Some ds /\
             extend_chain sha384 (zeros (length dig)) ds = dig.
Proof.
  unfold replay_mr, measured. intros H M. destruct (events_of es idx) as [|e l] eqn:E; [contradiction|].
  destruct (digests_ok (length dig) (e :: l)) as [ds|]; [|discriminate].
  exists ds. split; [reflexivity|]. apply bytes_eqb_eq, H.
Qed.

(* A state is returned only if, for every RTMR the log has events for, the
   quote's value equals the replay of those events' digests. *)
Theorem ccel_rtmr_match w q vo po wall o st :
  ocState (fst (parse_ccel w q vo po wall o)) = Some st -> coEmpty o = false ->
  exists qq b r0 r1 r2 r3 es,
    q = Some qq /\ qBody qq = Some b /\ bRtmrs b = [r0; r1; r2; r3] /\ coEvents o = Some es /\
    forall i r, nth_error [r0; r1; r2; r3] i = Some r -> measured es (S i) ->
      exists ds, digests_ok 48 (events_of es (S i)) = Some ds /\ extend_chain sha384 zero48 ds = r.
Proof.
  intros H Hne. destruct (ccel_gates _ _ _ _ _ _ _ H) as (V & P & bank & B & R).
  destruct vo as [vo|]; [|cbn in V; discriminate].
  destruct (verify_accept_inv _ _ _ _ V) as (qq & ch & ext & col & -> & Hck & _).
  destruct (bank_of_checked qq bank Hck B) as (b & r0 & r1 & r2 & r3 & Hb & Er & -> & L0 & L1 & L2 & L3).
  unfold replay_and_extract, fail in R. destruct (coTable o); cbn [negb] in R; [|discriminate]. rewrite Hne in R.
  destruct (coEvents o) as [es|] eqn:Ees; [|discriminate].
  destruct (replay_all sha384 es [(0, r0); (1, r1); (2, r2); (3, r3)]) eqn:RA; [|discriminate].
  exists qq, b, r0, r1, r2, r3, es. repeat split; try assumption.
  cbn [replay_all forallb fst snd] in RA.
  apply andb_true_iff in RA as [R0 RA]. apply andb_true_iff in RA as [R1 RA].
  apply andb_true_iff in RA as [R2 RA]. apply andb_true_iff in RA as [R3 _].
  intros i r Hi M. unfold zero48.
  destruct i as [|[|[|[|i]]]]; cbn in Hi; try discriminate.
  - inversion Hi; subst r. destruct (replay_mr_match es 1 r0 R0 M) as (ds & D & C). rewrite L0 in D, C. eauto.
  - inversion Hi; subst r. destruct (replay_mr_match es 2 r1 R1 M) as (ds & D & C). rewrite L1 in D, C. eauto.
  - inversion Hi; subst r. destruct (replay_mr_match es 3 r2 R2 M) as (ds & D & C). rewrite L2 in D, C. eauto.
  - inversion Hi; subst r. destruct (replay_mr_match es 4 r3 R3 M) as (ds & D & C). rewrite L3 in D, C. eauto.
  - destruct i; discriminate.
Qed.

(* ... and a quote that passes both gates but whose value of a measured RTMR
   differs from the replay is rejected, without a state *)
Theorem ccel_mismatch_rejected w qq vo po wall o b r0 r1 r2 r3 es i r :
  qBody qq = Some b -> bRtmrs b = [r0; r1; r2; r3] -> coEmpty o = false -> coEvents o = Some es ->
  nth_error [r0; r1; r2; r3] i = Some r -> measured es (S i) ->
  (forall ds, digests_ok 48 (events_of es (S i)) = Some ds -> extend_chain sha384 zero48 ds <> r) ->
  ocState (fst (parse_ccel w (Some qq) vo po wall o)) = None /\
  forall st, ocRes (fst (parse_ccel w (Some qq) vo po wall o)) <> Ok st.
Proof.
  intros Hb Er Hne Hes Hi M Hd.
  assert (N0 : forall st, ocState (fst (parse_ccel w (Some qq) vo po wall o)) <> Some st).
  { intros st H.
  destruct (ccel_rtmr_match _ _ _ _ _ _ _ H Hne) as (qq' & b' & s0 & s1 & s2 & s3 & es' & Eq & Hb' & Er' & Hes' & W).
  inversion Eq; subst qq'. rewrite Hb in Hb'. inversion Hb'; subst b'. rewrite Er in Er'. inversion Er'; subst.
  rewrite Hes in Hes'. inversion Hes'; subst es'.
    destruct (W i r Hi M) as (ds & D & C). exact (Hd ds D C). }
  split.
  - destruct (ocState (fst (parse_ccel w (Some qq) vo po wall o))) as [st|] eqn:E; [exfalso; eapply N0; eauto|reflexivity].
  - intros st H. apply ccel_ok_state in H. eapply N0; eauto.
Qed.

(* never a crash, whatever the inputs (as long as go-eventlog's extraction does
   not crash): verification and validation are total, and the register bank is
   only built after the message passed their checks *)
Theorem ccel_total w q vo po wall o : coExtract o <> Panic -> ocRes (fst (parse_ccel w q vo po wall o)) <> Panic.
Proof.
  intro Hx.
  unfold parse_ccel_with_quote. pose proof (verify_np w q vo wall) as Vn.
  destruct (fst (verify w q vo wall)) as [[]| |] eqn:V; cbn [fst]; try discriminate; [|contradiction].
  pose proof (validate_total q po) as Pn.
  destruct (validate q po) as [[]| |] eqn:P; try discriminate; [|contradiction].
  destruct vo as [vo|]; [|cbn in V; discriminate].
  destruct (verify_accept_inv _ _ _ _ V) as (qq & ch & ext & col & -> & Hck & _).
  destruct (check_quote_parts qq Hck) as (h & b & Hh & Hbody & Ch & Cb).
  destruct (check_body_inv b Cb) as (_&_&_&_&_&_&_&_&_&_&(r0&r1&r2&r3&Er&_)&_).
  unfold rtmr_bank. destruct qq as [qh qb sds qs qe]. cbn in Hbody. subst qb. rewrite Er. cbn.
  assert (Hx' : ocRes (extract_out o) <> Panic).
  { unfold extract_out. destruct (coExtract o); cbn; congruence. }
  unfold replay_and_extract, fail. destruct (negb (coTable o)); [discriminate|].
  destruct (coEmpty o); [exact Hx'|]. destruct (coEvents o) as [es|]; [|discriminate].
  destruct (replay_all sha384 es _); [exact Hx'|discriminate].
Qed.

End Ccel.

(* TdxDefaultOpts binds REPORT_DATA to the caller's nonce: a quote passes the
   default policy only if its REPORT_DATA is the nonce, zero-padded to 64 bytes
   (a longer nonce is cut to its first 64 bytes) *)
Lemma default_report_data_length nonce : length (default_report_data nonce) = 64.
Proof.
  unfold default_report_data. rewrite app_length, zeros_length.
  pose proof (firstn_le_length 64 nonce). lia.
Qed.

Theorem default_opts_bind_nonce q b nonce :
  qBody q = Some b -> validate (Some q) (Some (default_vopts nonce)) = Ok tt ->
  bReportData b = default_report_data nonce.
Proof.
  intros Hb V.
  assert (Hck : check_quote (Some q) = Ok tt).
  { unfold validate in V. destruct (check_quote (Some q)) as [[]| |]; try discriminate; reflexivity. }
  destruct (check_quote_parts q Hck) as (h & b' & Hh & Hb' & _). rewrite Hb in Hb'. inversion Hb'; subst b'.
  apply (validate_iff q _ h b Hck Hh Hb) in V.
  destruct V as (_&_&_&_&_&_&_&_&_&E&_).
  change (ob (oReportData (default_vopts nonce))) with (default_report_data nonce) in E. destruct E as [E|[_ E]]; [|symmetry; exact E].
  pose proof (default_report_data_length nonce) as L. rewrite E in L. discriminate.
Qed.
