(* Proofs about Model/Validate.v *)
From V Require Import Model.Validate Proofs.Abi Gen.AbiConsts Gen.ValidateConsts.
From Coq Require Import ZifyN ZifyNat ZifyBool.

(* ---- combine ---- *)
Lemma combine_np l : Forall (fun r => r <> Panic) l -> combine l <> Panic.
Proof.
  induction 1 as [|r l Hr _ IH]; cbn [combine]; [discriminate|].
  destruct r; [exact IH| |contradiction].
  destruct (combine l); [discriminate|discriminate|contradiction].
Qed.

Lemma combine_ok l : Forall (fun r => r <> Panic) l ->
  (combine l = Ok tt <-> Forall (fun r => r = Ok tt) l).
Proof.
  induction 1 as [|r l Hr Hl IH]; cbn [combine].
  - split; auto.
  - destruct r as [[]| |]; [| |contradiction].
    + rewrite IH. split; [intro; constructor; auto|intro Hf; inversion Hf; auto].
    + split.
      * destruct (combine l); discriminate.
      * intro Hf. inversion Hf; discriminate.
Qed.

(* ---- byte_check ---- *)
Lemma byte_check_np n g r : byte_check n g r <> Panic.
Proof.
  unfold byte_check, perr.
  destruct (Nat.eqb (length r) 0); [discriminate|].
  destruct (negb (Nat.eqb (length r) n)); [discriminate|].
  destruct (bytes_eqb r g); discriminate.
Qed.

Lemma length_0_nil {A} (l : list A) : length l = 0 <-> l = [].
Proof. destruct l; cbn; split; intro; try reflexivity; discriminate. Qed.

Lemma byte_check_ok n g r :
  byte_check n g r = Ok tt <-> r = [] \/ (length r = n /\ r = g).
Proof.
  unfold byte_check, perr.
  destruct (Nat.eqb_spec (length r) 0) as [E|E].
  - apply length_0_nil in E. tauto.
  - destruct (Nat.eqb_spec (length r) n) as [E2|E2]; cbn [negb].
    + destruct (bytes_eqb r g) eqn:E3.
      * apply bytes_eqb_eq in E3. tauto.
      * apply bytes_eqb_neq in E3. split; [discriminate|].
        intros [->|[_ ->]]; [cbn in E; lia|contradiction].
    + split; [discriminate|]. intros [->|[H _]]; [cbn in E; lia|contradiction].
Qed.

(* ---- rtmr loop ---- *)
Lemma rtmr_loop_np n i given req :
  i + length req <= length given -> byte_check_rtmr_loop n i given req <> Panic.
Proof.
  revert i; induction req as [|bs req IH]; intros i H; cbn [byte_check_rtmr_loop]; [discriminate|].
  cbn [length] in H. unfold gnth.
  destruct (nth_error given i) eqn:E.
  - cbn [bind]. apply seq_np; [apply byte_check_np|apply IH; lia].
  - apply nth_error_None in E. lia.
Qed.

Lemma rtmr_loop_ok n i given req :
  i + length req <= length given ->
  (byte_check_rtmr_loop n i given req = Ok tt <->
   Forall2 (fun r g => r = [] \/ (length r = n /\ r = g)) req (firstn (length req) (skipn i given))).
Proof.
  revert i; induction req as [|bs req IH]; intros i H; cbn [byte_check_rtmr_loop length].
  - cbn. split; constructor.
  - cbn [length] in H. unfold gnth.
    destruct (nth_error given i) eqn:E; [|apply nth_error_None in E; lia].
    cbn [bind].
    assert (Hs : skipn i given = b :: skipn (S i) given).
    { clear -E. revert given E; induction i as [|i IHi]; intros [|x g] E; cbn in *; try discriminate.
      - now inversion E.
      - now apply IHi. }
    rewrite Hs. cbn [firstn].
    split.
    + intro Hb. apply seq_ok_inv in Hb as [H1 H2].
      constructor; [now apply byte_check_ok|]. apply IH; [lia|exact H2].
    + intro Hf. inversion Hf; subst.
      match goal with Hx : _ \/ _ |- _ => apply byte_check_ok in Hx; rewrite Hx end. cbn [bind].
      apply IH; [lia|assumption].
Qed.

Lemma byte_check_rtmr_np n given req :
  length given = 4 -> byte_check_rtmr n given req <> Panic.
Proof.
  intro H. unfold byte_check_rtmr, perr.
  destruct (Nat.eqb (length req) 0); [discriminate|].
  destruct (Nat.eqb_spec (length req) validate_rtmrsCount_nat) as [E|E]; cbn [negb]; [|discriminate].
  apply rtmr_loop_np. unfold validate_rtmrsCount_nat in E. lia.
Qed.

(* ---- any loop ---- *)
Lemma any_loop_np n g l : byte_check_any_loop n g l <> Panic.
Proof.
  induction l as [|bs l IH]; cbn [byte_check_any_loop]; [discriminate|].
  pose proof (byte_check_np n g bs). destruct (byte_check n g bs); [discriminate|exact IH|contradiction].
Qed.

Lemma any_loop_ok n g l :
  byte_check_any_loop n g l = Ok tt <-> Exists (fun bs => bs = [] \/ (length bs = n /\ bs = g)) l.
Proof.
  induction l as [|bs l IH]; cbn [byte_check_any_loop].
  - split; [discriminate|intro H; inversion H].
  - pose proof (byte_check_np n g bs) as Hn. pose proof (byte_check_ok n g bs) as Ho.
    destruct (byte_check n g bs) as [[]| |]; [| |contradiction].
    + split; [intro; left; apply Ho; reflexivity|reflexivity].
    + rewrite IH. split; [intro; now right|].
      intro H. inversion H; subst; [|assumption].
      match goal with Hx : _ \/ _ |- _ => apply Ho in Hx; discriminate end.
Qed.

Lemma byte_check_any_np n g l : byte_check_any n g l <> Panic.
Proof. unfold byte_check_any. destruct (Nat.eqb (length l) 0); [discriminate|apply any_loop_np]. Qed.

(* ---- svn ---- *)
Lemma svn_ge_loop_np q m : length q <= length m -> svn_ge_loop q m <> Panic.
Proof.
  revert m; induction q as [|x q IH]; intros m H; cbn [svn_ge_loop]; [discriminate|].
  destruct m as [|y m]; [cbn in H; lia|].
  destruct (N.ltb (Byte.to_N x) (Byte.to_N y)); [discriminate|apply IH; cbn in H; lia].
Qed.

Lemma svn_ge_loop_ok q m : length q = length m ->
  (svn_ge_loop q m = Ok true <-> Forall2 (fun x y => (Byte.to_N y <= Byte.to_N x)%N) q m) /\
  (svn_ge_loop q m = Ok true \/ svn_ge_loop q m = Ok false).
Proof.
  revert m; induction q as [|x q IH]; intros [|y m] H; cbn in H; try lia; cbn [svn_ge_loop].
  - split; [split; constructor|auto].
  - destruct (N.ltb_spec (Byte.to_N x) (Byte.to_N y)) as [E|E].
    + split; [|auto]. split; [discriminate|]. intro Hf. inversion Hf; subst. lia.
    + destruct (IH m) as [I1 I2]; [lia|]. split; [|exact I2].
      rewrite I1. split; [intro; constructor; auto|intro Hf; inversion Hf; auto].
Qed.

(* ---- masks ---- *)
Definition mask_ok (fixed1 fixed0 v : N) : Prop :=
  (forall i, N.testbit fixed1 i = true -> N.testbit v i = true) /\
  (forall i, N.testbit v i = true -> N.testbit fixed0 i = true).

Lemma land_eq_iff v f : N.land v f = f <-> (forall i, N.testbit f i = true -> N.testbit v i = true).
Proof.
  split.
  - intros H i Hf. rewrite <- H in Hf. rewrite N.land_spec in Hf. now apply andb_true_iff in Hf.
  - intro H. apply N.bits_inj_iff. intro i. rewrite N.land_spec.
    destruct (N.testbit f i) eqn:E; [rewrite (H i E); reflexivity|apply andb_false_r].
Qed.

Lemma ldiff_zero_iff v f : N.ldiff v f = 0%N <-> (forall i, N.testbit v i = true -> N.testbit f i = true).
Proof.
  split.
  - intros H i Hv. assert (Hb : N.testbit (N.ldiff v f) i = false) by (rewrite H; apply N.bits_0).
    rewrite N.ldiff_spec, Hv in Hb. cbn in Hb. now apply negb_false_iff in Hb.
  - intro H. apply N.bits_inj_iff. intro i. rewrite N.ldiff_spec, N.bits_0.
    destruct (N.testbit v i) eqn:E; [rewrite (H i E); reflexivity|reflexivity].
Qed.

Lemma validate_mask_np n value f1 f0 : n = 8 -> validate_mask n value f1 f0 <> Panic.
Proof.
  intros ->. unfold validate_mask, perr, uint64_le.
  destruct (Nat.eqb (length value) 0); [discriminate|].
  destruct (Nat.eqb_spec (length value) 8) as [E|E]; cbn [negb]; [|discriminate].
  rewrite gslice_ok by lia. cbn [bind].
  repeat match goal with |- context [if ?c then _ else _] => destruct c end; discriminate.
Qed.

Lemma validate_mask_ok value f1 f0 : length value = 8 ->
  (validate_mask 8 value f1 f0 = Ok tt <-> mask_ok f1 f0 (le_decode value)).
Proof.
  intro H. unfold validate_mask, perr, uint64_le, mask_ok.
  rewrite H. cbn [Nat.eqb negb].
  rewrite gslice_ok by lia. cbn [bind]. rewrite <- H, slice_full.
  rewrite <- land_eq_iff, <- ldiff_zero_iff.
  destruct (N.eqb_spec (N.land (le_decode value) f1) f1) as [E1|E1]; cbn [negb].
  - destruct (N.eqb_spec (N.ldiff (le_decode value) f0) 0) as [E2|E2]; cbn [negb]; split; auto; try discriminate.
    intros [_ ?]; contradiction.
  - split; [discriminate|]. intros [? _]; contradiction.
Qed.

(* ---- the whole of validate ---- *)
Lemma check_quote_parts q : check_quote (Some q) = Ok tt ->
  exists h b, qHeader q = Some h /\ qBody q = Some b /\
              check_header (Some h) = Ok tt /\ check_body (Some b) = Ok tt.
Proof.
  cbn [check_quote]. intro H. apply seq_ok_inv in H as [Hh H]. apply seq_ok_inv in H as [Hb _].
  destruct (qHeader q) as [h|]; [|discriminate]. destruct (qBody q) as [b|]; [|discriminate]. eauto 6.
Qed.

Lemma exact_byte_match_np h b o : length (bRtmrs b) = 4 -> exact_byte_match h b o <> Panic.
Proof.
  intro H. unfold exact_byte_match. apply combine_np.
  repeat constructor; try apply byte_check_np; try apply byte_check_any_np.
  now apply byte_check_rtmr_np.
Qed.

Lemma min_version_check_np h b o :
  length (bTeeTcbSvn b) = 16 -> length (hQeSvn h) = 2 -> length (hPceSvn h) = 2 ->
  min_version_check h b o <> Panic.
Proof.
  intros Ht Hq Hp. unfold min_version_check, perr, svn_ge, uint16_le. unf.
  destruct (Nat.eqb_spec (length (ob (oMinTeeTcbSvn o))) 0) as [E0|E0]; cbn [negb andb bind].
  - rewrite !gslice_ok by lia. cbn [bind].
    repeat match goal with |- context [if ?c then _ else _] => destruct c end; discriminate.
  - destruct (Nat.eqb_spec (length (ob (oMinTeeTcbSvn o))) 16) as [E1|E1]; cbn [negb]; [|discriminate].
    destruct (svn_ge_loop_ok (bTeeTcbSvn b) (ob (oMinTeeTcbSvn o))) as [_ [Hs|Hs]]; [lia| |];
      rewrite Hs; cbn [bind negb]; [|discriminate].
    rewrite !gslice_ok by lia. cbn [bind].
    repeat match goal with |- context [if ?c then _ else _] => destruct c end; discriminate.
Qed.

Theorem validate_total q o : validate q o <> Panic.
Proof.
  unfold validate. destruct o as [o|]; [|discriminate].
  pose proof (check_quote_np q) as Hnp.
  destruct (check_quote q) as [[]| |] eqn:Hck; [|discriminate|contradiction].
  destruct q as [q|]; [|discriminate].
  destruct (check_quote_parts _ Hck) as (h & b & Hh & Hb & Ch & Cb).
  destruct q as [qh qb sds qs qe]. cbn [qHeader qBody] in Hh, Hb. subst qh qb.
  pose proof (check_header_inv _ Ch) as (_&_&_&L1&L2&_&_).
  pose proof (check_body_inv _ Cb) as (T&_&_&_&LA&LX&_&_&_&_&(r0&r1&r2&r3&Hr&_)&_).
  apply combine_np. repeat constructor.
  - apply exact_byte_match_np. now rewrite Hr.
  - now apply min_version_check_np.
  - now apply validate_mask_np.
  - now apply validate_mask_np.
Qed.

(* ---- declarative reading of the options ---- *)
Definition exp_eq (n : nat) (o g : bytes) : Prop := o = [] \/ (length o = n /\ o = g).

Definition expectations (h : header) (b : tdbody) (o : vopts) : Prop :=
  exp_eq 48 (ob (oMrSeam o)) (bMrSeam b) /\
  exp_eq 8 (ob (oTdAttr o)) (bTdAttr b) /\
  exp_eq 8 (ob (oXfam o)) (bXfam b) /\
  exp_eq 48 (ob (oMrTd o)) (bMrTd b) /\
  exp_eq 48 (ob (oMrConfigId o)) (bMrConfigId b) /\
  exp_eq 48 (ob (oMrOwner o)) (bMrOwner b) /\
  exp_eq 48 (ob (oMrOwnerConfig o)) (bMrOwnerConfig b) /\
  (oRtmrs o = [] \/ Forall2 (exp_eq 48) (oRtmrs o) (bRtmrs b)) /\
  (oAnyMrTd o = [] \/ Exists (fun e => exp_eq 48 e (bMrTd b)) (oAnyMrTd o)) /\
  exp_eq 64 (ob (oReportData o)) (bReportData b) /\
  exp_eq 16 (ob (oQeVendorId o)) (hVendor h) /\
  (ob (oMinTeeTcbSvn o) = [] \/
   Forall2 (fun x y => (Byte.to_N y <= Byte.to_N x)%N) (bTeeTcbSvn b) (ob (oMinTeeTcbSvn o))) /\
  (oMinQeSvn o <= le_decode (hQeSvn h))%N /\
  (oMinPceSvn o <= le_decode (hPceSvn h))%N /\
  mask_ok validate_xfamFixed1 validate_xfamFixed0 (le_decode (bXfam b)) /\
  mask_ok validate_tdAttributesFixed1 validate_tdAttributesFixed0 (le_decode (bTdAttr b)).

Lemma Forall2_length {A B} (R : A -> B -> Prop) l1 l2 : Forall2 R l1 l2 -> length l1 = length l2.
Proof. induction 1; cbn; congruence. Qed.

Lemma Forall_cons_iff' {A} (P : A -> Prop) x l : Forall P (x :: l) <-> P x /\ Forall P l.
Proof. split; [intro H; inversion H; auto|intros [? ?]; constructor; auto]. Qed.

Lemma byte_check_rtmr_ok given req : length given = 4 ->
  (byte_check_rtmr 48 given req = Ok tt <-> req = [] \/ Forall2 (exp_eq 48) req given).
Proof.
  intro H. unfold byte_check_rtmr, perr.
  destruct (Nat.eqb_spec (length req) 0) as [E|E].
  - apply length_0_nil in E. tauto.
  - destruct (Nat.eqb_spec (length req) validate_rtmrsCount_nat) as [E2|E2]; cbn [negb];
      unfold validate_rtmrsCount_nat in E2.
    + rewrite rtmr_loop_ok by lia. cbn [skipn]. rewrite E2, <- H, firstn_all.
      split; [auto|]. intros [->|Hf]; [cbn in E; lia|exact Hf].
    + split; [discriminate|]. intros [->|Hf]; [cbn in E; lia|].
      apply Forall2_length in Hf. lia.
Qed.

Lemma byte_check_any_ok g l :
  byte_check_any 48 g l = Ok tt <-> l = [] \/ Exists (fun e => exp_eq 48 e g) l.
Proof.
  unfold byte_check_any.
  destruct (Nat.eqb_spec (length l) 0) as [E|E].
  - apply length_0_nil in E. tauto.
  - rewrite any_loop_ok. split; [auto|]. intros [->|Hx]; [cbn in E; lia|exact Hx].
Qed.

Lemma min_version_check_ok h b o :
  length (bTeeTcbSvn b) = 16 -> length (hQeSvn h) = 2 -> length (hPceSvn h) = 2 ->
  (min_version_check h b o = Ok tt <->
   (ob (oMinTeeTcbSvn o) = [] \/
    Forall2 (fun x y => (Byte.to_N y <= Byte.to_N x)%N) (bTeeTcbSvn b) (ob (oMinTeeTcbSvn o))) /\
   (oMinQeSvn o <= le_decode (hQeSvn h))%N /\ (oMinPceSvn o <= le_decode (hPceSvn h))%N).
Proof.
  intros Ht Hq Hp. unfold min_version_check, perr, svn_ge, uint16_le. unf.
  set (m := ob (oMinTeeTcbSvn o)).
  assert (Htail : forall P : Prop,
    (P <-> True) ->
    ((qe <- (s <- gslice 0 2 (hQeSvn h);; Ok (le_decode s));;
      pce <- (s <- gslice 0 2 (hPceSvn h);; Ok (le_decode s));;
      (if (qe <? oMinQeSvn o)%N then Err EPolicy
       else if (pce <? oMinPceSvn o)%N then Err EPolicy else Ok tt)) = Ok tt <->
     P /\ (oMinQeSvn o <= le_decode (hQeSvn h))%N /\ (oMinPceSvn o <= le_decode (hPceSvn h))%N)).
  { intros P HP. rewrite !gslice_ok by lia. cbn [bind].
    rewrite <- Hq at 1. rewrite slice_full. rewrite <- Hp at 1. rewrite slice_full.
    destruct (N.ltb_spec (le_decode (hQeSvn h)) (oMinQeSvn o));
      [split; [discriminate|intros (_&?&_); lia]|].
    destruct (N.ltb_spec (le_decode (hPceSvn h)) (oMinPceSvn o));
      [split; [discriminate|intros (_&_&?); lia]|].
    split; [intros _; repeat split; [apply HP; exact I|lia|lia]|reflexivity]. }
  destruct (Nat.eqb_spec (length m) 0) as [E0|E0]; cbn [negb andb bind].
  - apply length_0_nil in E0. apply Htail. tauto.
  - destruct (Nat.eqb_spec (length m) 16) as [E1|E1]; cbn [negb].
    + destruct (svn_ge_loop_ok (bTeeTcbSvn b) m) as [I1 [Hs|Hs]]; [lia| |]; rewrite Hs; cbn [bind negb].
      * apply Htail. split; [auto|]. intros _. right. now apply I1.
      * split; [discriminate|]. intros ([Hm|Hf]&_&_).
        -- rewrite Hm in E0. cbn in E0. lia.
        -- apply I1 in Hf. congruence.
    + split; [discriminate|]. intros ([Hm|Hf]&_&_).
      * rewrite Hm in E0. cbn in E0. lia.
      * apply Forall2_length in Hf. lia.
Qed.

Theorem validate_iff q o h b :
  check_quote (Some q) = Ok tt -> qHeader q = Some h -> qBody q = Some b ->
  (validate (Some q) (Some o) = Ok tt <-> expectations h b o).
Proof.
  intros Hck Hh Hb. unfold validate. rewrite Hck.
  destruct (check_quote_parts _ Hck) as (h' & b' & Hh' & Hb' & Ch & Cb).
  rewrite Hh in Hh'. rewrite Hb in Hb'. inversion Hh'; inversion Hb'; subst h' b'. clear Hh' Hb'.
  destruct q as [qh qb sds qs qe]. cbn [qHeader qBody] in Hh, Hb. subst qh qb.
  pose proof (check_header_inv _ Ch) as (_&_&_&L1&L2&_&_).
  pose proof (check_body_inv _ Cb) as (T&_&_&_&LA&LX&_&_&_&_&(r0&r1&r2&r3&Hr&_)&_).
  assert (HR : length (bRtmrs b) = 4) by now rewrite Hr.
  rewrite combine_ok.
  2:{ repeat constructor; [now apply exact_byte_match_np|now apply min_version_check_np|
                           now apply validate_mask_np|now apply validate_mask_np]. }
  rewrite !Forall_cons_iff'.
  unfold exact_byte_match. rewrite combine_ok.
  2:{ repeat constructor; try apply byte_check_np; try apply byte_check_any_np. now apply byte_check_rtmr_np. }
  rewrite !Forall_cons_iff'. unf.
  rewrite !byte_check_ok, byte_check_rtmr_ok, byte_check_any_ok by exact HR.
  rewrite min_version_check_ok by assumption.
  rewrite !validate_mask_ok by assumption.
  unfold expectations, exp_eq.
  generalize (mask_ok validate_xfamFixed1 validate_xfamFixed0 (le_decode (bXfam b))).
  generalize (mask_ok validate_tdAttributesFixed1 validate_tdAttributesFixed0 (le_decode (bTdAttr b))).
  intros M2 M1.
  split; intro H;
    repeat match goal with Hc : _ /\ _ |- _ => destruct Hc end;
    repeat split; try assumption; constructor.
Qed.

(* ---- PolicyToOptions ---- *)
Lemma length_check_np n v : length_check n v <> Panic.
Proof. unfold length_check, oerr. destruct v; [destruct (Nat.eqb _ _)|]; discriminate. Qed.

Lemma length_check_many_np c n l : length_check_many c n l <> Panic.
Proof.
  unfold length_check_many, oerr. destruct (Nat.eqb (length l) 0); [discriminate|].
  apply seq_np.
  - destruct c; [destruct (Nat.eqb _ _)|]; discriminate.
  - match goal with |- context [if ?c then _ else _] => destruct c end; discriminate.
Qed.

Definition sized_opt (n : nat) (v : option bytes) : Prop :=
  match v with Some b => length b = n | None => True end.

Lemma length_check_ok n v : length_check n v = Ok tt <-> sized_opt n v.
Proof.
  unfold length_check, sized_opt, oerr. destruct v as [b|]; [|tauto].
  destruct (Nat.eqb_spec (length b) n); split; auto; try discriminate. intro; contradiction.
Qed.

Definition sized_list (count : option nat) (n : nat) (l : list bytes) : Prop :=
  l = [] \/ (match count with Some c => length l = c | None => True end /\
             Forall (fun e => e = [] \/ length e = n) l).

Lemma length_check_many_ok c n l : length_check_many c n l = Ok tt <-> sized_list c n l.
Proof.
  unfold length_check_many, sized_list, oerr.
  destruct (Nat.eqb_spec (length l) 0) as [E|E].
  - apply length_0_nil in E. tauto.
  - assert (Hne : l <> []) by (intro; subst; cbn in E; lia).
    assert (Hf : forallb (fun e => Nat.eqb (length e) 0 || Nat.eqb (length e) n) l = true <->
                 Forall (fun e => e = [] \/ length e = n) l).
    { rewrite forallb_forall, Forall_forall. split; intros H x Hx; specialize (H x Hx).
      - apply orb_true_iff in H as [H|H]; apply Nat.eqb_eq in H; [left; now apply length_0_nil|now right].
      - apply orb_true_iff. destruct H as [->|H]; [left; reflexivity|right; now apply Nat.eqb_eq]. }
    destruct c as [c|].
    + destruct (Nat.eqb_spec (length l) c) as [E2|E2]; cbn [bind].
      * match goal with |- context [if ?c then _ else _] => destruct c eqn:Ef end.
        -- split; [intros _; right; split; [exact E2|now apply Hf]|reflexivity].
        -- split; [discriminate|]. intros [?|[_ H]]; [contradiction|]. apply Hf in H. congruence.
      * split; [discriminate|]. intros [?|[H _]]; contradiction.
    + cbn [bind]. match goal with |- context [if ?c then _ else _] => destruct c eqn:Ef end.
      * split; [intros _; right; split; [exact I|now apply Hf]|reflexivity].
      * split; [discriminate|]. intros [?|[_ H]]; [contradiction|]. apply Hf in H. congruence.
Qed.

Definition options_sized (o : vopts) : Prop :=
  sized_opt 48 (oMrSeam o) /\ sized_opt 8 (oTdAttr o) /\ sized_opt 8 (oXfam o) /\ sized_opt 48 (oMrTd o) /\
  sized_opt 48 (oMrConfigId o) /\ sized_opt 48 (oMrOwner o) /\ sized_opt 48 (oMrOwnerConfig o) /\
  sized_opt 64 (oReportData o) /\ sized_opt 16 (oQeVendorId o) /\ sized_opt 16 (oMinTeeTcbSvn o) /\
  sized_list (Some 4) 48 (oRtmrs o) /\ sized_list None 48 (oAnyMrTd o).

Lemma check_options_lengths_np o : check_options_lengths o <> Panic.
Proof.
  unfold check_options_lengths. apply combine_np.
  repeat constructor; try apply length_check_np; apply length_check_many_np.
Qed.

Lemma check_options_lengths_ok o : check_options_lengths o = Ok tt <-> options_sized o.
Proof.
  unfold check_options_lengths. rewrite combine_ok.
  2:{ repeat constructor; try apply length_check_np; apply length_check_many_np. }
  rewrite !Forall_cons_iff'. unf. unfold validate_rtmrsCount_nat.
  rewrite !length_check_ok, !length_check_many_ok. unfold options_sized.
  split; intro H; repeat match goal with Hc : _ /\ _ |- _ => destruct Hc end;
    repeat split; try assumption; constructor.
Qed.

Lemma combine_err_class l c :
  Forall (fun r => r = Ok tt \/ r = Err c) l -> combine l = Ok tt \/ combine l = Err c.
Proof.
  induction 1 as [|r l Hr _ IH]; cbn [combine]; [auto|].
  destruct Hr as [->| ->]; [exact IH|]. destruct IH as [->| ->]; auto.
Qed.

Lemma length_check_cases n v : length_check n v = Ok tt \/ length_check n v = Err EOption.
Proof. unfold length_check, oerr. destruct v; [destruct (Nat.eqb _ _)|]; auto. Qed.

Lemma length_check_many_cases c n l :
  length_check_many c n l = Ok tt \/ length_check_many c n l = Err EOption.
Proof.
  unfold length_check_many, oerr. destruct (Nat.eqb (length l) 0); [auto|].
  destruct c as [c|]; [destruct (Nat.eqb (length l) c)|]; cbn [bind]; auto;
    match goal with |- context [if ?c then _ else _] => destruct c end; auto.
Qed.

Lemma check_options_lengths_cases o :
  check_options_lengths o = Ok tt \/ check_options_lengths o = Err EOption.
Proof.
  unfold check_options_lengths. apply combine_err_class.
  repeat (apply Forall_cons; [first [apply length_check_cases | apply length_check_many_cases]|]).
  apply Forall_nil.
Qed.

Theorem policy_to_options_np p : policy_to_options p <> Panic.
Proof.
  unfold policy_to_options.
  destruct (N.ltb 65535 (pMinQeSvn p)); [discriminate|].
  destruct (N.ltb 65535 (pMinPceSvn p)); [discriminate|].
  apply seq_np; [apply check_options_lengths_np|discriminate].
Qed.

(* conversion succeeds exactly when both SVN minima fit 16 bits and every
   byte-string expectation that is present has the right length *)
Theorem policy_to_options_ok p o :
  policy_to_options p = Ok o <->
  o = policy_options p /\ (pMinQeSvn p <= 65535)%N /\ (pMinPceSvn p <= 65535)%N /\
  options_sized (policy_options p).
Proof.
  unfold policy_to_options.
  destruct (N.ltb_spec 65535 (pMinQeSvn p)) as [E1|E1]; [split; [discriminate|intros (_&?&_); lia]|].
  destruct (N.ltb_spec 65535 (pMinPceSvn p)) as [E2|E2]; [split; [discriminate|intros (_&_&?&_); lia]|].
  split.
  - intro H. apply seq_ok_inv in H as [Hc H]. apply Ok_inj in H.
    apply check_options_lengths_ok in Hc. auto.
  - intros (-> & _ & _ & Hs). apply check_options_lengths_ok in Hs. rewrite Hs. reflexivity.
Qed.

Theorem policy_to_options_fails p :
  ~ ((pMinQeSvn p <= 65535)%N /\ (pMinPceSvn p <= 65535)%N /\ options_sized (policy_options p)) ->
  policy_to_options p = Err EOption.
Proof.
  intro Hn. unfold policy_to_options.
  destruct (N.ltb_spec 65535 (pMinQeSvn p)) as [E1|E1]; [reflexivity|].
  destruct (N.ltb_spec 65535 (pMinPceSvn p)) as [E2|E2]; [reflexivity|].
  destruct (check_options_lengths_cases (policy_options p)) as [H|H]; rewrite H; [|reflexivity].
  exfalso. apply Hn. apply check_options_lengths_ok in H. auto.
Qed.

(* what the policy message literally says about a quote *)
Definition policy_meaning (p : policy) (h : header) (b : tdbody) : Prop :=
  expectations h b
    {| oMinQeSvn := pMinQeSvn p; oMinPceSvn := pMinPceSvn p; oQeVendorId := pQeVendorId p;
       oMinTeeTcbSvn := pMinTeeTcbSvn p; oMrSeam := pMrSeam p; oTdAttr := pTdAttr p; oXfam := pXfam p;
       oMrTd := pMrTd p; oMrConfigId := pMrConfigId p; oMrOwner := pMrOwner p;
       oMrOwnerConfig := pMrOwnerConfig p; oRtmrs := pRtmrs p; oReportData := pReportData p;
       oAnyMrTd := pAnyMrTd p |}.

Theorem policy_meaning_preserved p o q h b :
  policy_to_options p = Ok o ->
  check_quote (Some q) = Ok tt -> qHeader q = Some h -> qBody q = Some b ->
  (validate (Some q) (Some o) = Ok tt <-> policy_meaning p h b) /\
  validate (Some q) (Some o) <> Panic.
Proof.
  intros Hp Hck Hh Hb. split; [|apply validate_total].
  apply policy_to_options_ok in Hp as (-> & H1 & H2 & _).
  rewrite (validate_iff _ _ _ _ Hck Hh Hb).
  unfold policy_meaning, policy_options, expectations.
  cbn [oMinQeSvn oMinPceSvn oQeVendorId oMinTeeTcbSvn oMrSeam oTdAttr oXfam oMrTd oMrConfigId oMrOwner oMrOwnerConfig oRtmrs oReportData oAnyMrTd].
  rewrite !N.mod_small by lia. reflexivity.
Qed.
