(* verify.TdxQuote / RawTdxQuote return for every world, message and option set. *)
From V Require Import Model.Verify Model.Strs Proofs.Abi Proofs.Tcb Proofs.Verify Gen.AbiConsts.
From Coq Require Import ZifyN ZifyNat ZifyBool.

Lemma ora_np {V} k (t : list (bytes * V)) : ora k t <> Panic.
Proof. unfold ora, oracle_miss. destruct (lookup k t); discriminate. Qed.

Lemma reclass_np {A} c (r : res A) : r <> Panic -> reclass c r <> Panic.
Proof. destruct r; cbn; intro H; [discriminate|discriminate|contradiction]. Qed.

Lemma ecdsa_ok_np w k m s : ecdsa_ok w k m s <> Panic.
Proof.
  unfold ecdsa_ok, oracle_miss. induction (wEcdsa w) as [|[[[k' m'] s'] r] t IH]; [discriminate|].
  destruct (bytes_eqb k' k && bytes_eqb m' m && bytes_eqb s' s); [discriminate|exact IH].
Qed.

Ltac np1 :=
  match goal with
  | |- Ok _ <> Panic => discriminate
  | |- Err _ <> Panic => discriminate
  | |- ferr <> Panic => discriminate
  | |- cerr <> Panic => discriminate
  | |- rerr <> Panic => discriminate
  | |- xerr <> Panic => discriminate
  | |- aerr <> Panic => discriminate
  | |- oracle_miss <> Panic => discriminate
  | |- ora _ _ <> Panic => apply ora_np
  | |- ecdsa_ok _ _ _ _ <> Panic => apply ecdsa_ok_np
  | |- reclass _ _ <> Panic => apply reclass_np
  | |- (_ ;; _) <> Panic => apply seq_np
  | |- bind _ _ <> Panic => apply bind_nopanic; [|intros ? ?]
  | |- (if ?c then _ else _) <> Panic => destruct c
  | |- match ?x with _ => _ end <> Panic => destruct x
  end.
Ltac np := repeat np1.

Lemma header_to_issuer_chain_np w h p : header_to_issuer_chain w h p <> Panic.
Proof. unfold header_to_issuer_chain. np. Qed.

Lemma fret_fst {A} (r : res A) : fst (fret r) = r.
Proof. reflexivity. Qed.

Lemma fbind_np {A B} (m : fetching A) (k : A -> fetching B) :
  fst m <> Panic -> (forall a, fst m = Ok a -> fst (k a) <> Panic) -> fst (fbind m k) <> Panic.
Proof.
  unfold fbind. intros H1 H2. destruct (fst m) eqn:E; cbn [fst]; [now apply H2|discriminate|contradiction].
Qed.

Lemma get_tcb_info_np w f : fst (get_tcb_info w f) <> Panic.
Proof.
  unfold get_tcb_info. apply fbind_np; [cbn; discriminate|]. intros r _. rewrite fret_fst.
  destruct r; [|discriminate]. np; apply header_to_issuer_chain_np.
Qed.

Lemma get_qe_identity_np w : fst (get_qe_identity w) <> Panic.
Proof.
  unfold get_qe_identity. apply fbind_np; [cbn; discriminate|]. intros r _. rewrite fret_fst.
  destruct r; [|discriminate]. np; apply header_to_issuer_chain_np.
Qed.

Lemma get_pck_crl_np w ca : fst (get_pck_crl w ca) <> Panic.
Proof.
  unfold get_pck_crl. apply fbind_np; [cbn; discriminate|]. intros r _. rewrite fret_fst.
  destruct r; [|discriminate]. np; apply header_to_issuer_chain_np.
Qed.

Lemma get_root_crl_loop_np w urls : fst (get_root_crl_loop w urls) <> Panic.
Proof.
  induction urls as [|u r IH]; cbn [get_root_crl_loop]; [cbn; discriminate|].
  apply fbind_np; [cbn; discriminate|]. intros a _. destruct a as [rsp|]; [|exact IH].
  pose proof (ora_np (rspBody rsp) (wCrl w)) as Ho.
  destruct (ora (rspBody rsp) (wCrl w)) as [[c|]| |]; cbn; try discriminate; [exact IH|contradiction].
Qed.

Lemma get_root_crl_np w c : fst (get_root_crl w c) <> Panic.
Proof. unfold get_root_crl. destruct (Nat.eqb _ 0); [cbn; discriminate|apply get_root_crl_loop_np]. Qed.

Lemma obtain_collateral_np w f ca o : fst (obtain_collateral w f ca o) <> Panic.
Proof.
  unfold obtain_collateral.
  apply fbind_np; [apply get_tcb_info_np|intros t _].
  apply fbind_np; [apply get_qe_identity_np|intros q _].
  destruct t as [[[[[ti tsig] traw] tzero] tsigner] troot].
  destruct q as [[[[[qi qsig] qraw] qzero] qsigner] qroot].
  destruct (optCheckRevocations o); [|cbn; discriminate].
  apply fbind_np; [apply get_pck_crl_np|intros p _].
  apply fbind_np; [apply get_root_crl_np|intros rc _].
  destruct p as [[pc ps] pr]. cbn. discriminate.
Qed.

(* revocation material is complete whenever it was asked for *)
Lemma obtain_collateral_crls w f ca o c :
  fst (obtain_collateral w f ca o) = Ok c -> optCheckRevocations o = true ->
  exists pc rc, colPckCrl c = Some pc /\ colRootCrl c = Some rc.
Proof.
  unfold obtain_collateral. intros H Hr.
  apply fbind_ok in H as (t & Ht & H). apply fbind_ok in H as (q & Hq & H).
  destruct t as [[[[[ti tsig] traw] tzero] tsigner] troot].
  destruct q as [[[[[qi qsig] qraw] qzero] qsigner] qroot].
  rewrite Hr in H.
  apply fbind_ok in H as (p & Hp & H). apply fbind_ok in H as (rc & Hrc & H).
  destruct p as [[pc ps] pr]. cbn in H. apply Ok_inj in H. subst c. cbn. eauto.
Qed.

Lemma extract_chain_np w q : extract_chain w q <> Panic.
Proof. unfold extract_chain. np. Qed.

Lemma validate_certificate_np w c p ph : validate_certificate w c p ph <> Panic.
Proof. unfold validate_certificate. np. Qed.

Lemma validate_crl_np c t : validate_crl c t <> Panic.
Proof. unfold validate_crl. np. Qed.

Lemma verify_pck_chain_np w ch col o now wall :
  (optGetCollateral o = true -> col <> None) -> verify_pck_chain w ch col o now wall <> Panic.
Proof.
  intro Hc. unfold verify_pck_chain.
  apply seq_np; [apply validate_certificate_np|]. apply seq_np; [apply validate_certificate_np|].
  apply seq_np; [apply validate_certificate_np|]. apply seq_np; [np|].
  apply seq_np; [|np].
  destruct (optCheckRevocations o); [|discriminate].
  destruct (optGetCollateral o); [|discriminate].
  destruct col as [c|]; [|exfalso; now apply Hc].
  apply seq_np; [apply validate_crl_np|]. apply seq_np; [apply validate_crl_np|]. np.
Qed.

Lemma verify_collateral_np col o now : verify_collateral col o now <> Panic.
Proof. unfold verify_collateral. np. Qed.

Lemma verify_response_np w root signer raw sg rc o t wall :
  verify_response w root signer raw sg rc o t wall <> Panic.
Proof.
  unfold verify_response.
  apply seq_np; [apply reclass_np, validate_certificate_np|].
  apply seq_np; [apply reclass_np, validate_certificate_np|].
  apply seq_np; [np|].
  apply bind_nopanic; [apply ora_np|intros h _]. destruct h; [|discriminate].
  destruct (negb _); [discriminate|].
  apply bind_nopanic; [apply ecdsa_ok_np|intros v _].
  destruct (negb v); [discriminate|].
  destruct (optCheckRevocations o); [|discriminate]. destruct (optGetCollateral o); [|discriminate].
  apply seq_np; [apply validate_crl_np|]. np.
Qed.

Lemma verify_tcb_info_np w c o now wall : verify_tcb_info w c o now wall <> Panic.
Proof.
  unfold verify_tcb_info. destruct (negb _); [discriminate|]. destruct (negb _); [discriminate|].
  destruct (Nat.eqb _ 0); [discriminate|]. apply verify_response_np.
Qed.
Lemma verify_qe_identity_np w c o now wall : verify_qe_identity w c o now wall <> Panic.
Proof.
  unfold verify_qe_identity. destruct (negb _); [discriminate|]. destruct (negb _); [discriminate|].
  destruct (Nat.eqb _ 0); [discriminate|]. apply verify_response_np.
Qed.

Lemma verify_quote_sigs_np w q leaf : verify_quote_sigs w q leaf <> Panic.
Proof.
  unfold verify_quote_sigs.
  destruct (negb _); [discriminate|].
  apply bind_nopanic; [apply ora_np|intros oc _]. destruct (negb oc); [discriminate|].
  destruct (negb _); [discriminate|].
  apply bind_nopanic; [apply reclass_np, ser_header_np|intros hb _].
  apply bind_nopanic; [apply reclass_np, ser_body_np|intros bb _].
  apply bind_nopanic; [apply ecdsa_ok_np|intros v _]. destruct (negb v); [discriminate|].
  destruct (quote_qercd q) as [qe|]; [|discriminate].
  apply bind_nopanic; [apply reclass_np, ser_report_np|intros rb _].
  destruct (negb _); [discriminate|].
  apply bind_nopanic; [apply ecdsa_ok_np|intros v2 _]. destruct (negb v2); [discriminate|].
  apply bind_nopanic; [apply ora_np|intros d _]. destruct (bytes_eqb _ _); discriminate.
Qed.

(* what CheckQuoteV4 guarantees about the parts verifyQuote dereferences *)
Lemma check_quote_shape q : check_quote (Some q) = Ok tt ->
  exists b qe r, qBody q = Some b /\ quote_qercd q = Some qe /\ qReport qe = Some r /\
                 length (bTeeTcbSvn b) = 16.
Proof.
  cbn [check_quote]. intro H.
  apply seq_ok_inv in H as [_ H]. apply seq_ok_inv in H as [Hb Hs].
  destruct (qBody q) as [b|] eqn:Eb; [|discriminate].
  pose proof (check_body_inv _ Hb) as (Lt & _).
  unfold quote_qercd.
  destruct (qSigned q) as [s|]; [|discriminate]. cbn [check_signed] in Hs.
  apply chk_ok_inv in Hs as [_ Hs]. apply chk_ok_inv in Hs as [_ Hs].
  destruct (sCert s) as [c|]; [|discriminate]. cbn [check_certdata] in Hs.
  apply chk_ok_inv in Hs as [_ Hs]. apply chk_ok_inv in Hs as [_ Hs].
  destruct (cQercd c) as [qe|]; [|discriminate]. cbn [check_qercd] in Hs.
  apply seq_ok_inv in Hs as [Hr _].
  destruct (qReport qe) as [r|] eqn:Er; [|discriminate].
  exists b, qe, r. auto.
Qed.

Lemma verify_quote_np w q ch col ext :
  check_quote (Some q) = Ok tt -> verify_quote w q ch col ext <> Panic.
Proof.
  intro Hck. unfold verify_quote. apply seq_np; [apply verify_quote_sigs_np|].
  destruct col as [c|]; [|discriminate].
  destruct (check_quote_shape _ Hck) as (b & qe & r & -> & -> & Hr & Lt).
  apply seq_np; [now apply verify_td_body_np|]. rewrite Hr. apply verify_qe_report_np.
Qed.

Lemma verify_evidence_np w q ch col ext o now wall :
  check_quote (Some q) = Ok tt -> (optGetCollateral o = true -> col <> None) ->
  verify_evidence w q ch col ext o now wall <> Panic.
Proof.
  intros Hck Hc. unfold verify_evidence.
  apply seq_np; [np|]. apply seq_np; [now apply verify_pck_chain_np|].
  apply seq_np; [|now apply verify_quote_np].
  destruct (optGetCollateral o); [|discriminate].
  apply seq_np; [apply verify_collateral_np|].
  destruct col as [c|]; [|exfalso; now apply Hc].
  apply seq_np; [apply verify_tcb_info_np|apply verify_qe_identity_np].
Qed.

Lemma extract_ca_np leaf : extract_ca leaf <> Panic.
Proof. unfold extract_ca. np. Qed.

Theorem verify_np w q o wall : fst (verify w q o wall) <> Panic.
Proof.
  unfold verify. destruct o as [o|]; [|cbn; discriminate]. unfold verify_v4.
  pose proof (check_quote_np q) as Hn.
  destruct (check_quote q) as [[]| |] eqn:Hck; [|cbn; discriminate|contradiction].
  destruct q as [qq|]; [|cbn; discriminate].
  pose proof (extract_chain_np w qq) as Hx.
  destruct (extract_chain w qq) as [ch| |]; [|cbn; discriminate|contradiction].
  destruct (cPckExt (chLeaf ch)) as [ext|] eqn:Hext; [|cbn; discriminate].
  destruct (optGetCollateral o) eqn:Hg.
  - pose proof (extract_ca_np (chLeaf ch)) as Hca.
    destruct (extract_ca (chLeaf ch)) as [ca| |]; [|cbn; discriminate|contradiction].
    apply fbind_np; [apply obtain_collateral_np|]. intros c _. rewrite fret_fst.
    apply verify_evidence_np; [exact Hck|discriminate].
  - rewrite fret_fst. apply verify_evidence_np; [exact Hck|]. rewrite Hg. discriminate.
Qed.

Theorem verify_raw_np w raw o wall : fst (verify_raw w raw o wall) <> Panic.
Proof.
  unfold verify_raw. pose proof (parse_np raw) as Hp.
  destruct (parse raw); [apply verify_np|cbn; discriminate|contradiction].
Qed.
