(* The tables the translator recovered from abi.go equal the specification's
   (each wherever the translator could read the function: see Lib/Tie.v). *)
From V Require Import Lib.Tie Model.AbiSpec Gen.AbiTables.
From Coq Require Import String.

Lemma header_tables_ok :
  tied header_parse_table_readable header_parse_table spec_header_table /\
  tied header_ser_table_readable header_ser_table spec_header_table /\
  tied header_ser_table_readable header_ser_size "48"%string /\
  tied header_check_table_readable header_check_table spec_header_checks.
Proof. repeat split; tie. Qed.

Lemma body_tables_ok :
  tied body_parse_table_readable body_parse_table spec_body_parse_table /\
  tied body_ser_table_readable body_ser_table spec_body_ser_table /\
  tied body_ser_table_readable body_ser_size "584"%string /\
  tied body_check_table_readable body_check_table spec_body_checks.
Proof. repeat split; tie. Qed.

Lemma report_tables_ok :
  tied report_parse_table_readable report_parse_table spec_report_table /\
  tied report_ser_table_readable report_ser_table spec_report_table /\
  tied report_ser_table_readable report_ser_size "384"%string /\
  tied report_check_table_readable report_check_table spec_report_checks.
Proof. repeat split; tie. Qed.

Lemma tail_tables_ok :
  tied signed_parse_table_readable signed_parse_table spec_signed_table /\
  tied signed_check_table_readable signed_check_table spec_signed_checks /\
  tied certdata_parse_table_readable certdata_parse_table spec_certdata_table /\
  tied certdata_check_table_readable certdata_check_table spec_certdata_checks /\
  tied qercd_parse_table_readable qercd_parse_table spec_qercd_table /\
  tied qercd_check_table_readable qercd_check_table spec_qercd_checks /\
  tied auth_parse_table_readable auth_parse_table spec_auth_table /\
  tied auth_check_table_readable auth_check_table spec_auth_checks /\
  tied pck_parse_table_readable pck_parse_table spec_pck_table /\
  tied pck_check_table_readable pck_check_table spec_pck_checks /\
  tied quote_parse_table_readable quote_parse_table spec_quote_table /\
  tied quote_check_table_readable quote_check_table spec_quote_checks.
Proof. repeat split; tie. Qed.
