(* The tables the translator recovered from abi.go equal the specification's. *)
From V Require Import Model.AbiSpec Gen.AbiTables.
From Coq Require Import String.

Lemma header_tables_ok :
  header_parse_table = spec_header_table /\ header_ser_table = spec_header_table /\
  header_ser_size = "48"%string /\ header_check_table = spec_header_checks.
Proof. repeat split; reflexivity. Qed.

Lemma body_tables_ok :
  body_parse_table = spec_body_parse_table /\ body_ser_table = spec_body_ser_table /\
  body_ser_size = "584"%string /\ body_check_table = spec_body_checks.
Proof. repeat split; reflexivity. Qed.

Lemma report_tables_ok :
  report_parse_table = spec_report_table /\ report_ser_table = spec_report_table /\
  report_ser_size = "384"%string /\ report_check_table = spec_report_checks.
Proof. repeat split; reflexivity. Qed.

Lemma tail_tables_ok :
  signed_parse_table = spec_signed_table /\ signed_check_table = spec_signed_checks /\
  certdata_parse_table = spec_certdata_table /\ certdata_check_table = spec_certdata_checks /\
  qercd_parse_table = spec_qercd_table /\ qercd_check_table = spec_qercd_checks /\
  auth_parse_table = spec_auth_table /\ auth_check_table = spec_auth_checks /\
  pck_parse_table = spec_pck_table /\ pck_check_table = spec_pck_checks /\
  quote_parse_table = spec_quote_table /\ quote_check_table = spec_quote_checks.
Proof. repeat split; reflexivity. Qed.
