#!/bin/bash
# MANIFEST.setup_cmd: builds the framework from files on disk only (offline).
set -u
. "$(dirname "${BASH_SOURCE[0]}")/env.sh"
cd "$VERIF_DIR"
exec 9> .lock
flock 9
./build.sh
cat .work/build.status
if [ -s .work/build.status ]; then
  echo "setup: build problems (see .work/*.log)"; tail -30 .work/coq.log; tail -20 .work/harness.log .work/ocaml.log 2>/dev/null
  exit 1
fi
echo "setup: ok"
