#!/bin/bash
# Rebuilds everything that depends on /repo's working tree: translator output,
# Coq development, extracted model, harness binary.  Incremental.  Prints
# nothing on success; build problems are recorded in .work/build.status and are
# interpreted per property by check.sh.
set -u
. "$(dirname "${BASH_SOURCE[0]}")/env.sh"
cd "$VERIF_DIR"
mkdir -p .work coq/Gen ocaml/gen
STATUS=.work/build.status
: > $STATUS

# 1. translator
if [ ! -x tools/gotrans/gotrans ] || [ -n "$(find tools/gotrans -name '*.go' -newer tools/gotrans/gotrans 2>/dev/null)" ]; then
  (cd tools/gotrans && go build -o gotrans.tmp . && mv gotrans.tmp gotrans) || echo "translator-build-failed" >> $STATUS
fi
if ! tools/gotrans/gotrans -repo "$VERIF_REPO" -out coq/Gen > .work/gotrans.log 2>&1; then
  echo "translator-failed: $(tail -1 .work/gotrans.log)" >> $STATUS
fi

# 2. Coq (full .vo build, never -vos), every coqc under a timeout
cd coq
if [ ! -f Makefile ] || [ _CoqProject -nt Makefile ]; then
  coq_makefile -f _CoqProject -o Makefile > /dev/null 2>&1
fi
TIMECMD= timeout 3000 make -k -j16 > ../.work/coq.log 2>&1 || echo "coq-build-incomplete" >> ../$STATUS
cd ..

# 3. extraction + driver (only needs Lib/Gen/Model/Wire)
need=0
[ -x ocaml/modelrun ] || need=1
if [ $need = 0 ] && [ -n "$(find coq/Lib coq/Gen coq/Model coq/Wire coq/Extract ocaml/modelrun.ml ocaml/entries.ml -newer ocaml/modelrun \( -name '*.vo' -o -name 'Extract.v' -o -name '*.ml' \) 2>/dev/null | head -1)" ]; then need=1; fi
if [ $need = 1 ]; then
  if ! ocaml/build.sh > .work/ocaml.log 2>&1; then
    echo "extraction-failed" >> $STATUS
    rm -f ocaml/modelrun
  fi
fi

# 4. harness against /repo's working tree
cp "$VERIF_REPO/go.sum" harness/go.sum 2>/dev/null
if ! (cd harness && go build -o verifcheck.tmp . && mv verifcheck.tmp verifcheck) > .work/harness.log 2>&1; then
  echo "harness-build-failed" >> $STATUS
  rm -f harness/verifcheck
fi
# 5. the -race build of the concurrency stress (C16)
if ! (cd harness && go build -race -o verifrace.tmp ./racecheck && mv verifrace.tmp verifrace) >> .work/harness.log 2>&1; then
  echo "race-build-failed" >> $STATUS
  rm -f harness/verifrace
fi
exit 0
