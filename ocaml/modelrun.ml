(* Driver for the extracted model: reads one case per line
     <entry> <sexp>
   and prints the resulting sexp on one line.  Syntax: hex numbers, #hex byte
   strings, ( ... ) lists.  All decoding of a case into model values and all
   model logic is extracted Gallina (Model); this file only tokenises. *)
type positive = Model.positive = XI of positive | XO of positive | XH
type n = Model.n = N0 | Npos of positive
type byte = Model.byte
type sexp = Model.sexp = A of n | B of byte list | L of sexp list
let byte_of_N_opt = Model.byte_of_N_opt
let byte_to_N = Model.byte_to_N

let byte_tab : byte array =
  Array.init 256 (fun i ->
    let rec pos_of_int k = if k = 1 then XH else
        if k land 1 = 1 then XI (pos_of_int (k lsr 1)) else XO (pos_of_int (k lsr 1)) in
    let n = if i = 0 then N0 else Npos (pos_of_int i) in
    match byte_of_N_opt n with Some b -> b | None -> failwith "byte_tab")

let int_of_byte (b : byte) : int =
  let rec int_of_pos = function XH -> 1 | XO p -> 2 * int_of_pos p | XI p -> 2 * int_of_pos p + 1 in
  match byte_to_N b with N0 -> 0 | Npos p -> int_of_pos p

let hexval c = match c with
  | '0'..'9' -> Char.code c - 48
  | 'a'..'f' -> Char.code c - 87
  | 'A'..'F' -> Char.code c - 55
  | _ -> failwith "bad hex digit"

(* number from hex digits s.[i..j) *)
let n_of_hex (s : string) (i : int) (j : int) : n =
  let acc = ref None in
  for k = i to j - 1 do
    let d = hexval s.[k] in
    for bit = 3 downto 0 do
      let b = (d lsr bit) land 1 in
      acc := (match !acc with
              | None -> if b = 1 then Some XH else None
              | Some p -> Some (if b = 1 then XI p else XO p))
    done
  done;
  match !acc with None -> N0 | Some p -> Npos p

let hex_of_n (x : n) : string =
  match x with
  | N0 -> "0"
  | Npos p ->
    (* collect bits LSB first *)
    let bits = Buffer.create 64 in
    let rec go = function
      | XH -> Buffer.add_char bits '1'
      | XO q -> Buffer.add_char bits '0'; go q
      | XI q -> Buffer.add_char bits '1'; go q in
    go p;
    let nb = Buffer.length bits in
    let nd = (nb + 3) / 4 in
    let out = Bytes.make nd '0' in
    for d = 0 to nd - 1 do
      let v = ref 0 in
      for b = 3 downto 0 do
        let idx = d * 4 + b in
        v := !v * 2 + (if idx < nb && Buffer.nth bits idx = '1' then 1 else 0)
      done;
      Bytes.set out (nd - 1 - d) "0123456789abcdef".[!v]
    done;
    Bytes.to_string out

let parse (s : string) (start : int) : sexp * int =
  let len = String.length s in
  let rec skip i = if i < len && (s.[i] = ' ' || s.[i] = '\t') then skip (i + 1) else i in
  let rec item i =
    let i = skip i in
    if i >= len then failwith "unexpected end" else
    match s.[i] with
    | '(' ->
      let rec items i acc =
        let i = skip i in
        if i >= len then failwith "unclosed list" else
        if s.[i] = ')' then (L (List.rev acc), i + 1)
        else let (x, j) = item i in items j (x :: acc) in
      items (i + 1) []
    | '#' ->
      let j = ref (i + 1) in
      while !j < len && s.[!j] <> ' ' && s.[!j] <> ')' && s.[!j] <> '(' do incr j done;
      let n = (!j - i - 1) / 2 in
      let rec build k acc =
        if k < 0 then acc else
        let v = hexval s.[i + 1 + 2 * k] * 16 + hexval s.[i + 2 + 2 * k] in
        build (k - 1) (byte_tab.(v) :: acc) in
      (B (build (n - 1) []), !j)
    | _ ->
      let j = ref i in
      while !j < len && s.[!j] <> ' ' && s.[!j] <> ')' && s.[!j] <> '(' do incr j done;
      (A (n_of_hex s i !j), !j) in
  item start

let rec print (b : Buffer.t) (x : sexp) : unit =
  match x with
  | A v -> Buffer.add_string b (hex_of_n v)
  | B l ->
    Buffer.add_char b '#';
    List.iter (fun y -> Buffer.add_string b (Printf.sprintf "%02x" (int_of_byte y))) l
  | L l ->
    Buffer.add_char b '(';
    List.iteri (fun i y -> if i > 0 then Buffer.add_char b ' '; print b y) l;
    Buffer.add_char b ')'

let () =
  let buf = Buffer.create 65536 in
  try
    while true do
      let line = input_line stdin in
      if String.length line > 0 then begin
        let sp = try String.index line ' ' with Not_found -> String.length line in
        let name = String.sub line 0 sp in
        let result =
          try
            let (arg, _) = parse line sp in
            (match List.assoc_opt name Entries.table with
             | Some f -> f arg
             | None -> L [A (n_of_hex "ff" 0 2)])
          with Failure m -> (prerr_endline ("modelrun: " ^ m); L [A (n_of_hex "fe" 0 2)])
             | Stack_overflow -> (prerr_endline "modelrun: stack overflow"; L [A (n_of_hex "fd" 0 2)]) in
        Buffer.clear buf;
        print buf result;
        print_string (Buffer.contents buf);
        print_newline ()
      end
    done
  with End_of_file -> ()
