(* name -> extracted entry point *)
let table : (string * (Model.sexp -> Model.sexp)) list = [
  ("C15", Model.run_C15);
  ("abi", Model.run_abi);
  ("val", Model.run_val);
  ("ver", Model.run_verify);
  ("rtmr", Model.run_rtmr);
  ("retry", Model.run_retry);
  ("pck", Model.run_pck);
  ("heap", Model.run_heap);
  ("ccel", Model.run_ccel);
  ("tool", Model.run_checktool);
]
