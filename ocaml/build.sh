#!/bin/sh
# builds ocaml/modelrun from coq/Extract/Extract.v (run after the Coq build)
set -e
cd "$(dirname "$0")"
mkdir -p gen
(cd gen && coqc -Q ../../coq V ../../coq/Extract/Extract.v >/dev/null && rm -f ../../coq/Extract/Extract.vo ../../coq/Extract/Extract.glob ../../coq/Extract/.Extract.aux ../../coq/Extract/Extract.vok ../../coq/Extract/Extract.vos)
ocamlfind ocamlopt -O3 -w -a -I gen gen/model.mli gen/model.ml entries.ml modelrun.ml -o modelrun 2>/dev/null || \
ocamlfind ocamlopt -w -a -I gen gen/model.mli gen/model.ml entries.ml modelrun.ml -o modelrun
rm -f *.cmi *.cmx *.o gen/*.cmi gen/*.cmx gen/*.o
