# shared environment for setup.sh / check.sh
export GOFLAGS=-mod=mod GOPROXY=off GOSUMDB=off GOTOOLCHAIN=local
export VERIF_DIR="$(cd "$(dirname "${BASH_SOURCE[0]}")" && pwd)"
export VERIF_REPO="${VERIF_REPO:-/repo}"
