#!/bin/bash
# ./check.sh Cxx quick|thorough            run the check of one property
# ./check.sh Cxx replay <file>             re-run one recorded case
set -u
. "$(dirname "${BASH_SOURCE[0]}")/env.sh"
cd "$VERIF_DIR"
PROP="${1:?property id}"
MODE="${2:-${VERIF_TIER:-quick}}"
export VERIF_WORK="$VERIF_DIR/.work/$PROP"
mkdir -p "$VERIF_WORK"

# --- build phase (serialised) ------------------------------------------------
exec 9> .lock
flock 9
./build.sh
BUILD_STATUS="$(cat .work/build.status)"

# gate: no axioms / admits / kernel switches anywhere in the development
GATE="$(grep -rnE 'Admitted|admit\b|Axiom|Parameter|Conjecture|Unset Guard|bypass_check|type-in-type|impredicative-set|Admit Obligations' coq --include='*.v' | grep -v '^coq/Gen/' | head -5)"

PROOF_STATUS=ok
PFILE="coq/Properties/$PROP.v"
if [ ! -f "$PFILE" ]; then
  PROOF_STATUS="broken: no property file $PFILE"
fi
# cone of the property file (transitive dependencies within the project)
CONE="$(python3 tools/cone.py coq "Properties/$PROP.v" 2>/dev/null)"
if [ "$PROOF_STATUS" = ok ]; then
  # is the property's .vo up to date with everything it depends on?
  if ! (cd coq && make -q "Properties/$PROP.vo" > /dev/null 2>&1); then
    # find the first failing file of the cone in the build log
    FAIL=""
    for f in $CONE; do
      if grep -q "File \"./$f\"" .work/coq.log 2>/dev/null; then FAIL="$f"; break; fi
    done
    if [ -n "$FAIL" ]; then
      LINE="$(grep -m1 "File \"./$FAIL\"" .work/coq.log | sed -E 's/.*line ([0-9]+).*/\1/')"
      THM="$(head -n "${LINE:-1}" "coq/$FAIL" | grep -E '^(Theorem|Lemma|Example|Corollary|Definition|Fixpoint) ' | tail -1 | awk '{print $2}')"
      PROOF_STATUS="broken: $FAIL:${LINE:-?} ${THM:-?}: $(grep -A3 -m1 "File \"./$FAIL\"" .work/coq.log | tail -n +2 | tr '\n' ' ' | cut -c1-300)"
    else
      PROOF_STATUS="broken: Properties/$PROP.vo not built ($BUILD_STATUS)"
    fi
  fi
fi
ASSUM=""
if [ "$PROOF_STATUS" = ok ]; then
  # re-check the property file itself and capture Print Assumptions
  if ! ASSUM="$(cd coq && timeout 600 coqc -Q . V "Properties/$PROP.v" 2>&1)"; then
    PROOF_STATUS="broken: Properties/$PROP.v: $(echo "$ASSUM" | tr '\n' ' ' | cut -c1-300)"
  fi
  if echo "$ASSUM" | grep -q "Axioms:"; then
    PROOF_STATUS="broken: Properties/$PROP.v depends on axioms: $(echo "$ASSUM" | tr '\n' ' ' | cut -c1-300)"
  fi
fi
if [ -n "$GATE" ]; then
  PROOF_STATUS="broken: forbidden declaration in development: $(echo "$GATE" | head -1)"
fi
# thorough tier: the independent checker on the property's compiled file and all it depends on
export VERIF_COQCHK=""
if [ "$MODE" = thorough ] && [ "$PROOF_STATUS" = ok ]; then
  CHK="$(cd coq && timeout 7200 coqchk -silent -o -Q . V "V.Properties.$PROP" 2>&1)"; CRC=$?
  SUMMARY="$(echo "$CHK" | sed -n '/CONTEXT SUMMARY/,$p' | grep -v '^ *$' | tr '\n' ' ' | cut -c1-600)"
  if [ $CRC -ne 0 ]; then
    PROOF_STATUS="broken: coqchk rejects Properties/$PROP.vo: $(echo "$CHK" | tail -5 | tr '\n' ' ' | cut -c1-300)"
  elif ! echo "$CHK" | grep -q "Axioms: <none>"; then
    PROOF_STATUS="broken: coqchk reports axioms: $SUMMARY"
  fi
  export VERIF_COQCHK="coqchk -silent -o: $SUMMARY"
fi
case "$BUILD_STATUS" in *translator*) [ "$PROOF_STATUS" = ok ] && PROOF_STATUS="broken: $BUILD_STATUS";; esac

OBL=0; DIS=0
for f in $CONE; do
  case "$f" in Proofs/*|Properties/*|Golden/*)
    n=$(grep -cE '^(Theorem|Lemma|Example|Corollary|Fact|Proposition) ' "coq/$f")
    OBL=$((OBL+n))
    if (cd coq && make -q "${f%.v}.vo" >/dev/null 2>&1); then DIS=$((DIS+n)); fi;;
  esac
done
# what the translator could not read or find, if the property's proofs rest on it
export VERIF_UNREADABLE=""
if [ -s coq/Gen/unreadable.txt ]; then
  while IFS=$'\t' read -r gf item why; do
    case " $(echo $CONE) " in *" Gen/$gf "*) VERIF_UNREADABLE="$VERIF_UNREADABLE$item: $(echo "$why" | cut -c1-160)"$'\n';; esac
  done < coq/Gen/unreadable.txt
  VERIF_UNREADABLE="$(echo "$VERIF_UNREADABLE" | head -20)"
fi
export VERIF_OBLIGATIONS=$OBL VERIF_DISCHARGED=$DIS
export VERIF_PROOF_STATUS="$PROOF_STATUS"
export VERIF_ASSUMPTIONS="$(echo "$ASSUM" | sort | uniq -c | sed 's/^ *//')"
export VERIF_THEOREMS="$(grep -E '^Theorem ' "$PFILE" 2>/dev/null | awk '{print $2}' | tr '\n' ' ')"
export VERIF_CHECKER_CMD="cd /verif && ./build.sh (gotrans; make -C coq, coqc 8.16.1 full .vo) && coqc -Q coq V coq/Properties/$PROP.v"
HARNESS_OK=1
[ -x harness/verifcheck ] || HARNESS_OK=0
# private copies so that a concurrent rebuild cannot disturb this run
if [ $HARNESS_OK = 1 ]; then cp harness/verifcheck "$VERIF_WORK/verifcheck"; fi
if [ "$PROP" = C16 ] && [ -x harness/verifrace ]; then cp harness/verifrace "$VERIF_WORK/verifrace"; export VERIF_RACE_BIN="$VERIF_WORK/verifrace"; fi
flock -u 9

if [ $HARNESS_OK = 0 ]; then
  mkdir -p evidence/replay
  R="evidence/replay/${PROP}_harness.json"
  printf '{"property":"%s","kind":"correspondence","message":"the correspondence harness does not build against /repo","theorem_or_correspondence":"correspondence %s","log":%s}\n' "$PROP" "$PROP" "$(python3 -c 'import json,sys; print(json.dumps(open("/verif/.work/harness.log").read()[-2000:]))')" > "$R"
  python3 tools/min_evidence.py "$PROP" "$MODE" "harness does not build against /repo" 
  echo "VIOLATION property=$PROP replay=$VERIF_DIR/$R no-failing-input-found"
  exit 1
fi

case "$MODE" in
  replay)
    "$VERIF_WORK/verifcheck" -replay "${3:?replay file}" "$PROP"; rc=$?;;
  quick|thorough)
    "$VERIF_WORK/verifcheck" -tier "$MODE" "$PROP"; rc=$?;;
  *) echo "unknown mode $MODE"; rc=2;;
esac
rm -rf "$VERIF_WORK"
exit $rc
