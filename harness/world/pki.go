// Package world forges complete, self-consistent Intel TDX attestation "worlds":
// a fresh PKI (root / PCK intermediate / PCK leaf / TCB signer), a signed v4 quote
// carrying the PCK chain, signed TCB-info and QE-identity collateral, CRLs and an
// in-memory HTTPS getter.  Everything is serialised here from the Intel formats
// (no go-tdx-guest serialiser is used for building), so the real verifier is
// exercised against an independent encoder.
//
// Determinism: all structural choices and all key material are a pure function of
// the *math/rand.Rand handed in.  Keys are derived directly from 32 bytes of the
// stream (crypto/ecdh), and every signing operation is given a constant-byte
// entropy reader, which makes Go's hedged ECDSA immune to randutil.MaybeReadByte
// (the 0-or-1 byte it may swallow cannot shift a constant stream) and keeps the
// amount of entropy consumed from the caller's Rand fixed.
package world

import (
	"bytes"
	"crypto/ecdh"
	"crypto/ecdsa"
	"crypto/elliptic"
	"crypto/sha1"
	"crypto/x509"
	"crypto/x509/pkix"
	"encoding/asn1"
	"encoding/pem"
	"math/big"
	"math/rand"
	"net/url"
	"time"

	"github.com/google/go-tdx-guest/pcs"
)

// ---------------------------------------------------------------- entropy / keys

// constReader yields an endless stream of one byte value (see package comment).
type constReader byte

func (c constReader) Read(p []byte) (int, error) {
	for i := range p {
		p[i] = byte(c)
	}
	return len(p), nil
}

// entropy draws exactly one value from r and returns a reader for one crypto operation.
func entropy(r *rand.Rand) constReader { return constReader(r.Intn(256)) }

func randBytes(r *rand.Rand, n int) []byte {
	b := make([]byte, n)
	r.Read(b) // never fails
	return b
}

// NewKey derives a P-256 key deterministically from the next 32 bytes of r
// (retrying in the ~2^-32 case that they are not a valid scalar).
func NewKey(r *rand.Rand) *ecdsa.PrivateKey {
	for {
		d := randBytes(r, 32)
		k, err := ecdh.P256().NewPrivateKey(d)
		if err != nil {
			continue
		}
		pub := k.PublicKey().Bytes() // 0x04 || X || Y
		return &ecdsa.PrivateKey{
			PublicKey: ecdsa.PublicKey{Curve: elliptic.P256(), X: new(big.Int).SetBytes(pub[1:33]), Y: new(big.Int).SetBytes(pub[33:65])},
			D:         new(big.Int).SetBytes(d),
		}
	}
}

// RawPub is the 64-byte X||Y big-endian encoding used inside quotes.
func RawPub(k *ecdsa.PublicKey) []byte {
	out := make([]byte, 64)
	k.X.FillBytes(out[:32])
	k.Y.FillBytes(out[32:])
	return out
}

// ---------------------------------------------------------------- minimal DER writer

// tlv emits tag, definite length and the concatenation of parts.
func tlv(tag byte, parts ...[]byte) []byte {
	body := bytes.Join(parts, nil)
	var out []byte
	switch n := len(body); {
	case n < 0x80:
		out = []byte{tag, byte(n)}
	case n < 0x100:
		out = []byte{tag, 0x81, byte(n)}
	default:
		out = []byte{tag, 0x82, byte(n >> 8), byte(n)}
	}
	return append(out, body...)
}

func derSeq(parts ...[]byte) []byte { return tlv(0x30, parts...) }
func derOctets(b []byte) []byte     { return tlv(0x04, b) }

// derInt encodes a non-negative INTEGER minimally (leading 0x00 when the top bit is set).
func derInt(v uint32) []byte {
	b := []byte{byte(v >> 24), byte(v >> 16), byte(v >> 8), byte(v)}
	for len(b) > 1 && b[0] == 0 {
		b = b[1:]
	}
	if b[0]&0x80 != 0 {
		b = append([]byte{0}, b...)
	}
	return tlv(0x02, b)
}

// derOID encodes an OBJECT IDENTIFIER (first two arcs folded, base-128 for the rest).
func derOID(arcs ...int) []byte {
	body := []byte{byte(arcs[0]*40 + arcs[1])}
	for _, a := range arcs[2:] {
		var tmp []byte
		for tmp = []byte{byte(a & 0x7f)}; a >= 0x80; {
			a >>= 7
			tmp = append([]byte{byte(a&0x7f) | 0x80}, tmp...)
		}
		body = append(body, tmp...)
	}
	return tlv(0x06, body)
}

// sgxOID is 1.2.840.113741.1.13.1 followed by sub.
func sgxOID(sub ...int) []byte {
	return derOID(append([]int{1, 2, 840, 113741, 1, 13, 1}, sub...)...)
}

var oidSGXExtension = asn1.ObjectIdentifier{1, 2, 840, 113741, 1, 13, 1}

// ---------------------------------------------------------------- SGX extension

// SGXExt is the content of the SGX extension (OID 1.2.840.113741.1.13.1) of a PCK leaf.
type SGXExt struct {
	PPID        [16]byte
	CPUSVNComps [16]byte
	PCESVN      uint16
	CPUSVN      [16]byte
	PCEID       [2]byte
	FMSPC       [6]byte
}

// DER lays the extension out exactly like Intel's PCK certificates:
// SEQ{ {ppid}, {tcb,{comp1..16,pcesvn,cpusvn}}, {pceid}, {fmspc}, {sgxType ENUM 0} }.
func (e SGXExt) DER() []byte {
	var tcb [][]byte
	for i, c := range e.CPUSVNComps {
		tcb = append(tcb, derSeq(sgxOID(2, i+1), derInt(uint32(c))))
	}
	tcb = append(tcb, derSeq(sgxOID(2, 17), derInt(uint32(e.PCESVN))), derSeq(sgxOID(2, 18), derOctets(e.CPUSVN[:])))
	return derSeq(
		derSeq(sgxOID(1), derOctets(e.PPID[:])),
		derSeq(sgxOID(2), derSeq(tcb...)),
		derSeq(sgxOID(3), derOctets(e.PCEID[:])),
		derSeq(sgxOID(4), derOctets(e.FMSPC[:])),
		derSeq(sgxOID(5), tlv(0x0a, []byte{0})), // sgxType: standard
	)
}

// RandomSGXExt draws every field from r.
func RandomSGXExt(r *rand.Rand) SGXExt {
	var e SGXExt
	r.Read(e.PPID[:])
	r.Read(e.CPUSVNComps[:])
	e.PCESVN = uint16(r.Intn(1 << 16))
	r.Read(e.CPUSVN[:])
	r.Read(e.PCEID[:])
	r.Read(e.FMSPC[:])
	return e
}

// ---------------------------------------------------------------- certificates

// Cert bundles a parsed certificate with its DER and private key.
type Cert struct {
	Cert *x509.Certificate
	Key  *ecdsa.PrivateKey
	DER  []byte
}

// PEM returns the single "CERTIFICATE" block (newline terminated).
func (c *Cert) PEM() []byte {
	return pem.EncodeToMemory(&pem.Block{Type: "CERTIFICATE", Bytes: c.DER})
}

// CertSpec describes one certificate; see MakeCert.
type CertSpec struct {
	CN, Org             string // Org "" => "Intel Corporation"
	NotBefore, NotAfter time.Time
	IsCA                bool
	Serial              *big.Int // nil => random positive 20-byte value
	CRLDP               []string
	SGXExtDER           []byte // non-nil => non-critical extension 1.2.840.113741.1.13.1
	ExtraExts           []pkix.Extension
}

// intelName builds CN,O,L,ST,C in Intel's RDN order (ExtraNames are emitted verbatim, in order).
func intelName(cn, org string) pkix.Name {
	if org == "" {
		org = "Intel Corporation"
	}
	at := func(last int, v string) pkix.AttributeTypeAndValue {
		return pkix.AttributeTypeAndValue{Type: asn1.ObjectIdentifier{2, 5, 4, last}, Value: v}
	}
	return pkix.Name{ExtraNames: []pkix.AttributeTypeAndValue{at(3, cn), at(10, org), at(7, "Santa Clara"), at(8, "CA"), at(6, "US")}}
}

// MakeCert issues an X.509v3 ECDSA-P256/SHA-256 certificate for key, signed by
// parent (nil => self-signed).  Extension set produced: authority key id (also on
// self-signed certs, like Intel's root), CRL distribution points (iff CRLDP set),
// subject key id, key usage, basic constraints, then the SGX extension and
// ExtraExts.  A leaf with CRLDP and SGXExtDER therefore carries exactly the six
// extensions pcs.PckCertificateExtensions insists on.  CA certs get
// keyCertSign|cRLSign, others digitalSignature|nonRepudiation, as Intel's do.
func MakeCert(r *rand.Rand, spec CertSpec, key *ecdsa.PrivateKey, parent *Cert) (*Cert, error) {
	serial := spec.Serial
	if serial == nil {
		b := randBytes(r, 20)
		b[0] = b[0]&0x7f | 0x40 // positive, full 20 bytes
		serial = new(big.Int).SetBytes(b)
	}
	ski := sha1.Sum(append([]byte{4}, RawPub(&key.PublicKey)...)) // RFC 5280 method 1
	tmpl := &x509.Certificate{
		SerialNumber:          serial,
		Subject:               intelName(spec.CN, spec.Org),
		NotBefore:             spec.NotBefore,
		NotAfter:              spec.NotAfter,
		SignatureAlgorithm:    x509.ECDSAWithSHA256,
		BasicConstraintsValid: true,
		IsCA:                  spec.IsCA,
		MaxPathLen:            -1,
		SubjectKeyId:          ski[:],
		AuthorityKeyId:        ski[:], // only survives for self-signed certs
		CRLDistributionPoints: spec.CRLDP,
		KeyUsage:              x509.KeyUsageDigitalSignature | x509.KeyUsageContentCommitment,
	}
	if spec.IsCA {
		tmpl.KeyUsage = x509.KeyUsageCertSign | x509.KeyUsageCRLSign
	}
	if spec.SGXExtDER != nil {
		tmpl.ExtraExtensions = append(tmpl.ExtraExtensions, pkix.Extension{Id: oidSGXExtension, Value: spec.SGXExtDER})
	}
	tmpl.ExtraExtensions = append(tmpl.ExtraExtensions, spec.ExtraExts...)
	issuer, signer := tmpl, key
	if parent != nil {
		issuer, signer = parent.Cert, parent.Key
	}
	der, err := x509.CreateCertificate(entropy(r), tmpl, issuer, &key.PublicKey, signer)
	if err != nil {
		return nil, err
	}
	parsed, err := x509.ParseCertificate(der)
	if err != nil {
		return nil, err
	}
	return &Cert{Cert: parsed, Key: key, DER: der}, nil
}

// ---------------------------------------------------------------- PKI

const (
	day               = 24 * time.Hour
	DefaultRootCRLURL = "https://certificates.trustedservices.intel.com/IntelSGXRootCA.der"
)

// PKIOpts parameterises NewPKI.
type PKIOpts struct {
	Now        time.Time // centre of validity windows: [Now-365d, Now+365d] for every cert
	Processor  bool      // intermediate "Intel SGX PCK Processor CA" instead of "... Platform CA"
	Ext        SGXExt
	RootCRLURL string                  // CRL distribution point of the root (and of inter / TCB signer); default DefaultRootCRLURL
	Windows    map[string][2]time.Time // per-role override; roles "root","inter","leaf","tcbsigner"
	RootCRLDPs []string                // if non-nil: the root's CRL distribution points (several allowed)
}

// PKI is Intel's SGX hierarchy in miniature.
type PKI struct {
	Root, Inter, Leaf, TcbSigner *Cert
	Opts                         PKIOpts
}

// CA is the `ca` query value Intel's PCK-CRL endpoint uses for this PKI's intermediate.
func (p *PKI) CA() string {
	if p.Opts.Processor {
		return "processor"
	}
	return "platform"
}

// NewPKI generates root -> {intermediate -> PCK leaf, TCB signer}.
func NewPKI(r *rand.Rand, o PKIOpts) (*PKI, error) {
	if o.RootCRLURL == "" {
		o.RootCRLURL = DefaultRootCRLURL
	}
	p := &PKI{Opts: o}
	interCN := "Intel SGX PCK Platform CA"
	if o.Processor {
		interCN = "Intel SGX PCK Processor CA"
	}
	mk := func(role, cn string, ca bool, crldp string, sgx []byte, parent *Cert) (*Cert, error) {
		w, ok := o.Windows[role]
		if !ok {
			w = [2]time.Time{o.Now.Add(-365 * day), o.Now.Add(365 * day)}
		}
		spec := CertSpec{CN: cn, NotBefore: w[0], NotAfter: w[1], IsCA: ca, CRLDP: []string{crldp}, SGXExtDER: sgx}
		if role == "root" && o.RootCRLDPs != nil {
			spec.CRLDP = o.RootCRLDPs
		}
		return MakeCert(r, spec, NewKey(r), parent)
	}
	var err error
	if p.Root, err = mk("root", "Intel SGX Root CA", true, o.RootCRLURL, nil, nil); err != nil {
		return nil, err
	}
	if p.Inter, err = mk("inter", interCN, true, o.RootCRLURL, nil, p.Root); err != nil {
		return nil, err
	}
	if p.Leaf, err = mk("leaf", "Intel SGX PCK Certificate", false, pcs.PckCrlURL(p.CA()), o.Ext.DER(), p.Inter); err != nil {
		return nil, err
	}
	if p.TcbSigner, err = mk("tcbsigner", "Intel SGX TCB Signing", false, o.RootCRLURL, nil, p.Root); err != nil {
		return nil, err
	}
	return p, nil
}

// ChainPEM is leaf || inter || root, the order a quote carries.
func (p *PKI) ChainPEM() []byte {
	return bytes.Join([][]byte{p.Leaf.PEM(), p.Inter.PEM(), p.Root.PEM()}, nil)
}

// IssuerChainHeader is the URL-escaped "signer PEM || root PEM" of Intel's *-Issuer-Chain headers.
func (p *PKI) IssuerChainHeader(signer, root *Cert) string {
	return url.QueryEscape(string(signer.PEM()) + string(root.PEM()))
}

// RootPool trusts exactly this PKI's root.
func (p *PKI) RootPool() *x509.CertPool {
	pool := x509.NewCertPool()
	pool.AddCert(p.Root.Cert)
	return pool
}

// MakeCRL issues a DER CRL (issuer needs KeyUsageCRLSign, which MakeCert gives every CA).
// MakeCRLUTF8 is MakeCRL with the issuer name written with UTF8String values where
// the issuer's certificate uses PrintableString: another encoding of the same name
// (RFC 5280 section 7.1), as a CA's CRL tooling may produce.
func MakeCRLUTF8(r *rand.Rand, issuer *Cert, revoked []*big.Int, thisUpdate, nextUpdate time.Time, number int64) ([]byte, error) {
	var rdns pkix.RDNSequence
	if _, err := asn1.Unmarshal(issuer.Cert.RawSubject, &rdns); err != nil {
		return nil, err
	}
	for i := range rdns {
		for j := range rdns[i] {
			if sv, ok := rdns[i][j].Value.(string); ok {
				rdns[i][j].Value = asn1.RawValue{Class: asn1.ClassUniversal, Tag: asn1.TagUTF8String, Bytes: []byte(sv)}
			}
		}
	}
	raw, err := asn1.Marshal(rdns)
	if err != nil {
		return nil, err
	}
	cp := *issuer.Cert
	cp.RawSubject = raw
	tmpl := &x509.RevocationList{Number: big.NewInt(number), ThisUpdate: thisUpdate, NextUpdate: nextUpdate, SignatureAlgorithm: x509.ECDSAWithSHA256}
	for _, s := range revoked {
		tmpl.RevokedCertificateEntries = append(tmpl.RevokedCertificateEntries, x509.RevocationListEntry{SerialNumber: s, RevocationTime: thisUpdate})
	}
	return x509.CreateRevocationList(entropy(r), tmpl, &cp, issuer.Key)
}

func MakeCRL(r *rand.Rand, issuer *Cert, revoked []*big.Int, thisUpdate, nextUpdate time.Time, number int64) ([]byte, error) {
	tmpl := &x509.RevocationList{Number: big.NewInt(number), ThisUpdate: thisUpdate, NextUpdate: nextUpdate, SignatureAlgorithm: x509.ECDSAWithSHA256}
	for _, s := range revoked {
		tmpl.RevokedCertificateEntries = append(tmpl.RevokedCertificateEntries, x509.RevocationListEntry{SerialNumber: s, RevocationTime: thisUpdate})
	}
	return x509.CreateRevocationList(entropy(r), tmpl, issuer.Cert, issuer.Key)
}
