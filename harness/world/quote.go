package world

import (
	"bytes"
	"crypto/ecdsa"
	"crypto/sha256"
	"encoding/binary"
	"errors"
	"math/rand"
)

// Fixed sizes of the Intel TDX v4 quote layout (all integers little-endian).
const (
	HeaderSize   = 48
	BodySize     = 584
	QeReportSize = 384
	SigSize      = 64
	KeySize      = 64
)

// QuoteFields holds every settable field of a v4 TDX quote.  The zero value is
// NOT a valid quote; start from DefaultQuoteFields.
type QuoteFields struct {
	// header (48 bytes)
	Version, AttKeyType uint16
	TeeType             uint32
	PceSvn, QeSvn       [2]byte
	QeVendorID          [16]byte
	UserData            [20]byte
	// TD quote body (584 bytes)
	TeeTcbSvn                                [16]byte
	MrSeam, MrSignerSeam                     [48]byte
	SeamAttributes, TdAttributes, Xfam       [8]byte
	MrTd, MrConfigID, MrOwner, MrOwnerConfig [48]byte
	Rtmrs                                    [4][48]byte
	ReportData                               [64]byte
	// QE (SGX enclave) report, 384 bytes; its report data is computed, see below
	QeCPUSvn              [16]byte
	QeMiscSelect          uint32
	QeReserved1           [28]byte
	QeAttributes          [16]byte
	QeMrEnclave           [32]byte
	QeReserved2           [32]byte
	QeMrSigner            [32]byte
	QeReserved3           [96]byte
	QeIsvProdID, QeIsvSvn uint16
	QeReserved4           [60]byte
	// variable-length tail
	AuthData             []byte // QE authentication data, 0..65535 bytes
	ChainPEM             []byte // certification data of type 5
	TrailingNUL          bool   // one 0x00 after the PEM chain, counted inside the chain data
	ExtraBytes           []byte // appended after the signed data (not covered by signedDataSize)
	OverrideQeReportData []byte // nil => sha256(attKey||AuthData) || 32 zero bytes; else copied (truncated / zero padded to 64)
}

// DefaultQuoteFields: Version 4, AttKeyType 2 (ECDSA-P256), TeeType 0x81, Intel's QE
// vendor id, XFAM 0xe7, TD attributes 0, TEE_TCB_SVN[1] = 0, 32 bytes of auth
// data; everything else random (QE reserved fields are zero as in real reports).
func DefaultQuoteFields(r *rand.Rand) QuoteFields {
	f := QuoteFields{Version: 4, AttKeyType: 2, TeeType: 0x81}
	f.QeVendorID = [16]byte{0x93, 0x9a, 0x72, 0x33, 0xf7, 0x9c, 0x4c, 0xa9, 0x94, 0x0a, 0x0d, 0xb3, 0x95, 0x7f, 0x06, 0x07}
	for _, b := range [][]byte{f.PceSvn[:], f.QeSvn[:], f.UserData[:], f.TeeTcbSvn[:], f.MrSeam[:], f.MrSignerSeam[:],
		f.SeamAttributes[:], f.MrTd[:], f.MrConfigID[:], f.MrOwner[:], f.MrOwnerConfig[:],
		f.Rtmrs[0][:], f.Rtmrs[1][:], f.Rtmrs[2][:], f.Rtmrs[3][:], f.ReportData[:],
		f.QeCPUSvn[:], f.QeAttributes[:], f.QeMrEnclave[:], f.QeMrSigner[:]} {
		r.Read(b)
	}
	f.TeeTcbSvn[1] = 0
	f.Xfam = [8]byte{0xe7} // x87|SSE|AVX|AVX-512: low two bits set, nothing outside 0x6DBE7
	f.QeMiscSelect = r.Uint32()
	f.QeIsvProdID = uint16(r.Intn(1 << 16))
	f.QeIsvSvn = uint16(r.Intn(1 << 16))
	f.AuthData = randBytes(r, 32)
	return f
}

func le16(v uint16) []byte { return binary.LittleEndian.AppendUint16(nil, v) }
func le32(v uint32) []byte { return binary.LittleEndian.AppendUint32(nil, v) }

// SerializeHeader: version, attKeyType, teeType, PCE SVN, QE SVN, QE vendor id, user data.
func SerializeHeader(f QuoteFields) []byte {
	return bytes.Join([][]byte{le16(f.Version), le16(f.AttKeyType), le32(f.TeeType), f.PceSvn[:], f.QeSvn[:], f.QeVendorID[:], f.UserData[:]}, nil)
}

// SerializeBody is the TD quote body (TDREPORT excerpt) in field order.
func SerializeBody(f QuoteFields) []byte {
	return bytes.Join([][]byte{f.TeeTcbSvn[:], f.MrSeam[:], f.MrSignerSeam[:], f.SeamAttributes[:], f.TdAttributes[:], f.Xfam[:],
		f.MrTd[:], f.MrConfigID[:], f.MrOwner[:], f.MrOwnerConfig[:],
		f.Rtmrs[0][:], f.Rtmrs[1][:], f.Rtmrs[2][:], f.Rtmrs[3][:], f.ReportData[:]}, nil)
}

// SerializeQeReport is the SGX REPORT body of the quoting enclave.
func SerializeQeReport(f QuoteFields, reportData [64]byte) []byte {
	return bytes.Join([][]byte{f.QeCPUSvn[:], le32(f.QeMiscSelect), f.QeReserved1[:], f.QeAttributes[:], f.QeMrEnclave[:], f.QeReserved2[:],
		f.QeMrSigner[:], f.QeReserved3[:], le16(f.QeIsvProdID), le16(f.QeIsvSvn), f.QeReserved4[:], reportData[:]}, nil)
}

// SignRaw returns the 64-byte big-endian r||s ECDSA signature over SHA-256(msg).
func SignRaw(r *rand.Rand, key *ecdsa.PrivateKey, msg []byte) []byte {
	h := sha256.Sum256(msg)
	R, S, err := ecdsa.Sign(entropy(r), key, h[:])
	if err != nil {
		panic(err) // impossible for a valid P-256 key and an infallible reader
	}
	out := make([]byte, SigSize)
	R.FillBytes(out[:32])
	S.FillBytes(out[32:])
	return out
}

// QeReportData is the binding the QE puts in its report: SHA-256(attKey || authData) || 0^32.
func QeReportData(attKey, authData []byte) (rd [64]byte) {
	h := sha256.Sum256(append(append([]byte{}, attKey...), authData...))
	copy(rd[:], h[:])
	return rd
}

// Assemble glues the pieces together and fills in consistent size fields:
//
//	header | body | u32 signedDataSize | sig | attKey | u16 6 | u32 size |
//	  qeReport | qeSig | u16 authSize | auth | u16 5 | u32 chainSize | chain   || extra
//
// Pieces are taken as given (any length), so callers can inject malformed parts.
func Assemble(header, body, sig, attKey, qeReport, qeSig, authData, chain, extra []byte) []byte {
	cert := bytes.Join([][]byte{qeReport, qeSig, le16(uint16(len(authData))), authData, le16(5), le32(uint32(len(chain))), chain}, nil)
	signed := bytes.Join([][]byte{sig, attKey, le16(6), le32(uint32(len(cert))), cert}, nil)
	return bytes.Join([][]byte{header, body, le32(uint32(len(signed))), signed, extra}, nil)
}

// Offsets gives the [start,end) byte range of every region of a well-formed quote.
func Offsets(authLen, chainLen, extraLen int) map[string][2]int {
	off, pos := map[string][2]int{}, 0
	for _, reg := range []struct {
		name string
		n    int
	}{{"header", HeaderSize}, {"body", BodySize}, {"sdsize", 4}, {"sig", SigSize}, {"attkey", KeySize}, {"cdtype", 2}, {"cdsize", 4},
		{"qereport", QeReportSize}, {"qesig", SigSize}, {"authsize", 2}, {"auth", authLen}, {"pcktype", 2}, {"pcksize", 4},
		{"chain", chainLen}, {"extra", extraLen}} {
		off[reg.name] = [2]int{pos, pos + reg.n}
		pos += reg.n
	}
	return off
}

// BuiltQuote is a serialised quote plus what is needed to mutate or re-sign it.
type BuiltQuote struct {
	Raw    []byte
	AttKey *ecdsa.PrivateKey
	Off    map[string][2]int // region name -> [start,end) inside Raw; see Offsets
}

// BuildQuote generates an attestation key, signs header||body with it, binds the
// key and auth data into the QE report data and signs the QE report with pckKey.
func BuildQuote(r *rand.Rand, f QuoteFields, pckKey *ecdsa.PrivateKey) (*BuiltQuote, error) {
	if len(f.AuthData) > 0xffff {
		return nil, errors.New("world: QE auth data longer than 65535 bytes")
	}
	att := NewKey(r)
	header, body, attPub := SerializeHeader(f), SerializeBody(f), RawPub(&att.PublicKey)
	sig := SignRaw(r, att, append(append([]byte{}, header...), body...))
	rd := QeReportData(attPub, f.AuthData)
	if f.OverrideQeReportData != nil {
		rd = [64]byte{}
		copy(rd[:], f.OverrideQeReportData)
	}
	qeReport := SerializeQeReport(f, rd)
	qeSig := SignRaw(r, pckKey, qeReport)
	chain := append([]byte{}, f.ChainPEM...)
	if f.TrailingNUL {
		chain = append(chain, 0)
	}
	return &BuiltQuote{
		Raw:    Assemble(header, body, sig, attPub, qeReport, qeSig, f.AuthData, chain, f.ExtraBytes),
		AttKey: att,
		Off:    Offsets(len(f.AuthData), len(chain), len(f.ExtraBytes)),
	}, nil
}
