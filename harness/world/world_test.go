package world

import (
	"bytes"
	"encoding/hex"
	"math/rand"
	"testing"
	"time"

	"github.com/google/go-tdx-guest/abi"
	"github.com/google/go-tdx-guest/pcs"
	"github.com/google/go-tdx-guest/verify"
)

var testNow = time.Date(2026, 3, 14, 15, 9, 26, 0, time.UTC)

var modes = []struct{ collateral, crl bool }{{false, false}, {true, false}, {true, true}}

// mustAccept checks the real verifier accepts w in all three modes.
func mustAccept(t *testing.T, w *World) {
	t.Helper()
	for _, m := range modes {
		if err := verify.RawTdxQuote(w.Quote.Raw, w.Options(m.collateral, m.crl)); err != nil {
			t.Errorf("collateral=%v crl=%v: honest world rejected: %v", m.collateral, m.crl, err)
		}
	}
}

func honest(t *testing.T, seed int64) *World {
	t.Helper()
	w, err := HonestWorld(rand.New(rand.NewSource(seed)), testNow)
	if err != nil {
		t.Fatal(err)
	}
	return w
}

// (1) honest worlds verify in all modes, across seeds and quote shapes.
func TestHonestWorldAccepted(t *testing.T) {
	for seed := int64(0); seed < 20; seed++ {
		w := honest(t, seed)
		mustAccept(t, w)
		g := w.Getter()
		if err := verify.RawTdxQuote(w.Quote.Raw, &verify.Options{GetCollateral: true, CheckRevocations: true, Getter: g,
			TrustedRoots: w.PKI.RootPool(), Now: w.Options(true, true).Now}); err != nil {
			t.Fatal(err)
		}
		tcb, qe, pck, root := w.URLs()
		if want := []string{tcb, qe, pck, root}; len(g.Calls) != 4 || g.Calls[0] != want[0] || g.Calls[1] != want[1] || g.Calls[2] != want[2] || g.Calls[3] != want[3] {
			t.Errorf("getter calls = %q, want %q", g.Calls, want)
		}
	}
}

func TestQuoteShapesAccepted(t *testing.T) {
	shapes := map[string]func(*rand.Rand, *QuoteFields){
		"auth0":    func(_ *rand.Rand, f *QuoteFields) { f.AuthData = nil },
		"auth1":    func(r *rand.Rand, f *QuoteFields) { f.AuthData = randBytes(r, 1) },
		"auth32":   func(r *rand.Rand, f *QuoteFields) { f.AuthData = randBytes(r, 32) },
		"auth5000": func(r *rand.Rand, f *QuoteFields) { f.AuthData = randBytes(r, 5000) },
		"nul":      func(_ *rand.Rand, f *QuoteFields) { f.TrailingNUL = true },
		"extra":    func(r *rand.Rand, f *QuoteFields) { f.ExtraBytes = randBytes(r, 77) },
		"all": func(r *rand.Rand, f *QuoteFields) {
			f.AuthData, f.TrailingNUL, f.ExtraBytes = randBytes(r, 65535), true, []byte{0}
		},
	}
	for name, shape := range shapes {
		t.Run(name, func(t *testing.T) {
			r := rand.New(rand.NewSource(7))
			pki, err := NewPKI(r, PKIOpts{Now: testNow, Ext: RandomSGXExt(r)})
			if err != nil {
				t.Fatal(err)
			}
			f := DefaultQuoteFields(r)
			shape(r, &f)
			w, err := BuildWorld(r, testNow, pki, f)
			if err != nil {
				t.Fatal(err)
			}
			mustAccept(t, w)
			// Off must describe Raw exactly.
			o, raw := w.Quote.Off, w.Quote.Raw
			if o["extra"][1] != len(raw) || !bytes.Equal(raw[o["auth"][0]:o["auth"][1]], f.AuthData) ||
				!bytes.Equal(raw[o["extra"][0]:], f.ExtraBytes) || !bytes.HasPrefix(raw[o["chain"][0]:o["chain"][1]], f.ChainPEM) && f.ChainPEM != nil ||
				!bytes.HasPrefix(raw[o["chain"][0]:], pki.ChainPEM()) || !bytes.Equal(raw[o["attkey"][0]:o["attkey"][1]], RawPub(&w.Quote.AttKey.PublicKey)) {
				t.Errorf("offset map inconsistent with raw quote: %v", o)
			}
		})
	}
}

// (2) the same world is rejected under another PKI's root.
func TestForeignRootRejected(t *testing.T) {
	w, other := honest(t, 1), honest(t, 2)
	for _, m := range modes {
		opts := w.Options(m.collateral, m.crl)
		opts.TrustedRoots = other.PKI.RootPool()
		if err := verify.RawTdxQuote(w.Quote.Raw, opts); err == nil {
			t.Errorf("collateral=%v crl=%v: accepted under a foreign root", m.collateral, m.crl)
		}
	}
}

// (3) a Processor-CA PKI builds; the verifier refuses it (intermediate CN check) without panicking.
func TestProcessorPKI(t *testing.T) {
	r := rand.New(rand.NewSource(3))
	pki, err := NewPKI(r, PKIOpts{Now: testNow, Processor: true, Ext: RandomSGXExt(r)})
	if err != nil {
		t.Fatal(err)
	}
	if cn := pki.Leaf.Cert.Issuer.CommonName; cn != "Intel SGX PCK Processor CA" {
		t.Errorf("leaf issuer CN = %q", cn)
	}
	w, err := BuildWorld(r, testNow, pki, DefaultQuoteFields(r))
	if err != nil {
		t.Fatal(err)
	}
	if _, _, pck, _ := w.URLs(); pck != pcs.PckCrlURL("processor") {
		t.Errorf("pck crl url = %q", pck)
	}
	for _, m := range modes {
		if err := verify.RawTdxQuote(w.Quote.Raw, w.Options(m.collateral, m.crl)); err == nil {
			t.Errorf("collateral=%v crl=%v: processor-CA world unexpectedly accepted", m.collateral, m.crl)
		}
	}
}

// (4) our serialiser and the library's agree byte-for-byte.
func TestAbiRoundTrip(t *testing.T) {
	r := rand.New(rand.NewSource(4))
	w := honest(t, 4)
	f := w.Fields
	f.AuthData, f.TrailingNUL, f.ExtraBytes = randBytes(r, 300), true, randBytes(r, 9)
	// fill the reserved QE fields too, so every byte of the layout is exercised
	r.Read(f.QeReserved1[:])
	r.Read(f.QeReserved2[:])
	r.Read(f.QeReserved3[:])
	r.Read(f.QeReserved4[:])
	r.Read(f.TdAttributes[:])
	q2, err := BuildQuote(r, f, w.PKI.Leaf.Key)
	if err != nil {
		t.Fatal(err)
	}
	for _, raw := range [][]byte{w.Quote.Raw, q2.Raw} {
		proto, err := abi.QuoteToProto(raw)
		if err != nil {
			t.Fatal(err)
		}
		back, err := abi.QuoteToAbiBytes(proto)
		if err != nil {
			t.Fatal(err)
		}
		if !bytes.Equal(back, raw) {
			t.Error("abi round trip differs from forged quote")
		}
	}
}

// (5) the SGX extension parses back to the values put in; leaf has exactly six extensions.
func TestSGXExtension(t *testing.T) {
	for seed := int64(0); seed < 50; seed++ {
		w := honest(t, seed)
		e := w.PKI.Opts.Ext
		if n := len(w.PKI.Leaf.Cert.Extensions); n != 6 {
			t.Fatalf("leaf has %d extensions", n)
		}
		got, err := pcs.PckCertificateExtensions(w.PKI.Leaf.Cert)
		if err != nil {
			t.Fatal(err)
		}
		if got.PPID != hex.EncodeToString(e.PPID[:]) || got.PCEID != hex.EncodeToString(e.PCEID[:]) || got.FMSPC != hex.EncodeToString(e.FMSPC[:]) ||
			got.TCB.PCESvn != e.PCESVN || !bytes.Equal(got.TCB.CPUSvn, e.CPUSVN[:]) || !bytes.Equal(got.TCB.CPUSvnComponents, e.CPUSVNComps[:]) {
			t.Errorf("seed %d: parsed %+v, want %+v", seed, got, e)
		}
	}
}

// (6) every single-bit flip in the header region is rejected.
func TestHeaderBitFlipRejected(t *testing.T) {
	w := honest(t, 6)
	h := w.Quote.Off["header"]
	for bit := h[0] * 8; bit < h[1]*8; bit++ {
		raw := append([]byte{}, w.Quote.Raw...)
		raw[bit/8] ^= 1 << (bit % 8)
		if err := verify.RawTdxQuote(raw, w.Options(false, false)); err == nil {
			t.Errorf("flip of header bit %d accepted", bit)
		}
	}
}

// (7) TEE_TCB_SVN[1] = 1 selects module identity TDX_01, whose UpToDate level is honoured.
func TestTdxModuleIdentity(t *testing.T) {
	r := rand.New(rand.NewSource(8))
	pki, err := NewPKI(r, PKIOpts{Now: testNow, Ext: RandomSGXExt(r)})
	if err != nil {
		t.Fatal(err)
	}
	f := DefaultQuoteFields(r)
	f.TeeTcbSvn[0], f.TeeTcbSvn[1] = 5, 1
	w, err := BuildWorld(r, testNow, pki, f)
	if err != nil {
		t.Fatal(err)
	}
	if ids := w.TcbInfo.ModuleIdentities; len(ids) != 1 || ids[0].ID != "TDX_01" {
		t.Fatalf("module identities = %+v", ids)
	}
	mustAccept(t, w)

	// Hand-written identity list; the main level demands more than the quote has in
	// components 0/1 (ignored when [1] > 0), so acceptance hinges on TDX_01.
	level := func(svn uint32, status string) TcbLevel {
		return TcbLevel{Tcb: Tcb{ModuleLevel: true, IsvSvn: svn}, Date: "2025-01-01T00:00:00Z", Status: status}
	}
	id := w.TcbInfo.ModuleIdentities[0]
	id.Levels = []TcbLevel{level(6, "Revoked"), level(5, "UpToDate"), level(0, "OutOfDate")}
	other := id
	other.ID, other.Levels = "TDX_02", []TcbLevel{level(0, "OutOfDate")}
	w.TcbInfo.ModuleIdentities = []TdxModuleIdentity{other, id}
	w.TcbInfo.Levels[0].Tcb.Tdx[0], w.TcbInfo.Levels[0].Tcb.Tdx[1] = 200, 200
	w.Seal(r)
	mustAccept(t, w)

	// Control: once TDX_01's matching level is OutOfDate the same world is refused.
	w.TcbInfo.ModuleIdentities[1].Levels[1].Status = "OutOfDate"
	w.Seal(r)
	if err := verify.RawTdxQuote(w.Quote.Raw, w.Options(true, false)); err == nil {
		t.Error("OutOfDate TDX module level accepted")
	}
	if err := verify.RawTdxQuote(w.Quote.Raw, w.Options(false, false)); err != nil {
		t.Errorf("without collateral: %v", err)
	}
}

// Collateral JSON parses into the library's structs and carries the canonical header names.
func TestCollateralFormat(t *testing.T) {
	w := honest(t, 9)
	if _, ok := w.TcbInfoHeader[pcs.TcbInfoIssuerChainPhrase]; !ok {
		t.Error("tcb info header key")
	}
	if _, ok := w.QeIdentityHeader[pcs.SgxQeIdentityIssuerChainPhrase]; !ok {
		t.Error("qe identity header key")
	}
	if _, ok := w.PckCrlHeader[pcs.SgxPckCrlIssuerChainPhrase]; !ok {
		t.Error("pck crl header key")
	}
	w.TcbInfo.Levels[0].AdvisoryIDs = []string{"INTEL-SA-00001", "INTEL-SA-00002"}
	w.Seal(rand.New(rand.NewSource(1)))
	mustAccept(t, w)
	// tampering with a signed body is detected
	bad := w.Options(true, false)
	g := bad.Getter.(*Getter)
	url, _, _, _ := w.URLs()
	resp := g.Resp[url]
	resp.Body = bytes.Replace(resp.Body, []byte(`"tcbType":0`), []byte(`"tcbType":1`), 1)
	g.Resp[url] = resp
	if err := verify.RawTdxQuote(w.Quote.Raw, bad); err == nil {
		t.Error("tampered tcbInfo accepted")
	}
}

// Same seed => byte-identical world (keys, signatures, collateral, CRLs).
func TestDeterministic(t *testing.T) {
	for i := 0; i < 5; i++ {
		a, b := honest(t, 11), honest(t, 11)
		if !bytes.Equal(a.Quote.Raw, b.Quote.Raw) || !bytes.Equal(a.TcbInfoBody, b.TcbInfoBody) || !bytes.Equal(a.QeIdentityBody, b.QeIdentityBody) ||
			!bytes.Equal(a.PckCrl, b.PckCrl) || !bytes.Equal(a.RootCrl, b.RootCrl) {
			t.Fatal("same seed produced different worlds")
		}
	}
	if bytes.Equal(honest(t, 11).Quote.Raw, honest(t, 12).Quote.Raw) {
		t.Fatal("different seeds produced the same quote")
	}
}

// Validity-window overrides reach the certificates and the verifier notices expiry.
func TestWindowsOverride(t *testing.T) {
	r := rand.New(rand.NewSource(13))
	expired := [2]time.Time{testNow.Add(-10 * day), testNow.Add(-day)}
	pki, err := NewPKI(r, PKIOpts{Now: testNow, Ext: RandomSGXExt(r), Windows: map[string][2]time.Time{"leaf": expired}})
	if err != nil {
		t.Fatal(err)
	}
	if !pki.Leaf.Cert.NotAfter.Equal(expired[1]) || !pki.Inter.Cert.NotAfter.Equal(testNow.Add(365*day)) {
		t.Error("windows not applied")
	}
	w, err := BuildWorld(r, testNow, pki, DefaultQuoteFields(r))
	if err != nil {
		t.Fatal(err)
	}
	if err := verify.RawTdxQuote(w.Quote.Raw, w.Options(false, false)); err == nil {
		t.Error("expired leaf accepted")
	}
}

func TestHonestWorldSpeed(t *testing.T) {
	r, n := rand.New(rand.NewSource(99)), 200
	start := time.Now()
	for i := 0; i < n; i++ {
		if _, err := HonestWorld(r, testNow); err != nil {
			t.Fatal(err)
		}
	}
	per := time.Since(start) / time.Duration(n)
	t.Logf("HonestWorld: %v per world", per)
	if per > 3*time.Millisecond && !testing.Short() {
		t.Errorf("HonestWorld takes %v, target is <= 3ms", per)
	}
}

func BenchmarkHonestWorld(b *testing.B) {
	r := rand.New(rand.NewSource(1))
	for i := 0; i < b.N; i++ {
		if _, err := HonestWorld(r, testNow); err != nil {
			b.Fatal(err)
		}
	}
}
