package world

import (
	"bytes"
	"crypto/ecdsa"
	"encoding/hex"
	"encoding/json"
	"fmt"
	"math/rand"
	"strings"
	"time"
)

// ---------------------------------------------------------------- JSON model (hand-written encoder)

// TcbComponent is one element of sgxtcbcomponents / tdxtcbcomponents.
type TcbComponent struct{ Svn byte }

// JSON renders {"svn":N}; Intel's optional "category"/"type" members are omitted.
func (c TcbComponent) JSON() string { return fmt.Sprintf(`{"svn":%d}`, c.Svn) }

// Tcb is the "tcb" member of a TCB level.  ModuleLevel selects the short form
// {"isvsvn":N} used by TDX module identities and the QE identity.
type Tcb struct {
	Sgx         [16]byte
	PceSvn      uint16
	Tdx         [16]byte
	IsvSvn      uint32
	ModuleLevel bool
}

// TcbLevel is one entry of a tcbLevels array (listed in descending order by Intel).
type TcbLevel struct {
	Tcb         Tcb
	Date        string // tcbDate, RFC 3339
	Status      string // tcbStatus, e.g. "UpToDate"
	AdvisoryIDs []string
}

// TdxModuleIdentity is one entry of tdxModuleIdentities; ID is "TDX_<hex of TEE_TCB_SVN[1]>".
type TdxModuleIdentity struct {
	ID                                   string
	Mrsigner, Attributes, AttributesMask []byte
	Levels                               []TcbLevel // ModuleLevel-style
}

// TcbInfoDoc is the "tcbInfo" member of Intel's TDX TCB-info response (version 3).
type TcbInfoDoc struct {
	ID                                                     string
	Version                                                int
	IssueDate, NextUpdate                                  time.Time
	Fmspc, PceID                                           string
	TcbType                                                int
	TcbEvaluationDataNumber                                int
	ModuleMrsigner, ModuleAttributes, ModuleAttributesMask []byte // tdxModule
	ModuleIdentities                                       []TdxModuleIdentity
	Levels                                                 []TcbLevel
}

// QeIdentityDoc is the "enclaveIdentity" member of the TD QE identity response (version 2).
type QeIdentityDoc struct {
	ID                                                               string
	Version                                                          int
	IssueDate, NextUpdate                                            time.Time
	TcbEvaluationDataNumber                                          int
	Miscselect, MiscselectMask, Attributes, AttributesMask, Mrsigner []byte
	IsvProdID                                                        uint16
	Levels                                                           []TcbLevel // ModuleLevel-style, keyed on Tcb.IsvSvn
}

const jsonTime = "2006-01-02T15:04:05Z"

func jstr(s string) string     { b, _ := json.Marshal(s); return string(b) } // only used for string escaping
func jhex(b []byte) string     { return `"` + strings.ToUpper(hex.EncodeToString(b)) + `"` }
func jtime(t time.Time) string { return `"` + t.UTC().Format(jsonTime) + `"` }

// jarr renders a JSON array from n items.
func jarr(n int, item func(i int) string) string {
	parts := make([]string, n)
	for i := range parts {
		parts[i] = item(i)
	}
	return "[" + strings.Join(parts, ",") + "]"
}

func jcomps(c [16]byte) string {
	return jarr(16, func(i int) string { return TcbComponent{c[i]}.JSON() })
}

func (t Tcb) json() string {
	if t.ModuleLevel {
		return fmt.Sprintf(`{"isvsvn":%d}`, t.IsvSvn)
	}
	return fmt.Sprintf(`{"sgxtcbcomponents":%s,"pcesvn":%d,"tdxtcbcomponents":%s}`, jcomps(t.Sgx), t.PceSvn, jcomps(t.Tdx))
}

// AbsentStatus as the Status of a level leaves the tcbStatus member out of the document.
const AbsentStatus = "<absent>"

func jlevels(ls []TcbLevel) string {
	return jarr(len(ls), func(i int) string {
		l, adv := ls[i], ""
		if len(l.AdvisoryIDs) > 0 {
			adv = `,"advisoryIDs":` + jarr(len(l.AdvisoryIDs), func(j int) string { return jstr(l.AdvisoryIDs[j]) })
		}
		st := `,"tcbStatus":` + jstr(l.Status)
		if l.Status == AbsentStatus {
			st = ""
		}
		return fmt.Sprintf(`{"tcb":%s,"tcbDate":%s%s%s}`, l.Tcb.json(), jstr(l.Date), st, adv)
	})
}

func jmodule(mrsigner, attrs, mask []byte) string {
	return fmt.Sprintf(`"mrsigner":%s,"attributes":%s,"attributesMask":%s`, jhex(mrsigner), jhex(attrs), jhex(mask))
}

// JSON is the compact tcbInfo object, byte-for-byte what gets signed.
func (d TcbInfoDoc) JSON() []byte {
	ids := jarr(len(d.ModuleIdentities), func(i int) string {
		m := d.ModuleIdentities[i]
		return fmt.Sprintf(`{"id":%s,%s,"tcbLevels":%s}`, jstr(m.ID), jmodule(m.Mrsigner, m.Attributes, m.AttributesMask), jlevels(m.Levels))
	})
	return []byte(fmt.Sprintf(`{"id":%s,"version":%d,"issueDate":%s,"nextUpdate":%s,"fmspc":%s,"pceId":%s,"tcbType":%d,"tcbEvaluationDataNumber":%d,"tdxModule":{%s},"tdxModuleIdentities":%s,"tcbLevels":%s}`,
		jstr(d.ID), d.Version, jtime(d.IssueDate), jtime(d.NextUpdate), jstr(d.Fmspc), jstr(d.PceID), d.TcbType, d.TcbEvaluationDataNumber,
		jmodule(d.ModuleMrsigner, d.ModuleAttributes, d.ModuleAttributesMask), ids, jlevels(d.Levels)))
}

// JSON is the compact enclaveIdentity object, byte-for-byte what gets signed.
func (d QeIdentityDoc) JSON() []byte {
	return []byte(fmt.Sprintf(`{"id":%s,"version":%d,"issueDate":%s,"nextUpdate":%s,"tcbEvaluationDataNumber":%d,"miscselect":%s,"miscselectMask":%s,"attributes":%s,"attributesMask":%s,"mrsigner":%s,"isvprodid":%d,"tcbLevels":%s}`,
		jstr(d.ID), d.Version, jtime(d.IssueDate), jtime(d.NextUpdate), d.TcbEvaluationDataNumber,
		jhex(d.Miscselect), jhex(d.MiscselectMask), jhex(d.Attributes), jhex(d.AttributesMask), jhex(d.Mrsigner), d.IsvProdID, jlevels(d.Levels)))
}

// SignMember signs the raw member bytes as Intel does: hex(r||s) of ECDSA-P256 over SHA-256(member).
func SignMember(r *rand.Rand, key *ecdsa.PrivateKey, member []byte) string {
	return hex.EncodeToString(SignRaw(r, key, member))
}

// Envelope wraps a signed member: {"<memberName>":<member>,"signature":"<hex>"}.
func Envelope(memberName string, member []byte, sigHex string) []byte {
	return bytes.Join([][]byte{[]byte(`{` + jstr(memberName) + `:`), member, []byte(`,"signature":` + jstr(sigHex) + `}`)}, nil)
}

// ---------------------------------------------------------------- honest collateral

func andBytes(a, mask []byte) []byte {
	out := make([]byte, len(a))
	for i := range a {
		out[i] = a[i] & mask[i]
	}
	return out
}

// atMost draws, per byte, a value in [0, b] (an SVN a platform at level b satisfies).
func atMost(r *rand.Rand, b [16]byte) (out [16]byte) {
	for i := range b {
		out[i] = byte(r.Intn(int(b[i]) + 1))
	}
	return out
}

// ModuleID is the tdxModuleIdentities id selected by TEE_TCB_SVN[1] == version.
func ModuleID(version byte) string { return fmt.Sprintf("TDX_%02x", version) }

// HonestCollateral returns TCB info and QE identity documents that match the
// quote fields and PCK extension: ids/versions as Intel's, masks random with
// value = field & mask, one UpToDate level with SVNs <= the platform's, a TDX
// module identity for TEE_TCB_SVN[1] (or TDX_01 when that is 0), issueDate =
// now-1d, nextUpdate = now+30d.
func HonestCollateral(r *rand.Rand, now time.Time, f QuoteFields, e SGXExt) (TcbInfoDoc, QeIdentityDoc) {
	issue, next := now.UTC().Truncate(time.Second).Add(-day), now.UTC().Truncate(time.Second).Add(30*day)
	tcbDate := now.UTC().Truncate(day).Add(-90 * day).Format(jsonTime)
	evalNum := 1 + r.Intn(20)
	upToDate := func(t Tcb) []TcbLevel { return []TcbLevel{{Tcb: t, Date: tcbDate, Status: "UpToDate"}} }

	modMask := randBytes(r, 8)
	modVersion := f.TeeTcbSvn[1]
	if modVersion == 0 {
		modVersion = 1
	}
	ti := TcbInfoDoc{
		ID: "TDX", Version: 3, IssueDate: issue, NextUpdate: next,
		Fmspc: hex.EncodeToString(e.FMSPC[:]), PceID: hex.EncodeToString(e.PCEID[:]),
		TcbType: 0, TcbEvaluationDataNumber: evalNum,
		ModuleMrsigner: f.MrSignerSeam[:], ModuleAttributes: andBytes(f.SeamAttributes[:], modMask), ModuleAttributesMask: modMask,
		ModuleIdentities: []TdxModuleIdentity{{
			ID: ModuleID(modVersion), Mrsigner: f.MrSignerSeam[:], Attributes: andBytes(f.SeamAttributes[:], modMask), AttributesMask: modMask,
			Levels: upToDate(Tcb{ModuleLevel: true, IsvSvn: uint32(r.Intn(int(f.TeeTcbSvn[0]) + 1))}),
		}},
		Levels: upToDate(Tcb{Sgx: atMost(r, e.CPUSVNComps), PceSvn: uint16(r.Intn(int(e.PCESVN) + 1)), Tdx: atMost(r, f.TeeTcbSvn)}),
	}

	miscMask, attrMask := randBytes(r, 4), randBytes(r, 16)
	qi := QeIdentityDoc{
		ID: "TD_QE", Version: 2, IssueDate: issue, NextUpdate: next, TcbEvaluationDataNumber: evalNum,
		Miscselect: andBytes(le32(f.QeMiscSelect), miscMask), MiscselectMask: miscMask,
		Attributes: andBytes(f.QeAttributes[:], attrMask), AttributesMask: attrMask,
		Mrsigner: f.QeMrSigner[:], IsvProdID: f.QeIsvProdID,
		Levels: upToDate(Tcb{ModuleLevel: true, IsvSvn: uint32(r.Intn(int(f.QeIsvSvn) + 1))}),
	}
	return ti, qi
}
