package world

import (
	"encoding/hex"
	"fmt"
	"math/big"
	"math/rand"
	"time"

	"github.com/google/go-tdx-guest/pcs"
	"github.com/google/go-tdx-guest/verify"
)

// Canonical (http.CanonicalHeaderKey) names of Intel's issuer-chain response headers.
const (
	TcbInfoIssuerChainHeader    = "Tcb-Info-Issuer-Chain"
	QeIdentityIssuerChainHeader = "Sgx-Enclave-Identity-Issuer-Chain"
	PckCrlIssuerChainHeader     = "Sgx-Pck-Crl-Issuer-Chain"
)

// World is one complete attestation universe: PKI, quote, collateral and CRLs.
// Mutate the exported pieces and call Seal (or re-assemble by
// hand from the lower-level functions) to derive dishonest variants.
type World struct {
	PKI                                           *PKI
	Fields                                        QuoteFields
	Quote                                         *BuiltQuote
	TcbInfo                                       TcbInfoDoc
	QeIdentity                                    QeIdentityDoc
	TcbInfoBody, QeIdentityBody                   []byte // signed envelopes
	TcbInfoHeader, QeIdentityHeader, PckCrlHeader map[string][]string
	PckCrl, RootCrl                               []byte // DER
	Now                                           time.Time
}

// HonestWorld forges a random world that the real verifier accepts at time now
// with or without collateral / revocation checking.
func HonestWorld(r *rand.Rand, now time.Time) (*World, error) {
	pki, err := NewPKI(r, PKIOpts{Now: now, Ext: RandomSGXExt(r)})
	if err != nil {
		return nil, err
	}
	return BuildWorld(r, now, pki, DefaultQuoteFields(r))
}

// BuildWorld forges the quote for f under pki (f.ChainPEM nil => pki.ChainPEM())
// together with matching honest collateral and CRLs that revoke only unrelated serials.
func BuildWorld(r *rand.Rand, now time.Time, pki *PKI, f QuoteFields) (*World, error) {
	if f.ChainPEM == nil {
		f.ChainPEM = pki.ChainPEM()
	}
	w := &World{PKI: pki, Fields: f, Now: now}
	var err error
	if w.Quote, err = BuildQuote(r, f, pki.Leaf.Key); err != nil {
		return nil, err
	}
	w.TcbInfo, w.QeIdentity = HonestCollateral(r, now, f, pki.Opts.Ext)
	w.Seal(r)
	unrelated := func() []*big.Int { // 1..3 serials that collide with nothing in the PKI (21 bytes vs 20)
		out := make([]*big.Int, 1+r.Intn(3))
		for i := range out {
			out[i] = new(big.Int).SetBytes(append([]byte{1}, randBytes(r, 20)...))
		}
		return out
	}
	this, next := now.Add(-day), now.Add(30*day)
	if w.PckCrl, err = MakeCRL(r, pki.Inter, unrelated(), this, next, 1); err != nil {
		return nil, err
	}
	if w.RootCrl, err = MakeCRL(r, pki.Root, unrelated(), this, next, 1); err != nil {
		return nil, err
	}
	return w, nil
}

// Seal (re)signs w.TcbInfo and w.QeIdentity with the TCB signer and refreshes the
// bodies and issuer-chain headers; call it after editing the documents.
func (w *World) Seal(r *rand.Rand) {
	p := w.PKI
	ti, qi := w.TcbInfo.JSON(), w.QeIdentity.JSON()
	w.TcbInfoBody = Envelope("tcbInfo", ti, SignMember(r, p.TcbSigner.Key, ti))
	w.QeIdentityBody = Envelope("enclaveIdentity", qi, SignMember(r, p.TcbSigner.Key, qi))
	tcbChain := []string{p.IssuerChainHeader(p.TcbSigner, p.Root)}
	w.TcbInfoHeader = map[string][]string{TcbInfoIssuerChainHeader: tcbChain}
	w.QeIdentityHeader = map[string][]string{QeIdentityIssuerChainHeader: tcbChain}
	w.PckCrlHeader = map[string][]string{PckCrlIssuerChainHeader: {p.IssuerChainHeader(p.Inter, p.Root)}}
}

// URLs are the four locations the verifier will fetch for this world.
func (w *World) URLs() (tcbInfoURL, qeIdentityURL, pckCrlURL, rootCrlURL string) {
	fmspc := hex.EncodeToString(w.PKI.Opts.Ext.FMSPC[:])
	return pcs.TcbInfoURL(fmspc), pcs.QeIdentityURL(), pcs.PckCrlURL(w.PKI.CA()), w.PKI.Opts.RootCRLURL
}

// Resp is one canned HTTPS response.
type Resp struct {
	Header map[string][]string
	Body   []byte
	Err    error
}

// Getter is an in-memory trust.HTTPSGetter that records every requested URL.
type Getter struct {
	Resp  map[string]Resp
	Calls []string
}

// Get implements trust.HTTPSGetter; unknown URLs fail.
func (g *Getter) Get(url string) (map[string][]string, []byte, error) {
	g.Calls = append(g.Calls, url)
	resp, ok := g.Resp[url]
	if !ok {
		return nil, nil, fmt.Errorf("world: no response for %q", url)
	}
	return resp.Header, resp.Body, resp.Err
}

// Getter serves this world's honest responses (a fresh instance per call).
func (w *World) Getter() *Getter {
	tcb, qe, pck, root := w.URLs()
	return &Getter{Resp: map[string]Resp{
		tcb:  {Header: w.TcbInfoHeader, Body: w.TcbInfoBody},
		qe:   {Header: w.QeIdentityHeader, Body: w.QeIdentityBody},
		pck:  {Header: w.PckCrlHeader, Body: w.PckCrl},
		root: {Body: w.RootCrl},
	}}
}

// Options are fresh verifier options rooted in this world's PKI and clock.
func (w *World) Options(getCollateral, checkCrl bool) *verify.Options {
	return &verify.Options{
		GetCollateral:    getCollateral,
		CheckRevocations: checkCrl,
		Getter:           w.Getter(),
		TrustedRoots:     w.PKI.RootPool(),
		Now:              &verify.TimeSet{PckCertChain: w.Now, TcbInfo: w.Now, QeIdentity: w.Now, PckCrl: w.Now, RootCaCrl: w.Now},
	}
}
