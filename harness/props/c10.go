package props

import (
	"bytes"
	"crypto/x509"
	"crypto/x509/pkix"
	"encoding/asn1"
	"encoding/json"
	"fmt"
	"sort"
	"time"

	"github.com/google/go-tdx-guest/abi"
	"github.com/google/go-tdx-guest/pcs"
	pb "github.com/google/go-tdx-guest/proto/tdx"
	"github.com/google/go-tdx-guest/rtmr"
	"github.com/google/go-tdx-guest/validate"
	"github.com/google/go-tdx-guest/verify"
	"google.golang.org/protobuf/proto"

	"verifharness/core"
	"verifharness/world"
)

// guarded runs f under recover and a watchdog.
func guarded(f func()) (pan any, timedOut bool) {
	done := make(chan any, 1)
	go func() {
		var p any
		defer func() { done <- p }()
		defer func() { p = recover() }()
		f()
	}()
	select {
	case p := <-done:
		return p, false
	case <-time.After(10 * time.Second):
		return nil, true
	}
}

func C10(c *core.Ctx) {
	c.Rule = "each public entry point on each untrusted input kind, under recover and a 10 s watchdog: abi.QuoteToProto (and abi.QuoteToAbiBytes on what it returns) / verify.RawTdxQuote / validate.RawTdxQuote on all truncations, size-field boundary values and mutations of valid quotes; abi.QuoteToAbiBytes / abi.CheckQuoteV4 / verify.TdxQuote / validate.TdxQuote / verify.ExtractChainFromQuote / verify.SupportedTcbLevelsFromCollateral (on options primed with collateral by an earlier verification) / rtmr.ParseCcelWithTdQuote on every single structural mutation of a valid message (each sub-message nil, each bytes field nil/empty/short/long, RTMR count 0..5, numeric boundaries, nil message); arbitrary collateral / CRL / header responses; the genuine TCB info and QE identity documents with every member and array element (first two and last of each array) replaced by a value of another JSON shape (0, 7, 12, -1, 1.5, 1e400, null, true, strings, [], {}, nested, 20-digit numbers) or deleted, through the pcs JSON decoders and through verification; the same replacements inside the signed member re-signed by the world's TCB signer (two worlds, one with a TDX module identity in play), through verification and through SupportedTcbLevelsFromCollateral on the options it leaves behind with well-formed and structurally odd messages; arbitrary PEM / DER in the certificate chain; arbitrary DER in the SGX extension through pcs.PckCertificateExtensions (random mutations plus every single byte replaced by 0x00 / 0x13 / 0x7f / 0x80 / 0xff). The model's verdict is compared wherever the entry point is modelled. non-trivial = input reaches beyond the first size check; distinct = distinct (entry point, input)"
	r := c.Rng
	w, err := world.HonestWorld(r, baseTime)
	if err != nil {
		panic(err)
	}
	noPanic := func(class, desc string, nt bool, f func()) {
		if !c.Wanted() {
			c.Add(&core.Case{Class: class, SkipModel: true, Impl: core.Ls()})
			return
		}
		pan, to := guarded(f)
		gt := ""
		if pan != nil {
			gt = fmt.Sprintf("%s panicked: %v", class, pan)
		} else if to {
			gt = class + " did not return within 10 s"
		}
		c.Add(&core.Case{Class: class, Desc: desc, SkipModel: true, Impl: core.Ls(), GT: gt, NonTrivial: nt})
	}
	// ---- byte strings ----
	rawCases(c, func(class, desc string, raw []byte) {
		nt := len(raw) >= 636
		// parser (model compared)
		if c.Wanted() {
			impl, _, pan := implParse(raw)
			gt := ""
			if pan != nil {
				gt = fmt.Sprintf("abi.QuoteToProto panicked: %v", pan)
			}
			c.Add(&core.Case{Class: "QuoteToProto/" + class, Desc: desc, Entry: "abi", Input: core.Ls(core.A(0), core.Bs(raw)), Impl: impl, GT: gt, NonTrivial: nt})
		} else {
			c.Add(&core.Case{Class: "QuoteToProto/" + class, SkipModel: true, Impl: core.Ls()})
		}
		noPanic("QuoteToAbiBytes(parsed)/"+class, desc, nt, func() {
			if qp, err := abi.QuoteToProto(raw); err == nil {
				_, _ = abi.QuoteToAbiBytes(qp)
			}
		})
		if class == "mutated" && r.Intn(3) != 0 {
			return
		}
		sc := scenarioFromWorld(w, false, false)
		sc.Raw = raw
		runScenario(c, "RawTdxQuote/"+class, desc, sc, nil, nt)
		noPanic("validate.RawTdxQuote/"+class, desc, nt, func() { _ = validate.RawTdxQuote(raw, &validate.Options{}) })
	})
	// options that carry collateral and PCK extensions from an earlier verification (the state
	// verify.SupportedTcbLevelsFromCollateral works on)
	primed, _ := scenarioFromWorld(w, true, true).options()
	if qa, err := abi.QuoteToProto(w.Quote.Raw); err == nil {
		_ = verify.TdxQuote(qa, primed)
	}
	// ---- messages ----
	msgCases(c, func(class, desc string, q *pb.QuoteV4) {
		nt := q != nil
		noPanic("rtmr.ParseCcelWithTdQuote/"+class, desc, nt, func() {
			o := rtmr.TdxDefaultOpts(nil)
			o.Verification, _ = scenarioFromWorld(w, false, false).options()
			_, _ = rtmr.ParseCcelWithTdQuote(nil, nil, q, &o)
		})
		noPanic("SupportedTcbLevelsFromCollateral/"+class, desc, nt, func() { _, _, _ = verify.SupportedTcbLevelsFromCollateral(q, primed) })
		noPanic("SupportedTcbLevelsFromCollateral(fresh options)/"+class, desc, nt, func() {
			_, _, _ = verify.SupportedTcbLevelsFromCollateral(q, &verify.Options{})
		})
		for _, col := range []bool{false, true} {
			sc := scenarioFromWorld(w, col, false)
			sc.UseMsg, sc.Msg = true, q
			runScenario(c, fmt.Sprintf("TdxQuote(collateral=%v)/%s", col, class), desc, sc, nil, nt)
		}
		scn := scenarioFromWorld(w, false, false)
		scn.UseMsg, scn.Msg, scn.NilOpts = true, q, true
		runScenario(c, "TdxQuote(nil options)/"+class, desc, scn, nil, nt)
		noPanic("ExtractChainFromQuote/"+class, desc, nt, func() { _, _ = verify.ExtractChainFromQuote(q) })
		noPanic("validate.TdxQuote/"+class, desc, nt, func() {
			_ = validate.TdxQuote(q, &validate.Options{TdQuoteBodyOptions: validate.TdQuoteBodyOptions{MinimumTeeTcbSvn: make([]byte, 16), Rtmrs: [][]byte{nil, nil, nil, nil}}})
		})
		noPanic("QuoteToAbiBytes/"+class, desc, nt, func() { _, _ = abi.QuoteToAbiBytes(q) })
		noPanic("CheckQuoteV4/"+class, desc, nt, func() { _ = abi.CheckQuoteV4(q) })
	})
	noPanic("SupportedTcbLevelsFromCollateral(untyped nil)", "quote = nil interface, primed options", false, func() { _, _, _ = verify.SupportedTcbLevelsFromCollateral(nil, primed) })
	noPanic("SupportedTcbLevelsFromCollateral(nil options)", "nil options", false, func() { _, _, _ = verify.SupportedTcbLevelsFromCollateral(&pb.QuoteV4{}, nil) })
	noPanic("TdxQuote(untyped nil)", "quote = nil interface", false, func() { _ = verify.TdxQuote(nil, &verify.Options{}) })
	noPanic("TdxQuote(other type)", "quote = string", false, func() { _ = verify.TdxQuote("x", &verify.Options{}) })
	noPanic("ExtractChainFromQuote(untyped nil)", "nil", false, func() { _, _ = verify.ExtractChainFromQuote(nil) })
	noPanic("QuoteToAbiBytes(untyped nil)", "nil", false, func() { _, _ = abi.QuoteToAbiBytes(nil) })
	noPanic("validate.TdxQuote(untyped nil)", "nil", false, func() { _ = validate.TdxQuote(nil, &validate.Options{}) })

	// ---- certificate chain contents ----
	chains := [][]byte{nil, {}, {0}, []byte("-----BEGIN CERTIFICATE-----\n"), []byte("-----BEGIN CERTIFICATE-----\nAAAA\n-----END CERTIFICATE-----\n"),
		w.PKI.Leaf.PEM(), append(w.PKI.Leaf.PEM(), w.PKI.Inter.PEM()...), append(w.PKI.ChainPEM(), 0), append(w.PKI.ChainPEM(), 0, 0), append(w.PKI.ChainPEM(), 'x'),
		append(append([]byte{}, w.PKI.ChainPEM()...), w.PKI.Root.PEM()...), core.RandBytes(r, 300)}
	for i := 0; i < c.Scale(20, 300); i++ {
		m := append([]byte{}, w.PKI.ChainPEM()...)
		for k := 0; k <= r.Intn(3); k++ {
			m[r.Intn(len(m))] = byte(r.Intn(256))
		}
		chains = append(chains, m)
	}
	for i, ch := range chains {
		f := w.Fields
		f.ChainPEM = ch
		if ch == nil {
			f.ChainPEM = []byte{}
		}
		q, err := world.BuildQuote(r, f, w.PKI.Leaf.Key)
		if err != nil {
			continue
		}
		sc := scenarioFromWorld(w, i%2 == 0, false)
		sc.Raw = q.Raw
		runScenario(c, "chain-contents", fmt.Sprintf("chain variant %d (%d bytes)", i, len(ch)), sc, nil, true)
	}
	// ---- arbitrary endpoint responses ----
	tcbURL, qeURL, pckURL, rootURL := w.URLs()
	bodies := [][]byte{nil, {}, []byte("{}"), []byte("[]"), []byte("null"), []byte(`{"tcbInfo":null,"signature":null}`), []byte(`{"tcbInfo":{"tcbLevels":[{}]},"signature":""}`),
		[]byte(`{"tcbInfo":{"tcbLevels":[{"tcb":{"sgxtcbcomponents":[],"tdxtcbcomponents":[]},"tcbStatus":"UpToDate"}],"id":"TDX","version":3},"signature":"00"}`),
		[]byte(`{"enclaveIdentity":{"tcbLevels":[{"tcb":{"isvsvn":0},"tcbStatus":"UpToDate"}],"id":"TD_QE","version":2,"miscselectMask":"","attributesMask":""},"signature":"00"}`),
		[]byte(`{"tcbInfo":{"version":300}}`), []byte(`{"tcbInfo":{"nextUpdate":"x"}}`), core.RandBytes(r, 64), {0x30, 0x80}, {0x30, 0x84, 0xff, 0xff, 0xff, 0xff}}
	hdrs := []map[string][]string{nil, {}, {world.TcbInfoIssuerChainHeader: nil}, {world.TcbInfoIssuerChainHeader: {"%"}}, {world.TcbInfoIssuerChainHeader: {"-----BEGIN CERTIFICATE-----"}},
		{world.TcbInfoIssuerChainHeader: {string(w.PKI.Root.PEM())}}}
	for _, url := range []string{tcbURL, qeURL, pckURL, rootURL} {
		for bi, b := range bodies {
			for hi, h := range hdrs {
				if (bi+hi)%3 != 0 && !c.Thorough() {
					continue
				}
				sc := scenarioFromWorld(w, true, true)
				sc.Resp = cloneResp(sc.Resp)
				x := sc.Resp[url]
				x.Body = b
				if hi > 0 {
					x.Header = map[string][]string{}
					for k, v := range h {
						x.Header[k] = v
						x.Header[world.QeIdentityIssuerChainHeader] = v
						x.Header[world.PckCrlIssuerChainHeader] = v
					}
				}
				sc.Resp[url] = x
				runScenario(c, "endpoint-response", fmt.Sprintf("%s: body %d, header %d", url[len(url)-12:], bi, hi), sc, nil, true)
			}
		}
	}
	// ---- collateral JSON with one member or element replaced by a value of another shape ----
	{
		aliens := []string{`0`, `7`, `12`, `-1`, `1.5`, `1e400`, `null`, `true`, `""`, `"0"`, `"zz"`, `"00"`, `"0g"`, `[]`, `{}`, `[0]`, `[null]`, `{"a":0}`, `"` + string(make([]byte, 0)) + `\u0000"`, `"UpToDate"`, `"2026-13-45T00:00:00Z"`, `99999999999999999999`}
		type variant struct {
			path string
			body []byte
		}
		// every path of the document, each with the alien values (a rotating subset when quick) and deleted
		mutants := func(doc []byte) (out []variant) {
			var root any
			if json.Unmarshal(doc, &root) != nil {
				return nil
			}
			n := 0
			canon, _ := json.Marshal(root)
			defer func() { // a replacement by the value already there is not a mutation
				kept := out[:0]
				for _, v := range out {
					if !bytes.Equal(v.body, canon) {
						kept = append(kept, v)
					}
				}
				out = kept
			}()
			var walk func(node any, path string, put func(v any, del bool) []byte)
			walk = func(node any, path string, put func(v any, del bool) []byte) {
				for ai, a := range aliens {
					n++
					if !c.Thorough() && (n+ai)%5 != 0 && a != `0` && a != `null` {
						continue
					}
					out = append(out, variant{path + " = " + a, put(json.RawMessage(a), false)})
				}
				out = append(out, variant{path + " deleted", put(nil, true)})
				switch x := node.(type) {
				case map[string]any:
					keys := make([]string, 0, len(x))
					for k := range x {
						keys = append(keys, k)
					}
					sort.Strings(keys)
					for _, k := range keys {
						k, old := k, x[k]
						walk(old, path+"."+k, func(v any, del bool) []byte {
							if del {
								delete(x, k)
							} else {
								x[k] = v
							}
							b := put(x, false)
							x[k] = old
							return b
						})
					}
				case []any:
					for i := range x {
						if i > 1 && i < len(x)-1 {
							continue // first two and last elements of every array
						}
						i, old := i, x[i]
						walk(old, fmt.Sprintf("%s[%d]", path, i), func(v any, del bool) []byte {
							var b []byte
							if del {
								y := append(append([]any{}, x[:i]...), x[i+1:]...)
								b = put(y, false)
							} else {
								x[i] = v
								b = put(x, false)
								x[i] = old
							}
							return b
						})
					}
				}
			}
			walk(root, "$", func(v any, del bool) []byte {
				if del {
					return []byte{}
				}
				b, _ := json.Marshal(v)
				return b
			})
			return out
		}
		for _, url := range []string{tcbURL, qeURL} {
			genuine := scenarioFromWorld(w, true, false).Resp[url].Body
			for i, m := range mutants(genuine) {
				m := m
				name := "tcbInfo"
				if url == qeURL {
					name = "qeIdentity"
				}
				noPanic("json/"+name, name+" response with "+m.path, true, func() {
					var t pcs.TdxTcbInfo
					_ = json.Unmarshal(m.body, &t)
					var q pcs.QeIdentity
					_ = json.Unmarshal(m.body, &q)
				})
				if c.Thorough() || i%4 == 0 {
					sc := scenarioFromWorld(w, true, i%8 == 0)
					sc.Resp = cloneResp(sc.Resp)
					x := sc.Resp[url]
					x.Body = m.body
					sc.Resp[url] = x
					runScenarioImplOnly(c, "endpoint-json", name+" response with "+m.path, sc, func(cl uint64, err error) string {
						if cl == 0 {
							return "accepted with a collateral document that was altered after signing"
						}
						return ""
					})
				}
			}
		}
		// ---- the same replacements inside the signed member, re-signed by the TCB signer the world
		// trusts: this reaches the code behind the signature check, and the state that
		// SupportedTcbLevelsFromCollateral works on (queried with well-formed and with structurally
		// odd messages) ----
		pkiM, err := world.NewPKI(r, world.PKIOpts{Now: baseTime, Ext: world.RandomSGXExt(r)})
		if err != nil {
			panic(err)
		}
		fM := world.DefaultQuoteFields(r)
		fM.TeeTcbSvn[1] = 3 // a platform whose TDX module version selects a module identity
		wM, err := world.BuildWorld(r, baseTime, pkiM, fM)
		if err != nil {
			panic(err)
		}
		for wi, wv := range []*world.World{w, wM} {
			tcbU, qeU, _, _ := wv.URLs()
			var odd []*pb.QuoteV4
			var qa any
			var err error
			_ = safely(func() { qa, err = abi.QuoteToProto(wv.Quote.Raw) })
			if qa != nil && err == nil {
				base := qa.(*pb.QuoteV4)
				odd = append(odd, base)
				for _, n := range []int{0, 1, 2, 15, 17} {
					m := proto.Clone(base).(*pb.QuoteV4)
					m.TdQuoteBody.TeeTcbSvn = make([]byte, n)
					odd = append(odd, m)
				}
				m := proto.Clone(base).(*pb.QuoteV4)
				m.TdQuoteBody = nil
				odd = append(odd, m)
				m = proto.Clone(base).(*pb.QuoteV4)
				m.SignedData.CertificationData.QeReportCertificationData.QeReport = nil
				odd = append(odd, m, &pb.QuoteV4{})
			}
			for _, doc := range []struct {
				name, member, url string
				inner             []byte
			}{{"tcbInfo", "tcbInfo", tcbU, wv.TcbInfo.JSON()}, {"qeIdentity", "enclaveIdentity", qeU, wv.QeIdentity.JSON()}} {
				for i, m := range mutants(doc.inner) {
					if !c.Thorough() && i%3 != 0 {
						continue
					}
					body := world.Envelope(doc.member, m.body, world.SignMember(r, wv.PKI.TcbSigner.Key, m.body))
					sc := scenarioFromWorld(wv, true, false)
					sc.Resp = cloneResp(sc.Resp)
					x := sc.Resp[doc.url]
					x.Body = body
					sc.Resp[doc.url] = x
					desc := fmt.Sprintf("world %d: signed %s with %s", wi, doc.name, m.path)
					runScenarioImplOnly(c, "signed-json/"+doc.name, desc, sc, nil)
					noPanic("signed-json/SupportedTcbLevelsFromCollateral", desc, true, func() {
						o, _ := sc.options()
						_ = verify.RawTdxQuote(sc.Raw, o)
						for _, q := range odd {
							_, _, _ = verify.SupportedTcbLevelsFromCollateral(q, o)
						}
					})
				}
			}
		}
	}
	// ---- SGX extension DER ----
	ders := [][]byte{nil, {}, {0x30, 0x00}, {0x30, 0x80}, {0x04, 0x01, 0x00}, {0x30, 0x03, 0x02, 0x01}, core.RandBytes(r, 40), w.PKI.Opts.Ext.DER()[:20],
		append(append([]byte{}, w.PKI.Opts.Ext.DER()...), 0)}
	good := w.PKI.Opts.Ext.DER()
	for i := 0; i < c.Scale(60, 2000); i++ {
		m := append([]byte{}, good...)
		for k := 0; k <= r.Intn(3); k++ {
			m[r.Intn(len(m))] = byte(r.Intn(256))
		}
		ders = append(ders, m)
	}
	// every single byte replaced by each boundary value (reaches every length, tag and OID arc)
	for p := range good {
		for _, v := range []byte{0x00, 0x13, 0x7f, 0x80, 0xff} {
			if good[p] != v {
				m := append([]byte{}, good...)
				m[p] = v
				ders = append(ders, m)
			}
		}
	}
	for i, d := range ders {
		d := d
		noPanic("PckCertificateExtensions", fmt.Sprintf("SGX extension variant %d (%d bytes)", i, len(d)), true, func() {
			cert := &x509.Certificate{Extensions: []pkix.Extension{{Id: asn1.ObjectIdentifier{2, 5, 29, 35}}, {Id: asn1.ObjectIdentifier{2, 5, 29, 31}}, {Id: asn1.ObjectIdentifier{2, 5, 29, 14}},
				{Id: asn1.ObjectIdentifier{2, 5, 29, 15}}, {Id: asn1.ObjectIdentifier{2, 5, 29, 19}}, {Id: pcs.OidSgxExtension, Value: d}}}
			_, _ = pcs.PckCertificateExtensions(cert)
		})
	}
	noPanic("PckCertificateExtensions", "certificate without extensions", false, func() { _, _ = pcs.PckCertificateExtensions(&x509.Certificate{}) })
}
