package props

import (
	"bytes"
	"crypto/x509"
	"encoding/pem"
	"fmt"
	"os"
	"path/filepath"
	"sort"
	"time"

	ccpb "github.com/google/go-tdx-guest/proto/checkconfig"
	"github.com/google/go-tdx-guest/verify"

	"verifharness/core"
	"verifharness/world"
)

func pemOf(c *world.Cert) []byte { return c.PEM() }

// chainsToPool: ground truth — does the chain carried in the quote really chain
// to a pool certificate, with a PCK-role leaf?  (harness-side x509 on its own certs)
func chainsToPool(leaf, inter *x509.Certificate, pool []*x509.Certificate) bool {
	if leaf.Subject.CommonName != "Intel SGX PCK Certificate" {
		return false
	}
	if leaf.CheckSignatureFrom(inter) != nil {
		return false
	}
	for _, r := range pool {
		if bytes.Equal(r.Raw, inter.Raw) || bytes.Equal(r.Raw, leaf.Raw) {
			return true
		}
		if inter.CheckSignatureFrom(r) == nil || leaf.CheckSignatureFrom(r) == nil {
			return true
		}
	}
	return false
}

func C02(c *core.Ctx) {
	c.Rule = "pairs (quote under PKI A, trusted pool from PKI B / nothing (embedded Intel root) / A / A+B / only A's intermediate / only A's leaf); every substitution of one chain element by its same-named look-alike from PKI B; role-confusion chains (TCB-signing certificate or a CA certificate as 'leaf', leaf issued directly by the root, wrong leaf CN, Processor-CA intermediate); one options value re-used while its trusted pool is replaced (A, B, A, empty, A+B); root-of-trust configurations (nil, files, inline, mixed, duplicate, empty, non-PEM, unreadable) through verify.RootOfTrustToOptions. Ground truth: an accepted quote's chain really chains to a pool certificate and its leaf has the PCK role; a configuration trusts exactly the listed certificates. non-trivial = every case; distinct = distinct (quote, pool)"
	r := c.Rng
	mkPKI := func(proc bool) *world.PKI {
		p, err := world.NewPKI(r, world.PKIOpts{Now: baseTime, Ext: world.RandomSGXExt(r), Processor: proc})
		if err != nil {
			panic(err)
		}
		return p
	}
	n := c.Scale(4, 60)
	for rep := 0; rep < n; rep++ {
		A, B := mkPKI(false), mkPKI(false)
		wA, err := world.BuildWorld(r, baseTime, A, world.DefaultQuoteFields(r))
		if err != nil {
			panic(err)
		}
		try := func(class, desc string, raw []byte, pool []*x509.Certificate, leaf, inter *x509.Certificate, level int) {
			col, crl, lname := levelOf(level)
			sc := scenarioFromWorld(wA, col, crl)
			sc.Raw = raw
			sc.Roots = pool
			gtPool := pool
			if pool == nil {
				gtPool = []*x509.Certificate{embeddedRoot}
			}
			runScenario(c, class, desc+" @"+lname, sc, func(cl uint64, err error) string {
				if cl == 0 && !chainsToPool(leaf, inter, gtPool) {
					return "accepted although the chain in the quote does not chain to the trusted pool with a PCK-role leaf"
				}
				return ""
			}, true)
		}
		lA, iA, rA := A.Leaf.Cert, A.Inter.Cert, A.Root.Cert
		pools := []struct {
			name string
			p    []*x509.Certificate
		}{{"pool=B", []*x509.Certificate{B.Root.Cert}}, {"pool=embedded", nil}, {"pool=A", []*x509.Certificate{rA}},
			{"pool=A+B", []*x509.Certificate{B.Root.Cert, rA}}, {"pool=A.intermediate", []*x509.Certificate{iA}},
			{"pool=A.leaf", []*x509.Certificate{lA}}, {"pool=B.all", []*x509.Certificate{B.Root.Cert, B.Inter.Cert, B.Leaf.Cert}},
			{"pool=empty", []*x509.Certificate{}}, {"pool=A.tcbsigner", []*x509.Certificate{A.TcbSigner.Cert}}}
		for i, p := range pools {
			try("pair", "genuine A quote, "+p.name, wA.Quote.Raw, p.p, lA, iA, i)
		}
		// the same pairs with an unset time set (the wall clock, inside every validity window)
		for _, p := range pools[:4] {
			sc := scenarioFromWorld(wA, false, false)
			sc.Now, sc.Wall, sc.Roots = nil, time.Now(), p.p
			gtPool := p.p
			if p.p == nil {
				gtPool = []*x509.Certificate{embeddedRoot}
			}
			runScenario(c, "pair-nil-timeset", "genuine A quote, "+p.name+", Now unset", sc, func(cl uint64, err error) string {
				ok := chainsToPool(lA, iA, gtPool)
				if cl == 0 && !ok {
					return "accepted although the chain in the quote does not chain to the trusted pool"
				}
				if cl != 0 && ok {
					return "a quote that chains to the caller's pool was rejected with an unset time set: " + err.Error()
				}
				return ""
			}, true)
		}
		// one long-lived options value whose trusted pool is replaced between verifications (a CA
		// bundle reload): every call is judged against the pool in force at that call
		for _, pinned := range []bool{true, false} {
			ts := &verify.TimeSet{PckCertChain: baseTime, TcbInfo: baseTime, QeIdentity: baseTime, PckCrl: baseTime, RootCaCrl: baseTime}
			shared := &verify.Options{TrustedRoots: A.RootPool()}
			if pinned {
				shared.Now = ts
			}
			seq := []struct {
				name string
				pool *x509.CertPool
				want bool
			}{{"A", A.RootPool(), true}, {"B", B.RootPool(), false}, {"A again", A.RootPool(), true}, {"empty", x509.NewCertPool(), false}, {"A+B", func() *x509.CertPool {
				p := x509.NewCertPool()
				p.AddCert(B.Root.Cert)
				p.AddCert(A.Root.Cert)
				return p
			}(), true}}
			gt := ""
			var trace []string
			for _, st := range seq {
				shared.TrustedRoots = st.pool
				var err error
				pan := safely(func() { err = verify.RawTdxQuote(wA.Quote.Raw, shared) })
				trace = append(trace, fmt.Sprintf("%s:%v", st.name, err == nil && pan == nil))
				switch {
				case pan != nil:
					gt = fmt.Sprintf("verification panicked: %v", pan)
				case (err == nil) && !st.want && gt == "":
					gt = "after the trusted pool of a re-used options value was replaced by " + st.name + ", a quote that does not chain to it is still accepted"
				case (err != nil) && st.want && gt == "" && (pinned || true):
					if pinned {
						gt = "a quote that chains to the pool now in force (" + st.name + ") is rejected through the re-used options value: " + err.Error()
					}
				}
			}
			c.Add(&core.Case{Class: "pool-history", Desc: fmt.Sprintf("shared options, pinned time=%v: %v", pinned, trace), SkipModel: true, Impl: core.Ls(), GT: gt, NonTrivial: true})
		}
		// look-alike substitution of one chain element (quote otherwise untouched: signed by A's leaf key)
		build := func(chain []byte, pckKey *world.Cert) []byte {
			f := wA.Fields
			f.ChainPEM = chain
			q, err := world.BuildQuote(r, f, pckKey.Key)
			if err != nil {
				panic(err)
			}
			return q.Raw
		}
		cat := func(cs ...*world.Cert) []byte {
			var out []byte
			for _, x := range cs {
				out = append(out, pemOf(x)...)
			}
			return out
		}
		subs := []struct {
			name        string
			chain       []byte
			key         *world.Cert
			leaf, inter *x509.Certificate
		}{
			{"leaf from B", cat(B.Leaf, A.Inter, A.Root), B.Leaf, B.Leaf.Cert, iA},
			{"intermediate from B", cat(A.Leaf, B.Inter, A.Root), A.Leaf, lA, B.Inter.Cert},
			{"root from B", cat(A.Leaf, A.Inter, B.Root), A.Leaf, lA, iA},
			{"leaf+intermediate from B, root A", cat(B.Leaf, B.Inter, A.Root), B.Leaf, B.Leaf.Cert, B.Inter.Cert},
			{"whole chain from B", cat(B.Leaf, B.Inter, B.Root), B.Leaf, B.Leaf.Cert, B.Inter.Cert},
			{"order inter,leaf,root", cat(A.Inter, A.Leaf, A.Root), A.Leaf, iA, lA},
			{"root twice", cat(A.Leaf, A.Root, A.Root), A.Leaf, lA, rA},
		}
		for i, s := range subs {
			for j, p := range pools[:4] {
				try("look-alike", s.name+", "+p.name, build(s.chain, s.key), p.p, s.leaf, s.inter, i+j)
			}
		}
		// role confusion
		mk := func(spec world.CertSpec, parent *world.Cert) *world.Cert {
			cert, err := world.MakeCert(r, spec, world.NewKey(r), parent)
			if err != nil {
				panic(err)
			}
			return cert
		}
		ext := A.Opts.Ext.DER()
		win := func(cn string, ca bool, sgx bool) world.CertSpec {
			s := world.CertSpec{CN: cn, NotBefore: baseTime.AddDate(-1, 0, 0), NotAfter: baseTime.AddDate(1, 0, 0), IsCA: ca,
				CRLDP: []string{"https://example.invalid/crl"}}
			if sgx {
				s.SGXExtDER = ext
			}
			return s
		}
		leafByRoot := mk(win("Intel SGX PCK Certificate", false, true), A.Root)
		wrongCN := mk(win("Intel SGX PCK Certificate X", false, true), A.Inter)
		caLeaf := mk(win("Intel SGX PCK Certificate", true, true), A.Inter)
		procPKI := mkPKI(true)
		roles := []struct {
			name        string
			chain       []byte
			key         *world.Cert
			leaf, inter *x509.Certificate
			pool        []*x509.Certificate
		}{
			{"TCB-signing certificate as leaf (issued by the trusted root)", cat(A.TcbSigner, A.Root, A.Root), A.TcbSigner, A.TcbSigner.Cert, rA, []*x509.Certificate{rA}},
			{"intermediate CA as leaf", cat(A.Inter, A.Root, A.Root), A.Inter, iA, rA, []*x509.Certificate{rA}},
			{"PCK-named leaf issued directly by the root, root as intermediate", cat(leafByRoot, A.Root, A.Root), leafByRoot, leafByRoot.Cert, rA, []*x509.Certificate{rA}},
			{"PCK-named leaf issued by root, genuine intermediate listed", cat(leafByRoot, A.Inter, A.Root), leafByRoot, leafByRoot.Cert, iA, []*x509.Certificate{rA}},
			{"leaf with a different common name", cat(wrongCN, A.Inter, A.Root), wrongCN, wrongCN.Cert, iA, []*x509.Certificate{rA}},
			{"leaf that is itself a CA", cat(caLeaf, A.Inter, A.Root), caLeaf, caLeaf.Cert, iA, []*x509.Certificate{rA}},
			{"Processor-CA chain under its own root", cat(procPKI.Leaf, procPKI.Inter, procPKI.Root), procPKI.Leaf, procPKI.Leaf.Cert, procPKI.Inter.Cert, []*x509.Certificate{procPKI.Root.Cert}},
		}
		for i, s := range roles {
			try("role-confusion", s.name, build(s.chain, s.key), s.pool, s.leaf, s.inter, i)
		}
		// every role name at every chain position (genuinely issued certificates with another role's name)
		names := []string{"Intel SGX Root CA", "Intel SGX PCK Platform CA", "Intel SGX PCK Processor CA", "Intel SGX PCK Certificate", "Intel SGX TCB Signing"}
		for ni, cn := range names {
			if cn != "Intel SGX PCK Certificate" {
				l := mk(win(cn, false, true), A.Inter)
				try("role-names", "leaf named "+cn, build(cat(l, A.Inter, A.Root), l), []*x509.Certificate{rA}, l.Cert, iA, ni)
			}
			if cn != "Intel SGX PCK Platform CA" {
				in := mk(win(cn, true, false), A.Root)
				l := mk(win("Intel SGX PCK Certificate", false, true), in)
				try("role-names", "intermediate named "+cn, build(cat(l, in, A.Root), l), []*x509.Certificate{rA}, l.Cert, in.Cert, ni)
			}
		}
	}
	// the genuine Intel sample quote: accepted under the embedded root, rejected under any other pool
	if raw, err := readRepoFile("testing/testdata/tdx_prod_quote_SPR_E4.dat"); err == nil {
		ref := time.Date(2023, time.July, 1, 1, 0, 0, 0, time.UTC)
		f, _ := layout(raw)
		var certs []*x509.Certificate
		rest := f.chain
		for i := 0; i < 3; i++ {
			var blk *pem.Block
			blk, rest = pem.Decode(rest)
			if blk == nil {
				break
			}
			if cert, err := x509.ParseCertificate(blk.Bytes); err == nil {
				certs = append(certs, cert)
			}
		}
		foreign := mkPKI(false)
		for _, p := range []struct {
			name string
			pool []*x509.Certificate
		}{{"embedded root (nil pool)", nil}, {"empty pool", []*x509.Certificate{}}, {"foreign pool", []*x509.Certificate{foreign.Root.Cert}}, {"the embedded root listed explicitly", []*x509.Certificate{embeddedRoot}}} {
			sc := &Scenario{Raw: raw, Now: &verify.TimeSet{PckCertChain: ref, TcbInfo: ref, QeIdentity: ref, PckCrl: ref, RootCaCrl: ref}, Roots: p.pool, Resp: map[string]world.Resp{}, Wall: ref}
			gtPool := p.pool
			if p.pool == nil {
				gtPool = []*x509.Certificate{embeddedRoot}
			}
			runScenario(c, "intel-sample", "Intel sample quote, "+p.name, sc, func(cl uint64, err error) string {
				ok := len(certs) == 3 && chainsToPool(certs[0], certs[1], gtPool)
				if cl == 0 && !ok {
					return "Intel sample quote accepted under a pool that does not contain its root"
				}
				if cl != 0 && ok {
					return "Intel sample quote rejected under its own root: " + err.Error()
				}
				return ""
			}, true)
		}
	}
	c02RootOfTrust(c)
}

// ---- root-of-trust configurations -----------------------------------------------

func c02RootOfTrust(c *core.Ctx) {
	r := c.Rng
	dir := filepath.Join(c.Work, "rot")
	_ = os.MkdirAll(dir, 0o755)
	// universe of self-signed roots (membership in a pool is observable through Verify)
	var univ []*world.Cert
	for i := 0; i < 5; i++ {
		p, err := world.NewPKI(r, world.PKIOpts{Now: baseTime, Ext: world.RandomSGXExt(r)})
		if err != nil {
			panic(err)
		}
		univ = append(univ, p.Root)
	}
	type bundle struct {
		desc     string
		content  []byte
		certs    []int // indices into univ
		readable bool
	}
	mkBundle := func(idx ...int) bundle {
		var b []byte
		for _, i := range idx {
			b = append(b, univ[i].PEM()...)
		}
		return bundle{desc: fmt.Sprintf("certs%v", idx), content: b, certs: idx, readable: true}
	}
	garbagePEM := pem.EncodeToMemory(&pem.Block{Type: "CERTIFICATE", Bytes: []byte("not a certificate")})
	keyPEM := pem.EncodeToMemory(&pem.Block{Type: "EC PRIVATE KEY", Bytes: []byte{1, 2, 3}})
	bundles := []bundle{mkBundle(0), mkBundle(1), mkBundle(0, 1), mkBundle(2, 2), mkBundle(3),
		{desc: "empty", content: []byte{}, readable: true},
		{desc: "non-PEM text", content: []byte("hello world\n"), readable: true},
		{desc: "PEM block that is not a certificate", content: garbagePEM, readable: true},
		{desc: "private-key block only", content: keyPEM, readable: true},
		{desc: "garbage block + certificate", content: append(append([]byte{}, garbagePEM...), univ[4].PEM()...), certs: []int{4}, readable: true},
		{desc: "unreadable path", readable: false},
	}
	a := newAbstractor()
	idOf := map[int]uint64{}
	for i, u := range univ {
		idOf[i] = a.id(u.Cert)
	}
	srcSexp := func(b bundle) core.Sexp {
		var cs []core.Sexp
		for _, i := range b.certs {
			cs = append(cs, a.certSexp(univ[i].Cert))
		}
		return core.Ls(core.Bool(b.readable), core.Ls(cs...))
	}
	member := func(pool *x509.CertPool, cert *x509.Certificate) bool {
		_, err := cert.Verify(x509.VerifyOptions{Roots: pool, CurrentTime: baseTime})
		return err == nil
	}
	fileNo := 0
	run := func(class string, paths, inline []bundle, crl, coll bool) {
		if !c.Wanted() {
			c.Add(&core.Case{Class: class, SkipModel: true, Impl: core.Ls()})
			return
		}
		rot := &ccpb.RootOfTrust{CheckCrl: crl, GetCollateral: coll}
		var ps, is []core.Sexp
		desc := "paths:"
		expect := map[int]bool{}
		bad := false
		for _, b := range paths {
			fileNo++
			p := filepath.Join(dir, fmt.Sprintf("bundle%d.pem", fileNo))
			if b.readable {
				_ = os.WriteFile(p, b.content, 0o644)
			} else {
				p = filepath.Join(dir, "does-not-exist.pem")
			}
			rot.CabundlePaths = append(rot.CabundlePaths, p)
			ps = append(ps, srcSexp(b))
			desc += " " + b.desc
			if !b.readable || len(b.certs) == 0 {
				bad = true
			}
			for _, i := range b.certs {
				expect[i] = true
			}
		}
		desc += " inline:"
		for _, b := range inline {
			rot.Cabundles = append(rot.Cabundles, string(b.content))
			is = append(is, srcSexp(b))
			desc += " " + b.desc
			if len(b.certs) == 0 {
				bad = true
			}
			for _, i := range b.certs {
				expect[i] = true
			}
		}
		var o *verify.Options
		var err error
		pan := safely(func() { o, err = verify.RootOfTrustToOptions(rot) })
		var impl core.Sexp
		gt := ""
		switch {
		case pan != nil:
			impl = core.Ls(core.A(2))
			gt = fmt.Sprintf("RootOfTrustToOptions panicked: %v", pan)
		case err != nil:
			impl = core.Ls(core.A(1))
			if !bad {
				gt = "well-formed root-of-trust configuration rejected: " + err.Error()
			}
		default:
			pool := core.Ls()
			if o.TrustedRoots != nil {
				var ids []uint64
				for i, u := range univ {
					if member(o.TrustedRoots, u.Cert) {
						ids = append(ids, idOf[i])
						if !expect[i] {
							gt = "the pool trusts a certificate the configuration does not list"
						}
					} else if expect[i] {
						gt = "a listed certificate is not trusted"
					}
				}
				sort.Slice(ids, func(x, y int) bool { return ids[x] < ids[y] })
				var l []core.Sexp
				for _, id := range ids {
					l = append(l, core.A(id))
				}
				pool = core.Ls(core.Ls(l...))
			} else if len(paths)+len(inline) > 0 {
				gt = "bundles were listed but the options fall back to the embedded root"
			}
			if bad && gt == "" {
				gt = "a configuration with an empty / non-PEM / unreadable bundle was accepted"
			}
			if o.CheckRevocations != crl || o.GetCollateral != coll {
				gt = "flags not carried over"
			}
			impl = core.Ls(core.A(0), core.Bool(o.CheckRevocations), core.Bool(o.GetCollateral), pool)
		}
		arg := core.Ls(core.Ls(ps...), core.Ls(is...), core.Bool(crl), core.Bool(coll))
		c.Add(&core.Case{Class: class, Desc: desc, Entry: "ver", Input: core.Ls(core.A(3), core.Ls(), arg, core.Ls(), core.A(0)), Impl: impl, GT: gt, NonTrivial: len(paths)+len(inline) > 0})
	}
	run("rot-nil", nil, nil, false, false)
	run("rot-nil", nil, nil, true, true)
	for _, b := range bundles {
		run("rot-single-file", []bundle{b}, nil, false, true)
		if b.readable {
			run("rot-single-inline", nil, []bundle{b}, true, false)
		}
	}
	for i := 0; i < c.Scale(60, 1500); i++ {
		var ps, is []bundle
		for k := r.Intn(3); k > 0; k-- {
			ps = append(ps, bundles[r.Intn(len(bundles))])
		}
		for k := r.Intn(3); k > 0; k-- {
			b := bundles[r.Intn(len(bundles)-1)]
			is = append(is, b)
		}
		// favour well-formed mixes
		if r.Intn(2) == 0 {
			ps, is = nil, nil
			for k := r.Intn(3); k > 0; k-- {
				ps = append(ps, bundles[r.Intn(5)])
			}
			for k := r.Intn(3); k > 0; k-- {
				is = append(is, bundles[r.Intn(5)])
			}
		}
		run("rot-mixed", ps, is, r.Intn(2) == 0, r.Intn(2) == 0)
	}
}
