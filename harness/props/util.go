package props

import (
	"os"
	"path/filepath"
)

func repoDir() string {
	if d := os.Getenv("VERIF_REPO"); d != "" {
		return d
	}
	return "/repo"
}

func readRepoFile(rel string) ([]byte, error) {
	return os.ReadFile(filepath.Join(repoDir(), rel))
}
