package props

import (
	"bytes"
	"encoding/binary"
	"fmt"
	"math/rand"

	"github.com/google/go-tdx-guest/abi"
	pb "github.com/google/go-tdx-guest/proto/tdx"
	"google.golang.org/protobuf/proto"

	"verifharness/core"
)

// ---- pb.QuoteV4 -> sexp (mirror of coq/Wire/Abi.v) -------------------------

func hdrSexp(h *pb.Header) core.Sexp {
	return core.Ls(core.A(uint64(h.GetVersion())), core.A(uint64(h.GetAttestationKeyType())), core.A(uint64(h.GetTeeType())),
		core.Bs(h.GetPceSvn()), core.Bs(h.GetQeSvn()), core.Bs(h.GetQeVendorId()), core.Bs(h.GetUserData()))
}
func bodySexp(b *pb.TDQuoteBody) core.Sexp {
	var rt []core.Sexp
	for _, r := range b.GetRtmrs() {
		rt = append(rt, core.Bs(r))
	}
	return core.Ls(core.Bs(b.GetTeeTcbSvn()), core.Bs(b.GetMrSeam()), core.Bs(b.GetMrSignerSeam()), core.Bs(b.GetSeamAttributes()),
		core.Bs(b.GetTdAttributes()), core.Bs(b.GetXfam()), core.Bs(b.GetMrTd()), core.Bs(b.GetMrConfigId()), core.Bs(b.GetMrOwner()),
		core.Bs(b.GetMrOwnerConfig()), core.Ls(rt...), core.Bs(b.GetReportData()))
}
func reportSexp(r *pb.EnclaveReport) core.Sexp {
	return core.Ls(core.Bs(r.GetCpuSvn()), core.A(uint64(r.GetMiscSelect())), core.Bs(r.GetReserved1()), core.Bs(r.GetAttributes()),
		core.Bs(r.GetMrEnclave()), core.Bs(r.GetReserved2()), core.Bs(r.GetMrSigner()), core.Bs(r.GetReserved3()),
		core.A(uint64(r.GetIsvProdId())), core.A(uint64(r.GetIsvSvn())), core.Bs(r.GetReserved4()), core.Bs(r.GetReportData()))
}
func optHdr(h *pb.Header) core.Sexp {
	if h == nil {
		return core.Ls()
	}
	return core.Ls(hdrSexp(h))
}
func optBody(b *pb.TDQuoteBody) core.Sexp {
	if b == nil {
		return core.Ls()
	}
	return core.Ls(bodySexp(b))
}
func optReport(r *pb.EnclaveReport) core.Sexp {
	if r == nil {
		return core.Ls()
	}
	return core.Ls(reportSexp(r))
}
func qercdSexp(q *pb.QEReportCertificationData) core.Sexp {
	auth, pck := core.Ls(), core.Ls()
	if a := q.GetQeAuthData(); a != nil {
		auth = core.Ls(core.Ls(core.A(uint64(a.GetParsedDataSize())), core.Bs(a.GetData())))
	}
	if p := q.GetPckCertificateChainData(); p != nil {
		pck = core.Ls(core.Ls(core.A(uint64(p.GetCertificateDataType())), core.A(uint64(p.GetSize())), core.Bs(p.GetPckCertChain())))
	}
	return core.Ls(optReport(q.GetQeReport()), core.Bs(q.GetQeReportSignature()), auth, pck)
}
func signedSexp(s *pb.Ecdsa256BitQuoteV4AuthData) core.Sexp {
	cd := core.Ls()
	if c := s.GetCertificationData(); c != nil {
		q := core.Ls()
		if c.GetQeReportCertificationData() != nil {
			q = core.Ls(qercdSexp(c.GetQeReportCertificationData()))
		}
		cd = core.Ls(core.Ls(core.A(uint64(c.GetCertificateDataType())), core.A(uint64(c.GetSize())), q))
	}
	return core.Ls(core.Bs(s.GetSignature()), core.Bs(s.GetEcdsaAttestationKey()), cd)
}
func quoteSexp(q *pb.QuoteV4) core.Sexp {
	sd := core.Ls()
	if q.GetSignedData() != nil {
		sd = core.Ls(signedSexp(q.GetSignedData()))
	}
	return core.Ls(optHdr(q.GetHeader()), optBody(q.GetTdQuoteBody()), core.A(uint64(q.GetSignedDataSize())), sd, core.Bs(q.GetExtraBytes()))
}
func optQuote(q *pb.QuoteV4) core.Sexp {
	if q == nil {
		return core.Ls()
	}
	return core.Ls(quoteSexp(q))
}

// ---- result projection ------------------------------------------------------

const (
	eParse = 1
)

func resOk(v core.Sexp) core.Sexp   { return core.Ls(core.A(0), v) }
func resErr(class uint64) core.Sexp { return core.Ls(core.A(1), core.A(class)) }
func resPanic() core.Sexp           { return core.Ls(core.A(2)) }

func isPanic(s core.Sexp) bool { return s.Nth(0).N == 2 }
func isOk(s core.Sexp) bool    { return s.Nth(0).N == 0 }

func safely(f func()) (p any) {
	defer func() { p = recover() }()
	f()
	return nil
}

func implParse(raw []byte) (core.Sexp, *pb.QuoteV4, any) {
	var q any
	var err error
	if p := safely(func() { q, err = abi.QuoteToProto(raw) }); p != nil {
		return resPanic(), nil, p
	}
	if err != nil {
		return resErr(eParse), nil, nil
	}
	qq := q.(*pb.QuoteV4)
	return resOk(quoteSexp(qq)), qq, nil
}

func implSer(q *pb.QuoteV4) (core.Sexp, []byte, any) {
	var out []byte
	var err error
	var arg any = q
	if p := safely(func() { out, err = abi.QuoteToAbiBytes(arg) }); p != nil {
		return resPanic(), nil, p
	}
	if err != nil {
		return resErr(eParse), nil, nil
	}
	return resOk(core.Bs(out)), out, nil
}

func implCheck(q *pb.QuoteV4) (core.Sexp, any) {
	var err error
	if p := safely(func() { err = abi.CheckQuoteV4(q) }); p != nil {
		return resPanic(), p
	}
	if err != nil {
		return resErr(eParse), nil
	}
	return resOk(core.Ls()), nil
}

// ---- independent layout knowledge (Intel TDX DCAP quote v4) -----------------

type rawSpec struct {
	Header   []byte // 48
	Body     []byte // 584
	Sig, Key []byte // 64, 64
	QeReport []byte // 384
	QeSig    []byte // 64
	Auth     []byte
	Chain    []byte
	Extra    []byte
	// overrides of the size/type fields; nil => consistent
	SdSize, CdType, CdSize, AuthSize, PckType, PckSize *uint32
}

func le16(v uint32) []byte {
	b := make([]byte, 2)
	binary.LittleEndian.PutUint16(b, uint16(v))
	return b
}
func le32(v uint32) []byte { b := make([]byte, 4); binary.LittleEndian.PutUint32(b, v); return b }

func (s rawSpec) bytes() []byte {
	pckSize := uint32(len(s.Chain))
	if s.PckSize != nil {
		pckSize = *s.PckSize
	}
	pckType := uint32(5)
	if s.PckType != nil {
		pckType = *s.PckType
	}
	authSize := uint32(len(s.Auth))
	if s.AuthSize != nil {
		authSize = *s.AuthSize
	}
	var cd []byte
	cd = append(cd, s.QeReport...)
	cd = append(cd, s.QeSig...)
	cd = append(cd, le16(authSize)...)
	cd = append(cd, s.Auth...)
	cd = append(cd, le16(pckType)...)
	cd = append(cd, le32(pckSize)...)
	cd = append(cd, s.Chain...)
	cdSize := uint32(len(cd))
	if s.CdSize != nil {
		cdSize = *s.CdSize
	}
	cdType := uint32(6)
	if s.CdType != nil {
		cdType = *s.CdType
	}
	var sd []byte
	sd = append(sd, s.Sig...)
	sd = append(sd, s.Key...)
	sd = append(sd, le16(cdType)...)
	sd = append(sd, le32(cdSize)...)
	sd = append(sd, cd...)
	sdSize := uint32(len(sd))
	if s.SdSize != nil {
		sdSize = *s.SdSize
	}
	var out []byte
	out = append(out, s.Header...)
	out = append(out, s.Body...)
	out = append(out, le32(sdSize)...)
	out = append(out, sd...)
	out = append(out, s.Extra...)
	return out
}

func validHeader(r *rand.Rand) []byte {
	h := core.RandBytes(r, 48)
	copy(h[0:2], le16(4))
	copy(h[2:4], le16(2))
	copy(h[4:8], le32(0x81))
	return h
}

func randSpec(r *rand.Rand, authLen, chainLen, extraLen int) rawSpec {
	return rawSpec{Header: validHeader(r), Body: core.RandBytes(r, 584), Sig: core.RandBytes(r, 64), Key: core.RandBytes(r, 64),
		QeReport: core.RandBytes(r, 384), QeSig: core.RandBytes(r, 64), Auth: core.RandBytes(r, authLen),
		Chain: core.RandBytes(r, chainLen), Extra: core.RandBytes(r, extraLen)}
}

// layout is the independent parser: ok iff raw follows the v4 layout; the map
// gives every field as a slice of raw.
type layoutFields struct {
	header, body, sig, key, qeReport, qeSig, auth, chain, extra []byte
	sdSize, cdType, cdSize, authSize, pckType, pckSize          uint32
}

func layout(raw []byte) (*layoutFields, bool) {
	if len(raw) < 636 {
		return nil, false
	}
	if binary.LittleEndian.Uint16(raw[0:2]) != 4 || binary.LittleEndian.Uint16(raw[2:4]) != 2 || binary.LittleEndian.Uint32(raw[4:8]) != 0x81 {
		return nil, false
	}
	f := &layoutFields{header: raw[0:48], body: raw[48:632]}
	f.sdSize = binary.LittleEndian.Uint32(raw[632:636])
	rest := raw[636:]
	if uint64(len(rest)) < uint64(f.sdSize) {
		return nil, false
	}
	sd := rest[:f.sdSize]
	f.extra = rest[f.sdSize:]
	if len(sd) < 134 {
		return nil, false
	}
	f.sig, f.key = sd[0:64], sd[64:128]
	f.cdType = uint32(binary.LittleEndian.Uint16(sd[128:130]))
	f.cdSize = binary.LittleEndian.Uint32(sd[130:134])
	cd := sd[134:]
	if f.cdType != 6 || uint64(f.cdSize) != uint64(len(cd)) {
		return nil, false
	}
	if len(cd) < 450 {
		return nil, false
	}
	f.qeReport, f.qeSig = cd[0:384], cd[384:448]
	f.authSize = uint32(binary.LittleEndian.Uint16(cd[448:450]))
	if len(cd) < 450+int(f.authSize)+6 {
		return nil, false
	}
	f.auth = cd[450 : 450+int(f.authSize)]
	pck := cd[450+int(f.authSize):]
	f.pckType = uint32(binary.LittleEndian.Uint16(pck[0:2]))
	f.pckSize = binary.LittleEndian.Uint32(pck[2:6])
	f.chain = pck[6:]
	if f.pckType != 5 || uint64(f.pckSize) != uint64(len(f.chain)) {
		return nil, false
	}
	return f, true
}

// fieldsMatch compares the implementation's parse result with the independent layout.
func fieldsMatch(q *pb.QuoteV4, f *layoutFields) string {
	h, b := q.GetHeader(), q.GetTdQuoteBody()
	eq := bytes.Equal
	le := binary.LittleEndian
	switch {
	case h.GetVersion() != uint32(le.Uint16(f.header[0:2])), h.GetAttestationKeyType() != uint32(le.Uint16(f.header[2:4])), h.GetTeeType() != le.Uint32(f.header[4:8]):
		return "header numeric field"
	case !eq(h.GetPceSvn(), f.header[8:10]):
		return "PceSvn"
	case !eq(h.GetQeSvn(), f.header[10:12]):
		return "QeSvn"
	case !eq(h.GetQeVendorId(), f.header[12:28]):
		return "QeVendorId"
	case !eq(h.GetUserData(), f.header[28:48]):
		return "UserData"
	case !eq(b.GetTeeTcbSvn(), f.body[0:16]):
		return "TeeTcbSvn"
	case !eq(b.GetMrSeam(), f.body[16:64]):
		return "MrSeam"
	case !eq(b.GetMrSignerSeam(), f.body[64:112]):
		return "MrSignerSeam"
	case !eq(b.GetSeamAttributes(), f.body[112:120]):
		return "SeamAttributes"
	case !eq(b.GetTdAttributes(), f.body[120:128]):
		return "TdAttributes"
	case !eq(b.GetXfam(), f.body[128:136]):
		return "Xfam"
	case !eq(b.GetMrTd(), f.body[136:184]):
		return "MrTd"
	case !eq(b.GetMrConfigId(), f.body[184:232]):
		return "MrConfigId"
	case !eq(b.GetMrOwner(), f.body[232:280]):
		return "MrOwner"
	case !eq(b.GetMrOwnerConfig(), f.body[280:328]):
		return "MrOwnerConfig"
	case len(b.GetRtmrs()) != 4:
		return "Rtmrs count"
	case !eq(b.GetReportData(), f.body[520:584]):
		return "ReportData"
	}
	for i := 0; i < 4; i++ {
		if !eq(b.GetRtmrs()[i], f.body[328+48*i:328+48*(i+1)]) {
			return fmt.Sprintf("Rtmr%d", i)
		}
	}
	sd := q.GetSignedData()
	cd := sd.GetCertificationData()
	qe := cd.GetQeReportCertificationData()
	r := qe.GetQeReport()
	switch {
	case q.GetSignedDataSize() != f.sdSize:
		return "SignedDataSize"
	case !eq(sd.GetSignature(), f.sig):
		return "Signature"
	case !eq(sd.GetEcdsaAttestationKey(), f.key):
		return "EcdsaAttestationKey"
	case cd.GetCertificateDataType() != f.cdType || cd.GetSize() != f.cdSize:
		return "CertificationData type/size"
	case !eq(r.GetCpuSvn(), f.qeReport[0:16]), r.GetMiscSelect() != le.Uint32(f.qeReport[16:20]), !eq(r.GetReserved1(), f.qeReport[20:48]),
		!eq(r.GetAttributes(), f.qeReport[48:64]), !eq(r.GetMrEnclave(), f.qeReport[64:96]), !eq(r.GetReserved2(), f.qeReport[96:128]),
		!eq(r.GetMrSigner(), f.qeReport[128:160]), !eq(r.GetReserved3(), f.qeReport[160:256]),
		r.GetIsvProdId() != uint32(le.Uint16(f.qeReport[256:258])), r.GetIsvSvn() != uint32(le.Uint16(f.qeReport[258:260])),
		!eq(r.GetReserved4(), f.qeReport[260:320]), !eq(r.GetReportData(), f.qeReport[320:384]):
		return "QE report field"
	case !eq(qe.GetQeReportSignature(), f.qeSig):
		return "QeReportSignature"
	case qe.GetQeAuthData().GetParsedDataSize() != f.authSize || !eq(qe.GetQeAuthData().GetData(), f.auth):
		return "QeAuthData"
	case qe.GetPckCertificateChainData().GetCertificateDataType() != f.pckType || qe.GetPckCertificateChainData().GetSize() != f.pckSize ||
		!eq(qe.GetPckCertificateChainData().GetPckCertChain(), f.chain):
		return "PckCertificateChainData"
	case !eq(q.GetExtraBytes(), f.extra):
		return "ExtraBytes"
	}
	return ""
}

// ---- generators ----------------------------------------------------------------

func u32p(v uint32) *uint32 { return &v }

// rawCases yields byte strings for the parser: valid, truncated, size-field
// boundary values, trailing bytes, random mutation.
func rawCases(c *core.Ctx, emit func(class, desc string, raw []byte)) {
	r := c.Rng
	// structurally valid quotes with various variable-part lengths
	authLens := []int{0, 1, 2, 32, 255, 256, 1000, 65533, 65534, 65535}
	chainLens := []int{0, 1, 100, 3000}
	extraLens := []int{0, 1, 17}
	for _, al := range authLens {
		for _, cl := range chainLens {
			for _, el := range extraLens {
				if !c.Thorough() && (al > 1000 && cl > 100) {
					continue
				}
				emit("valid", fmt.Sprintf("auth=%d chain=%d extra=%d", al, cl, el), randSpec(r, al, cl, el).bytes())
			}
		}
	}
	for i := 0; i < c.Scale(40, 2000); i++ {
		emit("valid-random", "random lengths", randSpec(r, r.Intn(600), r.Intn(4000), r.Intn(3)*r.Intn(40)).bytes())
	}
	// truncations of a small valid quote: every length (thorough) or boundaries + sample (quick)
	base := randSpec(r, 20, 60, 0).bytes()
	interesting := map[int]bool{}
	for _, k := range []int{0, 1, 2, 3, 47, 48, 631, 632, 635, 636, 637, 763, 764, 769, 770, 771, 1019, 1020, 1021, 1153, 1154, 1217, 1218, 1219, 1220, 1239, 1240, 1245, 1246, len(base) - 1, len(base)} {
		interesting[k] = true
	}
	for n := 0; n <= len(base); n++ {
		if c.Thorough() || interesting[n] || n%37 == 0 {
			emit("truncated", fmt.Sprintf("first %d of %d bytes", n, len(base)), base[:n])
		}
	}
	// truncations with the outer size made consistent (reach the inner slicing)
	for n := 636; n <= len(base); n++ {
		if c.Thorough() || interesting[n] || n%29 == 0 {
			t := append([]byte{}, base[:n]...)
			copy(t[632:636], le32(uint32(n-636)))
			emit("truncated-consistent-outer", fmt.Sprintf("first %d bytes, signedDataSize=%d", n, n-636), t)
		}
	}
	// padded short quotes: >= 1020 bytes with small signed data sizes
	for _, sds := range []uint32{0, 1, 63, 64, 127, 128, 129, 133, 134, 135, 383, 384, 500, 517, 518, 581, 582, 583, 584, 589, 590, 591} {
		t := make([]byte, 1300)
		copy(t, base[:636])
		r.Read(t[636:])
		copy(t[632:636], le32(sds))
		// make nested sizes consistent where they exist
		if sds >= 134 {
			copy(t[636+128:], le16(6))
			copy(t[636+130:], le32(sds-134))
		}
		emit("small-signed-data", fmt.Sprintf("signedDataSize=%d in 1300 bytes", sds), t)
	}
	// boundary values of each size / type field
	bv := func(exact uint32) []uint32 {
		return []uint32{0, 1, exact - 1, exact, exact + 1, 0xffff, 0x10000, 0x7fffffff, 0xffffffff,
			exact + 0x100, exact + 0x10000, exact + 0x1000000, exact | 0x80000000} // the exact value in the low byte(s) only
	}
	sp := randSpec(r, 20, 60, 5)
	exactSd := uint32(len(sp.bytes()) - 636 - 5)
	for _, v := range bv(exactSd) {
		s := sp
		s.SdSize = u32p(v)
		emit("field-sdsize", fmt.Sprintf("signedDataSize=%d (exact %d)", v, exactSd), s.bytes())
	}
	for _, v := range bv(exactSd - 134) {
		s := sp
		s.CdSize = u32p(v)
		emit("field-cdsize", fmt.Sprintf("certDataSize=%d", v), s.bytes())
	}
	for _, v := range []uint32{0, 1, 5, 6, 7, 0xffff} {
		s := sp
		s.CdType = u32p(v)
		emit("field-cdtype", fmt.Sprintf("certDataType=%d", v), s.bytes())
	}
	for _, v := range []uint32{0, 1, 19, 20, 21, 80, 85, 86, 87, 0xffff} {
		s := sp
		s.AuthSize = u32p(v)
		emit("field-authsize", fmt.Sprintf("authSize=%d (exact 20)", v), s.bytes())
	}
	for _, v := range []uint32{0, 4, 5, 6, 0xffff} {
		s := sp
		s.PckType = u32p(v)
		emit("field-pcktype", fmt.Sprintf("pckType=%d", v), s.bytes())
	}
	for _, v := range bv(60) {
		s := sp
		s.PckSize = u32p(v)
		emit("field-pcksize", fmt.Sprintf("pckSize=%d (exact 60)", v), s.bytes())
	}
	// pairs of size fields
	for _, a := range []uint32{19, 20, 21, 0xffff} {
		for _, p := range []uint32{59, 60, 61, 0} {
			for _, d := range []int32{-1, 0, 1} {
				s := sp
				s.AuthSize, s.PckSize = u32p(a), u32p(p)
				s.CdSize = u32p(uint32(int32(exactSd-134) + d))
				emit("field-pairs", fmt.Sprintf("auth=%d pck=%d cd%+d", a, p, d), s.bytes())
			}
		}
	}
	// header fields
	for _, off := range []int{0, 1, 2, 3, 4, 5, 6, 7} {
		for _, v := range []byte{0, 1, 2, 3, 4, 5, 0x80, 0x81, 0xff} {
			t := append([]byte{}, base...)
			t[off] = v
			emit("header-field", fmt.Sprintf("byte %d = %#x", off, v), t)
		}
	}
	// random mutation
	for i := 0; i < c.Scale(300, 20000); i++ {
		t := append([]byte{}, base...)
		for k := 0; k <= r.Intn(4); k++ {
			switch r.Intn(3) {
			case 0:
				if len(t) > 0 {
					t[r.Intn(len(t))] ^= 1 << uint(r.Intn(8))
				}
			case 1: // hit a size field
				offs := []int{632, 633, 634, 635, 764, 765, 766, 767, 768, 769, 1218, 1219}
				if o := offs[r.Intn(len(offs))]; o < len(t) {
					t[o] = byte(r.Intn(256))
				}
			case 2:
				if r.Intn(2) == 0 && len(t) > 1 {
					t = t[:r.Intn(len(t))]
				} else {
					t = append(t, core.RandBytes(r, r.Intn(9))...)
				}
			}
		}
		emit("mutated", "random mutation of a valid quote", t)
	}
	// tiny / empty
	for _, t := range [][]byte{nil, {}, {4}, {4, 0}, {5, 0}, {4, 0, 2}} {
		emit("tiny", fmt.Sprintf("%d bytes", len(t)), t)
	}
}

// msgCases yields QuoteV4 messages: valid ones and every single structural mutation.
func msgCases(c *core.Ctx, emit func(class, desc string, q *pb.QuoteV4)) {
	r := c.Rng
	mk := func() *pb.QuoteV4 {
		raw := randSpec(r, r.Intn(40), r.Intn(200), r.Intn(2)*r.Intn(9)).bytes()
		q, err := abi.QuoteToProto(raw)
		if err != nil {
			panic("harness: valid spec rejected: " + err.Error())
		}
		return q.(*pb.QuoteV4)
	}
	emit("msg-nil", "nil message", nil)
	emit("msg-empty", "empty message", &pb.QuoteV4{})
	for i := 0; i < c.Scale(10, 200); i++ {
		emit("msg-valid", "parsed valid quote", mk())
	}
	// valid messages whose byte fields share memory: serialisation must not depend on (or disturb)
	// what lies behind a field. Layouts as in the C16 check; random field order in one arena.
	for i := 0; i < c.Scale(6, 60); i++ {
		q := mk()
		for _, l := range []string{"adjacent", "reversed", "aliased", "spare"} {
			emit("msg-valid-shared-memory", "valid quote rebuilt with layout "+l, relayout(r, q, l))
		}
		// any two 64-byte fields as adjacent halves of one buffer, in both orders
		sd := q.SignedData
		qe := sd.CertificationData.QeReportCertificationData
		pairs := [][2]*[]byte{{&sd.Signature, &qe.QeReportSignature}, {&qe.QeReportSignature, &sd.Signature}, {&sd.Signature, &sd.EcdsaAttestationKey},
			{&sd.EcdsaAttestationKey, &qe.QeReportSignature}, {&qe.QeReport.ReportData, &sd.Signature}, {&q.TdQuoteBody.ReportData, &sd.EcdsaAttestationKey}}
		for k, pr := range pairs {
			m := proto.Clone(q).(*pb.QuoteV4)
			msd := m.SignedData
			mqe := msd.CertificationData.QeReportCertificationData
			fields := map[*[]byte]*[]byte{&sd.Signature: &msd.Signature, &qe.QeReportSignature: &mqe.QeReportSignature, &sd.EcdsaAttestationKey: &msd.EcdsaAttestationKey,
				&qe.QeReport.ReportData: &mqe.QeReport.ReportData, &q.TdQuoteBody.ReportData: &m.TdQuoteBody.ReportData}
			a, b := fields[pr[0]], fields[pr[1]]
			arena := make([]byte, 0, 256)
			arena = append(arena, *a...)
			arena = append(arena, *b...)
			arena = arena[:256]
			*a, *b = arena[0:64], arena[64:128]
			emit("msg-valid-shared-memory", fmt.Sprintf("two 64-byte fields as adjacent halves of one buffer (pair %d)", k), m)
		}
	}
	// sub-message nil
	nils := []struct {
		name string
		f    func(q *pb.QuoteV4)
	}{
		{"Header", func(q *pb.QuoteV4) { q.Header = nil }},
		{"TdQuoteBody", func(q *pb.QuoteV4) { q.TdQuoteBody = nil }},
		{"SignedData", func(q *pb.QuoteV4) { q.SignedData = nil }},
		{"CertificationData", func(q *pb.QuoteV4) { q.SignedData.CertificationData = nil }},
		{"QeReportCertificationData", func(q *pb.QuoteV4) { q.SignedData.CertificationData.QeReportCertificationData = nil }},
		{"QeReport", func(q *pb.QuoteV4) { q.SignedData.CertificationData.QeReportCertificationData.QeReport = nil }},
		{"QeAuthData", func(q *pb.QuoteV4) { q.SignedData.CertificationData.QeReportCertificationData.QeAuthData = nil }},
		{"PckCertificateChainData", func(q *pb.QuoteV4) {
			q.SignedData.CertificationData.QeReportCertificationData.PckCertificateChainData = nil
		}},
	}
	for _, n := range nils {
		q := mk()
		n.f(q)
		emit("msg-submessage-nil", n.name+" = nil", q)
	}
	// each bytes field at length 0 / n-1 / n+1 / nil
	type bf struct {
		name string
		get  func(q *pb.QuoteV4) *[]byte
	}
	qe := func(q *pb.QuoteV4) *pb.QEReportCertificationData {
		return q.SignedData.CertificationData.QeReportCertificationData
	}
	fields := []bf{
		{"PceSvn", func(q *pb.QuoteV4) *[]byte { return &q.Header.PceSvn }},
		{"QeSvn", func(q *pb.QuoteV4) *[]byte { return &q.Header.QeSvn }},
		{"QeVendorId", func(q *pb.QuoteV4) *[]byte { return &q.Header.QeVendorId }},
		{"UserData", func(q *pb.QuoteV4) *[]byte { return &q.Header.UserData }},
		{"TeeTcbSvn", func(q *pb.QuoteV4) *[]byte { return &q.TdQuoteBody.TeeTcbSvn }},
		{"MrSeam", func(q *pb.QuoteV4) *[]byte { return &q.TdQuoteBody.MrSeam }},
		{"MrSignerSeam", func(q *pb.QuoteV4) *[]byte { return &q.TdQuoteBody.MrSignerSeam }},
		{"SeamAttributes", func(q *pb.QuoteV4) *[]byte { return &q.TdQuoteBody.SeamAttributes }},
		{"TdAttributes", func(q *pb.QuoteV4) *[]byte { return &q.TdQuoteBody.TdAttributes }},
		{"Xfam", func(q *pb.QuoteV4) *[]byte { return &q.TdQuoteBody.Xfam }},
		{"MrTd", func(q *pb.QuoteV4) *[]byte { return &q.TdQuoteBody.MrTd }},
		{"MrConfigId", func(q *pb.QuoteV4) *[]byte { return &q.TdQuoteBody.MrConfigId }},
		{"MrOwner", func(q *pb.QuoteV4) *[]byte { return &q.TdQuoteBody.MrOwner }},
		{"MrOwnerConfig", func(q *pb.QuoteV4) *[]byte { return &q.TdQuoteBody.MrOwnerConfig }},
		{"Rtmr0", func(q *pb.QuoteV4) *[]byte { return &q.TdQuoteBody.Rtmrs[0] }},
		{"Rtmr3", func(q *pb.QuoteV4) *[]byte { return &q.TdQuoteBody.Rtmrs[3] }},
		{"ReportData", func(q *pb.QuoteV4) *[]byte { return &q.TdQuoteBody.ReportData }},
		{"Signature", func(q *pb.QuoteV4) *[]byte { return &q.SignedData.Signature }},
		{"EcdsaAttestationKey", func(q *pb.QuoteV4) *[]byte { return &q.SignedData.EcdsaAttestationKey }},
		{"QeReportSignature", func(q *pb.QuoteV4) *[]byte { return &qe(q).QeReportSignature }},
		{"Qe.CpuSvn", func(q *pb.QuoteV4) *[]byte { return &qe(q).QeReport.CpuSvn }},
		{"Qe.Reserved1", func(q *pb.QuoteV4) *[]byte { return &qe(q).QeReport.Reserved1 }},
		{"Qe.Attributes", func(q *pb.QuoteV4) *[]byte { return &qe(q).QeReport.Attributes }},
		{"Qe.MrEnclave", func(q *pb.QuoteV4) *[]byte { return &qe(q).QeReport.MrEnclave }},
		{"Qe.Reserved2", func(q *pb.QuoteV4) *[]byte { return &qe(q).QeReport.Reserved2 }},
		{"Qe.MrSigner", func(q *pb.QuoteV4) *[]byte { return &qe(q).QeReport.MrSigner }},
		{"Qe.Reserved3", func(q *pb.QuoteV4) *[]byte { return &qe(q).QeReport.Reserved3 }},
		{"Qe.Reserved4", func(q *pb.QuoteV4) *[]byte { return &qe(q).QeReport.Reserved4 }},
		{"Qe.ReportData", func(q *pb.QuoteV4) *[]byte { return &qe(q).QeReport.ReportData }},
		{"AuthData.Data", func(q *pb.QuoteV4) *[]byte { return &qe(q).QeAuthData.Data }},
		{"PckCertChain", func(q *pb.QuoteV4) *[]byte { return &qe(q).PckCertificateChainData.PckCertChain }},
		{"ExtraBytes", func(q *pb.QuoteV4) *[]byte { return &q.ExtraBytes }},
	}
	for _, f := range fields {
		for _, mode := range []string{"nil", "empty", "short", "long"} {
			q := mk()
			p := f.get(q)
			switch mode {
			case "nil":
				*p = nil
			case "empty":
				*p = []byte{}
			case "short":
				if len(*p) > 0 {
					*p = (*p)[:len(*p)-1]
				}
			case "long":
				*p = append(append([]byte{}, *p...), 0x5a)
			}
			emit("msg-field-length", f.name+" "+mode, q)
		}
	}
	// RTMR counts 0..5
	for n := 0; n <= 5; n++ {
		q := mk()
		var rt [][]byte
		for i := 0; i < n; i++ {
			rt = append(rt, core.RandBytes(r, 48))
		}
		q.TdQuoteBody.Rtmrs = rt
		emit("msg-rtmr-count", fmt.Sprintf("%d RTMRs", n), q)
	}
	// numeric fields
	type nf struct {
		name string
		set  func(q *pb.QuoteV4, v uint32)
	}
	nums := []nf{
		{"Version", func(q *pb.QuoteV4, v uint32) { q.Header.Version = v }},
		{"AttestationKeyType", func(q *pb.QuoteV4, v uint32) { q.Header.AttestationKeyType = v }},
		{"TeeType", func(q *pb.QuoteV4, v uint32) { q.Header.TeeType = v }},
		{"SignedDataSize", func(q *pb.QuoteV4, v uint32) { q.SignedDataSize = v }},
		{"CertificationData.Type", func(q *pb.QuoteV4, v uint32) { q.SignedData.CertificationData.CertificateDataType = v }},
		{"CertificationData.Size", func(q *pb.QuoteV4, v uint32) { q.SignedData.CertificationData.Size = v }},
		{"Qe.MiscSelect", func(q *pb.QuoteV4, v uint32) { qe(q).QeReport.MiscSelect = v }},
		{"Qe.IsvProdId", func(q *pb.QuoteV4, v uint32) { qe(q).QeReport.IsvProdId = v }},
		{"Qe.IsvSvn", func(q *pb.QuoteV4, v uint32) { qe(q).QeReport.IsvSvn = v }},
		{"AuthData.ParsedDataSize", func(q *pb.QuoteV4, v uint32) { qe(q).QeAuthData.ParsedDataSize = v }},
		{"Pck.Type", func(q *pb.QuoteV4, v uint32) { qe(q).PckCertificateChainData.CertificateDataType = v }},
		{"Pck.Size", func(q *pb.QuoteV4, v uint32) { qe(q).PckCertificateChainData.Size = v }},
	}
	for _, f := range nums {
		for _, v := range []uint32{0, 1, 2, 4, 5, 6, 0x81, 0xffff, 0x10000, 0x10004, 0x10002, 0x10006, 0x10005, 0xffffffff} {
			q := mk()
			f.set(q, v)
			emit("msg-numeric", fmt.Sprintf("%s = %#x", f.name, v), q)
		}
	}
	// decoded from protobuf wire bytes (fields keep their own backing arrays)
	for i := 0; i < c.Scale(5, 50); i++ {
		q := mk()
		b, _ := proto.Marshal(q)
		q2 := &pb.QuoteV4{}
		_ = proto.Unmarshal(b, q2)
		emit("msg-from-protobuf", "marshal/unmarshal of a valid quote", q2)
	}
}

// C09: parse / serialise are exact inverses; the parser accepts exactly the layout.
func C09(c *core.Ctx) {
	c.Rule = "byte strings: structurally valid quotes (auth 0..65535, chain 0..4000, extra bytes), every/sampled truncation, boundary values of each size/type field and pairs, header bytes, random mutation, and the caller overwriting its buffer between parsing and serialising; messages: valid, each sub-message nil, each bytes field nil/empty/short/long, RTMR count 0..5, numeric boundary values, protobuf-decoded. non-trivial = input of at least 636 bytes with a valid header (parser reaches the variable part) or a message with all sub-messages present; distinct = distinct inputs"
	rawCases(c, func(class, desc string, raw []byte) {
		if !c.Wanted() {
			c.Add(&core.Case{Class: class, SkipModel: true, Impl: core.Ls()})
			return
		}
		impl, q, pan := implParse(raw)
		gt := ""
		f, valid := layout(raw)
		switch {
		case pan != nil:
			gt = fmt.Sprintf("abi.QuoteToProto panicked (neither accepts nor rejects): %v", pan)
		case valid && q == nil:
			gt = "byte string follows the v4 layout but the parser rejected it"
		case !valid && q != nil:
			gt = "byte string violates the v4 layout but the parser accepted it"
		case valid:
			if m := fieldsMatch(q, f); m != "" {
				gt = "parsed field differs from the corresponding slice of the input: " + m
			} else if out, err := abi.QuoteToAbiBytes(q); err != nil || !bytes.Equal(out, raw) {
				gt = "serialising the parsed quote does not reproduce the input"
			} else if hb, err := abi.HeaderToAbiBytes(q.GetHeader()); err != nil || !bytes.Equal(hb, raw[0:48]) {
				gt = "HeaderToAbiBytes(parsed) != bytes 0..47"
			} else if bb, err := abi.TdQuoteBodyToAbiBytes(q.GetTdQuoteBody()); err != nil || !bytes.Equal(bb, raw[48:632]) {
				gt = "TdQuoteBodyToAbiBytes(parsed) != bytes 48..631"
			} else {
				// the parsed quote is a function of the bytes given, not of what the caller does
				// with its buffer afterwards
				buf := append([]byte{}, raw...)
				if p := safely(func() {
					if q2, err := abi.QuoteToProto(buf); err == nil {
						for i := range buf {
							buf[i] ^= 0xff
						}
						if out, err := abi.QuoteToAbiBytes(q2); err != nil || !bytes.Equal(out, raw) {
							gt = "after the caller overwrote its input buffer, serialising the quote parsed from it no longer reproduces the bytes that were parsed"
						}
					}
				}); p != nil {
					gt = fmt.Sprintf("parse / serialise panicked on a second run over the same bytes: %v", p)
				}
			}
		}
		nt := len(raw) >= 636 && bytes.Equal(raw[0:8], []byte{4, 0, 2, 0, 0x81, 0, 0, 0})
		c.Count("input-size", sizeBucket(len(raw)))
		c.Count("parse-result", resultName(impl))
		c.Add(&core.Case{Class: class, Desc: desc, Entry: "abi", Input: core.Ls(core.A(0), core.Bs(raw)), Impl: impl, GT: gt, NonTrivial: nt})
	})
	msgCases(c, func(class, desc string, q *pb.QuoteV4) {
		if !c.Wanted() {
			c.Add(&core.Case{Class: class, SkipModel: true, Impl: core.Ls()})
			return
		}
		impl, out, pan := implSer(q)
		gt := ""
		if pan != nil {
			gt = fmt.Sprintf("abi.QuoteToAbiBytes panicked: %v", pan)
		} else if out != nil {
			// serialise-then-parse must give the message back when it parses; and it must parse
			// when the two outer size fields are consistent with the actual lengths
			var q2 any
			var err error
			if p := safely(func() { q2, err = abi.QuoteToProto(out) }); p != nil {
				err = fmt.Errorf("parser panicked: %v", p)
			}
			consistent := int(q.GetSignedDataSize()) == len(out)-636-len(q.GetExtraBytes()) &&
				int(q.GetSignedData().GetCertificationData().GetSize()) == len(out)-636-len(q.GetExtraBytes())-134
			if consistent && err != nil {
				gt = "well-formed message does not survive serialise-then-parse: " + err.Error()
			} else if err == nil && !quoteSexp(q2.(*pb.QuoteV4)).Equal(quoteSexp(q)) {
				gt = "serialise-then-parse changed the message"
			}
		}
		nt := q != nil && q.GetHeader() != nil && q.GetTdQuoteBody() != nil && q.GetSignedData() != nil
		c.Count("serialise-result", resultName(impl))
		c.Add(&core.Case{Class: class, Desc: desc, Entry: "abi", Input: core.Ls(core.A(1), optQuote(q)), Impl: impl, GT: gt, NonTrivial: nt})
		// CheckQuoteV4 and the exported sub-serialisers on the same message
		ck, pan2 := implCheck(q)
		g2 := ""
		if pan2 != nil {
			g2 = fmt.Sprintf("abi.CheckQuoteV4 panicked: %v", pan2)
		}
		c.Add(&core.Case{Class: class + "/check", Desc: desc, Entry: "abi", Input: core.Ls(core.A(2), optQuote(q)), Impl: ck, GT: g2, NonTrivial: nt})
		if q != nil {
			c.Add(subSer(class, desc, 3, optHdr(q.GetHeader()), func() ([]byte, error) { return abi.HeaderToAbiBytes(q.GetHeader()) }))
			c.Add(subSer(class, desc, 4, optBody(q.GetTdQuoteBody()), func() ([]byte, error) { return abi.TdQuoteBodyToAbiBytes(q.GetTdQuoteBody()) }))
			rep := q.GetSignedData().GetCertificationData().GetQeReportCertificationData().GetQeReport()
			c.Add(subSer(class, desc, 5, optReport(rep), func() ([]byte, error) { return abi.EnclaveReportToAbiBytes(rep) }))
		}
	})
}

func subSer(class, desc string, op uint64, arg core.Sexp, f func() ([]byte, error)) *core.Case {
	var out []byte
	var err error
	impl := core.Sexp{}
	gt := ""
	if p := safely(func() { out, err = f() }); p != nil {
		impl = resPanic()
		gt = fmt.Sprintf("serialiser %d panicked: %v", op, p)
	} else if err != nil {
		impl = resErr(eParse)
	} else {
		impl = resOk(core.Bs(out))
	}
	return &core.Case{Class: class + "/sub", Desc: fmt.Sprintf("%s (serialiser %d)", desc, op), Entry: "abi", Input: core.Ls(core.A(op), arg), Impl: impl, GT: gt, NonTrivial: len(arg.L) > 0}
}

func sizeBucket(n int) string {
	switch {
	case n < 636:
		return "<636"
	case n < 1020:
		return "636..1019"
	case n < 1226:
		return "1020..1225"
	case n < 4096:
		return "1226..4095"
	default:
		return ">=4096"
	}
}

func resultName(s core.Sexp) string {
	switch s.Nth(0).N {
	case 0:
		return "ok"
	case 1:
		return fmt.Sprintf("err-%d", s.Nth(1).N)
	default:
		return "panic"
	}
}
