package props

import (
	"bytes"
	"errors"
	"fmt"
	"reflect"
	"sync"
	"time"

	"github.com/google/go-tdx-guest/verify/trust"

	"verifharness/core"
)

type scriptedGetter struct {
	mu       sync.Mutex
	failures int // fail this many times, then succeed (negative: fail forever)
	g        time.Duration
	header   map[string][]string
	body     []byte
	starts   []time.Duration
	ends     []time.Duration
	t0       time.Time
}

func (s *scriptedGetter) Get(url string) (map[string][]string, []byte, error) {
	s.mu.Lock()
	n := len(s.starts)
	s.starts = append(s.starts, time.Since(s.t0))
	s.mu.Unlock()
	time.Sleep(s.g)
	s.mu.Lock()
	s.ends = append(s.ends, time.Since(s.t0))
	s.mu.Unlock()
	if s.failures < 0 || n < s.failures {
		return nil, nil, errors.New("scripted failure")
	}
	return s.header, s.body, nil
}

const durOffset = uint64(1) << 62

func durS(d time.Duration) core.Sexp { return core.A(uint64(int64(d)) + durOffset) }

type c20Case struct {
	name      string
	timeout   time.Duration
	max       time.Duration
	failures  int
	g         time.Duration
	wantCalls int // expected number of calls when timing margins are wide (0 = not compared with the model)
	thorough  bool
}

func C20(c *core.Ctx) {
	c.Rule = "scripted wrapped getters (fail k times then succeed, or forever; each attempt takes a fixed time) under a grid of Timeout / MaxRetryDelay settings including zero, run on the real clock with small durations (one run with a 2.5 s cap, above the initial delay; and one uncapped 4 s / 8 s run in the thorough tier; runs of 70 to 150 consecutive failures under a 2-3 ms cap); observed: response, number of calls, gaps between calls, elapsed time, with tolerances of 60 ms (an outcome that rests on an upper time bound is re-measured alone up to three times and reported only if it persists); the model's outcome and call count are compared where the timing margins are wide (>= 40 ms). non-trivial = at least one failed attempt (a wait or a timeout decision is exercised); distinct = distinct settings"
	tol := 60 * time.Millisecond
	ms := time.Millisecond
	cases := []c20Case{
		{"immediate success", 300 * ms, 100 * ms, 0, 2 * ms, 1, false},
		{"k=1 then success", 350 * ms, 100 * ms, 1, 2 * ms, 2, false},
		{"k=2 then success", 350 * ms, 100 * ms, 2, 2 * ms, 3, false},
		{"forever failing, cap 100ms, timeout 350ms", 350 * ms, 100 * ms, -1, 2 * ms, 4, false},
		{"k=3 but timeout allows 4 calls", 350 * ms, 100 * ms, 3, 2 * ms, 4, false},
		{"k=4, timeout allows only 4 calls", 350 * ms, 100 * ms, 4, 2 * ms, 4, false},
		{"forever failing, cap 150ms, timeout 1s", 1000 * ms, 150 * ms, -1, 2 * ms, 7, false},
		{"k=5, cap 20ms", 300 * ms, 20 * ms, 5, 2 * ms, 6, false},
		{"timeout 0: one call only", 0, 100 * ms, -1, 2 * ms, 1, false},
		{"timeout 0, immediate success", 0, 100 * ms, 0, 2 * ms, 1, false},
		{"negative timeout", -1 * time.Second, 100 * ms, -1, 2 * ms, 1, false},
		{"cap larger than timeout: single wait cut by the deadline", 200 * ms, 1000 * ms, -1, 2 * ms, 1, false},
		{"slow attempts (80ms) forever failing", 300 * ms, 50 * ms, -1, 80 * ms, 3, false},
		{"attempt in progress at the deadline", 100 * ms, 40 * ms, -1, 150 * ms, 1, false},
		{"first attempt succeeds, but only after the deadline", 100 * ms, 40 * ms, 0, 150 * ms, 1, false},
		{"second attempt succeeds after the deadline", 120 * ms, 40 * ms, 1, 70 * ms, 2, false},
		{"max retry delay 0, timeout 60ms (busy loop finding)", 60 * ms, 0, -1, 1 * ms, 0, false},
		{"max retry delay negative, timeout 60ms (busy loop finding)", 60 * ms, -5 * ms, -1, 1 * ms, 0, false},
		{"max retry delay 0, k=3", 500 * ms, 0, 3, 1 * ms, 4, false},
		{"many failures: cap 2ms, timeout 400ms, forever failing (over 100 waits)", 400 * ms, 2 * ms, -1, 0, 0, false},
		{"many failures: cap 3ms, success at attempt 70", 2000 * ms, 3 * ms, 69, 0, 0, false},
		{"cap 2.5s (above the initial delay, not a multiple of it): two failures then success", 12 * time.Second, 2500 * ms, 2, 2 * ms, 3, false},
		{"uncapped growth: waits 4s then cut at 9s", 9 * time.Second, 30 * time.Second, -1, 2 * ms, 2, true},
		{"uncapped growth: success after the 4s wait", 9 * time.Second, 30 * time.Second, 1, 2 * ms, 2, true},
	}
	type result struct {
		cs      c20Case
		g       *scriptedGetter
		hdr     map[string][]string
		body    []byte
		err     error
		pan     any
		elapsed time.Duration
	}
	runOne := func(i int, cs c20Case) *result {
		sg := &scriptedGetter{failures: cs.failures, g: cs.g, header: map[string][]string{"X-Test": {"a", "b"}, "Tcb-Info-Issuer-Chain": {"v"}}, body: []byte(fmt.Sprintf("body-%d", i))}
		rg := &trust.RetryHTTPSGetter{Timeout: cs.timeout, MaxRetryDelay: cs.max, Getter: sg}
		res := &result{cs: cs, g: sg}
		done := make(chan struct{})
		sg.t0 = time.Now()
		go func() {
			defer close(done)
			defer func() { res.pan = recover() }()
			res.hdr, res.body, res.err = rg.Get("https://example.invalid/x")
		}()
		limit := cs.timeout + cs.max + 3*time.Second
		if limit < 3*time.Second {
			limit = 3 * time.Second
		}
		select {
		case <-done:
		case <-time.After(limit):
			res.pan = "did not return (hang)"
		}
		res.elapsed = time.Since(sg.t0)
		return res
	}
	// judge evaluates one run: ground-truth message, known-finding signature, whether the message
	// rests on an upper time bound (which scheduling noise on a loaded machine can break), the
	// gaps between calls and the number of calls
	judge := func(cs c20Case, res *result) (gt, sig string, noisy bool, gaps []time.Duration, calls int) {
		sg := res.g
		sg.mu.Lock()
		calls = len(sg.starts)
		for k := 1; k < len(sg.starts) && k-1 < len(sg.ends); k++ {
			gaps = append(gaps, sg.starts[k]-sg.ends[k-1])
		}
		ends := append([]time.Duration{}, sg.ends...)
		sg.mu.Unlock()
		switch {
		case res.pan != nil:
			gt = fmt.Sprintf("Get %v", res.pan)
		case res.err == nil:
			if cs.failures < 0 {
				gt = "success although the wrapped getter never succeeded"
			} else if !reflect.DeepEqual(res.hdr, sg.header) || !bytes.Equal(res.body, sg.body) {
				gt = "the successful response was modified"
			} else if calls != cs.failures+1 {
				gt = fmt.Sprintf("%d calls for a getter that succeeds at call %d", calls, cs.failures+1)
			}
		case cs.failures == 0:
			// the first attempt is always made and it succeeded
			gt = fmt.Sprintf("the wrapped getter succeeded at its first call, yet an error was returned (%v) after %d call(s)", res.err, calls)
		default:
			bound := cs.timeout
			if bound < 0 {
				bound = 0
			}
			if res.elapsed > bound+maxDur(cs.max, 0)+cs.g+tol {
				gt, noisy = fmt.Sprintf("gave up after %v, later than timeout %v + one retry delay %v + one attempt", res.elapsed, cs.timeout, cs.max), true
			}
		}
		if gt == "" && res.err != nil && calls > 0 && len(ends) == calls {
			// the wait that the deadline cut short is a wait too
			if last := res.elapsed - ends[calls-1]; last > maxDur(cs.max, 0)+tol {
				gt, noisy = fmt.Sprintf("the last wait lasted %v, longer than the maximum retry delay %v", last, cs.max), true
			}
		}
		if gt == "" {
			for k, gp := range gaps {
				if gp > maxDur(cs.max, 0)+tol {
					gt, noisy = fmt.Sprintf("wait %d lasted %v, longer than the maximum retry delay %v", k, gp, cs.max), true
				}
				// time.After never fires early, so a completed wait shorter than half the cap (the
				// doubling delay starts at 4 s, above every cap used here) was not a wait of the cap
				if cs.max > 0 && cs.max <= 4*time.Second && gp < cs.max/2 {
					gt, noisy = fmt.Sprintf("wait %d lasted only %v with a maximum retry delay of %v", k, gp, cs.max), false
				}
			}
			if gt == "" && cs.max <= 0 && len(gaps) > 0 {
				busy := true
				for _, gp := range gaps {
					if gp > 2*time.Millisecond {
						busy = false
					}
				}
				if busy {
					gt = fmt.Sprintf("MaxRetryDelay=%v with Timeout=%v: %d calls with no wait in between (busy loop)", cs.max, cs.timeout, calls)
					sig = "MaxRetryDelay<=0 with Timeout>0 retries without waiting"
				}
			}
		}
		// the call count that the model predicts under wide margins is a timing statement as well
		if gt == "" && cs.wantCalls > 0 && calls != cs.wantCalls {
			noisy = true
		}
		return
	}
	var wg sync.WaitGroup
	results := make([]*result, len(cases))
	for i, cs := range cases {
		if cs.thorough && !c.Thorough() {
			continue
		}
		i, cs := i, cs
		wg.Add(1)
		go func() {
			defer wg.Done()
			results[i] = runOne(i, cs)
		}()
	}
	wg.Wait()
	for i, res := range results {
		cs := cases[i]
		if res == nil {
			continue
		}
		gt, sig, noisy, gaps, calls := judge(cs, res)
		// an outcome that rests on an upper time bound is re-measured alone (no other case running):
		// only what persists is reported
		reruns := 0
		for noisy && reruns < 3 {
			reruns++
			res = runOne(i, cs)
			gt, sig, noisy, gaps, calls = judge(cs, res)
		}
		sg := res.g
		// model comparison on outcome and call count where the margins are wide
		outcome := core.Ls(core.A(1))
		if res.err == nil {
			outcome = core.Ls(core.A(0), core.Bs(res.body))
		}
		impl := core.Ls(outcome, core.Ai(calls))
		var attempts []core.Sexp
		n := cs.failures
		if n < 0 {
			n = 400
		}
		for k := 0; k < n; k++ {
			attempts = append(attempts, core.Ls(durS(cs.g), core.Ls()))
		}
		if cs.failures >= 0 {
			attempts = append(attempts, core.Ls(durS(cs.g), core.Ls(core.Bs(sg.body))))
		}
		input := core.Ls(core.Ls(attempts...), durS(0), durS(cs.timeout), durS(cs.max), core.Ls())
		cse := &core.Case{Class: "retry", Desc: fmt.Sprintf("%s: calls=%d err=%v elapsed=%v gaps=%v reruns=%d", cs.name, calls, res.err != nil, res.elapsed.Round(time.Millisecond), roundAll(gaps), reruns),
			Entry: "retry", Input: input, Impl: impl, GT: gt, Signature: sig, NonTrivial: cs.failures != 0}
		if cs.wantCalls == 0 || gt != "" {
			cse.SkipModel = true
		}
		c.Add(cse)
	}
}

func maxDur(a, b time.Duration) time.Duration {
	if a > b {
		return a
	}
	return b
}

func roundAll(ds []time.Duration) []time.Duration {
	var out []time.Duration
	for _, d := range ds {
		out = append(out, d.Round(time.Millisecond))
	}
	if len(out) > 8 {
		out = out[:8]
	}
	return out
}
