package props

import (
	"bytes"
	"crypto/x509"
	"crypto/x509/pkix"
	"encoding/asn1"
	"encoding/hex"
	"fmt"
	"math/big"
	"math/rand"

	"github.com/google/go-tdx-guest/pcs"

	"verifharness/core"
)

// ---- DER trees (the harness's own encoder) ---------------------------------------

type derNode struct {
	cls, tag int
	cons     bool
	content  []byte     // primitive content
	kids     []*derNode // constructed content
}

func (n *derNode) encode() []byte {
	body := n.content
	if n.cons {
		body = nil
		for _, k := range n.kids {
			body = append(body, k.encode()...)
		}
	}
	id := byte(n.cls<<6) | byte(n.tag)
	if n.cons {
		id |= 0x20
	}
	out := []byte{id}
	l := len(body)
	switch {
	case l < 128:
		out = append(out, byte(l))
	case l < 256:
		out = append(out, 0x81, byte(l))
	default:
		out = append(out, 0x82, byte(l>>8), byte(l))
	}
	return append(out, body...)
}

func dSeq(kids ...*derNode) *derNode { return &derNode{tag: 16, cons: true, kids: kids} }
func dOct(b []byte) *derNode         { return &derNode{tag: 4, content: b} }
func dOID(arcs ...int) *derNode {
	b, _ := asn1.Marshal(asn1.ObjectIdentifier(arcs))
	return &derNode{tag: 6, content: b[2:]}
}
func dInt(v *big.Int) *derNode {
	b, _ := asn1.Marshal(v)
	return &derNode{tag: 2, content: b[2:]}
}
func dIntI(v int64) *derNode { return dInt(big.NewInt(v)) }
func dRaw(cls, tag int, cons bool, content []byte) *derNode {
	return &derNode{cls: cls, tag: tag, cons: cons, content: content}
}

var sgxBase = []int{1, 2, 840, 113741, 1, 13, 1}

func sgxOid(sub ...int) *derNode { return dOID(append(append([]int{}, sgxBase...), sub...)...) }

// ---- generic decoding of bytes into the model's node view (encoding/asn1 as oracle) ----

func anySexp(full []byte) core.Sexp {
	var v interface{}
	if _, err := asn1.Unmarshal(full, &v); err != nil {
		return core.Ls(core.A(0))
	}
	switch x := v.(type) {
	case int64:
		return core.Ls(core.A(1), core.A(uint64(x)+(1<<63)))
	case []byte:
		return core.Ls(core.A(2), core.Bs(x))
	}
	return core.Ls(core.A(3))
}

func nodeSexp(raw asn1.RawValue, depth int) core.Sexp {
	kids := core.Ls()
	complete := false
	if raw.IsCompound && depth < 10 {
		var ks []core.Sexp
		rest := raw.Bytes
		ok := true
		for len(rest) > 0 {
			var k asn1.RawValue
			r2, err := asn1.Unmarshal(rest, &k)
			if err != nil {
				ok = false
				break
			}
			ks = append(ks, nodeSexp(k, depth+1))
			rest = r2
		}
		// the well-formed prefix of the content, and whether it is all of it: decoding into
		// []asn1.RawValue needs the whole content to be well-formed TLVs, decoding into a struct
		// reads only as many members as it has fields and ignores what follows
		kids = core.Ls(core.Ls(ks...))
		complete = ok
	}
	oid := core.Ls()
	if raw.Class == 0 && raw.Tag == 6 && !raw.IsCompound {
		var o asn1.ObjectIdentifier
		if _, err := asn1.Unmarshal(raw.FullBytes, &o); err == nil {
			var arcs []core.Sexp
			for _, a := range o {
				arcs = append(arcs, core.Ai(a))
			}
			oid = core.Ls(core.Ls(arcs...))
		}
	}
	return core.Ls(core.Ai(raw.Class), core.Ai(raw.Tag), core.Bool(raw.IsCompound), core.Bs(raw.Bytes), kids, oid, anySexp(raw.FullBytes), core.Bool(complete))
}

type decodeTab struct {
	seen map[string]bool
	rows []core.Sexp
}

func (t *decodeTab) add(b []byte) {
	if t.seen[string(b)] {
		return
	}
	t.seen[string(b)] = true
	var raw asn1.RawValue
	rest, err := asn1.Unmarshal(b, &raw)
	if err != nil {
		t.rows = append(t.rows, core.Ls(core.Bs(b), core.Ls()))
		return
	}
	t.rows = append(t.rows, core.Ls(core.Bs(b), core.Ls(core.Ls(nodeSexp(raw, 0), core.Ai(len(rest))))))
	// nested: every primitive OCTET STRING content may be decoded again
	t.addNested(raw, 0)
}

func (t *decodeTab) addNested(raw asn1.RawValue, depth int) {
	if raw.Class == 0 && raw.Tag == 4 && !raw.IsCompound {
		t.add(raw.Bytes)
	}
	if raw.IsCompound && depth < 10 {
		rest := raw.Bytes
		for len(rest) > 0 {
			var k asn1.RawValue
			r2, err := asn1.Unmarshal(rest, &k)
			if err != nil {
				return
			}
			t.addNested(k, depth+1)
			rest = r2
		}
	}
}

// ---- SGX extension values and their tree ---------------------------------------------

type sgxVals struct {
	ppid   []byte
	comps  [16]int64
	pcesvn int64
	cpusvn []byte
	pceid  []byte
	fmspc  []byte
}

func randVals(r *rand.Rand) sgxVals {
	v := sgxVals{ppid: core.RandBytes(r, 16), cpusvn: core.RandBytes(r, 16), pceid: core.RandBytes(r, 2), fmspc: core.RandBytes(r, 6)}
	for i := range v.comps {
		v.comps[i] = int64(r.Intn(256))
		if r.Intn(4) == 0 {
			v.comps[i] = []int64{0, 127, 128, 255}[r.Intn(4)]
		}
	}
	// opaque values that happen to look like DER: an OCTET STRING / SEQUENCE / INTEGER header first
	if r.Intn(4) == 0 {
		hdr := func(b []byte, tag byte, n int) { b[0], b[1] = tag, byte(n) }
		switch r.Intn(6) {
		case 0:
			hdr(v.ppid, 0x04, 14)
		case 1:
			hdr(v.ppid, 0x04, r.Intn(15))
		case 2:
			hdr(v.fmspc, 0x04, 4)
		case 3:
			hdr(v.pceid, 0x04, 0)
		case 4:
			hdr(v.cpusvn, 0x04, 14)
			hdr(v.fmspc, 0x30, 4)
		case 5:
			hdr(v.ppid, 0x02, 14)
			hdr(v.fmspc, 0x04, r.Intn(5))
		}
	}
	v.pcesvn = int64(r.Intn(65536))
	if r.Intn(4) == 0 {
		v.pcesvn = []int64{0, 255, 256, 32767, 32768, 65535}[r.Intn(6)]
	}
	return v
}

func (v sgxVals) tcbElems() []*derNode {
	var out []*derNode
	for i := 0; i < 16; i++ {
		out = append(out, dSeq(sgxOid(2, i+1), dIntI(v.comps[i])))
	}
	out = append(out, dSeq(sgxOid(2, 17), dIntI(v.pcesvn)), dSeq(sgxOid(2, 18), dOct(v.cpusvn)))
	return out
}

func (v sgxVals) elems() []*derNode {
	return []*derNode{
		dSeq(sgxOid(1), dOct(v.ppid)),
		dSeq(sgxOid(2), dSeq(v.tcbElems()...)),
		dSeq(sgxOid(3), dOct(v.pceid)),
		dSeq(sgxOid(4), dOct(v.fmspc)),
		dSeq(sgxOid(5), dRaw(0, 10, false, []byte{0})), // SGX type, ENUMERATED
	}
}

func shuffled(r *rand.Rand, l []*derNode) []*derNode {
	out := append([]*derNode{}, l...)
	r.Shuffle(len(out), func(i, j int) { out[i], out[j] = out[j], out[i] })
	return out
}

var otherExtOids = []asn1.ObjectIdentifier{{2, 5, 29, 35}, {2, 5, 29, 31}, {2, 5, 29, 14}, {2, 5, 29, 15}, {2, 5, 29, 19}}

func C13(c *core.Ctx) {
	// (value generator: see randVals; a quarter of the assignments carry opaque values that start like a DER header)
	c.Rule = "SGX extensions built from value assignments (components 0..255 incl. 0/127/128/255, PCE SVN 0..65535 incl. boundaries, random byte contents, a quarter of them starting like a DER OCTET STRING / SEQUENCE / INTEGER header) with the five sub-extensions and the 18 TCB elements in random order, extra unknown elements and trailing members; malformed variants: component / PCE SVN out of range, negative, 9-byte and non-minimal integers, wrong ASN.1 types (OCTET STRING for INTEGER, BOOLEAN, ENUMERATED, SET, context tags), wrong octet-string lengths (incl. nested DER octet strings), missing and duplicated elements, 17 / 19 TCB elements, TCB sequence of 1 / 3 members, trailing bytes at every level, truncation, random byte mutation; certificate extension lists of length 5/6/7, SGX extension absent or duplicated. Ground truth: well-formed trees yield exactly the values in any order; everything else an error. non-trivial = the SGX extension value decodes as a SEQUENCE; distinct = distinct extension lists"
	r := c.Rng
	run := func(class, desc string, sgx []byte, exts []pkix.Extension, want *sgxVals, wantErr bool, sig string) {
		if !c.Wanted() {
			c.Add(&core.Case{Class: class, SkipModel: true, Impl: core.Ls()})
			return
		}
		if exts == nil {
			for _, o := range otherExtOids {
				exts = append(exts, pkix.Extension{Id: o, Value: []byte{5, 0}})
			}
			exts = append(exts, pkix.Extension{Id: pcs.OidSgxExtension, Value: sgx})
		}
		tab := &decodeTab{seen: map[string]bool{}}
		var extS []core.Sexp
		for _, e := range exts {
			var arcs []core.Sexp
			for _, a := range e.Id {
				arcs = append(arcs, core.Ai(a))
			}
			extS = append(extS, core.Ls(core.Ls(arcs...), core.Bs(e.Value)))
			if e.Id.Equal(pcs.OidSgxExtension) {
				tab.add(e.Value)
			}
		}
		var got *pcs.PckExtensions
		var err error
		pan := safely(func() { got, err = pcs.PckCertificateExtensions(&x509.Certificate{Extensions: exts}) })
		var impl core.Sexp
		gt, signature := "", ""
		switch {
		case pan != nil:
			impl = core.Ls(core.A(2))
			gt = fmt.Sprintf("PckCertificateExtensions panicked: %v", pan)
		case err != nil:
			impl = core.Ls(core.A(1))
			if want != nil {
				gt = "well-formed SGX extension rejected: " + err.Error()
			}
		default:
			ppid, _ := hex.DecodeString(got.PPID)
			pceid, _ := hex.DecodeString(got.PCEID)
			fmspc, _ := hex.DecodeString(got.FMSPC)
			var comps []core.Sexp
			for _, b := range got.TCB.CPUSvnComponents {
				comps = append(comps, core.A(uint64(b)))
			}
			impl = core.Ls(core.A(0), core.Ls(core.Bs(ppid), core.Ls(core.A(uint64(got.TCB.PCESvn)), core.Bs(got.TCB.CPUSvn), core.Ls(comps...)), core.Bs(pceid), core.Bs(fmspc)))
			if want != nil {
				okv := bytes.Equal(ppid, want.ppid) && bytes.Equal(pceid, want.pceid) && bytes.Equal(fmspc, want.fmspc) &&
					bytes.Equal(got.TCB.CPUSvn, want.cpusvn) && int64(got.TCB.PCESvn) == want.pcesvn && len(got.TCB.CPUSvnComponents) == 16
				for i := 0; okv && i < 16; i++ {
					okv = int64(got.TCB.CPUSvnComponents[i]) == want.comps[i]
				}
				if !okv {
					gt = "extracted values differ from the encoded ones"
				}
			} else if wantErr {
				gt = "malformed SGX extension accepted (a silently wrong or made-up value)"
				signature = sig
			}
		}
		var probe asn1.RawValue
		_, perr := asn1.Unmarshal(sgx, &probe)
		c.Count("result", resultName(impl))
		c.Add(&core.Case{Class: class, Desc: desc, Entry: "pck", Input: core.Ls(core.Ls(tab.rows...), core.Ls(extS...)), Impl: impl, GT: gt, Signature: signature,
			NonTrivial: perr == nil && probe.Tag == 16})
	}
	top := func(elems []*derNode) []byte { return dSeq(elems...).encode() }
	// ---- well-formed, any order ----
	for i := 0; i < c.Scale(150, 3000); i++ {
		v := randVals(r)
		el := v.elems()
		tcb := shuffled(r, v.tcbElems())
		el[1] = dSeq(sgxOid(2), dSeq(tcb...))
		if r.Intn(3) == 0 { // extra unknown sub-extension and trailing member inside an element
			el = append(el, dSeq(sgxOid(9), dOct([]byte{1, 2, 3})))
		}
		if r.Intn(4) == 0 {
			el[0] = dSeq(sgxOid(1), dOct(v.ppid), dIntI(7))
		}
		if r.Intn(4) == 0 { // platform-instance style extra SEQUENCE element
			el = append(el, dSeq(sgxOid(7), dSeq(dSeq(sgxOid(7, 1), dRaw(0, 1, false, []byte{0xff})))))
		}
		vv := v
		run("well-formed", "random values, shuffled", top(shuffled(r, el)), nil, &vv, false, "")
	}
	// every component value once at index 0 and 15; PCE SVN boundaries
	for val := int64(0); val < 256; val += 1 + int64(r.Intn(3)) {
		v := randVals(r)
		v.comps[0], v.comps[15] = val, 255-val
		vv := v
		run("well-formed-component-values", fmt.Sprintf("component value %d", val), top(v.elems()), nil, &vv, false, "")
	}
	for _, p := range []int64{0, 1, 127, 128, 255, 256, 32767, 32768, 65534, 65535} {
		v := randVals(r)
		v.pcesvn = p
		vv := v
		run("well-formed-pcesvn", fmt.Sprintf("PCE SVN %d", p), top(v.elems()), nil, &vv, false, "")
	}
	// ---- malformed variants ----
	mal := func(desc string, f func(v sgxVals) []byte, sig string) {
		run("malformed", desc, f(randVals(r)), nil, nil, true, sig)
	}
	setTcb := func(v sgxVals, idx int, n *derNode) []byte {
		t := v.tcbElems()
		t[idx] = n
		el := v.elems()
		el[1] = dSeq(sgxOid(2), dSeq(t...))
		return top(el)
	}
	for _, bad := range []int64{-1, -128, 256, 257, 65536, 1 << 40} {
		bad := bad
		mal(fmt.Sprintf("component 3 = %d", bad), func(v sgxVals) []byte { return setTcb(v, 2, dSeq(sgxOid(2, 3), dIntI(bad))) }, "")
		mal(fmt.Sprintf("component 16 = %d", bad), func(v sgxVals) []byte { return setTcb(v, 15, dSeq(sgxOid(2, 16), dIntI(bad))) }, "")
	}
	for _, bad := range []int64{-1, 65536, 1 << 31, 1 << 62} {
		bad := bad
		mal(fmt.Sprintf("PCE SVN = %d", bad), func(v sgxVals) []byte { return setTcb(v, 16, dSeq(sgxOid(2, 17), dIntI(bad))) }, "")
	}
	mal("component as a 9-byte integer", func(v sgxVals) []byte {
		return setTcb(v, 4, dSeq(sgxOid(2, 5), dRaw(0, 2, false, []byte{1, 0, 0, 0, 0, 0, 0, 0, 5})))
	}, "")
	mal("component as a non-minimal integer", func(v sgxVals) []byte { return setTcb(v, 4, dSeq(sgxOid(2, 5), dRaw(0, 2, false, []byte{0, 5}))) }, "")
	mal("component as an empty integer", func(v sgxVals) []byte { return setTcb(v, 4, dSeq(sgxOid(2, 5), dRaw(0, 2, false, nil))) }, "")
	for name, n := range map[string]*derNode{"OCTET STRING": dOct([]byte{5}), "BOOLEAN": dRaw(0, 1, false, []byte{0xff}), "ENUMERATED": dRaw(0, 10, false, []byte{5}),
		"NULL": dRaw(0, 5, false, nil), "UTF8String": dRaw(0, 12, false, []byte("5")), "SEQUENCE": dSeq(dIntI(5)), "context [0]": dRaw(2, 0, false, []byte{5}), "application INTEGER": dRaw(1, 2, false, []byte{5})} {
		n := n
		mal("component encoded as "+name, func(v sgxVals) []byte { return setTcb(v, 7, dSeq(sgxOid(2, 8), n)) }, "")
		mal("PCE SVN encoded as "+name, func(v sgxVals) []byte { return setTcb(v, 16, dSeq(sgxOid(2, 17), n)) }, "")
	}
	mal("CPU SVN as INTEGER", func(v sgxVals) []byte { return setTcb(v, 17, dSeq(sgxOid(2, 18), dIntI(5))) }, "")
	for _, n := range []int{0, 15, 17, 32} {
		n := n
		mal(fmt.Sprintf("CPU SVN of %d bytes", n), func(v sgxVals) []byte { return setTcb(v, 17, dSeq(sgxOid(2, 18), dOct(core.RandBytes(r, n)))) }, "")
	}
	// octet strings of wrong length (plain) and nested-DER
	setEl := func(v sgxVals, idx int, n *derNode) []byte { el := v.elems(); el[idx] = n; return top(el) }
	for _, f := range []struct {
		name string
		idx  int
		sub  int
		size int
	}{{"PPID", 0, 1, 16}, {"PCEID", 2, 3, 2}, {"FMSPC", 3, 4, 6}} {
		f := f
		for _, n := range []int{0, 1, f.size - 1, f.size + 1, f.size + 2, 2 * f.size} {
			n := n
			content := core.RandBytes(r, n)
			if n >= 2 { // make sure it is not accidentally a nested DER octet string of the right size
				content[0] = 0x30
			}
			mal(fmt.Sprintf("%s octet string of %d bytes", f.name, n), func(v sgxVals) []byte { return setEl(v, f.idx, dSeq(sgxOid(f.sub), dOct(content))) }, "")
		}
		mal(f.name+" as nested DER OCTET STRING of the right inner size (leniency)", func(v sgxVals) []byte {
			return setEl(v, f.idx, dSeq(sgxOid(f.sub), dOct(dOct(core.RandBytes(r, f.size)).encode())))
		}, "nested DER OCTET STRING of the right inner size accepted")
		mal(f.name+" as nested DER OCTET STRING of a wrong inner size", func(v sgxVals) []byte {
			return setEl(v, f.idx, dSeq(sgxOid(f.sub), dOct(dOct(core.RandBytes(r, f.size+1)).encode())))
		}, "")
		mal(f.name+" as nested DER OCTET STRING with trailing byte", func(v sgxVals) []byte {
			return setEl(v, f.idx, dSeq(sgxOid(f.sub), dOct(append(dOct(core.RandBytes(r, f.size)).encode(), 0))))
		}, "")
		mal(f.name+" value as INTEGER", func(v sgxVals) []byte { return setEl(v, f.idx, dSeq(sgxOid(f.sub), dIntI(5))) }, "")
		mal(f.name+" element missing", func(v sgxVals) []byte {
			el := v.elems()
			el = append(el[:f.idx], el[f.idx+1:]...)
			el = append(el, dSeq(sgxOid(8), dOct([]byte{1})))
			return top(el)
		}, "")
		mal(f.name+" element twice with different values", func(v sgxVals) []byte {
			el := v.elems()
			el = append(el, dSeq(sgxOid(f.sub), dOct(core.RandBytes(r, f.size))))
			return top(el)
		}, "")
	}
	mal("TCB element missing", func(v sgxVals) []byte {
		el := v.elems()
		el[1] = dSeq(sgxOid(8), dOct([]byte{1}))
		return top(el)
	}, "")
	mal("TCB element twice", func(v sgxVals) []byte {
		el := v.elems()
		el = append(el, dSeq(sgxOid(2), dSeq(randVals(r).tcbElems()...)))
		return top(el)
	}, "")
	for _, miss := range []int{0, 1, 7, 15, 16, 17} {
		miss := miss
		mal(fmt.Sprintf("TCB component %d missing, another duplicated (18 elements)", miss+1), func(v sgxVals) []byte {
			t := v.tcbElems()
			t[miss] = t[(miss+1)%16]
			el := v.elems()
			el[1] = dSeq(sgxOid(2), dSeq(t...))
			return top(el)
		}, "")
		mal(fmt.Sprintf("TCB component %d replaced by an unknown OID", miss+1), func(v sgxVals) []byte {
			return setTcb(v, miss, dSeq(sgxOid(2, 40), dIntI(1)))
		}, "")
	}
	// entries whose OID is near, but not in, the component family: last arc 0 or past 18, a
	// longer or shorter OID, a sibling prefix with a valid last arc
	for _, arcs := range [][]int{{2, 0}, {2, 19}, {2, 20}, {2, 255}, {2, 256}, {2, 257}, {2, 65537}, {2, 1<<31 - 1}, {2, 1, 0}, {2, 3, 1}, {2}, {3, 5}, {1, 5}, {2, 0, 5}} {
		arcs := arcs
		for _, miss := range []int{0, 4, 15, 16, 17} {
			miss := miss
			mal(fmt.Sprintf("TCB element %d replaced by one with OID suffix %v", miss+1, arcs), func(v sgxVals) []byte {
				return setTcb(v, miss, dSeq(sgxOid(arcs...), dIntI(int64(r.Intn(256)))))
			}, "")
		}
	}
	// component n's element replaced by a look-alike whose OID continues past the component arc
	// (...2.n.x) or stops short of it: component n is then missing
	for n := 1; n <= 18; n++ {
		n := n
		for _, tail := range [][]int{{1}, {0}, {n}, {1, 1}} {
			arcs := append([]int{2, n}, tail...)
			mal(fmt.Sprintf("TCB element %d replaced by a look-alike with OID suffix %v", n, arcs), func(v sgxVals) []byte {
				val := dIntI(int64(r.Intn(200)))
				if n == 18 {
					val = dOct(core.RandBytes(r, 16))
				}
				return setTcb(v, n-1, dSeq(sgxOid(arcs...), val))
			}, "")
		}
	}
	for _, arcs := range [][]int{{0}, {6}, {255}, {1, 0}, {2, 1}} {
		arcs := arcs
		mal(fmt.Sprintf("PPID element replaced by one with OID suffix %v", arcs), func(v sgxVals) []byte {
			return setEl(v, 0, dSeq(sgxOid(arcs...), dOct(v.ppid)))
		}, "")
	}
	mal("17 TCB elements", func(v sgxVals) []byte {
		el := v.elems()
		el[1] = dSeq(sgxOid(2), dSeq(v.tcbElems()[:17]...))
		return top(el)
	}, "")
	mal("19 TCB elements", func(v sgxVals) []byte {
		el := v.elems()
		el[1] = dSeq(sgxOid(2), dSeq(append(v.tcbElems(), dSeq(sgxOid(2, 19), dIntI(1)))...))
		return top(el)
	}, "")
	mal("TCB sequence with one member", func(v sgxVals) []byte { el := v.elems(); el[1] = dSeq(sgxOid(2)); return top(el) }, "")
	mal("TCB sequence with three members", func(v sgxVals) []byte {
		el := v.elems()
		el[1] = dSeq(sgxOid(2), dSeq(v.tcbElems()...), dIntI(1))
		return top(el)
	}, "")
	mal("TCB value is a SET", func(v sgxVals) []byte {
		el := v.elems()
		el[1] = dSeq(sgxOid(2), &derNode{tag: 17, cons: true, kids: v.tcbElems()})
		return top(el)
	}, "")
	mal("top level is a SET", func(v sgxVals) []byte { return (&derNode{tag: 17, cons: true, kids: v.elems()}).encode() }, "")
	mal("top level is an OCTET STRING", func(v sgxVals) []byte { return dOct(top(v.elems())).encode() }, "")
	mal("trailing byte after the top level", func(v sgxVals) []byte { return append(top(v.elems()), 0) }, "")
	mal("three elements only", func(v sgxVals) []byte { return top(v.elems()[:3]) }, "")
	mal("element is not a SEQUENCE", func(v sgxVals) []byte { el := v.elems(); el[4] = dIntI(1); return top(el) }, "")
	mal("element with a single member", func(v sgxVals) []byte { el := v.elems(); el[4] = dSeq(sgxOid(5)); return top(el) }, "")
	mal("element whose first member is not an OID", func(v sgxVals) []byte { el := v.elems(); el[4] = dSeq(dIntI(1), dIntI(2)); return top(el) }, "")
	mal("empty value", func(v sgxVals) []byte { return nil }, "")
	mal("indefinite length", func(v sgxVals) []byte { return []byte{0x30, 0x80, 0, 0} }, "")
	for i := 0; i < c.Scale(40, 1000); i++ {
		mal("truncated", func(v sgxVals) []byte { b := top(v.elems()); return b[:r.Intn(len(b))] }, "")
	}
	// random byte mutation: no expectation beyond agreement with the model and no crash
	for i := 0; i < c.Scale(300, 20000); i++ {
		v := randVals(r)
		b := top(shuffled(r, v.elems()))
		for k := 0; k <= r.Intn(3); k++ {
			b[r.Intn(len(b))] = byte(r.Intn(256))
		}
		run("mutated", "random byte mutation", b, nil, nil, false, "")
	}
	// ---- the certificate's extension list ----
	v := randVals(r)
	good := top(v.elems())
	mk := func(n int, withSgx int) []pkix.Extension {
		var e []pkix.Extension
		for i := 0; i < n-withSgx; i++ {
			e = append(e, pkix.Extension{Id: asn1.ObjectIdentifier{2, 5, 29, 100 + i}, Value: []byte{5, 0}})
		}
		for i := 0; i < withSgx; i++ {
			val := good
			if i > 0 {
				val = []byte{0x30, 0}
			}
			e = append(e, pkix.Extension{Id: pcs.OidSgxExtension, Value: val})
		}
		return e
	}
	vv := v
	run("extension-list", "6 extensions, SGX last", good, mk(6, 1), &vv, false, "")
	run("extension-list", "6 extensions, SGX extension twice (first wins)", good, mk(6, 2), &vv, false, "")
	run("extension-list", "5 extensions", good, mk(5, 1), nil, true, "")
	run("extension-list", "7 extensions", good, mk(7, 1), nil, true, "")
	run("extension-list", "6 extensions, no SGX extension", good, mk(6, 0), nil, true, "")
	run("extension-list", "no extensions", good, []pkix.Extension{}, nil, true, "")
}
