package props

import (
	"bytes"
	"crypto/sha256"
	"crypto/sha512"
	"crypto/x509"
	"encoding/binary"
	"errors"
	"fmt"
	"strings"
	"time"

	"github.com/google/go-eventlog/ccel"
	"github.com/google/go-eventlog/extract"
	"github.com/google/go-eventlog/proto/state"
	"github.com/google/go-eventlog/register"
	"github.com/google/go-eventlog/tcg"
	"github.com/google/go-tdx-guest/abi"
	pb "github.com/google/go-tdx-guest/proto/tdx"
	"github.com/google/go-tdx-guest/rtmr"
	"github.com/google/go-tdx-guest/validate"
	"github.com/google/go-tdx-guest/verify"
	"google.golang.org/protobuf/proto"

	"verifharness/core"
	"verifharness/world"
)

// logView: what the harness knows about an event log independently of the call
// under test (parsing through go-eventlog's exported API, replay by hand).
type logView struct {
	raw      []byte
	parsed   bool
	events   []tcg.Event // SHA-384 view, in log order
	replayed [4][]byte   // nil = no events for RTMR i
	shaTab   []core.Sexp
}

func viewLog(raw []byte) *logView {
	v := &logView{raw: raw}
	if len(raw) == 0 {
		return v
	}
	var el *tcg.EventLog
	var err error
	if pan := safely(func() { el, err = tcg.ParseEventLog(raw, tcg.ParseOpts{AllowPadding: true}) }); pan != nil || err != nil {
		return v
	}
	v.parsed = true
	v.events = el.Events(register.HashSHA384)
	for _, e := range v.events {
		if e.Type == tcg.NoAction || e.Index < 1 || e.Index > 4 || len(e.Digest) != 48 {
			continue
		}
		i := e.Index - 1
		prev := v.replayed[i]
		if prev == nil {
			prev = make([]byte, 48)
		}
		in := append(append([]byte{}, prev...), e.Digest...)
		d := sha512.Sum384(in)
		v.replayed[i] = d[:]
		v.shaTab = append(v.shaTab, core.Ls(core.Bs(in), core.Bs(d[:])))
	}
	return v
}

func (v *logView) eventsSexp() core.Sexp {
	if !v.parsed {
		return core.Ls()
	}
	var l []core.Sexp
	for _, e := range v.events {
		d := core.Ls()
		if e.Digest != nil {
			d = core.Ls(core.Bs(e.Digest))
		}
		l = append(l, core.Ls(core.Ai(e.Index), core.Bool(e.Type == tcg.NoAction), d))
	}
	return core.Ls(core.Ls(l...))
}

// eventBoundaries returns the byte offsets at which events of a crypto-agile
// (TCG PFP) log end; offsets[k] = end of event k.
func eventBoundaries(raw []byte) []int {
	var out []int
	// first event: legacy format (pcr u32, type u32, sha1[20], size u32, data)
	if len(raw) < 32 {
		return nil
	}
	sz := int(binary.LittleEndian.Uint32(raw[28:32]))
	off := 32 + sz
	if off > len(raw) {
		return nil
	}
	out = append(out, off)
	algSize := map[uint16]int{0x4: 20, 0xb: 32, 0xc: 48, 0xd: 64}
	for off+12 <= len(raw) {
		if binary.LittleEndian.Uint32(raw[off:]) == 0xffffffff || (binary.LittleEndian.Uint32(raw[off:]) == 0 && binary.LittleEndian.Uint32(raw[off+4:]) == 0) {
			break
		}
		p := off + 8
		n := int(binary.LittleEndian.Uint32(raw[p:]))
		p += 4
		okAlg := true
		for k := 0; k < n; k++ {
			if p+2 > len(raw) {
				return out
			}
			s, ok := algSize[binary.LittleEndian.Uint16(raw[p:])]
			if !ok {
				okAlg = false
				break
			}
			p += 2 + s
		}
		if !okAlg || p+4 > len(raw) {
			break
		}
		ds := int(binary.LittleEndian.Uint32(raw[p:]))
		p += 4 + ds
		if p > len(raw) {
			break
		}
		off = p
		out = append(out, off)
	}
	return out
}

type c18Env struct {
	c        *core.Ctx
	table    []byte
	nonce    []byte
	sample   *pb.QuoteV4
	stateIDs map[string]uint64
}

func (e *c18Env) stateID(s *state.FirmwareLogState) uint64 {
	b, _ := proto.MarshalOptions{Deterministic: true}.Marshal(s)
	k := fmt.Sprintf("%x", sha256.Sum256(b))
	if id, ok := e.stateIDs[k]; ok {
		return id
	}
	id := uint64(len(e.stateIDs) + 1)
	e.stateIDs[k] = id
	return id
}

// fieldsFrom copies header and TD body of the sample quote into generator fields.
func fieldsFrom(r *core.Ctx, q *pb.QuoteV4) world.QuoteFields {
	f := world.DefaultQuoteFields(r.Rng)
	h, b := q.Header, q.TdQuoteBody
	copy(f.PceSvn[:], h.PceSvn)
	copy(f.QeSvn[:], h.QeSvn)
	copy(f.QeVendorID[:], h.QeVendorId)
	copy(f.UserData[:], h.UserData)
	copy(f.TeeTcbSvn[:], b.TeeTcbSvn)
	copy(f.MrSeam[:], b.MrSeam)
	copy(f.MrSignerSeam[:], b.MrSignerSeam)
	copy(f.SeamAttributes[:], b.SeamAttributes)
	copy(f.TdAttributes[:], b.TdAttributes)
	copy(f.Xfam[:], b.Xfam)
	copy(f.MrTd[:], b.MrTd)
	copy(f.MrConfigID[:], b.MrConfigId)
	copy(f.MrOwner[:], b.MrOwner)
	copy(f.MrOwnerConfig[:], b.MrOwnerConfig)
	for i := 0; i < 4; i++ {
		copy(f.Rtmrs[i][:], b.Rtmrs[i])
	}
	copy(f.ReportData[:], b.ReportData)
	return f
}

type c18Case struct {
	class, desc string
	f           world.QuoteFields // signed under a fresh PKI
	log         []byte
	table       []byte
	mutMsg      func(q *pb.QuoteV4)       // after signing (breaks the signature unless it touches unsigned parts)
	mutSc       func(sc *Scenario)        // verification options / world
	policy      func(o *validate.Options) // on top of the default (nonce) policy
	nilPolicy   bool
	collateral  bool
	crl         bool
	expectState bool // ground truth expectation for the honest cases (-1 not asserted)
	assertState bool
}

func (e *c18Env) run(cs c18Case) {
	c := e.c
	r := c.Rng
	pki, err := world.NewPKI(r, world.PKIOpts{Now: baseTime, Ext: world.RandomSGXExt(r)})
	if err != nil {
		panic(err)
	}
	w, err := world.BuildWorld(r, baseTime, pki, cs.f)
	if err != nil {
		panic(err)
	}
	qa, err := abi.QuoteToProto(w.Quote.Raw)
	if err != nil {
		panic(err)
	}
	q := qa.(*pb.QuoteV4)
	if cs.mutMsg != nil {
		cs.mutMsg(q)
	}
	sc := scenarioFromWorld(w, cs.collateral, cs.crl)
	sc.UseMsg, sc.Msg = true, q
	if cs.mutSc != nil {
		cs.mutSc(sc)
	}
	vo, getter := sc.options()
	def := rtmr.TdxDefaultOpts(e.nonce)
	pol := def.Validation
	if cs.policy != nil {
		cs.policy(pol)
	}
	if cs.nilPolicy {
		pol = nil
	}
	table := cs.table
	if table == nil {
		table = e.table
	}
	opts := &rtmr.ParseTdxCcelOpts{Validation: pol, Verification: vo, ExtractOpt: extract.Opts{Loader: extract.GRUB}}

	// ---- the call under test ----
	var st *state.FirmwareLogState
	var callErr error
	pan := safely(func() { st, callErr = rtmr.ParseCcelWithTdQuote(cs.log, table, q, opts) })
	var urls []core.Sexp
	if getter != nil {
		for _, u := range getter.Calls {
			urls = append(urls, core.Str(u))
		}
	}
	code := errClass(callErr, pan)
	id := uint64(0)
	if pan == nil && st != nil {
		id = e.stateID(st) // also when an error comes with it (go-eventlog hands back a partial state next to an extraction error)
	}
	impl := core.Ls(core.A(code), core.A(id), core.Ls(urls...))

	// ---- independent ground truth ----
	lv := viewLog(cs.log)
	vo2, _ := sc.options()
	var vErr, pErr error
	vPan := safely(func() { vErr = verify.TdxQuote(q, vo2) })
	pPan := safely(func() { pErr = validate.TdxQuote(q, pol) })
	gatesOK := vPan == nil && pPan == nil && vErr == nil && pErr == nil
	mismatch := -1
	for i := 0; i < 4 && q.GetTdQuoteBody() != nil && i < len(q.TdQuoteBody.Rtmrs); i++ {
		if lv.replayed[i] != nil && !bytes.Equal(lv.replayed[i], q.TdQuoteBody.Rtmrs[i]) {
			mismatch = i
		}
	}
	gt := ""
	switch {
	case pan != nil:
		gt = fmt.Sprintf("ParseCcelWithTdQuote panicked: %v", pan)
	case st != nil && !gatesOK:
		gt = fmt.Sprintf("a state was returned although the quote fails a gate (verify: %v / validate: %v)", vErr, pErr)
	case st != nil && mismatch >= 0:
		gt = fmt.Sprintf("a state was returned although RTMR[%d] of the (validly signed) quote differs from the replay of the log's events for it", mismatch)
	case (!gatesOK || mismatch >= 0) && callErr == nil:
		gt = "no error although a gate fails or a measured RTMR differs from the replay"
	case st == nil && callErr == nil:
		gt = "neither a state nor an error was returned"
	case cs.assertState && cs.expectState && (st == nil || callErr != nil):
		gt = fmt.Sprintf("the matching quote and log are refused: %v", callErr)
	case cs.assertState && !cs.expectState && st != nil:
		gt = "a state was returned in a case that must be refused"
	}

	// ---- oracles for the model ----
	tableOK := true
	var extractS, partialS core.Sexp
	{
		// the table: probe with an empty log
		var perr error
		_ = safely(func() {
			_, perr = ccel.ReplayAndExtract(table, nil, register.RTMRBank{}, extract.Opts{Loader: extract.GRUB})
		})
		if perr != nil && (strings.Contains(perr.Error(), "CCEL ACPI Table") || strings.Contains(perr.Error(), "only TDX")) {
			tableOK = false
		}
		// extraction on the verified events: replay against the registers the log itself produces
		bank := register.RTMRBank{}
		for i := 0; i < 4; i++ {
			d := lv.replayed[i]
			if d == nil {
				d = make([]byte, 48)
			}
			bank.RTMRs = append(bank.RTMRs, register.RTMR{Index: i, Digest: d})
		}
		var xs *state.FirmwareLogState
		var xerr error
		xpan := safely(func() { xs, xerr = ccel.ReplayAndExtract(table, cs.log, bank, extract.Opts{Loader: extract.GRUB}) })
		partialS = core.Ls()
		switch {
		case xpan != nil:
			extractS = core.Ls(core.A(2))
		case xerr != nil || xs == nil:
			extractS = core.Ls(core.A(1))
			if xs != nil {
				partialS = core.Ls(core.A(e.stateID(xs)))
			}
		default:
			extractS = core.Ls(core.A(0), core.A(e.stateID(xs)))
		}
	}
	worldS, optS := sc.abstract()
	voS := optS
	oracle := core.Ls(core.Bool(tableOK), core.Bool(len(cs.log) == 0), lv.eventsSexp(), extractS, partialS)
	input := core.Ls(worldS, optQuote(q), voS, voptsSexp(pol), zt(sc.Wall), oracle, core.Ls(lv.shaTab...))
	c.Add(&core.Case{Class: cs.class, Desc: cs.desc + fmt.Sprintf(" -> code=%d state=%d", code, id), Entry: "ccel", Input: input, Impl: impl, GT: gt,
		NonTrivial: gatesOK || strings.HasPrefix(cs.class, "gate")})
}

func C18(c *core.Ctx) {
	c.Rule = "the sample CCEL (testing/testdata/ccel), prefixes of it cut at event boundaries and extensions of it with events spliced in for RTMR[3] and the other registers, with quotes carrying the sample's header and TD body (nonce-bound REPORT_DATA) and the RTMR values that the chosen log replays to, signed under a freshly generated PKI: {valid | each signature / chain / trust / expiry / collateral fault} x {default policy satisfied | each policy field mismatching | nil policy} x {RTMRs matching | single-bit changes in each RTMR, measured or not (quote re-signed so that it stays valid)}; malformed tables and logs; verification at the three option levels. Ground truth is independent: verify.TdxQuote and validate.TdxQuote are called separately, and the log is replayed by hand from go-eventlog's parsed events. The model receives the parsed events and go-eventlog's extraction result as oracles and performs gates, bank construction and replay comparison itself. non-trivial = both gates pass (the replay decides) or a gate-fault case; distinct = distinct (quote, log, options)"
	read := func(n string) []byte {
		b, err := readRepoFile("testing/testdata/ccel/" + n)
		if err != nil {
			panic(err)
		}
		return b
	}
	logB, table, quoteB, nonce := read("ccel_data.dat"), read("ccel_table.dat"), read("cos-113-tdx-quote.dat"), read("nonce.dat")
	sa, err := abi.QuoteToProto(quoteB)
	if err != nil {
		panic(err)
	}
	e := &c18Env{c: c, table: table, nonce: nonce, sample: sa.(*pb.QuoteV4), stateIDs: map[string]uint64{}}
	base := fieldsFrom(c, e.sample)
	full := viewLog(logB)

	withRtmrs := func(lv *logView, f world.QuoteFields) world.QuoteFields {
		for i := 0; i < 4; i++ {
			if lv.replayed[i] != nil {
				copy(f.Rtmrs[i][:], lv.replayed[i])
			}
		}
		return f
	}
	flipRtmr := func(f world.QuoteFields, i, bit int) world.QuoteFields {
		f.Rtmrs[i][bit/8] ^= 1 << (bit % 8)
		return f
	}
	measured := func(lv *logView) string {
		s := ""
		for i := 0; i < 4; i++ {
			if lv.replayed[i] != nil {
				s += fmt.Sprint(i)
			}
		}
		return s
	}
	r := c.Rng

	// ---- the sample, re-signed ----
	e.run(c18Case{class: "honest", desc: "sample quote body re-signed, sample log (measures RTMR " + measured(full) + ")", f: base, log: logB, assertState: true, expectState: true})
	for _, lvl := range []struct{ col, crl bool }{{true, false}, {true, true}} {
		e.run(c18Case{class: "honest", desc: fmt.Sprintf("sample re-signed, collateral=%v crl=%v", lvl.col, lvl.crl), f: base, log: logB, collateral: lvl.col, crl: lvl.crl, assertState: true, expectState: true})
	}

	// ---- RTMR bit changes in a validly signed quote ----
	nbits := c.Scale(24, 384)
	for i := 0; i < 4; i++ {
		for k := 0; k < nbits; k++ {
			bit := k
			if nbits < 384 {
				bit = r.Intn(384)
				if k == 0 {
					bit = 0
				} else if k == 1 {
					bit = 383
				}
			}
			m := full.replayed[i] != nil
			e.run(c18Case{class: fmt.Sprintf("rtmr-bit/measured=%v", m), desc: fmt.Sprintf("RTMR[%d] bit %d changed, quote re-signed", i, bit), f: flipRtmr(base, i, bit), log: logB,
				assertState: true, expectState: !m})
		}
	}
	// two registers swapped, one register zeroed, all registers of another boot
	{
		f := base
		f.Rtmrs[0], f.Rtmrs[1] = f.Rtmrs[1], f.Rtmrs[0]
		e.run(c18Case{class: "rtmr-other", desc: "RTMR[0] and RTMR[1] swapped, re-signed", f: f, log: logB})
		for i := 0; i < 4; i++ {
			g := base
			g.Rtmrs[i] = [48]byte{}
			e.run(c18Case{class: "rtmr-other", desc: fmt.Sprintf("RTMR[%d] zeroed, re-signed", i), f: g, log: logB})
		}
	}

	// ---- prefixes of the log with matching and mismatching quotes ----
	bounds := eventBoundaries(logB)
	nPre := c.Scale(6, 40)
	for k := 0; k < nPre && len(bounds) > 2; k++ {
		cut := bounds[1+r.Intn(len(bounds)-1)]
		if k == 0 {
			cut = bounds[len(bounds)-1]
		}
		pre := append(append([]byte{}, logB[:cut]...), bytes.Repeat([]byte{0xff}, 64)...)
		lv := viewLog(pre)
		f := withRtmrs(lv, base)
		e.run(c18Case{class: "prefix/matching", desc: fmt.Sprintf("log cut after %d bytes (measures RTMR %s), quote signed over its replay", cut, measured(lv)), f: f, log: pre})
		e.run(c18Case{class: "prefix/other-log", desc: fmt.Sprintf("log cut after %d bytes, quote carries the full log's registers", cut), f: base, log: pre})
		for i := 0; i < 4; i++ {
			if lv.replayed[i] != nil {
				e.run(c18Case{class: "prefix/bit", desc: fmt.Sprintf("log cut after %d bytes, RTMR[%d] one bit off", cut, i), f: flipRtmr(f, i, r.Intn(384)), log: pre, assertState: true, expectState: false})
			}
		}
	}

	// ---- events for every register: the sample log measures RTMR 0..2 only, so events for
	// RTMR[3] (CC measurement register index 4) and further ones for the others are spliced in
	// after the last event (before the padding) ----
	if len(bounds) > 0 {
		mkEvent := func(ccIdx uint32, data []byte) []byte {
			d := sha512.Sum384(data)
			var e []byte
			e = binary.LittleEndian.AppendUint32(e, ccIdx)
			e = binary.LittleEndian.AppendUint32(e, 0x0000000d) // EV_IPL
			e = binary.LittleEndian.AppendUint32(e, 1)
			e = binary.LittleEndian.AppendUint16(e, 0x000c) // SHA-384
			e = append(e, d[:]...)
			e = binary.LittleEndian.AppendUint32(e, uint32(len(data)))
			return append(e, data...)
		}
		last := bounds[len(bounds)-1]
		for _, regs := range [][]int{{3}, {3, 3}, {0, 3}, {3, 2, 1, 0}} {
			ext := append([]byte{}, logB[:last]...)
			for k, i := range regs {
				ext = append(ext, mkEvent(uint32(i+1), []byte(fmt.Sprintf("verif event %d for rtmr %d", k, i)))...)
			}
			ext = append(ext, logB[last:]...)
			lv := viewLog(ext)
			if !lv.parsed || lv.replayed[3] == nil {
				e.run(c18Case{class: "extended", desc: fmt.Sprintf("log with spliced events %v does not parse as intended", regs), f: base, log: ext})
				continue
			}
			f := withRtmrs(lv, base)
			e.run(c18Case{class: "extended/matching", desc: fmt.Sprintf("events spliced in for RTMR %v (log measures RTMR %s), quote signed over the replay", regs, measured(lv)), f: f, log: ext})
			e.run(c18Case{class: "extended/sample-quote", desc: fmt.Sprintf("events spliced in for RTMR %v, quote carries the sample's registers", regs), f: base, log: ext, assertState: true, expectState: false})
			for i := 0; i < 4; i++ {
				if lv.replayed[i] != nil {
					e.run(c18Case{class: "extended/bit", desc: fmt.Sprintf("events spliced in for RTMR %v, RTMR[%d] one bit off", regs, i), f: flipRtmr(f, i, r.Intn(384)), log: ext, assertState: true, expectState: false})
				}
			}
		}
	}

	// ---- verification gate ----
	gateV := []struct {
		name string
		msg  func(q *pb.QuoteV4)
		sc   func(sc *Scenario)
		col  bool
	}{
		{"quote signature bit flipped", func(q *pb.QuoteV4) { q.SignedData.Signature[5] ^= 1 }, nil, false},
		{"TD body changed after signing (MRTD bit)", func(q *pb.QuoteV4) { q.TdQuoteBody.MrTd[0] ^= 1 }, nil, false},
		{"RTMR changed after signing (to the value the log replays to is irrelevant)", func(q *pb.QuoteV4) { q.TdQuoteBody.Rtmrs[2][7] ^= 0x10 }, nil, false},
		{"QE report signature bit flipped", func(q *pb.QuoteV4) {
			q.SignedData.CertificationData.QeReportCertificationData.QeReportSignature[9] ^= 2
		}, nil, false},
		{"QE report data no longer binds the attestation key", func(q *pb.QuoteV4) { q.SignedData.CertificationData.QeReportCertificationData.QeAuthData.Data[0] ^= 1 }, nil, false},
		{"attestation key replaced", func(q *pb.QuoteV4) { q.SignedData.EcdsaAttestationKey[3] ^= 1 }, nil, false},
		{"certificate chain is not PEM", func(q *pb.QuoteV4) {
			d := q.SignedData.CertificationData.QeReportCertificationData.PckCertificateChainData
			d.PckCertChain = bytes.Repeat([]byte("x"), len(d.PckCertChain))
		}, nil, false},
		{"foreign trusted root", nil, func(sc *Scenario) {
			p, _ := world.NewPKI(r, world.PKIOpts{Now: baseTime, Ext: world.RandomSGXExt(r)})
			sc.Roots = []*x509.Certificate{p.Root.Cert}
		}, false},
		{"certificates expired at the verification time", nil, func(sc *Scenario) {
			t := baseTime.AddDate(30, 0, 0)
			sc.Now = &verify.TimeSet{PckCertChain: t, TcbInfo: t, QeIdentity: t, PckCrl: t, RootCaCrl: t}
		}, false},
		{"nil verification options", nil, func(sc *Scenario) { sc.NilOpts = true }, false},
		{"revocation without collateral", nil, func(sc *Scenario) { sc.CheckRevocations, sc.GetCollateral = true, false }, false},
		{"TCB info endpoint down", nil, func(sc *Scenario) {
			for u := range sc.Resp {
				if strings.Contains(u, "/tcb?") {
					sc.Resp[u] = world.Resp{Err: errors.New("down")}
				}
			}
		}, true},
		{"QE identity signature broken", nil, func(sc *Scenario) {
			for u, x := range sc.Resp {
				if strings.Contains(u, "qe/identity") {
					x.Body = []byte(strings.Replace(string(x.Body), `"signature":"`, `"signature":"00`, 1))
					sc.Resp[u] = x
				}
			}
		}, true},
	}
	for _, g := range gateV {
		e.run(c18Case{class: "gate/verification", desc: g.name, f: base, log: logB, mutMsg: g.msg, mutSc: g.sc, collateral: g.col, assertState: true, expectState: false})
	}
	// revocation on: each endpoint down / answering garbage, alone and together with a broken quote signature
	for _, frag := range []string{"/tcb?", "qe/identity", "pckcrl", "IntelSGXRootCA.der"} {
		for _, kind := range []string{"down", "garbage"} {
			for _, alsoSig := range []bool{false, true} {
				frag, kind := frag, kind
				cs := c18Case{class: "gate/verification", desc: fmt.Sprintf("revocation on, endpoint %q %s, signature broken=%v", frag, kind, alsoSig), f: base, log: logB,
					collateral: true, crl: true, assertState: true, expectState: false,
					mutSc: func(sc *Scenario) {
						hit := false
						for u, x := range sc.Resp {
							if strings.Contains(u, frag) {
								hit = true
								if kind == "down" {
									sc.Resp[u] = world.Resp{Err: errors.New("down")}
								} else {
									x.Body = []byte("zz")
									sc.Resp[u] = x
								}
							}
						}
						if !hit {
							panic("no URL matches " + frag)
						}
					}}
				if alsoSig {
					cs.mutMsg = gateV[0].msg
				}
				e.run(cs)
			}
		}
	}

	// ---- the genuine Intel-signed sample quote and log under pools that do not hold the Intel root ----
	{
		ref := time.Date(2025, time.January, 1, 0, 0, 0, 0, time.UTC)
		other, _ := world.NewPKI(r, world.PKIOpts{Now: baseTime, Ext: world.RandomSGXExt(r)})
		for _, v := range []struct {
			name string
			pool *x509.CertPool
			want bool
		}{{"nil pool (embedded Intel root)", nil, true}, {"pool with a generated root only", other.RootPool(), false}, {"empty pool", x509.NewCertPool(), false}} {
			def := rtmr.TdxDefaultOpts(nonce)
			vo := &verify.Options{TrustedRoots: v.pool, Now: &verify.TimeSet{PckCertChain: ref, TcbInfo: ref, QeIdentity: ref, PckCrl: ref, RootCaCrl: ref}}
			opts := &rtmr.ParseTdxCcelOpts{Validation: def.Validation, Verification: vo, ExtractOpt: extract.Opts{Loader: extract.GRUB}}
			var st *state.FirmwareLogState
			var err error
			pan := safely(func() { st, err = rtmr.ParseCcelWithTdQuote(logB, table, e.sample, opts) })
			gt := ""
			switch {
			case pan != nil:
				gt = fmt.Sprintf("ParseCcelWithTdQuote panicked: %v", pan)
			case !v.want && st != nil:
				gt = "a state was returned for the Intel-signed sample quote although the trusted pool does not hold the Intel root"
			case v.want && (st == nil || err != nil):
				gt = fmt.Sprintf("the genuine sample quote and log are refused under the embedded root: %v", err)
			}
			c.Add(&core.Case{Class: "sample-quote", Desc: "Intel sample quote and CCEL, " + v.name, SkipModel: true, Impl: core.Ls(), GT: gt, NonTrivial: true})
		}
	}

	// ---- policy gate ----
	b := e.sample.TdQuoteBody
	wrong := func(v []byte) []byte { x := append([]byte{}, v...); x[len(x)-1] ^= 1; return x }
	gateP := []struct {
		name string
		pol  func(o *validate.Options)
	}{
		{"REPORT_DATA expects another nonce", func(o *validate.Options) { o.TdQuoteBodyOptions.ReportData = wrong(o.TdQuoteBodyOptions.ReportData) }},
		{"MR_TD mismatch", func(o *validate.Options) { o.TdQuoteBodyOptions.MrTd = wrong(b.MrTd) }},
		{"MR_SEAM mismatch", func(o *validate.Options) { o.TdQuoteBodyOptions.MrSeam = wrong(b.MrSeam) }},
		{"TD_ATTRIBUTES mismatch", func(o *validate.Options) { o.TdQuoteBodyOptions.TdAttributes = wrong(b.TdAttributes) }},
		{"XFAM mismatch", func(o *validate.Options) { o.TdQuoteBodyOptions.Xfam = wrong(b.Xfam) }},
		{"MR_CONFIG_ID mismatch", func(o *validate.Options) { o.TdQuoteBodyOptions.MrConfigID = wrong(b.MrConfigId) }},
		{"MR_OWNER mismatch", func(o *validate.Options) { o.TdQuoteBodyOptions.MrOwner = wrong(b.MrOwner) }},
		{"MR_OWNER_CONFIG mismatch", func(o *validate.Options) { o.TdQuoteBodyOptions.MrOwnerConfig = wrong(b.MrOwnerConfig) }},
		{"policy RTMRs mismatch", func(o *validate.Options) {
			o.TdQuoteBodyOptions.Rtmrs = [][]byte{b.Rtmrs[0], wrong(b.Rtmrs[1]), b.Rtmrs[2], b.Rtmrs[3]}
		}},
		{"policy RTMRs partially pinned: (unset, off, unset, unset)", func(o *validate.Options) {
			o.TdQuoteBodyOptions.Rtmrs = [][]byte{nil, wrong(b.Rtmrs[1]), nil, nil}
		}},
		{"policy RTMRs partially pinned: (match, empty, off, unset)", func(o *validate.Options) {
			o.TdQuoteBodyOptions.Rtmrs = [][]byte{b.Rtmrs[0], {}, wrong(b.Rtmrs[2]), nil}
		}},
		{"policy RTMRs partially pinned: (unset, unset, unset, off)", func(o *validate.Options) {
			o.TdQuoteBodyOptions.Rtmrs = [][]byte{nil, nil, nil, wrong(b.Rtmrs[3])}
		}},
		{"AnyMrTd without the quote's MR_TD", func(o *validate.Options) { o.TdQuoteBodyOptions.AnyMrTd = [][]byte{wrong(b.MrTd), make([]byte, 48)} }},
		{"minimum TEE_TCB_SVN above the quote's", func(o *validate.Options) { o.TdQuoteBodyOptions.MinimumTeeTcbSvn = bytes.Repeat([]byte{0xff}, 16) }},
		{"minimum QE SVN above the quote's", func(o *validate.Options) { o.HeaderOptions.MinimumQeSvn = 0xffff }},
		{"minimum PCE SVN above the quote's", func(o *validate.Options) { o.HeaderOptions.MinimumPceSvn = 0xffff }},
		{"QE vendor id mismatch", func(o *validate.Options) { o.HeaderOptions.QeVendorID = wrong(e.sample.Header.QeVendorId) }},
		{"malformed policy (MR_TD of 47 bytes)", func(o *validate.Options) { o.TdQuoteBodyOptions.MrTd = make([]byte, 47) }},
	}
	for _, g := range gateP {
		e.run(c18Case{class: "gate/policy", desc: g.name, f: base, log: logB, policy: g.pol, assertState: true, expectState: false})
	}
	e.run(c18Case{class: "gate/policy", desc: "nil validation options", f: base, log: logB, nilPolicy: true, assertState: true, expectState: false})
	// a satisfied, stricter policy still passes
	e.run(c18Case{class: "honest", desc: "every policy field set to the quote's value", f: base, log: logB, assertState: true, expectState: true, policy: func(o *validate.Options) {
		t := &o.TdQuoteBodyOptions
		t.MrTd, t.MrSeam, t.TdAttributes, t.Xfam, t.MrConfigID, t.MrOwner, t.MrOwnerConfig = b.MrTd, b.MrSeam, b.TdAttributes, b.Xfam, b.MrConfigId, b.MrOwner, b.MrOwnerConfig
		t.Rtmrs, t.AnyMrTd = b.Rtmrs, [][]byte{make([]byte, 48), b.MrTd}
		o.HeaderOptions.QeVendorID = e.sample.Header.QeVendorId
	}})
	// REPORT_DATA of the quote differs from the nonce (default policy must refuse)
	{
		f := base
		f.ReportData[0] ^= 1
		e.run(c18Case{class: "gate/policy", desc: "quote's REPORT_DATA is not the caller's nonce (default options)", f: f, log: logB, assertState: true, expectState: false})
	}
	// both gates fail / one gate fails and the RTMRs mismatch
	e.run(c18Case{class: "gate/both", desc: "signature broken and policy mismatching", f: base, log: logB, mutMsg: gateV[0].msg, policy: gateP[1].pol, assertState: true, expectState: false})
	e.run(c18Case{class: "gate/both", desc: "policy mismatching and RTMR off", f: flipRtmr(base, 1, 5), log: logB, policy: gateP[0].pol, assertState: true, expectState: false})

	// ---- malformed table / log ----
	e.run(c18Case{class: "malformed", desc: "empty log", f: base, log: nil})
	e.run(c18Case{class: "malformed", desc: "log of 40 random bytes", f: base, log: core.RandBytes(r, 40)})
	e.run(c18Case{class: "malformed", desc: "log truncated inside an event", f: base, log: logB[:bounds[len(bounds)/2]-3]})
	e.run(c18Case{class: "malformed", desc: "empty table", f: base, log: logB, table: []byte{}})
	e.run(c18Case{class: "malformed", desc: "table of random bytes", f: base, log: logB, table: core.RandBytes(r, 56)})
	{
		t := append([]byte{}, table...)
		if len(t) > 36 {
			t[36] ^= 3 // CC type
		}
		e.run(c18Case{class: "malformed", desc: "table with another CC type", f: base, log: logB, table: t})
	}
}
