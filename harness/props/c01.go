package props

import (
	"bytes"
	"crypto/sha256"
	"encoding/asn1"
	"errors"
	"fmt"
	"math/big"
	"math/rand"

	"github.com/google/go-tdx-guest/abi"
	pb "github.com/google/go-tdx-guest/proto/tdx"
	"google.golang.org/protobuf/proto"

	"verifharness/core"
	"verifharness/world"
)

// linksHold recomputes the three links of the signature chain on the bytes
// actually handed to the verifier (ground truth, harness-side crypto).
func linksHold(raw []byte, pckKey []byte) (bool, string) {
	f, ok := layout(raw)
	if !ok {
		return false, "not a v4 layout"
	}
	if !verifyRawSig(f.key, raw[:632], f.sig) {
		return false, "header||body not signed by the attestation key"
	}
	d := sha256.Sum256(append(append([]byte{}, f.key...), f.auth...))
	want := append(d[:], make([]byte, 32)...)
	if !bytes.Equal(f.qeReport[320:384], want) {
		return false, "QE report data != SHA-256(attestation key || auth data) || 0^32"
	}
	if !verifyRawSig(pckKey, f.qeReport, f.qeSig) {
		return false, "QE report not signed by the PCK leaf key"
	}
	return true, ""
}

func levelOf(i int) (bool, bool, string) {
	switch i % 3 {
	case 0:
		return false, false, "no-collateral"
	case 1:
		return true, false, "collateral"
	default:
		return true, true, "collateral+crl"
	}
}

func C01(c *core.Ctx) {
	c.Rule = "valid quotes under fresh PKIs (auth data 0/32/700 bytes): single-bit mutants of the signed regions (header, TD body, attestation key, QE report, QE auth data, both signatures; all bits in the thorough tier, a stratified sample in the quick tier), structured forgeries (quote or QE report re-signed with a foreign key, swapped / zeroed / off-curve attestation key, zero and out-of-range signatures, broken hash binding with everything else re-signed, non-zero report-data tail, altered auth data, resized regions), random multi-byte mutation; each at one of the three option levels; a QE report and its signature transplanted under another platform's chain after the donor quote was verified in the same process; abi.SignatureToDER on edge-value and random 64-byte signatures (leading zeros, high bits, zero, all-ones) and on other lengths, compared with the model encoder and read back strictly. Ground truth: an accepted input must satisfy the three links recomputed by the harness. non-trivial = the input still parses (reaches signature verification); distinct = distinct raw quotes"
	r := c.Rng
	mk := func(authLen int) *world.World {
		pki, err := world.NewPKI(r, world.PKIOpts{Now: baseTime, Ext: world.RandomSGXExt(r)})
		if err != nil {
			panic(err)
		}
		f := world.DefaultQuoteFields(r)
		f.AuthData = core.RandBytes(r, authLen)
		w, err := world.BuildWorld(r, baseTime, pki, f)
		if err != nil {
			panic(err)
		}
		return w
	}
	caseNo := 0
	try := func(w *world.World, class, desc string, raw []byte) {
		col, crl, lname := levelOf(caseNo)
		caseNo++
		sc := scenarioFromWorld(w, col, crl)
		sc.Raw = raw
		pck := world.RawPub(&w.PKI.Leaf.Key.PublicKey)
		_, parses := layout(raw)
		runScenario(c, class, desc+" @"+lname, sc, func(cl uint64, err error) string {
			if cl == 0 {
				if ok, why := linksHold(raw, pck); !ok {
					return "accepted although " + why
				}
			}
			if cl != 0 && bytes.Equal(raw, w.Quote.Raw) {
				return "the unmodified genuine quote was rejected: " + err.Error()
			}
			return ""
		}, parses)
	}
	worlds := []*world.World{mk(32), mk(0), mk(700)}
	for _, w := range worlds {
		try(w, "genuine", "unmodified", w.Quote.Raw)
	}
	// ---- single-bit mutants of the signed regions ----
	regions := []string{"header", "body", "sig", "attkey", "qereport", "qesig", "auth"}
	for wi, w := range worlds {
		if !c.Thorough() && wi > 0 {
			break
		}
		for _, reg := range regions {
			o := w.Quote.Off[reg]
			nbits := (o[1] - o[0]) * 8
			step := 1
			if !c.Thorough() {
				step = nbits/150 + 1
			}
			for b := r.Intn(step); b < nbits; b += step {
				raw := append([]byte{}, w.Quote.Raw...)
				raw[o[0]+b/8] ^= 1 << uint(b%8)
				try(w, "bitflip-"+reg, fmt.Sprintf("bit %d of %s", b, reg), raw)
			}
		}
	}
	// ---- structured forgeries ----
	for rep := 0; rep < c.Scale(3, 30); rep++ {
		w := worlds[rep%len(worlds)]
		f := w.Fields
		f.ChainPEM = w.PKI.ChainPEM()
		hdr, body := world.SerializeHeader(f), world.SerializeBody(f)
		msg := append(append([]byte{}, hdr...), body...)
		att := w.Quote.AttKey
		attPub := world.RawPub(&att.PublicKey)
		foreign := world.NewKey(r)
		foreignPub := world.RawPub(&foreign.PublicKey)
		chain := w.PKI.ChainPEM()
		good := func() (sig, key, rep, repSig []byte) {
			rd := world.QeReportData(attPub, f.AuthData)
			rp := world.SerializeQeReport(f, rd)
			return world.SignRaw(r, att, msg), attPub, rp, world.SignRaw(r, w.PKI.Leaf.Key, rp)
		}
		asm := func(sig, key, rp, rs, auth []byte) []byte {
			return world.Assemble(hdr, body, sig, key, rp, rs, auth, chain, nil)
		}
		sig, key, rp, rs := good()
		try(w, "forgery", "re-assembled genuine (control)", asm(sig, key, rp, rs, f.AuthData))
		// quote signed by a foreign key whose public half is NOT in the quote
		try(w, "forgery", "header||body signed by a foreign key, genuine key in quote", asm(world.SignRaw(r, foreign, msg), key, rp, rs, f.AuthData))
		// foreign key in the quote, quote re-signed with it, QE report still binds the genuine key
		try(w, "forgery", "foreign attestation key + matching quote signature, stale hash binding", asm(world.SignRaw(r, foreign, msg), foreignPub, rp, rs, f.AuthData))
		// foreign key, binding recomputed, QE report re-signed by a foreign (non-PCK) key
		{
			rd := world.QeReportData(foreignPub, f.AuthData)
			rp2 := world.SerializeQeReport(f, rd)
			try(w, "forgery", "self-consistent foreign key, QE report signed by a non-PCK key", asm(world.SignRaw(r, foreign, msg), foreignPub, rp2, world.SignRaw(r, foreign, rp2), f.AuthData))
			// ... and re-signed by the PCK key: this is a fully valid quote under another attestation key
			try(w, "forgery", "fresh attestation key, everything re-signed (valid)", asm(world.SignRaw(r, foreign, msg), foreignPub, rp2, world.SignRaw(r, w.PKI.Leaf.Key, rp2), f.AuthData))
		}
		// QE report signed by the intermediate CA key instead of the leaf
		try(w, "forgery", "QE report signed by the intermediate CA key", asm(sig, key, rp, world.SignRaw(r, w.PKI.Inter.Key, rp), f.AuthData))
		// zero / off-curve keys and degenerate signatures
		zero64 := make([]byte, 64)
		try(w, "degenerate", "all-zero attestation key", asm(sig, zero64, rp, rs, f.AuthData))
		off := append([]byte{}, key...)
		off[63] ^= 1
		try(w, "degenerate", "off-curve attestation key", asm(sig, off, rp, rs, f.AuthData))
		try(w, "degenerate", "all-zero quote signature", asm(zero64, key, rp, rs, f.AuthData))
		try(w, "degenerate", "all-zero QE report signature", asm(sig, key, rp, zero64, f.AuthData))
		ff := bytes.Repeat([]byte{0xff}, 64)
		try(w, "degenerate", "r,s = 2^256-1 quote signature", asm(ff, key, rp, rs, f.AuthData))
		swapped := append(append([]byte{}, sig[32:]...), sig[:32]...)
		try(w, "degenerate", "r and s swapped", asm(swapped, key, rp, rs, f.AuthData))
		// broken binding with the QE report honestly re-signed by the PCK key
		{
			rd := world.QeReportData(attPub, f.AuthData)
			rd[5] ^= 1
			rp2 := world.SerializeQeReport(f, rd)
			try(w, "hash-binding", "QE report data differs in one bit, report re-signed by PCK key", asm(sig, key, rp2, world.SignRaw(r, w.PKI.Leaf.Key, rp2), f.AuthData))
			rd = world.QeReportData(attPub, f.AuthData)
			rd[40] = 1
			rp3 := world.SerializeQeReport(f, rd)
			try(w, "hash-binding", "non-zero byte in the 32-byte tail of QE report data, re-signed", asm(sig, key, rp3, world.SignRaw(r, w.PKI.Leaf.Key, rp3), f.AuthData))
			auth2 := append(append([]byte{}, f.AuthData...), 0x01)
			try(w, "hash-binding", "auth data extended by one byte", asm(sig, key, rp, rs, auth2))
			if len(f.AuthData) > 0 {
				try(w, "hash-binding", "auth data shortened by one byte", asm(sig, key, rp, rs, f.AuthData[:len(f.AuthData)-1]))
			}
			try(w, "hash-binding", "binding over key only (auth data ignored)", func() []byte {
				d := sha256.Sum256(attPub)
				var rdk [64]byte
				copy(rdk[:], d[:])
				rp4 := world.SerializeQeReport(f, rdk)
				return asm(sig, key, rp4, world.SignRaw(r, w.PKI.Leaf.Key, rp4), f.AuthData)
			}())
		}
		// signed message = body||header, or only the body
		try(w, "forgery", "signature over body||header", asm(world.SignRaw(r, att, append(append([]byte{}, body...), hdr...)), key, rp, rs, f.AuthData))
		try(w, "forgery", "signature over the body only", asm(world.SignRaw(r, att, body), key, rp, rs, f.AuthData))
	}
	// ---- message-level inputs: the genuine quote as a *pb.QuoteV4 with a field changed in a way
	// that the re-serialisation could hide (high bits of 16-bit fields, over-long byte fields) ----
	for wi, w := range worlds {
		base, err := abi.QuoteToProto(w.Quote.Raw)
		if err != nil {
			panic(err)
		}
		type mm struct {
			name string
			f    func(q *pb.QuoteV4)
		}
		qe := func(q *pb.QuoteV4) *pb.QEReportCertificationData {
			return q.SignedData.CertificationData.QeReportCertificationData
		}
		muts := []mm{
			{"unchanged message (control)", func(q *pb.QuoteV4) {}},
			{"QeReport.IsvSvn + 0x10000", func(q *pb.QuoteV4) { qe(q).QeReport.IsvSvn += 0x10000 }},
			{"QeReport.IsvSvn + 0x80000000", func(q *pb.QuoteV4) { qe(q).QeReport.IsvSvn += 0x80000000 }},
			{"QeReport.IsvProdId + 0x10000", func(q *pb.QuoteV4) { qe(q).QeReport.IsvProdId += 0x10000 }},
			{"Header.Version + 0x10000", func(q *pb.QuoteV4) { q.Header.Version += 0x10000 }},
			{"Header.AttestationKeyType + 0x10000", func(q *pb.QuoteV4) { q.Header.AttestationKeyType += 0x10000 }},
			{"QeAuthData.ParsedDataSize + 0x10000", func(q *pb.QuoteV4) { qe(q).QeAuthData.ParsedDataSize += 0x10000 }},
			{"CertificationData.CertificateDataType + 0x10000", func(q *pb.QuoteV4) { q.SignedData.CertificationData.CertificateDataType += 0x10000 }},
			{"ReportData with an extra trailing byte", func(q *pb.QuoteV4) { q.TdQuoteBody.ReportData = append(q.TdQuoteBody.ReportData, 0) }},
			{"ReportData one byte short", func(q *pb.QuoteV4) { q.TdQuoteBody.ReportData = q.TdQuoteBody.ReportData[:63] }},
			{"MrTd with an extra trailing byte", func(q *pb.QuoteV4) { q.TdQuoteBody.MrTd = append(q.TdQuoteBody.MrTd, 0) }},
			{"UserData with an extra trailing byte", func(q *pb.QuoteV4) { q.Header.UserData = append(q.Header.UserData, 0) }},
			{"QE report data with an extra trailing byte", func(q *pb.QuoteV4) { qe(q).QeReport.ReportData = append(qe(q).QeReport.ReportData, 0) }},
			{"QE Reserved4 one byte short", func(q *pb.QuoteV4) { qe(q).QeReport.Reserved4 = qe(q).QeReport.Reserved4[:59] }},
			{"fifth RTMR appended", func(q *pb.QuoteV4) { q.TdQuoteBody.Rtmrs = append(q.TdQuoteBody.Rtmrs, make([]byte, 48)) }},
			{"attestation key with an extra trailing byte", func(q *pb.QuoteV4) { q.SignedData.EcdsaAttestationKey = append(q.SignedData.EcdsaAttestationKey, 0) }},
			{"TeeType 0x181", func(q *pb.QuoteV4) { q.Header.TeeType = 0x181 }},
			{"first 1 bytes of the QE auth data moved to the end of the attestation key (key || auth data unchanged)", func(q *pb.QuoteV4) { moveAuthToKey(q, 1) }},
			{"first 7 bytes of the QE auth data moved to the end of the attestation key (key || auth data unchanged)", func(q *pb.QuoteV4) { moveAuthToKey(q, 7) }},
			{"first 32 bytes of the QE auth data moved to the end of the attestation key (key || auth data unchanged)", func(q *pb.QuoteV4) { moveAuthToKey(q, 32) }},
			{"MiscSelect bit flipped", func(q *pb.QuoteV4) { qe(q).QeReport.MiscSelect ^= 1 << 20 }},
		}
		for mi, m := range muts {
			q := proto.Clone(base.(*pb.QuoteV4)).(*pb.QuoteV4)
			m.f(q)
			col, crl, lname := levelOf(wi + mi)
			sc := scenarioFromWorld(w, col, crl)
			sc.UseMsg, sc.Msg = true, q
			same := proto.Equal(q, base.(*pb.QuoteV4))
			runScenario(c, "message-field", m.name+" @"+lname, sc, func(cl uint64, err error) string {
				if cl == 0 && !same {
					return "a message that differs from the signed quote (" + m.name + ") was accepted"
				}
				if cl != 0 && same {
					return "the genuine quote as a message was rejected: " + err.Error()
				}
				return ""
			}, true)
		}
	}
	// ---- random multi-byte mutation ----
	for i := 0; i < c.Scale(150, 5000); i++ {
		w := worlds[i%len(worlds)]
		raw := append([]byte{}, w.Quote.Raw...)
		signedEnd := w.Quote.Off["pcktype"][0]
		n := 1 + r.Intn(6)
		for k := 0; k < n; k++ {
			raw[r.Intn(signedEnd)] = byte(r.Intn(256))
		}
		try(w, "random-mutation", fmt.Sprintf("%d random bytes", n), raw)
	}
	// ---- a QE report and its signature transplanted under another platform's certificate chain,
	// after the donor quote has been verified in the same process (a memo of verified signatures
	// must be bound to the key that verified them) ----
	for i := 0; i < c.Scale(2, 10); i++ {
		donor, host := mk(32), mk(32)
		c.Lookahead = 3
		scD := scenarioFromWorld(donor, false, false)
		runScenario(c, "transplant", "the donor quote, honest, under its own root", scD, func(cl uint64, err error) string {
			if cl != 0 {
				return "the unmodified genuine quote was rejected: " + err.Error()
			}
			return ""
		}, true)
		var qa any
		var err error
		if p := safely(func() { qa, err = abi.QuoteToProto(donor.Quote.Raw) }); p != nil || err != nil {
			c.Lookahead = 0
			continue // the parser's behaviour on valid quotes is C09's and C10's business
		}
		m := proto.Clone(qa.(*pb.QuoteV4)).(*pb.QuoteV4)
		cd := m.SignedData.CertificationData
		pck := cd.QeReportCertificationData.PckCertificateChainData
		chain := host.PKI.ChainPEM()
		delta := uint32(len(chain)) - uint32(len(pck.PckCertChain))
		pck.PckCertChain, pck.Size = chain, uint32(len(chain))
		cd.Size += delta
		m.SignedDataSize += delta
		var raw []byte
		serr := errors.New("not serialised")
		_ = safely(func() { raw, serr = abi.QuoteToAbiBytes(m) })
		for k, useMsg := range []bool{true, false} {
			c.Lookahead = 2 - k
			sc := scenarioFromWorld(host, false, false)
			if useMsg {
				sc.UseMsg, sc.Msg = true, m
			} else if serr == nil {
				sc.Raw = raw
			} else {
				continue
			}
			runScenario(c, "transplant", fmt.Sprintf("the donor's header, body, key, QE report and signatures under the host platform's chain and root (message=%v)", useMsg), sc, func(cl uint64, err error) string {
				if cl == 0 {
					return "accepted although the QE report is not signed by the leaf certificate of the embedded chain (its signature was only ever valid under another platform's key)"
				}
				return ""
			}, true)
		}
		c.Lookahead = 0
		runScenario(c, "transplant", "the host's own honest quote", scenarioFromWorld(host, false, false), func(cl uint64, err error) string {
			if cl != 0 {
				return "the unmodified genuine quote was rejected: " + err.Error()
			}
			return ""
		}, true)
	}
	_ = rand.Int
	c01Der(c)
}

// moveAuthToKey moves the first k bytes of the QE authentication data to the end of the
// attestation key field and keeps the size fields consistent: the concatenation that the
// hash binding covers is unchanged, the quote is not the one that was signed.
func moveAuthToKey(q *pb.QuoteV4, k int) {
	cd := q.SignedData.CertificationData
	ad := cd.QeReportCertificationData.QeAuthData
	if len(ad.Data) < k {
		return
	}
	q.SignedData.EcdsaAttestationKey = append(append([]byte{}, q.SignedData.EcdsaAttestationKey...), ad.Data[:k]...)
	ad.Data = append([]byte{}, ad.Data[k:]...)
	ad.ParsedDataSize -= uint32(k)
	cd.Size -= uint32(k)
	q.SignedDataSize -= uint32(k)
}

// c01Der: abi.SignatureToDER against the model's encoder, and an independent
// strict reading of the result (encoding/asn1 into two big integers).
func c01Der(c *core.Ctx) {
	r := c.Rng
	var sigs [][]byte
	edge := [][]byte{make([]byte, 32), bytes.Repeat([]byte{0xff}, 32), append([]byte{0x80}, make([]byte, 31)...), append([]byte{0x7f}, bytes.Repeat([]byte{0xff}, 31)...),
		append(make([]byte, 31), 1), append(make([]byte, 31), 0x80), append([]byte{0, 0x80}, make([]byte, 30)...), append([]byte{0, 0x7f}, make([]byte, 30)...),
		append(make([]byte, 16), bytes.Repeat([]byte{0xab}, 16)...), append([]byte{0, 0, 0, 0xff}, make([]byte, 28)...)}
	for _, a := range edge {
		for _, b := range edge {
			sigs = append(sigs, append(append([]byte{}, a...), b...))
		}
	}
	for i := 0; i < c.Scale(200, 5000); i++ {
		s := core.RandBytes(r, 64)
		for k := r.Intn(4); k > 0; k-- { // leading zero bytes in r and / or s
			s[r.Intn(2)*32+k-1] = 0
		}
		sigs = append(sigs, s)
	}
	for _, n := range []int{0, 1, 32, 63, 65, 128} {
		sigs = append(sigs, core.RandBytes(r, n))
	}
	for _, sg := range sigs {
		var der []byte
		var err error
		pan := safely(func() { der, err = abi.SignatureToDER(sg) })
		impl := resOk(core.Bs(der))
		gt := ""
		switch {
		case pan != nil:
			impl, gt = resPanic(), fmt.Sprintf("SignatureToDER panicked: %v", pan)
		case err != nil:
			impl = resErr(1)
			if len(sg) == 64 {
				gt = "a 64-byte signature was refused: " + err.Error()
			}
		case len(sg) != 64:
			gt = fmt.Sprintf("a %d-byte signature was converted", len(sg))
		default:
			var v struct{ R, S *big.Int }
			rest, e := asn1.Unmarshal(der, &v)
			if e != nil || len(rest) != 0 {
				gt = fmt.Sprintf("the DER form does not read back as SEQUENCE { INTEGER, INTEGER }: %v", e)
			} else if v.R.Cmp(new(big.Int).SetBytes(sg[:32])) != 0 || v.S.Cmp(new(big.Int).SetBytes(sg[32:])) != 0 {
				gt = "the DER form carries other numbers than r and s of the raw signature"
			}
		}
		c.Add(&core.Case{Class: "signature-to-der", Desc: fmt.Sprintf("%d-byte signature %x..", len(sg), sg[:min2(len(sg), 4)]), Entry: "abi",
			Input: core.Ls(core.A(6), core.Bs(sg)), Impl: impl, GT: gt, NonTrivial: len(sg) == 64})
	}
}

func min2(a, b int) int {
	if a < b {
		return a
	}
	return b
}
