package props

import (
	"bytes"
	"encoding/binary"
	"fmt"
	"math/rand"

	"verifharness/core"
	"verifharness/world"
)

type qeLevel struct {
	isvsvn uint32
	status string
}

// qeSpecVerdict: the property text, written independently of verify.go.
func qeSpecVerdict(f world.QuoteFields, d world.QeIdentityDoc) bool {
	if len(d.MiscselectMask) != 4 || len(d.Miscselect) != 4 {
		return false
	}
	if f.QeMiscSelect&binary.LittleEndian.Uint32(d.MiscselectMask) != binary.LittleEndian.Uint32(d.Miscselect) {
		return false
	}
	if len(d.AttributesMask) != 16 {
		return false
	}
	masked := make([]byte, 16)
	for i := range masked {
		masked[i] = d.AttributesMask[i] & f.QeAttributes[i]
	}
	if !bytes.Equal(masked, d.Attributes) {
		return false
	}
	if !bytes.Equal(d.Mrsigner, f.QeMrSigner[:]) || d.IsvProdID != f.QeIsvProdID {
		return false
	}
	for _, l := range d.Levels {
		if l.Tcb.IsvSvn <= uint32(f.QeIsvSvn) {
			return l.Status == "UpToDate"
		}
	}
	return false
}

func C07(c *core.Ctx) {
	c.Rule = "QE reports (MISCSELECT, ATTRIBUTES, MRSIGNER, ISVPRODID, ISVSVN random, re-signed by the PCK key) against signed QE Identity documents: masks of random content with report bits set outside the mask, value/mask mismatches in single bits, mask/field lengths 3/4/5 and 15/16/17, value and mask shortened or lengthened together (agreeing with the report over their common length), MRSIGNER and ISVPRODID mismatches, ordered level lists of 0..4 levels with ISVSVN at report-1/report/report+1 and at values beyond 16 bits (report + k*65536, 65535, 65536, 2^31, 2^32-1) and each of the 7 statuses; through verify.RawTdxQuote with collateral. non-trivial = every case; distinct = distinct (report, identity)"
	r := c.Rng
	pki, err := world.NewPKI(r, world.PKIOpts{Now: baseTime, Ext: world.RandomSGXExt(r)})
	if err != nil {
		panic(err)
	}
	run := func(class, desc string, mutF func(f *world.QuoteFields), mutD func(w *world.World, d *world.QeIdentityDoc)) {
		if !c.Wanted() {
			c.Add(&core.Case{Class: class, SkipModel: true, Impl: core.Ls()})
			return
		}
		f := world.DefaultQuoteFields(r)
		f.QeIsvSvn = uint16(2 + r.Intn(60000))
		if mutF != nil {
			mutF(&f)
		}
		w, err := world.BuildWorld(r, baseTime, pki, f)
		if err != nil {
			panic(err)
		}
		if mutD != nil {
			mutD(w, &w.QeIdentity)
			w.Seal(r)
		}
		want := qeSpecVerdict(w.Fields, w.QeIdentity)
		sc := scenarioFromWorld(w, true, false)
		runScenario(c, class, desc, sc, func(cl uint64, err error) string {
			switch {
			case want && cl != 0:
				return "QE report matches the QE identity and its first applicable level is UpToDate, but verification failed: " + err.Error()
			case !want && cl == 0:
				return "accepted although the QE report does not match the QE identity (or the applicable QE TCB level is not UpToDate / absent)"
			}
			return ""
		}, true)
	}
	rb := func(n int) []byte { return core.RandBytes(r, n) }
	run("honest", "honest", nil, nil)
	// masks with arbitrary content; report bits outside the mask
	for i := 0; i < c.Scale(40, 600); i++ {
		run("random-masks", "random masks, value = report & mask", nil, func(w *world.World, d *world.QeIdentityDoc) {
			mm, am := rb(4), rb(16)
			d.MiscselectMask, d.AttributesMask = mm, am
			ms := make([]byte, 4)
			binary.LittleEndian.PutUint32(ms, w.Fields.QeMiscSelect&binary.LittleEndian.Uint32(mm))
			d.Miscselect = ms
			at := make([]byte, 16)
			for j := range at {
				at[j] = am[j] & w.Fields.QeAttributes[j]
			}
			d.Attributes = at
		})
	}
	// single-bit mismatches in value (inside and outside the mask)
	for bit := 0; bit < 32; bit++ {
		bit := bit
		run("miscselect-bit", fmt.Sprintf("identity miscselect bit %d flipped", bit), nil, func(w *world.World, d *world.QeIdentityDoc) {
			v := append([]byte{}, d.Miscselect...)
			v[bit/8] ^= 1 << uint(bit%8)
			d.Miscselect = v
		})
		run("miscselect-report-bit", fmt.Sprintf("report miscselect bit %d flipped after the identity was fixed", bit), nil, func(w *world.World, d *world.QeIdentityDoc) {
			// identity computed for the report with that bit flipped back
			orig := w.Fields.QeMiscSelect ^ (1 << uint(bit))
			ms := make([]byte, 4)
			binary.LittleEndian.PutUint32(ms, orig&binary.LittleEndian.Uint32(d.MiscselectMask))
			d.Miscselect = ms
		})
	}
	for bit := 0; bit < 128; bit += 1 + r.Intn(3) {
		bit := bit
		run("attributes-bit", fmt.Sprintf("identity attributes bit %d flipped", bit), nil, func(w *world.World, d *world.QeIdentityDoc) {
			v := append([]byte{}, d.Attributes...)
			v[bit/8] ^= 1 << uint(bit%8)
			d.Attributes = v
		})
	}
	// lengths
	for _, n := range []int{0, 3, 5, 8} {
		n := n
		run("length", fmt.Sprintf("miscselectMask of %d bytes", n), nil, func(w *world.World, d *world.QeIdentityDoc) { d.MiscselectMask = rb(n) })
		run("length", fmt.Sprintf("miscselect of %d bytes", n), nil, func(w *world.World, d *world.QeIdentityDoc) { d.Miscselect = rb(n) })
	}
	for _, n := range []int{0, 15, 17, 32} {
		n := n
		run("length", fmt.Sprintf("attributesMask of %d bytes", n), nil, func(w *world.World, d *world.QeIdentityDoc) { d.AttributesMask = rb(n) })
		run("length", fmt.Sprintf("attributes of %d bytes", n), nil, func(w *world.World, d *world.QeIdentityDoc) { d.Attributes = rb(n) })
	}
	// value and mask shortened (or lengthened) together: consistent with each other and, over
	// their common length, with the report -- but not of the length of the report's field
	for _, n := range []int{0, 1, 8, 15, 17, 24} {
		n := n
		run("length", fmt.Sprintf("attributes and attributesMask both of %d bytes, agreeing with the report's first bytes", n), nil, func(w *world.World, d *world.QeIdentityDoc) {
			m, a := make([]byte, n), make([]byte, n)
			for i := 0; i < n; i++ {
				m[i] = 0xff
				if i < 16 {
					a[i] = w.Fields.QeAttributes[i]
				}
			}
			d.AttributesMask, d.Attributes = m, a
		})
	}
	for _, n := range []int{0, 1, 2, 3, 5, 8} {
		n := n
		run("length", fmt.Sprintf("miscselect and miscselectMask both of %d bytes, agreeing with the report's first bytes", n), nil, func(w *world.World, d *world.QeIdentityDoc) {
			m, a := make([]byte, n), make([]byte, n)
			for i := 0; i < n; i++ {
				m[i] = 0xff
				if i < 4 {
					a[i] = byte(w.Fields.QeMiscSelect >> (8 * i))
				}
			}
			d.MiscselectMask, d.Miscselect = m, a
		})
	}
	run("mrsigner", "mrsigner differs in one bit", nil, func(w *world.World, d *world.QeIdentityDoc) {
		v := append([]byte{}, d.Mrsigner...)
		v[r.Intn(32)] ^= 4
		d.Mrsigner = v
	})
	run("mrsigner", "mrsigner one byte short", nil, func(w *world.World, d *world.QeIdentityDoc) { d.Mrsigner = d.Mrsigner[:31] })
	run("isvprodid", "isvprodid + 1", nil, func(w *world.World, d *world.QeIdentityDoc) { d.IsvProdID++ })
	run("isvprodid", "isvprodid 0 vs report 0", func(f *world.QuoteFields) { f.QeIsvProdID = 0 }, nil)
	// level lists
	for i := 0; i < c.Scale(150, 3000); i++ {
		run("levels", "random level list", nil, func(w *world.World, d *world.QeIdentityDoc) {
			n := r.Intn(5)
			d.Levels = nil
			desc := ""
			for j := 0; j < n; j++ {
				isv := uint32(w.Fields.QeIsvSvn) + uint32(r.Intn(3)) - 1
				switch r.Intn(8) {
				case 0: // values beyond 16 bits: the report's ISVSVN is a 16-bit field, the identity's is not
					isv = uint32(w.Fields.QeIsvSvn) + 65536*uint32(1+r.Intn(3)) - uint32(r.Intn(2))
				case 1:
					isv = []uint32{65535, 65536, 0xffffffff, 0x80000000, 0}[r.Intn(5)]
				}
				st := allStatuses[r.Intn(7)]
				if r.Intn(2) == 0 {
					st = "UpToDate"
				}
				d.Levels = append(d.Levels, world.TcbLevel{Tcb: world.Tcb{ModuleLevel: true, IsvSvn: isv}, Date: "2025-01-01T00:00:00Z", Status: st})
				desc += fmt.Sprintf("(%d,%s)", isv, st)
			}
		})
	}
	for _, st := range append(append([]string{}, allStatuses...), world.AbsentStatus) {
		st := st
		run("level-status", "single applicable level "+st, nil, func(w *world.World, d *world.QeIdentityDoc) {
			d.Levels = []world.TcbLevel{{Tcb: world.Tcb{ModuleLevel: true, IsvSvn: uint32(w.Fields.QeIsvSvn)}, Date: "2025-01-01T00:00:00Z", Status: st}}
		})
	}
	for _, hi := range []uint32{65536, 131072, 0xffff0000} {
		hi := hi
		run("level-wide", fmt.Sprintf("first level isvsvn = report + %d (UpToDate), then an applicable OutOfDate level", hi), nil, func(w *world.World, d *world.QeIdentityDoc) {
			d.Levels = []world.TcbLevel{{Tcb: world.Tcb{ModuleLevel: true, IsvSvn: uint32(w.Fields.QeIsvSvn) + hi}, Date: "2025-01-01T00:00:00Z", Status: "UpToDate"},
				{Tcb: world.Tcb{ModuleLevel: true, IsvSvn: uint32(w.Fields.QeIsvSvn)}, Date: "2025-01-01T00:00:00Z", Status: "OutOfDate"}}
		})
	}
	_ = rand.Int
}
