package props

import (
	"bytes"
	"crypto/sha256"
	"errors"
	"fmt"
	"math/rand"
	"os"
	"os/exec"
	"path/filepath"
	"sort"
	"strings"
	"time"
	"unsafe"

	"github.com/google/go-tdx-guest/abi"
	pb "github.com/google/go-tdx-guest/proto/tdx"
	"github.com/google/go-tdx-guest/validate"
	"github.com/google/go-tdx-guest/verify"
	"google.golang.org/protobuf/proto"

	"verifharness/core"
	"verifharness/world"
)

// ---- every byte slice of a message, in the field order of Model/HeapProgs.hq_slices ----

// quoteFieldPtrs returns pointers to the 31 byte-slice fields (index 14 is the
// RTMR list, returned separately).
func quoteFieldPtrs(q *pb.QuoteV4) (fixed []*[]byte, rtmrs *[][]byte) {
	h, b, s := q.Header, q.TdQuoteBody, q.SignedData
	c := s.CertificationData.QeReportCertificationData
	r := c.QeReport
	fixed = []*[]byte{&h.PceSvn, &h.QeSvn, &h.QeVendorId, &h.UserData,
		&b.TeeTcbSvn, &b.MrSeam, &b.MrSignerSeam, &b.SeamAttributes, &b.TdAttributes, &b.Xfam, &b.MrTd,
		&b.MrConfigId, &b.MrOwner, &b.MrOwnerConfig, nil, &b.ReportData,
		&s.Signature, &s.EcdsaAttestationKey,
		&r.CpuSvn, &r.Reserved1, &r.Attributes, &r.MrEnclave, &r.Reserved2, &r.MrSigner, &r.Reserved3, &r.Reserved4, &r.ReportData,
		&c.QeReportSignature, &c.QeAuthData.Data, &c.PckCertificateChainData.PckCertChain, &q.ExtraBytes}
	return fixed, &b.Rtmrs
}

var quoteFieldNames = []string{"Header.PceSvn", "Header.QeSvn", "Header.QeVendorId", "Header.UserData",
	"Body.TeeTcbSvn", "Body.MrSeam", "Body.MrSignerSeam", "Body.SeamAttributes", "Body.TdAttributes", "Body.Xfam", "Body.MrTd",
	"Body.MrConfigId", "Body.MrOwner", "Body.MrOwnerConfig", "Body.Rtmrs", "Body.ReportData",
	"SignedData.Signature", "SignedData.EcdsaAttestationKey",
	"QeReport.CpuSvn", "QeReport.Reserved1", "QeReport.Attributes", "QeReport.MrEnclave", "QeReport.Reserved2", "QeReport.MrSigner",
	"QeReport.Reserved3", "QeReport.Reserved4", "QeReport.ReportData",
	"QeReportSignature", "QeAuthData.Data", "PckCertChain", "ExtraBytes"}

type namedSlice struct {
	name string
	s    []byte
}

func quoteSlices(q *pb.QuoteV4) []namedSlice {
	fixed, rt := quoteFieldPtrs(q)
	var out []namedSlice
	for i, p := range fixed {
		if p == nil {
			for k, x := range *rt {
				out = append(out, namedSlice{fmt.Sprintf("Body.Rtmrs[%d]", k), x})
			}
			continue
		}
		out = append(out, namedSlice{quoteFieldNames[i], *p})
	}
	return out
}

// ---- memory map: the blocks behind a set of slices, each to full capacity ----

type memBlock struct {
	start, end uintptr
	view       []byte // the live memory [start, end)
	snap       []byte // copy taken by snapshot()
}

type memMap struct {
	blocks []*memBlock
	slices []namedSlice
}

func sliceSpan(s []byte) (uintptr, uintptr) {
	if cap(s) == 0 {
		return 0, 0
	}
	p := uintptr(unsafe.Pointer(unsafe.SliceData(s)))
	return p, p + uintptr(cap(s))
}

// newMemMap merges the capacity spans of the slices into disjoint blocks.
func newMemMap(sl []namedSlice) *memMap {
	type span struct {
		a, b uintptr
		full []byte
	}
	var spans []span
	for _, x := range sl {
		a, b := sliceSpan(x.s)
		if a == b {
			continue
		}
		spans = append(spans, span{a, b, x.s[:cap(x.s)]})
	}
	sort.Slice(spans, func(i, j int) bool { return spans[i].a < spans[j].a })
	m := &memMap{slices: sl}
	for _, sp := range spans {
		if n := len(m.blocks); n > 0 && sp.a < m.blocks[n-1].end {
			if sp.b > m.blocks[n-1].end {
				last := m.blocks[n-1]
				// the new span reaches further: extend the view
				last.view = unsafe.Slice((*byte)(unsafe.Pointer(unsafe.SliceData(last.view))), int(sp.b-last.start))
				last.end = sp.b
			}
			continue
		}
		m.blocks = append(m.blocks, &memBlock{start: sp.a, end: sp.b, view: sp.full})
	}
	return m
}

func (m *memMap) snapshot() {
	for _, b := range m.blocks {
		b.snap = append([]byte{}, b.view...)
	}
}

// locate returns (block index, offset, len, cap) of a slice; nil / zero-capacity
// slices are (0,0,0,0) in block 0 (never dereferenced by the model).
func (m *memMap) locate(s []byte) (int, int, int, int) {
	a, _ := sliceSpan(s)
	if a == 0 {
		return 0, 0, 0, 0
	}
	for i, b := range m.blocks {
		if a >= b.start && a < b.end {
			return i, int(a - b.start), len(s), cap(s)
		}
	}
	panic("slice not in the memory map")
}

// changed lists what differs from the snapshot, naming the slices that reach
// each changed byte.
func (m *memMap) changed() string {
	var out []string
	for bi, b := range m.blocks {
		if bytes.Equal(b.view, b.snap) {
			continue
		}
		first, last := -1, -1
		for i := range b.view {
			if b.view[i] != b.snap[i] {
				if first < 0 {
					first = i
				}
				last = i
			}
		}
		var reach []string
		for _, x := range m.slices {
			a, e := sliceSpan(x.s)
			if a == 0 {
				continue
			}
			if a <= b.start+uintptr(first) && b.start+uintptr(first) < e {
				where := "spare capacity"
				if b.start+uintptr(first) < a+uintptr(len(x.s)) {
					where = "contents"
				}
				reach = append(reach, x.name+" ("+where+")")
			}
		}
		out = append(out, fmt.Sprintf("block %d bytes %d..%d changed; reachable from %s", bi, first, last, strings.Join(reach, ", ")))
	}
	return strings.Join(out, "; ")
}

func (m *memMap) blocksSexp() core.Sexp {
	var l []core.Sexp
	for _, b := range m.blocks {
		l = append(l, core.Bs(b.snap))
	}
	return core.Ls(l...)
}

func (m *memMap) sliceSexp(s []byte) core.Sexp {
	b, o, l, c := m.locate(s)
	return core.Ls(core.Ai(b), core.Ai(o), core.Ai(l), core.Ai(c))
}

func (m *memMap) quoteSlicesSexp(q *pb.QuoteV4) core.Sexp {
	fixed, rt := quoteFieldPtrs(q)
	var l []core.Sexp
	for _, p := range fixed {
		if p == nil {
			var rs []core.Sexp
			for _, x := range *rt {
				rs = append(rs, m.sliceSexp(x))
			}
			l = append(l, core.Ls(rs...))
			continue
		}
		l = append(l, m.sliceSexp(*p))
	}
	return core.Ls(l...)
}

// ---- layouts: where the fields of a message live ----

const sentinel = 0xA5

func sentinelBuf(n int) []byte {
	b := make([]byte, n)
	for i := range b {
		b[i] = sentinel
	}
	return b
}

// relayout returns a deep copy of q whose byte fields are placed by the strategy.
func relayout(r *rand.Rand, q *pb.QuoteV4, strategy string) *pb.QuoteV4 {
	n := proto.Clone(q).(*pb.QuoteV4)
	fixed, rt := quoteFieldPtrs(n)
	var all []*[]byte
	for _, p := range fixed {
		if p == nil {
			for k := range *rt {
				all = append(all, &(*rt)[k])
			}
			continue
		}
		all = append(all, p)
	}
	switch strategy {
	case "exact": // own block, capacity == length
		for _, p := range all {
			if *p != nil {
				*p = append(make([]byte, 0, len(*p)), *p...)
			}
		}
	case "spare": // own block, sentinel-filled spare capacity behind (and bytes before) the field
		for _, p := range all {
			if *p == nil {
				continue
			}
			pre, post := r.Intn(9), 1+r.Intn(5000)
			buf := sentinelBuf(pre + len(*p) + post)
			copy(buf[pre:], *p)
			*p = buf[pre : pre+len(*p)]
		}
	case "adjacent": // one arena, fields back to back, every capacity runs to the end of the arena
		total := 64
		for _, p := range all {
			total += len(*p)
		}
		arena := sentinelBuf(total + 4096)
		off := 0
		for _, p := range all {
			if *p == nil {
				continue
			}
			copy(arena[off:], *p)
			*p = arena[off : off+len(*p)]
			off += len(*p)
		}
	case "reversed": // one arena, fields in reverse order (the next field in memory is the previous in the message)
		total := 64
		for _, p := range all {
			total += len(*p)
		}
		arena := sentinelBuf(total + 4096)
		off := 0
		for i := len(all) - 1; i >= 0; i-- {
			p := all[i]
			if *p == nil {
				continue
			}
			copy(arena[off:], *p)
			*p = arena[off : off+len(*p)]
			off += len(*p)
		}
	case "aliased": // fields with equal contents share memory; the rest as "spare"
		seen := map[string][]byte{}
		for _, p := range all {
			if *p == nil {
				continue
			}
			if s, ok := seen[string(*p)]; ok {
				*p = s
				continue
			}
			buf := sentinelBuf(len(*p) + 1 + r.Intn(300))
			copy(buf, *p)
			*p = buf[:len(*p)]
			seen[string(*p)] = *p
		}
	default:
		panic("unknown layout " + strategy)
	}
	return n
}

// keyThenAuth places the QE auth data directly behind the attestation key in one
// block (key capacity covers it), optionally overlapping by shift bytes.
func keyThenAuth(q *pb.QuoteV4, gap int) *pb.QuoteV4 {
	n := relayoutExact(q)
	key := n.SignedData.EcdsaAttestationKey
	auth := n.SignedData.CertificationData.QeReportCertificationData.QeAuthData.Data
	buf := sentinelBuf(len(key) + gap + len(auth) + 256)
	copy(buf, key)
	copy(buf[len(key)+gap:], auth)
	n.SignedData.EcdsaAttestationKey = buf[:len(key)]
	n.SignedData.CertificationData.QeReportCertificationData.QeAuthData.Data = buf[len(key)+gap : len(key)+gap+len(auth)]
	return n
}

func relayoutExact(q *pb.QuoteV4) *pb.QuoteV4 { return relayout(nil, q, "exact") }

// ---- the C16 check ----

func shaTable(q *pb.QuoteV4) core.Sexp {
	key := q.SignedData.EcdsaAttestationKey
	auth := q.SignedData.CertificationData.QeReportCertificationData.QeAuthData.Data
	in := append(append([]byte{}, key...), auth...)
	d := sha256.Sum256(in)
	return core.Ls(core.Ls(core.Bs(in), core.Bs(d[:])))
}

func C16(c *core.Ctx) {
	c.Rule = "quotes from the world generator (valid under a generated PKI; QE auth data 0 / 32 / 700 bytes; extra bytes present or not) as raw bytes inside a sentinel-filled buffer with spare capacity, parsed (abi.QuoteToProto), rebuilt field by field under six memory layouts (exact capacity; own block with sentinel spare capacity; one arena with the fields back to back; reversed arena; equal fields aliased; QE auth data directly behind the attestation key inside its capacity, with gaps 0 / 16 / 200), and decoded from protobuf; around each single call of verify.TdxQuote (three option levels), verify.RawTdxQuote, validate.TdxQuote (options in sentinel buffers with spare capacity), validate.RawTdxQuote, abi.QuoteToAbiBytes, verify.ExtractChainFromQuote and abi.QuoteToProto a snapshot of every block reachable from the message, the raw input and the option byte strings up to capacity; the memory layout of the parsed quote and the results of the byte-level steps are compared with the heap model; repeated calls must give the same verdict; quotes parsed earlier must re-serialise to the same bytes after everything done since; a -race build first makes the process's very first library calls concurrently (8 goroutines verifying the Intel sample quote under the embedded root, each parsing a quote of its own and re-serialising it while the others parse) and then runs the same calls from 8 goroutines on one message. non-trivial = the call reaches the byte handling (message passes the structure checks); distinct = distinct (quote, layout, call)"
	r := c.Rng
	nWorlds := c.Scale(4, 40)
	authLens := []int{32, 0, 700, 1, 64, 5000}
	layouts := []string{"exact", "spare", "adjacent", "reversed", "aliased"}
	// quotes parsed earlier and the bytes they serialised to then: every later call must leave them alone
	type kept struct {
		name string
		q    *pb.QuoteV4
		ser  []byte
	}
	var earlier []kept
	for wi := 0; wi < nWorlds; wi++ {
		pki, err := world.NewPKI(r, world.PKIOpts{Now: baseTime, Ext: world.RandomSGXExt(r)})
		if err != nil {
			panic(err)
		}
		f := world.DefaultQuoteFields(r)
		f.AuthData = core.RandBytes(r, authLens[wi%len(authLens)])
		if wi%2 == 1 {
			f.ExtraBytes = core.RandBytes(r, 1+r.Intn(40))
		}
		w, err := world.BuildWorld(r, baseTime, pki, f)
		if err != nil {
			panic(err)
		}
		wname := fmt.Sprintf("world %d (auth=%d extra=%d)", wi, len(f.AuthData), len(f.ExtraBytes))

		// ---- parsing: raw inside a sentinel buffer ----
		pre, post := 8+r.Intn(8), 64+r.Intn(4096)
		arena := sentinelBuf(pre + len(w.Quote.Raw) + post)
		copy(arena[pre:], w.Quote.Raw)
		raw := arena[pre : pre+len(w.Quote.Raw)]
		c16Parse(c, wname, raw, arena)

		parsedAny, err := abi.QuoteToProto(raw)
		if err != nil {
			panic(err)
		}
		parsed := parsedAny.(*pb.QuoteV4)
		type variant struct {
			name string
			q    *pb.QuoteV4
		}
		vs := []variant{{"parsed", parsed}}
		for _, l := range layouts {
			vs = append(vs, variant{"built/" + l, relayout(r, parsed, l)})
		}
		for _, gap := range []int{0, 16, 200} {
			vs = append(vs, variant{fmt.Sprintf("built/key-then-auth gap %d", gap), keyThenAuth(parsed, gap)})
		}
		if bin, err := proto.Marshal(parsed); err == nil {
			dec := &pb.QuoteV4{}
			if proto.Unmarshal(bin, dec) == nil {
				vs = append(vs, variant{"protobuf-decoded", dec})
			}
		}
		for _, v := range vs {
			c16Message(c, wname+" "+v.name, w, v.q)
		}
		c16Raw(c, wname, w, raw, arena)
		// a quote parsed from this world earlier must not be affected by anything done since
		// (parsing and verifying other quotes included)
		gt := ""
		if p := safely(func() {
			if keepAny, err := abi.QuoteToProto(append([]byte{}, w.Quote.Raw...)); err == nil {
				kq := keepAny.(*pb.QuoteV4)
				if ser, err := abi.QuoteToAbiBytes(kq); err == nil {
					earlier = append(earlier, kept{wname, kq, ser})
				}
			}
			for _, k := range earlier {
				if ser, err := abi.QuoteToAbiBytes(k.q); err != nil || !bytes.Equal(ser, k.ser) {
					gt = fmt.Sprintf("the quote parsed earlier from %s changed while later quotes were parsed and checked (it shares memory with something the library re-uses)", k.name)
					break
				}
			}
		}); p != nil {
			gt = fmt.Sprintf("parsing / serialising a valid quote panicked: %v", p)
		}
		c.Add(&core.Case{Class: "earlier-results", Desc: fmt.Sprintf("%d quotes parsed earlier re-serialised after %s", len(earlier), wname), SkipModel: true, Impl: core.Ls(), GT: gt, NonTrivial: true})
	}
	c16Race(c)
}

// c16Parse: abi.QuoteToProto leaves its input alone and returns fields in memory
// of their own whose block structure matches the model's.
func c16Parse(c *core.Ctx, wname string, raw, arena []byte) {
	before := append([]byte{}, arena...)
	var q *pb.QuoteV4
	pan := safely(func() {
		if a, err := abi.QuoteToProto(raw); err == nil {
			q = a.(*pb.QuoteV4)
		}
	})
	gt := ""
	impl := core.Ls(core.A(1))
	switch {
	case pan != nil:
		gt = fmt.Sprintf("QuoteToProto panicked: %v", pan)
		impl = core.Ls(core.A(2))
	case !bytes.Equal(before, arena):
		gt = "abi.QuoteToProto wrote into its input buffer (contents or spare capacity)"
	}
	if q != nil {
		as, ae := sliceSpan(arena)
		// canonical layout: (group of the block by first occurrence, len, cap); blocks are told apart by their end address
		groups := map[uintptr]int{}
		var lay []core.Sexp
		for _, x := range quoteSlices(q) {
			a, e := sliceSpan(x.s)
			if a == 0 {
				lay = append(lay, core.Ls(core.A(1<<20), core.A(0), core.A(0)))
				continue
			}
			if a < ae && as < e && gt == "" {
				gt = fmt.Sprintf("parsed field %s shares memory with the raw input (its capacity span overlaps the input buffer)", x.name)
			}
			g, ok := groups[e]
			if !ok {
				g = len(groups)
				groups[e] = g
			}
			lay = append(lay, core.Ls(core.Ai(g), core.Ai(len(x.s)), core.Ai(cap(x.s))))
		}
		impl = core.Ls(core.A(0), core.Ls(lay...))
	}
	input := core.Ls(core.A(0), core.Ls(core.Bs(before)), optQuote(nil), core.Ls(), core.Ls(core.Ls(core.A(0), core.Ai(int(uintptr(unsafe.Pointer(unsafe.SliceData(raw)))-uintptr(unsafe.Pointer(unsafe.SliceData(arena))))), core.Ai(len(raw)), core.Ai(cap(raw)))))
	c.Add(&core.Case{Class: "parse", Desc: wname + " abi.QuoteToProto on a sub-slice of a sentinel buffer", Entry: "heap", Input: input,
		Impl: core.Ls(impl, core.Ls()), GT: gt, NonTrivial: q != nil, Project: c16ProjectParse})
}

// c16ProjectParse canonicalises the model's layout ((blk off len cap) per field)
// to (group, len, cap) with groups numbered by first occurrence.
func c16ProjectParse(model core.Sexp) core.Sexp {
	res := model.Nth(0)
	if res.Nth(0).Kind != 'A' || res.Nth(0).N != 0 {
		return model
	}
	groups := map[string]int{}
	var lay []core.Sexp
	for _, s := range res.Nth(1).L {
		blk := s.Nth(0)
		if blk.Nth(0).N == 0 { // shared block: only the nil slice
			lay = append(lay, core.Ls(core.A(1<<20), core.A(0), core.A(0)))
			continue
		}
		key := fmt.Sprint(blk.Nth(1).N)
		g, ok := groups[key]
		if !ok {
			g = len(groups)
			groups[key] = g
		}
		lay = append(lay, core.Ls(core.Ai(g), s.Nth(2), s.Nth(3)))
	}
	return core.Ls(core.Ls(core.A(0), core.Ls(lay...)), model.Nth(1))
}

func c16Options(r *rand.Rand, q *pb.QuoteV4) (*validate.Options, []namedSlice) {
	b := q.TdQuoteBody
	inBuf := func(v []byte) []byte {
		pre, post := r.Intn(5), 1+r.Intn(200)
		buf := sentinelBuf(pre + len(v) + post)
		copy(buf[pre:], v)
		return buf[pre : pre+len(v)]
	}
	o := &validate.Options{
		HeaderOptions: validate.HeaderOptions{QeVendorID: inBuf(q.Header.QeVendorId)},
		TdQuoteBodyOptions: validate.TdQuoteBodyOptions{
			MinimumTeeTcbSvn: inBuf(make([]byte, 16)), MrSeam: inBuf(b.MrSeam), TdAttributes: inBuf(b.TdAttributes), Xfam: inBuf(b.Xfam),
			MrTd: inBuf(b.MrTd), MrConfigID: inBuf(b.MrConfigId), MrOwner: inBuf(b.MrOwner), MrOwnerConfig: inBuf(b.MrOwnerConfig),
			ReportData: inBuf(b.ReportData), AnyMrTd: [][]byte{inBuf(make([]byte, 48)), inBuf(b.MrTd)},
		},
	}
	for _, x := range b.Rtmrs {
		o.TdQuoteBodyOptions.Rtmrs = append(o.TdQuoteBodyOptions.Rtmrs, inBuf(x))
	}
	t := &o.TdQuoteBodyOptions
	ns := []namedSlice{{"opt.QeVendorID", o.HeaderOptions.QeVendorID}, {"opt.MinimumTeeTcbSvn", t.MinimumTeeTcbSvn}, {"opt.MrSeam", t.MrSeam},
		{"opt.TdAttributes", t.TdAttributes}, {"opt.Xfam", t.Xfam}, {"opt.MrTd", t.MrTd}, {"opt.MrConfigID", t.MrConfigID}, {"opt.MrOwner", t.MrOwner},
		{"opt.MrOwnerConfig", t.MrOwnerConfig}, {"opt.ReportData", t.ReportData}, {"opt.AnyMrTd[0]", t.AnyMrTd[0]}, {"opt.AnyMrTd[1]", t.AnyMrTd[1]}}
	for i, x := range t.Rtmrs {
		ns = append(ns, namedSlice{fmt.Sprintf("opt.Rtmrs[%d]", i), x})
	}
	return o, ns
}

func verifyOpts(w *world.World, collateral, crl bool) *verify.Options {
	sc := scenarioFromWorld(w, collateral, crl)
	o, _ := sc.options()
	return o
}

// c16Message: every call on one message under snapshot, with the model's view of
// the byte-level steps.
func c16Message(c *core.Ctx, name string, w *world.World, q *pb.QuoteV4) {
	r := c.Rng
	opts, optSlices := c16Options(r, q)
	all := append(quoteSlices(q), optSlices...)
	m := newMemMap(all)
	structure := func() string {
		// the message itself (which slice each field is) must not change either
		var sb strings.Builder
		for _, x := range quoteSlices(q) {
			a, e := sliceSpan(x.s)
			fmt.Fprintf(&sb, "%x:%x:%d;", a, e, len(x.s))
		}
		return sb.String()
	}
	type call struct {
		name string
		run  func() (string, any) // verdict string, panic
	}
	verdict := func(err error) string {
		if err == nil {
			return "ok"
		}
		return "error"
	}
	calls := []call{
		{"verify.TdxQuote (signature+chain)", func() (v string, p any) {
			p = safely(func() { v = verdict(verify.TdxQuote(q, verifyOpts(w, false, false))) })
			return
		}},
		{"verify.TdxQuote (collateral)", func() (v string, p any) {
			p = safely(func() { v = verdict(verify.TdxQuote(q, verifyOpts(w, true, false))) })
			return
		}},
		{"verify.TdxQuote (collateral+crl)", func() (v string, p any) {
			p = safely(func() { v = verdict(verify.TdxQuote(q, verifyOpts(w, true, true))) })
			return
		}},
		{"validate.TdxQuote", func() (v string, p any) {
			p = safely(func() { v = verdict(validate.TdxQuote(q, opts)) })
			return
		}},
		{"abi.QuoteToAbiBytes", func() (v string, p any) {
			p = safely(func() {
				b, err := abi.QuoteToAbiBytes(q)
				v = verdict(err) + fmt.Sprintf(" %x", sha256.Sum256(b))
			})
			return
		}},
		{"verify.ExtractChainFromQuote", func() (v string, p any) {
			p = safely(func() {
				ch, err := verify.ExtractChainFromQuote(q)
				v = verdict(err)
				if ch != nil && ch.PCKCertificate != nil {
					v += fmt.Sprintf(" %x", sha256.Sum256(ch.PCKCertificate.Raw))
				}
			})
			return
		}},
	}
	for _, cl := range calls {
		m.snapshot()
		st := structure()
		v1, pan := cl.run()
		gt := ""
		if pan != nil {
			gt = fmt.Sprintf("%s panicked: %v", cl.name, pan)
		} else if ch := m.changed(); ch != "" {
			gt = cl.name + " wrote to memory reachable from the message or the options: " + ch
		} else if structure() != st {
			gt = cl.name + " changed a field of the message (pointer, length or capacity)"
		} else if v2, _ := cl.run(); v2 != v1 {
			gt = fmt.Sprintf("%s: verdict %q on the first call, %q on the second call on the same message", cl.name, v1, v2)
		} else if !strings.HasPrefix(v1, "ok") {
			gt = fmt.Sprintf("%s rejects the valid quote under this memory layout (%s)", cl.name, v1)
		}
		if gt != "" {
			// restore so the following calls start from the intended state
			for _, b := range m.blocks {
				copy(b.view, b.snap)
			}
		}
		c.Add(&core.Case{Class: "snapshot/" + cl.name, Desc: name, SkipModel: true, Impl: core.Ls(), GT: gt, NonTrivial: true})
	}

	// ---- the byte-level steps against the heap model ----
	m.snapshot()
	qs := m.quoteSlicesSexp(q)
	blocks := m.blocksSexp()
	// op 1: verify's byte handling
	{
		var msg, rep []byte
		ok := false
		pan := safely(func() {
			h, _ := abi.HeaderToAbiBytes(q.Header)
			b, _ := abi.TdQuoteBodyToAbiBytes(q.TdQuoteBody)
			msg = append(h, b...)
			rep, _ = abi.EnclaveReportToAbiBytes(q.SignedData.CertificationData.QeReportCertificationData.QeReport)
			err := verify.TdxQuote(q, verifyOpts(w, false, false))
			ok = !errors.Is(err, verify.ErrSHA56VerificationFail)
		})
		impl := core.Ls(core.A(0), core.Ls(core.Bs(q.SignedData.CertificationData.QeReportCertificationData.PckCertificateChainData.PckCertChain), core.Bs(msg), core.Bool(ok), core.Bs(rep)))
		if pan != nil {
			impl = core.Ls(core.A(2))
		}
		input := core.Ls(core.A(1), blocks, quoteSexp(q), qs, shaTable(q))
		c.Add(&core.Case{Class: "model/verify bytes", Desc: name, Entry: "heap", Input: input, Impl: core.Ls(impl, core.Ls()), NonTrivial: true})
	}
	// op 2: serialisation
	{
		var out []byte
		var err error
		pan := safely(func() { out, err = abi.QuoteToAbiBytes(q) })
		impl := core.Ls(core.A(0), core.Bs(out))
		if pan != nil {
			impl = core.Ls(core.A(2))
		} else if err != nil {
			impl = core.Ls(core.A(1))
		}
		input := core.Ls(core.A(2), blocks, quoteSexp(q), qs, core.Ls())
		c.Add(&core.Case{Class: "model/serialise", Desc: name, Entry: "heap", Input: input, Impl: core.Ls(impl, core.Ls()), NonTrivial: true})
	}
	// op 4: validation reads the message and the options
	{
		var os_, ov []core.Sexp
		for _, x := range optSlices {
			os_ = append(os_, m.sliceSexp(x.s))
			ov = append(ov, core.Bs(x.s))
		}
		impl := core.Ls(core.A(0), quoteSexp(q), core.Ls(ov...))
		input := core.Ls(core.A(4), blocks, quoteSexp(q), qs, core.Ls(os_...))
		c.Add(&core.Case{Class: "model/validate reads", Desc: name, Entry: "heap", Input: input, Impl: core.Ls(impl, core.Ls()), NonTrivial: true})
	}
}

// c16Raw: the raw entry points leave the raw buffer alone.
func c16Raw(c *core.Ctx, wname string, w *world.World, raw, arena []byte) {
	q, _ := abi.QuoteToProto(raw)
	opts, optSlices := c16Options(c.Rng, q.(*pb.QuoteV4))
	m := newMemMap(append([]namedSlice{{"raw input", raw[:len(raw):cap(raw)]}, {"raw arena", arena}}, optSlices...))
	for _, cl := range []struct {
		name string
		run  func() error
	}{
		{"verify.RawTdxQuote", func() error { return verify.RawTdxQuote(raw, verifyOpts(w, true, true)) }},
		{"validate.RawTdxQuote", func() error { return validate.RawTdxQuote(raw, opts) }},
	} {
		m.snapshot()
		var err error
		pan := safely(func() { err = cl.run() })
		gt := ""
		if pan != nil {
			gt = fmt.Sprintf("%s panicked: %v", cl.name, pan)
		} else if ch := m.changed(); ch != "" {
			gt = cl.name + " wrote to the raw input or the options: " + ch
		} else if err != nil {
			gt = fmt.Sprintf("%s rejects the valid quote: %v", cl.name, err)
		}
		c.Add(&core.Case{Class: "snapshot/" + cl.name, Desc: wname, SkipModel: true, Impl: core.Ls(), GT: gt, NonTrivial: true})
	}
}

// c16Race runs the -race build of the stress program (built by build.sh next to
// the harness binary) and turns its report into a case.
func c16Race(c *core.Ctx) {
	bin := os.Getenv("VERIF_RACE_BIN")
	if bin == "" {
		exe, _ := os.Executable()
		bin = filepath.Join(filepath.Dir(exe), "verifrace")
	}
	if _, err := os.Stat(bin); err != nil {
		c.Add(&core.Case{Class: "race", Desc: "race build missing: " + bin, SkipModel: true, Impl: core.Ls(), GT: "the -race stress binary was not built (see .work/harness.log)"})
		return
	}
	iters := c.Scale(30, 600)
	cmd := exec.Command(bin, fmt.Sprint(c.Seed), fmt.Sprint(iters))
	cmd.Env = append(os.Environ(), "GORACE=halt_on_error=0 exitcode=66")
	var out bytes.Buffer
	cmd.Stdout, cmd.Stderr = &out, &out
	start := time.Now()
	err := cmd.Run()
	text := out.String()
	gt := ""
	switch {
	case strings.Contains(text, "DATA RACE"):
		i := strings.Index(text, "WARNING: DATA RACE")
		excerpt := text[i:]
		if len(excerpt) > 1500 {
			excerpt = excerpt[:1500]
		}
		gt = "the race detector reports a data race between concurrent calls on one message: " + strings.Join(strings.Fields(excerpt), " ")
	case strings.Contains(text, "MISMATCH"):
		i := strings.Index(text, "MISMATCH")
		end := i + 400
		if end > len(text) {
			end = len(text)
		}
		gt = "concurrent verdict differs from the solo verdict: " + text[i:end]
	case err != nil:
		gt = fmt.Sprintf("race stress program failed: %v: %s", err, lastN(text, 400))
	}
	c.Add(&core.Case{Class: "race", Desc: fmt.Sprintf("8 goroutines x %d iterations per layout, %.1fs: %s", iters, time.Since(start).Seconds(), lastN(strings.TrimSpace(text), 200)),
		SkipModel: true, Impl: core.Ls(), GT: gt, NonTrivial: true})
}

func lastN(s string, n int) string {
	if len(s) > n {
		return s[len(s)-n:]
	}
	return s
}
