package props

import (
	"bytes"
	"crypto/sha256"
	"fmt"
	"math/rand"
	"sync"
	"time"

	"github.com/google/go-tdx-guest/abi"
	pb "github.com/google/go-tdx-guest/proto/tdx"
	"github.com/google/go-tdx-guest/validate"
	"github.com/google/go-tdx-guest/verify"
	"google.golang.org/protobuf/proto"

	"verifharness/core"
	"verifharness/world"
)

// RaceStress is the body of the -race build (harness/racecheck): goroutines
// sharing one message, each with options of its own, run verify / validate /
// serialise / extract concurrently; every verdict is compared with the solo run.
// The race detector reports on stderr; verdict differences are printed as
// MISMATCH lines.
func RaceStress(seed int64, iters int) int {
	r := rand.New(rand.NewSource(seed))
	const G = 8
	mismatches := 0
	mismatches += coldStart(G)
	for wi := 0; wi < 2; wi++ {
		pki, err := world.NewPKI(r, world.PKIOpts{Now: baseTime, Ext: world.RandomSGXExt(r)})
		if err != nil {
			panic(err)
		}
		f := world.DefaultQuoteFields(r)
		f.AuthData = core.RandBytes(r, []int{32, 700}[wi%2])
		w, err := world.BuildWorld(r, baseTime, pki, f)
		if err != nil {
			panic(err)
		}
		pa, err := abi.QuoteToProto(w.Quote.Raw)
		if err != nil {
			panic(err)
		}
		parsed := pa.(*pb.QuoteV4)
		variants := map[string]*pb.QuoteV4{"parsed": parsed, "spare": relayout(r, parsed, "spare"), "adjacent": relayout(r, parsed, "adjacent"),
			"key-then-auth": keyThenAuth(parsed, 0), "exact": relayout(r, parsed, "exact")}
		if bin, err := proto.Marshal(parsed); err == nil {
			dec := &pb.QuoteV4{}
			if proto.Unmarshal(bin, dec) == nil {
				variants["protobuf"] = dec
			}
		}
		for name, q := range variants {
			type fn func(q *pb.QuoteV4, o *validate.Options) string
			calls := []fn{
				func(q *pb.QuoteV4, _ *validate.Options) string {
					return fmt.Sprint(verify.TdxQuote(q, verifyOpts(w, false, false)))
				},
				func(q *pb.QuoteV4, _ *validate.Options) string {
					return fmt.Sprint(verify.TdxQuote(q, verifyOpts(w, true, true)))
				},
				func(q *pb.QuoteV4, o *validate.Options) string { return fmt.Sprint(validate.TdxQuote(q, o)) },
				func(q *pb.QuoteV4, _ *validate.Options) string {
					b, err := abi.QuoteToAbiBytes(q)
					return fmt.Sprintf("%v %x", err, sha256.Sum256(b))
				},
				func(q *pb.QuoteV4, _ *validate.Options) string {
					ch, err := verify.ExtractChainFromQuote(q)
					if err != nil || ch == nil || ch.PCKCertificate == nil {
						return fmt.Sprint(err)
					}
					return fmt.Sprintf("%x", sha256.Sum256(ch.PCKCertificate.Raw))
				},
			}
			soloOpts, _ := c16Options(r, q)
			var solo []string
			for _, cl := range calls {
				solo = append(solo, cl(q, soloOpts))
			}
			var wg sync.WaitGroup
			var mu sync.Mutex
			for g := 0; g < G; g++ {
				opts, _ := c16Options(rand.New(rand.NewSource(seed+int64(g))), q)
				g := g
				wg.Add(1)
				go func() {
					defer wg.Done()
					for it := 0; it < iters; it++ {
						k := (g + it) % len(calls)
						if v := calls[k](q, opts); v != solo[k] {
							mu.Lock()
							mismatches++
							if mismatches <= 5 {
								fmt.Printf("MISMATCH world %d layout %s call %d goroutine %d iteration %d: solo %q concurrent %q\n", wi, name, k, g, it, solo[k], v)
							}
							mu.Unlock()
						}
					}
				}()
			}
			wg.Wait()
		}
	}
	fmt.Printf("race stress done: worlds=2 layouts=6 goroutines=%d iterations=%d mismatches=%d\n", G, iters, mismatches)
	return mismatches
}

// coldStart makes the very first library calls of the process concurrently, with
// no warm-up (lazily initialised package state is built here, if anywhere): each
// goroutine verifies the Intel sample quote under the embedded root at its
// reference time, and parses a quote of its own (the sample with a distinct
// tail) which it keeps re-serialising while the others parse.
func coldStart(g int) int {
	raw, err := readRepoFile("testing/testdata/tdx_prod_quote_SPR_E4.dat")
	if err != nil {
		return 0
	}
	ref := time.Date(2023, time.July, 1, 1, 0, 0, 0, time.UTC)
	var wg sync.WaitGroup
	var mu sync.Mutex
	bad := 0
	start := make(chan struct{})
	for i := 0; i < g; i++ {
		i := i
		wg.Add(1)
		go func() {
			defer wg.Done()
			<-start
			own := append(append([]byte{}, raw...), bytes.Repeat([]byte{byte(i + 1)}, 16+i)...)
			var msgs []string
			opts := &verify.Options{Now: &verify.TimeSet{PckCertChain: ref, TcbInfo: ref, QeIdentity: ref, PckCrl: ref, RootCaCrl: ref}}
			if err := verify.RawTdxQuote(raw, opts); err != nil {
				msgs = append(msgs, fmt.Sprintf("cold start: goroutine %d: the Intel sample quote is rejected under the embedded root: %v", i, err))
			}
			qa, err := abi.QuoteToProto(own)
			if err != nil {
				msgs = append(msgs, fmt.Sprintf("cold start: goroutine %d: parse: %v", i, err))
			} else {
				for it := 0; it < 20; it++ {
					if _, err := abi.QuoteToProto(own); err != nil {
						msgs = append(msgs, "cold start: re-parse: "+err.Error())
					}
					if ser, err := abi.QuoteToAbiBytes(qa); err != nil || !bytes.Equal(ser, own) {
						msgs = append(msgs, fmt.Sprintf("cold start: goroutine %d: its parsed quote no longer serialises to its own bytes while other goroutines parse", i))
						break
					}
				}
			}
			mu.Lock()
			for _, m := range msgs {
				bad++
				if bad <= 5 {
					fmt.Println("MISMATCH " + m)
				}
			}
			mu.Unlock()
		}()
	}
	close(start)
	wg.Wait()
	return bad
}
