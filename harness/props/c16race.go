package props

import (
	"crypto/sha256"
	"fmt"
	"math/rand"
	"sync"

	"github.com/google/go-tdx-guest/abi"
	pb "github.com/google/go-tdx-guest/proto/tdx"
	"github.com/google/go-tdx-guest/validate"
	"github.com/google/go-tdx-guest/verify"
	"google.golang.org/protobuf/proto"

	"verifharness/core"
	"verifharness/world"
)

// RaceStress is the body of the -race build (harness/racecheck): goroutines
// sharing one message, each with options of its own, run verify / validate /
// serialise / extract concurrently; every verdict is compared with the solo run.
// The race detector reports on stderr; verdict differences are printed as
// MISMATCH lines.
func RaceStress(seed int64, iters int) int {
	r := rand.New(rand.NewSource(seed))
	const G = 8
	mismatches := 0
	for wi := 0; wi < 2; wi++ {
		pki, err := world.NewPKI(r, world.PKIOpts{Now: baseTime, Ext: world.RandomSGXExt(r)})
		if err != nil {
			panic(err)
		}
		f := world.DefaultQuoteFields(r)
		f.AuthData = core.RandBytes(r, []int{32, 700}[wi%2])
		w, err := world.BuildWorld(r, baseTime, pki, f)
		if err != nil {
			panic(err)
		}
		pa, err := abi.QuoteToProto(w.Quote.Raw)
		if err != nil {
			panic(err)
		}
		parsed := pa.(*pb.QuoteV4)
		variants := map[string]*pb.QuoteV4{"parsed": parsed, "spare": relayout(r, parsed, "spare"), "adjacent": relayout(r, parsed, "adjacent"),
			"key-then-auth": keyThenAuth(parsed, 0), "exact": relayout(r, parsed, "exact")}
		if bin, err := proto.Marshal(parsed); err == nil {
			dec := &pb.QuoteV4{}
			if proto.Unmarshal(bin, dec) == nil {
				variants["protobuf"] = dec
			}
		}
		for name, q := range variants {
			type fn func(q *pb.QuoteV4, o *validate.Options) string
			calls := []fn{
				func(q *pb.QuoteV4, _ *validate.Options) string {
					return fmt.Sprint(verify.TdxQuote(q, verifyOpts(w, false, false)))
				},
				func(q *pb.QuoteV4, _ *validate.Options) string {
					return fmt.Sprint(verify.TdxQuote(q, verifyOpts(w, true, true)))
				},
				func(q *pb.QuoteV4, o *validate.Options) string { return fmt.Sprint(validate.TdxQuote(q, o)) },
				func(q *pb.QuoteV4, _ *validate.Options) string {
					b, err := abi.QuoteToAbiBytes(q)
					return fmt.Sprintf("%v %x", err, sha256.Sum256(b))
				},
				func(q *pb.QuoteV4, _ *validate.Options) string {
					ch, err := verify.ExtractChainFromQuote(q)
					if err != nil || ch == nil || ch.PCKCertificate == nil {
						return fmt.Sprint(err)
					}
					return fmt.Sprintf("%x", sha256.Sum256(ch.PCKCertificate.Raw))
				},
			}
			soloOpts, _ := c16Options(r, q)
			var solo []string
			for _, cl := range calls {
				solo = append(solo, cl(q, soloOpts))
			}
			var wg sync.WaitGroup
			var mu sync.Mutex
			for g := 0; g < G; g++ {
				opts, _ := c16Options(rand.New(rand.NewSource(seed+int64(g))), q)
				g := g
				wg.Add(1)
				go func() {
					defer wg.Done()
					for it := 0; it < iters; it++ {
						k := (g + it) % len(calls)
						if v := calls[k](q, opts); v != solo[k] {
							mu.Lock()
							mismatches++
							if mismatches <= 5 {
								fmt.Printf("MISMATCH world %d layout %s call %d goroutine %d iteration %d: solo %q concurrent %q\n", wi, name, k, g, it, solo[k], v)
							}
							mu.Unlock()
						}
					}
				}()
			}
			wg.Wait()
		}
	}
	fmt.Printf("race stress done: worlds=2 layouts=6 goroutines=%d iterations=%d mismatches=%d\n", G, iters, mismatches)
	return mismatches
}
