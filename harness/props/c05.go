package props

import (
	"bytes"
	"crypto/x509"
	"crypto/x509/pkix"
	"encoding/asn1"
	"fmt"
	"math/big"
	"time"

	"verifharness/core"
	"verifharness/world"
)

func C05(c *core.Ctx) {
	c.Rule = "otherwise valid worlds with revocation checking: revoked-serial sets containing the leaf / intermediate / TCB-signer serial, near misses (+-1, same low bytes, prefix), hundreds of entries; CRLs signed by the right CA, by the other CA, by a same-named look-alike CA; after a genuine revoking list has been verified in the same process, lists without the serial that carry the genuine signature value or differ from the genuine list in one bit; endpoint outcomes (error, garbage, CRL of another issuer, expired), several root CRL distribution points with some failing or none; issuer-chain header faults of the PCK CRL; all four option combinations (revocation without collateral must fail). Ground truth: with revocation on, acceptance implies both CRLs were served, are signed by the chain's root / intermediate, and list none of the four serials. non-trivial = revocation checking on; distinct = distinct (world, responses, options)"
	r := c.Rng
	day := 24 * time.Hour
	type crlSpec struct {
		signer  *world.Cert
		serials []*big.Int
		next    time.Time
	}
	mkCRL := func(s crlSpec) []byte {
		b, err := world.MakeCRL(r, s.signer, s.serials, baseTime.Add(-day), s.next, 2)
		if err != nil {
			panic(err)
		}
		return b
	}
	unrelated := func(n int) []*big.Int {
		var out []*big.Int
		for i := 0; i < n; i++ {
			out = append(out, new(big.Int).SetBytes(append([]byte{1}, core.RandBytes(r, 20)...)))
		}
		return out
	}
	add := func(x *big.Int, d int64) *big.Int { return new(big.Int).Add(x, big.NewInt(d)) }
	reps := c.Scale(6, 40)
	for rep := 0; rep < reps; rep++ {
		dps := []string{"https://crl.example/root1.der", "https://crl.example/root2.der", "https://crl.example/root3.der"}
		opts := world.PKIOpts{Now: baseTime, Ext: world.RandomSGXExt(r)}
		multi := rep%2 == 1
		if multi {
			opts.RootCRLDPs = dps
		}
		pki, err := world.NewPKI(r, opts)
		if err != nil {
			panic(err)
		}
		other, _ := world.NewPKI(r, world.PKIOpts{Now: baseTime, Ext: opts.Ext})
		w, err := world.BuildWorld(r, baseTime, pki, world.DefaultQuoteFields(r))
		if err != nil {
			panic(err)
		}
		_, _, pckURL, rootURL := w.URLs()
		if multi {
			rootURL = dps[0]
		}
		leafS, interS, tcbS := pki.Leaf.Cert.SerialNumber, pki.Inter.Cert.SerialNumber, pki.TcbSigner.Cert.SerialNumber
		next := baseTime.Add(30 * day)
		try := func(class, desc string, col, crl bool, mut func(resp map[string]world.Resp), want int) {
			// want: 1 accept, 0 reject, -1 no expectation beyond the invariant
			sc := scenarioFromWorld(w, col, crl)
			sc.Resp = cloneResp(sc.Resp)
			if multi {
				x := sc.Resp[w.PKI.Opts.RootCRLURL]
				delete(sc.Resp, w.PKI.Opts.RootCRLURL)
				sc.Resp[dps[0]] = x
			}
			if mut != nil {
				mut(sc.Resp)
			}
			runScenario(c, class, desc, sc, func(cl uint64, err error) string {
				switch {
				case want == 1 && cl != 0:
					return "valid world with clean CRLs rejected: " + err.Error()
				case want == 0 && cl == 0:
					return "accepted although a certificate is revoked or a CRL is missing / not authentic"
				}
				return ""
			}, crl)
		}
		set := func(url string, body []byte) func(map[string]world.Resp) {
			return func(resp map[string]world.Resp) { x := resp[url]; x.Body = body; x.Err = nil; resp[url] = x }
		}
		both := func(pck, root crlSpec) func(map[string]world.Resp) {
			return func(resp map[string]world.Resp) {
				set(pckURL, mkCRL(pck))(resp)
				set(rootURL, mkCRL(root))(resp)
			}
		}
		cleanP := crlSpec{pki.Inter, unrelated(2), next}
		cleanR := crlSpec{pki.Root, unrelated(2), next}
		try("clean", "clean CRLs", true, true, nil, 1)
		try("options", "revocation without collateral", false, true, nil, 0)
		try("options", "collateral only", true, false, nil, 1)
		try("options", "neither", false, false, nil, 1)
		// revoked serials
		try("revoked", "leaf serial in PCK CRL", true, true, both(crlSpec{pki.Inter, append(unrelated(3), leafS), next}, cleanR), 0)
		try("revoked", "leaf serial first of many in PCK CRL", true, true, both(crlSpec{pki.Inter, append([]*big.Int{leafS}, unrelated(c.Scale(50, 400))...), next}, cleanR), 0)
		try("revoked", "intermediate serial in Root CA CRL", true, true, both(cleanP, crlSpec{pki.Root, append(unrelated(1), interS), next}), 0)
		try("revoked", "TCB signer serial in Root CA CRL", true, true, both(cleanP, crlSpec{pki.Root, append(unrelated(1), tcbS), next}), 0)
		try("revoked", "leaf serial in the Root CA CRL only (not its issuer's CRL)", true, true, both(cleanP, crlSpec{pki.Root, []*big.Int{leafS}, next}), 1)
		try("revoked", "intermediate serial in the PCK CRL only", true, true, both(crlSpec{pki.Inter, []*big.Int{interS}, next}, cleanR), 1)
		try("revoked", "revoked leaf, revocation checking off", true, false, both(crlSpec{pki.Inter, []*big.Int{leafS}, next}, cleanR), 1)
		// revocation entries dated after the verification time still count
		future := func(signer *world.Cert, serials []*big.Int) []byte {
			b, err := world.MakeCRL(r, signer, serials, baseTime.Add(10*day), next, 4)
			if err != nil {
				panic(err)
			}
			return b
		}
		try("revoked-future-dated", "leaf serial, revocation date after the verification time", true, true, func(resp map[string]world.Resp) {
			set(pckURL, future(pki.Inter, []*big.Int{leafS}))(resp)
		}, 0)
		try("revoked-future-dated", "intermediate serial, revocation date after the verification time", true, true, func(resp map[string]world.Resp) {
			set(rootURL, future(pki.Root, []*big.Int{interS}))(resp)
		}, 0)
		try("revoked-future-dated", "TCB signer serial (+ near miss), revocation date after the verification time", true, true, func(resp map[string]world.Resp) {
			set(rootURL, future(pki.Root, []*big.Int{add(tcbS, 1), tcbS}))(resp)
		}, 0)
		// a forged PCK CRL that omits the revoked leaf, signed by a same-named foreign CA which is
		// also what the (unauthenticated) issuer-chain header presents
		for _, hdrRoot := range []*world.Cert{other.Root, pki.Root} {
			hdrRoot := hdrRoot
			try("forged-crl-and-header", "PCK CRL and its issuer-chain header both from a look-alike CA", true, true, func(resp map[string]world.Resp) {
				x := resp[pckURL]
				x.Body = mkCRL(crlSpec{other.Inter, unrelated(1), next})
				x.Header = map[string][]string{world.PckCrlIssuerChainHeader: {pki.IssuerChainHeader(other.Inter, hdrRoot)}}
				resp[pckURL] = x
			}, 0)
		}
		// a genuine CRL that lists the serial is served first (rejected); then a list without the
		// serial under the same issuer name carrying the genuine list's signature value, and the
		// genuine list with the entry's serial altered in place: neither is authentic
		{
			type certList struct {
				TBS asn1.RawValue
				Alg pkix.AlgorithmIdentifier
				Sig asn1.BitString
			}
			paste := func(genuine, other []byte) []byte {
				var g, o certList
				if _, err := asn1.Unmarshal(genuine, &g); err != nil {
					panic(err)
				}
				if _, err := asn1.Unmarshal(other, &o); err != nil {
					panic(err)
				}
				o.Sig, o.Alg = g.Sig, g.Alg
				out, err := asn1.Marshal(o)
				if err != nil {
					panic(err)
				}
				return out
			}
			alter := func(genuine []byte, serial *big.Int) []byte {
				out := append([]byte{}, genuine...)
				sb := serial.Bytes()
				if i := bytes.Index(out, sb); i >= 0 {
					out[i+len(sb)-1] ^= 1
				}
				return out
			}
			for _, k := range []struct {
				name   string
				url    string
				signer *world.Cert
				forger *world.Cert
				serial *big.Int
			}{{"PCK CRL / leaf", pckURL, pki.Inter, other.Inter, leafS}, {"Root CA CRL / intermediate", rootURL, pki.Root, other.Root, interS}} {
				k := k
				genuine := mkCRL(crlSpec{k.signer, append(unrelated(1), k.serial), next})
				emptied := mkCRL(crlSpec{k.forger, unrelated(1), next})
				c.Lookahead = 3 // the later cases of this group depend on the earlier ones having run
				try("pasted-signature", k.name+": the genuine list that revokes the serial", true, true, set(k.url, genuine), 0)
				c.Lookahead = 2
				try("pasted-signature", k.name+": a list without the serial carrying the genuine list's signature", true, true, set(k.url, paste(genuine, emptied)), 0)
				c.Lookahead = 1
				try("pasted-signature", k.name+": the genuine list with the revoked serial's last bit flipped", true, true, set(k.url, alter(genuine, k.serial)), 0)
				c.Lookahead = 0
				try("pasted-signature", k.name+": the genuine list again", true, true, set(k.url, genuine), 0)
			}
		}
		// near misses
		low := new(big.Int).SetBytes(leafS.Bytes()[len(leafS.Bytes())-8:])
		prefix := new(big.Int).SetBytes(leafS.Bytes()[:len(leafS.Bytes())-1])
		shifted := new(big.Int).Lsh(leafS, 8)
		try("near-miss", "leaf serial +-1, low 8 bytes, prefix, shifted; hundreds of entries", true, true,
			both(crlSpec{pki.Inter, append(unrelated(c.Scale(100, 600)), add(leafS, 1), add(leafS, -1), low, prefix, shifted), next},
				crlSpec{pki.Root, []*big.Int{add(interS, 1), add(interS, -1), add(tcbS, 1), add(tcbS, -1)}, next}), 1)
		// signers
		try("signer", "PCK CRL signed by the root CA", true, true, both(crlSpec{pki.Root, unrelated(1), next}, cleanR), 0)
		try("signer", "Root CA CRL signed by the intermediate CA", true, true, both(cleanP, crlSpec{pki.Inter, unrelated(1), next}), 0)
		try("signer", "PCK CRL signed by a same-named look-alike intermediate", true, true, both(crlSpec{other.Inter, unrelated(1), next}, cleanR), 0)
		try("signer", "Root CA CRL signed by a same-named look-alike root", true, true, both(cleanP, crlSpec{other.Root, unrelated(1), next}), 0)
		try("signer", "both CRLs swapped between endpoints", true, true, func(resp map[string]world.Resp) {
			p, q := resp[pckURL], resp[rootURL]
			p.Body, q.Body = q.Body, p.Body
			resp[pckURL], resp[rootURL] = p, q
		}, 0)
		// expiry of the CRLs themselves (C06 has the grid; here: plainly expired)
		try("expired", "PCK CRL nextUpdate in the past", true, true, both(crlSpec{pki.Inter, unrelated(1), baseTime.Add(-time.Hour)}, cleanR), 0)
		try("expired", "Root CA CRL nextUpdate in the past", true, true, both(cleanP, crlSpec{pki.Root, unrelated(1), baseTime.Add(-time.Hour)}), 0)
		// endpoint outcomes
		fail := func(url string) func(map[string]world.Resp) {
			return func(resp map[string]world.Resp) { resp[url] = world.Resp{Err: fmt.Errorf("unreachable")} }
		}
		try("endpoint", "PCK CRL endpoint fails", true, true, fail(pckURL), 0)
		try("endpoint", "PCK CRL endpoint fails, revocation off", true, false, fail(pckURL), 1)
		try("endpoint", "PCK CRL body is garbage", true, true, set(pckURL, []byte("garbage")), 0)
		try("endpoint", "PCK CRL body is empty", true, true, set(pckURL, nil), 0)
		try("endpoint", "PCK CRL body is a certificate", true, true, set(pckURL, pki.Inter.DER), 0)
		try("endpoint", "PCK CRL header missing", true, true, func(resp map[string]world.Resp) {
			x := resp[pckURL]
			x.Header = map[string][]string{}
			resp[pckURL] = x
		}, 0)
		try("endpoint", "PCK CRL header lists TCB signer chain", true, true, func(resp map[string]world.Resp) {
			x := resp[pckURL]
			x.Header = map[string][]string{world.PckCrlIssuerChainHeader: {pki.IssuerChainHeader(pki.TcbSigner, pki.Root)}}
			resp[pckURL] = x
		}, -1)
		try("endpoint", "Root CA CRL body is garbage (single / first distribution point)", true, true, set(rootURL, []byte{0x30, 0x03, 1, 2, 3}), boolInt(multi && false))
		if multi {
			good := mkCRL(cleanR)
			try("distribution-points", "first fails, second serves the CRL", true, true, func(resp map[string]world.Resp) {
				resp[dps[0]] = world.Resp{Err: fmt.Errorf("down")}
				resp[dps[1]] = world.Resp{Body: good}
			}, 1)
			try("distribution-points", "first garbage, second fails, third serves the CRL", true, true, func(resp map[string]world.Resp) {
				resp[dps[0]] = world.Resp{Body: []byte("x")}
				resp[dps[1]] = world.Resp{Err: fmt.Errorf("down")}
				resp[dps[2]] = world.Resp{Body: good}
			}, 1)
			try("distribution-points", "all three fail", true, true, func(resp map[string]world.Resp) {
				for _, d := range dps {
					resp[d] = world.Resp{Err: fmt.Errorf("down")}
				}
			}, 0)
			try("distribution-points", "first serves a CRL that revokes the intermediate, second a clean one (first wins)", true, true, func(resp map[string]world.Resp) {
				resp[dps[0]] = world.Resp{Body: mkCRL(crlSpec{pki.Root, []*big.Int{interS}, next})}
				resp[dps[1]] = world.Resp{Body: good}
			}, 0)
			try("distribution-points", "first serves a look-alike root's CRL, second the genuine one (first parse wins, then fails)", true, true, func(resp map[string]world.Resp) {
				resp[dps[0]] = world.Resp{Body: mkCRL(crlSpec{other.Root, unrelated(1), next})}
				resp[dps[1]] = world.Resp{Body: good}
			}, 0)
		} else {
			try("endpoint", "Root CA CRL endpoint fails", true, true, fail(rootURL), 0)
			try("endpoint", "Root CA CRL endpoint unknown to the getter", true, true, func(resp map[string]world.Resp) { delete(resp, rootURL) }, 0)
		}
		// a QE-identity issuer root without distribution points
		{
			noDP, _ := world.NewPKI(r, world.PKIOpts{Now: baseTime, Ext: opts.Ext, RootCRLDPs: []string{}})
			w2, err := world.BuildWorld(r, baseTime, noDP, world.DefaultQuoteFields(r))
			if err == nil {
				sc := scenarioFromWorld(w2, true, true)
				runScenario(c, "distribution-points", "issuer root has no CRL distribution point", sc, func(cl uint64, err error) string {
					if cl == 0 {
						return "accepted with revocation checking although no Root CA CRL can be located"
					}
					return ""
				}, true)
			}
		}
		_ = x509.NewCertPool
	}
}

func boolInt(b bool) int {
	if b {
		return 1
	}
	return 0
}
