package props

import (
	"bytes"
	"crypto/ecdsa"
	"crypto/elliptic"
	"crypto/sha256"
	"crypto/x509"
	"encoding/hex"
	"encoding/json"
	"encoding/pem"
	"errors"
	"fmt"
	"math/big"
	"math/rand"
	"net/url"
	"reflect"
	"sort"
	"sync"
	"time"

	"github.com/google/go-tdx-guest/pcs"
	pb "github.com/google/go-tdx-guest/proto/tdx"
	"github.com/google/go-tdx-guest/verify"
	"github.com/google/go-tdx-guest/verify/trust"

	"verifharness/core"
	"verifharness/world"
)

// Scenario is one concrete verification call: what is handed to verify.TdxQuote
// / RawTdxQuote and what the getter will answer.
type Scenario struct {
	Raw                             []byte      // used when Msg == nil && !UseMsg
	Msg                             *pb.QuoteV4 // used when UseMsg
	UseMsg                          bool
	NilOpts                         bool
	CheckRevocations, GetCollateral bool
	Now                             *verify.TimeSet
	Roots                           []*x509.Certificate // nil => embedded Intel root
	Resp                            map[string]world.Resp
	Wall                            time.Time
	Honest                          *Scenario           // the honest call for the same world, when the scenario was derived from one (history oracle)
	Extra                           []*x509.Certificate // abstracted along with the world; results in ExtraS
	ExtraS                          []core.Sexp
}

const timeOffset = int64(1) << 37

func zt(t time.Time) core.Sexp { return core.A(uint64(t.Unix() + timeOffset)) }

var embeddedRoot *x509.Certificate

func init() {
	b, err := readRepoFile("verify/trusted_root.pem")
	if err == nil {
		if blk, _ := pem.Decode(b); blk != nil {
			embeddedRoot, _ = x509.ParseCertificate(blk.Bytes)
		}
	}
}

// abstraction of a scenario into the model's world
type abstractor struct {
	certID  map[string]uint64
	certs   []*x509.Certificate
	pemTab  map[string]core.Sexp
	unesc   map[string]core.Sexp
	tcbJSON map[string]core.Sexp
	qeJSON  map[string]core.Sexp
	crlTab  map[string]core.Sexp
	hexTab  map[string]core.Sexp
	crls    map[string]*x509.RevocationList
	sigMsgs []sigMsg // (message, raw signature) pairs whose verification may be asked for
}

type sigMsg struct{ msg, sig []byte }

func newAbstractor() *abstractor {
	return &abstractor{certID: map[string]uint64{}, pemTab: map[string]core.Sexp{}, unesc: map[string]core.Sexp{},
		tcbJSON: map[string]core.Sexp{}, qeJSON: map[string]core.Sexp{}, crlTab: map[string]core.Sexp{}, hexTab: map[string]core.Sexp{},
		crls: map[string]*x509.RevocationList{}}
}

func (a *abstractor) id(c *x509.Certificate) uint64 {
	k := string(c.Raw)
	if id, ok := a.certID[k]; ok {
		return id
	}
	id := uint64(len(a.certs) + 1)
	a.certID[k] = id
	a.certs = append(a.certs, c)
	return id
}

func rawKey(c *x509.Certificate) []byte {
	if pk, ok := c.PublicKey.(*ecdsa.PublicKey); ok && pk.Curve == elliptic.P256() {
		out := make([]byte, 64)
		pk.X.FillBytes(out[:32])
		pk.Y.FillBytes(out[32:])
		return out
	}
	return nil
}

func statusCode(s pcs.TcbComponentStatus) uint64 {
	switch s {
	case pcs.TcbComponentStatusUpToDate:
		return 0
	case pcs.TcbComponentStatusSwHardeningNeeded:
		return 1
	case pcs.TcbComponentStatusConfigurationNeeded:
		return 2
	case pcs.TcbComponentStatusConfigurationAndSWHardeningNeeded:
		return 3
	case pcs.TcbComponentStatusOutOfDate:
		return 4
	case pcs.TcbComponentStatusOutOfDateConfigurationNeeded:
		return 5
	case pcs.TcbComponentStatusRevoked:
		return 6
	}
	return 6 // zero value (tcbStatus member absent): not UpToDate; the model has seven statuses, so it is given as the last one
}

func compsSexp(cs []pcs.TcbComponent) core.Sexp {
	var out []core.Sexp
	for _, c := range cs {
		out = append(out, core.A(uint64(c.Svn)))
	}
	return core.Ls(out...)
}

func levelSexp(l pcs.TcbLevel) core.Sexp {
	return core.Ls(core.Ls(compsSexp(l.Tcb.SgxTcbcomponents), core.A(uint64(l.Tcb.Pcesvn)), compsSexp(l.Tcb.TdxTcbcomponents), core.A(uint64(l.Tcb.Isvsvn))),
		core.A(statusCode(l.TcbStatus)))
}
func levelsSexp(ls []pcs.TcbLevel) core.Sexp {
	var out []core.Sexp
	for _, l := range ls {
		out = append(out, levelSexp(l))
	}
	return core.Ls(out...)
}

func tcbInfoSexp(t pcs.TcbInfo) core.Sexp {
	var mods []core.Sexp
	for _, m := range t.TdxModuleIdentities {
		mods = append(mods, core.Ls(core.Str(m.ID), levelsSexp(m.TcbLevels)))
	}
	return core.Ls(core.Str(t.ID), core.A(uint64(t.Version)), zt(t.NextUpdate), core.Str(t.Fmspc), core.Str(t.PceID),
		core.Bs(t.TdxModule.Mrsigner.Bytes), core.Bs(t.TdxModule.Attributes.Bytes), core.Bs(t.TdxModule.AttributesMask.Bytes),
		core.Ls(mods...), levelsSexp(t.TcbLevels))
}

func qeIdentitySexp(q pcs.EnclaveIdentity) core.Sexp {
	return core.Ls(core.Str(q.ID), core.A(uint64(q.Version)), zt(q.NextUpdate), core.Bs(q.Miscselect.Bytes), core.Bs(q.MiscselectMask.Bytes),
		core.Bs(q.Attributes.Bytes), core.Bs(q.AttributesMask.Bytes), core.Bs(q.Mrsigner.Bytes), core.A(uint64(q.IsvProdID)), levelsSexp(q.TcbLevels))
}

func pckExtSexp(e *pcs.PckExtensions) core.Sexp {
	var comps []core.Sexp
	for _, c := range e.TCB.CPUSvnComponents {
		comps = append(comps, core.A(uint64(c)))
	}
	return core.Ls(core.Str(e.FMSPC), core.Str(e.PCEID), core.Ls(comps...), core.A(uint64(e.TCB.PCESvn)))
}

func (a *abstractor) certSexp(c *x509.Certificate) core.Sexp {
	id := a.id(c)
	curveOK := false
	if pk, ok := c.PublicKey.(*ecdsa.PublicKey); ok && pk.Curve.Params().Name == "P-256" {
		curveOK = true
	}
	var dps []core.Sexp
	for _, d := range c.CRLDistributionPoints {
		dps = append(dps, core.Str(d))
	}
	ext := core.Ls(core.A(1))
	var e *pcs.PckExtensions
	var err error
	if p := safely(func() { e, err = pcs.PckCertificateExtensions(c) }); p == nil && err == nil {
		ext = core.Ls(core.A(0), pckExtSexp(e))
	}
	serial := []byte(c.SerialNumber.Text(16))
	return core.Ls(core.A(id), core.Bool(c.Version == 3), core.Bool(c.SignatureAlgorithm == x509.ECDSAWithSHA256),
		core.Bool(c.PublicKeyAlgorithm == x509.ECDSA), core.Bool(curveOK),
		core.Str(c.Subject.CommonName), core.Str(c.Issuer.CommonName), core.Str(c.Subject.String()), core.Str(c.Issuer.String()),
		core.Bs(c.RawSubject), core.Bs(c.RawIssuer), core.Bs(serial), zt(c.NotBefore), zt(c.NotAfter), core.Bs(rawKey(c)),
		core.Ls(dps...), ext)
}

// pemSteps runs pem.Decode up to three times over in, as the code does.
func (a *abstractor) pemSteps(in []byte) {
	if _, ok := a.pemTab[string(in)]; ok {
		return
	}
	var steps []core.Sexp
	rest := in
	for i := 0; i < 3; i++ {
		blk, rem := pem.Decode(rest)
		if blk == nil {
			steps = append(steps, core.Ls())
			break
		}
		parsed := core.Ls()
		if c, err := x509.ParseCertificate(blk.Bytes); err == nil {
			parsed = core.Ls(a.certSexp(c))
		}
		steps = append(steps, core.Ls(core.Bool(blk.Type == "CERTIFICATE"), parsed, core.Ai(len(rem)), core.Bool(bytes.Equal(rem, []byte{0}))))
		rest = rem
	}
	a.pemTab[string(in)] = core.Ls(steps...)
}

func (a *abstractor) headerValue(v string) {
	if _, ok := a.unesc[v]; ok {
		return
	}
	u, err := url.QueryUnescape(v)
	if err != nil {
		a.unesc[v] = core.Ls()
		return
	}
	a.unesc[v] = core.Ls(core.Str(u))
	a.pemSteps([]byte(u))
}

func (a *abstractor) sigString(s string) {
	if _, ok := a.hexTab[s]; ok {
		return
	}
	b, err := hex.DecodeString(s)
	if err != nil {
		a.hexTab[s] = core.Ls()
	} else {
		a.hexTab[s] = core.Ls(core.Bs(b))
	}
}

func (a *abstractor) body(b []byte) {
	k := string(b)
	if _, ok := a.tcbJSON[k]; ok {
		return
	}
	rawOf := func(name string) core.Sexp {
		var m map[string]json.RawMessage
		if len(b) == 0 || json.Unmarshal(b, &m) != nil {
			return core.Ls()
		}
		v, ok := m[name]
		if !ok {
			return core.Ls()
		}
		return core.Ls(core.Bs(v))
	}
	// TCB info view
	{
		var whole pcs.TdxTcbInfo
		wholeOK := json.Unmarshal(b, &whole) == nil
		raw := rawOf("tcbInfo")
		member := core.Ls()
		zero := false
		if len(raw.L) == 1 {
			var ti pcs.TcbInfo
			if json.Unmarshal(raw.L[0].B, &ti) == nil {
				member = core.Ls(tcbInfoSexp(ti))
				zero = reflect.DeepEqual(pcs.TdxTcbInfo{TcbInfo: ti, Signature: whole.Signature}, pcs.TdxTcbInfo{})
				if sb, err := hex.DecodeString(whole.Signature); err == nil {
					a.sigMsgs = append(a.sigMsgs, sigMsg{raw.L[0].B, sb})
				}
			}
		}
		a.sigString(whole.Signature)
		a.tcbJSON[k] = core.Ls(core.Bool(wholeOK), core.Str(whole.Signature), raw, member, core.Bool(zero))
	}
	{
		var whole pcs.QeIdentity
		wholeOK := json.Unmarshal(b, &whole) == nil
		raw := rawOf("enclaveIdentity")
		member := core.Ls()
		zero := false
		if len(raw.L) == 1 {
			var qi pcs.EnclaveIdentity
			if json.Unmarshal(raw.L[0].B, &qi) == nil {
				member = core.Ls(qeIdentitySexp(qi))
				zero = reflect.DeepEqual(pcs.QeIdentity{EnclaveIdentity: qi, Signature: whole.Signature}, pcs.QeIdentity{})
				if sb, err := hex.DecodeString(whole.Signature); err == nil {
					a.sigMsgs = append(a.sigMsgs, sigMsg{raw.L[0].B, sb})
				}
			}
		}
		a.sigString(whole.Signature)
		a.qeJSON[k] = core.Ls(core.Bool(wholeOK), core.Str(whole.Signature), raw, member, core.Bool(zero))
	}
	// CRL view
	if crl, err := x509.ParseRevocationList(b); err == nil {
		a.crls[k] = crl
	} else {
		a.crlTab[k] = core.Ls()
	}
}

func tableSexp(m map[string]core.Sexp) core.Sexp {
	keys := make([]string, 0, len(m))
	for k := range m {
		keys = append(keys, k)
	}
	sort.Strings(keys)
	var out []core.Sexp
	for _, k := range keys {
		out = append(out, core.Ls(core.Str(k), m[k]))
	}
	return core.Ls(out...)
}

func verifyRawSig(key, msg, sig []byte) bool {
	if len(key) != 64 || len(sig) != 64 {
		return false
	}
	x, y := new(big.Int).SetBytes(key[:32]), new(big.Int).SetBytes(key[32:])
	if !elliptic.P256().IsOnCurve(x, y) {
		return false
	}
	h := sha256.Sum256(msg)
	return ecdsa.Verify(&ecdsa.PublicKey{Curve: elliptic.P256(), X: x, Y: y}, h[:], new(big.Int).SetBytes(sig[:32]), new(big.Int).SetBytes(sig[32:]))
}

// independent serialisation of the signed parts of a message (only used when the
// message passes the size checks)
func msgSignedParts(q *pb.QuoteV4) (hb, bb, rb []byte) {
	h, b := q.GetHeader(), q.GetTdQuoteBody()
	hb = append(hb, le16(h.GetVersion())...)
	hb = append(hb, le16(h.GetAttestationKeyType())...)
	hb = append(hb, le32(h.GetTeeType())...)
	hb = append(hb, h.GetPceSvn()...)
	hb = append(hb, h.GetQeSvn()...)
	hb = append(hb, h.GetQeVendorId()...)
	hb = append(hb, h.GetUserData()...)
	for _, f := range [][]byte{b.GetTeeTcbSvn(), b.GetMrSeam(), b.GetMrSignerSeam(), b.GetSeamAttributes(), b.GetTdAttributes(), b.GetXfam(),
		b.GetMrTd(), b.GetMrConfigId(), b.GetMrOwner(), b.GetMrOwnerConfig()} {
		bb = append(bb, f...)
	}
	for _, r := range b.GetRtmrs() {
		bb = append(bb, r...)
	}
	bb = append(bb, b.GetReportData()...)
	r := q.GetSignedData().GetCertificationData().GetQeReportCertificationData().GetQeReport()
	rb = append(rb, r.GetCpuSvn()...)
	rb = append(rb, le32(r.GetMiscSelect())...)
	rb = append(rb, r.GetReserved1()...)
	rb = append(rb, r.GetAttributes()...)
	rb = append(rb, r.GetMrEnclave()...)
	rb = append(rb, r.GetReserved2()...)
	rb = append(rb, r.GetMrSigner()...)
	rb = append(rb, r.GetReserved3()...)
	rb = append(rb, le16(r.GetIsvProdId())...)
	rb = append(rb, le16(r.GetIsvSvn())...)
	rb = append(rb, r.GetReserved4()...)
	rb = append(rb, r.GetReportData()...)
	return
}

type quoteView struct {
	signedMsg, sig, attKey, qeReport, qeSig, auth, chain []byte
	ok                                                   bool
}

func viewOf(sc *Scenario) quoteView {
	if sc.UseMsg {
		q := sc.Msg
		if q == nil {
			return quoteView{}
		}
		qe := q.GetSignedData().GetCertificationData().GetQeReportCertificationData()
		hb, bb, rb := msgSignedParts(q)
		return quoteView{signedMsg: append(hb, bb...), sig: q.GetSignedData().GetSignature(), attKey: q.GetSignedData().GetEcdsaAttestationKey(),
			qeReport: rb, qeSig: qe.GetQeReportSignature(), auth: qe.GetQeAuthData().GetData(), chain: qe.GetPckCertificateChainData().GetPckCertChain(), ok: true}
	}
	f, ok := layout(sc.Raw)
	if !ok {
		return quoteView{}
	}
	return quoteView{signedMsg: sc.Raw[:632], sig: f.sig, attKey: f.key, qeReport: f.qeReport, qeSig: f.qeSig, auth: f.auth, chain: f.chain, ok: true}
}

func (sc *Scenario) abstract() (worldS, optS core.Sexp) {
	a := newAbstractor()
	v := viewOf(sc)
	if v.ok && len(v.chain) > 0 {
		a.pemSteps(v.chain)
	}
	fetch := map[string]core.Sexp{}
	for u, r := range sc.Resp {
		if r.Err != nil {
			fetch[u] = core.Ls()
			continue
		}
		var hs []core.Sexp
		keys := make([]string, 0, len(r.Header))
		for k := range r.Header {
			keys = append(keys, k)
		}
		sort.Strings(keys)
		for _, k := range keys {
			var vals []core.Sexp
			for _, hv := range r.Header[k] {
				vals = append(vals, core.Str(hv))
				a.headerValue(hv)
			}
			hs = append(hs, core.Ls(core.Str(k), core.Ls(vals...)))
		}
		a.body(r.Body)
		fetch[u] = core.Ls(core.Ls(core.Ls(hs...), core.Bs(r.Body)))
	}
	var rootsS core.Sexp = core.Ls()
	if sc.Roots != nil {
		var rs []core.Sexp
		for _, c := range sc.Roots {
			rs = append(rs, a.certSexp(c))
		}
		rootsS = core.Ls(core.Ls(rs...))
	}
	// further certificates the caller wants abstracted in the same id space (C19: CA bundles)
	sc.ExtraS = nil
	for _, c := range sc.Extra {
		sc.ExtraS = append(sc.ExtraS, a.certSexp(c))
	}
	emb := a.certSexp(embeddedRoot)
	// CRLs: who signed them
	for k, crl := range a.crls {
		var by []core.Sexp
		for _, c := range a.certs {
			if crl.CheckSignatureFrom(c) == nil {
				by = append(by, core.A(a.id(c)))
			}
		}
		var rev []core.Sexp
		for _, e := range crl.RevokedCertificateEntries {
			rev = append(rev, core.Str(e.SerialNumber.Text(16)))
		}
		a.crlTab[k] = core.Ls(core.Ls(core.Str(crl.Issuer.String()), zt(crl.NextUpdate), core.Ls(rev...), core.Ls(by...)))
	}
	// signature-from relation over every certificate seen
	var sf []core.Sexp
	for _, c := range a.certs {
		for _, p := range a.certs {
			if c.CheckSignatureFrom(p) == nil {
				sf = append(sf, core.Ls(core.A(a.id(c)), core.A(a.id(p))))
			}
		}
	}
	// ECDSA / SHA / curve tables
	var ec, sha, curve []core.Sexp
	seen := map[string]bool{}
	addEc := func(key, msg, sig []byte) {
		k := string(key) + "|" + string(msg) + "|" + string(sig)
		if seen[k] {
			return
		}
		seen[k] = true
		ec = append(ec, core.Ls(core.Bs(key), core.Bs(msg), core.Bs(sig), core.Bool(verifyRawSig(key, msg, sig))))
	}
	if v.ok {
		addEc(v.attKey, v.signedMsg, v.sig)
		for _, c := range a.certs {
			if k := rawKey(c); k != nil {
				addEc(k, v.qeReport, v.qeSig)
			}
		}
		d := sha256.Sum256(append(append([]byte{}, v.attKey...), v.auth...))
		sha = append(sha, core.Ls(core.Bs(append(append([]byte{}, v.attKey...), v.auth...)), core.Bs(d[:])))
		on := false
		if len(v.attKey) == 64 {
			on = elliptic.P256().IsOnCurve(new(big.Int).SetBytes(v.attKey[:32]), new(big.Int).SetBytes(v.attKey[32:]))
		}
		curve = append(curve, core.Ls(core.Bs(v.attKey), core.Bool(on)))
	}
	for _, sm := range a.sigMsgs {
		for _, c := range a.certs {
			if k := rawKey(c); k != nil {
				addEc(k, sm.msg, sm.sig)
			}
		}
	}
	worldS = core.Ls(tableSexp(fetch), tableSexp(a.pemTab), tableSexp(a.unesc), tableSexp(a.tcbJSON), tableSexp(a.qeJSON), tableSexp(a.crlTab),
		tableSexp(a.hexTab), core.Ls(ec...), core.Ls(sha...), core.Ls(curve...), core.Ls(sf...), emb)
	if sc.NilOpts {
		optS = core.Ls()
	} else {
		now := core.Ls()
		if sc.Now != nil {
			now = core.Ls(core.Ls(zt(sc.Now.PckCertChain), zt(sc.Now.TcbInfo), zt(sc.Now.QeIdentity), zt(sc.Now.PckCrl), zt(sc.Now.RootCaCrl)))
		}
		optS = core.Ls(core.Ls(core.Bool(sc.CheckRevocations), core.Bool(sc.GetCollateral), now, rootsS))
	}
	return
}

// modelInput builds the "ver" entry input.
func (sc *Scenario) modelInput() core.Sexp {
	w, o := sc.abstract()
	if sc.UseMsg {
		return core.Ls(core.A(0), w, optQuote(sc.Msg), o, zt(sc.Wall))
	}
	return core.Ls(core.A(1), w, core.Bs(sc.Raw), o, zt(sc.Wall))
}

// options builds the verify.Options for the implementation with a recording getter.
func (sc *Scenario) options() (*verify.Options, *world.Getter) {
	if sc.NilOpts {
		return nil, nil
	}
	g := &world.Getter{Resp: sc.Resp}
	o := &verify.Options{CheckRevocations: sc.CheckRevocations, GetCollateral: sc.GetCollateral, Getter: g}
	if sc.Now != nil {
		n := *sc.Now
		o.Now = &n
	}
	if sc.Roots != nil {
		pool := x509.NewCertPool()
		for _, c := range sc.Roots {
			pool.AddCert(c)
		}
		o.TrustedRoots = pool
	}
	return o, g
}

func errClass(err error, pan any) uint64 {
	switch {
	case pan != nil:
		return 2
	case err == nil:
		return 0
	}
	var crlErr verify.CRLUnavailableErr
	var crlErrP *verify.CRLUnavailableErr
	var arErr *trust.AttestationRecreationErr
	if errors.As(err, &crlErr) || errors.As(err, &crlErrP) || errors.As(err, &arErr) {
		return 8
	}
	return 1
}

// run executes the scenario against the implementation.
func (sc *Scenario) run() (obs core.Sexp, err error, pan any, opts *verify.Options) {
	o, g := sc.options()
	pan = safely(func() {
		if sc.UseMsg {
			err = verify.TdxQuote(sc.Msg, o)
		} else {
			err = verify.RawTdxQuote(sc.Raw, o)
		}
	})
	var urls []core.Sexp
	if g != nil {
		for _, u := range g.Calls {
			urls = append(urls, core.Str(u))
		}
	}
	return core.Ls(core.A(errClass(err, pan)), core.Ls(urls...)), err, pan, o
}

// ---- history independence ------------------------------------------------
//
// A verdict must not depend on what the same Options value was used for before
// (verification keeps per-call state in unexported fields of Options). priorCall
// is an honest call, with collateral and revocation checking, for a world of its
// own; runAfterPrior executes it and then the scenario on the same Options value
// with the scenario's exported fields assigned.
var priorOnce sync.Once
var priorSc *Scenario

func priorCall() *Scenario {
	priorOnce.Do(func() {
		r := rand.New(rand.NewSource(20261001)) // not the case generator's stream
		pki, err := world.NewPKI(r, world.PKIOpts{Now: baseTime, Ext: world.RandomSGXExt(r)})
		if err != nil {
			return
		}
		w, err := world.BuildWorld(r, baseTime, pki, world.DefaultQuoteFields(r))
		if err != nil {
			return
		}
		priorSc = scenarioFromWorld(w, true, true)
	})
	return priorSc
}

// runAfterPrior returns ok=false when the comparison cannot be made.
func (sc *Scenario) runAfterPrior(prior *Scenario) (cl uint64, err error, ok bool) {
	if prior == nil || sc.NilOpts {
		return 0, nil, false
	}
	o, _ := prior.options()
	var perr error
	if pan := safely(func() { perr = verify.RawTdxQuote(prior.Raw, o) }); pan != nil || perr != nil {
		return 0, nil, false
	}
	o2, _ := sc.options()
	o.CheckRevocations, o.GetCollateral, o.Getter, o.Now, o.TrustedRoots = o2.CheckRevocations, o2.GetCollateral, o2.Getter, o2.Now, o2.TrustedRoots
	pan := safely(func() {
		if sc.UseMsg {
			err = verify.TdxQuote(sc.Msg, o)
		} else {
			err = verify.RawTdxQuote(sc.Raw, o)
		}
	})
	return errClass(err, pan), err, true
}

// historyGT compares the verdict of a fresh Options value with the verdict after
// the prior call. acceptSide: report a quote accepted only after the prior call
// (the authenticity properties); otherwise report a quote rejected only after it
// (the completeness property).
func (sc *Scenario) historyGT(fresh uint64, acceptSide bool) string {
	// two histories: an honest call about another platform, and the honest call about this one
	for _, h := range []struct {
		prior *Scenario
		what  string
	}{{priorCall(), "an honest call about another platform"}, {sc.Honest, "the honest call about the same platform (genuine collateral and CRLs)"}} {
		cl, err, ok := sc.runAfterPrior(h.prior)
		if !ok || cl == fresh {
			continue
		}
		switch {
		case cl == 2:
			return "verification panicked when the Options value had been used for an earlier call"
		case acceptSide && fresh != 0 && cl == 0:
			return fmt.Sprintf("rejected (class %d) with a fresh Options value but accepted when the same Options value had first been used for %s (stale per-call state)", fresh, h.what)
		case !acceptSide && fresh == 0 && cl != 0:
			return fmt.Sprintf("accepted with a fresh Options value but rejected when the same Options value had first been used for %s: %v", h.what, err)
		}
	}
	return ""
}

// scenarioFromWorld: the honest call for a world at one of the three levels.
func scenarioFromWorld(w *world.World, getCollateral, checkCrl bool) *Scenario {
	g := w.Getter()
	now := &verify.TimeSet{PckCertChain: w.Now, TcbInfo: w.Now, QeIdentity: w.Now, PckCrl: w.Now, RootCaCrl: w.Now}
	honest := &Scenario{Raw: append([]byte{}, w.Quote.Raw...), GetCollateral: true, CheckRevocations: true, Now: now,
		Roots: []*x509.Certificate{w.PKI.Root.Cert}, Resp: cloneResp(g.Resp), Wall: w.Now}
	return &Scenario{Raw: append([]byte{}, w.Quote.Raw...), GetCollateral: getCollateral, CheckRevocations: checkCrl, Now: now,
		Roots: []*x509.Certificate{w.PKI.Root.Cert}, Resp: g.Resp, Wall: w.Now, Honest: honest}
}

func cloneResp(m map[string]world.Resp) map[string]world.Resp {
	out := map[string]world.Resp{}
	for k, v := range m {
		h := map[string][]string{}
		for hk, hv := range v.Header {
			h[hk] = append([]string{}, hv...)
		}
		out[k] = world.Resp{Header: h, Body: append([]byte{}, v.Body...), Err: v.Err}
	}
	return out
}
