package props

import (
	"bytes"
	"crypto"
	"crypto/sha512"
	"encoding/binary"
	"errors"
	"fmt"
	"io/fs"
	"math"
	"os"
	"path"
	"strconv"
	"strings"
	"time"

	"github.com/google/go-tdx-guest/rtmr"

	"verifharness/core"
)

// ---- model TSM: a configfsi.Client that records every operation ---------------

type tsmEntry struct {
	name  uint64
	index *uint64 // parsed content of the index file; nil = unreadable / unparsable
	raw   []byte  // content of the index file
	reg   []byte
}

type modelTSM struct {
	entries []*tsmEntry
	ops     []core.Sexp
	next    uint64
	shaTab  map[string][]byte
	// onReadDir, when set, runs once inside the next ReadDir (another request overlapping this one)
	onReadDir func()
}

const rtmrRoot = "/sys/kernel/config/tsm/rtmrs"

func entryName(n uint64) string { return fmt.Sprintf("e%06d", n) }

func (t *modelTSM) symHash(x []byte) []byte {
	if d, ok := t.shaTab[string(x)]; ok {
		return d
	}
	out := []byte{0xff}
	out = binary.LittleEndian.AppendUint32(out, uint32(len(x)))
	return append(out, x...)
}

func (t *modelTSM) find(name string) *tsmEntry {
	for _, e := range t.entries {
		if entryName(e.name) == name {
			return e
		}
	}
	return nil
}

type dirEnt struct{ name string }

func (d dirEnt) Name() string               { return d.name }
func (d dirEnt) IsDir() bool                { return true }
func (d dirEnt) Type() fs.FileMode          { return fs.ModeDir }
func (d dirEnt) Info() (fs.FileInfo, error) { return nil, errors.New("n/a") }

func (t *modelTSM) ReadDir(dirname string) ([]os.DirEntry, error) {
	if dirname != rtmrRoot {
		return nil, fmt.Errorf("unexpected ReadDir %q", dirname)
	}
	t.ops = append(t.ops, core.Ls(core.A(0)))
	if f := t.onReadDir; f != nil {
		t.onReadDir = nil
		f()
	}
	var out []os.DirEntry
	for _, e := range t.entries {
		out = append(out, dirEnt{entryName(e.name)})
	}
	return out, nil
}

func (t *modelTSM) ReadFile(name string) ([]byte, error) {
	dir, attr := path.Split(name)
	e := t.find(path.Base(dir))
	if e == nil || path.Dir(path.Clean(dir)) != rtmrRoot {
		return nil, fmt.Errorf("unexpected ReadFile %q", name)
	}
	switch attr {
	case "index":
		t.ops = append(t.ops, core.Ls(core.A(1), core.A(e.name)))
		if e.raw == nil {
			return nil, errors.New("unreadable")
		}
		return e.raw, nil
	case "digest":
		return e.reg, nil
	}
	return nil, fmt.Errorf("unexpected ReadFile %q", name)
}

func (t *modelTSM) MkdirTemp(dir, pattern string) (string, error) {
	if dir != rtmrRoot || !strings.HasPrefix(pattern, "rtmr") || !strings.HasSuffix(pattern, "-") {
		return "", fmt.Errorf("unexpected MkdirTemp %q %q", dir, pattern)
	}
	idx, err := strconv.ParseUint(strings.TrimSuffix(strings.TrimPrefix(pattern, "rtmr"), "-"), 10, 64)
	if err != nil {
		return "", err
	}
	t.ops = append(t.ops, core.Ls(core.A(2), core.A(idx)))
	var max uint64
	for _, e := range t.entries {
		if e.name > max {
			max = e.name
		}
	}
	e := &tsmEntry{name: max + 1, reg: make([]byte, 48)}
	t.entries = append(t.entries, e)
	return path.Join(dir, entryName(e.name)), nil
}

func (t *modelTSM) WriteFile(name string, contents []byte) error {
	dir, attr := path.Split(name)
	e := t.find(path.Base(dir))
	if e == nil {
		return fmt.Errorf("unexpected WriteFile %q", name)
	}
	switch attr {
	case "index":
		v, err := strconv.ParseUint(string(contents), 10, 64)
		if err != nil {
			return err
		}
		t.ops = append(t.ops, core.Ls(core.A(3), core.A(e.name), core.A(v)))
		e.raw, e.index = append([]byte{}, contents...), &v
		return nil
	case "digest":
		t.ops = append(t.ops, core.Ls(core.A(4), core.A(e.name), core.Bs(append([]byte{}, contents...))))
		e.reg = t.symHash(append(append([]byte{}, e.reg...), contents...))
		return nil
	}
	return fmt.Errorf("unexpected WriteFile %q", name)
}

func (t *modelTSM) RemoveAll(string) error { return errors.New("not supported") }

func (t *modelTSM) sexp() core.Sexp {
	var out []core.Sexp
	for _, e := range t.entries {
		idx := core.Ls()
		if e.index != nil {
			idx = core.Ls(core.A(*e.index))
		}
		out = append(out, core.Ls(core.A(e.name), idx, core.Bs(e.reg)))
	}
	return core.Ls(out...)
}

const idxOffset = uint64(1) << 63

type rtmrReq struct {
	kind   int // 0 digest, 1 event log
	idx    int
	digest []byte
	algo   crypto.Hash
	log    []byte
}

func (q rtmrReq) sexp() core.Sexp {
	idx := core.A(uint64(int64(q.idx)) + idxOffset)
	if q.kind == 0 {
		return core.Ls(core.A(0), idx, core.Bs(q.digest))
	}
	return core.Ls(core.A(1), idx, core.Bool(q.algo == crypto.SHA384), core.Bs(q.log))
}

func (q rtmrReq) String() string {
	if q.kind == 0 {
		return fmt.Sprintf("digest(idx=%d,len=%d)", q.idx, len(q.digest))
	}
	return fmt.Sprintf("log(idx=%d,algo=%v,len=%d)", q.idx, q.algo, len(q.log))
}

func C17(c *core.Ctx) {
	c.Rule = "requests over the alphabet index in {-1..5, MinInt, MaxInt, and values congruent to 0..3 modulo 2^8, 2^16, 2^32} x digest lengths {0,1,32,47,48,49,64} / event logs {empty, 1 byte, 100 bytes} x hash algorithms {SHA-384, SHA-256, SHA-512, SHA-1, 0}; every single request on empty and pre-populated TSMs (entries bound to other indices, unreadable / unparsable index files, an existing entry for the index, newline-terminated index), pairs of overlapping requests (the second runs to completion inside the first one's directory listing), and sequences of up to k requests (k = 6 quick, 10 thorough) against a model TSM client that records ReadDir / ReadFile index / MkdirTemp / WriteFile index / WriteFile digest and implements register extension. Ground truth: rejected requests perform no operation; accepted ones exactly one digest write of the exact digest on the entry bound to the index (re-used when it exists); registers equal the extend chain of the accepted digests per index in call order. non-trivial = history with at least one accepted request; distinct = distinct (initial TSM, request sequence)"
	r := c.Rng
	indices := []int{-1, 0, 1, 2, 3, 4, 5, math.MinInt, math.MaxInt, 255, 256, 257, 259, 260, -253, -256, 1 << 32, 1<<32 + 2, 1<<16 + 3, -(1 << 32) + 1}
	dlens := []int{0, 1, 32, 47, 48, 49, 64}
	algos := []crypto.Hash{crypto.SHA384, crypto.SHA256, crypto.SHA512, crypto.SHA1, 0}
	randReq := func() rtmrReq {
		if r.Intn(3) == 0 {
			logs := [][]byte{nil, {}, {7}, core.RandBytes(r, 100)}
			a := crypto.SHA384
			if r.Intn(4) == 0 {
				a = algos[r.Intn(len(algos))]
			}
			return rtmrReq{kind: 1, idx: indices[r.Intn(len(indices))], algo: a, log: logs[r.Intn(len(logs))]}
		}
		dl := 48
		if r.Intn(4) == 0 {
			dl = dlens[r.Intn(len(dlens))]
		}
		idx := r.Intn(4)
		if r.Intn(4) == 0 {
			idx = indices[r.Intn(len(indices))]
		}
		return rtmrReq{kind: 0, idx: idx, digest: core.RandBytes(r, dl)}
	}
	u := func(v uint64) *uint64 { return &v }
	initials := []func() []*tsmEntry{
		func() []*tsmEntry { return nil },
		func() []*tsmEntry {
			return []*tsmEntry{{name: 3, index: u(2), raw: []byte("2\n"), reg: core.RandBytes(r, 48)}, {name: 9, index: u(0), raw: []byte("0"), reg: make([]byte, 48)}}
		},
		func() []*tsmEntry {
			return []*tsmEntry{{name: 1, raw: nil, reg: make([]byte, 48)}, {name: 2, raw: []byte("x"), reg: make([]byte, 48)}, {name: 5, index: u(7), raw: []byte("7"), reg: make([]byte, 48)},
				{name: 6, index: u(1), raw: []byte("1"), reg: core.RandBytes(r, 48)}}
		},
		func() []*tsmEntry {
			return []*tsmEntry{{name: 4, index: u(3), raw: []byte("3"), reg: make([]byte, 48)}, {name: 8, index: u(3), raw: []byte("003"), reg: core.RandBytes(r, 48)}}
		},
	}
	runHist := func(class string, init []*tsmEntry, reqs []rtmrReq) {
		if !c.Wanted() {
			c.Add(&core.Case{Class: class, SkipModel: true, Impl: core.Ls()})
			return
		}
		t := &modelTSM{entries: init, shaTab: map[string][]byte{}}
		var shaS []core.Sexp
		for _, q := range reqs {
			if q.kind == 1 {
				d := sha512.Sum384(q.log)
				if _, ok := t.shaTab[string(q.log)]; !ok {
					t.shaTab[string(q.log)] = d[:]
					shaS = append(shaS, core.Ls(core.Bs(q.log), core.Bs(d[:])))
				}
			}
		}
		initS := t.sexp()
		// expected registers (ground truth): symbolic extend chain per index
		type regState struct{ reg []byte }
		expect := map[uint64][]byte{}
		for _, e := range init {
			if e.index != nil {
				if _, ok := expect[*e.index]; !ok {
					expect[*e.index] = append([]byte{}, e.reg...)
				}
			}
		}
		var outs []core.Sexp
		var reqS []core.Sexp
		gt := ""
		desc := ""
		accepted := 0
		for _, q := range reqs {
			reqS = append(reqS, q.sexp())
			desc += q.String() + " "
			before := len(t.ops)
			var err error
			done := make(chan any, 1)
			go func() {
				defer func() { done <- recover() }()
				if q.kind == 0 {
					err = rtmr.ExtendDigestClient(t, q.idx, q.digest)
				} else {
					err = rtmr.ExtendEventLogClient(t, q.idx, q.algo, q.log)
				}
			}()
			var pan any
			select {
			case pan = <-done:
			case <-time.After(10 * time.Second):
				pan = "timeout"
			}
			ops := t.ops[before:]
			outs = append(outs, core.Ls(core.Bool(err != nil), core.Ls(ops...)))
			// ground truth for this request
			valid, digest := false, []byte(nil)
			if q.kind == 0 {
				valid, digest = q.idx >= 0 && q.idx <= 3 && len(q.digest) == 48, q.digest
			} else {
				valid = q.algo == crypto.SHA384 && len(q.log) > 0 && q.idx >= 0 && q.idx <= 3
				d := sha512.Sum384(q.log)
				digest = d[:]
			}
			var writes []core.Sexp
			for _, o := range ops {
				if o.Nth(0).N == 4 {
					writes = append(writes, o)
				}
			}
			switch {
			case pan != nil:
				gt = fmt.Sprintf("%s panicked / hung: %v", q, pan)
			case !valid && err == nil:
				gt = fmt.Sprintf("invalid request %s succeeded", q)
			case !valid && len(ops) != 0:
				gt = fmt.Sprintf("invalid request %s touched the TSM interface (%d operations)", q, len(ops))
			case valid && err != nil:
				gt = fmt.Sprintf("valid request %s failed: %v", q, err)
			case valid && (len(writes) != 1 || !bytes.Equal(writes[0].Nth(2).B, digest)):
				gt = fmt.Sprintf("valid request %s: expected exactly one write of the given digest, saw %d", q, len(writes))
			}
			if valid && gt == "" {
				accepted++
				e := t.findByName(writes[0].Nth(1).N)
				if e == nil || e.index == nil || *e.index != uint64(q.idx) {
					gt = fmt.Sprintf("%s: digest written to an entry not bound to index %d", q, q.idx)
				}
				prev, ok := expect[uint64(q.idx)]
				if !ok {
					prev = make([]byte, 48)
				}
				expect[uint64(q.idx)] = t.symHash(append(append([]byte{}, prev...), digest...))
			}
			if gt != "" {
				break
			}
		}
		if gt == "" {
			for idx, want := range expect {
				var got []byte
				for _, e := range t.entries {
					if e.index != nil && *e.index == idx {
						got = e.reg
						break
					}
				}
				if !bytes.Equal(got, want) {
					gt = fmt.Sprintf("register %d is not the extend chain of the accepted digests", idx)
				}
			}
		}
		c.Count("history-length", fmt.Sprintf("%d", len(reqs)))
		c.Add(&core.Case{Class: class, Desc: desc, Entry: "rtmr", Input: core.Ls(core.Ls(shaS...), initS, core.Ls(reqS...)),
			Impl: core.Ls(core.Ls(outs...), t.sexp()), GT: gt, NonTrivial: accepted > 0})
	}
	// every single request of the alphabet on every initial TSM
	for ii, mk := range initials {
		for _, idx := range indices {
			for _, dl := range dlens {
				runHist(fmt.Sprintf("single-digest/init%d", ii), mk(), []rtmrReq{{kind: 0, idx: idx, digest: core.RandBytes(r, dl)}})
			}
			for _, a := range algos {
				for _, l := range [][]byte{nil, {1}, core.RandBytes(r, 100)} {
					runHist(fmt.Sprintf("single-eventlog/init%d", ii), mk(), []rtmrReq{{kind: 1, idx: idx, algo: a, log: l}})
				}
			}
		}
	}
	// two requests that overlap: the second runs to completion while the first is inside its
	// directory listing (each must still extend exactly its own digest on its own register)
	for i := 0; i < c.Scale(6, 60); i++ {
		if !c.Wanted() {
			c.Add(&core.Case{Class: "overlap", SkipModel: true, Impl: core.Ls()})
			continue
		}
		i1, i2 := int(r.Intn(4)), int(r.Intn(4))
		log1, log2 := core.RandBytes(r, 1+r.Intn(200)), core.RandBytes(r, 1+r.Intn(200))
		useDigest2 := i%3 == 2
		t := &modelTSM{shaTab: map[string][]byte{}}
		var e1, e2 error
		d1, d2 := sha512.Sum384(log1), sha512.Sum384(log2)
		// the second request runs on a goroutine of its own while the first one is held inside its
		// directory listing; if it has not finished within 300 ms (an implementation may serialise
		// requests with a lock) the first one carries on and the second is waited for afterwards
		done2 := make(chan struct{})
		t.onReadDir = func() {
			go func() {
				defer close(done2)
				if p := safely(func() {
					if useDigest2 {
						e2 = rtmr.ExtendDigestClient(t, i2, d2[:])
					} else {
						e2 = rtmr.ExtendEventLogClient(t, i2, crypto.SHA384, log2)
					}
				}); p != nil {
					e2 = fmt.Errorf("panic: %v", p)
				}
			}()
			select {
			case <-done2:
			case <-time.After(300 * time.Millisecond):
			}
		}
		pan := safely(func() { e1 = rtmr.ExtendEventLogClient(t, i1, crypto.SHA384, log1) })
		hung := false
		select {
		case <-done2:
		case <-time.After(5 * time.Second):
			hung = true
		}
		gt := ""
		var writes [][]byte
		for _, op := range t.ops {
			if op.Nth(0).N == 4 {
				writes = append(writes, op.Nth(2).B)
			}
		}
		own := func(w []byte) bool { return bytes.Equal(w, d1[:]) || bytes.Equal(w, d2[:]) }
		switch {
		case pan != nil:
			gt = fmt.Sprintf("overlapping extend requests panicked: %v", pan)
		case hung:
			gt = "the overlapping request did not return within 5 s of the first one finishing"
		case e1 != nil || e2 != nil:
			gt = fmt.Sprintf("valid overlapping requests failed: %v / %v", e1, e2)
		case len(writes) != 2 || !own(writes[0]) || !own(writes[1]) || (bytes.Equal(writes[0], writes[1]) && !bytes.Equal(d1[:], d2[:])):
			gt = fmt.Sprintf("two overlapping valid requests (RTMR %d and %d): expected one write of each request's own SHA-384 digest, saw %d writes (the first request wrote %x..., its log hashes to %x...)", i1, i2, len(writes), firstN(lastOf(writes), 6), d1[:6])
		}
		c.Add(&core.Case{Class: "overlap", Desc: fmt.Sprintf("event log for RTMR %d overlapped by a request for RTMR %d", i1, i2), SkipModel: true, Impl: core.Ls(), GT: gt, NonTrivial: true})
	}
	k := c.Scale(6, 10)
	for i := 0; i < c.Scale(400, 10000); i++ {
		n := 2 + r.Intn(k-1)
		var reqs []rtmrReq
		for j := 0; j < n; j++ {
			reqs = append(reqs, randReq())
		}
		runHist("history", initials[r.Intn(len(initials))](), reqs)
	}
}

func (t *modelTSM) findByName(n uint64) *tsmEntry {
	for _, e := range t.entries {
		if e.name == n {
			return e
		}
	}
	return nil
}

func lastOf(w [][]byte) []byte {
	if len(w) == 0 {
		return nil
	}
	return w[len(w)-1]
}

func firstN(b []byte, n int) []byte {
	if len(b) < n {
		return b
	}
	return b[:n]
}
