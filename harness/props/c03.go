package props

import (
	"bytes"
	"encoding/hex"
	"encoding/json"
	"encoding/pem"
	"fmt"
	"net/url"
	"strings"
	"time"

	"verifharness/core"
	"verifharness/world"
)

// c03 ground truth: with collateral checking on, an accepted quote means that the
// signed "tcbInfo" / "enclaveIdentity" members (exact key, as signed) verify under
// the signature member with the genuine TCB signer and describe an acceptable
// platform; the harness knows whether the *signed* documents are acceptable.
type c03Truth struct {
	signedOK     bool // the signed members + signature + issuer chain are authentic and acceptable
	untouchedRaw bool // the exact-key members and signatures are byte-identical to the genuine ones
}

func C03(c *core.Ctx) {
	c.Rule = "collateral responses for an otherwise valid quote: genuine; single-bit mutants of the signed member, of the signature and of the issuer-chain header (sampled); re-signing with a foreign key, with the PCK intermediate (wrong role), with a look-alike TCB signer (both responses, and one response only with the other genuine), with look-alike PKIs whose signer / root are not yet valid or expired at the verification time; re-encoding (whitespace / key order) without re-signing; signature over the whole body; unsigned extra and duplicate members under exact, upper-case, title-case and Unicode-fold spellings of tcbInfo / enclaveIdentity / signature, placed before and after the genuine member, carrying values that would flip the verdict; wrong id / version; empty level list; missing members; missing / duplicated / empty / garbage headers; getter errors. Ground truth: accepted iff the signed content is authentic and acceptable; unsigned content never changes a rejection into an acceptance. non-trivial = the response parses as JSON (reaches authentication); distinct = distinct response sets"
	r := c.Rng
	pki, err := world.NewPKI(r, world.PKIOpts{Now: baseTime, Ext: world.RandomSGXExt(r)})
	if err != nil {
		panic(err)
	}
	other, _ := world.NewPKI(r, world.PKIOpts{Now: baseTime, Ext: pki.Opts.Ext})
	mkWorld := func() *world.World {
		w, err := world.BuildWorld(r, baseTime, pki, world.DefaultQuoteFields(r))
		if err != nil {
			panic(err)
		}
		return w
	}
	caseNo := 0
	// run one response set; want = what the property demands (true accept, false reject)
	try := func(w *world.World, class, desc string, mut func(resp map[string]world.Resp, tcbURL, qeURL string), want bool) {
		caseNo++
		crl := caseNo%3 == 0
		sc := scenarioFromWorld(w, true, crl)
		sc.Resp = cloneResp(sc.Resp)
		tcbURL, qeURL, _, _ := w.URLs()
		if mut != nil {
			mut(sc.Resp, tcbURL, qeURL)
		}
		var probe map[string]json.RawMessage
		nt := json.Unmarshal(sc.Resp[tcbURL].Body, &probe) == nil
		runScenario(c, class, desc, sc, func(cl uint64, err error) string {
			switch {
			case want && cl != 0:
				return "authentic, acceptable collateral rejected: " + err.Error()
			case !want && cl == 0:
				return "accepted although the signed collateral is not authentic / not acceptable (unsigned or altered content drove the verdict)"
			}
			return ""
		}, nt)
	}
	setBody := func(url string, body []byte) func(map[string]world.Resp, string, string) {
		return func(resp map[string]world.Resp, _, _ string) {
			x := resp[url]
			x.Body = body
			resp[url] = x
		}
	}
	w := mkWorld()
	tcbURL, qeURL, _, _ := w.URLs()
	try(w, "genuine", "genuine responses", nil, true)

	// ---- bit flips (sampled) in body and header ----
	// semantic content of a response: exact-key member bytes, decoded signature, DER of the header chain
	semantic := func(x world.Resp, member, hdrKey string) string {
		var m map[string]json.RawMessage
		if json.Unmarshal(x.Body, &m) != nil {
			return "unparsable"
		}
		// the signature is not signed content: it is read the way encoding/json reads a struct field,
		// i.e. under any letter case of its key ("Signature" names the same field)
		var sv struct {
			Signature string `json:"signature"`
		}
		if json.Unmarshal(x.Body, &sv) != nil {
			return "unparsable"
		}
		sig := sv.Signature
		sb, err := hex.DecodeString(sig)
		if err != nil {
			return "unparsable"
		}
		out := string(m[member]) + "|" + string(sb) + "|"
		hv := x.Header[hdrKey]
		if len(hv) != 1 {
			return "unparsable"
		}
		u, err := url.QueryUnescape(hv[0])
		if err != nil {
			return "unparsable"
		}
		rest := []byte(u)
		for i := 0; i < 2; i++ {
			var blk *pem.Block
			blk, rest = pem.Decode(rest)
			if blk == nil || blk.Type != "CERTIFICATE" {
				return "unparsable"
			}
			out += string(blk.Bytes) + "|"
		}
		if len(rest) != 0 {
			return "unparsable"
		}
		return out
	}
	flipSample := func(class string, url string, isHeader bool, hdrKey, member, hk string) {
		var src []byte
		genuine := w.Getter().Resp[url]
		if isHeader {
			src = []byte(genuine.Header[hdrKey][0])
		} else {
			src = genuine.Body
		}
		nbits := len(src) * 8
		step := nbits/c.Scale(40, 600) + 1
		for b := r.Intn(step); b < nbits; b += step {
			b := b
			m := append([]byte{}, src...)
			m[b/8] ^= 1 << uint(b%8)
			mutated := world.Resp{Header: map[string][]string{hk: genuine.Header[hk]}, Body: genuine.Body}
			if isHeader {
				mutated.Header = map[string][]string{hdrKey: {string(m)}}
			} else {
				mutated.Body = m
			}
			// a flip that leaves the signed member, the decoded signature and the certificates
			// unchanged (hex / percent-escape letter case) is not an alteration of them
			benign := semantic(mutated, member, hk) == semantic(genuine, member, hk)
			try(w, class, fmt.Sprintf("bit %d flipped (benign=%v)", b, benign), func(resp map[string]world.Resp, _, _ string) {
				x := resp[url]
				if isHeader {
					x.Header[hdrKey] = []string{string(m)}
				} else {
					x.Body = m
				}
				resp[url] = x
			}, benign)
		}
	}
	flipSample("bitflip-tcbinfo-body", tcbURL, false, "", "tcbInfo", world.TcbInfoIssuerChainHeader)
	flipSample("bitflip-qeidentity-body", qeURL, false, "", "enclaveIdentity", world.QeIdentityIssuerChainHeader)
	flipSample("bitflip-tcbinfo-header", tcbURL, true, world.TcbInfoIssuerChainHeader, "tcbInfo", world.TcbInfoIssuerChainHeader)
	flipSample("bitflip-qeidentity-header", qeURL, true, world.QeIdentityIssuerChainHeader, "enclaveIdentity", world.QeIdentityIssuerChainHeader)

	// ---- re-signing with wrong keys / chains ----
	ti, qi := w.TcbInfo.JSON(), w.QeIdentity.JSON()
	resign := func(desc string, signer *world.Cert, chainSigner, chainRoot *world.Cert, want bool) {
		try(w, "resign", desc, func(resp map[string]world.Resp, t, q string) {
			hdr := pki.IssuerChainHeader(chainSigner, chainRoot)
			resp[t] = world.Resp{Header: map[string][]string{world.TcbInfoIssuerChainHeader: {hdr}}, Body: world.Envelope("tcbInfo", ti, world.SignMember(r, signer.Key, ti))}
			resp[q] = world.Resp{Header: map[string][]string{world.QeIdentityIssuerChainHeader: {hdr}}, Body: world.Envelope("enclaveIdentity", qi, world.SignMember(r, signer.Key, qi))}
		}, want)
	}
	resign("re-signed by the genuine TCB signer (control)", pki.TcbSigner, pki.TcbSigner, pki.Root, true)
	foreign := &world.Cert{Key: world.NewKey(r)}
	resign("signed by a foreign key, genuine issuer chain", foreign, pki.TcbSigner, pki.Root, false)
	resign("signed by the PCK intermediate CA, which is also presented as signer", pki.Inter, pki.Inter, pki.Root, false)
	resign("signed by the PCK leaf, presented as signer", pki.Leaf, pki.Leaf, pki.Root, false)
	resign("signed by a look-alike TCB signer under a look-alike root", other.TcbSigner, other.TcbSigner, other.Root, false)
	resign("signed by a look-alike TCB signer, header claims the genuine root", other.TcbSigner, other.TcbSigner, pki.Root, false)
	resign("signed by the genuine signer, header lists signer under look-alike root", pki.TcbSigner, pki.TcbSigner, other.Root, false)
	resign("header lists root as signer", pki.TcbSigner, pki.Root, pki.Root, false)
	// one response altered, the other genuine: each response is authenticated by the issuer chain
	// delivered with it, not by the other response's
	for _, which := range []string{"tcb", "qe"} {
		which := which
		oneHdr := func(desc string, signer, chainSigner, chainRoot *world.Cert, resignBody bool, want bool) {
			try(w, "resign-one", which+": "+desc, func(resp map[string]world.Resp, t, q string) {
				hdr := pki.IssuerChainHeader(chainSigner, chainRoot)
				if which == "tcb" {
					x := resp[t]
					x.Header = map[string][]string{world.TcbInfoIssuerChainHeader: {hdr}}
					if resignBody {
						x.Body = world.Envelope("tcbInfo", ti, world.SignMember(r, signer.Key, ti))
					}
					resp[t] = x
				} else {
					x := resp[q]
					x.Header = map[string][]string{world.QeIdentityIssuerChainHeader: {hdr}}
					if resignBody {
						x.Body = world.Envelope("enclaveIdentity", qi, world.SignMember(r, signer.Key, qi))
					}
					resp[q] = x
				}
			}, want)
		}
		oneHdr("genuine body and signer, header root replaced by a look-alike root", pki.TcbSigner, pki.TcbSigner, other.Root, false, false)
		oneHdr("genuine body, header signer replaced by a look-alike signer", pki.TcbSigner, other.TcbSigner, pki.Root, false, false)
		oneHdr("re-signed by a look-alike PKI with its own header", other.TcbSigner, other.TcbSigner, other.Root, true, false)
		oneHdr("re-signed by a look-alike signer, header claims the genuine root", other.TcbSigner, other.TcbSigner, pki.Root, true, false)
		oneHdr("re-signed by the genuine signer (control)", pki.TcbSigner, pki.TcbSigner, pki.Root, true, true)
	}
	// look-alike PKIs whose certificates are outside their validity period at the verification
	// time: a path-building error about dates must not be mistaken for "trust established"
	day := 24 * time.Hour
	for _, v := range []struct {
		name string
		win  map[string][2]time.Time
	}{
		{"signer not yet valid", map[string][2]time.Time{"tcbsigner": {baseTime.Add(time.Second), baseTime.Add(365 * day)}}},
		{"signer not yet valid (a year ahead)", map[string][2]time.Time{"tcbsigner": {baseTime.Add(365 * day), baseTime.Add(730 * day)}}},
		{"signer expired", map[string][2]time.Time{"tcbsigner": {baseTime.Add(-365 * day), baseTime.Add(-time.Second)}}},
		{"root not yet valid", map[string][2]time.Time{"root": {baseTime.Add(time.Hour), baseTime.Add(365 * day)}}},
		{"root expired", map[string][2]time.Time{"root": {baseTime.Add(-365 * day), baseTime.Add(-time.Hour)}}},
		{"signer and root not yet valid", map[string][2]time.Time{"tcbsigner": {baseTime.Add(day), baseTime.Add(365 * day)}, "root": {baseTime.Add(day), baseTime.Add(365 * day)}}},
	} {
		o, err := world.NewPKI(r, world.PKIOpts{Now: baseTime, Ext: pki.Opts.Ext, Windows: v.win})
		if err != nil {
			panic(err)
		}
		resign("look-alike PKI, "+v.name+", under its own root", o.TcbSigner, o.TcbSigner, o.Root, false)
		resign("look-alike PKI, "+v.name+", header claims the genuine root", o.TcbSigner, o.TcbSigner, pki.Root, false)
	}

	// ---- re-encoding without re-signing ----
	try(w, "re-encode", "whitespace inserted inside the signed member", func(resp map[string]world.Resp, t, _ string) {
		b := resp[t].Body
		i := bytes.Index(b, []byte(`"tcbInfo":{`)) + len(`"tcbInfo":{`)
		nb := append(append(append([]byte{}, b[:i]...), ' '), b[i:]...)
		setBody(t, nb)(resp, "", "")
	}, false)
	try(w, "re-encode", "whitespace outside the signed member (allowed)", func(resp map[string]world.Resp, t, _ string) {
		b := resp[t].Body
		nb := append([]byte(" \n"), b...)
		nb = bytes.Replace(nb, []byte(`,"signature"`), []byte(` , "signature"`), 1)
		setBody(t, nb)(resp, "", "")
	}, true)
	try(w, "re-encode", "member order swapped: signature first (allowed)", func(resp map[string]world.Resp, t, _ string) {
		var m map[string]json.RawMessage
		_ = json.Unmarshal(resp[t].Body, &m)
		nb := []byte(`{"signature":` + string(m["signature"]) + `,"tcbInfo":` + string(m["tcbInfo"]) + `}`)
		setBody(t, nb)(resp, "", "")
	}, true)
	try(w, "re-encode", "signature computed over the whole body", func(resp map[string]world.Resp, t, _ string) {
		body := world.Envelope("tcbInfo", ti, strings.Repeat("00", 64))
		sig := world.SignMember(r, pki.TcbSigner.Key, body)
		setBody(t, world.Envelope("tcbInfo", ti, sig))(resp, "", "")
	}, false)
	try(w, "re-encode", "signature upper-case hex (allowed)", func(resp map[string]world.Resp, t, _ string) {
		var m map[string]json.RawMessage
		_ = json.Unmarshal(resp[t].Body, &m)
		setBody(t, world.Envelope("tcbInfo", ti, strings.ToUpper(strings.Trim(string(m["signature"]), `"`))))(resp, "", "")
	}, true)

	// ---- unsigned extra / duplicate members ----
	// bad world: the *signed* TCB info says OutOfDate (must be rejected); an unsigned member says UpToDate
	bad := mkWorld()
	goodLevels := bad.TcbInfo.Levels
	bad.TcbInfo.Levels = append([]world.TcbLevel{}, goodLevels...)
	for i := range bad.TcbInfo.Levels {
		bad.TcbInfo.Levels[i].Status = "OutOfDate"
	}
	bad.Seal(r)
	try(bad, "unsigned-member", "control: signed TCB info says OutOfDate", nil, false)
	goodDoc := bad.TcbInfo
	goodDoc.Levels = goodLevels
	goodTI := goodDoc.JSON() // unsigned, acceptable
	// levels-only fragment (merges field-wise in a struct decode)
	var frag struct {
		TcbLevels json.RawMessage `json:"tcbLevels"`
	}
	_ = json.Unmarshal(goodTI, &frag)
	levelsOnly := []byte(`{"tcbLevels":` + string(frag.TcbLevels) + `}`)
	spellings := []string{"tcbInfo", "TCBINFO", "TcbInfo", "tcbinfo", "tcbInfo", "TCBInfo", "tcbıNFO"}
	inject := func(body []byte, key string, val []byte, before bool) []byte {
		member := []byte(`"` + key + `":` + string(val))
		if before {
			return append(append([]byte(`{`), append(member, ',')...), body[1:]...)
		}
		return append(append(append([]byte{}, body[:len(body)-1]...), ','), append(member, '}')...)
	}
	for _, key := range spellings {
		for _, before := range []bool{false, true} {
			for vi, val := range [][]byte{goodTI, levelsOnly} {
				key, before, val := key, before, val
				pos := "after"
				if before {
					pos = "before"
				}
				// an exact-key duplicate *after* the signed one replaces the raw member too: the signature
				// then no longer verifies; either way the verdict must remain a rejection
				try(bad, "unsigned-member", fmt.Sprintf("unsigned %q (%s, variant %d) %s the signed OutOfDate member", key, []string{"full document", "levels only"}[vi], vi, pos),
					func(resp map[string]world.Resp, t, _ string) {
						setBody(t, inject(resp[t].Body, key, val, before))(resp, "", "")
					}, false)
			}
		}
	}
	// the same with the genuine (acceptable) world: unsigned OutOfDate content may at most cause rejection;
	// what matters is that unsigned *good* content never rescues; here we only require no crash and agreement
	for _, key := range []string{"TCBINFO", "Tcbinfo", "extra", "tcbInfo2"} {
		key := key
		try(w, "unsigned-member", fmt.Sprintf("unrelated / variant member %q with an empty object after the genuine member", key), func(resp map[string]world.Resp, t, _ string) {
			setBody(t, inject(resp[t].Body, key, []byte(`{}`), false))(resp, "", "")
		}, true)
	}
	// signature spellings: an unsigned second signature member
	for _, key := range []string{"SIGNATURE", "Signature", "ſignature", "signature"} {
		for _, before := range []bool{false, true} {
			key, before := key, before
			want := true
			if key == "signature" && !before {
				want = false // exact duplicate after: last wins everywhere, the bogus signature is the signature
			}
			// a case-variant after the genuine one overwrites the decoded Signature field: at most a rejection
			if key != "signature" && !before {
				want = false
			}
			try(w, "unsigned-signature", fmt.Sprintf("extra %q member (bogus value) before=%v", key, before), func(resp map[string]world.Resp, t, _ string) {
				setBody(t, inject(resp[t].Body, key, []byte(`"`+strings.Repeat("ab", 64)+`"`), before))(resp, "", "")
			}, want)
		}
	}
	// QE identity: signed says OutOfDate, unsigned ENCLAVEIDENTITY says UpToDate
	badq := mkWorld()
	goodQ := badq.QeIdentity
	badq.QeIdentity.Levels = append([]world.TcbLevel{}, goodQ.Levels...)
	for i := range badq.QeIdentity.Levels {
		badq.QeIdentity.Levels[i].Status = "Revoked"
	}
	badq.Seal(r)
	try(badq, "unsigned-member", "control: signed QE identity says Revoked", nil, false)
	for _, key := range []string{"ENCLAVEIDENTITY", "EnclaveIdentity", "enclaveidentity", "enclaveIdentity"} {
		for _, before := range []bool{false, true} {
			key, before := key, before
			try(badq, "unsigned-member", fmt.Sprintf("unsigned %q (acceptable) before=%v the signed Revoked member", key, before), func(resp map[string]world.Resp, _, q string) {
				setBody(q, inject(resp[q].Body, key, goodQ.JSON(), before))(resp, "", "")
			}, false)
		}
	}

	// ---- the signed member omits a field; an unsigned variant-spelled member supplies it ----
	{
		wm := mkWorld()
		// TEE_TCB_SVN[1] = 1: a TDX module identity is required
		f := world.DefaultQuoteFields(r)
		f.TeeTcbSvn[1] = 1
		wm, err = world.BuildWorld(r, baseTime, pki, f)
		if err != nil {
			panic(err)
		}
		full := wm.TcbInfo.JSON()
		var members map[string]json.RawMessage
		_ = json.Unmarshal(full, &members)
		for _, omit := range []string{"tdxModuleIdentities", "tcbLevels", "tdxModule", "fmspc", "pceId", "id", "version", "nextUpdate"} {
			omit := omit
			// signed member without the field (re-signed by the genuine signer)
			var keys []string
			for _, k := range []string{"id", "version", "issueDate", "nextUpdate", "fmspc", "pceId", "tcbType", "tcbEvaluationDataNumber", "tdxModule", "tdxModuleIdentities", "tcbLevels"} {
				if k != omit {
					if _, ok := members[k]; ok {
						keys = append(keys, k)
					}
				}
			}
			var sb strings.Builder
			sb.WriteString("{")
			for i, k := range keys {
				if i > 0 {
					sb.WriteString(",")
				}
				sb.WriteString(`"` + k + `":` + string(members[k]))
			}
			sb.WriteString("}")
			signed := []byte(sb.String())
			sig := world.SignMember(r, pki.TcbSigner.Key, signed)
			body := world.Envelope("tcbInfo", signed, sig)
			supply := []byte(`{"` + omit + `":` + string(members[omit]) + `}`)
			try(wm, "omitted-field", "control: signed tcbInfo lacks "+omit, func(resp map[string]world.Resp, t, _ string) {
				setBody(t, body)(resp, "", "")
			}, false)
			for _, key := range []string{"TCBINFO", "Tcbinfo", "tcbinfo"} {
				for _, before := range []bool{true, false} {
					key, before := key, before
					try(wm, "omitted-field", fmt.Sprintf("signed tcbInfo lacks %s; unsigned %q supplies it (before=%v)", omit, key, before), func(resp map[string]world.Resp, t, _ string) {
						setBody(t, inject(body, key, supply, before))(resp, "", "")
					}, false)
				}
			}
		}
		// the same for the QE identity level list
		qfull := wm.QeIdentity.JSON()
		var qmembers map[string]json.RawMessage
		_ = json.Unmarshal(qfull, &qmembers)
		for _, omit := range []string{"tcbLevels", "mrsigner", "id", "version", "nextUpdate", "miscselectMask"} {
			omit := omit
			var sb strings.Builder
			sb.WriteString("{")
			first := true
			for _, k := range []string{"id", "version", "issueDate", "nextUpdate", "tcbEvaluationDataNumber", "miscselect", "miscselectMask", "attributes", "attributesMask", "mrsigner", "isvprodid", "tcbLevels"} {
				if v, ok := qmembers[k]; ok && k != omit {
					if !first {
						sb.WriteString(",")
					}
					first = false
					sb.WriteString(`"` + k + `":` + string(v))
				}
			}
			sb.WriteString("}")
			signed := []byte(sb.String())
			body := world.Envelope("enclaveIdentity", signed, world.SignMember(r, pki.TcbSigner.Key, signed))
			supply := []byte(`{"` + omit + `":` + string(qmembers[omit]) + `}`)
			for _, key := range []string{"ENCLAVEIDENTITY", "enclaveidentity"} {
				for _, before := range []bool{true, false} {
					key, before := key, before
					try(wm, "omitted-field", fmt.Sprintf("signed enclaveIdentity lacks %s; unsigned %q supplies it (before=%v)", omit, key, before), func(resp map[string]world.Resp, _, q string) {
						setBody(q, inject(body, key, supply, before))(resp, "", "")
					}, false)
				}
			}
		}
	}
	// ---- signers of every other role, each genuinely issued by the trusted root ----
	for _, cn := range []string{"Intel SGX PCK Processor CA", "Intel SGX PCK Platform CA", "Intel SGX PCK Certificate", "Intel SGX Root CA", "Intel SGX TCB Signing ", "Intel SGX TCB signing", "Intel SGX TCB Signing CA"} {
		for _, ca := range []bool{true, false} {
			spec := world.CertSpec{CN: cn, NotBefore: baseTime.AddDate(-1, 0, 0), NotAfter: baseTime.AddDate(1, 0, 0), IsCA: ca, CRLDP: []string{pki.Opts.RootCRLURL}}
			signer, err := world.MakeCert(r, spec, world.NewKey(r), pki.Root)
			if err != nil {
				panic(err)
			}
			resign(fmt.Sprintf("signed by a root-issued certificate named %q (CA=%v)", cn, ca), signer, signer, pki.Root, false)
		}
	}
	// ---- wrong id / version / levels / missing members ----
	docMut := func(desc string, f func(w2 *world.World), want bool) {
		w2 := mkWorld()
		f(w2)
		w2.Seal(r)
		try(w2, "document", desc, nil, want)
	}
	docMut("tcbInfo id SGX", func(w2 *world.World) { w2.TcbInfo.ID = "SGX" }, false)
	docMut("tcbInfo id tdx (lower case)", func(w2 *world.World) { w2.TcbInfo.ID = "tdx" }, false)
	docMut("tcbInfo version 2", func(w2 *world.World) { w2.TcbInfo.Version = 2 }, false)
	docMut("tcbInfo version 4", func(w2 *world.World) { w2.TcbInfo.Version = 4 }, false)
	docMut("tcbInfo without levels", func(w2 *world.World) { w2.TcbInfo.Levels = nil }, false)
	docMut("enclaveIdentity id QE", func(w2 *world.World) { w2.QeIdentity.ID = "QE" }, false)
	docMut("enclaveIdentity version 1", func(w2 *world.World) { w2.QeIdentity.Version = 1 }, false)
	docMut("enclaveIdentity without levels", func(w2 *world.World) { w2.QeIdentity.Levels = nil }, false)
	for _, b := range []string{``, `{}`, `{"tcbInfo":{}}`, `{"signature":"00"}`, `[]`, `null`, `{"tcbInfo":null,"signature":null}`, `{"tcbInfo":{},"signature":""}`,
		`{"tcbInfo":` + string(ti) + `}`, `{"tcbInfo":` + string(ti) + `,"signature":"zz"}`, `{"tcbInfo":` + string(ti) + `,"signature":"abcd"}`, `not json`,
		`{"tcbInfo":` + string(ti) + `,"signature":"` + strings.Repeat("0", 128) + `"}`} {
		b := b
		try(w, "malformed-body", fmt.Sprintf("tcb info body %.40q", b), setBody(tcbURL, []byte(b)), false)
		try(w, "malformed-body", fmt.Sprintf("qe identity body %.40q", b), setBody(qeURL, []byte(b)), false)
	}
	// ---- headers ----
	hdrMut := func(desc string, f func(h map[string][]string, key string), want bool) {
		try(w, "header", "tcb info: "+desc, func(resp map[string]world.Resp, t, _ string) {
			x := resp[t]
			f(x.Header, world.TcbInfoIssuerChainHeader)
			resp[t] = x
		}, want)
		try(w, "header", "qe identity: "+desc, func(resp map[string]world.Resp, _, q string) {
			x := resp[q]
			f(x.Header, world.QeIdentityIssuerChainHeader)
			resp[q] = x
		}, want)
	}
	hdrMut("missing", func(h map[string][]string, k string) { delete(h, k) }, false)
	hdrMut("empty value", func(h map[string][]string, k string) { h[k] = []string{""} }, false)
	hdrMut("no values", func(h map[string][]string, k string) { h[k] = []string{} }, false)
	hdrMut("duplicated", func(h map[string][]string, k string) { h[k] = []string{h[k][0], h[k][0]} }, false)
	hdrMut("lower-case key only", func(h map[string][]string, k string) { h[strings.ToLower(k)] = h[k]; delete(h, k) }, false)
	hdrMut("bad percent escape", func(h map[string][]string, k string) { h[k] = []string{h[k][0] + "%zz"} }, false)
	hdrMut("not percent-encoded (raw PEM, allowed if it unescapes to itself)", func(h map[string][]string, k string) {
		h[k] = []string{strings.ReplaceAll(string(pki.TcbSigner.PEM())+string(pki.Root.PEM()), "+", "%2B")}
	}, true)
	hdrMut("only one certificate", func(h map[string][]string, k string) {
		h[k] = []string{pki.IssuerChainHeader(pki.TcbSigner, pki.TcbSigner)[:len(pki.IssuerChainHeader(pki.TcbSigner, pki.TcbSigner))/2]}
	}, false)
	hdrMut("three certificates", func(h map[string][]string, k string) {
		h[k] = []string{h[k][0] + strings.ReplaceAll(strings.ReplaceAll(string(pki.Root.PEM()), "\n", "%0A"), "+", "%2B")}
	}, false)
	hdrMut("trailing garbage after the two blocks", func(h map[string][]string, k string) { h[k] = []string{h[k][0] + "garbage"} }, false)
	hdrMut("order root, signer", func(h map[string][]string, k string) { h[k] = []string{pki.IssuerChainHeader(pki.Root, pki.TcbSigner)} }, false)
	// getter errors
	try(w, "getter-error", "tcb info endpoint fails", func(resp map[string]world.Resp, t, _ string) { resp[t] = world.Resp{Err: fmt.Errorf("down")} }, false)
	try(w, "getter-error", "qe identity endpoint fails", func(resp map[string]world.Resp, _, q string) { resp[q] = world.Resp{Err: fmt.Errorf("down")} }, false)
	try(w, "getter-error", "tcb info endpoint unknown", func(resp map[string]world.Resp, t, _ string) { delete(resp, t) }, false)
	try(w, "swap", "responses swapped between the two endpoints", func(resp map[string]world.Resp, t, q string) { resp[t], resp[q] = resp[q], resp[t] }, false)
}
