package props

import (
	"bytes"
	"encoding/binary"
	"fmt"
	"math/rand"

	"github.com/google/go-tdx-guest/abi"
	ccpb "github.com/google/go-tdx-guest/proto/checkconfig"
	pb "github.com/google/go-tdx-guest/proto/tdx"
	"github.com/google/go-tdx-guest/validate"

	"verifharness/core"
)

func obSexp(b []byte) core.Sexp {
	if b == nil {
		return core.Ls()
	}
	return core.Ls(core.Bs(b))
}
func bytesList(l [][]byte) core.Sexp {
	var out []core.Sexp
	for _, b := range l {
		out = append(out, core.Bs(b))
	}
	return core.Ls(out...)
}

func voptsSexp(o *validate.Options) core.Sexp {
	if o == nil {
		return core.Ls()
	}
	h, b := o.HeaderOptions, o.TdQuoteBodyOptions
	return core.Ls(core.Ls(core.A(uint64(h.MinimumQeSvn)), core.A(uint64(h.MinimumPceSvn)), obSexp(h.QeVendorID),
		obSexp(b.MinimumTeeTcbSvn), obSexp(b.MrSeam), obSexp(b.TdAttributes), obSexp(b.Xfam), obSexp(b.MrTd), obSexp(b.MrConfigID),
		obSexp(b.MrOwner), obSexp(b.MrOwnerConfig), bytesList(b.Rtmrs), obSexp(b.ReportData), bytesList(b.AnyMrTd)))
}

func voptsInner(o *validate.Options) core.Sexp { return voptsSexp(o).Nth(0) }

func policySexp(p *ccpb.Policy) core.Sexp {
	h, b := p.GetHeaderPolicy(), p.GetTdQuoteBodyPolicy()
	return core.Ls(core.A(uint64(h.GetMinimumQeSvn())), core.A(uint64(h.GetMinimumPceSvn())), obSexp(h.GetQeVendorId()),
		obSexp(b.GetMinimumTeeTcbSvn()), obSexp(b.GetMrSeam()), obSexp(b.GetTdAttributes()), obSexp(b.GetXfam()), obSexp(b.GetMrTd()),
		obSexp(b.GetMrConfigId()), obSexp(b.GetMrOwner()), obSexp(b.GetMrOwnerConfig()), bytesList(b.GetRtmrs()), obSexp(b.GetReportData()),
		bytesList(b.GetAnyMrTd()))
}

func verdict0(err error, pan any) core.Sexp {
	switch {
	case pan != nil:
		return core.Ls(core.A(2))
	case err != nil:
		return core.Ls(core.A(1))
	default:
		return core.Ls(core.A(0), core.Ls())
	}
}

func implValidate(q *pb.QuoteV4, o *validate.Options) (error, any) {
	var err error
	p := safely(func() { err = validate.TdxQuote(q, o) })
	return err, p
}

// validQuoteMsg builds a structurally valid message whose XFAM / TD_ATTRIBUTES
// satisfy the fixed-bit masks.
func validQuoteMsg(r *rand.Rand) *pb.QuoteV4 {
	sp := randSpec(r, r.Intn(40), 20+r.Intn(100), 0)
	body := sp.Body
	// XFAM at body[128:136]: bits 0,1 set, only bits of 0x6DBE7 allowed
	x := (r.Uint64() & 0x6DBE7) | 3
	binary.LittleEndian.PutUint64(body[128:136], x)
	// TD_ATTRIBUTES at body[120:128]: allowed bits 0, 28, 30, 63
	a := r.Uint64() & (1 | 1<<28 | 1<<30 | 1<<63)
	binary.LittleEndian.PutUint64(body[120:128], a)
	q, err := abi.QuoteToProto(sp.bytes())
	if err != nil {
		panic("harness: valid spec rejected: " + err.Error())
	}
	return q.(*pb.QuoteV4)
}

// expectation semantics written from the property text (independent of validate.go)
type expectResult struct {
	wf     bool // every configured entry has the right size
	holds  bool // every configured, right-sized expectation holds
	missed bool // some configured right-sized expectation is definitely missed
}

func c08Expect(q *pb.QuoteV4, o *validate.Options) expectResult {
	res := expectResult{wf: true, holds: true}
	b, h := q.GetTdQuoteBody(), q.GetHeader()
	chk := func(opt, field []byte, size int) {
		if len(opt) == 0 {
			return
		}
		if len(opt) != size {
			res.wf = false
			return
		}
		if !bytes.Equal(opt, field) {
			res.holds = false
			res.missed = true
		}
	}
	t := o.TdQuoteBodyOptions
	chk(t.MrSeam, b.GetMrSeam(), 48)
	chk(t.TdAttributes, b.GetTdAttributes(), 8)
	chk(t.Xfam, b.GetXfam(), 8)
	chk(t.MrTd, b.GetMrTd(), 48)
	chk(t.MrConfigID, b.GetMrConfigId(), 48)
	chk(t.MrOwner, b.GetMrOwner(), 48)
	chk(t.MrOwnerConfig, b.GetMrOwnerConfig(), 48)
	chk(t.ReportData, b.GetReportData(), 64)
	chk(o.HeaderOptions.QeVendorID, h.GetQeVendorId(), 16)
	if len(t.Rtmrs) != 0 {
		if len(t.Rtmrs) != 4 {
			res.wf = false
		} else {
			for i := range t.Rtmrs {
				chk(t.Rtmrs[i], b.GetRtmrs()[i], 48)
			}
		}
	}
	if len(t.AnyMrTd) != 0 {
		allNonEmpty, member, sized := true, false, true
		for _, e := range t.AnyMrTd {
			if len(e) == 0 {
				allNonEmpty = false
			} else if len(e) != 48 {
				sized = false
			} else if bytes.Equal(e, b.GetMrTd()) {
				member = true
			}
		}
		if allNonEmpty && sized && !member {
			res.holds = false
			res.missed = true
		}
		if allNonEmpty && !sized && !member {
			// wrongly sized entries present and no right-sized entry matches: cannot be accepted
			res.wf = false
			res.missed = true
		}
		if !allNonEmpty {
			// an empty entry is outside the property's "set of non-empty values"; the code treats it as a wildcard
			if !member {
				res.wf = false
			}
		}
	}
	if m := t.MinimumTeeTcbSvn; len(m) != 0 {
		if len(m) != 16 {
			res.wf = false
		} else {
			for i := 0; i < 16; i++ {
				if b.GetTeeTcbSvn()[i] < m[i] {
					res.holds = false
					res.missed = true
				}
			}
		}
	}
	if binary.LittleEndian.Uint16(h.GetQeSvn()) < o.HeaderOptions.MinimumQeSvn || binary.LittleEndian.Uint16(h.GetPceSvn()) < o.HeaderOptions.MinimumPceSvn {
		res.holds = false
		res.missed = true
	}
	x := binary.LittleEndian.Uint64(b.GetXfam())
	a := binary.LittleEndian.Uint64(b.GetTdAttributes())
	for i := uint(0); i < 64; i++ {
		xb, ab := x>>i&1 == 1, a>>i&1 == 1
		if (i == 0 || i == 1) && !xb {
			res.holds, res.missed = false, true
		}
		if xb && (uint64(0x6DBE7)>>i)&1 == 0 {
			res.holds, res.missed = false, true
		}
		if ab && !(i == 0 || i == 28 || i == 30 || i == 63) {
			res.holds, res.missed = false, true
		}
	}
	return res
}

func flip(b []byte, i int) []byte {
	o := append([]byte{}, b...)
	o[i] ^= 0x40
	return o
}

type optField struct {
	name string
	size int
	get  func(q *pb.QuoteV4) []byte
	set  func(o *validate.Options, v []byte)
	setP func(p *ccpb.Policy, v []byte)
}

var optFields = []optField{
	{"MrSeam", 48, func(q *pb.QuoteV4) []byte { return q.TdQuoteBody.MrSeam }, func(o *validate.Options, v []byte) { o.TdQuoteBodyOptions.MrSeam = v }, func(p *ccpb.Policy, v []byte) { p.TdQuoteBodyPolicy.MrSeam = v }},
	{"TdAttributes", 8, func(q *pb.QuoteV4) []byte { return q.TdQuoteBody.TdAttributes }, func(o *validate.Options, v []byte) { o.TdQuoteBodyOptions.TdAttributes = v }, func(p *ccpb.Policy, v []byte) { p.TdQuoteBodyPolicy.TdAttributes = v }},
	{"Xfam", 8, func(q *pb.QuoteV4) []byte { return q.TdQuoteBody.Xfam }, func(o *validate.Options, v []byte) { o.TdQuoteBodyOptions.Xfam = v }, func(p *ccpb.Policy, v []byte) { p.TdQuoteBodyPolicy.Xfam = v }},
	{"MrTd", 48, func(q *pb.QuoteV4) []byte { return q.TdQuoteBody.MrTd }, func(o *validate.Options, v []byte) { o.TdQuoteBodyOptions.MrTd = v }, func(p *ccpb.Policy, v []byte) { p.TdQuoteBodyPolicy.MrTd = v }},
	{"MrConfigID", 48, func(q *pb.QuoteV4) []byte { return q.TdQuoteBody.MrConfigId }, func(o *validate.Options, v []byte) { o.TdQuoteBodyOptions.MrConfigID = v }, func(p *ccpb.Policy, v []byte) { p.TdQuoteBodyPolicy.MrConfigId = v }},
	{"MrOwner", 48, func(q *pb.QuoteV4) []byte { return q.TdQuoteBody.MrOwner }, func(o *validate.Options, v []byte) { o.TdQuoteBodyOptions.MrOwner = v }, func(p *ccpb.Policy, v []byte) { p.TdQuoteBodyPolicy.MrOwner = v }},
	{"MrOwnerConfig", 48, func(q *pb.QuoteV4) []byte { return q.TdQuoteBody.MrOwnerConfig }, func(o *validate.Options, v []byte) { o.TdQuoteBodyOptions.MrOwnerConfig = v }, func(p *ccpb.Policy, v []byte) { p.TdQuoteBodyPolicy.MrOwnerConfig = v }},
	{"ReportData", 64, func(q *pb.QuoteV4) []byte { return q.TdQuoteBody.ReportData }, func(o *validate.Options, v []byte) { o.TdQuoteBodyOptions.ReportData = v }, func(p *ccpb.Policy, v []byte) { p.TdQuoteBodyPolicy.ReportData = v }},
	{"QeVendorID", 16, func(q *pb.QuoteV4) []byte { return q.Header.QeVendorId }, func(o *validate.Options, v []byte) { o.HeaderOptions.QeVendorID = v }, func(p *ccpb.Policy, v []byte) { p.HeaderPolicy.QeVendorId = v }},
	{"MinimumTeeTcbSvn", 16, func(q *pb.QuoteV4) []byte { return q.TdQuoteBody.TeeTcbSvn }, func(o *validate.Options, v []byte) { o.TdQuoteBodyOptions.MinimumTeeTcbSvn = v }, func(p *ccpb.Policy, v []byte) { p.TdQuoteBodyPolicy.MinimumTeeTcbSvn = v }},
}

// variants of one option value relative to the quote's field value
func fieldVariants(r *rand.Rand, v []byte) map[string][]byte {
	n := len(v)
	return map[string][]byte{
		"nil": nil, "empty": {}, "equal": append([]byte{}, v...),
		"diff-first": flip(v, 0), "diff-last": flip(v, n-1), "diff-random": flip(v, r.Intn(n)),
		"short": append([]byte{}, v[:n-1]...), "long": append(append([]byte{}, v...), 0),
	}
}

var variantOrder = []string{"nil", "empty", "equal", "diff-first", "diff-last", "diff-random", "short", "long"}

func C08(c *core.Ctx) {
	c.Rule = "quotes: structurally valid messages with mask-respecting XFAM/TD_ATTRIBUTES, every single XFAM and TD_ATTRIBUTES bit flipped (also with that very value expected exactly), SVNs around each minimum; options: every field independently nil/empty/equal/differing in first,last,random byte/one short/one long, minimum SVNs at min-1,min,min+1,0,65535, TEE TCB SVN minima per component, RTMR lists of length 0..5 and allowed-MR_TD lists of length 0..4 with empty, matching, mismatching and wrongly sized entries, every expectation configured and met, then exactly one missed; random combinations, nil options, malformed messages; through validate.TdxQuote and validate.RawTdxQuote. non-trivial = message passes CheckQuoteV4 and options non-nil; distinct = distinct (message, options)"
	r := c.Rng
	run := func(class, desc string, q *pb.QuoteV4, o *validate.Options) {
		if !c.Wanted() {
			c.Add(&core.Case{Class: class, SkipModel: true, Impl: core.Ls()})
			return
		}
		before := ""
		if o != nil {
			before = fmt.Sprintf("%x", *o)
		}
		err, pan := implValidate(q, o)
		gt := ""
		if o != nil && pan == nil && fmt.Sprintf("%x", *o) != before {
			gt = "validation changed the caller's options (order or contents of its lists / byte strings)"
		}
		wellFormedMsg := q != nil && abi.CheckQuoteV4(q) == nil
		if pan != nil {
			gt = fmt.Sprintf("validate.TdxQuote panicked: %v", pan)
		} else if gt != "" {
		} else if o != nil && wellFormedMsg {
			e := c08Expect(q, o)
			switch {
			case e.missed && err == nil:
				gt = "accepted a quote that misses a configured expectation"
			case e.wf && e.holds && err != nil:
				gt = "rejected a quote that meets every configured expectation: " + err.Error()
			case e.wf && !e.holds && err == nil:
				gt = "accepted although an expectation fails"
			}
		} else if err == nil {
			gt = "nil options or malformed message accepted"
		}
		c.Count("verdict", resultName(verdict0(err, pan)))
		c.Add(&core.Case{Class: class, Desc: desc, Entry: "val", Input: core.Ls(core.A(0), optQuote(q), voptsSexp(o)),
			Impl: verdict0(err, pan), GT: gt, NonTrivial: wellFormedMsg && o != nil})
	}
	q := validQuoteMsg(r)
	run("baseline", "no expectations", q, &validate.Options{})
	run("nil-options", "nil options", q, nil)
	run("nil-quote", "nil quote", nil, &validate.Options{})
	// each field independently
	for _, f := range optFields {
		for _, vn := range variantOrder {
			o := &validate.Options{}
			f.set(o, fieldVariants(r, f.get(q))[vn])
			run("field-"+vn, f.name+" "+vn, q, o)
		}
	}
	// minimum SVNs
	for _, which := range []string{"qe", "pce"} {
		var cur uint16
		if which == "qe" {
			cur = binary.LittleEndian.Uint16(q.Header.QeSvn)
		} else {
			cur = binary.LittleEndian.Uint16(q.Header.PceSvn)
		}
		for _, m := range []uint16{0, cur - 1, cur, cur + 1, 65535} {
			o := &validate.Options{}
			if which == "qe" {
				o.HeaderOptions.MinimumQeSvn = m
			} else {
				o.HeaderOptions.MinimumPceSvn = m
			}
			run("min-svn", fmt.Sprintf("%s svn quote=%d min=%d", which, cur, m), q, o)
		}
	}
	// quote SVN at 0 and 65535
	for _, v := range []uint16{0, 1, 65535} {
		q2 := validQuoteMsg(r)
		binary.LittleEndian.PutUint16(q2.Header.QeSvn, v)
		for _, m := range []uint16{0, 1, 65535} {
			run("min-svn", fmt.Sprintf("qe svn quote=%d min=%d", v, m), q2, &validate.Options{HeaderOptions: validate.HeaderOptions{MinimumQeSvn: m}})
		}
	}
	// TEE TCB SVN per component
	for i := 0; i < 16; i++ {
		for _, d := range []int{-1, 1} {
			q2 := validQuoteMsg(r)
			q2.TdQuoteBody.TeeTcbSvn[i] = 100
			m := append([]byte{}, q2.TdQuoteBody.TeeTcbSvn...)
			m[i] = byte(100 + d)
			run("min-teetcbsvn", fmt.Sprintf("component %d min%+d", i, d), q2, &validate.Options{TdQuoteBodyOptions: validate.TdQuoteBodyOptions{MinimumTeeTcbSvn: m}})
		}
	}
	// mixed: some components above, some below, some equal (component-wise, not lexicographic)
	for i := 0; i < c.Scale(80, 2000); i++ {
		q2 := validQuoteMsg(r)
		m := make([]byte, 16)
		for j := range m {
			v := int(q2.TdQuoteBody.TeeTcbSvn[j])
			switch r.Intn(4) {
			case 0:
				v++
			case 1:
				v--
			}
			if v < 0 {
				v = 0
			}
			if v > 255 {
				v = 255
			}
			m[j] = byte(v)
		}
		run("min-teetcbsvn-mixed", fmt.Sprintf("minimum = quote %v", m), q2, &validate.Options{TdQuoteBodyOptions: validate.TdQuoteBodyOptions{MinimumTeeTcbSvn: m}})
	}
	for _, n := range []int{0, 1, 8, 15, 17, 32} {
		run("min-teetcbsvn-size", fmt.Sprintf("minimum of %d zero bytes", n), q, &validate.Options{TdQuoteBodyOptions: validate.TdQuoteBodyOptions{MinimumTeeTcbSvn: make([]byte, n)}})
	}
	// XFAM / TD_ATTRIBUTES: every single bit
	for i := 0; i < 64; i++ {
		q2 := validQuoteMsg(r)
		x := binary.LittleEndian.Uint64(q2.TdQuoteBody.Xfam) ^ (1 << uint(i))
		binary.LittleEndian.PutUint64(q2.TdQuoteBody.Xfam, x)
		run("xfam-bit", fmt.Sprintf("XFAM bit %d flipped (%#x)", i, x), q2, &validate.Options{})
		q3 := validQuoteMsg(r)
		a := binary.LittleEndian.Uint64(q3.TdQuoteBody.TdAttributes) ^ (1 << uint(i))
		binary.LittleEndian.PutUint64(q3.TdQuoteBody.TdAttributes, a)
		run("tdattr-bit", fmt.Sprintf("TD_ATTRIBUTES bit %d flipped (%#x)", i, a), q3, &validate.Options{})
		// the same illegal value, pinned exactly by the policy (an exact expectation must not switch the fixed-bit rules off)
		run("xfam-bit-pinned", fmt.Sprintf("XFAM bit %d flipped (%#x) and expected exactly", i, x), q2,
			&validate.Options{TdQuoteBodyOptions: validate.TdQuoteBodyOptions{Xfam: append([]byte{}, q2.TdQuoteBody.Xfam...)}})
		run("tdattr-bit-pinned", fmt.Sprintf("TD_ATTRIBUTES bit %d flipped (%#x) and expected exactly", i, a), q3,
			&validate.Options{TdQuoteBodyOptions: validate.TdQuoteBodyOptions{TdAttributes: append([]byte{}, q3.TdQuoteBody.TdAttributes...)}})
		q4 := validQuoteMsg(r)
		binary.LittleEndian.PutUint64(q4.TdQuoteBody.Xfam, 3|1<<uint(i))
		run("xfam-bit", fmt.Sprintf("XFAM = 3 | bit %d", i), q4, &validate.Options{})
		q5 := validQuoteMsg(r)
		binary.LittleEndian.PutUint64(q5.TdQuoteBody.TdAttributes, 1<<uint(i))
		run("tdattr-bit", fmt.Sprintf("TD_ATTRIBUTES = bit %d", i), q5, &validate.Options{})
	}
	// RTMR lists
	entry := func(kind int, v []byte) []byte {
		switch kind {
		case 0:
			return nil
		case 1:
			return []byte{}
		case 2:
			return append([]byte{}, v...)
		case 3:
			return flip(v, r.Intn(len(v)))
		case 4:
			return v[:len(v)-1]
		default:
			return append(append([]byte{}, v...), 7)
		}
	}
	for n := 0; n <= 5; n++ {
		for rep := 0; rep < c.Scale(12, 80); rep++ {
			var l [][]byte
			desc := fmt.Sprintf("%d entries:", n)
			for i := 0; i < n; i++ {
				k := r.Intn(6)
				if rep == 0 {
					k = 2
				}
				src := q.TdQuoteBody.Rtmrs[i%4]
				l = append(l, entry(k, src))
				desc += fmt.Sprintf(" %d", k)
			}
			run("rtmr-list", desc, q, &validate.Options{TdQuoteBodyOptions: validate.TdQuoteBodyOptions{Rtmrs: l}})
		}
	}
	for n := 0; n <= 4; n++ {
		for rep := 0; rep < c.Scale(12, 80); rep++ {
			var l [][]byte
			desc := fmt.Sprintf("%d allowed:", n)
			for i := 0; i < n; i++ {
				k := r.Intn(6)
				l = append(l, entry(k, q.TdQuoteBody.MrTd))
				desc += fmt.Sprintf(" %d", k)
			}
			run("any-mrtd", desc, q, &validate.Options{TdQuoteBodyOptions: validate.TdQuoteBodyOptions{AnyMrTd: l}})
		}
	}
	// every expectation configured and met, then exactly one of them missed
	// (one expectation must not switch another one off)
	{
		full := func() *validate.Options {
			o := &validate.Options{}
			for _, f := range optFields {
				f.set(o, append([]byte{}, f.get(q)...))
			}
			for _, e := range q.TdQuoteBody.Rtmrs {
				o.TdQuoteBodyOptions.Rtmrs = append(o.TdQuoteBodyOptions.Rtmrs, append([]byte{}, e...))
			}
			o.TdQuoteBodyOptions.AnyMrTd = [][]byte{flip(q.TdQuoteBody.MrTd, 3), append([]byte{}, q.TdQuoteBody.MrTd...)}
			o.HeaderOptions.MinimumQeSvn = binary.LittleEndian.Uint16(q.Header.QeSvn)
			o.HeaderOptions.MinimumPceSvn = binary.LittleEndian.Uint16(q.Header.PceSvn)
			return o
		}
		run("all-met", "every expectation configured and met", q, full())
		for _, f := range optFields {
			if f.name == "MinimumTeeTcbSvn" {
				continue
			}
			for _, vn := range []string{"diff-first", "diff-last"} {
				o := full()
				f.set(o, fieldVariants(r, f.get(q))[vn])
				run("all-but-one", "all met except "+f.name+" "+vn, q, o)
			}
		}
		for i := 0; i < 4; i++ {
			o := full()
			o.TdQuoteBodyOptions.Rtmrs[i] = flip(o.TdQuoteBodyOptions.Rtmrs[i], 47*(i%2))
			run("all-but-one", fmt.Sprintf("all met except RTMR %d", i), q, o)
		}
		for _, l := range [][][]byte{{flip(q.TdQuoteBody.MrTd, 0)}, {flip(q.TdQuoteBody.MrTd, 47)}, {flip(q.TdQuoteBody.MrTd, 0), flip(q.TdQuoteBody.MrTd, 47), make([]byte, 48)}} {
			o := full()
			o.TdQuoteBodyOptions.AnyMrTd = l
			run("all-but-one", fmt.Sprintf("all met except AnyMrTd (%d non-members)", len(l)), q, o)
		}
		if v := binary.LittleEndian.Uint16(q.Header.QeSvn); v < 65535 {
			o := full()
			o.HeaderOptions.MinimumQeSvn = v + 1
			run("all-but-one", "all met except the minimum QE SVN", q, o)
		}
		if v := binary.LittleEndian.Uint16(q.Header.PceSvn); v < 65535 {
			o := full()
			o.HeaderOptions.MinimumPceSvn = v + 1
			run("all-but-one", "all met except the minimum PCE SVN", q, o)
		}
		for i := 0; i < 16; i++ {
			if q.TdQuoteBody.TeeTcbSvn[i] < 255 {
				o := full()
				o.TdQuoteBodyOptions.MinimumTeeTcbSvn[i]++
				run("all-but-one", fmt.Sprintf("all met except TEE TCB SVN component %d", i), q, o)
			}
		}
	}
	// random combinations
	for i := 0; i < c.Scale(300, 10000); i++ {
		q2 := validQuoteMsg(r)
		o := &validate.Options{}
		desc := ""
		for _, f := range optFields {
			if r.Intn(3) == 0 {
				vn := variantOrder[r.Intn(len(variantOrder))]
				if r.Intn(2) == 0 {
					vn = "equal"
				}
				f.set(o, fieldVariants(r, f.get(q2))[vn])
				desc += f.name + "=" + vn + " "
			}
		}
		if r.Intn(4) == 0 {
			o.HeaderOptions.MinimumQeSvn = uint16(r.Intn(65536))
		}
		if r.Intn(4) == 0 {
			o.HeaderOptions.MinimumPceSvn = uint16(r.Intn(65536))
		}
		if r.Intn(4) == 0 {
			for j := 0; j < 4; j++ {
				o.TdQuoteBodyOptions.Rtmrs = append(o.TdQuoteBodyOptions.Rtmrs, entry([]int{0, 2, 2, 3}[r.Intn(4)], q2.TdQuoteBody.Rtmrs[j]))
			}
		}
		run("random-combination", desc, q2, o)
	}
	// malformed messages reach validation too
	msgCases(c, func(class, desc string, m *pb.QuoteV4) {
		if class == "msg-valid" || class == "msg-from-protobuf" || class == "msg-numeric" {
			return
		}
		o := &validate.Options{}
		if m != nil && m.GetTdQuoteBody() != nil && len(m.GetTdQuoteBody().GetMrTd()) > 0 {
			o.TdQuoteBodyOptions.MrTd = append([]byte{}, m.GetTdQuoteBody().GetMrTd()...)
			o.TdQuoteBodyOptions.MinimumTeeTcbSvn = make([]byte, 16)
		}
		run("malformed-"+class, desc, m, o)
	})
	// raw path
	for i := 0; i < c.Scale(30, 300); i++ {
		if !c.Wanted() {
			c.Add(&core.Case{Class: "raw", SkipModel: true, Impl: core.Ls()})
			continue
		}
		raw := randSpec(r, 10, 50, 0).bytes()
		binary.LittleEndian.PutUint64(raw[48+128:], 3)
		binary.LittleEndian.PutUint64(raw[48+120:], 0)
		if i%3 == 1 {
			raw = raw[:r.Intn(len(raw))]
		}
		o := &validate.Options{}
		if i%2 == 0 && len(raw) > 700 {
			o.TdQuoteBodyOptions.MrTd = append([]byte{}, raw[48+136:48+184]...)
			if i%4 == 0 {
				o.TdQuoteBodyOptions.MrTd[3] ^= 1
			}
		}
		var err error
		pan := safely(func() { err = validate.RawTdxQuote(raw, o) })
		gt := ""
		if pan != nil {
			gt = fmt.Sprintf("validate.RawTdxQuote panicked: %v", pan)
		}
		c.Add(&core.Case{Class: "raw", Desc: fmt.Sprintf("raw %d bytes", len(raw)), Entry: "val", Input: core.Ls(core.A(1), core.Bs(raw), voptsSexp(o)),
			Impl: verdict0(err, pan), GT: gt, NonTrivial: len(raw) > 1200})
	}
}

// ---- C14 -----------------------------------------------------------------------

func implPolicy(p *ccpb.Policy) (*validate.Options, error, any) {
	var o *validate.Options
	var err error
	pan := safely(func() { o, err = validate.PolicyToOptions(p) })
	return o, err, pan
}

func C14(c *core.Ctx) {
	c.Rule = "policy messages: each byte field independently absent/empty/right size/one short/one long (including minimum_tee_tcb_svn), SVN minima 0/65535/65536/2^32-1, RTMR lists 0..5 with empty, full and wrongly sized entries, allowed-MR_TD lists, absent sub-policies, random combinations; each converted policy is then used to validate matching and mismatching quotes and compared with directly built options. non-trivial = at least one expectation present; distinct = distinct (policy, quote)"
	r := c.Rng
	q := validQuoteMsg(r)
	run := func(class, desc string, p *ccpb.Policy, quotes []*pb.QuoteV4) {
		if !c.Wanted() {
			c.Add(&core.Case{Class: class, SkipModel: true, Impl: core.Ls()})
			return
		}
		o, err, pan := implPolicy(p)
		gt := ""
		var impl core.Sexp
		switch {
		case pan != nil:
			impl = core.Ls(core.A(2))
			gt = fmt.Sprintf("validate.PolicyToOptions panicked: %v", pan)
		case err != nil:
			impl = core.Ls(core.A(1))
		default:
			impl = core.Ls(core.A(0), voptsInner(o))
		}
		// what the property demands of conversion
		mustFail := p.GetHeaderPolicy().GetMinimumQeSvn() > 65535 || p.GetHeaderPolicy().GetMinimumPceSvn() > 65535
		wrong := func(v []byte, n int) bool { return len(v) != 0 && len(v) != n }
		b := p.GetTdQuoteBodyPolicy()
		for _, x := range []struct {
			v []byte
			n int
		}{{b.GetMinimumTeeTcbSvn(), 16}, {b.GetMrSeam(), 48}, {b.GetTdAttributes(), 8}, {b.GetXfam(), 8}, {b.GetMrTd(), 48}, {b.GetMrConfigId(), 48},
			{b.GetMrOwner(), 48}, {b.GetMrOwnerConfig(), 48}, {b.GetReportData(), 64}, {p.GetHeaderPolicy().GetQeVendorId(), 16}} {
			if wrong(x.v, x.n) {
				mustFail = true
			}
		}
		for _, e := range b.GetRtmrs() {
			if wrong(e, 48) {
				mustFail = true
			}
		}
		if n := len(b.GetRtmrs()); n != 0 && n != 4 {
			mustFail = true
		}
		for _, e := range b.GetAnyMrTd() {
			if wrong(e, 48) {
				mustFail = true
			}
		}
		if gt == "" && mustFail && err == nil {
			gt = "policy with an out-of-range SVN minimum or a wrongly sized byte-string expectation converted successfully"
		}
		nt := len(policySexp(p).String()) > 40
		c.Count("conversion", resultName(impl))
		c.Add(&core.Case{Class: class, Desc: desc, Entry: "val", Input: core.Ls(core.A(2), policySexp(p)), Impl: impl, GT: gt, NonTrivial: nt})
		// verdict under the converted options
		for qi, qq := range quotes {
			var im core.Sexp
			g2 := ""
			if pan != nil {
				im = core.Ls(core.A(2))
			} else if err != nil {
				im = core.Ls(core.A(1))
			} else {
				verr, vpan := implValidate(qq, o)
				im = core.Ls(core.A(0), verdict0(verr, vpan))
				if vpan != nil {
					g2 = fmt.Sprintf("a policy that converted successfully crashed validation: %v", vpan)
				} else if abi.CheckQuoteV4(qq) == nil {
					e := c08Expect(qq, o)
					// literal meaning of the policy message: every present field is an expectation
					lit := policyLiteral(p, qq)
					if e.wf && lit != (verr == nil) {
						g2 = fmt.Sprintf("verdict under converted options (%v) differs from the literal meaning of the policy (%v)", verr == nil, lit)
					}
				}
			}
			c.Add(&core.Case{Class: class + "/validate", Desc: fmt.Sprintf("%s; quote %d", desc, qi), Entry: "val",
				Input: core.Ls(core.A(3), policySexp(p), optQuote(qq)), Impl: im, GT: g2, NonTrivial: nt})
		}
	}
	newPolicy := func() *ccpb.Policy {
		return &ccpb.Policy{HeaderPolicy: &ccpb.HeaderPolicy{}, TdQuoteBodyPolicy: &ccpb.TDQuoteBodyPolicy{}}
	}
	other := validQuoteMsg(r)
	quotes := []*pb.QuoteV4{q, other}
	run("empty-policy", "no expectations", newPolicy(), quotes)
	run("nil-subpolicies", "both sub-policies absent", &ccpb.Policy{}, quotes)
	run("nil-subpolicies", "header policy absent", &ccpb.Policy{TdQuoteBodyPolicy: &ccpb.TDQuoteBodyPolicy{MrTd: q.TdQuoteBody.MrTd}}, quotes)
	run("nil-subpolicies", "body policy absent", &ccpb.Policy{HeaderPolicy: &ccpb.HeaderPolicy{MinimumQeSvn: 1}}, quotes)
	// malformed fields in the one sub-policy that is present
	run("nil-subpolicies", "body policy absent, vendor id one byte short", &ccpb.Policy{HeaderPolicy: &ccpb.HeaderPolicy{QeVendorId: q.Header.QeVendorId[:15]}}, quotes)
	run("nil-subpolicies", "body policy absent, vendor id one byte long", &ccpb.Policy{HeaderPolicy: &ccpb.HeaderPolicy{QeVendorId: append(append([]byte{}, q.Header.QeVendorId...), 1)}}, quotes)
	run("nil-subpolicies", "body policy absent, minimum_qe_svn 65536", &ccpb.Policy{HeaderPolicy: &ccpb.HeaderPolicy{MinimumQeSvn: 65536}}, quotes)
	run("nil-subpolicies", "body policy absent, minimum_pce_svn 2^32-1", &ccpb.Policy{HeaderPolicy: &ccpb.HeaderPolicy{MinimumPceSvn: 0xffffffff}}, quotes)
	run("nil-subpolicies", "header policy absent, MR_TD one byte short", &ccpb.Policy{TdQuoteBodyPolicy: &ccpb.TDQuoteBodyPolicy{MrTd: q.TdQuoteBody.MrTd[:47]}}, quotes)
	run("nil-subpolicies", "header policy absent, a 47-byte RTMR entry", &ccpb.Policy{TdQuoteBodyPolicy: &ccpb.TDQuoteBodyPolicy{Rtmrs: [][]byte{nil, q.TdQuoteBody.Rtmrs[1][:47], nil, nil}}}, quotes)
	run("nil-subpolicies", "empty body policy, vendor id one byte short", &ccpb.Policy{HeaderPolicy: &ccpb.HeaderPolicy{QeVendorId: q.Header.QeVendorId[:15]}, TdQuoteBodyPolicy: &ccpb.TDQuoteBodyPolicy{}}, quotes)
	run("nil-policy", "nil policy", nil, quotes)
	for _, f := range optFields {
		for _, vn := range []string{"nil", "empty", "equal", "diff-random", "short", "long"} {
			p := newPolicy()
			f.setP(p, fieldVariants(r, f.get(q))[vn])
			run("field-"+vn, f.name+" "+vn, p, quotes)
		}
	}
	for _, v := range []uint32{0, 1, 65535, 65536, 1<<32 - 1} {
		p := newPolicy()
		p.HeaderPolicy.MinimumQeSvn = v
		run("svn-minimum", fmt.Sprintf("minimum_qe_svn=%d", v), p, quotes)
		p2 := newPolicy()
		p2.HeaderPolicy.MinimumPceSvn = v
		run("svn-minimum", fmt.Sprintf("minimum_pce_svn=%d", v), p2, quotes)
	}
	for n := 0; n <= 5; n++ {
		for rep := 0; rep < c.Scale(8, 60); rep++ {
			p := newPolicy()
			desc := fmt.Sprintf("rtmrs %d:", n)
			for i := 0; i < n; i++ {
				k := r.Intn(5)
				if rep == 0 {
					k = 2
				}
				var e []byte
				switch k {
				case 0:
					e = []byte{}
				case 1:
					e = flip(q.TdQuoteBody.Rtmrs[i%4], 5)
				case 2:
					e = q.TdQuoteBody.Rtmrs[i%4]
				case 3:
					e = q.TdQuoteBody.Rtmrs[i%4][:47]
				default:
					e = append(append([]byte{}, q.TdQuoteBody.Rtmrs[i%4]...), 1)
				}
				p.TdQuoteBodyPolicy.Rtmrs = append(p.TdQuoteBodyPolicy.Rtmrs, e)
				desc += fmt.Sprintf(" %d", k)
			}
			run("rtmr-list", desc, p, quotes)
		}
	}
	for n := 0; n <= 4; n++ {
		for rep := 0; rep < c.Scale(6, 40); rep++ {
			p := newPolicy()
			desc := fmt.Sprintf("any_mr_td %d:", n)
			for i := 0; i < n; i++ {
				k := r.Intn(5)
				var e []byte
				switch k {
				case 0:
					e = []byte{}
				case 1:
					e = flip(q.TdQuoteBody.MrTd, 9)
				case 2:
					e = q.TdQuoteBody.MrTd
				case 3:
					e = q.TdQuoteBody.MrTd[:47]
				default:
					e = append(append([]byte{}, q.TdQuoteBody.MrTd...), 1)
				}
				p.TdQuoteBodyPolicy.AnyMrTd = append(p.TdQuoteBodyPolicy.AnyMrTd, e)
				desc += fmt.Sprintf(" %d", k)
			}
			run("any-mrtd-list", desc, p, quotes)
		}
	}
	for i := 0; i < c.Scale(150, 5000); i++ {
		p := newPolicy()
		desc := ""
		for _, f := range optFields {
			if r.Intn(3) == 0 {
				vn := []string{"equal", "equal", "equal", "diff-random", "short", "long", "empty"}[r.Intn(7)]
				f.setP(p, fieldVariants(r, f.get(q))[vn])
				desc += f.name + "=" + vn + " "
			}
		}
		if r.Intn(5) == 0 {
			p.HeaderPolicy.MinimumQeSvn = []uint32{0, 5, 65535, 65536, 70000}[r.Intn(5)]
		}
		run("random-combination", desc, p, quotes)
	}
}

// policyLiteral: does the quote satisfy what the policy message literally says
// (every non-empty field is an expectation)?  Only called for policies whose
// entries are all correctly sized.
func policyLiteral(p *ccpb.Policy, q *pb.QuoteV4) bool {
	o := &validate.Options{
		HeaderOptions: validate.HeaderOptions{MinimumQeSvn: uint16(p.GetHeaderPolicy().GetMinimumQeSvn()), MinimumPceSvn: uint16(p.GetHeaderPolicy().GetMinimumPceSvn()),
			QeVendorID: p.GetHeaderPolicy().GetQeVendorId()},
	}
	b := p.GetTdQuoteBodyPolicy()
	o.TdQuoteBodyOptions = validate.TdQuoteBodyOptions{MinimumTeeTcbSvn: b.GetMinimumTeeTcbSvn(), MrSeam: b.GetMrSeam(), TdAttributes: b.GetTdAttributes(),
		Xfam: b.GetXfam(), MrTd: b.GetMrTd(), MrConfigID: b.GetMrConfigId(), MrOwner: b.GetMrOwner(), MrOwnerConfig: b.GetMrOwnerConfig(),
		Rtmrs: b.GetRtmrs(), ReportData: b.GetReportData(), AnyMrTd: b.GetAnyMrTd()}
	e := c08Expect(q, o)
	return e.wf && e.holds
}
